import Bmc.Lemmas.GenKeys
/-! `algorithmCipher` (confidentiality.go), re-translated from the Go source on every run: the AES-128 key is the first 16 bytes of
    `g.K(2)` — as the session model takes it (`Proofs/C01.lean: k2 := k2.take 16`; `Proto/Session.lean: Sess.k2`) — and
    every confidentiality algorithm but AES-CBC-128 is refused, as in `Proto.stepRakp4`
    (see `Proofs/GenKeys/SIK.lean` for the conventions). -/
namespace Bmc.Proofs.GenKeys
open Bmc Bmc.Wire Bmc.Crypto Bmc.Proto Bmc.Gen.Keys Bmc.Lemmas.GenKeys

/-- over ALL 256 values of the algorithm byte: an error except for 1; there `ipmi.NewAES128CBC` receives the `[16]byte`
    that `copy(key[:], g.K(2))` leaves -/
theorem algorithmCipher_key (a : UInt8) (K : Int → Bytes) :
    algorithmCipher_k2 a K = if a = 1 then some (GoKeys.copyArr 16 (List.replicate 16 0) (K 2)) else none := by
  unfold algorithmCipher_k2
  by_cases h0 : a = 0
  · subst h0; rfl
  by_cases h1 : a = 1
  · subst h1; rfl
  simp [h0, h1]

/-- … which is the first 16 bytes of K2 whenever K2 has them (every HMAC the library supports is at least 16 bytes long) -/
theorem algorithmCipher_key_is_take16 (K : Int → Bytes) (h : 16 ≤ (K 2).length) :
    algorithmCipher_k2 1 K = some ((K 2).take 16) := by
  rw [algorithmCipher_key, if_pos rfl, copyArr_full _ _ _ h]

end Bmc.Proofs.GenKeys
