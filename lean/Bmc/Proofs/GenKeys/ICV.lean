import Bmc.Lemmas.GenKeys
/-! `calculateRAKPMessage4ICV`: the bytes the function re-translated from the Go source on every run writes into its hash are
    the message of the model's `icvOf`, and the hash `newV2Session` hands it (`hashGenerator.ICV(sik)`, regenerated too)
    truncates as the model does (see `Proofs/GenKeys/SIK.lean` for the conventions). -/
namespace Bmc.Proofs.GenKeys
open Bmc Bmc.Wire Bmc.Crypto Bmc.Proto Bmc.Gen.Keys Bmc.Lemmas.GenKeys

/-- pins `Proto.icvOf`: the RAKP 4 integrity check value the model expects is the keyed hash, under the SIK, of exactly the
    bytes `calculateRAKPMessage4ICV` writes — R_M ‖ SID_C ‖ GUID_C — truncated to `icvLen` bytes -/
theorem calculateRAKPMessage4ICV_input_eq (C : Ops) (h : HashAlg) (a : UInt8) (sik : Bytes) (o : Opts) (rm : Bytes)
    (osr : OpenSessionRsp) (rk2 : RAKP2) (g1 : RAKPMessage1) (g2 : RAKPMessage2) (h1 : Rakp1Is g1 o rm osr) (h2 : Rakp2Is g2 rk2) :
    icvOf C h a sik rm osr rk2 =
      (let full := C.hmac h sik (calculateRAKPMessage4ICV_input g1 g2)
       if icvLen a == 0 then full else full.take (icvLen a)) := by
  simp (disch := len4) only [icvOf, calculateRAKPMessage4ICV_input, h1.remoteConsoleRandom, h2.managedSystemGUID,
    List.nil_append, List.append_assoc, putUint32LE_eq, h1.managedSystemSessionID]

/-- the same through the REGENERATED constructors: for an authentication algorithm the model knows (`authHash a = some h`)
    `algorithmAuthenticationHashGenerator a` succeeds, and `Sum(nil)` of the hash `.ICV(sik)` builds (an HMAC, inside a
    `truncatedHash` unless `icvLength` is 0), after `calculateRAKPMessage4ICV` wrote into it, is the model's `icvOf`.
    `hlen`: the HMAC has the digest's length (so that `sum[:icvLength]` stays inside it). -/
theorem calculateRAKPMessage4ICV_mac (C : Ops) (h : HashAlg) (a : UInt8) (ha : authHash a = some h)
    (hlen : ∀ k m, (C.hmac h k m).length = h.size) (sik : Bytes) (o : Opts) (rm : Bytes)
    (osr : OpenSessionRsp) (rk2 : RAKP2) (g1 : RAKPMessage1) (g2 : RAKPMessage2) (h1 : Rakp1Is g1 o rm osr) (h2 : Rakp2Is g2 rk2) :
    ∃ p, algorithmAuthenticationHashGenerator a = some p ∧
      mac C (authenticationAlgorithmParams_ICV p sik) (calculateRAKPMessage4ICV_input g1 g2) = some (icvOf C h a sik rm osr rk2) := by
  rw [calculateRAKPMessage4ICV_input_eq C h a sik o rm osr rk2 g1 g2 h1 h2]
  generalize calculateRAKPMessage4ICV_input g1 g2 = m
  unfold authHash at ha
  split at ha
  · injection ha with ha; subst ha
    refine ⟨_, rfl, ?_⟩
    have := hlen sik m
    simp [authenticationAlgorithmParams_ICV, authenticationAlgorithmParams_K, mac, hashAlg, icvLen]
    exact truncatedHash_Sum_nil _ 12 (by rw [this]; decide)
  · injection ha with ha; subst ha
    exact ⟨_, rfl, by simp [authenticationAlgorithmParams_ICV, authenticationAlgorithmParams_K, mac, hashAlg, icvLen]⟩
  · injection ha with ha; subst ha
    refine ⟨_, rfl, ?_⟩
    have := hlen sik m
    simp [authenticationAlgorithmParams_ICV, authenticationAlgorithmParams_K, mac, hashAlg, icvLen]
    exact truncatedHash_Sum_nil _ 16 (by rw [this]; decide)
  · cases ha

example (C : Ops) (h : HashAlg) (a : UInt8) (sik : Bytes) (o : Opts) (rm : Bytes) (osr : OpenSessionRsp) (rk2 : RAKP2)
    (hs : osr.bmcSessionID < 4294967296) (hc : rk2.consoleSessionID < 4294967296) :
    icvOf C h a sik rm osr rk2 =
      (let full := C.hmac h sik (calculateRAKPMessage4ICV_input (rakp1Of o rm osr) (rakp2Of rk2))
       if icvLen a == 0 then full else full.take (icvLen a)) :=
  calculateRAKPMessage4ICV_input_eq C h a sik o rm osr rk2 _ _ (rakp1Of_is o rm osr hs) (rakp2Of_is rk2 hc)

end Bmc.Proofs.GenKeys
