import Bmc.Lemmas.GenKeys
/-! `algorithmHasher` (hasher.go), re-translated from the Go source on every run: which hash, which key and which truncation per
    integrity algorithm — the session model's `integMac` (`Proto/Session.lean`), over ALL 256 values of the algorithm byte
    (see `Proofs/GenKeys/SIK.lean` for the conventions). -/
namespace Bmc.Proofs.GenKeys
open Bmc Bmc.Wire Bmc.Crypto Bmc.Proto Bmc.Gen.Keys Bmc.Lemmas.GenKeys

/-- pins `Proto.integMac` (the AuthCode of every in-session packet) and the refusal in `Proto.stepRakp4`: `algorithmHasher`
    fails exactly outside {1, 2, 4} (None included); otherwise `Sum(nil)` of the hash it builds, after `m` was written, is
    `integMac` under the key `g.K(1)`: HMAC-SHA1 cut to 12 bytes, HMAC-MD5 whole, HMAC-SHA256 cut to 16.
    `hlen`: the HMAC has the digest's length (so that `sum[:length]` stays inside it). -/
theorem algorithmHasher_is_integMac (C : Ops) (hlen : ∀ a k m, (C.hmac a k m).length = a.size) (i : UInt8)
    (K : Int → Bytes) (m : Bytes) :
    (match algorithmHasher i K with | some hv => mac C hv m | none => none)
      = if i = 1 ∨ i = 2 ∨ i = 4 then some (integMac C i.toNat (K 1) m) else none := by
  unfold algorithmHasher
  by_cases h0 : i = 0
  · subst h0; rfl
  by_cases h1 : i = 1
  · subst h1
    have := hlen .sha1 (K 1) m
    simp [mac, hashAlg, integMac]
    exact truncatedHash_Sum_nil _ 12 (by rw [this]; decide)
  by_cases h2 : i = 2
  · subst h2; simp [mac, hashAlg, integMac]
  by_cases h4 : i = 4
  · subst h4
    have := hlen .sha256 (K 1) m
    simp [mac, hashAlg, integMac]
    exact truncatedHash_Sum_nil _ 16 (by rw [this]; decide)
  simp [h0, h1, h2, h4]

end Bmc.Proofs.GenKeys
