import Bmc.Lemmas.GenKeys
import Bmc.Lemmas.HandshakeInv
import Bmc.Spec.Rakp
/-! `additionalKeyMaterialGenerator.K`: the constant the method re-translated from the Go source on every run builds (and writes
    into its hash through `executeHash`) is the byte `n` twenty times — the message of the model's K1 / K2
    (`Proto.stepRakp4`) and of the specification's `Spec.k` (see `Proofs/GenKeys/SIK.lean` for the conventions). -/
namespace Bmc.Proofs.GenKeys
open Bmc Bmc.Wire Bmc.Crypto Bmc.Proto Bmc.Gen.Keys Bmc.Lemmas.GenKeys

/-- the loop `for i := 0; i < kConstantLength; i++ { constant[i] = uint8(n) }` over `make([]byte, kConstantLength)`:
    20 bytes, each `n` modulo 256, for EVERY int `n` -/
theorem K_constant_eq (n : Int) : K_constant n = List.replicate 20 (UInt8.ofNat (n % 256).toNat) := by
  simp only [K_constant]
  rw [fill _ 20 _ (by simp)]
  simp

/-- `executeHash(g.hash, constant)` writes exactly that constant -/
theorem K_input_eq (n : Int) : K_input n = List.replicate 20 (UInt8.ofNat (n % 256).toNat) := by
  simp only [K_input, executeHash_input, K_constant_eq, List.nil_append]

/-- pins the K1 / K2 of `Proto.stepRakp4` (hence of every session `Proto.newSession` returns): they are the keyed hash,
    under the SIK and the authentication algorithm's hash, of what `K(1)` / `K(2)` write — `algorithmHasher` asks for
    `g.K(1)`, `algorithmCipher` for `g.K(2)` (`Proofs/GenKeys/Integrity.lean`, `Cipher.lean`) -/
theorem session_k1_k2 (C : Ops) (o : Opts) (rm : Bytes) (script : List Outcome) (l r : Nat) (a i c : UInt8)
    (sik k1 k2 : Bytes) (h : (newSession C o rm script).2 = .ok l r a i c sik k1 k2) :
    ∃ hh, authHash a = some hh ∧ k1 = C.hmac hh sik (K_input 1) ∧ k2 = C.hmac hh sik (K_input 2) := by
  obtain ⟨osr, rk2, hh, s2, s3, h1, h2, h3, _⟩ := newSession_ok C o rm script l r a i c sik k1 k2 h
  obtain ⟨_, _, hr, _⟩ := stepRakp4_ok C o rm osr rk2 hh s3 _ h3
  obtain ⟨_, _, hauth, _⟩ := stepRakp2_ok C o rm osr s2 rk2 hh h2
  injection hr with _ _ e3 _ _ e6 e7 e8
  subst e3 e6 e7 e8
  exact ⟨hh, hauth, by rw [K_input_eq]; rfl, by rw [K_input_eq]; rfl⟩

/-- pins `Spec.k` (§13.32): the specification's K_n is the keyed hash of what `K(n)` writes, for every octet `n` -/
theorem spec_k_is_K_input (C : Ops) (h : HashAlg) (sik : Bytes) (n : UInt8) :
    Spec.k C h sik n = C.hmac h sik (K_input n.toNat) := by
  rw [K_input_eq, Spec.k]
  congr 2
  apply UInt8.toNat_inj.mp
  have := UInt8.toNat_lt n
  simp
  omega

end Bmc.Proofs.GenKeys
