import Bmc.Gen.Facts
import Bmc.Proto.Sensor
/-! # C15: the sensor reader's source, as it stands on this run, is what `Proto/Sensor.lean` transcribes (regenerated facts)

The reader (`sensor_reader.go`) goes through interfaces and function values, outside the language of the statement-level
translators; its hand model is tied to the code by the `conv` correspondence (every reading of the run, bit for bit on the linear part
and four linearisations). In addition `tools/factgen` records, on every run, (a) WHICH function each of the two lookup tables holds
for which key and (b) the bodies of the five reader functions, the two table look-ups and the two adapter methods, as normalised
source text; the obligations below pin them to what the model was written from. A change to any of them — another function in a
table slot, a swapped or removed status check, a different fall-through — breaks an obligation at build time. -/
namespace Bmc.Proofs.C15
open Bmc Bmc.Proto.Sensor

/-- `linearisationLinearisers`: key ↦ function, as in the source on this run; the model's `lineariserTable` names them
    mathLog, mathLog10, mathLog2, mathExp, powTenF, mathExp2, powFNeg1, powF2, powF3, mathSqrt, powFThird (here `math.Cbrt`: the
    repaired cube root) in this order -/
theorem lineariser_table_source : Bmc.Gen.Facts.linearisationLinearisersSrc = [
  ("LinearisationLn", "LineariserFunc(math.Log)"),
  ("LinearisationLog10", "LineariserFunc(math.Log10)"),
  ("LinearisationLog2", "LineariserFunc(math.Log2)"),
  ("LinearisationE", "LineariserFunc(math.Exp)"),
  ("LinearisationExp10", "LineariserFunc(func(f float64) float64 { return math.Pow(10, f) })"),
  ("LinearisationExp2", "LineariserFunc(math.Exp2)"),
  ("LinearisationInverse", "LineariserFunc(func(f float64) float64 { return math.Pow(f, -1) })"),
  ("LinearisationSqr", "LineariserFunc(func(f float64) float64 { return math.Pow(f, 2) })"),
  ("LinearisationCube", "LineariserFunc(func(f float64) float64 { return math.Pow(f, 3) })"),
  ("LinearisationSqrt", "LineariserFunc(math.Sqrt)"),
  ("LinearisationCubeRt", "LineariserFunc(math.Cbrt)")] := rfl

/-- `analogDataFormatParsers`: key ↦ parser function (the three parsers are regenerated scalar functions of `Gen/Prims.lean`) -/
theorem parser_table_source : Bmc.Gen.Facts.analogDataFormatParsersSrc = [
  ("AnalogDataFormatUnsigned", "AnalogDataFormatParserFunc(parseAnalogDataFormatUnsigned)"),
  ("AnalogDataFormatOnesComplement", "AnalogDataFormatParserFunc(parseAnalogDataFormatOnesComplement)"),
  ("AnalogDataFormatTwosComplement", "AnalogDataFormatParserFunc(parseAnalogDataFormatTwosComplement)")] := rfl

/-- the bodies of `NewSensorReader`, `newLinearSensorReader`, `linearSensorReader.Read`, `newLinearisedSensorReader`,
    `linearisedSensorReader.Read`, the two table look-ups and the two adapter methods -/
theorem sensor_reader_source : Bmc.Gen.Facts.sensorReaderBodies = [
  ("bmc.NewSensorReader", "{ switch { case r.Linearisation.IsLinear(): return newLinearSensorReader(r) case r.Linearisation.IsLinearised(): return newLinearisedSensorReader(r) default: return nil, fmt.Errorf(\"unsupported sensor linearisation: %v\", r.Linearisation) } }"),
  ("bmc.linearSensorReader.Read", "{ if err := ValidateResponse(s.SendCommand(ctx, &r.readingCmd)); err != nil { return 0, err } if r.readingCmd.Rsp.ReadingUnavailable { return 0, ErrSensorReadingUnavailable } if !r.readingCmd.Rsp.ScanningEnabled { return 0, ErrSensorScanningDisabled } parsed := r.parser.Parse(r.readingCmd.Rsp.Reading) return r.factors.ConvertReading(parsed), nil }"),
  ("bmc.linearisedSensorReader.Read", "{ reading, err := r.linearReader.Read(ctx, s) if err != nil { return 0, err } return r.lineariser.Linearise(reading), nil }"),
  ("bmc.newLinearSensorReader", "{ parser, err := r.AnalogDataFormat.Parser() if err != nil { return nil, err } return &linearSensorReader{ readingCmd: ipmi.GetSensorReadingCmd{ Req: ipmi.GetSensorReadingReq{ Number: r.Number, }, OwnerLUN: r.OwnerLUN, }, factors: r.ConversionFactors, parser: parser, }, nil }"),
  ("bmc.newLinearisedSensorReader", "{ reader, err := newLinearSensorReader(r) if err != nil { return nil, err } lineariser, err := r.Linearisation.Lineariser() if err != nil { return nil, err } return &linearisedSensorReader{ linearReader: reader, lineariser: lineariser, }, nil }"),
  ("ipmi.AnalogDataFormat.Parser", "{ if parser, ok := analogDataFormatParsers[f]; ok { return parser, nil } return nil, fmt.Errorf(\"no analog data format parser found for %v\", f) }"),
  ("ipmi.AnalogDataFormatParserFunc.Parse", "{ return f(r) }"),
  ("ipmi.Linearisation.Lineariser", "{ if lineariser, ok := linearisationLinearisers[l]; ok { return lineariser, nil } return nil, ErrNotLinearised }"),
  ("ipmi.LineariserFunc.Linearise", "{ return l(f) }")] := rfl

/-- the model's table has the same keys in the same order as the source's (11 entries, codes 1 … 11) -/
theorem lineariser_table_keys : lineariserTable.map (·.1) = [1, 2, 3, 4, 5, 6, 7, 8, 9, 10, 11] ∧
    Bmc.Gen.Facts.linearisationLinearisersSrc.length = 11 := by decide

end Bmc.Proofs.C15
