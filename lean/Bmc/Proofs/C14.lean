import Bmc.Lemmas.SdrWalkRetrieve
import Bmc.Lemmas.SdrWalkLog
/-! # C14 — SDR repository retrieval returns one consistent, complete set of records (property theorems only)

    Model of `sdr_repository.go`: `Proto/SdrWalk.lean` (`walk`, `attempt`, `retrieve`, functions of the BMC's answer
    function). Specification of the SDR Repository Device: `Spec/Repo.lean` (`Repo`, `World` = a BMC with the
    modifications still to come). `bmc : Answer World` is that BMC as an answer function; `fullView recs` is the
    expected result: the type-01h records in repository order, each under its own ID, decoded by
    `FullSensorRecord.decode` (whose agreement with the specification's table is C07's `fullSensor_decode_spec`).

    All theorems are for `keyOwn = true`, the REPAIRED map key (`header.ID`). The pinned tree keys by the ID that was
    requested (`keyOwn = false`); the `example` after `walk_complete` exhibits its failure. -/
namespace Bmc.Proofs.C14
open Bmc Bmc.Wire Bmc.Spec Bmc.Proto.SdrWalk Bmc.Lemmas.SdrWalk

-- 1. completeness ---------------------------------------------------------------------------------------------------------
/-- For a repository of ANY size whose Record IDs are distinct, not FFFFh and 0000h at most for the first record, whose
    Full Sensor Records have at most 64 bytes after the header (the library's limit) and decode: against the
    conforming BMC holding it, `walkSDRs` returns exactly the Full Sensor Records, in repository order, each under the
    record's OWN ID — whatever other record types lie between them — given one unit of fuel per record plus one
    (fuel-suffices: the loop runs `recs.length` times and is left on the FFFFh link). -/
theorem walk_complete (R : Repo) (fuel : Nat) (hwf : wfStore R.store.recs) (hne : R.store.recs ≠ [])
    (hfull : wfFull R.store.recs) (hfuel : R.store.recs.length < fuel) :
    (walk true bmc fuel (World.quiet R)).2 = .ok (fullView R.store.recs) := by
  rw [walk_complete_quiet R fuel hwf hne hfull hfuel]

/-- … and so does `RetrieveSDRRepository`, at the first attempt (the timestamps read the same before and after) -/
theorem retrieve_complete (R : Repo) (fuel n : Nat) (hwf : wfStore R.store.recs) (hne : R.store.recs ≠ [])
    (hfull : wfFull R.store.recs) (hfuel : R.store.recs.length < fuel) :
    (retrieve true bmc fuel (n + 1) (World.quiet R)).2 = some (fullView R.store.recs) := by
  rw [retrieve_complete_quiet R fuel n hwf hne hfull hfuel]

/-- "each exactly once, under the record's own ID, with every field equal to the reference decoding": an entry `(k, f)`
    is in the result iff the repository holds a type-01h record with ID `k` whose key-and-body bytes decode to `f`;
    no key occurs twice; and where those bytes are the specification's encoding of field values `v` (every field of
    the §43.1 table, all four ID string encodings, every length), `f` is exactly those values (by C07). -/
theorem result_exact (recs : List SdrRec) (hwf : wfStore recs) :
    (∀ k f, (k, f) ∈ fullView recs ↔ ∃ r ∈ recs, r.typ = 1 ∧ r.id = k ∧ FullSensorRecord.decode r.body = .ok f) ∧
    ((fullView recs).map (·.1)).Nodup ∧
    (∀ r ∈ recs, r.typ = 1 → ∀ v : Spec.FullSensor, v.wf → r.body = v.encode → (r.id, C07.fullSensorView v) ∈ fullView recs) := by
  refine ⟨fullView_mem recs, fullView_nodup recs hwf, ?_⟩
  intro r hr ht v hv hb
  exact (fullView_mem recs _ _).mpr ⟨r, hr, ht, rfl, by rw [hb, C07.fullSensor_decode_spec v hv]⟩

/-- a repository for the examples: first record ID 0005h (Full Sensor Record "CPU Temp" of the library's own test),
    an FRU Device Locator 0002h, a second Full Sensor Record with ID 0100h, an OEM record 0001h -/
def exampleRepo : Repo :=
  { store := { recs := [⟨0x0005, 0x01, C07.cpuTemp.encode⟩, ⟨0x0002, 0x11, [1, 2, 3]⟩,
                        ⟨0x0100, 0x01, ({ C07.cpuTemp with number := 2, idString := ⟨.packed6, [0x38, 0x24]⟩ } : Spec.FullSensor).encode⟩,
                        ⟨0x0001, 0xC0, [0x57, 0x01, 0x00]⟩]
               addTs := 100, eraseTs := 7 } }

/-- the hypotheses are satisfiable -/
example : wfStore exampleRepo.store.recs ∧ exampleRepo.store.recs ≠ [] ∧ wfFull exampleRepo.store.recs ∧
    exampleRepo.store.recs.length < 5 := by decide +kernel

/-- the repaired walk returns the two Full Sensor Records under 0005h and 0100h … -/
example : ((walk true bmc 5 (World.quiet exampleRepo)).2, (walk true bmc 4 (World.quiet exampleRepo)).2) =
    (.ok (fullView exampleRepo.store.recs), .outOfFuel) ∧
    (fullView exampleRepo.store.recs).map (·.1) = [0x0005, 0x0100] := by decide +kernel

/-- DEFECT of the pinned tree (`keyOwn = false`, `repo[getSDRCmd.Req.RecordID] = …`): the first record is requested
    as 0000h and is stored under that key although its own ID is 0005h -/
example : (match (walk false bmc 5 (World.quiet exampleRepo)).2 with | .ok m => m.map (·.1) | _ => []) = [0x0000, 0x0100] := by
  decide +kernel

-- 2. a cancelled reservation or a newer timestamp: the candidate is dropped and the walk repeated --------------------------
/-- ANY BMC (no assumption on the answer function): if any Get SDR of a walk fails or completes with a code other than
    00h — C5h "reservation cancelled" in particular — `walkSDRs` does not return a map -/
theorem modified_discarded_getSDR {σ : Type} (k : Bool) (a : Answer σ) (fuel : Nat) (s : σ)
    (h : ∃ e ∈ (walk k (logged a) fuel (s, [])).1.2, badGetSDR e = true) (m : SDRRepository) :
    (walk k (logged a) fuel (s, [])).2 ≠ .ok m := by
  intro hm
  obtain ⟨e, he, hb⟩ := h
  have := walk_log k a fuel s (walk k (logged a) fuel (s, [])).1.1 (walk k (logged a) fuel (s, [])).1.2 m
    (by rw [← hm])
  rw [this e he] at hb
  exact Bool.noConfusion hb

/-- ANY BMC: a walk that did not return a map makes the closure return its error … -/
theorem modified_discarded_walk {σ : Type} (k : Bool) (a : Answer σ) (fuel : Nat) (s s1 s2 : σ) (i1 : SDRRepoInfoRsp)
    (r : Res SDRRepository) (h1 : call a SDRRepoInfoRsp.decode s .repoInfo = (s1, some i1))
    (h2 : walk k a fuel s1 = (s2, r)) (hr : ∀ m, r ≠ .ok m) : attempt k a fuel s = (s2, r) := by
  unfold attempt
  rw [h1]
  simp only
  rw [h2]
  cases r with
  | ok m => exact absurd rfl (hr m)
  | err => rfl
  | outOfFuel => rfl

/-- … and a newer addition or erase timestamp in the final Get SDR Repository Info makes it drop the candidate the
    walk did return -/
theorem modified_discarded_timestamp {σ : Type} (k : Bool) (a : Answer σ) (fuel : Nat) (s s1 s2 s3 : σ)
    (i1 i2 : SDRRepoInfoRsp) (cand : SDRRepository)
    (h1 : call a SDRRepoInfoRsp.decode s .repoInfo = (s1, some i1)) (h2 : walk k a fuel s1 = (s2, .ok cand))
    (h3 : call a SDRRepoInfoRsp.decode s2 .repoInfo = (s3, some i2))
    (hnew : i1.lastAddition < i2.lastAddition ∨ i1.lastErase < i2.lastErase) : attempt k a fuel s = (s3, .err) := by
  unfold attempt
  rw [h1]
  simp only
  rw [h2]
  simp only
  rw [h3]
  simp only
  rw [if_pos hnew]

/-- ANY BMC: whenever the closure did not return a candidate, the retry loop runs it again from the BMC's current
    state — a new Get SDR Repository Info, a new reservation, an empty map — as long as the context allows -/
theorem modified_discarded_repeat {σ : Type} (k : Bool) (a : Answer σ) (fuel n : Nat) (s s' : σ) (r : Res SDRRepository)
    (h : attempt k a fuel s = (s', r)) (hr : ∀ m, r ≠ .ok m) :
    retrieve k a fuel (n + 1) s = retrieve k a fuel n s' := by
  rw [retrieve, h]
  cases r with
  | ok m => exact absurd rfl (hr m)
  | err => rfl
  | outOfFuel => rfl

/-- a BMC whose reservation is lost just before the 2nd Get SDR (the body read of the first record): C5h, the walk is
    repeated; one attempt is not enough, two are -/
def loseWorld : World := { repo := exampleRepo, sched := [(true, []), (true, [.lose])] }
example : ((retrieve true bmc 5 1 loseWorld).2, (retrieve true bmc 5 2 loseWorld).2) =
    (none, some (fullView exampleRepo.store.recs)) := by decide +kernel

-- 3. the returned set is the repository at one instant ------------------------------------------------------------------------
/-- For a BMC whose repository may be modified (records added, deleted) and whose reservation may be lost before ANY
    request, any number of times, each modification bumping its timestamp and every store it passes through being
    well formed (`World.Inv`): whatever `RetrieveSDRRepository` returns is exactly the Full Sensor Records the
    repository holds at the instant the final Get SDR Repository Info of the successful run is answered (`w'` is the
    BMC at that instant) … -/
theorem snapshot (fuel n : Nat) (w w' : World) (m : SDRRepository) (hInv : w.Inv)
    (h : retrieve true bmc fuel n w = (w', some m)) : m = fullView w'.repo.store.recs :=
  retrieve_sound fuel n w w' m hInv h

/-- … and during that whole run — from the answer to its initial Get SDR Repository Info to the answer to its final one —
    the records did not change: every read of the run saw that one state -/
theorem snapshot_run (fuel : Nat) (w w' : World) (m : SDRRepository) (hInv : w.Inv)
    (h : attempt true bmc fuel w = (w', .ok m)) :
    m = fullView w'.repo.store.recs ∧ w'.repo.store.recs = (w.answer .info).1.repo.store.recs :=
  attempt_sound fuel w w' m hInv h

/-- the hypothesis is satisfiable on a BMC that changes under the walk: just before the 6th Get SDR (the header read
    of the last record) the Full Sensor Record 0005h, which the walk has already collected, is deleted -/
def modWorld : World :=
  { repo := exampleRepo
    sched := [(true, []), (true, []), (true, []), (true, []), (true, []), (true, [.delete 0x0005])] }
example : modWorld.Inv := inv_of_prefixes modWorld (by decide +kernel)

/-- on it the walk itself notices nothing — no partial read follows the deletion, so no C5h — and returns the stale
    candidate {0005h, 0100h}; the erase timestamp of the final Get SDR Repository Info is newer, the candidate is
    dropped (one attempt: error), and the second run returns the repository as it then stands: {0100h} -/
example : (match (walk true bmc 6 modWorld).2 with | .ok m => m.map (·.1) | _ => []) = [0x0005, 0x0100] ∧
    (retrieve true bmc 6 1 modWorld).2 = none ∧
    (match (retrieve true bmc 6 2 modWorld).2 with | some m => m.map (·.1) | none => []) = [0x0100] := by
  decide +kernel

end Bmc.Proofs.C14
