import Bmc.Lemmas.MessageRoundTrip
import Bmc.Lemmas.V2RoundTrip
import Bmc.Spec.Prim
/-! # C07 (IPMI message, session wrapper): specified encodings decode to their fields; bad checksums and an
    excessive length field are rejected -/
namespace Bmc.Proofs.C07
open Bmc Bmc.Wire Bmc.Prim

/-- the specification's IPMI LAN message (§13.8): rsAddr, NetFn/LUN, checksum 1, rqAddr, rqSeq/LUN, command,
    [completion code], [group body code | OEM IANA], data, checksum 2 -/
def specMessage (rs netFn rsLUN rq rqSeq rqLUN cmd : UInt8) (cc : Option UInt8) (prefix_ data : Bytes) : Bytes :=
  let head : Bytes := [rs, (netFn <<< 2) ||| rsLUN]
  let rest : Bytes := [rq, (rqSeq <<< 2) ||| rqLUN, cmd] ++ (match cc with | some c => [c] | none => []) ++ prefix_ ++ data
  head ++ [Spec.checksum head] ++ rest ++ [Spec.checksum rest]

/-- a plain (non-group, non-OEM) response decodes to its fields, for data of every length -/
theorem message_decode_spec_response (rs netFn rsLUN rq rqSeq rqLUN cmd cc : UInt8) (data : Bytes)
    (h1 : netFn.toNat < 64) (h2 : rsLUN.toNat < 4) (h3 : rqSeq.toNat < 64) (h4 : rqLUN.toNat < 4)
    (hr : isRequest netFn = false) (hg : isGroup netFn = false) (ho : isOEM netFn = false) :
    ∃ m, Message.decode 8 (specMessage rs netFn rsLUN rq rqSeq rqLUN cmd (some cc) [] data) = .ok m ∧
      m.function = netFn ∧ m.remoteLUN = rsLUN ∧ m.remoteAddress = rs ∧ m.localAddress = rq ∧ m.sequence = rqSeq ∧
      m.localLUN = rqLUN ∧ m.command = cmd ∧ m.completionCode = cc ∧ m.payload = data := by
  let m0 : Message := { function := netFn, command := cmd, remoteAddress := rs, remoteLUN := rsLUN, localAddress := rq
                        localLUN := rqLUN, sequence := rqSeq, completionCode := cc }
  have hwf : m0.WF := ⟨h1, h2, h4, h3, by show (0 : Nat) < 16777216; omega, fun _ => rfl, fun _ => rfl, fun h => by simp [m0, hr] at h⟩
  have hrt := Message.decode_encode m0 data hwf
  have henc : (Message.encode m0 data).2 = specMessage rs netFn rsLUN rq rqSeq rqLUN cmd (some cc) [] data := by
    simp [Message.encode, specMessage, m0, hr, hg, ho, checksum, Spec.checksum]
  rw [henc] at hrt
  exact ⟨_, hrt, rfl, rfl, rfl, rfl, rfl, rfl, rfl, rfl, rfl⟩

/-- checksum 1 wrong ⇒ rejected, whatever else the message holds -/
theorem message_bad_checksum1 (b : Bytes) (h : b.getD 2 0 ≠ checksum (b.take 2)) : Message.decode 8 b = .error () := by
  unfold Message.decode
  split
  · rfl
  · have : (b.getD 2 0 != checksum (b.take 2)) = true := by simpa using h
    simp only [this, if_true]

/-- checksum 2 wrong ⇒ rejected -/
theorem message_bad_checksum2 (b : Bytes)
    (h : b.getD (b.length - 1) 0 ≠ checksum ((b.drop 3).take (b.length - 1 - 3))) : Message.decode 8 b = .error () := by
  unfold Message.decode
  split
  · rfl
  · simp only []
    split
    · rfl
    · have : (b.getD (b.length - 1) 0 != checksum ((b.drop 3).take (b.length - 1 - 3))) = true := by simpa using h
      simp only [this, if_true]

/-- shorter than 7 bytes, or a response shorter than 8 ⇒ rejected -/
theorem message_short (b : Bytes) (h : b.length < 7) : Message.decode 8 b = .error () := by
  simp [Message.decode, h]

/-- a session wrapper whose length field exceeds the data that follows ⇒ rejected (non-OEM payload types) -/
theorem v2_length_exceeds (mac : Bytes → Bytes) (b : Bytes) (hoem : (b.getD 1 0 &&& 0x3f) ≠ 2)
    (h : b.length < 12 + le16 (b.drop 10)) : V2Session.decode mac b = .error () := by
  unfold V2Session.decode
  have hb : (b.getD 1 0 &&& 0x3f == 2) = false := by simpa using hoem
  simp only [hb, Bool.false_and, Bool.false_eq_true, if_false]
  repeat' split
  all_goals first | rfl | (exfalso; omega) | simp_all

theorem v2_short (mac : Bytes → Bytes) (b : Bytes) (h : b.length < 12) : V2Session.decode mac b = .error () := by
  simp [V2Session.decode, h]

example : isRequest 7 = false ∧ isGroup 7 = false ∧ isOEM 7 = false := by decide

end Bmc.Proofs.C07
