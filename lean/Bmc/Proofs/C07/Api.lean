import Bmc.Lemmas.Api
import Bmc.Lemmas.ApiSessionless
import Bmc.Lemmas.ApiRequest
import Bmc.Lemmas.ApiFits
import Bmc.Proofs.C03
import Bmc.Proofs.C06
import Bmc.Proofs.C07.Basic
import Bmc.Proofs.C07.Sess
import Bmc.Proofs.C07.Sdr
import Bmc.Proofs.C07.Dcmi
import Bmc.Proofs.C17.Core
import Bmc.Crypto.Toy
/-! # C07 / C06 / C11 / C17 at the level a caller sees: the HIGH-LEVEL API CALLS, end to end (property theorems only)

`Proto/Api.lean` models every wrapper around `SendCommand` (`bmc.V2Session`'s twelve methods, `V2Sessionless`'s two, the
DCMI commanders' seven): which command the wrapper builds from its arguments, and what `SendCommand` +
`ValidateResponse` + the wrapper's `return` make of the response. The theorems tie the pieces proved elsewhere together,
for EVERY call:

* `call_returns_decoded` / `sessionless_call_returns_decoded` (generic) and one instance per call
  (`getDeviceID_returns`, …): when the BMC answers with the specification's response datagram carrying completion
  code 00h and the specification's encoding of ANY well-formed value `v`, the call returns exactly `v`'s fields (the
  per-layer `…_decode_spec` theorems), after ONE transmission, of the datagram of exactly this call's command.
* `request_is_the_call` / `sessionless_request_is_the_call`: that datagram opens (under K1 / K2, resp. the reference
  parser of C06) to the specification's NetFn / command / group byte for this call, on LUN 0, with request data the
  reference parser reads back as the caller's arguments; `callback_refused`: the one request the specification cannot
  carry is refused before anything is sent.
* `nonzero_code_is_error` (+ session-less): a final response with any completion code other than 00h is an error,
  whatever body follows; `value_only_from_code_zero` (+ session-less): for EVERY reply script, a value reaches the
  caller only from a reply to this very command with code 00h whose body the call's own response layer decodes to
  exactly that value — never from another command's reply (C11) and never from anything decoded earlier (C17: the
  result is a function of that one reply). -/
namespace Bmc.Proofs.C07
open Bmc Bmc.Wire Bmc.Crypto Bmc.Proto

/-- the datagram with which a conforming BMC answers `call` inside session `s`: response message to the call's
    command with completion code `cc` and body `body`, AES-CBC under K2 with IV `riv`, wrapped for the console's
    session ID with sequence number `seq`, AuthCode under K1 (`Lemmas/ResponseAccepted.lean`) -/
abbrev bmcAnswers (C : Ops) (s : Sess) (call : Call) (cc : UInt8) (body : Bytes) (seq : Nat) (riv : Bytes) : Outcome :=
  .reply (responseDatagram C s.keys (call.cmdFor s.remoteID) cc body seq riv)

/-- the datagram of the call's command under the session's keys, at its current counter, with this attempt's IV -/
abbrev requestOf (C : Ops) (s : Sess) (call : Call) (iv : Bytes) : Bytes :=
  datagramOf C s.keys (call.cmdFor s.remoteID) s.inbound iv

/-- what the types of the library guarantee about the values involved: a 32-bit console session ID, a 32-bit
    sequence number in the BMC's reply, a 16-byte IV -/
structure ReplyOK (s : Sess) (seq : Nat) (riv : Bytes) : Prop where
  riv : riv.length = 16
  id : s.localID < 4294967296
  seq : seq < 4294967296

/-! ## Generic theorems, for every call -/

/-- END TO END, in session: if the call's response layer decodes `enc` to `val` (the per-call `…_decode_spec` fact),
    then the call answered by (00h, `enc`) returns exactly `val` after one transmission — for every lawful cipher /
    hash, session, counter, IV, reply sequence number and whatever the script holds afterwards -/
theorem call_returns_decoded (C : Ops) (hC : C.Lawful) (call : Call) (hreq : call ≠ .setSessionPrivilegeLevel 1) (s : Sess)
    (enc : Bytes) (val : Value) (hdec : call.decodeBody enc = .ok val) (hfit : enc.length ≤ 65000)
    (iv : Bytes) (ivs : List Bytes) (seq : Nat) (riv : Bytes) (rest : List Outcome) (h : ReplyOK s seq riv) :
    (sessCall C s call (iv :: ivs) (bmcAnswers C s call 0 enc seq riv :: rest)).2 = ([requestOf C s call iv], .ok val) := by
  rw [sessCall_response C hC call hreq s iv ivs 0 enc seq riv rest h.riv h.id h.seq
    (responseAes_fits C hC _ _ _ _ _ h.riv hfit) (by decide), finish_zero call enc val hdec]

/-- a NON-ZERO completion code is an error, never a value — whatever body the BMC sends along (none, a truncated
    one, a full conforming one). (The two temporary codes C0h / C3h are retried instead: C10.) -/
theorem nonzero_code_is_error (C : Ops) (hC : C.Lawful) (call : Call) (hreq : call ≠ .setSessionPrivilegeLevel 1) (s : Sess)
    (cc : UInt8) (hcc : cc ≠ 0) (hnt : isTemp cc = false) (body : Bytes) (hfit : body.length ≤ 65000)
    (iv : Bytes) (ivs : List Bytes) (seq : Nat) (riv : Bytes) (rest : List Outcome) (h : ReplyOK s seq riv) :
    (sessCall C s call (iv :: ivs) (bmcAnswers C s call cc body seq riv :: rest)).2 = ([requestOf C s call iv], .err) := by
  rw [sessCall_response C hC call hreq s iv ivs cc body seq riv rest h.riv h.id h.seq
    (responseAes_fits C hC _ _ _ _ _ h.riv hfit) hnt, finish_nonzero call cc hcc]

/-- … as a statement about `SendCommand` + `ValidateResponse` + wrapper alone: for every call, code and body -/
theorem finish_nonzero_code (call : Call) (cc : UInt8) (hcc : cc ≠ 0) (body : Bytes) : call.finish cc body = .err :=
  finish_nonzero call cc hcc body

/-- SOUNDNESS, every script: whatever the BMC (or anybody else) sends — any number of replies, lost, forged,
    truncated, belonging to other commands, carrying any codes — a value is handed to the caller only when some reply
    of the script decodes as an authentic response to THIS call's command, for this session, with completion code 00h
    and a body which the call's response layer (fresh receiver) decodes to exactly that value -/
theorem value_only_from_code_zero (C : Ops) (call : Call) (s : Sess) (hs : s.inbound < 4294967296) (ivs : List Bytes)
    (script : List Outcome) (hl : script.length ≤ ivs.length) (v : Value) (h : (sessCall C s call ivs script).2.2 = .ok v) :
    ∃ d v2 msg, Outcome.reply d ∈ script ∧
      view (onReply C s.keys.sess (GoSlice.ofBytes d)) = (.message, some (v2, msg)) ∧
      msg.function = (call.cmdFor s.remoteID).fn + 1 ∧ msg.command = (call.cmdFor s.remoteID).cmd ∧
      msg.body = (call.cmdFor s.remoteID).body ∧ msg.completionCode = 0 ∧ call.decodeBody msg.payload = .ok v := by
  obtain ⟨d, v2, msg, hm, hv, hacc, hcc, hdec⟩ := sessCall_ok_inv C call s hs ivs script hl v h
  simp [accept] at hacc
  exact ⟨d, v2, msg, hm, hv, hacc.1.1.1.2, hacc.1.1.2, hacc.1.2, hcc, hdec⟩

/-- NO STALE DATA across calls (C17 at the caller's level): two states of a session that agree on the keys and the
    counter — whatever earlier calls and their replies left in the connection's layers — give the same transmitted
    bytes, the same returned value and the same final counter, for every call and every reply script (the command
    struct, and with it the response layer, is allocated per call: `decodeBody` starts from a zero receiver) -/
theorem call_history_independent (C : Ops) (call : Call) (s s' : Sess) (hk : s'.keys = s.keys) (hi : s'.inbound = s.inbound)
    (hs : s.inbound < 4294967296) (ivs : List Bytes) (script : List Outcome) (hl : script.length ≤ ivs.length) :
    (sessCall C s' call ivs script).2 = (sessCall C s call ivs script).2 := by
  have hrid : s'.remoteID = s.remoteID := congrArg Keys.remoteID hk
  by_cases hreq : call = .setSessionPrivilegeLevel 1
  · subst hreq; rw [sessCall_refused, sessCall_refused]
  · have hf : (call.cmdFor s.remoteID).reqFails = false := by rw [cmdFor_reqFails]; simp [hreq]
    have h := (C17.session_history_independent C (call.cmdFor s.remoteID) hf s s' hk hi hs ivs script hl).1
    unfold sessCall send
    simp only [hrid]
    rw [Prod.ext_iff] at h
    exact Prod.ext h.1 (by rw [h.2])

/-- no call ever panics on a response the loop hands it (the per-layer C05 theorems, through the wrapper) -/
theorem finish_never_panics (call : Call) (cc : UInt8) (body : Bytes) : (call.finish cc body).bad = false :=
  finish_safe call cc body

/-- Set Session Privilege Level = Callback (reserved) is refused: nothing is transmitted, the call fails -/
theorem callback_refused (C : Ops) (s : Sess) (ivs : List Bytes) (script : List Outcome) :
    (sessCall C s (.setSessionPrivilegeLevel 1) ivs script).2 = ([], .err) :=
  sessCall_refused C s ivs script

/-- the operation of every call is the specification's (NetFn, command, group-extension byte) for that command, sent
    to LUN 0 -/
theorem operation_is_spec (call : Call) :
    call.wire.operation.function.toNat = (C06.specCode call.wire).netFn ∧
    call.wire.operation.command.toNat = (C06.specCode call.wire).cmd ∧
    Req.expectedExt call.wire.operation = (C06.specCode call.wire).ext ∧ call.wire.lun 0 = 0 := by
  obtain ⟨_, h1, h2, h3, h4⟩ := C06.operation_table call.wire
  refine ⟨h1, h2, h3, ?_⟩
  rw [h4]; split <;> rfl

/-- THE REQUEST, in session: for in-width arguments, the transmitted datagram opens under the session's keys (what
    the BMC does: verify the AuthCode under K1, decrypt under K2, check both checksums) to a request message from the
    console (81h) to the BMC (20h), LUN 0, carrying the call's operation (`operation_is_spec`: the specification's)
    and request data which the specification's reference parser reads back as exactly the caller's arguments; it
    bears the BMC's session ID and the next sequence number, and uses this attempt's IV -/
theorem request_is_the_call (C : Ops) (hC : C.Lawful) (call : Call) (s : Sess) (hargs : call.argsWf s.remoteID)
    (hr : s.remoteID < 4294967296) (iv : Bytes) (hiv : iv.length = 16) :
    ∃ v a m, V2Session.decode (integMac C s.integ s.k1) ((requestOf C s call iv).drop 4) = .ok v ∧
      v.authenticated = true ∧ v.encrypted = true ∧ v.payloadType = 0 ∧ v.id = s.remoteID ∧
      v.sequence = (s.inbound + 1) % 4294967296 ∧
      AESLayer.decode C s.k2 v.payload = .ok a ∧ a.contents = iv ∧
      Message.decode 8 a.payload = .ok m ∧ m.remoteAddress = 0x20 ∧ m.localAddress = 0x81 ∧ m.remoteLUN = 0 ∧
      m.function = call.wire.operation.function ∧ m.command = call.wire.operation.command ∧
      m.body = call.wire.operation.body ∧ m.enterprise = call.wire.operation.enterprise ∧
      call.specParse m.payload = some (call.asked s.remoteID) := by
  obtain ⟨b, hb, hp⟩ := request_parses call s.remoteID hargs
  have hreqb : (call.cmdFor s.remoteID).req = b := by simp [Call.cmdFor, hb]
  obtain ⟨w1, w2, w3, w4, w5⟩ := wire_req_wf call.wire
  have hlun0 := (operation_is_spec call).2.2.2
  have hwf : (C03.requestMessage (call.cmdFor s.remoteID)).WF :=
    ⟨w1, w2, by show (0 : UInt8).toNat < 4; decide, by show (1 : UInt8).toNat < 64; decide, w3, w4, w5, fun _ => rfl⟩
  have hmlen : (C03.messageBytes (call.cmdFor s.remoteID)).length ≤ 65400 := by
    have := message_encode_length_le (C03.requestMessage (call.cmdFor s.remoteID)) (call.cmdFor s.remoteID).req
    have := request_short call s.remoteID
    unfold C03.messageBytes; omega
  obtain ⟨v, hv, ha, he, hpt, hid, hsq, hpl⟩ := C03.wrapper_opens C s.keys hr (call.cmdFor s.remoteID) s.inbound iv
    (aesEncode_fits C hC _ iv _ hiv hmlen)
  obtain ⟨m, hm, hf, hc, hbd, hen, hra, hrl, hla, hpay⟩ := C03.message_is_the_command (call.cmdFor s.remoteID) hwf
  refine ⟨v, { contents := iv, payload := C03.messageBytes (call.cmdFor s.remoteID) }, m, hv, ha, he, hpt, hid, hsq, ?_, rfl, hm, hra, hla,
    ?_, hf, hc, hbd, hen, ?_⟩
  · rw [hpl]; exact C03.payload_decrypts C hC s.keys (call.cmdFor s.remoteID) iv hiv
  · rw [hrl]; exact hlun0
  · rw [hpay, hreqb]; exact hp

/-! ## Session-less: `V2Sessionless.GetSystemGUID`, `GetChannelAuthenticationCapabilities`, the five DCMI capability
    calls of `dcmi.NewSessionlessCommander` (`slResponseDatagram`: plaintext response in the null session wrapper) -/

/-- END TO END outside a session: one transmission — the library's session-less packet around the call's request —
    and exactly the decoded value -/
theorem sessionless_call_returns_decoded (call : Call) (hreq : call ≠ .setSessionPrivilegeLevel 1)
    (enc : Bytes) (val : Value) (hdec : call.decodeBody enc = .ok val) (hfit : enc.length ≤ 65000) (rest : List Outcome) :
    slCall call (.reply (slResponseDatagram call.cmd 0 enc) :: rest) =
      ([Req.packetSessionless call.wire.operation (call.wire.lun 0) call.cmd.req], .ok val) := by
  unfold slResponseDatagram
  rw [slCall_response call hreq 0 0 0 enc rest (by omega) (by omega) hfit (by decide), finish_zero call enc val hdec]

/-- … and a non-zero completion code is an error there too -/
theorem sessionless_nonzero_code_is_error (call : Call) (hreq : call ≠ .setSessionPrivilegeLevel 1) (cc : UInt8)
    (hcc : cc ≠ 0) (hnt : isTemp cc = false) (body : Bytes) (hfit : body.length ≤ 65000) (rest : List Outcome) :
    slCall call (.reply (slResponseDatagram call.cmd cc body) :: rest) =
      ([Req.packetSessionless call.wire.operation (call.wire.lun 0) call.cmd.req], .err) := by
  unfold slResponseDatagram
  rw [slCall_response call hreq 0 0 cc body rest (by omega) (by omega) hfit hnt, finish_nonzero call cc hcc]

/-- the console does not care what the BMC puts in the session ID / sequence fields of a session-less reply -/
theorem sessionless_wrapper_fields_ignored (call : Call) (hreq : call ≠ .setSessionPrivilegeLevel 1) (sid seq : Nat)
    (hsid : sid < 4294967296) (hseq : seq < 4294967296) (cc : UInt8) (hnt : isTemp cc = false) (body : Bytes)
    (hfit : body.length ≤ 65000) (rest : List Outcome) :
    slCall call (.reply (slResponseDatagramWith sid seq call.cmd cc body) :: rest) =
      slCall call (.reply (slResponseDatagram call.cmd cc body) :: rest) := by
  unfold slResponseDatagram
  rw [slCall_response call hreq sid seq cc body rest hsid hseq hfit hnt,
    slCall_response call hreq 0 0 cc body rest (by omega) (by omega) hfit hnt]

/-- SOUNDNESS outside a session, every script -/
theorem sessionless_value_only_from_code_zero (call : Call) (script : List Outcome) (v : Value)
    (h : (slCall call script).2 = .ok v) :
    ∃ d msg, Outcome.reply d ∈ script ∧ slView (slOnReply {} (GoSlice.ofBytes d)) = (.message, some msg) ∧
      msg.function = call.cmd.fn + 1 ∧ msg.command = call.cmd.cmd ∧ msg.body = call.cmd.body ∧
      msg.completionCode = 0 ∧ call.decodeBody msg.payload = .ok v := by
  obtain ⟨d, msg, hm, hv, hacc, hcc, hdec⟩ := slCall_ok_inv call script v h
  simp [slAcceptable] at hacc
  exact ⟨d, msg, hm, hv, hacc.1.1.1, hacc.1.1.2, hacc.1.2, hcc, hdec⟩

/-- THE REQUEST outside a session: the BMC, reading the transmitted datagram with the reference parser and
    dispatching on the specification's code of the call's command, sees that command on LUN 0 with the caller's
    arguments -/
theorem sessionless_request_is_the_call (call : Call) (hargs : call.argsWf 0) :
    Spec.Req.readCommand (C06.specCode call.wire) call.specParse
        (Req.packetSessionless call.wire.operation (call.wire.lun 0) call.cmd.req) = some (0, call.asked 0) := by
  obtain ⟨b, hb, hp⟩ := request_parses call 0 hargs
  have hreqb : call.cmd.req = b := by simp [Call.cmd, Call.cmdFor, hb]
  have hfits : Req.bodyFits call.cmd.req := by
    have := request_short call 0
    show (call.cmdFor 0).req.length + 11 < 65536; omega
  rw [C06.command_packet_parses call.wire 0 call.cmd.req (by decide) hfits call.specParse, hreqb, hp]
  have : call.wire ≠ .sensorReading ∨ True := Or.inr trivial
  simp only [Option.map_some]
  split <;> rfl

/-! ## One instance per call: the specification's encoding of any well-formed value comes back as its fields -/

/-- Get System GUID: the sixteen bytes, in wire order -/
theorem getSystemGUID_returns (C : Ops) (hC : C.Lawful) (s : Sess) (v : Spec.SystemGUID) (hv : v.wf)
    (iv : Bytes) (ivs : List Bytes) (seq : Nat) (riv : Bytes) (rest : List Outcome) (h : ReplyOK s seq riv) :
    (sessCall C s .getSystemGUID (iv :: ivs) (bmcAnswers C s .getSystemGUID 0 v.encode seq riv :: rest)).2 =
      ([requestOf C s .getSystemGUID iv], .ok (.guid v.guid)) :=
  call_returns_decoded C hC _ (by decide) s _ _
    (by show (GUIDRsp.decode v.encode).map _ = _; rw [guid_decode_spec v hv]; rfl)
    (by have : v.guid.length = 16 := hv; simp [Spec.SystemGUID.encode, this]) iv ivs seq riv rest h

theorem getSystemGUID_returns_sessionless (v : Spec.SystemGUID) (hv : v.wf) (rest : List Outcome) :
    slCall .getSystemGUID (.reply (slResponseDatagram Call.getSystemGUID.cmd 0 v.encode) :: rest) =
      ([Req.packetSessionless Req.Cmd.getSystemGUID.operation 0 []], .ok (.guid v.guid)) :=
  sessionless_call_returns_decoded .getSystemGUID (by decide) _ _
    (by show (GUIDRsp.decode v.encode).map _ = _; rw [guid_decode_spec v hv]; rfl)
    (by have : v.guid.length = 16 := hv; simp [Spec.SystemGUID.encode, this]) rest

/-- Get Channel Authentication Capabilities, for every request -/
theorem getChannelAuthenticationCapabilities_returns (C : Ops) (hC : C.Lawful) (s : Sess) (r : Req.AuthCaps)
    (v : Spec.AuthCaps) (hv : v.wf)
    (iv : Bytes) (ivs : List Bytes) (seq : Nat) (riv : Bytes) (rest : List Outcome) (h : ReplyOK s seq riv) :
    (sessCall C s (.getChannelAuthenticationCapabilities r) (iv :: ivs)
        (bmcAnswers C s (.getChannelAuthenticationCapabilities r) 0 v.encode seq riv :: rest)).2 =
      ([requestOf C s (.getChannelAuthenticationCapabilities r) iv], .ok (.authCaps (authCapsView v))) :=
  call_returns_decoded C hC _ (by simp) s _ _
    (by show (AuthCapsRsp.decode v.encode).map _ = _; rw [authCaps_decode_spec v hv]; rfl) v.encode_fits iv ivs seq riv rest h

theorem getChannelAuthenticationCapabilities_returns_sessionless (r : Req.AuthCaps) (v : Spec.AuthCaps) (hv : v.wf)
    (rest : List Outcome) :
    slCall (.getChannelAuthenticationCapabilities r)
        (.reply (slResponseDatagram (Call.getChannelAuthenticationCapabilities r).cmd 0 v.encode) :: rest) =
      ([Req.packetSessionless Req.Cmd.authCaps.operation 0 r.encode], .ok (.authCaps (authCapsView v))) :=
  sessionless_call_returns_decoded (.getChannelAuthenticationCapabilities r) (by simp) _ _
    (by show (AuthCapsRsp.decode v.encode).map _ = _; rw [authCaps_decode_spec v hv]; rfl) v.encode_fits rest

/-- Get Session Info, every form of the response (no session / active session without, with LAN, with serial data) -/
theorem getSessionInfo_returns (C : Ops) (hC : C.Lawful) (s : Sess) (r : Req.SessionInfo) (v : Spec.SessionInfo) (hv : v.wf)
    (iv : Bytes) (ivs : List Bytes) (seq : Nat) (riv : Bytes) (rest : List Outcome) (h : ReplyOK s seq riv) :
    (sessCall C s (.getSessionInfo r) (iv :: ivs) (bmcAnswers C s (.getSessionInfo r) 0 v.encode seq riv :: rest)).2 =
      ([requestOf C s (.getSessionInfo r) iv], .ok (.sessionInfo (sessionInfoView v))) :=
  call_returns_decoded C hC _ (by simp) s _ _
    (by show (SessionInfoRsp.decode v.encode).map _ = _; rw [sessionInfo_decode_spec v hv]; rfl) v.encode_fits
    iv ivs seq riv rest h

/-- Get Device ID, with and without the auxiliary firmware revision -/
theorem getDeviceID_returns (C : Ops) (hC : C.Lawful) (s : Sess) (v : Spec.DeviceID) (hv : v.wf)
    (iv : Bytes) (ivs : List Bytes) (seq : Nat) (riv : Bytes) (rest : List Outcome) (h : ReplyOK s seq riv) :
    (sessCall C s .getDeviceID (iv :: ivs) (bmcAnswers C s .getDeviceID 0 v.encode seq riv :: rest)).2 =
      ([requestOf C s .getDeviceID iv], .ok (.deviceID (deviceIDView v))) :=
  call_returns_decoded C hC _ (by decide) s _ _
    (by simp only [Call.decodeBody]; rw [GetDeviceIDRsp.decodeGo_refines, GoSlice.vis_ofBytes, deviceID_decode_spec v hv]; rfl)
    v.encode_fits iv ivs seq riv rest h

/-- Get Chassis Status, with and without the front-panel byte -/
theorem getChassisStatus_returns (C : Ops) (hC : C.Lawful) (s : Sess) (v : Spec.ChassisStatus) (hv : v.wf)
    (iv : Bytes) (ivs : List Bytes) (seq : Nat) (riv : Bytes) (rest : List Outcome) (h : ReplyOK s seq riv) :
    (sessCall C s .getChassisStatus (iv :: ivs) (bmcAnswers C s .getChassisStatus 0 v.encode seq riv :: rest)).2 =
      ([requestOf C s .getChassisStatus iv], .ok (.chassis (chassisView v))) :=
  call_returns_decoded C hC _ (by decide) s _ _
    (by show (GetChassisStatusRsp.decode v.encode).map _ = _; rw [chassis_decode_spec v hv]; rfl) v.encode_fits
    iv ivs seq riv rest h

/-- Chassis Control: code 00h (the response has no data; data a BMC might add is ignored) means success -/
theorem chassisControl_returns (C : Ops) (hC : C.Lawful) (s : Sess) (control : Nat) (extra : Bytes) (hx : extra.length ≤ 65000)
    (iv : Bytes) (ivs : List Bytes) (seq : Nat) (riv : Bytes) (rest : List Outcome) (h : ReplyOK s seq riv) :
    (sessCall C s (.chassisControl control) (iv :: ivs) (bmcAnswers C s (.chassisControl control) 0 extra seq riv :: rest)).2 =
      ([requestOf C s (.chassisControl control) iv], .ok .none) :=
  call_returns_decoded C hC _ (by simp) s _ _ rfl hx iv ivs seq riv rest h

/-- Get SDR Repository Info -/
theorem getSDRRepositoryInfo_returns (C : Ops) (hC : C.Lawful) (s : Sess) (v : Spec.SDRRepoInfo) (hv : v.wf)
    (iv : Bytes) (ivs : List Bytes) (seq : Nat) (riv : Bytes) (rest : List Outcome) (h : ReplyOK s seq riv) :
    (sessCall C s .getSDRRepositoryInfo (iv :: ivs) (bmcAnswers C s .getSDRRepositoryInfo 0 v.encode seq riv :: rest)).2 =
      ([requestOf C s .getSDRRepositoryInfo iv], .ok (.sdrRepoInfo (sdrRepoInfoView v))) :=
  call_returns_decoded C hC _ (by decide) s _ _
    (by show (SDRRepoInfoRsp.decode v.encode).map _ = _; rw [sdrRepoInfo_decode_spec v hv]; rfl) v.encode_fits
    iv ivs seq riv rest h

/-- Reserve SDR Repository -/
theorem reserveSDRRepository_returns (C : Ops) (hC : C.Lawful) (s : Sess) (v : Spec.ReserveSDR) (hv : v.wf)
    (iv : Bytes) (ivs : List Bytes) (seq : Nat) (riv : Bytes) (rest : List Outcome) (h : ReplyOK s seq riv) :
    (sessCall C s .reserveSDRRepository (iv :: ivs) (bmcAnswers C s .reserveSDRRepository 0 v.encode seq riv :: rest)).2 =
      ([requestOf C s .reserveSDRRepository iv], .ok (.reserve { reservationID := v.reservationID, contents := v.encode })) :=
  call_returns_decoded C hC _ (by decide) s _ _
    (by show (ReserveRsp.decode v.encode).map _ = _; rw [reserveSDR_decode_spec v hv]; rfl) v.encode_fits
    iv ivs seq riv rest h

/-- Get Sensor Reading, for every sensor number, with and without the second state byte -/
theorem getSensorReading_returns (C : Ops) (hC : C.Lawful) (s : Sess) (sensor : UInt8) (v : Spec.SensorReading)
    (iv : Bytes) (ivs : List Bytes) (seq : Nat) (riv : Bytes) (rest : List Outcome) (h : ReplyOK s seq riv) :
    (sessCall C s (.getSensorReading sensor) (iv :: ivs) (bmcAnswers C s (.getSensorReading sensor) 0 v.encode seq riv :: rest)).2 =
      ([requestOf C s (.getSensorReading sensor) iv],
       .ok (.sensorReading { reading := v.reading, eventMessagesEnabled := v.eventMessagesEnabled
                             scanningEnabled := v.scanningEnabled, readingUnavailable := v.readingUnavailable
                             contents := v.encode, payload := [] })) :=
  call_returns_decoded C hC _ (by simp) s _ _
    (by show (SensorReadingRsp.decode v.encode).map _ = _; rw [sensorReading_decode_spec v]; rfl) v.encode_fits
    iv ivs seq riv rest h

/-- Get Session Privilege Level (= Set Session Privilege Level with level 0): the level the BMC reports -/
theorem getSessionPrivilegeLevel_returns (C : Ops) (hC : C.Lawful) (s : Sess) (v : Spec.SetPriv) (hv : v.wf)
    (iv : Bytes) (ivs : List Bytes) (seq : Nat) (riv : Bytes) (rest : List Outcome) (h : ReplyOK s seq riv) :
    (sessCall C s .getSessionPrivilegeLevel (iv :: ivs) (bmcAnswers C s .getSessionPrivilegeLevel 0 v.encode seq riv :: rest)).2 =
      ([requestOf C s .getSessionPrivilegeLevel iv], .ok (.level v.level)) :=
  call_returns_decoded C hC _ (by decide) s _ _
    (by simp only [Call.decodeBody]
        rw [show SetPrivRsp.decodeGo {} (GoSlice.ofBytes v.encode) = SetPrivRsp.decode v.encode from rfl, setPriv_decode_spec v hv]; rfl) (by simp [Spec.SetPriv.encode])
    iv ivs seq riv rest h

/-- Set Session Privilege Level, for every level the serialiser accepts: the NEW level the BMC reports -/
theorem setSessionPrivilegeLevel_returns (C : Ops) (hC : C.Lawful) (s : Sess) (level : UInt8) (hl : level ≠ 1)
    (v : Spec.SetPriv) (hv : v.wf)
    (iv : Bytes) (ivs : List Bytes) (seq : Nat) (riv : Bytes) (rest : List Outcome) (h : ReplyOK s seq riv) :
    (sessCall C s (.setSessionPrivilegeLevel level) (iv :: ivs)
        (bmcAnswers C s (.setSessionPrivilegeLevel level) 0 v.encode seq riv :: rest)).2 =
      ([requestOf C s (.setSessionPrivilegeLevel level) iv], .ok (.level v.level)) :=
  call_returns_decoded C hC _ (by simp [hl]) s _ _
    (by simp only [Call.decodeBody]
        rw [show SetPrivRsp.decodeGo {} (GoSlice.ofBytes v.encode) = SetPrivRsp.decode v.encode from rfl, setPriv_decode_spec v hv]; rfl) (by simp [Spec.SetPriv.encode])
    iv ivs seq riv rest h

/-- Close: code 00h means the session is closed -/
theorem close_returns (C : Ops) (hC : C.Lawful) (s : Sess) (extra : Bytes) (hx : extra.length ≤ 65000)
    (iv : Bytes) (ivs : List Bytes) (seq : Nat) (riv : Bytes) (rest : List Outcome) (h : ReplyOK s seq riv) :
    (sessCall C s .close (iv :: ivs) (bmcAnswers C s .close 0 extra seq riv :: rest)).2 = ([requestOf C s .close iv], .ok .none) :=
  call_returns_decoded C hC _ (by decide) s _ _ rfl hx iv ivs seq riv rest h

/-- DCMI Get Power Reading, for every request -/
theorem getPowerReading_returns (C : Ops) (hC : C.Lawful) (s : Sess) (r : Req.PowerReading) (v : Spec.PowerReading) (hv : v.wf)
    (iv : Bytes) (ivs : List Bytes) (seq : Nat) (riv : Bytes) (rest : List Outcome) (h : ReplyOK s seq riv) :
    (sessCall C s (.getPowerReading r) (iv :: ivs) (bmcAnswers C s (.getPowerReading r) 0 v.encode seq riv :: rest)).2 =
      ([requestOf C s (.getPowerReading r) iv], .ok (.powerReading (powerReadingView v))) :=
  call_returns_decoded C hC _ (by simp) s _ _
    (by simp only [Call.decodeBody]; rw [PowerReading.decodeGo_refines, GoSlice.vis_ofBytes, powerReading_decode_spec v hv]; rfl)
    v.encode_fits iv ivs seq riv rest h

/-- DCMI Get DCMI Sensor Info, for every request and every number 0 … 255 of record IDs -/
theorem getDCMISensorInfo_returns (C : Ops) (hC : C.Lawful) (s : Sess) (r : Req.DcmiSensorInfo) (v : Spec.SensorInfo) (hv : v.wf)
    (iv : Bytes) (ivs : List Bytes) (seq : Nat) (riv : Bytes) (rest : List Outcome) (h : ReplyOK s seq riv) :
    (sessCall C s (.getDCMISensorInfo r) (iv :: ivs) (bmcAnswers C s (.getDCMISensorInfo r) 0 v.encode seq riv :: rest)).2 =
      ([requestOf C s (.getDCMISensorInfo r) iv], .ok (.sensorInfo (sensorInfoView v))) :=
  call_returns_decoded C hC _ (by simp) s _ _
    (by
      have h1 := SensorInfo.decodeGo_refines {} (GoSlice.ofBytes v.encode)
      rw [GoSlice.vis_ofBytes, sensorInfo_decode_spec v hv] at h1
      simp only [Call.decodeBody]
      cases hd : SensorInfo.decodeGo {} (GoSlice.ofBytes v.encode) <;> rw [hd] at h1 <;> simp [R.map] at h1 ⊢
      exact h1)
    (v.encode_fits hv) iv ivs seq riv rest h

/-- DCMI capabilities, parameter 1 (all three DCMI versions), in a session … -/
theorem dcmiSupportedCapabilities_returns (C : Ops) (hC : C.Lawful) (s : Sess) (v : Spec.Cap1)
    (iv : Bytes) (ivs : List Bytes) (seq : Nat) (riv : Bytes) (rest : List Outcome) (h : ReplyOK s seq riv) :
    (sessCall C s .dcmiSupportedCapabilities (iv :: ivs) (bmcAnswers C s .dcmiSupportedCapabilities 0 v.encode seq riv :: rest)).2 =
      ([requestOf C s .dcmiSupportedCapabilities iv], .ok (.cap1 (cap1View v))) :=
  call_returns_decoded C hC _ (by decide) s _ _
    (by simp only [Call.decodeBody]; rw [DcmiCap1.decodeGo_refines, GoSlice.vis_ofBytes, cap1_decode_spec v]; rfl)
    v.encode_fits iv ivs seq riv rest h

/-- … and outside -/
theorem dcmiSupportedCapabilities_returns_sessionless (v : Spec.Cap1) (rest : List Outcome) :
    slCall .dcmiSupportedCapabilities (.reply (slResponseDatagram Call.dcmiSupportedCapabilities.cmd 0 v.encode) :: rest) =
      ([Req.packetSessionless Req.Cmd.dcmiCaps.operation 0 [1]], .ok (.cap1 (cap1View v))) :=
  sessionless_call_returns_decoded .dcmiSupportedCapabilities (by decide) _ _
    (by simp only [Call.decodeBody]; rw [DcmiCap1.decodeGo_refines, GoSlice.vis_ofBytes, cap1_decode_spec v]; rfl)
    v.encode_fits rest

/-- parameter 2 -/
theorem dcmiMandatoryPlatformAttrs_returns (C : Ops) (hC : C.Lawful) (s : Sess) (v : Spec.Cap2) (hv : v.wf)
    (iv : Bytes) (ivs : List Bytes) (seq : Nat) (riv : Bytes) (rest : List Outcome) (h : ReplyOK s seq riv) :
    (sessCall C s .dcmiMandatoryPlatformAttrs (iv :: ivs) (bmcAnswers C s .dcmiMandatoryPlatformAttrs 0 v.encode seq riv :: rest)).2 =
      ([requestOf C s .dcmiMandatoryPlatformAttrs iv], .ok (.cap2 (cap2View v))) :=
  call_returns_decoded C hC _ (by decide) s _ _
    (by simp only [Call.decodeBody]; rw [DcmiCap2.decodeGo_refines, GoSlice.vis_ofBytes, cap2_decode_spec v hv]; rfl)
    v.encode_fits iv ivs seq riv rest h

theorem dcmiMandatoryPlatformAttrs_returns_sessionless (v : Spec.Cap2) (hv : v.wf) (rest : List Outcome) :
    slCall .dcmiMandatoryPlatformAttrs (.reply (slResponseDatagram Call.dcmiMandatoryPlatformAttrs.cmd 0 v.encode) :: rest) =
      ([Req.packetSessionless Req.Cmd.dcmiCaps.operation 0 [2]], .ok (.cap2 (cap2View v))) :=
  sessionless_call_returns_decoded .dcmiMandatoryPlatformAttrs (by decide) _ _
    (by simp only [Call.decodeBody]; rw [DcmiCap2.decodeGo_refines, GoSlice.vis_ofBytes, cap2_decode_spec v hv]; rfl)
    v.encode_fits rest

/-- parameter 3 -/
theorem dcmiOptionalPlatformAttrs_returns (C : Ops) (hC : C.Lawful) (s : Sess) (v : Spec.Cap3) (hv : v.wf)
    (iv : Bytes) (ivs : List Bytes) (seq : Nat) (riv : Bytes) (rest : List Outcome) (h : ReplyOK s seq riv) :
    (sessCall C s .dcmiOptionalPlatformAttrs (iv :: ivs) (bmcAnswers C s .dcmiOptionalPlatformAttrs 0 v.encode seq riv :: rest)).2 =
      ([requestOf C s .dcmiOptionalPlatformAttrs iv], .ok (.cap3 (cap3View v))) :=
  call_returns_decoded C hC _ (by decide) s _ _
    (by simp only [Call.decodeBody]; rw [DcmiCap3.decodeGo_refines, GoSlice.vis_ofBytes, cap3_decode_spec v hv]; rfl)
    v.encode_fits iv ivs seq riv rest h

theorem dcmiOptionalPlatformAttrs_returns_sessionless (v : Spec.Cap3) (hv : v.wf) (rest : List Outcome) :
    slCall .dcmiOptionalPlatformAttrs (.reply (slResponseDatagram Call.dcmiOptionalPlatformAttrs.cmd 0 v.encode) :: rest) =
      ([Req.packetSessionless Req.Cmd.dcmiCaps.operation 0 [3]], .ok (.cap3 (cap3View v))) :=
  sessionless_call_returns_decoded .dcmiOptionalPlatformAttrs (by decide) _ _
    (by simp only [Call.decodeBody]; rw [DcmiCap3.decodeGo_refines, GoSlice.vis_ofBytes, cap3_decode_spec v hv]; rfl)
    v.encode_fits rest

/-- parameter 4 -/
theorem dcmiManageabilityAccessAttrs_returns (C : Ops) (hC : C.Lawful) (s : Sess) (v : Spec.Cap4)
    (iv : Bytes) (ivs : List Bytes) (seq : Nat) (riv : Bytes) (rest : List Outcome) (h : ReplyOK s seq riv) :
    (sessCall C s .dcmiManageabilityAccessAttrs (iv :: ivs) (bmcAnswers C s .dcmiManageabilityAccessAttrs 0 v.encode seq riv :: rest)).2 =
      ([requestOf C s .dcmiManageabilityAccessAttrs iv], .ok (.cap4 (cap4View v))) :=
  call_returns_decoded C hC _ (by decide) s _ _
    (by simp only [Call.decodeBody]; rw [DcmiCap4.decodeGo_refines, GoSlice.vis_ofBytes, cap4_decode_spec v]; rfl)
    v.encode_fits iv ivs seq riv rest h

theorem dcmiManageabilityAccessAttrs_returns_sessionless (v : Spec.Cap4) (rest : List Outcome) :
    slCall .dcmiManageabilityAccessAttrs (.reply (slResponseDatagram Call.dcmiManageabilityAccessAttrs.cmd 0 v.encode) :: rest) =
      ([Req.packetSessionless Req.Cmd.dcmiCaps.operation 0 [4]], .ok (.cap4 (cap4View v))) :=
  sessionless_call_returns_decoded .dcmiManageabilityAccessAttrs (by decide) _ _
    (by simp only [Call.decodeBody]; rw [DcmiCap4.decodeGo_refines, GoSlice.vis_ofBytes, cap4_decode_spec v]; rfl)
    v.encode_fits rest

/-- parameter 5, every number 0 … 255 of rolling-average periods -/
theorem dcmiEnhancedSystemPowerStatisticsAttrs_returns (C : Ops) (hC : C.Lawful) (s : Sess) (v : Spec.Cap5) (hv : v.wf)
    (iv : Bytes) (ivs : List Bytes) (seq : Nat) (riv : Bytes) (rest : List Outcome) (h : ReplyOK s seq riv) :
    (sessCall C s .dcmiEnhancedSystemPowerStatisticsAttrs (iv :: ivs)
        (bmcAnswers C s .dcmiEnhancedSystemPowerStatisticsAttrs 0 v.encode seq riv :: rest)).2 =
      ([requestOf C s .dcmiEnhancedSystemPowerStatisticsAttrs iv], .ok (.cap5 (cap5View v))) :=
  call_returns_decoded C hC _ (by decide) s _ _
    (by simp only [Call.decodeBody]; rw [DcmiCap5.decodeGo_refines, GoSlice.vis_ofBytes, cap5_decode_spec v hv]; rfl)
    (v.encode_fits hv) iv ivs seq riv rest h

theorem dcmiEnhancedSystemPowerStatisticsAttrs_returns_sessionless (v : Spec.Cap5) (hv : v.wf) (rest : List Outcome) :
    slCall .dcmiEnhancedSystemPowerStatisticsAttrs
        (.reply (slResponseDatagram Call.dcmiEnhancedSystemPowerStatisticsAttrs.cmd 0 v.encode) :: rest) =
      ([Req.packetSessionless Req.Cmd.dcmiCaps.operation 0 [5]], .ok (.cap5 (cap5View v))) :=
  sessionless_call_returns_decoded .dcmiEnhancedSystemPowerStatisticsAttrs (by decide) _ _
    (by simp only [Call.decodeBody]; rw [DcmiCap5.decodeGo_refines, GoSlice.vis_ofBytes, cap5_decode_spec v hv]; rfl)
    (v.encode_fits hv) rest

/-! ## The hypotheses are satisfiable; the model, evaluated by the kernel, agrees -/

/-- `ReplyOK` holds of an ordinary session and reply … -/
example : ReplyOK { localID := 7, remoteID := 9, integ := 1, k1 := [1], k2 := List.replicate 16 0 } 5 (List.replicate 16 4) :=
  ⟨by decide, by decide, by decide⟩

/-- … under a lawful cipher / hash … -/
example : Crypto.toy.Lawful := Crypto.toy_lawful

/-- … in-width arguments exist for calls with arguments … -/
example : (Call.getChannelAuthenticationCapabilities { extendedData := true, channel := 0xE, maxPrivilegeLevel := 4 }).argsWf 9 := by
  show Req.AuthCaps.wf _; decide
example : (Call.getPowerReading { mode := 2, periodNs := 300000000000 }).argsWf 9 := by
  show _ ∨ _; exact Or.inr ⟨rfl, by decide⟩

/-- … and the kernel, evaluating the model on a Get Device ID call answered with a 15-byte body under the toy crypto
    (independently of the theorems above), gets one transmission and the decoded fields -/
example :
    let s : Sess := { localID := 7, remoteID := 9, integ := 1, k1 := [1], k2 := List.replicate 16 0 }
    let body : Bytes := [0x20, 0x81, 0x02, 0x15, 0x02, 0xbf, 0x57, 0x01, 0x00, 0x34, 0x12, 0xAA, 0xBB, 0xCC, 0xDD]
    let r := sessCall Crypto.toy s .getDeviceID [List.replicate 16 3] [bmcAnswers Crypto.toy s .getDeviceID 0 body 5 (List.replicate 16 4)]
    r.2.1.length = 1 ∧
    r.2.2.map (fun | .deviceID d => (d.id, d.manufacturer, d.product, d.aux) | _ => (0, 0, 0, [])) =
      .ok (0x20, 0x157, 0x1234, [0xAA, 0xBB, 0xCC, 0xDD]) := by
  decide +kernel

/-- the same call answered with completion code C1h (invalid command) and the same body: an error -/
example :
    let s : Sess := { localID := 7, remoteID := 9, integ := 1, k1 := [1], k2 := List.replicate 16 0 }
    let body : Bytes := [0x20, 0x81, 0x02, 0x15, 0x02, 0xbf, 0x57, 0x01, 0x00, 0x34, 0x12]
    (sessCall Crypto.toy s .getDeviceID [List.replicate 16 3] [bmcAnswers Crypto.toy s .getDeviceID 0xC1 body 5 (List.replicate 16 4)]).2.2
      = .err := by
  decide +kernel

/-- session-less Get System GUID answered in the null session wrapper -/
example :
    (slCall .getSystemGUID [.lost, .reply (slResponseDatagram Call.getSystemGUID.cmd 0 ((List.range 16).map UInt8.ofNat))]).2
      = .ok (.guid ((List.range 16).map UInt8.ofNat)) := by
  decide +kernel

end Bmc.Proofs.C07
