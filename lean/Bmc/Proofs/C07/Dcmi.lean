import Bmc.Lemmas.DcmiBits
/-! # C07 (pkg/dcmi): decoding the specification's encoding of any field values yields those values; anything
    shorter than the layer's minimum, or shorter than its own count byte announces, is rejected -/
namespace Bmc.Proofs.C07
open Bmc Bmc.Wire Bmc.Lemmas.Dcmi

def dcmiHeaderView (v : Spec.DcmiVersion) : DcmiHeader := DcmiHeader.ofBytes v.header

-- parameter 1 ------------------------------------------------------------------------------------------------------

/-- the library's presentation: capabilities that lost their bit in v1.1 are reported as present -/
def cap1View (v : Spec.Cap1) : DcmiCap1 :=
  { hdr := dcmiHeaderView v.ver
    temperatureMonitor := if v.ver.isV10 then v.temperatureMonitor else true
    chassisPower := if v.ver.isV10 then v.chassisPower else true
    selLogging := if v.ver.isV10 then v.selLogging else true
    identification := if v.ver.isV10 then v.identification else true
    powerManagement := v.powerManagement
    vlanCapable := if v.ver.isV10 then v.vlanCapable else true
    solSupported := if v.ver.isV10 then v.solSupported else true
    oobPrimary := if v.ver.isV10 then v.oobPrimary else true
    oobSecondary := v.oobSecondary
    serialTMODE := v.serialTMODE
    ibKCS := if v.ver.isV10 then v.inBand else true
    ibSystemInterface := if v.ver.isV10 then false else v.inBand
    contents := v.encode, payload := [] }

/-- every Supported DCMI Capabilities response of every version decodes to its fields -/
theorem cap1_decode_spec (v : Spec.Cap1) : DcmiCap1.decode v.encode = .ok (cap1View v) := by
  have e0 := cap1_b0 v.temperatureMonitor v.chassisPower v.selLogging v.identification
  have e1 := cap1_b1 v.powerManagement
  have e2 := cap1_b2_v10 v.vlanCapable v.solSupported v.oobPrimary v.oobSecondary v.serialTMODE v.inBand
  have e3 := flags3 v.oobSecondary v.serialTMODE v.inBand
  unfold DcmiCap1.decode cap1View dcmiHeaderView
  cases hv : v.ver <;>
    simp [Spec.Cap1.encode, hv, Spec.DcmiVersion.header, Spec.DcmiVersion.isV10, DcmiCap1.build, DcmiHeader.ofBytes,
      DcmiHeader.isV10, e0, e1, e2, e3]

example : DcmiCap1.decode (Spec.Cap1.encode ⟨.v10 1, true, false, true, false, true, false, true, false, true, false, true⟩)
    = .ok (cap1View ⟨.v10 1, true, false, true, false, true, false, true, false, true, false, true⟩) := cap1_decode_spec _

/-- header (3) + 3 capability bytes is the minimum -/
theorem cap1_short (b : Bytes) (h : b.length < 6) : DcmiCap1.decode b = .error () := by
  unfold DcmiCap1.decode
  by_cases h3 : b.length < 3
  · simp [h3]
  · have : b.length - 3 < 3 := by omega
    simp [h3, this]

-- parameter 2 ------------------------------------------------------------------------------------------------------

def cap2View (v : Spec.Cap2) : DcmiCap2 :=
  { hdr := dcmiHeaderView v.ver
    selAutoRollover := v.selAutoRollover
    selFlushOnRollover := if v.ver.isV10 then false else v.selFlushOnRollover
    selRecordLevelFlushOnRollover := if v.ver.isV10 then false else v.selRecordLevelFlushOnRollover
    selMaxEntries := v.selEntries
    assetTagSupport := if v.ver.isV10 then v.assetTag else true
    dhcpHostNameSupport := if v.ver.isV10 then v.dhcpHostName else true
    guidSupport := if v.ver.isV10 then v.guid else true
    baseboardTemperature := if v.ver.isV10 then v.baseboardTemperature else true
    processorsTemperature := if v.ver.isV10 then v.processorsTemperature else true
    inletTemperature := if v.ver.isV10 then v.inletTemperature else true
    temperatureSamplingFrequency := if v.ver.isV10 then 0 else 1000000000 * v.samplingSeconds
    contents := v.encode, payload := [] }

/-- every Mandatory Platform Attributes response (4-byte body in v1.0, 5-byte body from v1.1) decodes to its fields
    — SEL attributes in the byte order the library's tests pin, see `Spec.Cap2` -/
theorem cap2_decode_spec (v : Spec.Cap2) (h : v.wf) : DcmiCap2.decode v.encode = .ok (cap2View v) := by
  obtain ⟨h1, h2, h3⟩ := h
  have e0 := cap2_b0_v10 v.selAutoRollover (v.selEntries % 256) h2
  have e1 := cap2_b0 v.selAutoRollover v.selFlushOnRollover v.selRecordLevelFlushOnRollover (v.selEntries % 256) h2
  have e2 := flags3 v.assetTag v.dhcpHostName v.guid
  have e3 := flags3 v.baseboardTemperature v.processorsTemperature v.inletTemperature
  have e4 : v.selEntries / 256 % 256 = v.selEntries / 256 := Nat.mod_eq_of_lt (by omega)
  have e5 : v.samplingSeconds % 256 = v.samplingSeconds := Nat.mod_eq_of_lt h3
  have e6 : v.selEntries % 256 + 256 * (v.selEntries / 256) = v.selEntries := by omega
  unfold DcmiCap2.decode cap2View dcmiHeaderView
  cases hv : v.ver <;>
    simp [Spec.Cap2.encode, hv, Spec.DcmiVersion.header, Spec.DcmiVersion.isV10, DcmiCap2.build, DcmiHeader.ofBytes,
      DcmiHeader.isV10, e0, e1, e2, e3, e4, e5, e6]

example : (⟨.v15 2, true, false, true, 0x0a05, false, false, false, false, false, false, 15⟩ : Spec.Cap2).wf := by decide

/-- the "4-byte body ⇒ v1.0 layout" rule the repository's tests pin (SuperMicro: v1.1 header, v1.0 body): whatever
    the three header bytes say, a response with exactly four body bytes is read with the v1.0 layout -/
theorem cap2_four_byte_body (ma mi rev b0 b1 b2 b3 : UInt8) :
    DcmiCap2.decode [ma, mi, rev, b0, b1, b2, b3] =
      .ok (DcmiCap2.build ⟨ma, mi, rev⟩ true b0 b1 b2 b3 0 [ma, mi, rev, b0, b1, b2, b3] []) := by
  simp [DcmiCap2.decode, DcmiHeader.ofBytes]

/-- header (3) + 4 bytes is the minimum -/
theorem cap2_short (b : Bytes) (h : b.length < 7) : DcmiCap2.decode b = .error () := by
  unfold DcmiCap2.decode
  by_cases h3 : b.length < 3
  · simp [h3]
  · have : b.length - 3 < 4 := by omega
    simp [h3, this]

-- parameter 3 ------------------------------------------------------------------------------------------------------

def cap3View (v : Spec.Cap3) : DcmiCap3 :=
  { hdr := dcmiHeaderView v.ver, slaveAddress := v.slaveAddress, channel := v.channel, revision := v.revision
    contents := v.encode, payload := [] }

theorem cap3_decode_spec (v : Spec.Cap3) (h : v.wf) : DcmiCap3.decode v.encode = .ok (cap3View v) := by
  obtain ⟨h1, h2, h3⟩ := h
  have e0 := cap3_b0 v.slaveAddress.toNat h1
  have e1 := cap3_b1 v.channel.toNat h2 v.revision.toNat h3
  simp only [UInt8.ofNat_toNat] at e0 e1
  unfold DcmiCap3.decode cap3View dcmiHeaderView
  cases hv : v.ver <;> simp [Spec.Cap3.encode, hv, Spec.DcmiVersion.header, DcmiHeader.ofBytes, e0, e1]

example : (⟨.v15 2, 0x10, 0x0f, 3⟩ : Spec.Cap3).wf := by decide

theorem cap3_short (b : Bytes) (h : b.length < 5) : DcmiCap3.decode b = .error () := by
  unfold DcmiCap3.decode
  by_cases h3 : b.length < 3
  · simp [h3]
  · have : b.length - 3 < 2 := by omega
    simp [h3, this]

-- parameter 4 ------------------------------------------------------------------------------------------------------

def cap4View (v : Spec.Cap4) : DcmiCap4 :=
  { hdr := dcmiHeaderView v.ver, primaryLAN := v.primaryLAN, secondaryLAN := v.secondaryLAN, serial := v.serial
    contents := v.encode, payload := [] }

theorem cap4_decode_spec (v : Spec.Cap4) : DcmiCap4.decode v.encode = .ok (cap4View v) := by
  unfold DcmiCap4.decode cap4View dcmiHeaderView
  cases hv : v.ver <;> simp [Spec.Cap4.encode, hv, Spec.DcmiVersion.header, DcmiHeader.ofBytes]

example : DcmiCap4.decode (Spec.Cap4.encode ⟨.v15 9, 1, 0xff, 3⟩) = .ok (cap4View ⟨.v15 9, 1, 0xff, 3⟩) := cap4_decode_spec _

theorem cap4_short (b : Bytes) (h : b.length < 6) : DcmiCap4.decode b = .error () := by
  unfold DcmiCap4.decode
  by_cases h3 : b.length < 3
  · simp [h3]
  · have : b.length - 3 < 3 := by omega
    simp [h3, this]

-- parameter 5 ------------------------------------------------------------------------------------------------------

def cap5View (v : Spec.Cap5) : DcmiCap5 :=
  { hdr := dcmiHeaderView v.ver, periods := v.periods.map Spec.RollingPeriod.ns, contents := v.encode, payload := [] }

/-- a list of 0…255 rolling average time periods, each of any unit and any 6-bit value, decodes to the durations
    the specification assigns (value × seconds / minutes / hours / days), in order -/
theorem cap5_decode_spec (v : Spec.Cap5) (h : v.wf) : DcmiCap5.decode v.encode = .ok (cap5View v) := by
  obtain ⟨h1, h2⟩ := h
  have e0 : v.periods.length % 256 = v.periods.length := Nat.mod_eq_of_lt h1
  have e1 := rollingNs_periods v.periods h2
  have e2 : List.take v.periods.length (v.periods.map Spec.RollingPeriod.byte) = v.periods.map Spec.RollingPeriod.byte :=
    List.take_of_length_le (by simp)
  have ht : ∀ a b c d : UInt8, List.take (4 + v.periods.length) (a :: b :: c :: d :: v.periods.map Spec.RollingPeriod.byte)
      = a :: b :: c :: d :: v.periods.map Spec.RollingPeriod.byte := fun _ _ _ _ => List.take_of_length_le (by simp; omega)
  have hd : ∀ a b c d : UInt8, List.drop (4 + v.periods.length) (a :: b :: c :: d :: v.periods.map Spec.RollingPeriod.byte)
      = [] := fun _ _ _ _ => List.drop_eq_nil_of_le (by simp; omega)
  have c1 : ¬ (v.periods.length + 1 + 1 + 1 + 1 < 3) := by omega
  have c2 : ¬ (v.periods.length + 1 < 1 + v.periods.length) := by omega
  unfold DcmiCap5.decode cap5View dcmiHeaderView
  cases hv : v.ver <;>
    simp [Spec.Cap5.encode, hv, Spec.DcmiVersion.header, DcmiHeader.ofBytes, e0, e1, e2, ht, hd, c1, c2]

example : (⟨.v15 2, [⟨0, 42⟩, ⟨3, 21⟩, ⟨2, 51⟩, ⟨1, 12⟩, ⟨0, 0⟩]⟩ : Spec.Cap5).wf := by
  refine ⟨by decide, ?_⟩
  intro p hp
  simp at hp
  rcases hp with rfl | rfl | rfl | rfl | rfl <;> decide

/-- header (3) + the count byte is the minimum -/
theorem cap5_short (b : Bytes) (h : b.length < 4) : DcmiCap5.decode b = .error () := by
  unfold DcmiCap5.decode
  by_cases h3 : b.length < 3
  · simp [h3]
  · have : b.length - 3 < 1 := by omega
    simp [h3, this]

/-- fewer period bytes than the count byte announces: rejected (never read from beyond the data) -/
theorem cap5_truncated (b : Bytes) (h : b.length < 4 + (b.getD 3 0).toNat) : DcmiCap5.decode b = .error () := by
  unfold DcmiCap5.decode
  by_cases h3 : b.length < 3
  · simp [h3]
  · by_cases h4 : b.length - 3 < 1
    · simp [h3, h4]
    · have : b.length - 3 < 1 + (b.getD 3 0).toNat := by omega
      simp only [h3, h4, this, if_true, if_false]

-- Get Power Reading ------------------------------------------------------------------------------------------------

def powerReadingView (v : Spec.PowerReading) : PowerReading :=
  { instantaneous := v.current, min := v.minimum, max := v.maximum, avg := v.average, timestamp := v.timestamp
    period := 1000000 * v.periodMs, active := v.active }

theorem powerReading_decode_spec (v : Spec.PowerReading) (h : v.wf) :
    PowerReading.decode v.encode = .ok (powerReadingView v) := by
  obtain ⟨h1, h2, h3, h4, h5, h6⟩ := h
  have e := power_state v.active
  unfold PowerReading.decode powerReadingView
  simp [Spec.PowerReading.encode, Spec.le16, Spec.le32, Wire.le16, Wire.le32, e]
  omega

example : (⟨2222, 1111, 3333, 1234, 1564784243, 3721182122, true⟩ : Spec.PowerReading).wf := by decide

/-- shorter than 17 bytes — including the 0-byte response of a BMC not connected to its power supply — is rejected -/
theorem powerReading_short (b : Bytes) (h : b.length < 17) : PowerReading.decode b = .error () := by
  simp [PowerReading.decode, h]

-- Get DCMI Sensor Info ---------------------------------------------------------------------------------------------

def sensorInfoView (v : Spec.SensorInfo) : SensorInfoView :=
  { instances := v.instances, recordIDs := v.recordIDs, contents := v.encode, payload := [] }

/-- 0…255 record IDs (the specification sends at most 8) decode to themselves, in order -/
theorem sensorInfo_decode_spec (v : Spec.SensorInfo) (h : v.wf) :
    SensorInfoView.decode v.encode = .ok (sensorInfoView v) := by
  obtain ⟨h1, h2⟩ := h
  have e0 : v.recordIDs.length % 256 = v.recordIDs.length := Nat.mod_eq_of_lt h1
  have e1 := recordIDs_roundtrip v.recordIDs h2
  have e2 := flat_length v.recordIDs
  unfold SensorInfoView.decode sensorInfoView
  simp only [Spec.SensorInfo.encode, List.cons_append, List.nil_append, List.length_cons, e2]
  have g1 : ¬ (2 * v.recordIDs.length + 1 + 1 < 2) := by omega
  simp only [g1, if_false]
  have en : (List.getD (v.instances :: UInt8.ofNat v.recordIDs.length :: v.recordIDs.flatMap Spec.le16) 1 0).toNat
      = v.recordIDs.length := by simp [e0]
  simp only [en]
  have g2 : ¬ (2 * v.recordIDs.length + 1 + 1 < 2 + v.recordIDs.length * 2) := by omega
  simp only [g2, if_false, drop_two_add, e1]
  congr 2
  · apply List.take_of_length_le; simp [e2]; omega
  · apply List.drop_eq_nil_of_le; simp [e2]; omega

example : (⟨9, [0x0ff0, 0xf00f]⟩ : Spec.SensorInfo).wf := by
  refine ⟨by decide, ?_⟩
  intro r hr
  simp at hr
  rcases hr with rfl | rfl <;> decide

/-- the two fixed bytes are the minimum -/
theorem sensorInfo_short (b : Bytes) (h : b.length < 2) : SensorInfoView.decode b = .error () := by
  simp [SensorInfoView.decode, h]

/-- fewer bytes than 2 + 2 × the count byte: rejected (one byte short included; never read from beyond the data) -/
theorem sensorInfo_truncated (b : Bytes) (h : b.length < 2 + (b.getD 1 0).toNat * 2) :
    SensorInfoView.decode b = .error () := by
  unfold SensorInfoView.decode
  by_cases h2 : b.length < 2
  · simp [h2]
  · simp only [h2, h, if_true, if_false]

end Bmc.Proofs.C07
