import Bmc.Lemmas.SessBits
import Bmc.Lemmas.SessRefine
/-! # C07 (session-setup responses, Get Chassis Status): decoding the specification's encoding of any field values
    yields those values; bodies shorter than the minimum are rejected -/
namespace Bmc.Proofs.C07
open Bmc Bmc.Wire Bmc.Lemmas.Sess

-- Get Channel Authentication Capabilities ------------------------------------------------------------------------
/-- the model's view of a specification value (the library exposes the raw status bits 4 and 3 as
    `PerMessageAuthentication` / `UserLevelAuthentication`, as its tests pin) -/
def authCapsView (v : Spec.AuthCaps) : AuthCapsRsp :=
  { channel := v.channel
    authTypes := authTypes v.extended v.oemAuth v.password v.md5 v.md2 v.none
    status := authStatus v.kgNonNull v.perMessageAuthDisabled v.userLevelAuthDisabled v.nonNullUsernames v.nullUsernames
      v.anonymousLogin
    versions := authVersions v.v20 v.v15
    oem := v.oemID, oemData := v.oemData, contents := v.encode, payload := [] }

/-- every well-formed Get Channel Authentication Capabilities response decodes to its fields, flag by flag -/
theorem authCaps_decode_spec (v : Spec.AuthCaps) (h : v.wf) : AuthCapsRsp.decode v.encode = .ok (authCapsView v) := by
  obtain ⟨_, h2⟩ := h
  have e1 := a1 v.extended v.oemAuth v.password v.md5 v.md2 v.none
  have e2 := a2 v.kgNonNull v.perMessageAuthDisabled v.userLevelAuthDisabled v.nonNullUsernames v.nullUsernames v.anonymousLogin
  have e3 := a3 v.v20 v.v15
  unfold authTypes at e1; unfold authStatus at e2; unfold authVersions at e3
  simp [AuthCapsRsp.decode, AuthCapsRsp.decodeGo, authCapsView, Spec.AuthCaps.encode, Spec.le24, authTypes, authStatus,
    authVersions, GoSlice.idx, GoSlice.slice, GoSlice.sliceFrom, GoSlice.ofBytes, GoSlice.vis, e1, e2, e3]
  omega

/-- the hypothesis is satisfiable by a non-trivial value -/
example : (⟨0xe, true, true, false, true, false, true, true, false, true, false, true, false, true, true, 0x030201, 0xff⟩
    : Spec.AuthCaps).wf := by decide

/-- shorter than the 8-byte minimum: rejected -/
theorem authCaps_short (b : Bytes) (h : b.length < 8) : AuthCapsRsp.decode b = .err := by
  simp [AuthCapsRsp.decode, AuthCapsRsp.decodeGo, h]

example : ([0, 0x15, 0x15, 1, 3, 2, 1] : Bytes).length < 8 := by decide

-- Get Channel Cipher Suites ---------------------------------------------------------------------------------------
def cipherSuitesView (v : Spec.CipherSuites) : CipherSuitesRsp :=
  { channel := v.channel, chunk := v.chunk, contents := v.encode, payload := [] }

/-- every chunk length 0 … 16 -/
theorem cipherSuites_decode_spec (v : Spec.CipherSuites) (h : v.wf) :
    CipherSuitesRsp.decode v.encode = .ok (cipherSuitesView v) := by
  obtain ⟨_, h2⟩ := h
  have h17 : ¬ (v.chunk.length + 1 > 17) := by omega
  have hle : v.chunk.length + 1 ≤ (v.channel :: v.chunk).length := by simp
  simp [CipherSuitesRsp.decode, CipherSuitesRsp.decodeGo, cipherSuitesView, Spec.CipherSuites.encode, GoSlice.idx,
    GoSlice.slice, GoSlice.sliceFrom, GoSlice.ofBytes, GoSlice.vis, h17]

example : (⟨1, [0xC0, 0x11, 0x03, 0x44, 0x81]⟩ : Spec.CipherSuites).wf := by decide
example : (⟨1, []⟩ : Spec.CipherSuites).wf := by decide
example : (⟨1, List.replicate 16 0xAA⟩ : Spec.CipherSuites).wf := by decide

/-- an empty body (no channel byte): rejected -/
theorem cipherSuites_short (b : Bytes) (h : b.length < 1) : CipherSuitesRsp.decode b = .err := by
  simp [CipherSuitesRsp.decode, CipherSuitesRsp.decodeGo, h]

example : ([] : Bytes).length < 1 := by decide

-- Set Session Privilege Level ---------------------------------------------------------------------------------------
def setPrivView (v : Spec.SetPriv) : SetPrivRsp := { level := v.level }

theorem setPriv_decode_spec (v : Spec.SetPriv) (h : v.wf) : SetPrivRsp.decode v.encode = .ok (setPrivView v) := by
  have e := s4 v.level.toNat h
  simp only [UInt8.ofNat_toNat] at e
  simp [SetPrivRsp.decode, SetPrivRsp.decodeGo, setPrivView, Spec.SetPriv.encode, GoSlice.idx, GoSlice.ofBytes, e]

example : (⟨4⟩ : Spec.SetPriv).wf := by decide

/-- any length other than 1 (empty, or with trailing bytes): rejected -/
theorem setPriv_short (b : Bytes) (h : b.length ≠ 1) : SetPrivRsp.decode b = .err := by
  simp [SetPrivRsp.decode, SetPrivRsp.decodeGo, h]

example : ([] : Bytes).length ≠ 1 ∧ ([4, 0] : Bytes).length ≠ 1 := by decide

-- Get System GUID ---------------------------------------------------------------------------------------------------
def guidView (v : Spec.SystemGUID) : GUIDRsp := { guid := v.guid, contents := v.guid }

theorem guid_decode_spec (v : Spec.SystemGUID) (h : v.wf) : GUIDRsp.decode v.encode = .ok (guidView v) := by
  have h16 : v.guid.length = 16 := h
  have ht : List.take 16 v.guid = v.guid := List.take_of_length_le (by omega)
  simp [GUIDRsp.decode, GUIDRsp.decodeGo, guidView, Spec.SystemGUID.encode, GoSlice.slice, GoSlice.ofBytes, GoSlice.vis,
    h16, ht]

example : (⟨[1, 2, 3, 4, 5, 6, 7, 8, 9, 10, 11, 12, 13, 14, 15, 16]⟩ : Spec.SystemGUID).wf := by decide

theorem guid_short (b : Bytes) (h : b.length < 16) : GUIDRsp.decode b = .err := by
  simp [GUIDRsp.decode, GUIDRsp.decodeGo, h]

example : ([1, 2, 3, 4, 5, 6, 7, 8, 9, 10, 11, 12, 13, 14, 15] : Bytes).length < 16 := by decide

-- Get Session Info --------------------------------------------------------------------------------------------------
/-- the model's view: "no session" leaves every session field at its zero value; only the LAN form fills IP (as the
    IPv4-mapped 16-byte address `net.IP` uses), MAC and port; the serial/modem tail is not interpreted by the library
    and is handed on as `Payload` -/
def sessionInfoView (v : Spec.SessionInfo) : SessionInfoRsp :=
  match v.session with
  | none => { handle := v.handle, max := v.possible, active := v.active, contents := v.encode, payload := [] }
  | some s =>
    let base : SessionInfoRsp :=
      { handle := v.handle, max := v.possible, active := v.active, userID := s.userID, privilegeLevel := s.privilege
        isIPMIv2 := s.v20, channel := s.channel }
    match s.chan with
    | .absent => { base with contents := v.encode, payload := [] }
    | .lan (a, b, c, d) (m0, m1, m2, m3, m4, m5) port =>
      { base with ip := [0, 0, 0, 0, 0, 0, 0, 0, 0, 0, 0xff, 0xff, a, b, c, d], mac := [m0, m1, m2, m3, m4, m5], port := port
                  contents := v.encode, payload := [] }
    | .serial .. => { base with contents := v.encode.take 6, payload := v.encode.drop 6 }

/-- every well-formed Get Session Info response — no session (3 bytes), active session without channel data (6),
    LAN session (18), serial/modem session (12 or 14), with a zero or non-zero handle — decodes to its fields -/
theorem sessionInfo_decode_spec (v : Spec.SessionInfo) (h : v.wf) :
    SessionInfoRsp.decode v.encode = .ok (sessionInfoView v) := by
  obtain ⟨handle, possible, active, session⟩ := v
  obtain ⟨_, _, hs⟩ := h
  cases session with
  | none =>
    simp only at hs
    subst hs
    simp [SessionInfoRsp.decode, SessionInfoRsp.decodeGo, sessionInfoView, Spec.SessionInfo.encode, GoSlice.idx,
      GoSlice.slice, GoSlice.sliceFrom, GoSlice.ofBytes, GoSlice.vis]
  | some s =>
    obtain ⟨userID, privilege, v20, channel, chan⟩ := s
    obtain ⟨h3, h4, h5, hc⟩ := hs
    have e3 := s3 userID.toNat h3
    have e4 := s4 privilege.toNat h4
    have e5 := s5 v20 channel.toNat h5
    simp only [UInt8.ofNat_toNat] at e3 e4 e5
    cases chan with
    | absent =>
      simp [SessionInfoRsp.decode, SessionInfoRsp.decodeGo, sessionInfoView, Spec.SessionInfo.encode,
        Spec.ActiveSession.encode, Spec.SessionChannelInfo.encode, GoSlice.idx, GoSlice.slice, GoSlice.sliceFrom,
        GoSlice.ofBytes, GoSlice.vis, e3, e4, e5]
    | lan ip mac port =>
      obtain ⟨a, b, c, d⟩ := ip
      obtain ⟨m0, m1, m2, m3, m4, m5⟩ := mac
      have ep := le16_read port hc
      simp only [Spec.le16] at ep
      simp [SessionInfoRsp.decode, SessionInfoRsp.decodeGo, sessionInfoView, Spec.SessionInfo.encode,
        Spec.ActiveSession.encode, Spec.SessionChannelInfo.encode, Spec.le16, v4Prefix, GoSlice.idx, GoSlice.slice,
        GoSlice.sliceFrom, GoSlice.ofBytes, GoSlice.vis, e3, e4, e5, ep]
    | serial act dest ip port =>
      obtain ⟨a, b, c, d⟩ := ip
      cases port <;>
      simp [SessionInfoRsp.decode, SessionInfoRsp.decodeGo, sessionInfoView, Spec.SessionInfo.encode,
        Spec.ActiveSession.encode, Spec.SessionChannelInfo.encode, Spec.le16, GoSlice.idx, GoSlice.slice,
        GoSlice.sliceFrom, GoSlice.ofBytes, GoSlice.vis, e3, e4, e5]

/-- the hypothesis is satisfiable by every form -/
example : (⟨0, 16, 2, none⟩ : Spec.SessionInfo).wf := by decide
example : (⟨0x16, 8, 4, some ⟨1, 2, true, 1, .absent⟩⟩ : Spec.SessionInfo).wf := by decide
example : (⟨0, 16, 2, some ⟨2, 2, true, 1, .absent⟩⟩ : Spec.SessionInfo).wf := by decide
example : (⟨0xfd, 15, 14, some ⟨22, 4, false, 15, .lan (10, 22, 1, 3) (0xd3, 0xf5, 0xfb, 0xbf, 0x83, 0xed) 63061⟩⟩
    : Spec.SessionInfo).wf := by decide
example : (⟨7, 4, 1, some ⟨3, 4, false, 2, .serial 1 2 (192, 168, 0, 9) (some 623)⟩⟩ : Spec.SessionInfo).wf := by decide

/-- shorter than the 3-byte minimum: rejected -/
theorem sessionInfo_short (b : Bytes) (h : b.length < 3) : SessionInfoRsp.decode b = .err := by
  simp [SessionInfoRsp.decode, SessionInfoRsp.decodeGo, h]

/-- an active session's data cut below 6 bytes (3 with a non-zero handle, or 4, 5): rejected -/
theorem sessionInfo_short_active (b : Bytes) (h3 : 3 ≤ b.length) (h6 : b.length < 6)
    (hh : b.length = 3 → b.getD 0 0 ≠ 0) : SessionInfoRsp.decode b = .err := by
  rcases b with _ | ⟨x, _ | ⟨y, _ | ⟨z, _ | ⟨w, _ | ⟨u, _ | ⟨t, r⟩⟩⟩⟩⟩⟩
  · simp at h3
  · simp at h3
  · simp at h3
  · have hx : x ≠ 0 := by simpa using hh
    simp [SessionInfoRsp.decode, SessionInfoRsp.decodeGo, GoSlice.idx, GoSlice.ofBytes, hx]
  · simp [SessionInfoRsp.decode, SessionInfoRsp.decodeGo, GoSlice.idx, GoSlice.ofBytes]
  · simp [SessionInfoRsp.decode, SessionInfoRsp.decodeGo, GoSlice.idx, GoSlice.ofBytes]
  · simp at h6; omega

example : ([0, 1] : Bytes).length < 3 := by decide
example : 3 ≤ ([0x16, 8, 4] : Bytes).length ∧ ([0x16, 8, 4] : Bytes).length < 6 ∧
    (([0x16, 8, 4] : Bytes).length = 3 → ([0x16, 8, 4] : Bytes).getD 0 0 ≠ 0) := by decide
example : 3 ≤ ([0, 8, 4, 1, 2] : Bytes).length ∧ ([0, 8, 4, 1, 2] : Bytes).length < 6 ∧
    (([0, 8, 4, 1, 2] : Bytes).length = 3 → ([0, 8, 4, 1, 2] : Bytes).getD 0 0 ≠ 0) := by decide

-- Get Chassis Status ------------------------------------------------------------------------------------------------
/-- the model's view: the three flag groups bit for bit (`Lemmas.Sess.c0_flags`, `c2_flags`, `c3_flags` read every
    single flag back), the identify state only when the "supported" bit is set (else the library's `Unknown` = 0xff),
    all eight button flags clear when the optional 4th byte is absent -/
def chassisView (v : Spec.ChassisStatus) : GetChassisStatusRsp :=
  { powerRestorePolicy := v.restorePolicy
    flags0 := chassis0 v.powerControlFault v.powerFault v.interlock v.powerOverload v.poweredOn
    flags1 := chassis0 v.poweredOnByIPMI v.lastDownFault v.lastDownInterlock v.lastDownOverload v.lastDownACFailed
    identifyState := if v.identifySupported then v.identifyState else 0xff
    flags2 := chassis2 v.coolingFault v.driveFault v.lockout v.intrusion
    frontPanel := match v.frontPanel with | some f => f.encode | none => 0
    contents := v.encode, payload := [] }

/-- every well-formed Get Chassis Status response, with or without the front-panel byte, decodes to its fields -/
theorem chassis_decode_spec (v : Spec.ChassisStatus) (h : v.wf) :
    GetChassisStatusRsp.decode v.encode = .ok (chassisView v) := by
  obtain ⟨h1, h2⟩ := h
  have e0 := c0 v.restorePolicy.toNat h1 v.powerControlFault v.powerFault v.interlock v.powerOverload v.poweredOn
  have e1 := c1 v.poweredOnByIPMI v.lastDownFault v.lastDownInterlock v.lastDownOverload v.lastDownACFailed
  have e2 := c2 v.identifySupported v.identifyState.toNat h2 v.coolingFault v.driveFault v.lockout v.intrusion
  simp only [UInt8.ofNat_toNat] at e0 e2
  cases hf : v.frontPanel with
  | none =>
    simp [GetChassisStatusRsp.decode, GetChassisStatusRsp.decodeGo, chassisView, Spec.ChassisStatus.encode, hf,
      GoSlice.idx, GoSlice.slice, GoSlice.sliceFrom, GoSlice.ofBytes, GoSlice.vis, e0, e1, e2.2]
    simpa using e2.1
  | some f =>
    simp [GetChassisStatusRsp.decode, GetChassisStatusRsp.decodeGo, chassisView, Spec.ChassisStatus.encode, hf,
      GoSlice.idx, GoSlice.slice, GoSlice.sliceFrom, GoSlice.ofBytes, GoSlice.vis, e0, e1, e2.2]
    simpa using e2.1

example : (⟨2, true, false, true, false, true, true, false, true, false, true, true, 2, false, true, false, true,
    some ⟨true, false, true, false, false, true, false, true⟩⟩ : Spec.ChassisStatus).wf := by decide
example : (⟨3, false, false, false, false, true, false, false, false, false, false, false, 0, false, false, false, false,
    none⟩ : Spec.ChassisStatus).wf := by decide

/-- shorter than the 3-byte minimum: rejected -/
theorem chassis_short (b : Bytes) (h : b.length < 3) : GetChassisStatusRsp.decode b = .err := by
  simp [GetChassisStatusRsp.decode, GetChassisStatusRsp.decodeGo, h]

example : ([0x21, 0x10] : Bytes).length < 3 := by decide

end Bmc.Proofs.C07
