import Bmc.Lemmas.DeviceIDBits
/-! # C07 (Get Device ID): decoding the specification's encoding of any field values yields those values -/
namespace Bmc.Proofs.C07
open Bmc Bmc.Wire Bmc.Lemmas.DeviceID

/-- the model's view of a specification value -/
def deviceIDView (v : Spec.DeviceID) : GetDeviceIDRsp :=
  { id := v.id, providesSDRs := v.providesSDRs, revision := v.revision, available := v.available
    majorFirmwareRevision := v.majorFirmware, minorFirmwareRevision := UInt8.ofNat v.minorFirmware
    majorIPMIVersion := v.ipmiMajor, minorIPMIVersion := v.ipmiMinor
    support := Spec.bit v.chassis 7 ||| Spec.bit v.bridge 6 ||| Spec.bit v.eventGenerator 5 ||| Spec.bit v.eventReceiver 4
      ||| Spec.bit v.fru 3 ||| Spec.bit v.sel 2 ||| Spec.bit v.sdrRepository 1 ||| Spec.bit v.sensor 0
    manufacturer := v.manufacturer, product := v.product
    aux := match v.aux with | some (a, b, c, d) => [a, b, c, d] | none => [0, 0, 0, 0]
    contents := v.encode }

/-- every well-formed Get Device ID response, with or without the auxiliary revision, decodes to its fields -/
theorem deviceID_decode_spec (v : Spec.DeviceID) (h : v.wf) :
    GetDeviceIDRsp.decode v.encode = .ok (deviceIDView v) := by
  obtain ⟨h1, h2, h3, h4, h5, h6, h7⟩ := h
  have e1 := b1 v.providesSDRs v.revision.toNat h1
  have e2 := b2 v.available v.majorFirmware.toNat h2
  have e3 := b3 v.minorFirmware h3
  have e4 := b4 v.ipmiMajor.toNat h4 v.ipmiMinor.toNat h5
  simp only [UInt8.ofNat_toNat] at e1 e2 e4
  unfold GetDeviceIDRsp.decode deviceIDView
  cases ha : v.aux with
  | none =>
    simp [Spec.DeviceID.encode, ha, Spec.le24, Spec.le16, e1, e2, e3, e4, copy4]
    omega
  | some q =>
    obtain ⟨a, b, c, d⟩ := q
    simp [Spec.DeviceID.encode, ha, Spec.le24, Spec.le16, e1, e2, e3, e4, copy4]
    omega

/-- the hypothesis is satisfiable by a non-trivial value -/
example : (⟨0x20, true, 1, true, 2, 15, 2, 0, true, false, true, true, true, true, true, true, 343, 0x1234,
    some (1, 2, 3, 4)⟩ : Spec.DeviceID).wf := by decide

/-- shorter than the 11-byte minimum: rejected -/
theorem deviceID_short (b : Bytes) (h : b.length < 11) : GetDeviceIDRsp.decode b = .error () := by
  simp [GetDeviceIDRsp.decode, h]

end Bmc.Proofs.C07
