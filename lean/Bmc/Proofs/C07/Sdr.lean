import Bmc.Lemmas.SdrBits
import Bmc.Lemmas.SdrRefine
import Bmc.Lemmas.SdrIdString
/-! # C07 (SDR group): decoding the specification's encoding of any field values yields those values; anything
    shorter than the layer's minimum is rejected -/
namespace Bmc.Proofs.C07
open Bmc Bmc.Wire Bmc.Lemmas.Sdr

-- Get SDR Repository Info ------------------------------------------------------------------------------------
def sdrRepoInfoView (v : Spec.SDRRepoInfo) : SDRRepoInfoRsp :=
  { version := UInt8.ofNat (10 * v.versionMajor + v.versionMinor), records := v.records, freeSpace := v.freeSpace
    lastAddition := v.lastAddition, lastErase := v.lastErase, flags := v.flags, contents := v.encode, payload := [] }

theorem sdrRepoInfo_decode_spec (v : Spec.SDRRepoInfo) (h : v.wf) :
    SDRRepoInfoRsp.decode v.encode = .ok (sdrRepoInfoView v) := by
  obtain ⟨h1, h2, h3, h4, h5, h6⟩ := h
  have e1 := version v.versionMajor h1 v.versionMinor h2
  have e2 := flags13 v.overflow v.modalUpdate v.nonModalUpdate v.delete v.partialAdd v.reserve v.allocationInfo
  unfold SDRRepoInfoRsp.decode SDRRepoInfoRsp.decodeGo sdrRepoInfoView
  simp [Spec.SDRRepoInfo.encode, Spec.SDRRepoInfo.flags, Spec.le16, Spec.le32, GoSlice.slice, GoSlice.sliceFrom,
    GoSlice.idx, GoSlice.ofBytes, GoSlice.vis, le16, le32, e1, e2, -UInt8.ofNat_add, -UInt8.ofNat_mul]
  omega

example : (⟨1, 5, 0x1234, 0xfffe, 0x5f000000, 0xffffffff, true, false, true, true, false, true, true⟩ : Spec.SDRRepoInfo).wf := by
  decide

/-- shorter than the 14-byte minimum: rejected -/
theorem sdrRepoInfo_short (b : Bytes) (h : b.length < 14) : SDRRepoInfoRsp.decode b = .err := by
  simp [SDRRepoInfoRsp.decode, SDRRepoInfoRsp.decodeGo, h]

-- Reserve SDR Repository ---------------------------------------------------------------------------------------
theorem reserveSDR_decode_spec (v : Spec.ReserveSDR) (h : v.wf) :
    ReserveRsp.decode v.encode = .ok { reservationID := v.reservationID, contents := v.encode } := by
  unfold Spec.ReserveSDR.wf at h
  unfold ReserveRsp.decode ReserveRsp.decodeGo
  simp [Spec.ReserveSDR.encode, Spec.le16, GoSlice.slice, GoSlice.ofBytes, GoSlice.vis, le16]
  omega
example : (⟨0xbeef⟩ : Spec.ReserveSDR).wf := by decide
theorem reserveSDR_short (b : Bytes) (h : b.length < 2) : ReserveRsp.decode b = .err := by
  simp [ReserveRsp.decode, ReserveRsp.decodeGo, h]

-- Get SDR --------------------------------------------------------------------------------------------------------
/-- for every amount of record data, none included -/
theorem getSDR_decode_spec (v : Spec.GetSDR) (h : v.wf) :
    GetSDRRsp.decode v.encode = .ok { next := v.next, contents := Spec.le16 v.next, payload := v.data } := by
  unfold Spec.GetSDR.wf at h
  unfold GetSDRRsp.decode GetSDRRsp.decodeGo
  simp [Spec.GetSDR.encode, Spec.le16, GoSlice.slice, GoSlice.sliceFrom, GoSlice.ofBytes, GoSlice.vis, le16]
  rw [if_neg (by omega), show v.next % 256 + 256 * (v.next / 256 % 256) = v.next by omega]
example : (⟨0xffff, [1, 2, 3]⟩ : Spec.GetSDR).wf := by decide
theorem getSDR_short (b : Bytes) (h : b.length < 2) : GetSDRRsp.decode b = .err := by
  simp [GetSDRRsp.decode, GetSDRRsp.decodeGo, h]

-- SDR header -----------------------------------------------------------------------------------------------------
/-- for every record body length 0…255 -/
theorem sdrHeader_decode_spec (v : Spec.SDRHeader) (h : v.wf) :
    SDRHeader.decode v.encode = .ok { id := v.id, version := UInt8.ofNat (10 * v.versionMajor + v.versionMinor)
                                      typ := v.recordType, length := UInt8.ofNat v.body.length
                                      contents := v.encode.take 5, payload := v.body } := by
  obtain ⟨h1, h2, h3, h4⟩ := h
  have e1 := version v.versionMajor h2 v.versionMinor h3
  unfold SDRHeader.decode SDRHeader.decodeGo
  simp [Spec.SDRHeader.encode, Spec.le16, GoSlice.slice, GoSlice.sliceFrom, GoSlice.idx, GoSlice.ofBytes, GoSlice.vis, le16,
    e1, -UInt8.ofNat_add, -UInt8.ofNat_mul]
  rw [if_neg (by omega), show v.id % 256 + 256 * (v.id / 256 % 256) = v.id by omega]
example : (⟨0x0102, 1, 5, 1, [1, 2, 3]⟩ : Spec.SDRHeader).wf := by decide
theorem sdrHeader_short (b : Bytes) (h : b.length < 5) : SDRHeader.decode b = .err := by
  simp [SDRHeader.decode, SDRHeader.decodeGo, h]

-- Get Sensor Reading ---------------------------------------------------------------------------------------------
/-- with and without the optional second state byte; no field has a constraint, so every value is well formed -/
theorem sensorReading_decode_spec (v : Spec.SensorReading) :
    SensorReadingRsp.decode v.encode = .ok { reading := v.reading, eventMessagesEnabled := v.eventMessagesEnabled
                                             scanningEnabled := v.scanningEnabled, readingUnavailable := v.readingUnavailable
                                             contents := v.encode, payload := [] } := by
  have e := reading1 v.eventMessagesEnabled v.scanningEnabled v.readingUnavailable
  unfold SensorReadingRsp.decode SensorReadingRsp.decodeGo
  cases hs : v.states2 with
  | none => simp [Spec.SensorReading.encode, hs, GoSlice.slice, GoSlice.sliceFrom, GoSlice.idx, GoSlice.ofBytes, GoSlice.vis, e]
  | some s => simp [Spec.SensorReading.encode, hs, GoSlice.slice, GoSlice.sliceFrom, GoSlice.idx, GoSlice.ofBytes, GoSlice.vis, e]
theorem sensorReading_short (b : Bytes) (h : b.length < 3) : SensorReadingRsp.decode b = .err := by
  simp [SensorReadingRsp.decode, SensorReadingRsp.decodeGo, h]

-- Full Sensor Record ---------------------------------------------------------------------------------------------
/-- the model's view of a specification value -/
def fullSensorView (v : Spec.FullSensor) : FullSensorRecord :=
  { ownerAddress := v.ownerID, channel := v.channel, ownerLUN := v.ownerLUN, number := v.number
    m := v.m, b := v.b, bExp := v.bExp, rExp := v.rExp
    isContainerEntity := v.logical, entity := v.entityID, inst := v.entityInstance, ignore := v.ignoreIfAbsent
    sensorType := v.sensorType, outputType := v.eventReadingType, analogDataFormat := v.analogFormat
    rateUnit := v.rateUnit, isPercentage := v.percentage, baseUnit := v.baseUnit, modifierUnit := v.modifierUnit
    linearisation := v.linearisation, tolerance := v.tolerance, accuracy := v.accuracy, accuracyExp := v.accuracyExp
    direction := v.direction, nominalReadingSpecified := v.nominalSpecified, normalMinSpecified := v.normalMinSpecified
    normalMaxSpecified := v.normalMaxSpecified, nominalReading := v.nominalReading, normalMin := v.normalMin
    normalMax := v.normalMax, sensorMin := v.sensorMin, sensorMax := v.sensorMax
    identity := v.idString.chars, contents := v.encode, payload := [] }

/-- every well-formed Full Sensor Record — every value of every field of the table, each of the four ID string
    encodings, every character count 0…31 — decodes to its fields, the string to its characters -/
theorem fullSensor_decode_spec (v : Spec.FullSensor) (h : v.wf) :
    FullSensorRecord.decode v.encode = .ok (fullSensorView v) := by
  obtain ⟨h1, h2, h3, h4, h5, h6, h7, h8, h9, h10, h11, hm, h12, hb, ha, h13, h14, hr, hbe, hs⟩ := h
  have hlen : v.encode.length = 43 + v.idString.bytes.length := by
    simp [Spec.FullSensor.encode, Spec.FullSensor.fixed]; omega
  -- the string
  have e42 := fsr42 v.idString.enc.code (by cases v.idString.enc <;> decide) v.idString.chars.length (by have := hs.1; omega)
  have es := idString_roundtrip v.idString hs
  -- the fixed fields, byte by byte
  have e1 := fsr1 v.channel.toNat h1 v.ownerLUN.toNat h2
  have e4 := fsr4 v.logical v.entityInstance.toNat h3
  have e6 := (fsr4 v.ignoreIfAbsent v.capabilities.toNat h4).1
  have e15 := fsr15a v.analogFormat.toNat h8 v.rateUnit.toNat h9 v.modifierUse.toNat h10 v.percentage
  have e18 := fsr18 v.linearisation.toNat h11
  obtain ⟨m1, m2⟩ := toTwos10 v.m hm
  obtain ⟨b1, b2⟩ := toTwos10 v.b hb
  obtain ⟨a1, a2⟩ := toTwos10 v.accuracy ha
  obtain ⟨r1, r2⟩ := toTwos4 v.rExp hr
  obtain ⟨k1, k2⟩ := toTwos4 v.bExp hbe
  have e20 := fsr20 (Spec.toTwos 10 v.m / 256) (by omega) v.tolerance.toNat h12
  have em := twosGo10 (Spec.toTwos 10 v.m / 256) (by omega) (Spec.toTwos 10 v.m % 256) (by omega)
  have e22 := fsr20 (Spec.toTwos 10 v.b / 256) (by omega) (Spec.toTwos 10 v.accuracy % 64) (by omega)
  have eb := twosGo10 (Spec.toTwos 10 v.b / 256) (by omega) (Spec.toTwos 10 v.b % 256) (by omega)
  have e23 := fsr23 (Spec.toTwos 10 v.accuracy / 64) (by omega) v.accuracyExp.toNat h13 v.direction.toNat h14
  have ea := accuracy10 (Spec.toTwos 10 v.accuracy % 64) (by omega) (Spec.toTwos 10 v.accuracy / 64) (by omega)
  have e24 := fsr24 (Spec.toTwos 4 v.rExp) r1 (Spec.toTwos 4 v.bExp) k1
  have er := twosGo4 (Spec.toTwos 4 v.rExp) r1
  have ek := twosGo4 (Spec.toTwos 4 v.bExp) k1
  have e25 := fsr25 v.normalMinSpecified v.normalMaxSpecified v.nominalSpecified
  rw [show 256 * (Spec.toTwos 10 v.m / 256) + Spec.toTwos 10 v.m % 256 = Spec.toTwos 10 v.m by omega, m2] at em
  rw [show 256 * (Spec.toTwos 10 v.b / 256) + Spec.toTwos 10 v.b % 256 = Spec.toTwos 10 v.b by omega, b2] at eb
  rw [show Spec.toTwos 10 v.accuracy % 64 + 64 * (Spec.toTwos 10 v.accuracy / 64) = Spec.toTwos 10 v.accuracy by omega, a2] at ea
  rw [r2] at er
  rw [k2] at ek
  simp only [UInt8.ofNat_toNat] at e1 e4 e6 e15 e18 e20 e23
  unfold FullSensorRecord.decode
  rw [if_neg (by omega)]
  have d42 : v.encode.getD 42 0 = v.idString.typeLength := rfl
  have ddrop : v.encode.drop 43 = v.idString.bytes := rfl
  rw [d42, ddrop]
  unfold Spec.IdString.typeLength
  rw [e42.1, e42.2, es]
  have d0 : v.encode.getD 0 0 = v.ownerID := rfl
  have d1 : v.encode.getD 1 0 = (v.channel <<< 4) ||| v.ownerLUN := rfl
  have d2 : v.encode.getD 2 0 = v.number := rfl
  have d3 : v.encode.getD 3 0 = v.entityID := rfl
  have d4 : v.encode.getD 4 0 = Spec.bit v.logical 7 ||| v.entityInstance := rfl
  have d6 : v.encode.getD 6 0 = Spec.bit v.ignoreIfAbsent 7 ||| v.capabilities := rfl
  have d7 : v.encode.getD 7 0 = v.sensorType := rfl
  have d8 : v.encode.getD 8 0 = v.eventReadingType := rfl
  have d15 : v.encode.getD 15 0 = (v.analogFormat <<< 6) ||| (v.rateUnit <<< 3) ||| (v.modifierUse <<< 1) ||| Spec.bit v.percentage 0 := rfl
  have d16 : v.encode.getD 16 0 = v.baseUnit := rfl
  have d17 : v.encode.getD 17 0 = v.modifierUnit := rfl
  have d18 : v.encode.getD 18 0 = v.linearisation := rfl
  have d19 : v.encode.getD 19 0 = UInt8.ofNat (Spec.toTwos 10 v.m % 256) := rfl
  have d20 : v.encode.getD 20 0 = (UInt8.ofNat (Spec.toTwos 10 v.m / 256) <<< 6) ||| v.tolerance := rfl
  have d21 : v.encode.getD 21 0 = UInt8.ofNat (Spec.toTwos 10 v.b % 256) := rfl
  have d22 : v.encode.getD 22 0 = (UInt8.ofNat (Spec.toTwos 10 v.b / 256) <<< 6) ||| UInt8.ofNat (Spec.toTwos 10 v.accuracy % 64) := rfl
  have d23 : v.encode.getD 23 0 = (UInt8.ofNat (Spec.toTwos 10 v.accuracy / 64) <<< 4) ||| (v.accuracyExp <<< 2) ||| v.direction := rfl
  have d24 : v.encode.getD 24 0 = (UInt8.ofNat (Spec.toTwos 4 v.rExp) <<< 4) ||| UInt8.ofNat (Spec.toTwos 4 v.bExp) := rfl
  have d25 : v.encode.getD 25 0 = Spec.bit v.normalMinSpecified 2 ||| Spec.bit v.normalMaxSpecified 1 ||| Spec.bit v.nominalSpecified 0 := rfl
  have d26 : v.encode.getD 26 0 = v.nominalReading := rfl
  have d27 : v.encode.getD 27 0 = v.normalMax := rfl
  have d28 : v.encode.getD 28 0 = v.normalMin := rfl
  have d29 : v.encode.getD 29 0 = v.sensorMax := rfl
  have d30 : v.encode.getD 30 0 = v.sensorMin := rfl
  have dt : v.encode.take (43 + v.idString.bytes.length) = v.encode := List.take_of_length_le (by omega)
  have dd : v.encode.drop (43 + v.idString.bytes.length) = [] := List.drop_eq_nil_of_le (by omega)
  simp only [d0, d1, d2, d3, d4, d6, d7, d8, d15, d16, d17, d18, d19, d20, d21, d22, d23, d24, d25, d26, d27, d28, d29, d30,
    dt, dd, FullSensorRecord.ofBytes, fullSensorView,
    e1, e4, e6, e15, e18, e20, em, e22, eb, e23, ea, e24, er, ek, e25]

/-- the same on the wire: into any used receiver, from a window of any larger buffer -/
theorem fullSensor_decode_wire (v : Spec.FullSensor) (h : v.wf) (prev : FullSensorRecord) (tail : Bytes) :
    FullSensorRecord.decodeGo prev (GoSlice.window v.encode tail) = .ok (fullSensorView v) := by
  rw [FullSensorRecord.decodeGo_refines, GoSlice.vis_window, fullSensor_decode_spec v h]; rfl

/-- the first vector of the repository's own test (full_sensor_record_test.go: "CPU Temp", 8-bit ASCII) as a
    specification value: it is well formed and the specification's encoding is byte for byte the test's input -/
def cpuTemp : Spec.FullSensor :=
  { ownerID := 0x20, channel := 0, ownerLUN := 0, number := 1, entityID := 3, logical := false, entityInstance := 1
    initialization := 0x7f, ignoreIfAbsent := false, capabilities := 0x68, sensorType := 1, eventReadingType := 1
    assertionMask := 0x7200, deassertionMask := 0x7200, readingMask := 0x3f3f
    analogFormat := 2, rateUnit := 0, modifierUse := 0, percentage := false, baseUnit := 1, modifierUnit := 0
    linearisation := 0, m := 1, tolerance := 0, b := 0, accuracy := 0, accuracyExp := 0, direction := 0, rExp := 0, bExp := 0
    normalMinSpecified := true, normalMaxSpecified := true, nominalSpecified := true
    nominalReading := 0x28, normalMax := 0x59, normalMin := 0xfc, sensorMax := 0x7f, sensorMin := 0x80
    upperNonRecoverable := 0x64, upperCritical := 0x64, upperNonCritical := 0x5f, lowerNonRecoverable := 0, lowerCritical := 0
    lowerNonCritical := 0, positiveHysteresis := 2, negativeHysteresis := 2, oem := 0
    idString := ⟨.latin1, [0x43, 0x50, 0x55, 0x20, 0x54, 0x65, 0x6d, 0x70]⟩ }
example : cpuTemp.wf ∧ cpuTemp.encode =
    [0x20, 0x00, 0x01, 0x03, 0x01, 0x7f, 0x68, 0x01, 0x01, 0x00, 0x72, 0x00, 0x72, 0x3f, 0x3f, 0x80, 0x01, 0x00,
     0x00, 0x01, 0x00, 0x00, 0x00, 0x00, 0x00, 0x07, 0x28, 0x59, 0xfc, 0x7f, 0x80, 0x64, 0x64, 0x5f, 0x00, 0x00,
     0x00, 0x02, 0x02, 0x00, 0x00, 0x00, 0xc8, 0x43, 0x50, 0x55, 0x20, 0x54, 0x65, 0x6d, 0x70] := by decide +kernel

/-- the hypothesis is satisfiable for each encoding, with negative and extreme signed fields and the longest count -/
example : ({ cpuTemp with m := -512, b := 511, accuracy := -342, rExp := -8, bExp := 7, channel := 15, ownerLUN := 3
                          idString := ⟨.bcdPlus, List.replicate 31 0x2d⟩ } : Spec.FullSensor).wf := by decide +kernel
example : ({ cpuTemp with idString := ⟨.packed6, [0x38, 0x24, 0x20, 0x3d, 0x27, 0x5b, 0x5c, 0x56, 0x5f]⟩ } : Spec.FullSensor).wf := by
  decide +kernel
example : ({ cpuTemp with idString := ⟨.unicode, []⟩ } : Spec.FullSensor).wf := by decide +kernel

/-- shorter than the 43-byte minimum: rejected -/
theorem fullSensor_short (b : Bytes) (h : b.length < 43) : FullSensorRecord.decode b = .error () := by
  simp [FullSensorRecord.decode, h]

/-- an ID string cut short — fewer bytes after the type/length byte than its count calls for — is rejected, for
    every encoding and every count -/
theorem fullSensor_truncated (v : Spec.FullSensor) (h : v.wf) (j : Nat) (hj : j < v.idString.bytes.length) :
    FullSensorRecord.decode (v.fixed ++ v.idString.bytes.take j) = .error () := by
  have hs := h.2.2.2.2.2.2.2.2.2.2.2.2.2.2.2.2.2.2.2
  have e42 := fsr42 v.idString.enc.code (by cases v.idString.enc <;> decide) v.idString.chars.length (by have := hs.1; omega)
  have hlen : (v.fixed ++ v.idString.bytes.take j).length = 43 + j := by
    simp [Spec.FullSensor.fixed]; omega
  unfold FullSensorRecord.decode
  rw [if_neg (by omega)]
  have d42 : (v.fixed ++ v.idString.bytes.take j).getD 42 0 = v.idString.typeLength := rfl
  have ddrop : (v.fixed ++ v.idString.bytes.take j).drop 43 = v.idString.bytes.take j := rfl
  rw [d42, ddrop]
  unfold Spec.IdString.typeLength
  rw [e42.1, e42.2, idString_truncated v.idString hs _ (by simp; omega)]
example : (0 : Nat) < cpuTemp.idString.bytes.length := by decide

/-- READING NOTE (pinned by the repository's TestDecode8BitAsciiLatin1, first case): the byte-per-character decoder
    insists on two bytes being present whenever the count is not zero. A count of 1 is reserved for type 11b
    (§43.15), so `wf` excludes it; the library applies the same rule to type 00b ("unicode"). A one-character
    string is therefore rejected when the record ends after it, yet accepted when anything follows. -/
example :
    (FullSensorRecord.decode (cpuTemp.fixed.take 42 ++ [0x01, 0x41])).toOption.map (fun r => (r.identity, r.payload)) = none ∧
    (FullSensorRecord.decode (cpuTemp.fixed.take 42 ++ [0x01, 0x41, 0x00])).toOption.map (fun r => (r.identity, r.payload))
      = some ([0x41], [0x00]) := by decide +kernel

end Bmc.Proofs.C07
