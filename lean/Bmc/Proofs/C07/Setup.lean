import Bmc.Lemmas.SetupBits
import Bmc.Lemmas.SetupOpenRefine
import Bmc.Lemmas.SetupRakp1Refine
import Bmc.Lemmas.Rakp2Refine
import Bmc.Lemmas.V1Refine
import Bmc.Wire.Rakp4
import Bmc.Wire.Selector
import Bmc.Lemmas.SetupBridge
/-! # C07 (session setup: Open Session Response, RAKP 1/2/4, session selector, v1.5 session header):
    decoding the specification's encoding of any field values yields those values; short input is rejected -/
namespace Bmc.Proofs.C07
open Bmc Bmc.Wire Bmc.Lemmas.Setup

-- Open Session Response ---------------------------------------------------------------------------------

def algView : Option UInt8 → Setup.AlgPayload
  | some a => { wildcard := false, algorithm := a }
  | none => { wildcard := true, algorithm := 0 }

/-- the model's view of a specification value -/
def openSessionRspView : Spec.OpenSessionRsp → Setup.OpenSessionRsp
  | .statusOnly st => { status := st, contents := [st] }
  | .failed tag st sid => { tag := tag, status := st, consoleSID := sid, contents := (Spec.OpenSessionRsp.failed tag st sid).encode }
  | .ok tag mp csid bsid a i c =>
    { tag := tag, status := 0, maxPriv := mp, consoleSID := csid, bmcSID := bsid
      auth := algView a, integ := algView i, conf := algView c
      contents := (Spec.OpenSessionRsp.ok tag mp csid bsid a i c).encode }

/-- every well-formed Open Session Response — status only, error form, success with any mix of concrete and
    wildcard algorithm payloads — decodes to its fields -/
theorem openSessionRsp_decode_spec (v : Spec.OpenSessionRsp) (h : v.wf) :
    Setup.OpenSessionRsp.decode v.encode = .ok (openSessionRspView v) := by
  cases v with
  | statusOnly st =>
    have : (st == 0) = false := by simpa [Spec.OpenSessionRsp.wf] using h
    simp [Setup.OpenSessionRsp.decode, Spec.OpenSessionRsp.encode, openSessionRspView, this]
  | failed tag st sid =>
    obtain ⟨h1, h2⟩ := h
    have : (st == 0) = false := by simpa using h1
    have e := le32_spec sid h2 []
    simp [Spec.le32] at e
    simp [Setup.OpenSessionRsp.decode, Spec.OpenSessionRsp.encode, openSessionRspView, this, Spec.le32, e]
  | ok tag mp csid bsid a i c =>
    obtain ⟨_, h2, h3, ha, hi, hc⟩ := h
    have e2 := fun r => le32_spec csid h2 r
    have e3 := fun r => le32_spec bsid h3 r
    simp only [Spec.le32, List.cons_append, List.nil_append] at e2 e3
    have qa := alg6o a ha
    have qi := alg6o i hi
    have qc := alg6o c hc
    cases a <;> cases i <;> cases c <;>
      simp [Setup.OpenSessionRsp.decode, Spec.OpenSessionRsp.encode, openSessionRspView, Spec.le32, Spec.algPayload,
        Setup.algOf, algView, e2, e3, qa, qi, qc]

/-- the hypothesis is satisfiable by non-trivial values of each form -/
example : (Spec.OpenSessionRsp.ok 0x7b 4 0xa0a2a3a4 0x9c (some 1) none (some 1)).wf ∧
    (Spec.OpenSessionRsp.failed 1 0x11 1).wf ∧ (Spec.OpenSessionRsp.statusOnly 0xc7).wf := by decide

/-- neither the lone status byte nor at least the 7-byte error form: rejected -/
theorem openSessionRsp_short (b : Bytes) (h1 : b.length ≠ 1) (h : b.length < 7) :
    Setup.OpenSessionRsp.decode b = .error () := by
  simp [Setup.OpenSessionRsp.decode, h1, h]

/-- a success status with any length other than 36 (including the lone byte 00): rejected -/
theorem openSessionRsp_ok_exact (b : Bytes) (hs : b.getD (if b.length = 1 then 0 else 1) 0 = 0) (hl : b.length ≠ 36) :
    Setup.OpenSessionRsp.decode b = .error () := by
  unfold Setup.OpenSessionRsp.decode
  by_cases h1 : b.length = 1
  · simp only [h1, if_true] at hs
    simp only [h1, hs, if_true, beq_self_eq_true]
  · simp only [h1, if_false] at hs
    by_cases h7 : b.length < 7
    · simp only [h1, h7, if_true, if_false]
    · simp only [h1, h7, hs, if_false, if_true, beq_self_eq_true, ne_eq, hl, not_false_eq_true]

/-- a success response whose algorithm payloads do not carry the types 00, 01, 02 in this order: rejected -/
theorem openSessionRsp_payload_type (b : Bytes) (hs : b.getD 1 0 = 0) (hl : b.length = 36)
    (ht : b.getD 12 0 ≠ 0 ∨ b.getD 20 0 ≠ 1 ∨ b.getD 28 0 ≠ 2) : Setup.OpenSessionRsp.decode b = .error () := by
  unfold Setup.OpenSessionRsp.decode
  simp only [hl, hs]
  simp only [List.getD_eq_getElem?_getD] at ht
  rcases ht with ht | ht | ht
  · have : Setup.algOf 0 (List.drop 12 b) = .error () := by simp [Setup.algOf, getD_drop, ht]
    simp [this]
  · have : Setup.algOf 1 (List.drop 20 b) = .error () := by simp [Setup.algOf, getD_drop, ht]
    simp only [this]
    cases Setup.algOf 0 (List.drop 12 b) <;> simp
  · have : Setup.algOf 2 (List.drop 28 b) = .error () := by simp [Setup.algOf, getD_drop, ht]
    simp only [this]
    cases Setup.algOf 0 (List.drop 12 b) <;> cases Setup.algOf 1 (List.drop 20 b) <;> simp

/-- a success response with a wildcard (zero-length) payload that nevertheless names an algorithm: rejected -/
theorem openSessionRsp_wildcard_alg (b : Bytes) (hs : b.getD 1 0 = 0) (hl : b.length = 36) (k : Nat) (hk : k < 3)
    (hw : b.getD (12 + 8 * k + 3) 0 = 0) (ha : b.getD (12 + 8 * k + 4) 0 &&& 0x3f ≠ 0) :
    Setup.OpenSessionRsp.decode b = .error () := by
  unfold Setup.OpenSessionRsp.decode
  simp only [hl, hs]
  have h3 : k = 0 ∨ k = 1 ∨ k = 2 := by omega
  rcases h3 with rfl | rfl | rfl
  · have : Setup.algOf 0 (List.drop 12 b) = .error () := by
      simp only [Setup.algOf, getD_drop]; simp at hw ha; simp [hw, ha]
    simp [this]
  · have : Setup.algOf 1 (List.drop 20 b) = .error () := by
      simp only [Setup.algOf, getD_drop]; simp at hw ha; simp [hw, ha]
    simp only [this]
    cases Setup.algOf 0 (List.drop 12 b) <;> simp
  · have : Setup.algOf 2 (List.drop 28 b) = .error () := by
      simp only [Setup.algOf, getD_drop]; simp at hw ha; simp [hw, ha]
    simp only [this]
    cases Setup.algOf 0 (List.drop 12 b) <;> cases Setup.algOf 1 (List.drop 20 b) <;> simp

-- RAKP Message 1 (decode side) ---------------------------------------------------------------------------

def rakp1View (v : Spec.RAKP1) : Setup.RAKP1 :=
  { tag := v.tag, bmcSID := v.bmcSID, consoleRandom := v.rm, lookup := !v.nameOnly, maxPriv := v.priv
    username := v.user, contents := v.encode }

/-- every well-formed RAKP Message 1, with a user name of any length 0…16, decodes to its fields -/
theorem rakp1_decode_spec (v : Spec.RAKP1) (h : v.wf) : Setup.RAKP1.decode v.encode = .ok (rakp1View v) := by
  obtain ⟨h1, h2, h3, h4⟩ := h
  have e1 := fun r => le32_spec v.bmcSID h1 r
  have e2 := role v.nameOnly v.priv.toNat h3
  have e3 := ulen v.user.length h4
  simp only [UInt8.ofNat_toNat] at e2
  simp only [Spec.le32, List.cons_append, List.nil_append] at e1
  have enc : v.encode = v.tag :: 0 :: 0 :: 0 :: UInt8.ofNat (v.bmcSID % 256) :: UInt8.ofNat (v.bmcSID / 256 % 256) ::
      UInt8.ofNat (v.bmcSID / 65536 % 256) :: UInt8.ofNat (v.bmcSID / 16777216 % 256) ::
      (v.rm ++ (Spec.bit v.nameOnly 4 ||| v.priv) :: 0 :: 0 :: UInt8.ofNat v.user.length :: v.user) := by
    simp [Spec.RAKP1.encode, Spec.le32]
  have len : v.encode.length = 28 + v.user.length := by rw [enc]; simp [h2]; omega
  have g27 : List.getD v.encode 27 0 = UInt8.ofNat v.user.length := by
    rw [enc]; simp only [List.getD_cons_succ]
    rw [show (19 : Nat) = 16 + 3 from rfl, getD_pre _ _ _ _ h2]; simp
  have g24 : List.getD v.encode 24 0 = Spec.bit v.nameOnly 4 ||| v.priv := by
    rw [enc]; simp only [List.getD_cons_succ]
    rw [show (16 : Nat) = 16 + 0 from rfl, getD_pre _ _ _ _ h2]; simp
  have g0 : List.getD v.encode 0 0 = v.tag := by rw [enc]; simp
  have du : List.drop 28 v.encode = v.user := by
    rw [enc]; simp only [List.drop_succ_cons]
    rw [show (20 : Nat) = 16 + 4 from rfl, drop_pre _ _ _ _ h2]; simp
  have d8 : List.take 16 (List.drop 8 v.encode) = v.rm := by
    rw [enc]; simp only [List.drop_succ_cons, List.drop_zero, take_pre _ _ _ h2]
  have d4 : le32 (List.drop 4 v.encode) = v.bmcSID := by
    rw [enc]; simp only [List.drop_succ_cons, List.drop_zero, e1]
  have n1 : ¬ (28 + v.user.length < 28) := by omega
  have n2 : ¬ (v.user.length > 16) := by omega
  have n3 : ¬ (28 + v.user.length < 28 + v.user.length) := by omega
  unfold Setup.RAKP1.decode
  simp only [len, g27, g24, g0, e3, du, d8, d4, e2, n1, n2, n3, if_false, rakp1View]
  rw [List.take_of_length_le (Nat.le_refl _)]

example : (⟨7, 0x02000000, [1, 2, 3, 4, 5, 6, 7, 8, 9, 10, 11, 12, 13, 14, 15, 16], true, 4, [0x61, 0x64, 0x6d]⟩ : Spec.RAKP1).wf := by
  decide

/-- shorter than the fixed 28-byte part: rejected -/
theorem rakp1_short (b : Bytes) (h : b.length < 28) : Setup.RAKP1.decode b = .error () := by
  simp [Setup.RAKP1.decode, h]

/-- a user-name length above 16, or a user name that is not all there: rejected -/
theorem rakp1_bad_username (b : Bytes) (h : (b.getD 27 0).toNat > 16 ∨ b.length < 28 + (b.getD 27 0).toNat) :
    Setup.RAKP1.decode b = .error () := by
  unfold Setup.RAKP1.decode
  by_cases h28 : b.length < 28
  · simp only [h28, if_true]
  · simp only [h28, if_false]
    rcases h with h | h
    · simp only [h, if_true]
    · by_cases h16 : (b.getD 27 0).toNat > 16
      · simp only [h16, if_true]
      · simp only [h16, h, if_true, if_false]

example : ∃ b : Bytes, ¬ b.length < 28 ∧ ((b.getD 27 0).toNat > 16 ∨ b.length < 28 + (b.getD 27 0).toNat) :=
  ⟨List.replicate 27 0 ++ [3, 0x61], by decide⟩

-- RAKP Message 2 (with the length guard before the two 16-byte fields) -----------------------------------

def rakp2View : Spec.RAKP2 → RAKP2
  | .failed tag st sid => { tag := tag, status := st, consoleSessionID := sid, contents := (Spec.RAKP2.failed tag st sid).encode }
  | .ok tag sid rc guid ac =>
    { tag := tag, status := 0, consoleSessionID := sid, bmcRandom := rc, bmcGUID := guid, authCode := ac
      contents := (Spec.RAKP2.ok tag sid rc guid ac).encode }

/-- every well-formed RAKP Message 2 — error form, or success with an authentication code of any length
    (including none) — decodes to its fields -/
theorem rakp2_decode_spec (v : Spec.RAKP2) (h : v.wf) : RAKP2.decode v.encode = .ok (rakp2View v) := by
  cases v with
  | failed tag st sid =>
    obtain ⟨h1, h2⟩ := h
    have : (st == 0) = false := by simpa using h1
    have e := fun r => le32_spec sid h2 r
    simp only [Spec.le32, List.cons_append, List.nil_append] at e
    simp [RAKP2.decode, Spec.RAKP2.encode, rakp2View, this, Spec.le32, e]
  | ok tag sid rc guid ac =>
    obtain ⟨h1, h2, h3⟩ := h
    have e := fun r => le32_spec sid h1 r
    simp only [Spec.le32, List.cons_append, List.nil_append] at e
    have enc : (Spec.RAKP2.ok tag sid rc guid ac).encode = tag :: 0 :: 0 :: 0 :: UInt8.ofNat (sid % 256) ::
        UInt8.ofNat (sid / 256 % 256) :: UInt8.ofNat (sid / 65536 % 256) :: UInt8.ofNat (sid / 16777216 % 256) ::
        (rc ++ (guid ++ ac)) := by
      simp [Spec.RAKP2.encode, Spec.le32]
    have n1 : ¬ (8 + (16 + (16 + ac.length)) < 8) := by omega
    have n2 : ¬ (8 + (16 + (16 + ac.length)) < 40) := by omega
    unfold RAKP2.decode rakp2View
    rw [enc]
    simp only [List.length_cons, List.length_append, h2, h3, List.getD_cons_succ, List.getD_cons_zero,
      List.drop_succ_cons, List.drop_zero, e, take_pre _ _ _ h2]
    rw [show (32 : Nat) = 16 + 16 from rfl, drop_pre _ _ _ _ h2, drop_pre _ _ _ 0 h3, List.drop_zero]
    rw [show List.drop 16 (rc ++ (guid ++ ac)) = guid ++ ac from by
      rw [show (16 : Nat) = 16 + 0 from rfl, drop_pre _ _ _ _ h2, List.drop_zero]]
    simp only [take_pre _ _ _ h3, enc]
    rw [if_neg (by omega)]
    simp only [beq_self_eq_true, if_true]
    rw [if_neg (by omega)]

example : (Spec.RAKP2.ok 1 0xa0a2a3a4 (List.replicate 16 0xAB) (List.replicate 16 0x44) [1, 2, 3, 4, 5]).wf ∧
    (Spec.RAKP2.ok 1 2 (List.replicate 16 0xAB) (List.replicate 16 0x44) []).wf ∧ (Spec.RAKP2.failed 1 0x0d 3).wf := by
  decide

/-- shorter than the 8-byte error form: rejected -/
theorem rakp2_short (b : Bytes) (h : b.length < 8) : RAKP2.decode b = .error () := by
  simp [RAKP2.decode, h]

/-- a success status without both 16-byte fields: rejected (this is the guard the pinned tree lacks) -/
theorem rakp2_ok_short (b : Bytes) (hs : b.getD 1 0 = 0) (h : b.length < 40) : RAKP2.decode b = .error () := by
  unfold RAKP2.decode
  by_cases h8 : b.length < 8
  · simp only [h8, if_true]
  · simp only [h8, h, hs, if_true, if_false, beq_self_eq_true]

-- RAKP Message 4 ------------------------------------------------------------------------------------------

def rakp4View : Spec.RAKP4 → Setup.RAKP4
  | .failed tag st sid => { tag := tag, status := st, consoleSID := sid, contents := (Spec.RAKP4.failed tag st sid).encode }
  | .ok tag sid icv => { tag := tag, status := 0, consoleSID := sid, icv := icv, contents := (Spec.RAKP4.ok tag sid icv).encode }

/-- every well-formed RAKP Message 4 — error form, or success with an integrity check value of any length
    (including none) — decodes to its fields -/
theorem rakp4_decode_spec (v : Spec.RAKP4) (h : v.wf) : Setup.RAKP4.decode v.encode = .ok (rakp4View v) := by
  cases v with
  | failed tag st sid =>
    obtain ⟨h1, h2⟩ := h
    have : (st == 0) = false := by simpa using h1
    have e := fun r => le32_spec sid h2 r
    simp only [Spec.le32, List.cons_append, List.nil_append] at e
    simp [Setup.RAKP4.decode, Spec.RAKP4.encode, rakp4View, this, Spec.le32, e]
  | ok tag sid icv =>
    have e := fun r => le32_spec sid h r
    simp only [Spec.le32, List.cons_append, List.nil_append] at e
    simp [Setup.RAKP4.decode, Spec.RAKP4.encode, rakp4View, Spec.le32, e]

example : (Spec.RAKP4.ok 1 0xa0a2a3a4 [1, 2, 3, 4, 5, 6, 7, 8, 9, 10, 11, 12]).wf ∧ (Spec.RAKP4.ok 1 5 []).wf ∧
    (Spec.RAKP4.failed 1 0x0f 3).wf := by decide

/-- shorter than the 8-byte error form: rejected -/
theorem rakp4_short (b : Bytes) (h : b.length < 8) : Setup.RAKP4.decode b = .error () := by
  simp [Setup.RAKP4.decode, h]

-- session selector ----------------------------------------------------------------------------------------

/-- the selector consumes nothing and reports the RMCP+ format exactly for authentication type 06 -/
theorem selector_decode_spec (v : Spec.SessionWrapper) :
    Setup.Selector.decode v.encode = .ok { isRMCPPlus := v.isV2, payload := v.encode } := by
  simp [Setup.Selector.decode, Spec.SessionWrapper.encode, Spec.SessionWrapper.isV2]

/-- an empty session wrapper: rejected -/
theorem selector_short (b : Bytes) (h : b.length < 1) : Setup.Selector.decode b = .error () := by
  simp [Setup.Selector.decode, h]

-- IPMI v1.5 session header (with AuthCode reset on unauthenticated packets) --------------------------------

def v1View (v : Spec.V1Packet) : V1Session :=
  { authType := v.authType, sequence := v.sequence, id := v.id
    authCode := (match v.authCode with | some c => c | none => List.replicate 16 0)
    length := UInt8.ofNat v.payload.length
    contents := v.header, payload := v.payload }

/-- every well-formed v1.5 session packet, with or without the authentication code and with a payload of any
    length below 256, decodes to its header fields and its payload -/
theorem v1_decode_spec (v : Spec.V1Packet) (h : v.wf) : V1Session.decode v.encode = .ok (v1View v) := by
  obtain ⟨h1, h2, _, h4⟩ := h
  have e1 := fun r => le32_spec v.sequence h1 r
  have e2 := fun r => le32_spec v.id h2 r
  simp only [Spec.le32, List.cons_append, List.nil_append] at e1 e2
  cases hc : v.authCode with
  | none =>
    simp only [hc] at h4
    simp [V1Session.decode, Spec.V1Packet.encode, Spec.V1Packet.header, v1View, hc, h4, Spec.le32, e1, e2]
  | some c =>
    simp only [hc] at h4
    obtain ⟨h5, h6⟩ := h4
    have h5' : (v.authType == 0) = false := by simpa using h5
    have enc : v.encode = v.authType :: UInt8.ofNat (v.sequence % 256) :: UInt8.ofNat (v.sequence / 256 % 256) ::
        UInt8.ofNat (v.sequence / 65536 % 256) :: UInt8.ofNat (v.sequence / 16777216 % 256) ::
        UInt8.ofNat (v.id % 256) :: UInt8.ofNat (v.id / 256 % 256) :: UInt8.ofNat (v.id / 65536 % 256) ::
        UInt8.ofNat (v.id / 16777216 % 256) :: (c ++ UInt8.ofNat v.payload.length :: v.payload) := by
      simp [Spec.V1Packet.encode, Spec.V1Packet.header, Spec.le32, hc]
    have n1 : ¬ (9 + (16 + (1 + v.payload.length)) < 10) := by omega
    have n2 : ¬ (9 + (16 + (1 + v.payload.length)) < 26) := by omega
    unfold V1Session.decode v1View
    rw [enc]
    simp only [List.length_cons, List.length_append, h6, hc, List.getD_cons_succ, List.getD_cons_zero,
      List.drop_succ_cons, List.drop_zero, e1, e2, take_pre _ _ _ h6, h5']
    rw [show (17 : Nat) = 16 + 1 from rfl, drop_pre _ _ _ _ h6, show (16 : Nat) = 16 + 0 from rfl, getD_pre _ _ _ _ h6]
    have hdr : v.header = v.authType :: UInt8.ofNat (v.sequence % 256) :: UInt8.ofNat (v.sequence / 256 % 256) ::
        UInt8.ofNat (v.sequence / 65536 % 256) :: UInt8.ofNat (v.sequence / 16777216 % 256) ::
        UInt8.ofNat (v.id % 256) :: UInt8.ofNat (v.id / 256 % 256) :: UInt8.ofNat (v.id / 65536 % 256) ::
        UInt8.ofNat (v.id / 16777216 % 256) :: (c ++ [UInt8.ofNat v.payload.length]) := by
      simp [Spec.V1Packet.header, Spec.le32, hc]
    rw [if_neg (by omega)]
    simp only [Bool.false_eq_true, if_false]
    rw [if_neg (by omega), hdr]
    simp only [List.take_succ_cons, show (17 : Nat) = 16 + 1 from rfl, take_pre_add _ _ _ _ h6]
    simp

example : (⟨2, 0x12345678, 0x9abcdef0, some (List.replicate 16 0x5a), [1, 2, 3]⟩ : Spec.V1Packet).wf ∧
    (⟨0, 0, 0, none, [0x20, 0x18, 0xc8]⟩ : Spec.V1Packet).wf := by decide

/-- shorter than the 10-byte unauthenticated header: rejected -/
theorem v1_short (b : Bytes) (h : b.length < 10) : V1Session.decode b = .error () := by
  simp [V1Session.decode, h]

/-- an authentication type other than none without room for the 16-byte code: rejected -/
theorem v1_auth_short (b : Bytes) (ha : b.getD 0 0 ≠ 0) (h : b.length < 26) : V1Session.decode b = .error () := by
  unfold V1Session.decode
  have : (b.getD 0 0 == 0) = false := by simpa using ha
  by_cases h10 : b.length < 10
  · simp only [h10, if_true]
  · simp only [h10, this, h, if_true, if_false, Bool.false_eq_true]

-- the decoders the handshake runs are these decoders --------------------------------------------------------------------

open Bmc.Lemmas.SetupBridge in
/-- the Open Session Response decoder inside the HANDSHAKE model (`Proto/Handshake.lean`: `stepOpen`) is the decoder
    specified above, with `Contents` forgotten: for every Go slice its outcome is the pure decoder's on the visible
    bytes — so every `openSessionRsp_*` theorem of this file governs what session establishment accepts -/
theorem handshake_openSessionRsp (d : GoSlice) :
    Wire.OpenSessionRsp.decodeGo {} d = (R.ofExcept (Setup.OpenSessionRsp.decode d.vis)).map forgetOpen := by
  have h := openSessionRsp_bridge {} d
  rw [Setup.OpenSessionRsp.decodeGo_refines] at h
  exact h

open Bmc.Lemmas.SetupBridge in
/-- likewise RAKP Message 4 (`stepRakp4`) -/
theorem handshake_rakp4 (d : GoSlice) :
    Wire.RAKP4.decodeGo {} d = (R.ofExcept (Setup.RAKP4.decode d.vis)).map
      (fun r => { tag := r.tag, status := r.status, consoleSessionID := r.consoleSID, icv := r.icv }) := by
  have h := rakp4_bridge {} {} d
  rw [Setup.RAKP4.decodeGo_refines] at h
  exact h

/-- and a specification-conforming successful Open Session Response reaches the handshake as its field values -/
theorem handshake_openSessionRsp_spec (tag mp : UInt8) (csid bsid : Nat) (a i c : Option UInt8)
    (h : (Spec.OpenSessionRsp.ok tag mp csid bsid a i c).wf) :
    Wire.OpenSessionRsp.decodeGo {} (GoSlice.ofBytes (Spec.OpenSessionRsp.ok tag mp csid bsid a i c).encode) =
      .ok { tag := tag, status := 0, maxPriv := mp, consoleSessionID := csid, bmcSessionID := bsid
            authWild := (algView a).wildcard, auth := (algView a).algorithm
            integWild := (algView i).wildcard, integ := (algView i).algorithm
            confWild := (algView c).wildcard, conf := (algView c).algorithm } := by
  rw [handshake_openSessionRsp, GoSlice.vis_ofBytes, openSessionRsp_decode_spec _ h]
  rfl

end Bmc.Proofs.C07
