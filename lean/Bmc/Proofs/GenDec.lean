import Bmc.Lemmas.GenDec
/-! # The decoders RE-TRANSLATED from the Go source on every run are the hand-written models (property-support theorems)

`Bmc.Gen.Dec.T.decodeGo` is emitted by `tools/decgen` from `(*T).DecodeFromBytes` as the source stands now, statement by
statement, over the Go-slice semantics of `Basic/Go.lean`. Each `T_gen_eq` says it IS the model `Bmc.Wire.X.decodeGo` that
C05 / C07 / C17 reason about — for every receiver value and every Go slice (every length, every capacity,
including the error, panic and over-read outcomes) — through `toModel` (`Lemmas/GenDec.lean`). A source change to one of
these decoders changes `Gen/Dec.lean` and breaks the corresponding obligation at build time. -/
namespace Bmc.Proofs.GenDec
open Bmc Bmc.Gen.Dec Bmc.Lemmas.GenDec

/-- the layers translated when this file was delivered; a layer the translator no longer manages is a broken obligation -/
theorem translated_ok : ∀ n ∈ [
    "ipmi.ReserveSDRRepositoryRsp", "ipmi.GetSystemGUIDRsp", "ipmi.SetSessionPrivilegeLevelRsp", "ipmi.GetSDRRsp",
    "ipmi.SDR", "ipmi.GetSensorReadingRsp", "ipmi.GetChannelCipherSuitesRsp",
    "ipmi.GetChannelAuthenticationCapabilitiesRsp", "ipmi.GetSDRRepositoryInfoRsp", "dcmi.GetPowerReadingRsp",
    "ipmi.GetChassisStatusRsp", "ipmi.GetDeviceIDRsp", "ipmi.RAKPMessage4", "ipmi.RAKPMessage2", "ipmi.RAKPMessage1",
    "ipmi.V1Session", "ipmi.GetSessionInfoRsp", "ipmi.SessionSelector", "ipmi.OpenSessionRsp",
    "dcmi.GetDCMICapabilitiesInfoManageabilityAccessAttrsRsp", "dcmi.GetDCMICapabilitiesInfoOptionalPlatformAttrsRsp",
    "dcmi.GetDCMICapabilitiesInfoSupportedCapabilitiesRsp", "dcmi.GetDCMICapabilitiesInfoMandatoryPlatformAttrsRsp",
    "ipmi.Message", "dcmi.GetDCMICapabilitiesInfoEnhancedSystemPowerStatisticsAttrsRsp", "dcmi.GetDCMISensorInfoRsp"],
    n ∈ Bmc.Gen.Dec.translated := by decide

theorem ReserveSDRRepositoryRsp_gen_eq (prev : ReserveSDRRepositoryRsp) (d : GoSlice) :
    (ReserveSDRRepositoryRsp.decodeGo prev d).map ReserveSDRRepositoryRsp.toModel
      = Wire.ReserveRsp.decodeGo (ReserveSDRRepositoryRsp.toModel prev) d := by
  unfold ReserveSDRRepositoryRsp.decodeGo Wire.ReserveRsp.decodeGo
  by_cases h : d.len < 2
  · simp [h, R.map]
  · simp only [h, if_false]
    gen_simp
    simp [ReserveSDRRepositoryRsp.toModel, Bmc.Lemmas.GenDec.le16_toNat]

theorem GetSystemGUIDRsp_gen_eq (prev : GetSystemGUIDRsp) (d : GoSlice) :
    (GetSystemGUIDRsp.decodeGo prev d).map GetSystemGUIDRsp.toModel = Wire.GUIDRsp.decodeGo (GetSystemGUIDRsp.toModel prev) d := by
  unfold GetSystemGUIDRsp.decodeGo Wire.GUIDRsp.decodeGo
  by_cases h : d.len < 16
  · simp [h, R.map]
  · simp only [h, if_false]
    gen_simp
    simp (disch := len_disch) [GetSystemGUIDRsp.toModel, GoDec.copyArr_full, List.take_take]

theorem SetSessionPrivilegeLevelRsp_gen_eq (prev : SetSessionPrivilegeLevelRsp) (d : GoSlice) :
    (SetSessionPrivilegeLevelRsp.decodeGo prev d).map SetSessionPrivilegeLevelRsp.toModel
      = Wire.SetPrivRsp.decodeGo (SetSessionPrivilegeLevelRsp.toModel prev) d := by
  unfold SetSessionPrivilegeLevelRsp.decodeGo Wire.SetPrivRsp.decodeGo
  by_cases h : (d.len != 1) = true
  · simp [h, R.map]
  · simp only [h]
    have : d.len = 1 := by simpa using h
    gen_simp
    rfl

theorem GetSDRRsp_gen_eq (prev : GetSDRRsp) (d : GoSlice) :
    (GetSDRRsp.decodeGo prev d).map GetSDRRsp.toModel = Wire.GetSDRRsp.decodeGo (GetSDRRsp.toModel prev) d := by
  unfold GetSDRRsp.decodeGo Wire.GetSDRRsp.decodeGo
  by_cases h : d.len < 2
  · simp [h, R.map]
  · simp only [h, if_false]
    gen_simp
    simp [GetSDRRsp.toModel, Bmc.Lemmas.GenDec.le16_toNat]

theorem SDR_gen_eq (prev : SDR) (d : GoSlice) :
    (SDR.decodeGo prev d).map SDR.toModel = Wire.SDRHeader.decodeGo (SDR.toModel prev) d := by
  unfold SDR.decodeGo Wire.SDRHeader.decodeGo
  by_cases h : d.len < 5
  · simp [h, R.map]
  · simp only [h, if_false]
    gen_simp
    simp [SDR.toModel, le16_toNat, bcd_eq]

theorem GetSensorReadingRsp_gen_eq (prev : GetSensorReadingRsp) (d : GoSlice) :
    (GetSensorReadingRsp.decodeGo prev d).map GetSensorReadingRsp.toModel
      = Wire.SensorReadingRsp.decodeGo (GetSensorReadingRsp.toModel prev) d := by
  unfold GetSensorReadingRsp.decodeGo Wire.SensorReadingRsp.decodeGo
  by_cases h : d.len < 3
  · simp [h, R.map]
  · simp only [h, if_false]
    by_cases h3 : d.len > 3
    · simp only [h3, if_true]
      gen_simp
      simp [GetSensorReadingRsp.toModel]
    · simp only [h3, if_false]
      gen_simp
      simp [GetSensorReadingRsp.toModel]

theorem GetChannelCipherSuitesRsp_gen_eq (prev : GetChannelCipherSuitesRsp) (d : GoSlice) :
    (GetChannelCipherSuitesRsp.decodeGo prev d).map GetChannelCipherSuitesRsp.toModel
      = Wire.CipherSuitesRsp.decodeGo (GetChannelCipherSuitesRsp.toModel prev) d := by
  unfold GetChannelCipherSuitesRsp.decodeGo Wire.CipherSuitesRsp.decodeGo
  by_cases h : d.len < 1
  · simp [h, R.map]
  · simp only [h, if_false]
    by_cases h3 : d.len > 17
    · simp only [h3, if_true]
      gen_simp
      simp [GetChannelCipherSuitesRsp.toModel]
    · simp only [h3, if_false]
      gen_simp
      simp [GetChannelCipherSuitesRsp.toModel]

theorem GetChannelAuthenticationCapabilitiesRsp_gen_eq (prev : GetChannelAuthenticationCapabilitiesRsp) (d : GoSlice) :
    (GetChannelAuthenticationCapabilitiesRsp.decodeGo prev d).map GetChannelAuthenticationCapabilitiesRsp.toModel
      = Wire.AuthCapsRsp.decodeGo (GetChannelAuthenticationCapabilitiesRsp.toModel prev) d := by
  unfold GetChannelAuthenticationCapabilitiesRsp.decodeGo Wire.AuthCapsRsp.decodeGo
  by_cases h : d.len < 8
  · simp [h, R.map]
  · simp only [h, if_false]
    gen_simp
    simp only [GetChannelAuthenticationCapabilitiesRsp.toModel, pack_b7, pack_3f, pack_03, or_shl24]

theorem GetSDRRepositoryInfoRsp_gen_eq (prev : GetSDRRepositoryInfoRsp) (d : GoSlice) :
    (GetSDRRepositoryInfoRsp.decodeGo prev d).map GetSDRRepositoryInfoRsp.toModel
      = Wire.SDRRepoInfoRsp.decodeGo (GetSDRRepositoryInfoRsp.toModel prev) d := by
  unfold GetSDRRepositoryInfoRsp.decodeGo Wire.SDRRepoInfoRsp.decodeGo
  by_cases h : d.len < 14
  · simp [h, R.map]
  · simp only [h, if_false]
    gen_simp
    simp only [GetSDRRepositoryInfoRsp.toModel, pack_ef, le16_toNat, le32_toNat, bcd_eq, Int.toNat_natCast]

theorem GetPowerReadingRsp_gen_eq (prev : GetPowerReadingRsp) (d : GoSlice) :
    (GetPowerReadingRsp.decodeGo prev d).map GetPowerReadingRsp.toModel
      = Wire.PowerReading.decodeGo (GetPowerReadingRsp.toModel prev) d := by
  unfold GetPowerReadingRsp.decodeGo Wire.PowerReading.decodeGo
  by_cases h : d.len < 17
  · by_cases h0 : (d.len == 0) = true <;> simp [h, h0, R.map]
  · simp only [h, if_false]
    gen_simp
    simp only [GetPowerReadingRsp.toModel, le16_toNat, le32_toNat, Int.toNat_natCast]

theorem GetChassisStatusRsp_gen_eq (prev : GetChassisStatusRsp) (d : GoSlice) :
    (GetChassisStatusRsp.decodeGo prev d).map GetChassisStatusRsp.toModel
      = Wire.GetChassisStatusRsp.decodeGo true (GetChassisStatusRsp.toModel prev) d := by
  unfold GetChassisStatusRsp.decodeGo Wire.GetChassisStatusRsp.decodeGo
  by_cases h : d.len < 3
  · simp [h, R.map]
  · simp only [h, if_false]
    by_cases h3 : d.len > 3
    · simp only [h3, if_true]
      gen_simp
      by_cases hc : (List.getD d.vis 2 0 &&& 64 != 0) = true <;> simp only [hc, if_true, if_false, Bool.false_eq_true] <;> gen_simp <;>
        simp only [GetChassisStatusRsp.toModel, pack_1f, pack_0f, pack_ff, pack_00]
    · simp only [h3, if_false]
      gen_simp
      by_cases hc : (List.getD d.vis 2 0 &&& 64 != 0) = true <;> simp only [hc, if_true, if_false, Bool.false_eq_true] <;> gen_simp <;>
        simp only [GetChassisStatusRsp.toModel, pack_1f, pack_0f, pack_ff, pack_00]

theorem GetDeviceIDRsp_gen_eq (prev : GetDeviceIDRsp) (d : GoSlice) :
    (GetDeviceIDRsp.decodeGo prev d).map GetDeviceIDRsp.toModel
      = Wire.GetDeviceIDRsp.decodeGo true (GetDeviceIDRsp.toModel prev) d := by
  unfold GetDeviceIDRsp.decodeGo Wire.GetDeviceIDRsp.decodeGo
  by_cases h : d.len < 11
  · simp [h, R.map]
  · simp only [h, if_false]
    by_cases h3 : d.len > 11
    · simp only [h3, if_true]
      gen_simp
      simp only [GetDeviceIDRsp.toModel, pack_ff, le16_toNat, or_shl24, bcd_eq', copy4_eq, Wire.le16, List.replicate]
    · simp only [h3, if_false]
      gen_simp
      simp only [GetDeviceIDRsp.toModel, pack_ff, le16_toNat, or_shl24, bcd_eq', copy4_eq, Wire.le16, List.replicate]

theorem RAKPMessage4_gen_eq (prev : RAKPMessage4) (d : GoSlice) :
    (RAKPMessage4.decodeGo prev d).map RAKPMessage4.toModel = Wire.Setup.RAKP4.decodeGo (RAKPMessage4.toModel prev) d := by
  unfold RAKPMessage4.decodeGo Wire.Setup.RAKP4.decodeGo
  by_cases h : d.len < 8
  · simp [h, R.map]
  · simp only [h, if_false]
    gen_simp
    by_cases hc : (List.getD d.vis 1 0 == 0 && decide (d.len > 8)) = true
    · have h8 : d.len > 8 := by simp at hc; exact hc.2
      simp only [hc, if_true]; simp only [RAKPMessage4.toModel, le32_toNat]
    · simp only [hc, if_false, Bool.false_eq_true]; simp only [RAKPMessage4.toModel, le32_toNat]

theorem RAKPMessage2_gen_eq (prev : RAKPMessage2) (d : GoSlice) :
    (RAKPMessage2.decodeGo prev d).map RAKPMessage2.toModel = Wire.RAKP2.decodeGo true (RAKPMessage2.toModel prev) d := by
  unfold RAKPMessage2.decodeGo Wire.RAKP2.decodeGo
  by_cases h : d.len < 8
  · simp [h, R.map]
  · simp only [h, if_false]
    gen_simp
    by_cases hc : (List.getD d.vis 1 0 == 0) = true
    · simp only [hc, if_true, Bool.true_and, decide_eq_true_eq]
      by_cases h40 : d.len < 40
      · simp [h40, R.map]
      · simp only [h40, if_false]
        by_cases h41 : d.len > 40
        · simp only [h41, if_true]; (try gen_simp)
          simp (disch := len_disch) only [RAKPMessage2.toModel, le32_toNat, GoDec.copyArr_full, List.take_take, Nat.min_self]
        · simp only [h41, if_false]; (try gen_simp)
          simp (disch := len_disch) only [RAKPMessage2.toModel, le32_toNat, GoDec.copyArr_full, List.take_take, Nat.min_self]
    · simp only [hc, if_false, Bool.false_eq_true]; (try gen_simp); simp only [RAKPMessage2.toModel, le32_toNat]

theorem RAKPMessage1_gen_eq (prev : RAKPMessage1) (d : GoSlice) :
    (RAKPMessage1.decodeGo prev d).map RAKPMessage1.toModel = Wire.Setup.RAKP1.decodeGo (RAKPMessage1.toModel prev) d := by
  unfold RAKPMessage1.decodeGo Wire.Setup.RAKP1.decodeGo
  by_cases h : d.len < 28
  · simp [h, R.map]
  · simp only [h, if_false]
    gen_simp
    by_cases hn : List.getD d.vis 27 0 > 16
    · simp only [hn, if_true, R.map]
    · simp only [hn, if_false]
      by_cases hl : d.len < (28 + List.getD d.vis 27 0).toNat
      · simp only [hl, if_true, R.map]
      · simp only [hl, if_false]
        have : 28 ≤ (28 + List.getD d.vis 27 0).toNat := by
          have : (List.getD d.vis 27 0).toNat ≤ 16 := by
            have := UInt8.not_lt.mp hn; exact UInt8.le_iff_toNat_le.mp this
          rw [UInt8.toNat_add]; have : (28 : UInt8).toNat = 28 := rfl; omega
        gen_simp
        simp (disch := len_disch) only [RAKPMessage1.toModel, le32_toNat, GoDec.copyArr_full, List.take_take, Nat.min_self]

theorem V1Session_gen_eq (prev : V1Session) (d : GoSlice) :
    (V1Session.decodeGo prev d).map V1Session.toModel = Wire.V1Session.decodeGo true (V1Session.toModel prev) d := by
  unfold V1Session.decodeGo Wire.V1Session.decodeGo
  by_cases h : d.len < 10
  · simp [h, R.map]
  · simp only [h, if_false]
    gen_simp
    by_cases hc : (List.getD d.vis 0 0 == 0) = true
    · simp only [hc, if_true]; (try gen_simp); simp only [V1Session.toModel, le32_toNat]
    · simp only [hc, if_false, Bool.false_eq_true]
      by_cases h26 : d.len < 26
      · simp [h26, R.map]
      · simp only [h26, if_false]; (try gen_simp)
        simp (disch := len_disch) only [V1Session.toModel, le32_toNat, GoDec.copyArr_full, List.take_take, Nat.min_self]

theorem GetSessionInfoRsp_gen_eq (prev : GetSessionInfoRsp) (d : GoSlice) :
    (GetSessionInfoRsp.decodeGo prev d).map GetSessionInfoRsp.toModel
      = Wire.SessionInfoRsp.decodeGo (GetSessionInfoRsp.toModel prev) d := by
  unfold GetSessionInfoRsp.decodeGo Wire.SessionInfoRsp.decodeGo
  by_cases h : d.len < 3
  · simp [h, R.map]
  · simp only [h, if_false]
    gen_simp
    by_cases hc : (List.getD d.vis 0 0 == 0 && d.len == 3) = true
    · simp only [hc, if_true]; (try gen_simp); simp only [GetSessionInfoRsp.toModel]; rfl
    · simp only [hc, if_false, Bool.false_eq_true]
      by_cases h6 : d.len < 6
      · simp only [h6, if_true, R.map]
      · simp only [h6, if_false]; (try gen_simp)
        by_cases h18 : d.len < 18
        · simp only [h18, if_true]; (try gen_simp); simp only [GetSessionInfoRsp.toModel]; rfl
        · simp only [h18, if_false]; (try gen_simp)
          simp (disch := len_disch) only [GetSessionInfoRsp.toModel, le16_toNat, GoDec.copyArr_full, copyAt_v4, List.take_take, Nat.min_self]

theorem OpenSessionRsp_gen_eq (prev : OpenSessionRsp) (d : GoSlice) :
    (OpenSessionRsp.decodeGo prev d).map OpenSessionRsp.toModel
      = Wire.Setup.OpenSessionRsp.decodeGo (OpenSessionRsp.toModel prev) d := by
  unfold OpenSessionRsp.decodeGo Wire.Setup.OpenSessionRsp.decodeGo Wire.Setup.OpenSessionRsp.tailGo
  by_cases h1 : (d.len == 1) = true
  · have h1' : d.len = 1 := by simpa using h1
    have hne : (d.len != 36) = true := by simp [h1']
    simp only [h1, if_true]
    gen_simp
    by_cases hs : (List.getD d.vis 0 0 == 0) = true
    · simp only [hs, hne, if_true, R.bind_err, R.map]
    · simp only [hs, if_false, Bool.false_eq_true]; (try gen_simp); simp only [OpenSessionRsp.toModel]; rfl
  · simp only [h1, if_false, Bool.false_eq_true]
    by_cases h7 : d.len < 7
    · simp only [h7, if_true, R.bind_err, R.map]
    · simp only [h7, if_false]
      gen_simp
      by_cases hs : (List.getD d.vis 1 0 == 0) = true
      · simp only [hs, if_true]
        by_cases h36 : (d.len != 36) = true
        · simp only [h36, if_true, R.bind_err, R.map]
        · simp only [h36, if_false, Bool.false_eq_true]
          have : d.len = 36 := by simpa using h36
          gen_simp
          simp only [← auth_deserialise prev.authenticationPayload, ← integ_deserialise prev.integrityPayload,
            ← conf_deserialise prev.confidentialityPayload]
          generalize AuthenticationPayload.Deserialise prev.authenticationPayload _ = ra
          generalize IntegrityPayload.Deserialise prev.integrityPayload _ = ri
          generalize ConfidentialityPayload.Deserialise prev.confidentialityPayload _ = rc
          cases ra <;> first | rfl | skip
          cases ri <;> first | rfl | skip
          cases rc <;> first | rfl | skip
          simp only [R.map, R.bind_ok, R.pure_eq, OpenSessionRsp.toModel, le32_toNat]
      · simp only [hs, if_false, Bool.false_eq_true]; (try gen_simp); simp only [OpenSessionRsp.toModel, le32_toNat]; rfl

theorem GetDCMICapabilitiesInfoManageabilityAccessAttrsRsp_gen_eq (prev : GetDCMICapabilitiesInfoManageabilityAccessAttrsRsp) (d : GoSlice) :
    (GetDCMICapabilitiesInfoManageabilityAccessAttrsRsp.decodeGo prev d).map GetDCMICapabilitiesInfoManageabilityAccessAttrsRsp.toModel
      = Wire.DcmiCap4.decodeGo (GetDCMICapabilitiesInfoManageabilityAccessAttrsRsp.toModel prev) d := by
  unfold GetDCMICapabilitiesInfoManageabilityAccessAttrsRsp.decodeGo Wire.DcmiCap4.decodeGo getDCMICapabilitiesInfoRspHeader.Decode
    Wire.DcmiHeader.decodeGo
  by_cases h : d.len < 3
  · simp only [h, if_true, R.bind_err, R.map]
  · simp only [h, if_false]
    dcmi_simp
    by_cases hb : d.len - 3 < 3
    · simp only [hb, if_true, R.map]
    · simp only [hb, if_false]
      simp only [GetDCMICapabilitiesInfoManageabilityAccessAttrsRsp.toModel, getDCMICapabilitiesInfoRspHeader.toModel]

theorem GetDCMICapabilitiesInfoOptionalPlatformAttrsRsp_gen_eq (prev : GetDCMICapabilitiesInfoOptionalPlatformAttrsRsp) (d : GoSlice) :
    (GetDCMICapabilitiesInfoOptionalPlatformAttrsRsp.decodeGo prev d).map GetDCMICapabilitiesInfoOptionalPlatformAttrsRsp.toModel
      = Wire.DcmiCap3.decodeGo (GetDCMICapabilitiesInfoOptionalPlatformAttrsRsp.toModel prev) d := by
  unfold GetDCMICapabilitiesInfoOptionalPlatformAttrsRsp.decodeGo Wire.DcmiCap3.decodeGo getDCMICapabilitiesInfoRspHeader.Decode
    Wire.DcmiHeader.decodeGo
  by_cases h : d.len < 3
  · simp only [h, if_true, R.bind_err, R.map]
  · simp only [h, if_false]
    dcmi_simp
    by_cases hb : d.len - 3 < 2
    · simp only [hb, if_true, R.map]
    · simp only [hb, if_false]
      simp only [GetDCMICapabilitiesInfoOptionalPlatformAttrsRsp.toModel, getDCMICapabilitiesInfoRspHeader.toModel]

theorem GetDCMICapabilitiesInfoSupportedCapabilitiesRsp_gen_eq (prev : GetDCMICapabilitiesInfoSupportedCapabilitiesRsp) (d : GoSlice) :
    (GetDCMICapabilitiesInfoSupportedCapabilitiesRsp.decodeGo prev d).map GetDCMICapabilitiesInfoSupportedCapabilitiesRsp.toModel
      = Wire.DcmiCap1.decodeGo (GetDCMICapabilitiesInfoSupportedCapabilitiesRsp.toModel prev) d := by
  unfold GetDCMICapabilitiesInfoSupportedCapabilitiesRsp.decodeGo Wire.DcmiCap1.decodeGo getDCMICapabilitiesInfoRspHeader.Decode
    Wire.DcmiHeader.decodeGo Wire.DcmiCap1.build Wire.DcmiHeader.isV10
  by_cases h : d.len < 3
  · simp only [h, if_true, R.bind_err, R.map]
  · simp only [h, if_false]
    dcmi_simp
    by_cases hb : d.len - 3 < 3
    · simp only [hb, if_true, R.map]
    · simp only [hb, if_false]
      by_cases hv : (List.getD d.vis 0 0 == 1 && List.getD d.vis 1 0 == 0) = true
      · simp only [hv, if_true, R.bind_ok, R.pure_eq, R.map]
        simp only [GetDCMICapabilitiesInfoSupportedCapabilitiesRsp.toModel, getDCMICapabilitiesInfoRspHeader.toModel]
      · simp only [hv, if_false, Bool.false_eq_true, R.bind_ok, R.pure_eq, R.map]
        simp only [GetDCMICapabilitiesInfoSupportedCapabilitiesRsp.toModel, getDCMICapabilitiesInfoRspHeader.toModel]

theorem GetDCMICapabilitiesInfoMandatoryPlatformAttrsRsp_gen_eq (prev : GetDCMICapabilitiesInfoMandatoryPlatformAttrsRsp) (d : GoSlice) :
    (GetDCMICapabilitiesInfoMandatoryPlatformAttrsRsp.decodeGo prev d).map GetDCMICapabilitiesInfoMandatoryPlatformAttrsRsp.toModel
      = Wire.DcmiCap2.decodeGo (GetDCMICapabilitiesInfoMandatoryPlatformAttrsRsp.toModel prev) d := by
  unfold GetDCMICapabilitiesInfoMandatoryPlatformAttrsRsp.decodeGo Wire.DcmiCap2.decodeGo
  by_cases h : d.len < 3
  · unfold getDCMICapabilitiesInfoRspHeader.Decode Wire.DcmiHeader.decodeGo
    simp only [h, if_true, R.bind_err, R.map]
  · simp only [hdr_decode_ok _ _ h, dcmiHeader_ok _ h, R.bind_ok, GoSlice.sub_len, Wire.DcmiCap2.build, Wire.DcmiHeader.isV10]
    by_cases hb : d.len - 3 < 4
    · simp only [hb, if_true, R.map]
    · simp only [hb, if_false]
      by_cases hv : (d.len - 3 == 4 || (List.getD d.vis 0 0 == 1 && List.getD d.vis 1 0 == 0)) = true
      · simp only [hv, if_true]
        dcmi_simp
        simp only [GetDCMICapabilitiesInfoMandatoryPlatformAttrsRsp.toModel, getDCMICapabilitiesInfoRspHeader.toModel, le16_toNat,
          le16_pair, Int.toNat_natCast]
      · have h5 : d.len - 3 ≠ 4 := by
          intro e; apply hv; simp [e]
        simp only [hv, if_false, Bool.false_eq_true]
        dcmi_simp
        simp only [GetDCMICapabilitiesInfoMandatoryPlatformAttrsRsp.toModel, getDCMICapabilitiesInfoRspHeader.toModel, le16_toNat,
          le16_pair, Int.toNat_natCast]

theorem SessionSelector_gen_eq (prev : SessionSelector) (d : GoSlice) :
    (SessionSelector.decodeGo prev d).map SessionSelector.toModel = Wire.Setup.Selector.decodeGo (SessionSelector.toModel prev) d := by
  unfold SessionSelector.decodeGo Wire.Setup.Selector.decodeGo
  by_cases h : d.len < 1
  · simp [h, R.map]
  · simp only [h, if_false]
    gen_simp
    simp [SessionSelector.toModel]

theorem Message_gen_eq (prev : Message) (d : GoSlice) :
    (Message.decodeGo prev d).map Message.toModel = Wire.Message.decodeGo 8 (Message.toModel prev) d := by
  unfold Message.decodeGo Wire.Message.decodeGo
  by_cases h7 : d.len < 7
  · simp only [h7, if_true, R.map]
  · simp only [h7, if_false]
    msg_simp
    by_cases hc1 : (List.getD d.vis 2 0 != Prim.checksum (List.take (2 - 0) (List.drop 0 d.vis))) = true
    · simp only [hc1, if_true, R.map]
    · simp only [hc1, if_false, Bool.false_eq_true]
      by_cases hc2 : (List.getD d.vis (d.len - 1) 0 != Prim.checksum (List.take (d.len - 1 - 3) (List.drop 3 d.vis))) = true
      · simp only [hc2, if_true, R.map]
      · simp only [hc2, if_false, Bool.false_eq_true]
        simp only [Message.decodeRequest, Message.decodeResponse, Message.decodeDataHeader, Message.decodeSpecialNetFns,
          Wire.Message.specialGo, Wire.isGroup, Wire.isOEM]
        by_cases hreq : Wire.isRequest (List.getD d.vis 1 0 >>> 2) = true
        · simp only [hreq, Bool.not_true, Bool.false_and, if_true, if_false, Bool.false_eq_true]
          msg_simp
          by_cases hg : (List.getD d.vis 1 0 >>> 2 == 44 || List.getD d.vis 1 0 >>> 2 == 45) = true
          · simp only [hg, if_true]
            by_cases hl : d.len - 1 - 6 < 1
            · simp only [hl, if_true, R.bind_err, R.map]
            · simp only [hl, if_false]; msg_simp; simp only [Message.toModel]; try rfl
          · simp only [hg, if_false, Bool.false_eq_true]
            by_cases ho : (List.getD d.vis 1 0 >>> 2 == 46 || List.getD d.vis 1 0 >>> 2 == 47) = true
            · simp only [ho, if_true]
              by_cases hl : d.len - 1 - 6 < 3
              · simp only [hl, if_true, R.bind_err, R.map]
              · simp only [hl, if_false]; msg_simp; simp only [Message.toModel, or_shl24]; try rfl
            · simp only [ho, if_false, Bool.false_eq_true]; msg_simp; simp only [Message.toModel]; try rfl
        · simp only [hreq, Bool.not_false, Bool.true_and, if_false, Bool.false_eq_true, decide_eq_true_eq]
          by_cases h8 : d.len < 8
          · simp only [h8, if_true, R.map]
          · simp only [h8, if_false]
            msg_simp
            by_cases hg : (List.getD d.vis 1 0 >>> 2 == 44 || List.getD d.vis 1 0 >>> 2 == 45) = true
            · simp only [hg, if_true]
              by_cases hl : d.len - 1 - 7 < 1
              · simp only [hl, if_true, R.bind_err, R.map]
              · simp only [hl, if_false]; msg_simp; simp only [Message.toModel]; try rfl
            · simp only [hg, if_false, Bool.false_eq_true]
              by_cases ho : (List.getD d.vis 1 0 >>> 2 == 46 || List.getD d.vis 1 0 >>> 2 == 47) = true
              · simp only [ho, if_true]
                by_cases hl : d.len - 1 - 7 < 3
                · simp only [hl, if_true, R.bind_err, R.map]
                · simp only [hl, if_false]; msg_simp; simp only [Message.toModel, or_shl24]; try rfl
              · simp only [ho, if_false, Bool.false_eq_true]; msg_simp; simp only [Message.toModel]; try rfl

theorem GetDCMICapabilitiesInfoEnhancedSystemPowerStatisticsAttrsRsp_gen_eq (prev : Cap5) (d : GoSlice) :
    (GetDCMICapabilitiesInfoEnhancedSystemPowerStatisticsAttrsRsp.decodeGo prev d).map
        GetDCMICapabilitiesInfoEnhancedSystemPowerStatisticsAttrsRsp.toModel
      = Wire.DcmiCap5.decodeGo (GetDCMICapabilitiesInfoEnhancedSystemPowerStatisticsAttrsRsp.toModel prev) d := by
  rw [Wire.DcmiCap5.decodeGo_refines]
  unfold GetDCMICapabilitiesInfoEnhancedSystemPowerStatisticsAttrsRsp.decodeGo Wire.DcmiCap5.decode
  simp only [GoSlice.vis_length]
  by_cases h : d.len < 3
  · unfold getDCMICapabilitiesInfoRspHeader.Decode
    simp only [h, if_true, R.bind_err, R.map, R.ofExcept_error]
  · simp only [hdr_decode_ok _ _ h, R.bind_ok, GoSlice.sub_len, h, if_false]
    by_cases hb : d.len - 3 < 1
    · simp only [hb, if_true, R.map, R.ofExcept_error]
    · simp only [hb, if_false]
      dcmi_simp
      have e3 : (List.take (d.len - 3) (List.drop 3 d.vis)).getD 0 0 = List.getD d.vis 3 0 := by
        rw [getD_take _ _ _ (by omega), getD_drop]
      simp only [e3]
      generalize hn : (List.getD d.vis 3 0).toNat = n
      by_cases hg : d.len - 3 < 1 + n
      · simp only [hg, if_true, R.map, R.ofExcept_error]
      · simp only [hg, if_false]
        rw [cap5_loop _ n (by simp only [GoSlice.sub_len]; omega) n (Nat.le_refl _) _ (by simp)]
        have e7 : GoDec.nat (((d.len : Nat) : Int) - ((d.len - 3 : Nat) : Int) + ((1 : Nat) : Int) + ((n : Nat) : Int)) = .ok (4 + n) := by
          rw [GoDec.nat_ok _ (by omega)]; congr 1; omega
        rw [e7]
        dcmi_simp
        simp only [GoSlice.take_len_drop_vis, GetDCMICapabilitiesInfoEnhancedSystemPowerStatisticsAttrsRsp.toModel,
          getDCMICapabilitiesInfoRspHeader.toModel, R.ofExcept_ok, Wire.DcmiHeader.ofBytes, List.drop_drop, Nat.sub_zero, List.drop_zero]
        have hp : List.take (d.len - 3 - (1 + n)) (List.drop (3 + (1 + n)) d.vis) = List.drop (4 + n) d.vis := by
          rw [show 3 + (1 + n) = 4 + n by omega]
          apply List.take_of_length_le; simp; omega
        have hq : List.map Int.toNat
            (List.map (fun i => dcmi_rollingAvgPeriodDuration ((List.drop 3 d.vis).getD (1 + i) 0)) (List.range n) ++
              List.drop n (List.replicate n 0)) = List.map Wire.rollingNs (List.take n (List.drop 4 d.vis)) := by
          rw [← Wire.range_getD d.vis 4 n (by simp; omega)]
          have hd : List.drop n (List.replicate n (0 : Int)) = [] := by simp
          rw [hd, List.append_nil, List.map_map, List.map_map, List.map_map]
          apply List.map_congr_left
          intro i _
          simp only [Function.comp_def, rolling_eq, getD_drop]
          congr 2; omega
        rw [hp, hq]

theorem GetDCMISensorInfoRsp_gen_eq (prev : GetDCMISensorInfoRsp) (prevM : Wire.SensorInfo) (d : GoSlice) :
    (GetDCMISensorInfoRsp.decodeGo prev d).map GetDCMISensorInfoRsp.toView
      = (Wire.SensorInfo.decodeGo prevM d).map Wire.SensorInfo.view := by
  rw [Wire.SensorInfo.decodeGo_refines]
  unfold GetDCMISensorInfoRsp.decodeGo Wire.SensorInfoView.decode
  simp only [GoSlice.vis_length]
  by_cases h : d.len < 2
  · simp only [h, if_true, R.map, R.ofExcept_error]
  · simp only [h, if_false]
    gen_simp
    generalize hn : (List.getD d.vis 1 0).toNat = n
    by_cases hg : d.len < 2 + n * 2
    · simp only [hg, if_true, R.map, R.ofExcept_error]
    · simp only [hg, if_false]
      rw [sensorInfo_loop d n (by omega) n (Nat.le_refl _)]
      simp only [R.bind_ok, R.map, R.ofExcept_ok, GetDCMISensorInfoRsp.toView, List.nil_append, List.map_map, Function.comp_def,
        le16_toNat, Nat.sub_zero, List.drop_zero, GoSlice.take_len_drop_vis]

end Bmc.Proofs.GenDec
