import Bmc.Lemmas.C15Sensor
import Bmc.Proofs.C20
import Bmc.Proofs.C07.Sdr
/-! # C15 — sensor readings are converted with the specification's formula (property theorems only)

FULL STATEMENT OF THE PROPERTY. For every Full Sensor Record and every raw reading byte, the sensor reader returns
`L((M·x + B·10^K1)·10^K2)`, x = the raw byte read as unsigned / 1's complement / 2's complement as the record states,
L = the record's linearisation function, *to within floating-point rounding of an exact evaluation*; it returns the
reading-unavailable and scanning-disabled errors exactly when the BMC sets those flags; it refuses to build a reader
for non-linear sensors and for records without an analog data format.

WHAT IS PROVED HERE (everything except the floating-point clause). `Proto.Sensor` models `sensor_reader.go`
statement by statement, with the `float64` arithmetic of `ConvertReading` replaced by the EXACT value of the same
expression (a decimal `mantissa·10^exp10`) and the lineariser by its NAME. The theorems say: the decimal denotes
the specification's rational for ALL integers (`convert_exact`), the raw byte is interpreted as the record states
(`raw_interpretation`), the reader built is the one the specification's classification calls for, with the function
the specification names for codes 1…11, and is refused exactly for non-linear codes and the not-analog format
(`reader_selection`, `reader_refused_iff`), the two status errors are returned exactly on the two flag bits
(`flags`, `flags_iff`), and all of it composed from the bytes of a well-formed record (`sensor_reading_spec`).

WHAT IS NOT PROVED (⇒ the property is PARTIAL in Lean): that the `float64` the Go code computes is within rounding of
the exact decimal, and that `math.Log`, `math.Pow(f, 1./3)`, … compute the functions `denotes` reads them as. Both
are outside Lean core (no IEEE-754 model, no real analysis). They are checked numerically by the harness on every
run (`conv` scenario: 256 raw bytes × 3 formats × 12 functions, boundary-complete and random factors), which is
where the cube-root finding lives (math.Pow of a negative base is NaN). -/
namespace Bmc.Proofs.C15
open Bmc Bmc.Wire Bmc.Proto.Sensor Bmc.Lemmas.Sensor

-- (a) the linear formula, exactly ---------------------------------------------------------------------------------
/-- the exact decimal of `ConvertReading`'s expression denotes `(M·x + B·10^K1)·10^K2` — for ALL integers M, B, K1,
    K2, x (in particular all 10-bit M, B, 4-bit K1, K2 and x ∈ −128…255) -/
theorem convert_exact (M B K1 K2 x : Int) :
    decToRat (convertExact M B K1 K2 x) = Spec.Sensor.linearValue M B K1 K2 x := convertExact_value M B K1 K2 x

example : convertExact (-3) 7 2 (-1) (-128) = (1084, -1) ∧ convertExact 9 171 0 (-3) 181 = (1800, -3) ∧
    convertExact 5 (-7) (-2) 3 (-1) = (-507, 1) := by decide

/-- the canonical decimal the driver prints denotes the same rational … -/
theorem printed_value (d : Int × Int) : decToRat (normalize d) = decToRat d := normalize_value d

/-- … and is a function of that rational alone: two canonical decimals of the same value are equal, so equal
    printed text on the Go and the Lean side means equal exact values and conversely -/
theorem printed_canonical (d1 d2 : Int × Int) (h : decToRat d1 = decToRat d2) : normalize d1 = normalize d2 :=
  canonical_unique _ _ (normalize_canonical d1) (normalize_canonical d2) (by rw [normalize_value, normalize_value, h])

example : normalize (convertExact 9 171 0 (-3) 181) = (18, -1) ∧ normalize (convertExact 0 0 5 (-3) 77) = (0, 0) := by decide

-- raw byte ----------------------------------------------------------------------------------------------------------
/-- the parser the reader holds reads the raw byte as the record's analog data format says (unsigned, 1's
    complement with both zeros, 2's complement); no parser for format 3 and beyond — every format, every byte -/
theorem raw_interpretation (fmt raw : UInt8) :
    (parserOf fmt).map (fun p => p.parse raw) = Spec.Sensor.rawValue fmt.toNat raw.toNat := by
  have h := parser_lookup fmt.toNat fmt.toNat_lt
  rw [UInt8.ofNat_toNat] at h
  rw [h]
  have e1 := C20.analog_unsigned raw.toBitVec
  have e2 := C20.analog_ones raw.toBitVec
  have e3 := C20.analog_twos raw.toBitVec
  simp only [UInt8.toNat_toBitVec] at e1 e2 e3
  unfold Spec.Sensor.rawValue
  generalize fmt.toNat = n
  match n with
  | 0 => simp [Parser.parse, e1]
  | 1 => simp [Parser.parse, e2]
  | 2 => simp [Parser.parse, e3]
  | n + 3 => simp

example : (parserOf 1).map (fun p => p.parse 0x80) = some (-127) ∧ (parserOf 2).map (fun p => p.parse 0x80) = some (-128) ∧
    (parserOf 0).map (fun p => p.parse 0x80) = some 128 ∧ (parserOf 1).map (fun p => p.parse 0xff) = some 0 := by decide

-- reader selection --------------------------------------------------------------------------------------------------
/-- the linear reader built from a record and a parser -/
def linearOf (r : FullSensorRecord) (p : Parser) : LinearReader :=
  { number := r.number, ownerLUN := r.ownerLUN, parser := p, m := r.m, b := r.b, bExp := r.bExp, rExp := r.rExp }

/-- `NewSensorReader` on ANY decoded record: code 0 ↦ the linear reader; codes 1…11 ↦ the linearised reader whose
    lineariser is the function the specification names for that code; everything else (≥ 12) ↦ the non-linear
    error, whatever the format; otherwise no analog format (3) ↦ the not-analog error. The reader queries the
    record's sensor number and LUN and carries the record's factors. -/
theorem reader_selection (r : FullSensorRecord) :
    match Spec.Sensor.kindOf r.linearisation.toNat, parserOf r.analogDataFormat with
    | .nonLinear, _ => newSensorReader r = .error .nonLinear
    | _, none => newSensorReader r = .error .notAnalog
    | .linear, some p => newSensorReader r = .ok (.linear (linearOf r p))
    | .linearised f, some p => ∃ l, denotes l = f ∧ newSensorReader r = .ok (.linearised (linearOf r p) l) := by
  have hk := kind_lookup r.linearisation.toNat r.linearisation.toNat_lt
  have hl := lineariser_lookup r.linearisation.toNat r.linearisation.toNat_lt
  rw [UInt8.ofNat_toNat] at hk hl
  obtain ⟨k1, k2, _⟩ := hk
  unfold newSensorReader newLinearisedSensorReader newLinearSensorReader
  rw [k1, k2]
  unfold Spec.Sensor.kindOf at *
  by_cases h0 : r.linearisation.toNat = 0
  · simp only [h0, if_true, decide_true]
    cases parserOf r.analogDataFormat <;> simp [linearOf]
  · simp only [h0, if_false]
    cases hc : Spec.Sensor.linFnOfCode r.linearisation.toNat with
    | none => simp
    | some f =>
      rw [hc] at hl
      cases hp : parserOf r.analogDataFormat with
      | none => simp
      | some p =>
        cases hq : lineariserOf r.linearisation with
        | none => rw [hq] at hl; simp at hl
        | some l =>
          rw [hq] at hl
          simp only [Option.map_some, Option.some.injEq] at hl
          simp [linearOf, hl]

/-- a reader is refused exactly for non-linear codes (≥ 12) and for the not-analog format (no parser): never
    otherwise, and never with `ErrNotLinearised` -/
theorem reader_refused_iff (r : FullSensorRecord) :
    (newSensorReader r = .error .nonLinear ↔ 12 ≤ r.linearisation.toNat) ∧
    (newSensorReader r = .error .notAnalog ↔ r.linearisation.toNat < 12 ∧ 3 ≤ r.analogDataFormat.toNat) ∧
    newSensorReader r ≠ .error .notLinearised := by
  have h := reader_selection r
  have hk := (kind_lookup r.linearisation.toNat r.linearisation.toNat_lt).2.2
  have hp := parser_lookup r.analogDataFormat.toNat r.analogDataFormat.toNat_lt
  rw [UInt8.ofNat_toNat] at hp
  have hnone : parserOf r.analogDataFormat = none ↔ 3 ≤ r.analogDataFormat.toNat := by
    rw [hp]
    generalize r.analogDataFormat.toNat = n
    match n with
    | 0 => simp
    | 1 => simp
    | 2 => simp
    | n + 3 => simp
  cases hkind : Spec.Sensor.kindOf r.linearisation.toNat with
  | nonLinear =>
    have h12 : 12 ≤ r.linearisation.toNat := hk.mp hkind
    rw [hkind] at h
    have h' : newSensorReader r = .error .nonLinear := h
    rw [h']
    refine ⟨by simp [h12], ?_, by simp⟩
    simp; omega
  | linear =>
    have h12 : ¬ 12 ≤ r.linearisation.toNat := fun c => by rw [hk.mpr c] at hkind; cases hkind
    rw [hkind] at h
    cases hpp : parserOf r.analogDataFormat with
    | none =>
      rw [hpp] at h
      have h' : newSensorReader r = .error .notAnalog := h
      have h3 := hnone.mp hpp
      rw [h']
      refine ⟨by simp [h12], ?_, by simp⟩
      simp; omega
    | some p =>
      have h3 : ¬ 3 ≤ r.analogDataFormat.toNat := fun c => by rw [hnone.mpr c] at hpp; cases hpp
      rw [hpp] at h
      have h' : newSensorReader r = .ok (.linear (linearOf r p)) := h
      rw [h']
      refine ⟨by simp [h12], ?_, by simp⟩
      simp; omega
  | linearised f =>
    have h12 : ¬ 12 ≤ r.linearisation.toNat := fun c => by rw [hk.mpr c] at hkind; cases hkind
    rw [hkind] at h
    cases hpp : parserOf r.analogDataFormat with
    | none =>
      rw [hpp] at h
      have h' : newSensorReader r = .error .notAnalog := h
      have h3 := hnone.mp hpp
      rw [h']
      refine ⟨by simp [h12], ?_, by simp⟩
      simp; omega
    | some p =>
      have h3 : ¬ 3 ≤ r.analogDataFormat.toNat := fun c => by rw [hnone.mpr c] at hpp; cases hpp
      rw [hpp] at h
      obtain ⟨l, _, h'⟩ : ∃ l, denotes l = f ∧ newSensorReader r = .ok (.linearised (linearOf r p) l) := h
      rw [h']
      refine ⟨by simp [h12], ?_, by simp⟩
      simp; omega

/-- the table of linearisers is the specification's table: keys 1…11 in order, each bound to the function of
    that code, nothing else — every key 0…255 -/
theorem lineariser_table (l : UInt8) : (lineariserOf l).map denotes = Spec.Sensor.linFnOfCode l.toNat := by
  have h := lineariser_lookup l.toNat l.toNat_lt
  rwa [UInt8.ofNat_toNat] at h

example : lineariserOf 5 = some .powTenF ∧ lineariserOf 11 = some .powFThird ∧ lineariserOf 0 = none ∧ lineariserOf 12 = none := by
  decide

/-- FINDING (cube root). Wherever the specification's function is defined at the exact linear value, the lineariser
    of the REPAIRED table (`math.Cbrt` for code 0Bh) returns a number — every lineariser, every decimal. -/
theorem lineariser_defined (l : Lineariser) (d : Int × Int)
    (h : (denotes l).definedAt (decToRat d) = true) : l.returnsNumber true (signOf d.1) = true := defined_number l d h

/-- the code AS IT IS: `math.Pow(f, 1./3)` is NaN for a negative argument although the cube root of −12.6 is a
    real number (≈ −2.327); every other entry is unaffected by the repair -/
example : Spec.Sensor.LinFn.definedAt (denotes .powFThird) (decToRat (-126, -1)) = true ∧
    Lineariser.returnsNumber false .powFThird (signOf (-126)) = false ∧
    (∀ l s, l ≠ .powFThird → Lineariser.returnsNumber false l s = Lineariser.returnsNumber true l s) := by
  refine ⟨by decide, by decide, ?_⟩
  intro l s h
  cases l <;> first | rfl | exact absurd rfl h

-- flags -------------------------------------------------------------------------------------------------------------
/-- `Read` on a normal completion code and a response of ≥ 3 bytes `raw, flags, …` (decoded from any window into
    any used receiver): reading-unavailable (bit 5) first, then scanning disabled (bit 6 clear), else the
    conversion of the parsed raw byte with the reader's lineariser -/
theorem flags (rd : Reader) (prev : SensorReadingRsp) (raw fl c : UInt8) (rest tail : Bytes) :
    rd.read 0 (SensorReadingRsp.decodeGo prev (GoSlice.window (raw :: fl :: c :: rest) tail)) =
      match Spec.Sensor.status fl.toNat with
      | .unavailable => .unavailable
      | .scanningDisabled => .scanningDisabled
      | .valid => .value (convertExact rd.lin.m rd.lin.b rd.lin.bExp rd.lin.rExp (rd.lin.parser.parse raw)) rd.lineariser := by
  obtain ⟨p, hp, h1, h2, h3⟩ := reading_fields prev raw fl c rest tail
  have hb := flag_bits fl.toNat fl.toNat_lt
  rw [UInt8.ofNat_toNat] at hb
  rw [hp]
  unfold Spec.Sensor.status
  rw [← hb.1, ← hb.2, ← h2, ← h3]
  cases rd with
  | linear r =>
    simp only [Reader.read, LinearReader.read, Reader.lin, Reader.lineariser, h1]
    cases p.readingUnavailable <;> cases p.scanningEnabled <;> simp
  | linearised r l =>
    simp only [Reader.read, LinearReader.read, Reader.lin, Reader.lineariser, h1]
    cases p.readingUnavailable <;> cases p.scanningEnabled <;> simp

/-- "exactly when the BMC sets those flags": the unavailable error iff bit 5 is set; the scanning-disabled error
    iff bit 5 is clear and bit 6 is clear (the code tests unavailable first, so with both conditions present the
    caller sees "unavailable"); a value iff bit 5 is clear and bit 6 is set. Bits 7 and 4:0 have no influence. -/
theorem flags_iff (rd : Reader) (prev : SensorReadingRsp) (raw fl c : UInt8) (rest tail : Bytes) :
    let res := rd.read 0 (SensorReadingRsp.decodeGo prev (GoSlice.window (raw :: fl :: c :: rest) tail))
    (res = .unavailable ↔ Spec.Sensor.unavailableBit fl.toNat = true) ∧
    (res = .scanningDisabled ↔ Spec.Sensor.unavailableBit fl.toNat = false ∧ Spec.Sensor.scanningBit fl.toNat = false) ∧
    ((∃ d l, res = .value d l) ↔ Spec.Sensor.unavailableBit fl.toNat = false ∧ Spec.Sensor.scanningBit fl.toNat = true) ∧
    res ≠ .err := by
  intro res
  have h : res = _ := flags rd prev raw fl c rest tail
  rw [h]
  unfold Spec.Sensor.status
  cases Spec.Sensor.unavailableBit fl.toNat <;> cases Spec.Sensor.scanningBit fl.toNat <;> simp

/-- a non-normal completion code, or a response shorter than three bytes, is an error whatever the flags -/
theorem read_error (rd : Reader) (prev : SensorReadingRsp) (cc : UInt8) (d : GoSlice) (h : cc ≠ 0 ∨ d.len < 3) :
    rd.read cc (SensorReadingRsp.decodeGo prev d) = .err := by
  rcases h with h | h
  · cases rd <;> simp only [Reader.read, LinearReader.read] <;>
      cases SensorReadingRsp.decodeGo prev d <;> simp [h]
  · rw [reading_short prev d h]
    cases rd <;> rfl

-- composition -------------------------------------------------------------------------------------------------------
/-- what the model's outcome means in the specification's terms: the exact decimal ↦ the rational it denotes, the
    lineariser ↦ the function it computes; a transport error has no counterpart -/
def view : Except BuildErr (Reader × ReadRes) → Option Spec.Sensor.Result
  | .error _ => some .refused
  | .ok (_, .err) => none
  | .ok (_, .unavailable) => some .unavailable
  | .ok (_, .scanningDisabled) => some .scanningDisabled
  | .ok (_, .value d l) => some (.value (l.map denotes) (decToRat d))

/-- THE PROPERTY, minus floating point: for every well-formed Full Sensor Record `v` (every analog format, every
    linearisation code 0…127, every 10-bit M, B, every 4-bit K1, K2 — `Spec.FullSensor.wf`), received in any window,
    every raw byte and every flags byte of a normal Get Sensor Reading response of three or more bytes: decoding the
    record, building the reader and reading once gives exactly what the specification gives — refusal, one of the
    two status errors, or the value L(v) with L the specification's function for the code and v the exact
    rational `(M·x + B·10^K1)·10^K2`, x the raw byte in the record's format. -/
theorem sensor_reading_spec (v : Spec.FullSensor) (hv : v.wf) (tail : Bytes) (raw fl c : UInt8) (rest tail2 : Bytes) :
    (conv (GoSlice.window v.encode tail) 0 (GoSlice.window (raw :: fl :: c :: rest) tail2)).map view =
      .ok (some (Spec.Sensor.reading v.analogFormat.toNat v.linearisation.toNat ⟨v.m, v.b, v.bExp, v.rExp⟩
                  raw.toNat fl.toNat)) := by
  unfold conv
  rw [C07.fullSensor_decode_wire v hv]
  simp only
  have hsel := reader_selection (C07.fullSensorView v)
  have hraw := raw_interpretation v.analogFormat raw
  have e1 : (C07.fullSensorView v).linearisation = v.linearisation := rfl
  have e2 : (C07.fullSensorView v).analogDataFormat = v.analogFormat := rfl
  rw [e1, e2] at hsel
  unfold Spec.Sensor.reading
  cases hk : Spec.Sensor.kindOf v.linearisation.toNat with
  | nonLinear =>
    rw [hk] at hsel; simp only at hsel; rw [hsel]; rfl
  | linear =>
    rw [hk] at hsel
    cases hp : parserOf v.analogFormat with
    | none =>
      rw [hp] at hsel hraw; simp only at hsel; rw [hsel]
      simp only [Option.map_none] at hraw; rw [← hraw]; rfl
    | some p =>
      rw [hp] at hsel hraw; simp only at hsel; rw [hsel]
      simp only [Option.map_some] at hraw; rw [← hraw]
      simp only [R.map]
      rw [flags]
      cases Spec.Sensor.status fl.toNat <;> simp [view, Reader.lin, Reader.lineariser, linearOf, C07.fullSensorView, convert_exact]
  | linearised f =>
    rw [hk] at hsel
    cases hp : parserOf v.analogFormat with
    | none =>
      rw [hp] at hsel hraw; simp only at hsel; rw [hsel]
      simp only [Option.map_none] at hraw; rw [← hraw]; rfl
    | some p =>
      rw [hp] at hsel hraw; simp only at hsel
      obtain ⟨l, hl, hsel⟩ := hsel
      rw [hsel]
      simp only [Option.map_some] at hraw; rw [← hraw]
      simp only [R.map]
      rw [flags]
      cases Spec.Sensor.status fl.toNat <;>
        simp [view, Reader.lin, Reader.lineariser, linearOf, C07.fullSensorView, convert_exact, hl]

/-- the hypotheses are satisfiable on a non-trivial record: 2's complement, linearisation 10^x, M = −3, B = 7,
    K1 = 2, K2 = −1 (DESIGN §5 C15's sample), raw 0x80, scanning enabled: value 10^((−3·(−128) + 700)/10) = 10^108.4 -/
example :
    let v : Spec.FullSensor := {
      ownerID := 0x20, channel := 0, ownerLUN := 1, number := 7, entityID := 3, logical := false,
      entityInstance := 1, initialization := 0x7f, ignoreIfAbsent := true, capabilities := 0x68, sensorType := 1,
      eventReadingType := 1, assertionMask := 0x7a95, deassertionMask := 0x7a95, readingMask := 0x3f3f,
      analogFormat := 2, rateUnit := 0, modifierUse := 0, percentage := false, baseUnit := 1, modifierUnit := 0,
      linearisation := 5, m := -3, tolerance := 1, b := 7, accuracy := 0, accuracyExp := 0, direction := 0, rExp := -1,
      bExp := 2, normalMinSpecified := false, normalMaxSpecified := false, nominalSpecified := false, nominalReading := 0,
      normalMax := 0, normalMin := 0, sensorMax := 0x7f, sensorMin := 0x80, upperNonRecoverable := 0, upperCritical := 0,
      upperNonCritical := 0, lowerNonRecoverable := 0, lowerCritical := 0, lowerNonCritical := 0, positiveHysteresis := 0,
      negativeHysteresis := 0, oem := 0, idString := { enc := .latin1, chars := [0x54, 0x31] } }
    v.wf ∧ (conv (GoSlice.ofBytes v.encode) 0 (GoSlice.ofBytes [0x80, 0x40, 0xc0])).map
        (fun o => o.toOption.map (fun (rd, res) => (rd.lineariser, res)))
      = .ok (some (some .powTenF, .value (1084, -1) (some .powTenF))) := by
  decide +kernel

end Bmc.Proofs.C15
