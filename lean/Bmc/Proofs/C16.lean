import Bmc.Lemmas.EnumParse
import Bmc.Lemmas.EnumPaging
import Bmc.Lemmas.EnumSound
/-! # C16 — paged enumerations are complete, ordered and terminate (property theorems only)

Model: `Proto/Enum.lean` (`parseRecords`, `retrieveChunks`, `retrieveSupportedCipherSuites`, `entityInstances`,
`sensorMap`, `getSensorInfo`). Specification: `Spec/Enum.lean` (record grammar of IPMI Table 22-18, `expand`, the paging
BMC `page`, the DCMI BMC `DcmiBmc.respond`). Every theorem is for lists / byte strings / BMC holdings of ANY size. -/
namespace Bmc.Proofs.C16
open Bmc Bmc.Proto.Enum Bmc.Spec.Enum Bmc.Lemmas.Enum

/-! ## Cipher suite records -/

/-- Any number of well-formed records (standard and OEM, any number of integrity and confidentiality algorithms each,
    none included) laid end to end parse to exactly one entry per (integrity, confidentiality) combination of each
    record, in order. -/
theorem parse_encode (rs : List Record) (hw : ∀ r ∈ rs, r.wf) :
    parseRecords (encodeRecords rs) = .ok ((rs.flatMap expand).map view) := by
  unfold parseRecords
  rw [parseLoop_fuel _ ((encodeRecords rs).length + 1 + rs.length) _ _ (by omega) (by omega)]
  have := parseLoop_prefix rs hw [] (by intro b t h; cases h) ((encodeRecords rs).length + 1) []
  rw [List.append_nil] at this
  rw [this]
  simp [parseLoop]

example : (⟨17, none, 3, [4], [1]⟩ : Record).wf ∧ (⟨0x16, some 0x020100, 1, [1, 2, 3], []⟩ : Record).wf := by decide
/-- the repository's own vector, and a record with 2 × 3 combinations -/
example : parseRecords [0xc0, 0x11, 0x03, 0x44, 0x81, 0xc1, 0x16, 0x00, 0x01, 0x02, 0x01, 0x41, 0x81] =
    .ok [⟨17, 0, 3, 4, 1⟩, ⟨22, 0x020100, 1, 1, 1⟩] := by decide
example : (expand ⟨5, none, 1, [1, 2], [1, 2, 3]⟩).map (fun e => (e.integ, e.conf)) =
    [(1, 1), (1, 2), (1, 3), (2, 1), (2, 2), (2, 3)] := by decide

/-- Totality over ALL byte strings: the parser returns a list or an error — it never panics and never reads outside the
    data — and an error carries no list (`R.err` has no payload: never a partial list). -/
theorem parse_total (b : Bytes) : parseRecords b = .err ∨ ∃ es, parseRecords b = .ok es :=
  parseLoop_total _ b [] (by omega)

/-- Soundness: whatever the parser accepts IS the concatenation of well-formed records, and the entries returned are
    exactly that record list's expansion — never the entries of a well-formed prefix of something else. -/
theorem parse_sound (b : Bytes) (es : List Entry) (h : parseRecords b = .ok es) :
    ∃ rs : List Record, (∀ r ∈ rs, r.wf) ∧ b = encodeRecords rs ∧ es = (rs.flatMap expand).map view := by
  obtain ⟨rs, h1, h2, h3⟩ := parseLoop_sound _ b [] es h
  exact ⟨rs, h1, h2, by simpa using h3⟩

/-- Malformed data — ANY byte string that is not a concatenation of well-formed records — gives an error (and by
    `parse_total` nothing else: not a partial list, not a panic). -/
theorem parse_malformed (b : Bytes) (h : ¬ ∃ rs : List Record, (∀ r ∈ rs, r.wf) ∧ b = encodeRecords rs) :
    parseRecords b = .err := by
  rcases parse_total b with he | ⟨es, hes⟩
  · exact he
  · obtain ⟨rs, h1, h2, _⟩ := parse_sound b es hes
    exact absurd ⟨rs, h1, h2⟩ h

/-- the hypothesis of `parse_malformed` holds e.g. for the repository's "missing auth algo" vector -/
example : ¬ ∃ rs : List Record, (∀ r ∈ rs, r.wf) ∧ ([0xc0, 0x00] : Bytes) = encodeRecords rs := by
  rintro ⟨rs, hw, he⟩
  have h1 := parse_encode rs hw
  rw [← he] at h1
  have h2 : parseRecords [0xc0, 0x00] = .err := by decide
  rw [h2] at h1
  cases h1

/-- Termination: any fuel above the length of the data gives the same answer. -/
theorem parse_fuel (b : Bytes) (f : Nat) (hf : b.length < f) : parseLoop f b [] = parseRecords b :=
  parseLoop_fuel _ _ b [] hf (by omega)

/-- Malformed, bad start byte: after any number of well-formed records, a byte that neither starts a record nor can be
    taken for one more algorithm of the last record (with no record before it: any byte but C0h/C1h) makes the whole
    result an error. -/
theorem parse_malformed_start (rs : List Record) (hw : ∀ r ∈ rs, r.wf) (b : UInt8) (rest : Bytes)
    (hb : (b >>> 1 != 0x60) = true) (hstop : rs = [] ∨ ((b >>> 6 == 1) = false ∧ (b >>> 6 == 2) = false)) :
    parseRecords (encodeRecords rs ++ b :: rest) = .err := by
  have hone : ∀ f acc, parseLoop (f + 1) (b :: rest) acc = .err :=
    fun f acc => parseLoop_err f _ acc (by simp) (parseOne_bad_start b rest hb)
  rcases hstop with rfl | hstop
  · simpa [encodeRecords, parseRecords] using hone (rest.length + 1) []
  · unfold parseRecords
    rw [parseLoop_fuel _ ((encodeRecords rs ++ b :: rest).length + 1 + rs.length) _ _ (by omega) (by omega)]
    rw [parseLoop_prefix rs hw (b :: rest) (by intro b' t h; cases h; exact hstop)]
    exact hone _ _

example : ((0x05 : UInt8) >>> 1 != 0x60) = true ∧ ((0x05 : UInt8) >>> 6 == 1) = false ∧ ((0x05 : UInt8) >>> 6 == 2) = false := by
  decide
example : parseRecords [0xc0, 0x11, 0x03, 0x44, 0x81, 0x05, 0xc0, 0x00, 0x00] = .err := by decide

/-- Malformed, stray tag: an integrity-tagged byte after a record's confidentiality algorithms is an error. -/
theorem parse_malformed_stray (rs : List Record) (r : Record) (hw : ∀ x ∈ rs ++ [r], x.wf) (hc : r.conf ≠ [])
    (b : UInt8) (hb : (b >>> 6 == 1) = true) (rest : Bytes) :
    parseRecords (encodeRecords (rs ++ [r]) ++ b :: rest) = .err := by
  have hwr : r.wf := hw r (by simp)
  have hwrs : ∀ x ∈ rs, x.wf := fun x hx => hw x (by simp [hx])
  have e : encodeRecords (rs ++ [r]) ++ b :: rest = encodeRecords rs ++ (r.encode ++ b :: rest) := by
    simp [encodeRecords]
  have hb2 : (b >>> 6 == 2) = false := by
    have : b >>> 6 = 1 := by simpa using hb
    rw [this]; decide
  unfold parseRecords
  rw [e]
  generalize hX : encodeRecords rs ++ (r.encode ++ b :: rest) = X
  have hXlen : 1 ≤ X.length := by rw [← hX]; simp; omega
  rw [parseLoop_fuel _ ((X.length - 1) + 2 + rs.length) _ _ (by omega) (by omega), ← hX]
  rw [parseLoop_prefix rs hwrs (r.encode ++ b :: rest) (by
    intro b' t h
    obtain ⟨b0, t0, e0, hs⟩ := encode_head r
    rw [e0] at h
    simp at h
    rw [← h.1]
    exact start_tag b0 hs)]
  have hok : okAfter r (b :: rest) := by
    intro b' t h
    cases h
    exact ⟨hb2, fun h => absurd h hc⟩
  have hpos : 0 < (r.encode ++ b :: rest).length := by simp; omega
  rw [parseLoop_step _ _ _ _ _ hpos (parseOne_encode r hwr _ hok)]
  exact parseLoop_err _ _ _ (by simp) (parseOne_bad_start b rest (tag1_not_start b hb))

example : parseRecords [0xc0, 0x11, 0x03, 0x44, 0x81, 0x41] = .err := by decide

/-- Malformed, truncated record: data that ends inside a record's header or right after it (before the authentication
    algorithm that every record must carry) is an error, however many complete records came before. (A cut inside the
    algorithm lists leaves a shorter well-formed record and cannot be detected.) -/
theorem parse_malformed_truncated (rs : List Record) (hw : ∀ r ∈ rs, r.wf) (r : Record) (k : Nat) (hk0 : 0 < k)
    (hk : k ≤ r.header.length) : parseRecords (encodeRecords rs ++ r.encode.take k) = .err := by
  obtain ⟨k', rfl⟩ : ∃ k', k = k' + 1 := ⟨k - 1, by omega⟩
  have hcut : ∀ f acc, parseLoop (f + 1) (r.encode.take (k' + 1)) acc = .err := by
    intro f acc
    unfold Record.header at hk
    unfold Record.encode Record.header
    cases hi : r.iana with
    | none =>
      rw [hi] at hk
      simp only [List.cons_append, List.nil_append, List.take_succ_cons]
      have h3 : (List.take k' (UInt8.ofNat r.id :: authByte r.auth :: (r.integ.map integByte ++ r.conf.map confByte))).length + 1 < 3 := by
        simp at hk ⊢; omega
      exact parseLoop_err _ _ _ (by simp) (parseOne_short_std _ h3)
    | some n =>
      rw [hi] at hk
      simp only [List.cons_append, List.nil_append, List.take_succ_cons]
      have h6 : (List.take k' (UInt8.ofNat r.id :: UInt8.ofNat (n % 256) :: UInt8.ofNat (n / 256 % 256) :: UInt8.ofNat (n / 65536 % 256) ::
          authByte r.auth :: (r.integ.map integByte ++ r.conf.map confByte))).length + 1 < 6 := by
        simp at hk ⊢; omega
      exact parseLoop_err _ _ _ (by simp) (parseOne_short_oem _ h6)
  unfold parseRecords
  rw [parseLoop_fuel _ ((encodeRecords rs ++ r.encode.take (k' + 1)).length + 1 + rs.length) _ _ (by omega) (by omega)]
  rw [parseLoop_prefix rs hw _ (by
    intro b' t h
    obtain ⟨b0, t0, e0, hs⟩ := encode_head r
    rw [e0] at h
    simp at h
    rw [← h.1]
    exact start_tag b0 hs)]
  exact hcut _ _

example : parseRecords ([0xc0, 0x11, 0x03, 0x44, 0x81] ++ ([0xc1, 0x16, 0x00, 0x01, 0x02, 0x01, 0x41, 0x81] : Bytes).take 5) = .err := by
  decide

/-! ## Chunked retrieval -/

/-- Termination for EVERY BMC: 64 rounds are enough whatever the BMC answers (more fuel changes nothing). -/
theorem chunks_fuel (page : Nat → Option Bytes) (f : Nat) (hf : 64 ≤ f) :
    retrieveLoop 63 page f 0 [] = retrieveChunks page :=
  retrieveLoop_fuel 63 (by omega) page f 64 0 [] (by omega) (by omega) (by omega)

/-- Record data shorter than 1024 bytes, served 16 bytes per list index, is reassembled exactly — also when its length
    is an exact multiple of 16 (the last, empty chunk ends the loop) — by asking for the indices 0, 1, …, ⌊len/16⌋ once
    each, in order. (The pinned tree went on to `ListIndex == 64`, which the request layer sends as `64 & 0x3f = 0`:
    at 1024 bytes the first chunk came twice; see the example below and `chunks_reassemble_max`.) -/
theorem chunks_reassemble (data : Bytes) (h : data.length < 1024) :
    retrieveChunks (fun w => some (page data w)) = (List.range (data.length / 16 + 1), .ok data) := by
  have := retrieveLoop_page 63 data (Or.inr ⟨by omega, by omega⟩) 64 0 (by omega) (by omega) (by omega)
  simp only [Nat.mul_zero, List.take_zero, Nat.sub_zero] at this
  have hmin : min (data.length / 16) 63 = data.length / 16 := by omega
  rw [hmin, ← List.range_eq_range'] at this
  exact this

example : (List.replicate 48 (0xAA : UInt8)).length < 1024 ∧ (List.replicate 48 (0xAA : UInt8)).length % 16 = 0 := by decide
example : retrieveChunks (fun w => some (page (List.replicate 48 0xAA) w)) = ([0, 1, 2, 3], .ok (List.replicate 48 0xAA)) := by
  decide

/-- the PINNED tree (`ListIndex == 64`), at exactly 1024 bytes (the most that 64 list indices can carry): the first
    chunk comes twice -/
example : retrieveChunksL 64 (fun w => some (page ((List.range 1024).map UInt8.ofNat) w)) =
    ((List.range 64) ++ [0], .ok ((List.range 1024).map UInt8.ofNat ++ (List.range 16).map UInt8.ofNat)) := by
  decide +kernel

/-- all lengths up to the 1024-byte maximum are reassembled -/
theorem chunks_reassemble_max (data : Bytes) (h : data.length ≤ 1024) :
    (retrieveChunks (fun w => some (page data w))).2 = .ok data := by
  have := retrieveLoop_page 63 data (Or.inr ⟨by omega, by omega⟩) 64 0 (by omega) (by omega) (by omega)
  simp only [Nat.mul_zero, List.take_zero] at this
  simp [retrieveChunks, retrieveChunksL, this]

/-- … through the response layer too: the BMC sends `channel :: page` bodies, `GetChannelCipherSuitesRsp` hands back
    the page -/
theorem chunks_reassemble_wire (ch : UInt8) (hch : ch.toNat < 16) (data : Bytes) (h : data.length < 1024) :
    retrieveChunks (pageOfBody fun i => some (pageBody ch data i)) = (List.range (data.length / 16 + 1), .ok data) := by
  rw [pageOfBody_spec ch hch data]
  exact chunks_reassemble data h

/-- Discovery end to end: the records a BMC holds (encoding shorter than 1024 bytes, split across chunks wherever the
    16-byte boundaries fall) come back as exactly one entry per combination, in order. -/
theorem retrieve_complete (ch : UInt8) (hch : ch.toNat < 16) (rs : List Record) (hw : ∀ r ∈ rs, r.wf)
    (h : (encodeRecords rs).length < 1024) :
    retrieveSupportedCipherSuites (pageOfBody fun i => some (pageBody ch (encodeRecords rs) i)) =
      (List.range ((encodeRecords rs).length / 16 + 1), .ok ((rs.flatMap expand).map view)) := by
  simp only [retrieveSupportedCipherSuites, retrieveSupportedCipherSuitesL]
  have := chunks_reassemble_wire ch hch (encodeRecords rs) h
  unfold retrieveChunks at this
  rw [this]
  simp [parse_encode rs hw]

/-- … and for any data at all the result is the parser's verdict on the whole data: malformed data gives an error, not
    the entries of the chunks that happened to parse -/
theorem retrieve_eq_parse (ch : UInt8) (hch : ch.toNat < 16) (data : Bytes) (h : data.length < 1024) :
    (retrieveSupportedCipherSuites (pageOfBody fun i => some (pageBody ch data i))).2 = parseRecords data := by
  simp only [retrieveSupportedCipherSuites, retrieveSupportedCipherSuitesL]
  have := chunks_reassemble_wire ch hch data h
  unfold retrieveChunks at this
  rw [this]
  rfl

example : (encodeRecords [⟨17, none, 3, [4], [1]⟩, ⟨0x16, some 0x020100, 1, [1], [1]⟩, ⟨1, none, 1, [], []⟩]).length = 16 := by
  decide

/-! ## DCMI sensor info -/

/-- Termination for EVERY BMC: 256 rounds are enough whatever the BMC answers. -/
theorem dcmi_fuel (bmc : Proto.Enum.Bmc) (e : Nat) (f : Nat) (hf : 256 ≤ f) :
    instLoop bmc e f [] 1 = entityInstances bmc e :=
  instLoop_fuel bmc e f 256 [] 1 (by omega) (by simp; omega) (by simp)

/-- A BMC holding any 0…255 record IDs for an entity, answering each request with its total and a page of at most
    `pageSize ≥ 1` IDs from the requested instance: the enumeration returns all of them, in order (hence without
    duplicates when the BMC's list has none). -/
theorem dcmi_pages (b : DcmiBmc) (e : Nat) (ids : List Nat) (hb : b.ids e = some ids) (hn : ids.length ≤ 255)
    (hp : 1 ≤ b.pageSize) : (entityInstances b.respond e).2 = .ok ids := by
  obtain ⟨l, hl⟩ := entityInstances_spec b e ids hb hn hp
  rw [hl]

/-- … with exactly the requests needed: instance start 1, then 1 + p, 1 + 2p, … while instances remain — each once, in
    order (`expectedStarts`) -/
theorem dcmi_requests (b : DcmiBmc) (e : Nat) (ids : List Nat) (hb : b.ids e = some ids) (hn : ids.length ≤ 255)
    (hp : 1 ≤ b.pageSize) :
    entityInstances b.respond e = ((expectedStarts b.pageSize ids.length 256 0).map (fun s => ⟨e, s⟩), .ok ids) := by
  have := instLoop_spec_log b e ids hb hn hp 255 0 1 (by omega) (Or.inr ⟨rfl, rfl⟩)
  simpa [entityInstances] using this

example : expectedStarts 8 20 256 0 = [1, 9, 17] ∧ expectedStarts 8 16 256 0 = [1, 9] ∧ expectedStarts 8 0 256 0 = [1] ∧
    expectedStarts 3 255 256 0 = (List.range 85).map (fun k => 3 * k + 1) := by decide +kernel

/-- … through the response layer too (record IDs are 16-bit) -/
theorem dcmi_pages_wire (b : DcmiBmc) (hb16 : ∀ e ids, b.ids e = some ids → ids.length ≤ 255 ∧ ∀ r ∈ ids, r < 65536)
    (e : Nat) (ids : List Nat) (hb : b.ids e = some ids) (hp : 1 ≤ b.pageSize) :
    (entityInstances (bmcOfBody b.respondBody) e).2 = .ok ids := by
  rw [bmcOfBody_spec b hb16]
  exact dcmi_pages b e ids hb (hb16 e ids hb).1 hp

example : (entityInstances (DcmiBmc.respond ⟨fun _ => some (List.range 20), 8⟩) 3) =
    ([⟨3, 1⟩, ⟨3, 9⟩, ⟨3, 17⟩], .ok (List.range 20)) := by decide
example : ((entityInstances (DcmiBmc.respond ⟨fun _ => some (List.range 255), 8⟩) 3).2 = .ok (List.range 255)) ∧
    ((entityInstances (DcmiBmc.respond ⟨fun _ => some [], 8⟩) 3) = ([⟨3, 1⟩], .ok [])) := by decide +kernel

/-- the DCMI-specific entity IDs were used: some request named one of them -/
def usesDcmi (bmc : Proto.Enum.Bmc) : Prop := ∃ q ∈ (getSensorInfo bmc).1, q.entity ∈ Proto.Enum.dcmiEntities

/-- For EVERY BMC: the DCMI-specific entity IDs are used exactly when the standard ones gave an error or no record IDs
    at all. -/
theorem fallback_iff (bmc : Proto.Enum.Bmc) :
    usesDcmi bmc ↔ ((sensorMap bmc Proto.Enum.stdEntities).2 = .err ∨
      ∃ m, (sensorMap bmc Proto.Enum.stdEntities).2 = .ok m ∧ m.count = 0) := by
  have hstdlog := sensorMapLoop_log bmc Proto.Enum.stdEntities []
  have hres := sensorMapLoop_res bmc Proto.Enum.stdEntities []
  have hdisj : ∀ x, x ∈ Proto.Enum.stdEntities → x ∈ Proto.Enum.dcmiEntities → False := by decide
  -- the fall-back always makes a request for the first DCMI entity
  have hfb : ∃ q ∈ (fallback bmc).1, q.entity ∈ Proto.Enum.dcmiEntities := by
    obtain ⟨l, hl⟩ := sensorMapLoop_first bmc Gen.Facts.ipmi_EntityIDDCMIAirInlet
      [Gen.Facts.ipmi_EntityIDDCMIProcessor, Gen.Facts.ipmi_EntityIDDCMISystemBoard] []
    refine ⟨⟨Gen.Facts.ipmi_EntityIDDCMIAirInlet, 1⟩, ?_, by decide⟩
    unfold fallback sensorMap
    change (sensorMapLoop bmc Proto.Enum.dcmiEntities []).1 = _ at hl
    generalize sensorMapLoop bmc Proto.Enum.dcmiEntities [] = x at hl
    obtain ⟨l2, r2⟩ := x
    simp only [] at hl
    cases r2 <;> simp [hl]
  unfold usesDcmi getSensorInfo sensorMap at *
  generalize sensorMapLoop bmc Proto.Enum.stdEntities [] = x at *
  obtain ⟨l1, r1⟩ := x
  simp only [] at hstdlog hres
  have hnostd : ∀ q ∈ l1, q.entity ∈ Proto.Enum.dcmiEntities → False := fun q hq hd => hdisj _ (hstdlog q hq) hd
  obtain ⟨qf, hqf, hqfe⟩ := hfb
  rcases hres with rfl | ⟨m, rfl⟩
  · simp only []
    constructor
    · intro _; first | exact Or.inl rfl | exact Or.inl trivial
    · intro _; exact ⟨qf, by simp [hqf], hqfe⟩
  · simp only []
    by_cases hc : m.count > 0
    · simp only [hc, if_true]
      constructor
      · rintro ⟨q, hq, hd⟩; exact absurd hd (hnostd q hq)
      · rintro (h | ⟨m', hm', h0⟩)
        · cases h
        · cases hm'; omega
    · simp only [hc, if_false]
      constructor
      · intro _; exact Or.inr ⟨m, rfl, by omega⟩
      · intro _; exact ⟨qf, by simp [hqf], hqfe⟩

/-- both sides of `fallback_iff` occur: a BMC with a sensor under a standard ID; one with none; one that rejects them -/
example : ¬ usesDcmi (DcmiBmc.respond ⟨fun e => if e = 3 then some [7] else some [], 8⟩) := by
  unfold usesDcmi; decide
example : usesDcmi (DcmiBmc.respond ⟨fun e => if e = 0x41 then some [7] else some [], 8⟩) ∧
    (sensorMap (DcmiBmc.respond ⟨fun e => if e = 0x41 then some [7] else some [], 8⟩) Proto.Enum.stdEntities).2
      = .ok [(7, []), (3, []), (0x37, [])] := by
  unfold usesDcmi; decide
example : usesDcmi (DcmiBmc.respond ⟨fun e => if e < 0x40 then none else some [7], 8⟩) ∧
    (sensorMap (DcmiBmc.respond ⟨fun e => if e < 0x40 then none else some [7], 8⟩) Proto.Enum.stdEntities).2 = .err := by
  unfold usesDcmi; decide

/-- The specification's BMC with record IDs under the standard entity IDs: exactly those, per entity, in order. -/
theorem sensorInfo_std (b : DcmiBmc) (hp : 1 ≤ b.pageSize) (i0 i1 i2 : List Nat)
    (h0 : b.ids 0x37 = some i0) (h1 : b.ids 0x03 = some i1) (h2 : b.ids 0x07 = some i2)
    (l0 : i0.length ≤ 255) (l1 : i1.length ≤ 255) (l2 : i2.length ≤ 255) (hpos : 0 < i0.length + i1.length + i2.length) :
    (getSensorInfo b.respond).2 = .ok ⟨i0, i1, i2⟩ := by
  obtain ⟨l, hl⟩ := sensorMap_spec3 b hp 0x37 0x03 0x07 (by decide) (by decide) (by decide) i0 i1 i2 h0 h1 h2 l0 l1 l2
  obtain ⟨g0, g1, g2, gc⟩ := get3 0x37 0x03 0x07 (by decide) (by decide) (by decide) i0 i1 i2
  have hc : SMap.count [(0x07, i2), (0x03, i1), (0x37, i0)] > 0 := by omega
  unfold getSensorInfo
  rw [entities_eq.1, hl]
  simp only [hc, if_true, pick]
  simp [g0, g1, g2]

/-- … with nothing under the standard entity IDs (none of the three has an instance, or the BMC rejects one of them) and
    record IDs under the DCMI-specific ones: exactly those. -/
theorem sensorInfo_dcmi (b : DcmiBmc) (hp : 1 ≤ b.pageSize) (hlen : ∀ e ids, b.ids e = some ids → ids.length ≤ 255)
    (hstd : (∃ e ∈ Proto.Enum.stdEntities, b.ids e = none) ∨ (∀ e ∈ Proto.Enum.stdEntities, b.ids e = some []))
    (i0 i1 i2 : List Nat) (h0 : b.ids 0x40 = some i0) (h1 : b.ids 0x41 = some i1) (h2 : b.ids 0x42 = some i2) :
    (getSensorInfo b.respond).2 = .ok ⟨i0, i1, i2⟩ := by
  obtain ⟨l, hl⟩ := sensorMap_spec3 b hp 0x40 0x41 0x42 (by decide) (by decide) (by decide) i0 i1 i2 h0 h1 h2
    (hlen _ _ h0) (hlen _ _ h1) (hlen _ _ h2)
  obtain ⟨g0, g1, g2, _⟩ := get3 0x40 0x41 0x42 (by decide) (by decide) (by decide) i0 i1 i2
  have hfb : (fallback b.respond).2 = .ok ⟨i0, i1, i2⟩ := by
    unfold fallback
    rw [entities_eq.2.1, hl]
    simp [pick, g0, g1, g2]
  unfold getSensorInfo
  rcases hstd with hrej | hempty
  · have := sensorMapLoop_reject b hp hlen Proto.Enum.stdEntities [] hrej
    unfold sensorMap
    generalize sensorMapLoop b.respond Proto.Enum.stdEntities [] = x at this
    obtain ⟨l1, r1⟩ := x
    simp only [] at this
    rw [this]
    simpa using hfb
  · have e0 := hempty 0x37 (by decide)
    have e1 := hempty 0x03 (by decide)
    have e2 := hempty 0x07 (by decide)
    obtain ⟨ls, hls⟩ := sensorMap_spec3 b hp 0x37 0x03 0x07 (by decide) (by decide) (by decide) [] [] [] e0 e1 e2
      (by simp) (by simp) (by simp)
    rw [entities_eq.1, hls]
    have : ¬ (SMap.count [(0x07, ([] : List Nat)), (0x03, []), (0x37, [])] > 0) := by decide
    simp only [this, if_false]
    simpa using hfb

/-- … and when a DCMI-specific entity ID is rejected as well, the call is an error -/
theorem sensorInfo_err (b : DcmiBmc) (hp : 1 ≤ b.pageSize) (hlen : ∀ e ids, b.ids e = some ids → ids.length ≤ 255)
    (hstd : ∃ e ∈ Proto.Enum.stdEntities, b.ids e = none) (hdc : ∃ e ∈ Proto.Enum.dcmiEntities, b.ids e = none) :
    (getSensorInfo b.respond).2 = .err := by
  have h1 := sensorMapLoop_reject b hp hlen Proto.Enum.stdEntities [] hstd
  have h2 := sensorMapLoop_reject b hp hlen Proto.Enum.dcmiEntities [] hdc
  unfold getSensorInfo fallback sensorMap
  generalize sensorMapLoop b.respond Proto.Enum.stdEntities [] = x at h1
  generalize sensorMapLoop b.respond Proto.Enum.dcmiEntities [] = y at h2
  obtain ⟨l1, r1⟩ := x
  obtain ⟨l2, r2⟩ := y
  simp only [] at h1 h2
  rw [h1, h2]

example : (getSensorInfo (DcmiBmc.respond ⟨fun e => if e = 3 then some (List.range 20) else if e < 0x40 then some [] else some [9], 8⟩)).2
    = .ok ⟨[], List.range 20, []⟩ := by decide
example : (getSensorInfo (DcmiBmc.respond ⟨fun e => if e = 7 then none else if e = 0x42 then some (List.range 9) else some [], 4⟩))
    = ([⟨0x37, 1⟩, ⟨3, 1⟩, ⟨7, 1⟩, ⟨0x40, 1⟩, ⟨0x41, 1⟩, ⟨0x42, 1⟩, ⟨0x42, 5⟩, ⟨0x42, 9⟩], .ok ⟨[], [], List.range 9⟩) := by decide

end Bmc.Proofs.C16
