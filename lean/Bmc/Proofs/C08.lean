import Bmc.Lemmas.MessageRoundTrip
import Bmc.Lemmas.V2RoundTrip
import Bmc.Lemmas.V2RoundTripAuth
import Bmc.Lemmas.V1RoundTrip
import Bmc.Lemmas.Rakp1RoundTrip
import Bmc.Lemmas.AesRoundTrip
import Bmc.Crypto.Toy
/-! # C08 — serialise-then-decode is the identity for the two-way layers (property theorems only) -/
namespace Bmc.Proofs.C08
open Bmc Bmc.Wire Bmc.Crypto

/-- IPMI message, every NetFn class (plain, group extension with body code, OEM with enterprise number; request and
    response), every payload of every length: decoding the serialisation returns the same fields (with the two
    checksums the serialiser computed) and the payload -/
theorem message_roundtrip (m : Message) (data : Bytes) (h : m.WF) :
    Message.decode 8 (Message.encode m data).2 =
      .ok { (Message.encode m data).1 with
            contents := (Message.encode m data).2.take ((Message.encode m data).2.length - 1 - data.length)
            payload := data } :=
  Message.decode_encode m data h

/-- … and serialising the decoded value again reproduces the same bytes -/
theorem message_reencode (m : Message) (data c p : Bytes) :
    (Message.encode { (Message.encode m data).1 with contents := c, payload := p } data).2 = (Message.encode m data).2 := rfl

example : ({ function := 0x2d, body := 0xdc, command := 2, remoteAddress := 0x81, localAddress := 0x20, sequence := 1,
             completionCode := 0xc1 } : Message).WF :=
  ⟨by decide, by decide, by decide, by decide, by decide, by decide, by decide, by decide⟩

/-- v2.0 session wrapper, with and without the authenticated trailer (integrity pad of 0xFF bytes, pad length, next
    header, AuthCode), with and without the OEM payload descriptor, for EVERY integrity function `mac` (any output of
    any length, so every algorithm and key), every payload length < 65536: decoding the serialisation returns the same
    fields (with the `Length`, `Pad` and `Signature` the serialiser computed) and the inner payload -/
theorem v2_roundtrip (mac : Bytes → Bytes) (s : V2Session) (inner : Bytes) (h : s.WF inner) :
    V2Session.decode mac (V2Session.encode mac s inner).2 =
      .ok { (V2Session.encode mac s inner).1 with
            contents := (V2Session.encode mac s inner).2.take (if s.payloadType == 2 then 18 else 12)
            payload := inner } :=
  V2Session.decode_encode mac s inner h

/-- … and serialising the decoded value over the decoded payload reproduces the same bytes -/
theorem v2_reencode (mac : Bytes → Bytes) (s : V2Session) (inner : Bytes) (h : s.WF inner) (d : V2Session)
    (hd : V2Session.decode mac (V2Session.encode mac s inner).2 = .ok d) :
    (V2Session.encode mac d d.payload).2 = (V2Session.encode mac s inner).2 := by
  rw [V2Session.decode_encode mac s inner h] at hd
  injection hd with hd
  subst hd
  exact V2Session.reencode mac s inner _ _

/-- the hypotheses are satisfiable: an unauthenticated and an authenticated, encrypted OEM-descriptor value -/
example : ({ payloadType := 2, enterprise := 0x1234, payloadID := 7, id := 5, sequence := 9 } : V2Session).WF [1, 2, 3] :=
  ⟨by decide, by decide, by decide, by decide, by decide, by decide, by decide, by decide⟩

example : ({ payloadType := 2, enterprise := 0x1234, payloadID := 7, id := 5, sequence := 9, authenticated := true,
             encrypted := true } : V2Session).WF [1, 2, 3] :=
  ⟨by decide, by decide, by decide, by decide, by decide, by decide, by decide, by decide⟩

/-- v1.5 session wrapper, both forms (authentication type none: 10-byte header; any other type: 26 bytes with the
    16-byte AuthCode), every payload: decoding the serialisation returns the same fields (with the `Length` the
    serialiser computed) and the inner payload. (`V1Session.decode` is the decoder with the AuthCode reset of finding
    F12b, which /repo now has.) -/
theorem v1_roundtrip (s : V1Session) (inner : Bytes) (h : s.WF) :
    V1Session.decode (V1Session.encode s inner).2 =
      .ok { (V1Session.encode s inner).1 with
            contents := (V1Session.encode s inner).2.take (if s.authType == 0 then 10 else 26)
            payload := inner } :=
  V1Session.decode_encode s inner h

/-- the `Length` byte is the payload length for every payload shorter than 256 bytes (beyond that `uint8(len)` wraps,
    and the round trip above still holds) -/
theorem v1_length (s : V1Session) (inner : Bytes) (h : inner.length < 256) :
    (V1Session.encode s inner).1.length.toNat = inner.length :=
  V1Session.encode_length s inner h

theorem v1_reencode (s : V1Session) (inner : Bytes) (h : s.WF) (d : V1Session)
    (hd : V1Session.decode (V1Session.encode s inner).2 = .ok d) :
    (V1Session.encode d d.payload).2 = (V1Session.encode s inner).2 := by
  rw [V1Session.decode_encode s inner h] at hd
  injection hd with hd
  subst hd
  exact V1Session.reencode s inner _ _

example : ({ sequence := 0xfffffffe, id := 0x01020304 } : V1Session).WF := ⟨by decide, by decide, by decide, by decide⟩
example : ({ authType := 2, sequence := 7, id := 0xa0a1a2a3, authCode := (List.range 16).map UInt8.ofNat } : V1Session).WF :=
  ⟨by decide, by decide, by decide, by decide⟩

/-- RAKP Message 1, every tag, session ID, console random, role (lookup flag and privilege nibble) and user name of
    0…16 bytes: the serialiser succeeds with 28 + |user name| bytes, and decoding them returns the same value
    (`Contents` = the whole message; the layer has no inner payload) -/
theorem rakp1_roundtrip (v : Setup.RAKP1) (h : v.WF) :
    ∃ b, v.serialize = .ok b ∧ b.length = 28 + v.username.length ∧
      Setup.RAKP1.decode b = .ok { v with contents := b } :=
  Setup.RAKP1.decode_serialize v h

/-- a user name longer than 16 bytes is refused by the serialiser -/
theorem rakp1_toolong (v : Setup.RAKP1) (h : 16 < v.username.length) : v.serialize = .error () :=
  Setup.RAKP1.serialize_toolong v h

theorem rakp1_reencode (v : Setup.RAKP1) (h : v.WF) (b : Bytes) (hb : v.serialize = .ok b) (d : Setup.RAKP1)
    (hd : Setup.RAKP1.decode b = .ok d) : d.serialize = .ok b := by
  obtain ⟨b', hb', _, hdec⟩ := Setup.RAKP1.decode_serialize v h
  rw [hb] at hb'
  injection hb' with hb'
  subst hb'
  rw [hdec] at hd
  injection hd with hd
  subst hd
  exact (Setup.RAKP1.reserialize v b).trans hb

example : ({ tag := 3, bmcSID := 0x04030201, consoleRandom := (List.range 16).map UInt8.ofNat, lookup := true, maxPriv := 4,
             username := [0x61, 0x64, 0x6d, 0x69, 0x6e] } : Setup.RAKP1).WF := ⟨by decide, by decide, by decide, by decide⟩

/-- AES-128-CBC confidentiality layer: for every lawful block cipher, key, 16-byte IV and message of EVERY length,
    decoding the serialisation returns the IV and the message -/
theorem aes_roundtrip (C : Ops) (hC : C.Lawful) (key iv msg : Bytes) (hiv : iv.length = 16) :
    AESLayer.decode C key (AESLayer.encode C key iv msg) = .ok { contents := iv, payload := msg } :=
  AESLayer.decode_encode C hC key iv msg hiv

/-- the lawfulness hypothesis is satisfiable -/
example : toy.Lawful := toy_lawful

end Bmc.Proofs.C08
