import Bmc.Lemmas.MessageRoundTrip
import Bmc.Lemmas.V2RoundTrip
import Bmc.Lemmas.AesRoundTrip
import Bmc.Crypto.Toy
/-! # C08 — serialise-then-decode is the identity for the two-way layers (property theorems only) -/
namespace Bmc.Proofs.C08
open Bmc Bmc.Wire Bmc.Crypto

/-- IPMI message, every NetFn class (plain, group extension with body code, OEM with enterprise number; request and
    response), every payload of every length: decoding the serialisation returns the same fields (with the two
    checksums the serialiser computed) and the payload -/
theorem message_roundtrip (m : Message) (data : Bytes) (h : m.WF) :
    Message.decode 8 (Message.encode m data).2 =
      .ok { (Message.encode m data).1 with
            contents := (Message.encode m data).2.take ((Message.encode m data).2.length - 1 - data.length)
            payload := data } :=
  Message.decode_encode m data h

/-- … and serialising the decoded value again reproduces the same bytes -/
theorem message_reencode (m : Message) (data c p : Bytes) :
    (Message.encode { (Message.encode m data).1 with contents := c, payload := p } data).2 = (Message.encode m data).2 := rfl

example : ({ function := 0x2d, body := 0xdc, command := 2, remoteAddress := 0x81, localAddress := 0x20, sequence := 1,
             completionCode := 0xc1 } : Message).WF :=
  ⟨by decide, by decide, by decide, by decide, by decide, by decide, by decide, by decide⟩

/-- v2.0 session wrapper without the authenticated trailer (session-less traffic and RMCP+ setup payloads), with and
    without the OEM payload descriptor, every payload length < 65536.
    PARTIAL: the authenticated trailer (0xFF pad scan, pad length, next header, AuthCode) is covered by the
    correspondence run (`rt v2`, all integrity algorithms, payload lengths 0…200/480) but its Lean round-trip theorem
    is not proved yet. -/
theorem v2_roundtrip_partial (mac : Bytes → Bytes) (s : V2Session) (inner : Bytes) (h : s.WF inner)
    (hu : s.authenticated = false) :
    V2Session.decode mac (V2Session.encode mac s inner).2 =
      .ok { (V2Session.encode mac s inner).1 with
            contents := (V2Session.encode mac s inner).2.take (if s.payloadType == 2 then 18 else 12)
            payload := inner } :=
  V2Session.decode_encode_unauth mac s inner h hu

example : ({ payloadType := 2, enterprise := 0x1234, payloadID := 7, id := 5, sequence := 9 } : V2Session).WF [1, 2, 3] :=
  ⟨by decide, by decide, by decide, by decide, by decide, by decide, by decide, by decide⟩

/-- AES-128-CBC confidentiality layer: for every lawful block cipher, key, 16-byte IV and message of EVERY length,
    decoding the serialisation returns the IV and the message -/
theorem aes_roundtrip (C : Ops) (hC : C.Lawful) (key iv msg : Bytes) (hiv : iv.length = 16) :
    AESLayer.decode C key (AESLayer.encode C key iv msg) = .ok { contents := iv, payload := msg } :=
  AESLayer.decode_encode C hC key iv msg hiv

/-- the lawfulness hypothesis is satisfiable -/
example : toy.Lawful := toy_lawful

end Bmc.Proofs.C08
