import Bmc.Lemmas.MessageRefine
import Bmc.Lemmas.V2Refine
import Bmc.Lemmas.AesRefine
import Bmc.Lemmas.SessionLaws
/-! # C05 (core layers and the receive path): message, v2.0 wrapper, AES layer; the decoding chain of an
    in-session reply; the whole in-session command — for every byte string, no panic and no over-read -/
namespace Bmc.Proofs.C05
open Bmc Bmc.Wire Bmc.Crypto Bmc.Proto

theorem ofExcept_safe {α ε : Type} (e : Except ε α) : (R.ofExcept e).bad = false := by cases e <;> rfl

/-- IPMI message: every receiver state, every Go slice -/
theorem message_total (prev : Message) (d : GoSlice) :
    Message.decodeGo 8 prev d = R.ofExcept (Message.decode 8 d.vis) := Message.decodeGo_refines prev d
theorem message_safe (prev : Message) (d : GoSlice) : (Message.decodeGo 8 prev d).bad = false := by
  rw [message_total]; exact ofExcept_safe _

/-- v2.0 session wrapper, for any integrity function (incl. none) -/
theorem v2_total (mac : Bytes → Bytes) (prev : V2Session) (d : GoSlice) :
    V2Session.decodeGo mac prev d = R.ofExcept (V2Session.decode mac d.vis) := V2Session.decodeGo_refines mac prev d
theorem v2_safe (mac : Bytes → Bytes) (prev : V2Session) (d : GoSlice) : (V2Session.decodeGo mac prev d).bad = false := by
  rw [v2_total]; exact ofExcept_safe _

/-- AES-128-CBC layer: for every lawful block cipher and key, and EVERY plaintext the ciphertext may decrypt to —
    "a party that knows the session keys" -/
theorem aes_total (C : Ops) (hC : C.Lawful) (key : Bytes) (prev : AESLayer) (d : GoSlice) :
    AESLayer.decodeGo C key true prev d = R.ofExcept (AESLayer.decode C key d.vis) :=
  AESLayer.decodeGo_refines C hC key prev d
theorem aes_safe (C : Ops) (hC : C.Lawful) (key : Bytes) (prev : AESLayer) (d : GoSlice) :
    (AESLayer.decodeGo C key true prev d).bad = false := by
  rw [aes_total C hC]; exact ofExcept_safe _

theorem rmcp_safe (prev : RMCP) (d : GoSlice) : (RMCP.decodeGo prev d).bad = false := by
  unfold RMCP.decodeGo
  split
  · rfl
  · simp (disch := omega) only [GoSlice.idx_ok, GoSlice.sliceFrom_ok, R.bind_ok, R.pure_eq]; rfl

/-- the whole decoding chain of a reply delivered inside a session (RMCP → selector → session wrapper →
    confidentiality layer → message) never crashes, whatever the datagram -/
theorem decodeChain_total (C : Ops) (hC : C.Lawful) (s : Sess) (d : GoSlice) : (onReply C s d).2 ≠ .crash := by
  have hm : ∀ (s : Sess) (mi : GoSlice), (onMessage s mi).2 ≠ .crash := by
    intro s mi
    unfold onMessage
    have := message_safe s.msg mi
    split
    · simp
    · split <;> simp_all [R.bad]
  have hw : ∀ (s : Sess) (v : V2Session), (onWrapper C s v).2 ≠ .crash := by
    intro s v
    unfold onWrapper
    have := aes_safe C hC s.k2 {} (GoSlice.ofBytes v.payload)
    repeat' split
    all_goals first | exact hm _ _ | simp_all [R.bad]
  have h1 : RMCP.decodeGo s.rmcp d ≠ R.panic ∧ RMCP.decodeGo s.rmcp d ≠ R.overread := by
    have := rmcp_safe s.rmcp d
    constructor <;> (intro h; rw [h] at this; cases this)
  have h2 : ∀ p, V2Session.decodeGo (integMac C s.integ s.k1) s.v2 p ≠ R.panic ∧
      V2Session.decodeGo (integMac C s.integ s.k1) s.v2 p ≠ R.overread := by
    intro p
    have := v2_safe (integMac C s.integ s.k1) s.v2 p
    constructor <;> (intro h; rw [h] at this; cases this)
  unfold onReply
  repeat' split
  all_goals first | exact hw _ _ | simp_all

/-- an in-session command returns a value or an error for EVERY reply script of every length -/
theorem call_total (C : Ops) (hC : C.Lawful) (c : Cmd) (s : Sess) (ivs : List Bytes) (script : List Outcome) :
    (sendLoop C c s ivs script).2.2 ≠ .crashed := by
  induction script generalizing s ivs with
  | nil => simp [sendLoop]
  | cons o rest ih =>
    cases ivs with
    | nil => simp [sendLoop]
    | cons iv ivs =>
      unfold sendLoop
      split
      · simp
      · cases o with
        | lost => simp
        | reply d =>
          simp only []
          have hc := decodeChain_total C hC (attempt C (initLayers s c) c iv).1 (GoSlice.ofBytes d)
          split
          · rename_i heq; rw [heq] at hc; exact absurd rfl hc
          · split
            · simp
            · exact ih _ _
          · exact ih _ _

end Bmc.Proofs.C05
