import Bmc.Wire.DeviceID
import Bmc.Wire.Chassis
/-! # C05: no panic, no out-of-range slice, no dependence on memory beyond the datagram — per layer -/
namespace Bmc.Proofs.C05
open Bmc Bmc.Wire

/-- Get Device ID: for every receiver state and every Go slice (any capacity, any bytes beyond its length) the
    decoder returns a value or an error, and the value is a function of the visible bytes only -/
theorem deviceID_total (prev : GetDeviceIDRsp) (d : GoSlice) :
    GetDeviceIDRsp.decodeGo true prev d = R.ofExcept (GetDeviceIDRsp.decode d.vis) :=
  GetDeviceIDRsp.decodeGo_refines prev d

theorem deviceID_safe (prev : GetDeviceIDRsp) (d : GoSlice) : (GetDeviceIDRsp.decodeGo true prev d).bad = false := by
  rw [deviceID_total]; cases GetDeviceIDRsp.decode d.vis <;> rfl

theorem chassis_total (prev : GetChassisStatusRsp) (d : GoSlice) :
    GetChassisStatusRsp.decodeGo true prev d = GetChassisStatusRsp.decode d.vis ∧
    (GetChassisStatusRsp.decodeGo true prev d).bad = false :=
  GetChassisStatusRsp.decodeGo_canon prev d

end Bmc.Proofs.C05
