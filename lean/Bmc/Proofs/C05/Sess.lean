import Bmc.Wire.Simple
import Bmc.Lemmas.SessRefine
/-! # C05 (session-setup responses): for every receiver state and every Go slice (any capacity, any bytes beyond its
    length) the decoder returns a value or an error — never a panic, never an over-read — and the outcome is a
    function of the visible bytes only -/
namespace Bmc.Proofs.C05
open Bmc Bmc.Wire

theorem authCaps_total (prev : AuthCapsRsp) (d : GoSlice) :
    AuthCapsRsp.decodeGo prev d = AuthCapsRsp.decode d.vis ∧ (AuthCapsRsp.decodeGo prev d).bad = false :=
  AuthCapsRsp.decodeGo_canon prev d

theorem cipherSuites_total (prev : CipherSuitesRsp) (d : GoSlice) :
    CipherSuitesRsp.decodeGo prev d = CipherSuitesRsp.decode d.vis ∧ (CipherSuitesRsp.decodeGo prev d).bad = false :=
  CipherSuitesRsp.decodeGo_canon prev d

theorem setPriv_total (prev : SetPrivRsp) (d : GoSlice) :
    SetPrivRsp.decodeGo prev d = SetPrivRsp.decode d.vis ∧ (SetPrivRsp.decodeGo prev d).bad = false :=
  SetPrivRsp.decodeGo_canon prev d

theorem guid_total (prev : GUIDRsp) (d : GoSlice) :
    GUIDRsp.decodeGo prev d = GUIDRsp.decode d.vis ∧ (GUIDRsp.decodeGo prev d).bad = false :=
  GUIDRsp.decodeGo_canon prev d

theorem sessionInfo_total (prev : SessionInfoRsp) (d : GoSlice) :
    SessionInfoRsp.decodeGo prev d = SessionInfoRsp.decode d.vis ∧ (SessionInfoRsp.decodeGo prev d).bad = false :=
  SessionInfoRsp.decodeGo_canon prev d

end Bmc.Proofs.C05
