import Bmc.Proofs.C05.Core
import Bmc.Proofs.C05.Setup
import Bmc.Proto.Sessionless
import Bmc.Proto.Handshake
/-! # C05 — totality of the session-less command call and of session establishment (property theorems only)

`Core.call_total` covers in-session commands. Here: a session-less command and the three exchanges of the RAKP
handshake return a value or an error for EVERY reply script of every length — the bytes of any reply, at any position
of the exchange, can never produce the `crashed` outcome (a panic or a slice beyond the received datagram). -/
namespace Bmc.Proofs.C05
open Bmc Bmc.Wire Bmc.Crypto Bmc.Proto

theorem not_bad_cases {α : Type} (r : R α) (h : r.bad = false) : r ≠ .panic ∧ r ≠ .overread := by
  constructor <;> (intro e; rw [e] at h; cases h)

/-- the session-less decoding chain (RMCP → selector → null session wrapper → message) never crashes -/
theorem slChain_total (l : SlLayers) (d : GoSlice) : (slOnReply l d).2 ≠ .crash := by
  have h1 := not_bad_cases _ (rmcp_safe l.rmcp d)
  have h2 : ∀ p, _ := fun p => not_bad_cases _ (v2_safe (fun _ => []) l.v2 p)
  have h3 : ∀ p, _ := fun p => not_bad_cases _ (message_safe l.msg p)
  unfold slOnReply
  repeat' split
  all_goals simp_all

/-- a session-less command returns a value or an error for EVERY reply script -/
theorem sessionless_call_total (c : Cmd) (script : List Outcome) : (slSend c script).2 ≠ .crashed := by
  unfold slSend
  split
  · simp
  · simp only []
    generalize (slSerialize c).1 = l
    generalize (slSerialize c).2 = pkt
    induction script generalizing l with
    | nil => simp [slLoop]
    | cons o rest ih =>
      cases o with
      | lost => simp only [slLoop]; exact ih _
      | reply d =>
        simp only [slLoop]
        have hc := slChain_total l (GoSlice.ofBytes d)
        split
        · rename_i heq; rw [heq] at hc; exact absurd rfl hc
        · split
          · simp
          · exact ih _
        · exact ih _

theorem deserialiseAlg_safe (typ : UInt8) (d : GoSlice) : (deserialiseAlg typ d).bad = false := by
  unfold deserialiseAlg
  split
  · rfl
  · simp (disch := omega) only [GoSlice.idx_ok, R.bind_ok, R.pure_eq]
    repeat' split
    all_goals rfl

theorem bind_safe {α β : Type} (x : R α) (f : α → R β) (hx : x.bad = false) (hf : ∀ a, (f a).bad = false) :
    (x >>= f).bad = false := by
  cases x with
  | ok a => exact hf a
  | err => rfl
  | panic => cases hx
  | overread => cases hx

/-- the Open Session Response decoder of the handshake model (every form: 1-byte, error status, 36-byte success) -/
theorem hsOpenSessionRsp_safe (prev : Wire.OpenSessionRsp) (d : GoSlice) : (Wire.OpenSessionRsp.decodeGo prev d).bad = false := by
  unfold Wire.OpenSessionRsp.decodeGo
  by_cases h1 : d.len = 1
  · have h36 : (d.len != 36) = true := by simp [h1]
    simp (disch := omega) only [h1, h36, beq_self_eq_true, if_true, GoSlice.idx_ok, R.bind_ok, R.pure_eq]
    split <;> rfl
  · have h1' : (d.len == 1) = false := by simpa using h1
    simp only [h1', Bool.false_eq_true, if_false]
    by_cases h7 : d.len < 7
    · simp [h7]; rfl
    · simp (disch := omega) only [h7, if_false, GoSlice.idx_ok, GoSlice.slice_ok, R.bind_ok, R.pure_eq]
      split
      · by_cases h36 : d.len = 36
        · have : (d.len != 36) = false := by simp [h36]
          simp (disch := omega) only [this, Bool.false_eq_true, if_false, GoSlice.idx_ok, GoSlice.slice_ok, R.bind_ok]
          refine bind_safe _ _ (deserialiseAlg_safe _ _) (fun a => ?_)
          refine bind_safe _ _ (deserialiseAlg_safe _ _) (fun b => ?_)
          refine bind_safe _ _ (deserialiseAlg_safe _ _) (fun c => ?_)
          rfl
        · have : (d.len != 36) = true := by simp [h36]
          simp only [this, if_true]; rfl
      · rfl

theorem hsRakp4_safe (prev : Wire.RAKP4) (d : GoSlice) : (Wire.RAKP4.decodeGo prev d).bad = false := by
  unfold Wire.RAKP4.decodeGo
  split
  · rfl
  · simp (disch := omega) only [GoSlice.idx_ok, GoSlice.slice_ok, R.bind_ok, R.pure_eq]
    split
    · rename_i h
      have : 8 ≤ d.len := by omega
      simp (disch := omega) only [GoSlice.sliceFrom_ok, R.bind_ok, R.pure_eq]; rfl
    · rfl

/-- one attempt of a handshake exchange never crashes on any reply -/
def _root_.Bmc.Proto.PayloadReply.isCrash : PayloadReply → Bool | .crash => true | _ => false

theorem payloadReply_total (d : GoSlice) : (payloadReply d).isCrash = false := by
  have h1 := not_bad_cases _ (rmcp_safe {} d)
  have h2 : ∀ p, _ := fun p => not_bad_cases _ (v2_safe (fun _ => []) {} p)
  have h3 : ∀ p, _ := fun p => not_bad_cases _ (message_safe {} p)
  unfold payloadReply
  repeat' split
  all_goals first | rfl | simp_all

theorem exchange_total (script : List Outcome) : (exchange script).2 ≠ some .crash := by
  induction script with
  | nil => simp [exchange]
  | cons o rest ih =>
    cases o with
    | lost => simp only [exchange]; exact ih
    | reply d =>
      simp only [exchange]
      have := payloadReply_total (GoSlice.ofBytes d)
      split
      · exact ih
      · intro h
        simp only [Option.some.injEq] at h
        rw [h] at this
        cases this

theorem exchangePayload_total (script : List Outcome) : exchangePayload script ≠ .error .crashed := by
  have := exchange_total script
  unfold exchangePayload
  split <;> simp_all

/-- SESSION ESTABLISHMENT IS TOTAL: for every credential set, suite, random and EVERY reply script — any bytes, truncated
    at any length, substituted at any of the three exchanges — `newSession` ends with a session, the incorrect-password
    error or an error; never a panic or a read beyond a received datagram -/
theorem handshake_total (C : Ops) (o : Opts) (rm : Bytes) (script : List Outcome) :
    (newSession C o rm script).2 ≠ .crashed := by
  have e := exchangePayload_total
  have hopen : ∀ s, stepOpen o s ≠ .error .crashed := by
    intro s
    have h1 : ∀ p, _ := fun p => not_bad_cases _ (hsOpenSessionRsp_safe {} p)
    have := e s
    unfold stepOpen
    repeat' split
    all_goals simp_all
  have h2 : ∀ osr s, stepRakp2 C o rm osr s ≠ .error .crashed := by
    intro osr s
    have h1 : ∀ p, _ := fun p => not_bad_cases _ (rakp2_safe {} p)
    have := e s
    unfold stepRakp2
    repeat' split
    all_goals simp_all
  have h4 : ∀ osr rk2 h s, stepRakp4 C o rm osr rk2 h s ≠ .error .crashed ∧ stepRakp4 C o rm osr rk2 h s ≠ .ok .crashed := by
    intro osr rk2 h s
    have h1 : ∀ p, _ := fun p => not_bad_cases _ (hsRakp4_safe {} p)
    have := e s
    unfold stepRakp4
    repeat' split
    all_goals first | (constructor <;> simp_all; done) | (constructor <;> (intro hh; cases hh)) | simp_all
    all_goals (constructor <;> split <;> simp)
  unfold newSession
  simp only []
  split
  · rename_i e1 he; intro hh; simp only at hh; subst hh; exact hopen _ he
  · split
    · simp
    · split
      · rename_i e2 he; intro hh; simp only at hh; subst hh; exact h2 _ _ he
      · split
        · rename_i e3 he; intro hh; simp only at hh; subst hh; exact (h4 _ _ _ _).1 he
        · rename_i r he; intro hh; simp only at hh; subst hh; exact (h4 _ _ _ _).2 he

end Bmc.Proofs.C05
