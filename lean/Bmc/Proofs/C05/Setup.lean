import Bmc.Lemmas.SetupOpenRefine
import Bmc.Lemmas.SetupRakp1Refine
import Bmc.Lemmas.Rakp2Refine
import Bmc.Lemmas.V1Refine
import Bmc.Wire.Rakp4
import Bmc.Wire.Selector
import Bmc.Lemmas.SetupBits
/-! # C05 (session-setup layers): for every receiver state and every Go slice (any capacity, any bytes beyond its
    length) the decoder returns a value or an error — never a panic, never a read beyond `len` — and the outcome
    is a function of the visible bytes only.
    RAKP Message 2 and the v1.5 session header are proved for their REPAIRED variants (`guard40 = true`,
    `resetAuthCode = true`); the pinned tree's RAKP Message 2 does panic / over-read, see `Wire/Rakp2.lean`. -/
namespace Bmc.Proofs.C05
open Bmc Bmc.Wire Bmc.Lemmas.Setup

theorem openSessionRsp_total (prev : Setup.OpenSessionRsp) (d : GoSlice) :
    Setup.OpenSessionRsp.decodeGo prev d = R.ofExcept (Setup.OpenSessionRsp.decode d.vis) :=
  Setup.OpenSessionRsp.decodeGo_refines prev d
theorem openSessionRsp_safe (prev : Setup.OpenSessionRsp) (d : GoSlice) :
    (Setup.OpenSessionRsp.decodeGo prev d).bad = false := by rw [openSessionRsp_total]; exact ofExcept_safe _

theorem rakp1_total (prev : Setup.RAKP1) (d : GoSlice) :
    Setup.RAKP1.decodeGo prev d = R.ofExcept (Setup.RAKP1.decode d.vis) := Setup.RAKP1.decodeGo_refines prev d
theorem rakp1_safe (prev : Setup.RAKP1) (d : GoSlice) : (Setup.RAKP1.decodeGo prev d).bad = false := by
  rw [rakp1_total]; exact ofExcept_safe _

theorem rakp2_total (prev : RAKP2) (d : GoSlice) : RAKP2.decodeGo true prev d = R.ofExcept (RAKP2.decode d.vis) :=
  RAKP2.decodeGo_refines prev d
theorem rakp2_safe (prev : RAKP2) (d : GoSlice) : (RAKP2.decodeGo true prev d).bad = false := by
  rw [rakp2_total]; exact ofExcept_safe _

theorem rakp4_total (prev : Setup.RAKP4) (d : GoSlice) :
    Setup.RAKP4.decodeGo prev d = R.ofExcept (Setup.RAKP4.decode d.vis) := Setup.RAKP4.decodeGo_refines prev d
theorem rakp4_safe (prev : Setup.RAKP4) (d : GoSlice) : (Setup.RAKP4.decodeGo prev d).bad = false := by
  rw [rakp4_total]; exact ofExcept_safe _

theorem selector_total (prev : Setup.Selector) (d : GoSlice) :
    Setup.Selector.decodeGo prev d = R.ofExcept (Setup.Selector.decode d.vis) := Setup.Selector.decodeGo_refines prev d
theorem selector_safe (prev : Setup.Selector) (d : GoSlice) : (Setup.Selector.decodeGo prev d).bad = false := by
  rw [selector_total]; exact ofExcept_safe _

theorem v1_total (prev : V1Session) (d : GoSlice) :
    V1Session.decodeGo true prev d = R.ofExcept (V1Session.decode d.vis) := V1Session.decodeGo_refines prev d
theorem v1_safe (prev : V1Session) (d : GoSlice) : (V1Session.decodeGo true prev d).bad = false := by
  rw [v1_total]; exact ofExcept_safe _

/-- PINNED TREE: RAKP Message 2 with status 00 and 8 ≤ len < 40 panics on an exact-capacity slice and reads
    beyond the datagram inside a window of the receive buffer -/
example : (RAKP2.decodeGo false {} (GoSlice.ofBytes [1, 0, 0, 0, 4, 3, 2, 1])).bad = true ∧
    RAKP2.decodeGo false {} (GoSlice.ofBytes [1, 0, 0, 0, 4, 3, 2, 1]) = R.panic ∧
    RAKP2.decodeGo false {} (GoSlice.window [1, 0, 0, 0, 4, 3, 2, 1] (List.replicate 48 0xEE)) = R.overread := by
  decide

end Bmc.Proofs.C05
