import Bmc.Wire.Simple
import Bmc.Lemmas.SdrRefine
/-! # C05 (SDR group): no panic, no out-of-range slice, no dependence on memory beyond the datagram — per layer.
    Each statement is for every receiver state and every Go slice (any capacity, any bytes beyond its length). -/
namespace Bmc.Proofs.C05
open Bmc Bmc.Wire Bmc.Lemmas.Sdr

theorem sdrRepoInfo_total (prev : SDRRepoInfoRsp) (d : GoSlice) :
    SDRRepoInfoRsp.decodeGo prev d = SDRRepoInfoRsp.decode d.vis ∧ (SDRRepoInfoRsp.decodeGo prev d).bad = false :=
  SDRRepoInfoRsp.decodeGo_canon prev d

theorem reserveSDR_total (prev : ReserveRsp) (d : GoSlice) :
    ReserveRsp.decodeGo prev d = ReserveRsp.decode d.vis ∧ (ReserveRsp.decodeGo prev d).bad = false :=
  ReserveRsp.decodeGo_canon prev d

theorem getSDR_total (prev : GetSDRRsp) (d : GoSlice) :
    GetSDRRsp.decodeGo prev d = GetSDRRsp.decode d.vis ∧ (GetSDRRsp.decodeGo prev d).bad = false :=
  GetSDRRsp.decodeGo_canon prev d

theorem sdrHeader_total (prev : SDRHeader) (d : GoSlice) :
    SDRHeader.decodeGo prev d = SDRHeader.decode d.vis ∧ (SDRHeader.decodeGo prev d).bad = false :=
  SDRHeader.decodeGo_canon prev d

theorem sensorReading_total (prev : SensorReadingRsp) (d : GoSlice) :
    SensorReadingRsp.decodeGo prev d = SensorReadingRsp.decode d.vis ∧ (SensorReadingRsp.decodeGo prev d).bad = false :=
  SensorReadingRsp.decodeGo_canon prev d

/-- the ID string decoders, for EVERY value of the encoding byte, every data and every character count (also counts
    the 5-bit field cannot hold): an error or a value that is a function of the visible bytes -/
theorem idString_total (enc : UInt8) (d : GoSlice) (c : Nat) : idDecoder enc d c = R.ofOption (idPure enc d.vis c) :=
  idDecoder_pure enc d c

theorem idString_safe (enc : UInt8) (d : GoSlice) (c : Nat) : (idDecoder enc d c).bad = false := by
  rw [idString_total]; cases idPure enc d.vis c <;> rfl

/-- Full Sensor Record, including the slice expressions `data[:43+consumed]` / `data[43+consumed:]` whose bound comes
    from the string decoder -/
theorem fullSensor_total (prev : FullSensorRecord) (d : GoSlice) :
    FullSensorRecord.decodeGo prev d = R.ofExcept (FullSensorRecord.decode d.vis) :=
  FullSensorRecord.decodeGo_refines prev d

theorem fullSensor_safe (prev : FullSensorRecord) (d : GoSlice) : (FullSensorRecord.decodeGo prev d).bad = false := by
  rw [fullSensor_total]; cases FullSensorRecord.decode d.vis <;> rfl

end Bmc.Proofs.C05
