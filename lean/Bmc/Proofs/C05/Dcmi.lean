import Bmc.Lemmas.DcmiRefine
/-! # C05 (pkg/dcmi): no panic, no out-of-range slice, no dependence on memory beyond the datagram — per layer.

For every receiver state and every Go slice (any capacity, any bytes beyond its length) each decoder returns a value
or an error, and that outcome is a function of the visible bytes only. -/
namespace Bmc.Proofs.C05
open Bmc Bmc.Wire

theorem dcmiCap1_total (prev : DcmiCap1) (d : GoSlice) :
    DcmiCap1.decodeGo prev d = R.ofExcept (DcmiCap1.decode d.vis) := DcmiCap1.decodeGo_refines prev d
theorem dcmiCap1_safe (prev : DcmiCap1) (d : GoSlice) : (DcmiCap1.decodeGo prev d).bad = false := by
  rw [dcmiCap1_total]; exact ofExcept_safe _

theorem dcmiCap2_total (prev : DcmiCap2) (d : GoSlice) :
    DcmiCap2.decodeGo prev d = R.ofExcept (DcmiCap2.decode d.vis) := DcmiCap2.decodeGo_refines prev d
theorem dcmiCap2_safe (prev : DcmiCap2) (d : GoSlice) : (DcmiCap2.decodeGo prev d).bad = false := by
  rw [dcmiCap2_total]; exact ofExcept_safe _

theorem dcmiCap3_total (prev : DcmiCap3) (d : GoSlice) :
    DcmiCap3.decodeGo prev d = R.ofExcept (DcmiCap3.decode d.vis) := DcmiCap3.decodeGo_refines prev d
theorem dcmiCap3_safe (prev : DcmiCap3) (d : GoSlice) : (DcmiCap3.decodeGo prev d).bad = false := by
  rw [dcmiCap3_total]; exact ofExcept_safe _

theorem dcmiCap4_total (prev : DcmiCap4) (d : GoSlice) :
    DcmiCap4.decodeGo prev d = R.ofExcept (DcmiCap4.decode d.vis) := DcmiCap4.decodeGo_refines prev d
theorem dcmiCap4_safe (prev : DcmiCap4) (d : GoSlice) : (DcmiCap4.decodeGo prev d).bad = false := by
  rw [dcmiCap4_total]; exact ofExcept_safe _

/-- parameter 5: the count byte never makes the loop index past `len`, whatever lies beyond it -/
theorem dcmiCap5_total (prev : DcmiCap5) (d : GoSlice) :
    DcmiCap5.decodeGo prev d = R.ofExcept (DcmiCap5.decode d.vis) := DcmiCap5.decodeGo_refines prev d
theorem dcmiCap5_safe (prev : DcmiCap5) (d : GoSlice) : (DcmiCap5.decodeGo prev d).bad = false := by
  rw [dcmiCap5_total]; exact ofExcept_safe _

theorem powerReading_total (prev : PowerReading) (d : GoSlice) :
    PowerReading.decodeGo prev d = R.ofExcept (PowerReading.decode d.vis) := PowerReading.decodeGo_refines prev d
theorem powerReading_safe (prev : PowerReading) (d : GoSlice) : (PowerReading.decodeGo prev d).bad = false := by
  rw [powerReading_total]; exact ofExcept_safe _

/-- Get DCMI Sensor Info: the guard `2 + 2n` keeps every `data[offset:]` and the `Uint16` read inside `len`; what a
    caller sees of the receiver (`view`) is a function of the visible bytes only -/
theorem sensorInfo_total (prev : SensorInfo) (d : GoSlice) :
    (SensorInfo.decodeGo prev d).map SensorInfo.view = R.ofExcept (SensorInfoView.decode d.vis) :=
  SensorInfo.decodeGo_refines prev d
theorem sensorInfo_safe (prev : SensorInfo) (d : GoSlice) : (SensorInfo.decodeGo prev d).bad = false := by
  have h := sensorInfo_total prev d
  have s := ofExcept_safe (SensorInfoView.decode d.vis)
  rw [← h] at s
  cases hr : SensorInfo.decodeGo prev d <;> simp [hr, R.map, R.bad] at s ⊢

end Bmc.Proofs.C05
