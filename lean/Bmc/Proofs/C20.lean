import Bmc.Gen.Prims
import Bmc.Spec.Prim
import Bmc.Prim.Checksum
import Bmc.Lemmas.StringsSpec
import Bmc.Lemmas.Packed6Spec
/-! # C20 — primitive value conversions are correct on their entire domains (property theorems only)

`Bmc.Gen.*` are the Go functions as translated from SSA on this run (tie T2); `Bmc.Prim.*` are the
hand models of the looping functions (tie T3); `Bmc.Spec.*` are the mathematical definitions. -/
namespace Bmc.Proofs.C20
open Bmc Bmc.Gen Bmc.Prim

/-- BCD: high nibble is tens, low nibble is units (wrapping like the uint8 arithmetic) -/
theorem bcd_decode : ∀ b : BitVec 8, (bcdDecode b).toNat = Spec.bcd b.toNat :=
  forall_bv8 (by decide +kernel)

/-- 8-bit one's complement, both zeros map to 0 -/
theorem ones_spec : ∀ b : BitVec 8, (ones b).toInt = Spec.ones8 b.toNat :=
  forall_bv8 (by decide +kernel)

/-- two's complement of the 10-bit fields (M, B, accuracy), from the two big-endian bytes the decoders build -/
theorem twos_10 : ∀ n : Nat, n < 1024 →
    (twos (BitVec.ofNat 8 (n / 256)) (BitVec.ofNat 8 (n % 256)) 10).toInt = Spec.twos 10 n := by
  decide +kernel

/-- two's complement of the 4-bit exponents (K1, K2) -/
theorem twos_4 : ∀ n : Nat, n < 16 → (twos 0 (BitVec.ofNat 8 n) 4).toInt = Spec.twos 4 n := by
  decide +kernel

/-- every width 1…8 in one statement -/
theorem twos_le8 : ∀ bits : Nat, bits < 9 → 1 ≤ bits → ∀ n : Nat, n < 2 ^ bits →
    (twos 0 (BitVec.ofNat 8 n) (BitVec.ofNat 8 bits)).toInt = Spec.twos bits n := by
  decide +kernel

theorem analog_unsigned : ∀ b : BitVec 8, (adfUnsigned b).toInt = b.toNat := forall_bv8 (by decide +kernel)
theorem analog_ones : ∀ b : BitVec 8, (adfOnes b).toInt = Spec.ones8 b.toNat := forall_bv8 (by decide +kernel)
theorem analog_twos : ∀ b : BitVec 8, (adfTwos b).toInt = Spec.twos 8 b.toNat := forall_bv8 (by decide +kernel)

/-- entity instances: system-relative ≤ 0x5f, device-relative 0x60…0x7f, exactly one of the two on the 7-bit domain -/
theorem entity_split : ∀ n : Nat, n < 128 →
    eiSystemRelative (BitVec.ofNat 8 n) = Spec.systemRelative n ∧
    eiDeviceRelative (BitVec.ofNat 8 n) = Spec.deviceRelative n ∧
    (eiSystemRelative (BitVec.ofNat 8 n) != eiDeviceRelative (BitVec.ofNat 8 n)) = true := by
  decide +kernel

/-- the classification is also right on the reserved upper half of the byte -/
theorem entity_all : ∀ b : BitVec 8,
    eiSystemRelative b = Spec.systemRelative b.toNat ∧ eiDeviceRelative b = Spec.deviceRelative b.toNat :=
  forall_bv8 (by decide +kernel)

/-- rolling-average byte → duration in ns: (b & 63) units of s / min / h / d -/
theorem rolling_duration : ∀ b : BitVec 8, (rollingAvgPeriodDuration b).toNat = Spec.rollingDurationNs b.toNat :=
  forall_bv8 (by decide +kernel)

/-- duration → byte, for EVERY whole number of seconds (not only up to 64 days) -/
theorem rolling_byte (secs : Nat) : rollingByteGo secs = Spec.rollingByte secs := rollingByteGo_spec secs

/-- the byte chosen for a duration stands for a duration not above it and less than one unit below it
    (up to the 63-day clamp) -/
theorem rolling_byte_floor (secs : Nat) (h : secs < 64 * 86400) :
    Spec.rollingDurationNs (Spec.rollingByte secs) ≤ 1000000000 * secs ∧
    1000000000 * secs < Spec.rollingDurationNs (Spec.rollingByte secs)
        + 1000000000 * Spec.unitSeconds (Spec.rollingByte secs / 64) := by
  unfold Spec.rollingByte
  split
  · have e : secs / 64 = 0 := by omega
    simp only [Spec.rollingDurationNs, e, Spec.unitSeconds]; simp; omega
  · split
    · have e : (secs / 60 + 0x40) / 64 = 1 := by omega
      have e2 : (secs / 60 + 0x40) % 64 = secs / 60 := by omega
      simp only [Spec.rollingDurationNs, e, e2, Spec.unitSeconds]; simp; omega
    · split
      · have e : (secs / 3600 + 0x80) / 64 = 2 := by omega
        have e2 : (secs / 3600 + 0x80) % 64 = secs / 3600 := by omega
        simp only [Spec.rollingDurationNs, e, e2, Spec.unitSeconds]; simp; omega
      · have hm : min (secs / 86400) 63 = secs / 86400 := by omega
        have e : (secs / 86400 + 0xc0) / 64 = 3 := by omega
        have e2 : (secs / 86400 + 0xc0) % 64 = secs / 86400 := by omega
        simp only [hm, Spec.rollingDurationNs, e, e2, Spec.unitSeconds]; simp; omega

/-- beyond 63 days the byte is clamped to 63 days -/
theorem rolling_byte_clamp (secs : Nat) (h : 63 * 86400 ≤ secs) : Spec.rollingByte secs = 0xff := by
  unfold Spec.rollingByte
  have : min (secs / 86400) 63 = 63 := by omega
  rw [this]
  repeat' split
  all_goals omega

/-- byte → duration → byte is the identity on every byte whose value does not fit a coarser unit exactly
    below it, i.e. on the canonical encodings: value < 60 s, < 60 min, < 24 h, any number of days -/
theorem rolling_roundtrip : ∀ n : Nat, n < 256 →
    (n % 64 ≠ 0 ∧ (n / 64 = 0 → n % 64 < 60) ∧ (n / 64 = 1 → n % 64 < 60) ∧ (n / 64 = 2 → n % 64 < 24)) →
    Spec.rollingByte (Spec.rollingDurationNs n / 1000000000) = n := by
  decide +kernel

/-- temporary completion codes are exactly node busy and timeout -/
theorem temporary_codes : ∀ c : BitVec 8, ccIsTemporary c = Spec.isTemporary c.toNat :=
  forall_bv8 (by decide +kernel)

theorem linearisation_classes : ∀ l : BitVec 8,
    linIsLinear l = Spec.isLinear l.toNat ∧ linIsLinearised l = Spec.isLinearised l.toNat ∧
    linIsNonLinear l = Spec.isNonLinear l.toNat :=
  forall_bv8 (by decide +kernel)

theorem request_functions : ∀ n : BitVec 8, nfIsRequest n = Spec.isRequestFn n.toNat :=
  forall_bv8 (by decide +kernel)

/-- the modelled checksum is the specification's -/
theorem checksum_model (bs : Bytes) : checksum bs = Spec.checksum bs := rfl

/-- the IPMI checksum makes the byte sum vanish, for data of every length -/
theorem checksum_sum (bs : Bytes) : sum (bs ++ [Spec.checksum bs]) = 0 := by
  simp [sum, Spec.checksum, List.foldl_append, UInt8.add_right_neg]

/-- … and it is the only byte that does -/
theorem checksum_unique (bs : Bytes) (c : UInt8) (h : sum (bs ++ [c]) = 0) : c = Spec.checksum bs := by
  simp only [sum, Spec.checksum, List.foldl_append, List.foldl_cons, List.foldl_nil] at h ⊢
  generalize List.foldl (fun x1 x2 => x1 + x2) 0 bs = s at h ⊢
  have : c = (s + c) - s := by rw [UInt8.add_comm, UInt8.add_sub_cancel]
  rw [this, h]

example : Spec.checksum [0x20, 0x18] = 0xc8 := by decide   -- FreeIPMI example used by the repo's own test

/-- BCD plus, for every character count and every data (Go slice of any capacity): the specified
    characters and ⌈c/2⌉ bytes consumed, an error when the data is too short, never a panic -/
theorem bcd_plus (d : GoSlice) (c : Nat) : bcdPlusGo d c = R.ofOption (Spec.bcdPlus d.vis c) := bcdPlusGo_spec d c

example : Spec.bcdPlus [0x12, 0xab, 0xf0] 5 = some ([0x31, 0x32, 0x20, 0x2d, 0x5f], 3) := by decide

/-- 8-bit ASCII + Latin-1, for every length from zero upward -/
theorem latin1 (d : GoSlice) (c : Nat) : latin1Go d c = R.ofOption (Spec.latin1 d.vis c) := latin1Go_spec d c

/-- packed 6-bit ASCII: decoding the packing of ANY sequence of 6-bit codes (any length, any following bytes)
    returns the characters 20h + code and consumes n − ⌊n/4⌋ bytes -/
theorem packed6_roundtrip (d : GoSlice) (cs : List UInt8) (hc : Codes cs) (hd : Holds d cs) :
    decode6Go d cs.length = R.ok (cs.map (· + 0x20), cs.length - cs.length / 4) := decode6_spec d cs hc hd

theorem packed6_short (d : GoSlice) (c : Nat) (h : d.len < c - c / 4) : decode6Go d c = R.err := decode6_short d c h

/-- the hypotheses of `packed6_roundtrip` are met by the packing of a concrete string -/
example : Codes [1, 2, 63, 0, 17] ∧ Holds (GoSlice.ofBytes (pack6 [1, 2, 63, 0, 17] ++ [0xaa])) [1, 2, 63, 0, 17] := by
  refine ⟨by unfold Codes; decide, by decide, ?_⟩
  intro k hk
  have : k < 4 := by simpa [pack6] using hk
  have hall : ∀ k : Nat, k < 4 → List.getD (GoSlice.ofBytes (pack6 [1, 2, 63, 0, 17] ++ [170])).vis k 0
      = packByte [1, 2, 63, 0, 17] k := by decide
  exact hall k this

end Bmc.Proofs.C20
