import Bmc.Lemmas.GenLoopsSessionlessRes
/-! # The session-less retry loop, RE-TRANSLATED from the source on every run, is the hand model's

`Bmc.Gen.Loops.V2Sessionless_buildAndSendCommand` (with its closure `…_func1`) and `V2Sessionless_SendCommand` are the bodies of
the two methods of v2sessionless.go as `tools/loopgen` translates them on this run (DESIGN §2.2 T2g). `Proto.slSend` / `slLoop`
(`Proto/Sessionless.lean`) is the hand model the session-less theorems of C09, C10, C11 and C18 are stated about. A source change
that serialises inside the loop, touches the sequence counter, makes a temporary completion code final, drops or weakens the
`isResponseTo` check, or counts a response before that check breaks one of these obligations at build time. -/
namespace Bmc.Proofs.GenLoops
open Bmc Bmc.Wire Bmc.Crypto Bmc.Proto Bmc.GoOrch Bmc.GoLoops Bmc.Gen.Loops Bmc.Lemmas.GenLoops

/-- **`V2Sessionless.buildAndSendCommand`, re-translated, does what `Proto.slSend` does.** The parameters are instantiated with the
    hand model's pieces (`slWorld`: `gopacket.SerializeLayers` := the model's encoders on the field values the layer structs
    hold, failing exactly when `c.reqFails`; the decoder := the view of `slOnReply`; the transport := the outcome script, the
    context ending in the back-off after the last scripted attempt). For every command, EVERY script (also the empty one: the one
    Send then fails and the context's error comes back), whatever the connection held before, any fuel above the length of
    the script: the datagrams handed to the transport are `slSend`'s (the one serialised request, once per attempt), the result
    is `slSend`'s, and the sequence counter is not touched. -/
theorem V2Sessionless_buildAndSendCommand_gen_eq (c : Cmd) (hc : c.ent < 4294967296) (script : List Outcome)
    (fuel : Nat) (hfu : script.length + 1 ≤ fuel) (bd : Bytes → Bool) (name : String) (rsp : Opaque)
    (ivs sent0 : List Bytes) (K : Conn Decoded) :
    let r := V2Sessionless_buildAndSendCommand (slWorld c bd) fuel (cmdOf c name rsp) ({ ivs := ivs, script := script, sent := sent0 }, K)
    let m := slSend c script
    r.2.1.sent = sent0 ++ m.1 ∧ resOf r.1 r.2.2 = some m.2 ∧ r.2.2.inbound = K.inbound := by
  intro r m
  cases hf : c.reqFails with
  | true =>
    have st := slBuild_serfail c bd name rsp hf fuel { ivs := ivs, script := script, sent := sent0 } K
    simp only [obs, Prod.mk.injEq] at st
    obtain ⟨s1, s2, s3, _⟩ := st
    have hm : m = ([], .serializeErr) := by simp [m, slSend, hf]
    rw [hm]
    exact ⟨by simp [r, s2], by simp [r, s1, resOf], s3⟩
  | false =>
    have hr' : r = _ := slBuild_ok c bd name rsp hf fuel { ivs := ivs, script := script, sent := sent0 } K
    have hm : m = slLoop c (slSerialize c).2 (slSerialize c).1 script := by simp [m, slSend, hf]
    obtain ⟨m1, m2⟩ := slLoop_spec c (slSerialize c).2 (slSerialize c).1 script
    rw [hm, m1, m2, hr']
    cases script with
    | nil =>
      cases fuel with
      | zero => simp at hfu
      | succ n =>
      -- the context has already ended: the closure runs once, the Send fails, the back-off returns the context's error
      have st := slStep_nil c bd name rsp true ivs sent0 false false (slReady c name rsp K)
      simp only [obsB, Prod.mk.injEq] at st
      obtain ⟨s1, s2, s3, _, _⟩ := st
      have hR := retry_of_err SW.wait (V2Sessionless_buildAndSendCommand_func1 (slWorld c bd) (cmdOf c name rsp)) n _ _ _ _ s1
      rw [show (V2Sessionless_buildAndSendCommand_func1 (slWorld c bd) (cmdOf c name rsp) true
          ({ ivs := ivs, script := [], sent := sent0, inSend := false, expired := false }, slReady c name rsp K)).2 = (_, _) from Prod.ext s2 rfl,
          afterErr_script] at hR
      simp only [List.isEmpty_nil, Bool.not_false, Bool.true_or, Bool.and_self, if_true] at hR
      rw [hR]
      simp only [slExpected, List.replicate_zero, List.append_nil, resOf, s3]
      exact ⟨trivial, trivial, rfl⟩
    | cons o rest =>
      have h := retry_slLoop c bd name rsp hc (o :: rest) (by simp) fuel (by omega) true ivs sent0 false (slReady c name rsp K)
      simp only at h
      generalize backoffRetry SW.wait fuel (V2Sessionless_buildAndSendCommand_func1 (slWorld c bd) (cmdOf c name rsp)) true
        ({ ivs := ivs, script := o :: rest, sent := sent0, inSend := false, expired := false }, slReady c name rsp K) = R at h
      obtain ⟨h1, h2, h3, h4⟩ := h
      have hb : (slReady c name rsp K).buffer = (slSerialize c).2 := slLit_bytes c name rsp hc
      refine ⟨by rw [← hb]; exact h1, ?_, h2⟩
      show resOf _ R.2.2 = _
      generalize (slExpected (slClassify c) (o :: rest)).2 = res at h4
      cases res <;> simp only [SlResOk] at h4
      · obtain ⟨a, b, c'⟩ := h4
        rw [a]; simp [resOf, b, c']
      · rw [h4]; simp [resOf]
      · rw [h4]; simp [resOf, castBad]

/-- **the Prometheus calls of `buildAndSendCommand` are those of the instrumentation model outside a session** (`Proto.Metrics.loop
    false`): for every command whose request serialises, every script none of whose replies crashes a decoder, both ways the
    caller's context can end (`ending`), whatever the log held before. `slAttOf` is what the instrumentation sees of an attempt: a
    lost reply (retried here), a reply that decodes to a message answering this command (counted under its completion code —
    temporary: retried, final: the answer), anything else (retried, not counted). -/
theorem V2Sessionless_buildAndSendCommand_events_eq (c : Cmd) (hc : c.ent < 4294967296) (hf : c.reqFails = false)
    (script : List Outcome) (hn : slNoCrash c script) (inSend : Bool) (hne : inSend = false → script ≠ [])
    (fuel : Nat) (hfu : script.length + 1 ≤ fuel) (bd : Bytes → Bool) (name : String) (rsp : Opaque)
    (ivs sent0 : List Bytes) (K : Conn Decoded) (m0 : Metrics.M) :
    let r := V2Sessionless_buildAndSendCommand (slWorld c bd) fuel (cmdOf c name rsp)
              ({ ivs := ivs, script := script, sent := sent0, inSend := inSend }, K)
    let l := Metrics.loop false (evsApply m0 K.events) true (script.map (slAttOf c) ++ ending inSend)
    evsApply m0 r.2.2.events = l.1 ∧ (r.1 = .ok none ↔ l.2 = true) ∧ ∃ e, r.1 = .ok e := by
  intro r l
  have hr' : r = _ := slBuild_ok c bd name rsp hf fuel { ivs := ivs, script := script, sent := sent0, inSend := inSend } K
  have h := retry_slMetrics c bd name rsp hc inSend m0 script hne hn fuel hfu true ivs sent0 (slReady c name rsp K)
  simp only at h
  generalize backoffRetry SW.wait fuel (V2Sessionless_buildAndSendCommand_func1 (slWorld c bd) (cmdOf c name rsp)) true
    ({ ivs := ivs, script := script, sent := sent0, inSend := inSend, expired := false }, slReady c name rsp K) = R at h hr'
  obtain ⟨h1, h2, x, h3⟩ := h
  rw [hr']
  refine ⟨h1, ?_, ?_⟩
  · show (match R.1 with | .ok x => RF.ok x.2 | r => castBad r) = .ok none ↔ _
    change _ ↔ (Metrics.loop false (evsApply m0 K.events) true (script.map (slAttOf c) ++ ending inSend)).2 = true
    have : (slReady c name rsp K).events = K.events := rfl
    rw [this] at h2
    rw [← h2, h3]
    obtain ⟨a, e⟩ := x
    cases e <;> simp [slOkNil]
  · show ∃ e, (match R.1 with | .ok x => RF.ok x.2 | r => castBad r) = .ok e
    rw [h3]; exact ⟨_, rfl⟩

/-- **`V2Sessionless.SendCommand`, re-translated, returns what the hand model's loop returns**: `(0, the error)` when the loop
    fails, otherwise the completion code of the response with `nil` — or with the error of the response layer (`rsp ≠ 0`: the
    command has one; `bd`: the payloads it decodes) when it rejects the payload. -/
theorem V2Sessionless_SendCommand_gen_eq (c : Cmd) (hc : c.ent < 4294967296) (script : List Outcome)
    (fuel : Nat) (hfu : script.length + 1 ≤ fuel) (bd : Bytes → Bool) (name : String) (rsp : Opaque)
    (ivs sent0 : List Bytes) (K : Conn Decoded) :
    let r := V2Sessionless_SendCommand (slWorld c bd) fuel (cmdOf c name rsp) ({ ivs := ivs, script := script, sent := sent0 }, K)
    let m := slSend c script
    r.2.1.sent = sent0 ++ m.1 ∧ r.2.2.inbound = K.inbound ∧
    r.1 = (match m.2 with
           | .ok cc p => .ok (cc, if rsp != 0 ∧ bd p = false then some .response else none)
           | .transportErr => .ok (0, some .transport)
           | .serializeErr => .ok (0, some .serialize)
           | .ctxExpired => .ok (0, some .ctx)
           | .crashed => .panic) := by
  intro r m
  have hr' : r = _ := V2Sessionless_SendCommand_apply (slWorld c bd) fuel (cmdOf c name rsp) _ K
  have hb := V2Sessionless_buildAndSendCommand_gen_eq c hc script fuel hfu bd name rsp ivs sent0
    { K with events := K.events ++ [Ev.timerStart "commandDuration"] ++ [Ev.inc "commandAttempts" [Label.str (cmdOf c name rsp).name]] }
  simp only at hb hr'
  generalize V2Sessionless_buildAndSendCommand (slWorld c bd) fuel (cmdOf c name rsp)
      ({ ivs := ivs, script := script, sent := sent0 },
        { K with events := K.events ++ [Ev.timerStart "commandDuration"] ++ [Ev.inc "commandAttempts" [Label.str (cmdOf c name rsp).name]] }) = b at hb hr'
  obtain ⟨h1, h2, h3⟩ := hb
  rw [hr']
  generalize (slSend c script).2 = res at h2 ⊢
  have hi := resOf_inv _ _ res h2
  cases res <;> simp only at hi
  · rename_i cc pl
    obtain ⟨a, b1, b2⟩ := hi
    rw [a]; simp only
    have : (cmdOf c name rsp).response = rsp := rfl
    rw [this, b1, b2]
    have hdb : ∀ p, (slWorld c bd).decodeFromBytes rsp p = bd p := fun _ => rfl
    simp only [hdb]
    by_cases hcond : (rsp != 0) = true ∧ bd pl = false
    · rw [if_pos hcond, if_pos hcond]; exact ⟨h1, h3, rfl⟩
    · rw [if_neg hcond, if_neg hcond]; exact ⟨h1, h3, rfl⟩
  all_goals (rw [hi]; exact ⟨h1, h3, rfl⟩)

/-- **the Prometheus calls of the session-less `SendCommand` are those of `Proto.Metrics.command`** (outside a session). -/
theorem V2Sessionless_SendCommand_events_eq (c : Cmd) (hc : c.ent < 4294967296) (hf : c.reqFails = false)
    (script : List Outcome) (hn : slNoCrash c script) (inSend : Bool) (hne : inSend = false → script ≠ [])
    (fuel : Nat) (hfu : script.length + 1 ≤ fuel) (bd : Bytes → Bool) (name : String) (rsp : Opaque)
    (ivs sent0 : List Bytes) (K : Conn Decoded) (m0 : Metrics.M) :
    let r := V2Sessionless_SendCommand (slWorld c bd) fuel (cmdOf c name rsp)
              ({ ivs := ivs, script := script, sent := sent0, inSend := inSend }, K)
    evsApply m0 r.2.2.events
      = Metrics.command (evsApply m0 K.events) name false (rsp == 0 || bd r.2.2.layers.message.payload)
          (script.map (slAttOf c) ++ ending inSend) := by
  intro r
  have hr' : r = _ := V2Sessionless_SendCommand_apply (slWorld c bd) fuel (cmdOf c name rsp) _ K
  have hb := V2Sessionless_buildAndSendCommand_events_eq c hc hf script hn inSend hne fuel hfu bd name rsp ivs sent0
    { K with events := K.events ++ [Ev.timerStart "commandDuration"] ++ [Ev.inc "commandAttempts" [Label.str (cmdOf c name rsp).name]] } m0
  simp only at hb hr'
  generalize V2Sessionless_buildAndSendCommand (slWorld c bd) fuel (cmdOf c name rsp)
      ({ ivs := ivs, script := script, sent := sent0, inSend := inSend },
        { K with events := K.events ++ [Ev.timerStart "commandDuration"] ++ [Ev.inc "commandAttempts" [Label.str (cmdOf c name rsp).name]] }) = b at hb hr'
  have hstart : evsApply m0 (K.events ++ [Ev.timerStart "commandDuration"] ++ [Ev.inc "commandAttempts" [Label.str (cmdOf c name rsp).name]])
      = { evsApply m0 K.events with cmdAttempts := Metrics.bump name (evsApply m0 K.events).cmdAttempts } := by
    rw [evsApply_append, evsApply_append]; rfl
  rw [hstart] at hb
  obtain ⟨h1, h2, e, h3⟩ := hb
  rw [hr']
  unfold Metrics.command
  simp only
  generalize Metrics.loop false { evsApply m0 K.events with cmdAttempts := Metrics.bump name (evsApply m0 K.events).cmdAttempts } true
    (script.map (slAttOf c) ++ ending inSend) = l at h1 h2
  obtain ⟨lm, lok⟩ := l
  simp only at h1 h2
  have hdb : ∀ p, (slWorld c bd).decodeFromBytes rsp p = bd p := fun _ => rfl
  have hrs : (cmdOf c name rsp).response = rsp := rfl
  have hnm : (cmdOf c name rsp).name = name := rfl
  rw [h3] at h2 ⊢
  cases e with
  | none =>
    have hok : lok = true := h2.mp rfl
    subst hok
    simp only [hrs, hdb, hnm, Bool.true_and]
    by_cases hcond : (rsp != 0) = true ∧ bd b.2.2.layers.message.payload = false
    · rw [if_pos hcond]
      have : (rsp == 0 || bd b.2.2.layers.message.payload) = false := by
        obtain ⟨a1, a2⟩ := hcond; simp [a2]; simpa using a1
      simp only [this, Bool.false_eq_true, if_false, evsApply_append, h1]
      rfl
    · rw [if_neg hcond]
      have : (rsp == 0 || bd b.2.2.layers.message.payload) = true := by
        by_cases h0 : rsp = 0
        · simp [h0]
        · have : bd b.2.2.layers.message.payload = true := by
            cases hbd : bd b.2.2.layers.message.payload
            · exact absurd ⟨by simpa using h0, hbd⟩ hcond
            · rfl
          simp [this]
      simp only [this, if_true, evsApply_append, h1]
      rfl
  | some err =>
    have hok : lok = false := by
      cases lok
      · rfl
      · exact absurd (h2.mpr rfl) (by simp)
    subst hok
    simp only [hnm, Bool.false_and, Bool.false_eq_true, if_false, evsApply_append, h1]
    rfl

/-- the hypotheses are met -/
example : ∃ (c : Cmd) (script : List Outcome), c.ent < 4294967296 ∧ c.reqFails = false ∧ script ≠ [] :=
  ⟨{ fn := 0x06, cmd := 0x38 }, [.lost, .reply [6, 0, 255, 7]], by decide⟩

end Bmc.Proofs.GenLoops
