import Bmc.Lemmas.GenLoopsSessionRes
/-! # The in-session retry loop, RE-TRANSLATED from the source on every run, is the hand model's

`Bmc.Gen.Loops.V2Session_buildAndSend` / `V2Session_buildAndSend_func1` / `V2Session_SendCommand` are the bodies of
`(*V2Session).buildAndSend` (with its `retryable` closure) and `(*V2Session).SendCommand` of v2session.go as `tools/loopgen`
translates them on this run, statement by statement, over the parameters of `Gen/Loops.lean: World` (DESIGN §2.2 T2g).
`Proto.sendLoop` (`Proto/Session.lean`) is the hand model the theorems of C03, C04, C09, C10, C11 and C18 are stated about;
`Proto.Metrics.loop` / `command` the instrumentation model of C18. A source change that moves the sequence-number increment,
makes a terminal error retryable (or the reverse), drops, weakens or reorders one of the acceptance checks, counts a response
before it has been accepted, or changes which layer field values are serialised breaks one of these obligations at build time. -/
namespace Bmc.Proofs.GenLoops
open Bmc Bmc.Wire Bmc.Crypto Bmc.Proto Bmc.GoOrch Bmc.GoLoops Bmc.Gen.Loops Bmc.Lemmas.GenLoops

/-- **`V2Session.buildAndSend`, RE-TRANSLATED from the source on this run, does what the hand model `Proto.sendLoop` does.**
    The parameters of the translation are instantiated with the hand model's own pieces (`sessWorld`: `gopacket.SerializeLayers` :=
    the model's encoders on the field values the layer structs hold — what `Proto.attempt` composes —, one IV of the script per
    call, failing exactly when `c.reqFails`; the connection's decoder := the view of `Proto.onReply`; the transport := the
    outcome script, the caller's context ending in the back-off after the last scripted attempt). Then for EVERY command, every
    session state (IDs and counter within their 32-bit Go types), every non-empty script of outcomes, every list of IVs at least
    as long, whatever the layer structs, the buffer and the log held before, and any fuel ≥ the length of the script:
    the datagrams handed to the transport are those `sendLoop` transmits (each serialised from the rebuilt layer structs with
    sequence number counter + 1), the result — nil with the completion code and payload left in the message layer, the
    transport's error, the serialiser's error, the context's error, or a decoder panic — is `sendLoop`'s, and so is the final
    value of `AuthenticatedSequenceNumbers.Inbound`. -/
theorem V2Session_buildAndSend_gen_eq (C : Ops) (c : Cmd) (hc : c.ent < 4294967296) (s : Sess)
    (hs : s.inbound < 4294967296) (hL : s.localID < 4294967296) (hr : s.remoteID < 4294967296)
    (ivs : List Bytes) (script : List Outcome) (hne : script ≠ []) (hl : script.length ≤ ivs.length)
    (fuel : Nat) (hfu : script.length ≤ fuel) (bd : Bytes → Bool) (name : String) (rsp : Opaque)
    (sent0 : List Bytes) (K : Conn Decoded) (hK : K.inbound = UInt32.ofNat s.inbound) :
    let r := V2Session_buildAndSend (sessWorld C s.keys c bd) fuel (sessConsts s.keys) (cmdOf c name rsp)
              ({ ivs := ivs, script := script, sent := sent0 }, K)
    let m := sendLoop C c s ivs script
    r.2.1.sent = sent0 ++ m.2.1 ∧ resOf r.1 r.2.2 = some m.2.2 ∧ r.2.2.inbound.toNat = m.1.inbound := by
  intro r m
  have h := retry_sendLoop C c bd name rsp hc s.keys hL hr script hne s rfl hs ivs hl fuel hfu true sent0 false K hK
  simp only at h
  generalize hR : backoffRetry SW.wait fuel (V2Session_buildAndSend_func1 (sessWorld C s.keys c bd) (sessConsts s.keys) (cmdOf c name rsp))
    (true, none) ({ ivs := ivs, script := script, sent := sent0, inSend := false, expired := false }, K) = R at h
  obtain ⟨h1, h2, h3⟩ := h
  have hr' : r = (match R.1 with
       | .ok x => .ok (if x.2 != none then x.2 else x.1.2)
       | r => castBad r, R.2) := by
    rw [← hR]; exact buildAndSend_apply (sessWorld C s.keys c bd) fuel (sessConsts s.keys) (cmdOf c name rsp) _
  rw [hr']
  refine ⟨h1, ?_, ?_⟩
  · show resOf _ R.2.2 = some m.2.2
    generalize (sendLoop C c s ivs script).2.2 = res at h3
    cases res <;> simp only [ResOk] at h3
    · obtain ⟨a, b, c'⟩ := h3
      rw [a]; simp [resOf, b, c']
    all_goals (rw [h3]; simp [resOf, castBad])
  · show R.2.2.inbound.toNat = _
    rw [h2, ofNat32_toNat _ (sendLoop_inbound_lt C c s hs ivs script hl)]

/-- **the Prometheus calls of `buildAndSend` are those of the instrumentation model.** For every command whose request serialises,
    every key set, every script none of whose replies crashes a decoder (`Proofs.C05.decodeChain_total`: none does under a lawful
    cipher), both ways the caller's context can end once the script is exhausted (`inSend = false`: in the back-off after the last
    scripted attempt — the attempts are `attOf` of the script followed by `cancelled`; `inSend = true`: during one more Send — the
    attempts are `attOf` of the script), whatever the log held before: replaying the log of the regenerated loop on the counters
    gives what `Proto.Metrics.loop` computes — `commandRetries` at the head of every run of the closure after the first,
    `commandResponses` for the completion code of every reply that passed the three acceptance checks (temporary or final),
    nothing else — and the loop returns nil exactly when the model says the call obtained a final answer. -/
theorem V2Session_buildAndSend_events_eq (C : Ops) (c : Cmd) (hc : c.ent < 4294967296) (k : Keys) (hL : k.localID < 4294967296)
    (hf : c.reqFails = false) (ivs : List Bytes) (script : List Outcome) (hn : noCrash C k c script)
    (inSend : Bool) (hne : inSend = false → script ≠ []) (fuel : Nat) (hfu : script.length + 1 ≤ fuel)
    (bd : Bytes → Bool) (name : String) (rsp : Opaque) (sent0 : List Bytes) (K : Conn Decoded) (m0 : Metrics.M) :
    let r := V2Session_buildAndSend (sessWorld C k c bd) fuel (sessConsts k) (cmdOf c name rsp)
              ({ ivs := ivs, script := script, sent := sent0, inSend := inSend }, K)
    let l := Metrics.loop true (evsApply m0 K.events) true (script.map (attOf C k c) ++ ending inSend)
    evsApply m0 r.2.2.events = l.1 ∧ (r.1 = .ok none ↔ l.2 = true) ∧ ∃ e, r.1 = .ok e := by
  intro r l
  have h := retry_metrics C c bd name rsp hc k hL hf inSend m0 script hne hn ivs fuel hfu true sent0 K
  simp only at h
  generalize hR : backoffRetry SW.wait fuel (V2Session_buildAndSend_func1 (sessWorld C k c bd) (sessConsts k) (cmdOf c name rsp))
    (true, none) ({ ivs := ivs, script := script, sent := sent0, inSend := inSend, expired := false }, K) = R at h
  obtain ⟨h1, h2, x, h3⟩ := h
  have hr' : r = (match R.1 with
       | .ok x => .ok (if x.2 != none then x.2 else x.1.2)
       | r => castBad r, R.2) := by
    rw [← hR]; exact buildAndSend_apply (sessWorld C k c bd) fuel (sessConsts k) (cmdOf c name rsp) _
  rw [hr']
  refine ⟨h1, ?_, ?_⟩
  · show (match R.1 with | .ok x => RF.ok (if x.2 != none then x.2 else x.1.2) | r => castBad r) = .ok none ↔ _
    rw [← h2, h3]
    obtain ⟨⟨a, te⟩, e⟩ := x
    cases te <;> cases e <;> simp [okNil]
  · show ∃ e, (match R.1 with | .ok x => RF.ok (if x.2 != none then x.2 else x.1.2) | r => castBad r) = .ok e
    rw [h3]; exact ⟨_, rfl⟩

/-- **a call whose context has already ended still consumes a sequence number** (the empty script): the closure runs once
    (`backoff.Retry` always runs the operation once), serialises — drawing an IV —, increments the counter, and the Send fails: the
    transport's error is returned, nothing is transmitted. `Proto.sendLoop` returns `ctxExpired` with the counter untouched for an
    empty script: the hand model and the code differ here (harmless: the number is skipped, not reused; the scripts of the
    correspondence scenarios are never empty), which is why `V2Session_buildAndSend_gen_eq` asks for a non-empty script. -/
theorem V2Session_buildAndSend_expired_context (C : Ops) (c : Cmd) (hf : c.reqFails = false) (k : Keys) (ivs : List Bytes)
    (fuel : Nat) (bd : Bytes → Bool) (name : String) (rsp : Opaque) (sent0 : List Bytes) (K : Conn Decoded) :
    let r := V2Session_buildAndSend (sessWorld C k c bd) (fuel + 1) (sessConsts k) (cmdOf c name rsp)
              ({ ivs := ivs, script := [], sent := sent0 }, K)
    r.1 = .ok (some .transport) ∧ r.2.1.sent = sent0 ∧ r.2.1.ivs = ivs.tail ∧ r.2.2.inbound = K.inbound + 1 := by
  intro r
  have st := step_nil C k c bd name rsp hf true ivs sent0 false false K
  simp only [obs, Prod.mk.injEq] at st
  obtain ⟨s1, s2, s3, _⟩ := st
  have hR := retry_of_nil SW.wait (V2Session_buildAndSend_func1 (sessWorld C k c bd) (sessConsts k) (cmdOf c name rsp)) fuel _ _ _ s1
  have hr' : r = (match (backoffRetry SW.wait (fuel + 1) (V2Session_buildAndSend_func1 (sessWorld C k c bd) (sessConsts k) (cmdOf c name rsp))
        (true, none) ({ ivs := ivs, script := [], sent := sent0 }, K)).1 with
       | .ok x => .ok (if x.2 != none then x.2 else x.1.2)
       | r => castBad r, (backoffRetry SW.wait (fuel + 1) (V2Session_buildAndSend_func1 (sessWorld C k c bd) (sessConsts k) (cmdOf c name rsp))
        (true, none) ({ ivs := ivs, script := [], sent := sent0 }, K)).2) :=
    buildAndSend_apply (sessWorld C k c bd) (fuel + 1) (sessConsts k) (cmdOf c name rsp) _
  rw [hr', hR]
  simp [s2, s3]

/-- **`V2Session.SendCommand`, re-translated, returns what the hand model's loop returns.** Same instantiation and hypotheses as
    `V2Session_buildAndSend_gen_eq`; `rsp` stands for the command's response layer (0 = the command has none) and `bd` says which
    payloads it decodes. The transmissions and the counter are those of `sendLoop`; the pair returned is `(0, the error)` when the
    loop fails, and otherwise the completion code of the response with `nil` — or, when there is a response layer and it rejects
    the payload, with that error. -/
theorem V2Session_SendCommand_gen_eq (C : Ops) (c : Cmd) (hc : c.ent < 4294967296) (s : Sess)
    (hs : s.inbound < 4294967296) (hL : s.localID < 4294967296) (hr : s.remoteID < 4294967296)
    (ivs : List Bytes) (script : List Outcome) (hne : script ≠ []) (hl : script.length ≤ ivs.length)
    (fuel : Nat) (hfu : script.length ≤ fuel) (bd : Bytes → Bool) (name : String) (rsp : Opaque)
    (sent0 : List Bytes) (K : Conn Decoded) (hK : K.inbound = UInt32.ofNat s.inbound) :
    let r := V2Session_SendCommand (sessWorld C s.keys c bd) fuel (sessConsts s.keys) (cmdOf c name rsp)
              ({ ivs := ivs, script := script, sent := sent0 }, K)
    let m := sendLoop C c s ivs script
    r.2.1.sent = sent0 ++ m.2.1 ∧ r.2.2.inbound.toNat = m.1.inbound ∧
    r.1 = (match m.2.2 with
           | .ok cc p => .ok (cc, if rsp != 0 ∧ bd p = false then some .response else none)
           | .transportErr => .ok (0, some .transport)
           | .serializeErr => .ok (0, some .serialize)
           | .ctxExpired => .ok (0, some .ctx)
           | .crashed => .panic) := by
  intro r m
  have hr' : r = _ := V2Session_SendCommand_apply (sessWorld C s.keys c bd) fuel (sessConsts s.keys) (cmdOf c name rsp) _ K
  have hb := V2Session_buildAndSend_gen_eq C c hc s hs hL hr ivs script hne hl fuel hfu bd name rsp sent0
    { K with events := K.events ++ [Ev.timerStart "commandDuration"] ++ [Ev.inc "commandAttempts" [Label.str (cmdOf c name rsp).name]] } hK
  simp only at hb hr'
  generalize V2Session_buildAndSend (sessWorld C s.keys c bd) fuel (sessConsts s.keys) (cmdOf c name rsp)
      ({ ivs := ivs, script := script, sent := sent0 },
        { K with events := K.events ++ [Ev.timerStart "commandDuration"] ++ [Ev.inc "commandAttempts" [Label.str (cmdOf c name rsp).name]] }) = b at hb hr'
  obtain ⟨h1, h2, h3⟩ := hb
  rw [hr']
  generalize (sendLoop C c s ivs script).2.2 = res at h2 ⊢
  have hi := resOf_inv _ _ res h2
  cases res <;> simp only at hi
  · rename_i cc pl
    obtain ⟨a, b1, b2⟩ := hi
    rw [a]; simp only
    have : (cmdOf c name rsp).response = rsp := rfl
    rw [this, b1, b2]
    have hdb : ∀ p, (sessWorld C s.keys c bd).decodeFromBytes rsp p = bd p := fun _ => rfl
    simp only [hdb]
    by_cases hcond : (rsp != 0) = true ∧ bd pl = false
    · rw [if_pos hcond, if_pos hcond]; exact ⟨h1, h3, rfl⟩
    · rw [if_neg hcond, if_neg hcond]; exact ⟨h1, h3, rfl⟩
  all_goals (rw [hi]; exact ⟨h1, h3, rfl⟩)

/-- **the Prometheus calls of `SendCommand` are those of `Proto.Metrics.command`**: the attempt is counted first, the loop's events
    follow (`V2Session_buildAndSend_events_eq`), and `commandFailures` is incremented exactly when the loop failed or the response
    layer (if the command has one) rejected the payload left in the message layer. (The two timer events do not touch the counters
    of the instrumentation model.) -/
theorem V2Session_SendCommand_events_eq (C : Ops) (c : Cmd) (hc : c.ent < 4294967296) (k : Keys) (hL : k.localID < 4294967296)
    (hf : c.reqFails = false) (ivs : List Bytes) (script : List Outcome) (hn : noCrash C k c script)
    (inSend : Bool) (hne : inSend = false → script ≠ []) (fuel : Nat) (hfu : script.length + 1 ≤ fuel)
    (bd : Bytes → Bool) (name : String) (rsp : Opaque) (sent0 : List Bytes) (K : Conn Decoded) (m0 : Metrics.M) :
    let r := V2Session_SendCommand (sessWorld C k c bd) fuel (sessConsts k) (cmdOf c name rsp)
              ({ ivs := ivs, script := script, sent := sent0, inSend := inSend }, K)
    evsApply m0 r.2.2.events
      = Metrics.command (evsApply m0 K.events) name true (rsp == 0 || bd r.2.2.layers.message.payload)
          (script.map (attOf C k c) ++ ending inSend) := by
  intro r
  have hr' : r = _ := V2Session_SendCommand_apply (sessWorld C k c bd) fuel (sessConsts k) (cmdOf c name rsp) _ K
  have hb := V2Session_buildAndSend_events_eq C c hc k hL hf ivs script hn inSend hne fuel hfu bd name rsp sent0
    { K with events := K.events ++ [Ev.timerStart "commandDuration"] ++ [Ev.inc "commandAttempts" [Label.str (cmdOf c name rsp).name]] } m0
  simp only at hb hr'
  generalize V2Session_buildAndSend (sessWorld C k c bd) fuel (sessConsts k) (cmdOf c name rsp)
      ({ ivs := ivs, script := script, sent := sent0, inSend := inSend },
        { K with events := K.events ++ [Ev.timerStart "commandDuration"] ++ [Ev.inc "commandAttempts" [Label.str (cmdOf c name rsp).name]] }) = b at hb hr'
  have hstart : evsApply m0 (K.events ++ [Ev.timerStart "commandDuration"] ++ [Ev.inc "commandAttempts" [Label.str (cmdOf c name rsp).name]])
      = { evsApply m0 K.events with cmdAttempts := Metrics.bump name (evsApply m0 K.events).cmdAttempts } := by
    rw [evsApply_append, evsApply_append]; rfl
  rw [hstart] at hb
  obtain ⟨h1, h2, e, h3⟩ := hb
  rw [hr']
  unfold Metrics.command
  simp only
  generalize Metrics.loop true { evsApply m0 K.events with cmdAttempts := Metrics.bump name (evsApply m0 K.events).cmdAttempts } true
    (script.map (attOf C k c) ++ ending inSend) = l at h1 h2
  obtain ⟨lm, lok⟩ := l
  simp only at h1 h2
  have hdb : ∀ p, (sessWorld C k c bd).decodeFromBytes rsp p = bd p := fun _ => rfl
  have hrs : (cmdOf c name rsp).response = rsp := rfl
  have hnm : (cmdOf c name rsp).name = name := rfl
  rw [h3] at h2 ⊢
  cases e with
  | none =>
    have hok : lok = true := h2.mp rfl
    subst hok
    simp only [hrs, hdb, hnm, Bool.true_and]
    by_cases hcond : (rsp != 0) = true ∧ bd b.2.2.layers.message.payload = false
    · rw [if_pos hcond]
      have : (rsp == 0 || bd b.2.2.layers.message.payload) = false := by
        obtain ⟨a1, a2⟩ := hcond; simp [a2]; simpa using a1
      simp only [this, Bool.false_eq_true, if_false, evsApply_append, h1]
      rfl
    · rw [if_neg hcond]
      have : (rsp == 0 || bd b.2.2.layers.message.payload) = true := by
        by_cases h0 : rsp = 0
        · simp [h0]
        · have : bd b.2.2.layers.message.payload = true := by
            cases hbd : bd b.2.2.layers.message.payload
            · exact absurd ⟨by simpa using h0, hbd⟩ hcond
            · rfl
          simp [this]
      simp only [this, if_true, evsApply_append, h1]
      rfl
  | some err =>
    have hok : lok = false := by
      cases lok
      · rfl
      · exact absurd (h2.mpr rfl) (by simp)
    subst hok
    simp only [hnm, Bool.false_and, Bool.false_eq_true, if_false, evsApply_append, h1]
    rfl

/-- the hypotheses are met: a session with 32-bit IDs, a command, a two-step script (a lost reply is terminal inside a session) -/
example : ∃ (s : Sess) (c : Cmd) (script : List Outcome), s.inbound < 4294967296 ∧ s.localID < 4294967296 ∧
    s.remoteID < 4294967296 ∧ c.ent < 4294967296 ∧ script ≠ [] ∧ c.reqFails = false :=
  ⟨{ inbound := 4294967295, localID := 0xA0A1A2A3, remoteID := 0x02030405, integ := 1 }, { fn := 0x06, cmd := 0x01 },
   [.reply [6, 0, 255, 7], .lost], by decide⟩

end Bmc.Proofs.GenLoops
