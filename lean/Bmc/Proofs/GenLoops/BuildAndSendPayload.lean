import Bmc.Lemmas.GenLoopsPayload
/-! # The session-setup retry loop, RE-TRANSLATED from the source on every run, is the hand model's

`Bmc.Gen.Loops.V2Sessionless_buildAndSendPayload` (with its closure `…_func1`) is the body of
`(*V2Sessionless).buildAndSendPayload` of v2sessionless.go as `tools/loopgen` translates it on this run (DESIGN §2.2 T2g): the
loop behind `openSession`, `rakpMessage1` and `rakpMessage3`. `Proto.exchange` / `payloadReply` / `setupDatagram`
(`Proto/Handshake.lean`) is the hand model the handshake theorems of C01, C02 and the retransmission theorems of C10 are stated
about. A source change that re-serialises per attempt, stops retrying on a lost reply, accepts a reply whose innermost layer
is not the session wrapper, or hands something else than the wrapper's payload to the response layer breaks this obligation at
build time. -/
namespace Bmc.Proofs.GenLoops
open Bmc Bmc.Wire Bmc.Crypto Bmc.Proto Bmc.GoOrch Bmc.GoLoops Bmc.Gen.Loops Bmc.Lemmas.GenLoops

/-- **`V2Sessionless.buildAndSendPayload`, re-translated, does what `Proto.exchange` does.** The parameters are instantiated with
    the hand model's pieces (`plWorld`: `gopacket.SerializeLayers` := RMCP and the null session wrapper — the model's encoders on
    the field values the layer structs hold — around `payload`, the bytes the request layer serialises to; the connection's
    decoder := `payloadReply`; the transport := the outcome script, the context ending in the back-off after the last scripted
    attempt). For every payload type, every payload, EVERY script, whatever the connection held before, any fuel above the length
    of the script: the datagrams handed to the transport are `(exchange script).1` copies of `setupDatagram ptype payload`;
    the function ends with the context's error when `exchange` finds no answer, with a panic when a decoder panics, and otherwise
    with what the response layer (`bd`) makes of exactly the payload `exchange` returns; the sequence counter and the Prometheus
    log are not touched (this loop has no instrumentation). -/
theorem V2Sessionless_buildAndSendPayload_gen_eq (ptype : UInt8) (payload : Bytes) (script : List Outcome)
    (fuel : Nat) (hfu : script.length + 1 ≤ fuel) (bd : Bytes → Bool) (rsp : Opaque) (ivs sent0 : List Bytes) (K : Conn Decoded) :
    let r := V2Sessionless_buildAndSendPayload (plWorld payload false bd) fuel (plOf ptype rsp) ({ ivs := ivs, script := script, sent := sent0 }, K)
    let m := exchange script
    r.2.1.sent = sent0 ++ List.replicate m.1 (setupDatagram ptype payload) ∧ r.2.2.inbound = K.inbound ∧ r.2.2.events = K.events ∧
    (match m.2 with
     | none => r.1 = .ok (some .ctx)
     | some .crash => r.1 = .panic
     | some (.got p) => r.1 = .ok (if bd p.vis then none else some .response) ∧ r.2.2.layers.v2Session.payload = p.vis
     | some .retry => False) := by
  intro r m
  have hr' : r = _ := plBuild_ok ptype rsp payload bd fuel { ivs := ivs, script := script, sent := sent0 } K
  rw [hr']
  cases script with
  | nil =>
    cases fuel with
    | zero => simp at hfu
    | succ n =>
    have st := plStep_nil payload false bd ivs sent0 false false (plReady ptype rsp payload K)
    simp only [obsB, Prod.mk.injEq] at st
    obtain ⟨s1, s2, s3, s4, _⟩ := st
    have hR := retry_of_err SW.wait (V2Sessionless_buildAndSendPayload_func1 (plWorld payload false bd)) n _ _ _ _ s1
    rw [show (V2Sessionless_buildAndSendPayload_func1 (plWorld payload false bd) ()
        ({ ivs := ivs, script := [], sent := sent0, inSend := false, expired := false }, plReady ptype rsp payload K)).2 = (_, _) from Prod.ext s2 rfl,
        afterErr_script] at hR
    simp only [List.isEmpty_nil, Bool.not_false, Bool.true_or, Bool.and_self, if_true] at hR
    rw [hR]
    simp only [m, exchange, List.replicate_zero, List.append_nil, s3, s4]
    exact ⟨trivial, rfl, rfl, rfl⟩
  | cons o rest =>
    have h := retry_exchange payload false bd (o :: rest) (by simp) fuel (by omega) ivs sent0 false (plReady ptype rsp payload K)
    simp only at h
    generalize backoffRetry SW.wait fuel (V2Sessionless_buildAndSendPayload_func1 (plWorld payload false bd)) ()
      ({ ivs := ivs, script := o :: rest, sent := sent0, inSend := false, expired := false }, plReady ptype rsp payload K) = R at h
    obtain ⟨h1, h2, _, h4, h5⟩ := h
    have hb : (plReady ptype rsp payload K).buffer = setupDatagram ptype payload := plLit_bytes ptype rsp payload K.layers
    refine ⟨by rw [← hb]; exact h1, h2, h4, ?_⟩
    generalize (exchange (o :: rest)).2 = res at h5
    cases res with
    | none => simp only [PlOk] at h5; rw [h5]; rfl
    | some pr =>
      cases pr with
      | retry => exact h5
      | crash => simp only [PlOk] at h5; rw [h5]; rfl
      | got p =>
        simp only [PlOk] at h5
        obtain ⟨a, b⟩ := h5
        rw [a]
        refine ⟨?_, b⟩
        show RF.ok (if (none : Option GoErr) != none then none else decodeFromBytes (plWorld payload false bd) rsp R.2.2.layers.v2Session.payload) = _
        rw [b]; rfl

/-- a request layer that does not serialise: the serialiser's error is returned at once and nothing is transmitted -/
theorem V2Sessionless_buildAndSendPayload_serialize_error (ptype : UInt8) (payload : Bytes) (bd : Bytes → Bool) (rsp : Opaque)
    (fuel : Nat) (w : SW) (K : Conn Decoded) :
    let r := V2Sessionless_buildAndSendPayload (plWorld payload true bd) fuel (plOf ptype rsp) (w, K)
    r.1 = .ok (some .serialize) ∧ r.2.1 = w ∧ r.2.2.inbound = K.inbound := by
  intro r
  have st := plBuild_serfail ptype rsp payload bd fuel w K
  simp only [obs, Prod.mk.injEq] at st
  exact ⟨st.1, st.2.1, st.2.2.1⟩

/-- the hypotheses are met: an Open Session request retransmitted once -/
example : ∃ (script : List Outcome) (fuel : Nat), script.length + 1 ≤ fuel ∧ (exchange script).1 = 2 :=
  ⟨[.lost, .lost], 3, by decide, by decide⟩

end Bmc.Proofs.GenLoops
