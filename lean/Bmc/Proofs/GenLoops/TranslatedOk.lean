import Bmc.Gen.Loops
/-! What `tools/loopgen` translated on this run (`Gen/Loops.lean`): everything it translated at delivery, nothing given up; and the
    package-level values the translated code reads are the ones the instantiations of `Proofs/GenLoops/*` assume. -/
namespace Bmc.Proofs.GenLoops
open Bmc Bmc.GoLoops Bmc.Gen.Loops

theorem translated_ok : Bmc.Gen.Loops.translated =
    ["bmc.V2Session.buildAndSend", "bmc.V2Session.SendCommand", "bmc.V2Sessionless.buildAndSendCommand",
     "bmc.V2Sessionless.SendCommand", "bmc.V2Sessionless.buildAndSendPayload"] := by decide

theorem gaveUp_none : Bmc.Gen.Loops.gaveUp = [] := by decide

/-- `serializeOptions` (bmc.go): lengths fixed and checksums computed — what the serialiser theorems of `Proofs/GenEnc.lean` assume -/
theorem serializeOptions_ok : bmc_serializeOptions = { fixLengths := true, computeChecksums := true } := by decide

/-- `ipmi.PayloadDescriptorIPMI`: payload type 0, no enterprise number, no payload ID -/
theorem payloadDescriptorIPMI_ok : ipmi_PayloadDescriptorIPMI = { payloadType := 0, enterprise := 0, payloadID := 0 } := by decide

end Bmc.Proofs.GenLoops
