import Bmc.Lemmas.SessionProps
import Bmc.Lemmas.SessionlessSpec
import Bmc.Gen.Facts
/-! # C09 — session sequence numbers strictly increase and are never reused (property theorems only) -/
namespace Bmc.Proofs.C09
open Bmc Bmc.Wire Bmc.Crypto Bmc.Proto

/-- one command, any reply script of any length: the datagrams transmitted carry the sequence numbers
    counter+1, counter+2, … in transmission order, all addressed to the BMC's session ID, and the counter ends at
    the last number used — so the next command continues the run -/
theorem command_seqs (C : Ops) (c : Cmd) (hf : c.reqFails = false) (s : Sess) (hs : s.inbound < 4294967296)
    (hr : s.remoteID < 4294967296) (ivs : List Bytes) (script : List Outcome) (hl : script.length ≤ ivs.length) :
    (sendLoop C c s ivs script).2.1.map seqOf
      = (List.range (sendLoop C c s ivs script).2.1.length).map (fun i => (s.inbound + i + 1) % 4294967296) ∧
    (∀ p ∈ (sendLoop C c s ivs script).2.1, sessionIDOf p = s.remoteID) ∧
    (sendLoop C c s ivs script).1.inbound = (s.inbound + (sendLoop C c s ivs script).2.1.length) % 4294967296 ∧
    (sendLoop C c s ivs script).1.remoteID = s.remoteID := by
  obtain ⟨_, h2, h3, h4⟩ := sendLoop_spec C c hf s hs ivs script hl
  have hk : (sendLoop C c s ivs script).1.remoteID = s.remoteID := congrArg Keys.remoteID h3
  rw [h2]
  simp only [List.map_map, List.length_map, List.length_range]
  refine ⟨?_, ?_, h4, hk⟩
  · apply List.map_congr_left
    intro i _
    simp only [Function.comp, nthDatagram]
    rw [(datagram_fields C s.keys c _ _ hr).2]
    omega
  · intro p hp
    simp only [List.mem_map, List.mem_range] at hp
    obtain ⟨i, _, rfl⟩ := hp
    exact (datagram_fields C s.keys c _ _ hr).1

/-- a command whose request cannot be serialised transmits nothing and consumes no number -/
theorem serialise_failure_consumes_nothing (C : Ops) (c : Cmd) (hf : c.reqFails = true) (s : Sess) (ivs : List Bytes)
    (script : List Outcome) :
    (sendLoop C c s ivs script).2.1 = [] ∧ (sendLoop C c s ivs script).1.inbound = s.inbound := by
  cases script with
  | nil => simp [sendLoop]
  | cons o rest =>
    cases ivs with
    | nil => simp [sendLoop]
    | cons iv ivs => simp [sendLoop, hf, initLayers]

/-- a history: commands with their IV draws and reply scripts, run one after another on the session -/
def runHistory (C : Ops) : Sess → List (Cmd × List Bytes × List Outcome) → Sess × List Bytes
  | s, [] => (s, [])
  | s, (c, ivs, script) :: rest =>
    let r := sendLoop C c s ivs script
    let r' := runHistory C r.1 rest
    (r'.1, r.2.1 ++ r'.2)

/-- HISTORY FORM: across any sequence of commands, retransmissions, temporary codes, undecodable or forged replies,
    serialisation failures and transport failures on one session, the sequence numbers the BMC receives are
    counter+1, counter+2, … with no gap and no repeat (while fewer than 2^32 datagrams are sent), every one of them
    addressed to the BMC's session ID -/
theorem history_seqs (C : Ops) (s : Sess) (hs : s.inbound < 4294967296) (hr : s.remoteID < 4294967296)
    (h : List (Cmd × List Bytes × List Outcome)) (hl : ∀ e ∈ h, e.2.2.length ≤ e.2.1.length) :
    (runHistory C s h).2.map seqOf
      = (List.range (runHistory C s h).2.length).map (fun i => (s.inbound + i + 1) % 4294967296) ∧
    (∀ p ∈ (runHistory C s h).2, sessionIDOf p = s.remoteID) := by
  induction h generalizing s with
  | nil => simp [runHistory]
  | cons e rest ih =>
    obtain ⟨c, ivs, script⟩ := e
    have hle : script.length ≤ ivs.length := hl (c, ivs, script) (by simp)
    have hl' : ∀ e ∈ rest, e.2.2.length ≤ e.2.1.length := fun e he => hl e (by simp [he])
    simp only [runHistory]
    cases hf : c.reqFails with
    | true =>
      obtain ⟨e1, e2⟩ := serialise_failure_consumes_nothing C c hf s ivs script
      have hrid : (sendLoop C c s ivs script).1.remoteID = s.remoteID := by
        cases script with
        | nil => simp [sendLoop]
        | cons o r => cases ivs with
          | nil => simp [sendLoop]
          | cons iv ivs => simp [sendLoop, hf, initLayers]
      have := ih (sendLoop C c s ivs script).1 (by rw [e2]; exact hs) (by rw [hrid]; exact hr) hl'
      rw [e1, e2, hrid] at *
      simpa using this
    | false =>
      obtain ⟨a1, a2, a3, a4⟩ := command_seqs C c hf s hs hr ivs script hle
      have := ih (sendLoop C c s ivs script).1 (by rw [a3]; omega) (by rw [a4]; exact hr) hl'
      rw [a3, a4] at this
      obtain ⟨b1, b2⟩ := this
      constructor
      · rw [List.map_append, a1, b1, List.length_append, List.range_add, List.map_append, List.map_map]
        congr 1
        apply List.map_congr_left
        intro i _
        simp only [Function.comp]
        omega
      · intro p hp
        rcases List.mem_append.mp hp with hp | hp
        · exact a2 p hp
        · exact b2 p hp

/-- strictly increasing, hence never reused, as long as the 32-bit counter does not wrap -/
theorem history_strictly_increasing (C : Ops) (s : Sess) (hr : s.remoteID < 4294967296)
    (h : List (Cmd × List Bytes × List Outcome)) (hl : ∀ e ∈ h, e.2.2.length ≤ e.2.1.length)
    (hw : s.inbound + (runHistory C s h).2.length < 4294967296) (i j : Nat) (hij : i < j)
    (hj : j < (runHistory C s h).2.length) :
    ((runHistory C s h).2.map seqOf).getD i 0 < ((runHistory C s h).2.map seqOf).getD j 0 := by
  have := (history_seqs C s (by omega) hr h hl).1
  rw [this]
  have hget : ∀ k, k < (runHistory C s h).2.length →
      ((List.range (runHistory C s h).2.length).map (fun i => (s.inbound + i + 1) % 4294967296)).getD k 0
        = (s.inbound + k + 1) % 4294967296 := by
    intro k hk
    simp [List.getD_eq_getElem?_getD, hk]
  rw [hget i (by omega), hget j hj]
  omega

/-- ACROSS THE 32-BIT WRAP "strictly increasing" cannot hold for any implementation; what does hold, for every starting
    value of the counter (also 0xFFFFFFFF) and every history of fewer than 2^32 transmissions, is that NO NUMBER IS USED
    FOR TWO DATAGRAMS: the counter simply continues modulo 2^32 (… 0xFFFFFFFF, 0, 1, …). -/
theorem history_no_reuse (C : Ops) (s : Sess) (hs : s.inbound < 4294967296) (hr : s.remoteID < 4294967296)
    (h : List (Cmd × List Bytes × List Outcome)) (hl : ∀ e ∈ h, e.2.2.length ≤ e.2.1.length)
    (hn : (runHistory C s h).2.length ≤ 4294967296) (i j : Nat) (hij : i < j)
    (hj : j < (runHistory C s h).2.length) :
    ((runHistory C s h).2.map seqOf).getD i 0 ≠ ((runHistory C s h).2.map seqOf).getD j 0 := by
  have := (history_seqs C s hs hr h hl).1
  rw [this]
  have hget : ∀ k, k < (runHistory C s h).2.length →
      ((List.range (runHistory C s h).2.length).map (fun i => (s.inbound + i + 1) % 4294967296)).getD k 0
        = (s.inbound + k + 1) % 4294967296 := by
    intro k hk
    simp [List.getD_eq_getElem?_getD, hk]
  rw [hget i (by omega), hget j hj]
  omega

end Bmc.Proofs.C09

namespace Bmc.Proofs.C09
open Bmc Bmc.Wire Bmc.Crypto Bmc.Proto

/-- outside a session every datagram carries session ID 0 and sequence number 0, for every command and request body -/
theorem sessionless_null (c : Cmd) : sessionIDOf (slSerialize c).2 = 0 ∧ seqOf (slSerialize c).2 = 0 := by
  unfold slSerialize sessionIDOf seqOf
  simp [slInit, V2Session.encode, RMCP.encode, putLE32, putLE16, le32, getD_drop]

/-- … and that is the only datagram a session-less command ever transmits, whatever the BMC answers -/
theorem sessionless_all_null (c : Cmd) (script : List Outcome) :
    ∀ p ∈ (slSend c script).1, sessionIDOf p = 0 ∧ seqOf p = 0 := by
  intro p hp
  unfold slSend at hp
  split at hp
  · simp at hp
  · simp only [] at hp
    rw [(Bmc.Proto.slLoop_spec c _ _ script).2] at hp
    have := List.eq_of_mem_replicate hp
    rw [this]; exact sessionless_null c

/-- TIE to the source (regenerated on every run): the only function of the module that assigns to a session sequence
    counter (`…Inbound` / `…Outbound`) is `V2Session.buildAndSend` — the pre-increment the model's `attempt` mirrors.
    Another writer (a "restore", an "accept", a reset) changes this list. -/
theorem sequence_counter_writers : Bmc.Gen.Facts.seqCounterWriters = ["bmc.buildAndSend"] := by decide

end Bmc.Proofs.C09
