import Bmc.Proofs.GenEnc.TranslatedOk
import Bmc.Proofs.GenEnc.GetSensorReadingReq
import Bmc.Proofs.GenEnc.GetDCMICapabilitiesInfoReq
import Bmc.Proofs.GenEnc.GetDCMISensorInfoReq
import Bmc.Proofs.GenEnc.ChassisControlReq
import Bmc.Proofs.GenEnc.CloseSessionReq
import Bmc.Proofs.GenEnc.GetChannelAuthenticationCapabilitiesReq
import Bmc.Proofs.GenEnc.GetChannelCipherSuitesReq
import Bmc.Proofs.GenEnc.GetSDRReq
import Bmc.Proofs.GenEnc.GetSessionInfoReq
import Bmc.Proofs.GenEnc.SetSessionPrivilegeLevelReq
import Bmc.Proofs.GenEnc.OpenSessionReq
import Bmc.Proofs.GenEnc.RAKPMessage3
import Bmc.Proofs.GenEnc.RAKPMessage1
import Bmc.Proofs.GenEnc.V1Session
import Bmc.Proofs.GenEnc.Message
import Bmc.Proofs.GenEnc.GetPowerReadingReq
import Bmc.Proofs.GenEnc.V2Session
import Bmc.Proofs.GenEnc.AES128CBC
/-! # The serialisers RE-TRANSLATED from the Go source on every run are the hand-written encoder models (property-support theorems)

`Bmc.Gen.Enc.T.serializeTo` is emitted by `tools/encgen` from `(*T).SerializeTo` as the source stands now, statement by
statement, over the model of gopacket's `SerializeBuffer` of `Basic/GoEnc.lean`: the bytes handed back by `PrependBytes` /
`AppendBytes` have INDETERMINATE content (`stale`: whatever an earlier packet left in the reused buffer) and the result is
what the buffer holds after the method (`inner` = what it held before). Each `T_enc_eq` says this IS the model
`Bmc.Wire.…encode` that C06 / C08 reason about — for every layer value, every inner payload and EVERY `stale`, i.e. the
serialiser writes every byte it claims. A source change to one of these serialisers (a byte left unwritten on one
path, two fields swapped, a changed mask) changes `Gen/Enc.lean` and breaks the corresponding obligation at build time. -/
