import Bmc.Proto.Suites
import Bmc.Lemmas.HandshakeInv
import Bmc.Gen.Facts
import Bmc.Proto.Discovery
import Bmc.Proofs.C16
/-! # C12 — the cipher suite used is the caller's first supported preference, never another (property theorems only) -/
namespace Bmc.Proofs.C12
open Bmc Bmc.Wire Bmc.Crypto Bmc.Proto

/-- several preferences: the proposal is the FIRST preference the BMC advertises -/
theorem choose_first_supported (prefs : List Suite) (h2 : 2 ≤ prefs.length) (adv : List Suite) (p : Suite)
    (h : determine prefs (some adv) = .propose p true) :
    p ∈ prefs ∧ p ∈ adv ∧ ∀ q ∈ prefs.takeWhile (· ≠ p), q ∉ adv := by
  unfold determine at h
  have hne : prefs.isEmpty = false := by cases prefs <;> simp_all
  simp only [hne, Bool.false_eq_true, if_false] at h
  match prefs, h2 with
  | a :: b :: rest, _ =>
    simp only at h
    split at h
    · rename_i q hq
      simp at h
      subst h
      have hm := List.mem_of_find?_eq_some hq
      have hp := List.find?_some hq
      refine ⟨hm, by simpa using hp, ?_⟩
      intro r hr
      have := List.find?_eq_some_iff_append.mp hq
      obtain ⟨_, as, bs, hab, hall⟩ := this
      have htw : (a :: b :: rest).takeWhile (· ≠ q) = as := by
        rw [hab]
        rw [List.takeWhile_append_of_pos]
        · simp
        · intro x hx
          have := hall x hx
          simp only [ne_eq, decide_eq_true_eq]
          intro hxq; subst hxq; simp_all
      rw [htw] at hr
      have := hall r hr
      simpa using this
    · simp at h

/-- … or the no-supported-cipher-suite error exactly when none of them is advertised -/
theorem none_supported (prefs : List Suite) (h2 : 2 ≤ prefs.length) (adv : List Suite) :
    determine prefs (some adv) = .noSupported ↔ ∀ p ∈ prefs, p ∉ adv := by
  unfold determine
  have hne : prefs.isEmpty = false := by cases prefs <;> simp_all
  simp only [hne, Bool.false_eq_true, if_false]
  match prefs, h2 with
  | a :: b :: rest, _ =>
    simp only
    constructor
    · intro h
      split at h
      · simp at h
      · rename_i hnone
        intro p hp
        have := List.find?_eq_none.mp hnone p hp
        simpa using this
    · intro h
      have : (a :: b :: rest).find? (fun p => adv.contains p) = none := by
        apply List.find?_eq_none.mpr
        intro p hp
        simpa using h p hp
      rw [this]

/-- exactly one preference: proposed without discovery, whatever the BMC advertises -/
theorem singleton_no_discovery (s : Suite) (adv : Option (List Suite)) : determine [s] adv = .propose s false := rfl

/-- no preference: suite 17, then suite 3 -/
theorem defaults (adv : List Suite) :
    determine [] (some adv) =
      if adv.contains ⟨3, 4, 1⟩ then .propose ⟨3, 4, 1⟩ true
      else if adv.contains ⟨1, 1, 1⟩ then .propose ⟨1, 1, 1⟩ true else .noSupported := by
  have e1 : ∀ x : Suite, adv.contains x = decide (x ∈ adv) := fun x => by simp
  by_cases h1 : (⟨3, 4, 1⟩ : Suite) ∈ adv <;> by_cases h2 : (⟨1, 1, 1⟩ : Suite) ∈ adv <;>
    simp [determine, defaultSuites, List.find?, h1, h2]

/-- tie to the source: the order of `defaultCipherSuites` as extracted on this run -/
theorem defaults_fact : Bmc.Gen.Facts.bmc_defaultCipherSuites = ["CipherSuite17", "CipherSuite3"] := by decide

/-- NO DOWNGRADE, NO PANIC: whatever the BMC answers at any point (every reply script), a session is only ever
    returned with exactly the proposed algorithms, and those are a supported authentication algorithm, an integrity
    algorithm and AES-CBC-128; the call never crashes is C05's `call` theorems -/
theorem no_downgrade (C : Ops) (o : Opts) (rm : Bytes) (script : List Outcome) (l r : Nat) (a i c : UInt8)
    (sik k1 k2 : Bytes) (h : (newSession C o rm script).2 = .ok l r a i c sik k1 k2) :
    a = o.auth ∧ i = o.integ ∧ c = o.conf ∧ c = 1 ∧ (i = 1 ∨ i = 2 ∨ i = 4) ∧ (a = 1 ∨ a = 2 ∨ a = 3) := by
  obtain ⟨osr, rk2, hh, s2, s3, h1, h2, h3, _⟩ := newSession_ok C o rm script l r a i c sik k1 k2 h
  obtain ⟨_, _, ea, ei, ec, _⟩ := stepOpen_ok o script osr h1
  obtain ⟨_, _, hauth, _, _⟩ := stepRakp2_ok C o rm osr s2 rk2 hh h2
  obtain ⟨hi, hc, hr, _⟩ := stepRakp4_ok C o rm osr rk2 hh s3 _ h3
  injection hr with _ _ e3 e4 e5
  subst e3 e4 e5
  refine ⟨ea, ei, ec, hc, hi, ?_⟩
  unfold authHash at hauth
  split at hauth <;> simp_all

example : determine [⟨3, 4, 1⟩, ⟨2, 2, 1⟩, ⟨1, 1, 1⟩] (some [⟨1, 1, 1⟩, ⟨2, 2, 1⟩]) = .propose ⟨2, 2, 1⟩ true := by decide

-- discovery and choice composed ------------------------------------------------------------------------------------------
open Bmc.Proto.Enum Bmc.Spec.Enum Bmc.Lemmas.Enum in
/-- DISCOVERY + CHOICE, end to end at the wire: against a BMC that holds ANY list of well-formed cipher suite records
    (standard and OEM, any number of integrity / confidentiality algorithms each, up to the 1024 bytes the list index
    can address) and serves them 16 bytes per Get Channel Cipher Suites list index as the specification says, the
    selection sees exactly one suite per (integrity, confidentiality) combination of each record — so
    `choose_first_supported` / `none_supported` / `defaults` apply with `adv` = what the BMC really advertises -/
theorem discovery_then_choice (prefs : List Suite) (ch : UInt8) (hch : ch.toNat < 16) (rs : List Record)
    (hw : ∀ r ∈ rs, r.wf) (hlen : (encodeRecords rs).length < 1024) :
    determineFull prefs (pageOfBody fun i => some (pageBody ch (encodeRecords rs) i)) =
      determine prefs (some (((rs.flatMap expand).map view).map suiteOfEntry)) := by
  unfold determineFull discovered
  rw [Bmc.Proofs.C16.retrieve_complete ch hch rs hw hlen]

open Bmc.Proto.Enum Bmc.Spec.Enum Bmc.Lemmas.Enum in
/-- … hence, with several preferences, the proposal is the first preference that occurs as an (authentication,
    integrity, confidentiality) combination of some record the BMC holds -/
theorem first_advertised_preference (prefs : List Suite) (h2 : 2 ≤ prefs.length) (ch : UInt8) (hch : ch.toNat < 16)
    (rs : List Record) (hw : ∀ r ∈ rs, r.wf) (hlen : (encodeRecords rs).length < 1024) (p : Suite)
    (h : determineFull prefs (pageOfBody fun i => some (pageBody ch (encodeRecords rs) i)) = .propose p true) :
    p ∈ prefs ∧ (∃ r ∈ rs, ∃ e ∈ expand r, suiteOfEntry (view e) = p) ∧
    ∀ q ∈ prefs.takeWhile (· ≠ p), ¬ ∃ r ∈ rs, ∃ e ∈ expand r, suiteOfEntry (view e) = q := by
  rw [discovery_then_choice prefs ch hch rs hw hlen] at h
  obtain ⟨h1, h2', h3⟩ := choose_first_supported prefs h2 _ p h
  refine ⟨h1, ?_, fun q hq hex => h3 q hq ?_⟩
  · simp only [List.mem_map, List.mem_flatMap] at h2'
    obtain ⟨en, ⟨ce, ⟨r, hr, hce⟩, rfl⟩, rfl⟩ := h2'
    exact ⟨r, hr, ce, hce, rfl⟩
  · obtain ⟨r, hr, e, he, rfl⟩ := hex
    simp only [List.mem_map, List.mem_flatMap]
    exact ⟨view e, ⟨e, ⟨r, hr, he⟩, rfl⟩, rfl⟩

/-- a failed discovery (any list index answered with an error, or record data that does not parse) is an error: no
    suite is proposed on a guess -/
theorem discovery_failure_is_error (prefs : List Suite) (h2 : 2 ≤ prefs.length) (page : Nat → Option Bytes)
    (hd : discovered page = none) : determineFull prefs page = .discoveryFailed := by
  unfold determineFull determine
  have hne : prefs.isEmpty = false := by cases prefs <;> simp_all
  simp only [hne, Bool.false_eq_true, if_false, hd]
  match prefs, h2 with
  | a :: b :: rest, _ => rfl

end Bmc.Proofs.C12
