import Bmc.Wire.Simple
import Bmc.Lemmas.SdrRefine
/-! # C17 (SDR group): decoding into a used receiver gives exactly what decoding into a fresh one gives — per layer -/
namespace Bmc.Proofs.C17
open Bmc Bmc.Wire

theorem sdrRepoInfo_reuse (prev : SDRRepoInfoRsp) (d : GoSlice) :
    SDRRepoInfoRsp.decodeGo prev d = SDRRepoInfoRsp.decodeGo {} d := by
  rw [(SDRRepoInfoRsp.decodeGo_canon prev d).1, (SDRRepoInfoRsp.decodeGo_canon {} d).1]

theorem reserveSDR_reuse (prev : ReserveRsp) (d : GoSlice) : ReserveRsp.decodeGo prev d = ReserveRsp.decodeGo {} d := by
  rw [(ReserveRsp.decodeGo_canon prev d).1, (ReserveRsp.decodeGo_canon {} d).1]

theorem getSDR_reuse (prev : GetSDRRsp) (d : GoSlice) : GetSDRRsp.decodeGo prev d = GetSDRRsp.decodeGo {} d := by
  rw [(GetSDRRsp.decodeGo_canon prev d).1, (GetSDRRsp.decodeGo_canon {} d).1]

theorem sdrHeader_reuse (prev : SDRHeader) (d : GoSlice) : SDRHeader.decodeGo prev d = SDRHeader.decodeGo {} d := by
  rw [(SDRHeader.decodeGo_canon prev d).1, (SDRHeader.decodeGo_canon {} d).1]

theorem sensorReading_reuse (prev : SensorReadingRsp) (d : GoSlice) :
    SensorReadingRsp.decodeGo prev d = SensorReadingRsp.decodeGo {} d := by
  rw [(SensorReadingRsp.decodeGo_canon prev d).1, (SensorReadingRsp.decodeGo_canon {} d).1]

/-- in particular a short ID string decoded after a long one carries none of the earlier characters -/
theorem fullSensor_reuse (prev : FullSensorRecord) (d : GoSlice) :
    FullSensorRecord.decodeGo prev d = FullSensorRecord.decodeGo {} d := by
  rw [FullSensorRecord.decodeGo_refines, FullSensorRecord.decodeGo_refines]

end Bmc.Proofs.C17
