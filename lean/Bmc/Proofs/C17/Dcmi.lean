import Bmc.Lemmas.DcmiRefine
/-! # C17 (pkg/dcmi): decoding into a used receiver gives exactly what decoding into a fresh one gives — per layer -/
namespace Bmc.Proofs.C17
open Bmc Bmc.Wire

theorem dcmiCap1_reuse (prev : DcmiCap1) (d : GoSlice) : DcmiCap1.decodeGo prev d = DcmiCap1.decodeGo {} d := by
  rw [DcmiCap1.decodeGo_refines, DcmiCap1.decodeGo_refines]

/-- in particular a v1.0-layout response after a v1.1 one (and conversely) leaves no flag or sampling period behind -/
theorem dcmiCap2_reuse (prev : DcmiCap2) (d : GoSlice) : DcmiCap2.decodeGo prev d = DcmiCap2.decodeGo {} d := by
  rw [DcmiCap2.decodeGo_refines, DcmiCap2.decodeGo_refines]

theorem dcmiCap3_reuse (prev : DcmiCap3) (d : GoSlice) : DcmiCap3.decodeGo prev d = DcmiCap3.decodeGo {} d := by
  rw [DcmiCap3.decodeGo_refines, DcmiCap3.decodeGo_refines]

theorem dcmiCap4_reuse (prev : DcmiCap4) (d : GoSlice) : DcmiCap4.decodeGo prev d = DcmiCap4.decodeGo {} d := by
  rw [DcmiCap4.decodeGo_refines, DcmiCap4.decodeGo_refines]

/-- a shorter list of periods after a longer one shows no period of the longer one (`make` allocates afresh) -/
theorem dcmiCap5_reuse (prev : DcmiCap5) (d : GoSlice) : DcmiCap5.decodeGo prev d = DcmiCap5.decodeGo {} d := by
  rw [DcmiCap5.decodeGo_refines, DcmiCap5.decodeGo_refines]

theorem powerReading_reuse (prev : PowerReading) (d : GoSlice) :
    PowerReading.decodeGo prev d = PowerReading.decodeGo {} d := by
  rw [PowerReading.decodeGo_refines, PowerReading.decodeGo_refines]

/-- `RecordIDs` is truncated to length 0 and appended to, so its backing array (with the earlier response's IDs)
    survives; whatever that array holds and however large it is, the slice a caller sees afterwards is the one a
    fresh receiver would show — longer after shorter, shorter after longer alike -/
theorem sensorInfo_reuse (prev : SensorInfo) (d : GoSlice) :
    (SensorInfo.decodeGo prev d).map SensorInfo.view = (SensorInfo.decodeGo {} d).map SensorInfo.view := by
  rw [SensorInfo.decodeGo_refines, SensorInfo.decodeGo_refines]

end Bmc.Proofs.C17
