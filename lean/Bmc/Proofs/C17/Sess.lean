import Bmc.Wire.Simple
import Bmc.Lemmas.SessRefine
/-! # C17 (session-setup responses): decoding into a used receiver gives exactly what decoding into a fresh one gives -/
namespace Bmc.Proofs.C17
open Bmc Bmc.Wire

theorem authCaps_reuse (prev : AuthCapsRsp) (d : GoSlice) : AuthCapsRsp.decodeGo prev d = AuthCapsRsp.decodeGo {} d := by
  rw [(AuthCapsRsp.decodeGo_canon prev d).1, (AuthCapsRsp.decodeGo_canon {} d).1]

theorem cipherSuites_reuse (prev : CipherSuitesRsp) (d : GoSlice) :
    CipherSuitesRsp.decodeGo prev d = CipherSuitesRsp.decodeGo {} d := by
  rw [(CipherSuitesRsp.decodeGo_canon prev d).1, (CipherSuitesRsp.decodeGo_canon {} d).1]

theorem setPriv_reuse (prev : SetPrivRsp) (d : GoSlice) : SetPrivRsp.decodeGo prev d = SetPrivRsp.decodeGo {} d := by
  rw [(SetPrivRsp.decodeGo_canon prev d).1, (SetPrivRsp.decodeGo_canon {} d).1]

theorem guid_reuse (prev : GUIDRsp) (d : GoSlice) : GUIDRsp.decodeGo prev d = GUIDRsp.decodeGo {} d := by
  rw [(GUIDRsp.decodeGo_canon prev d).1, (GUIDRsp.decodeGo_canon {} d).1]

/-- Get Session Info: whichever branch the earlier response took (no session / 6 bytes / LAN data), none of its user,
    privilege, protocol, channel, IP, MAC or port values survives into the next decode -/
theorem sessionInfo_reuse (prev : SessionInfoRsp) (d : GoSlice) :
    SessionInfoRsp.decodeGo prev d = SessionInfoRsp.decodeGo {} d := by
  rw [(SessionInfoRsp.decodeGo_canon prev d).1, (SessionInfoRsp.decodeGo_canon {} d).1]

end Bmc.Proofs.C17
