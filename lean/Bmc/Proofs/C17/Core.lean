import Bmc.Proofs.C05.Core
import Bmc.Lemmas.SessionSpec
/-! # C17 (core layers and the connection): reuse never leaks earlier data -/
namespace Bmc.Proofs.C17
open Bmc Bmc.Wire Bmc.Crypto Bmc.Proto

theorem message_reuse (prev : Message) (d : GoSlice) : Message.decodeGo 8 prev d = Message.decodeGo 8 {} d := by
  rw [Message.decodeGo_refines, Message.decodeGo_refines]

theorem v2_reuse (mac : Bytes → Bytes) (prev : V2Session) (d : GoSlice) :
    V2Session.decodeGo mac prev d = V2Session.decodeGo mac {} d := by
  rw [V2Session.decodeGo_refines, V2Session.decodeGo_refines]

theorem aes_reuse (C : Ops) (hC : C.Lawful) (key : Bytes) (prev : AESLayer) (d : GoSlice) :
    AESLayer.decodeGo C key true prev d = AESLayer.decodeGo C key true {} d := by
  rw [AESLayer.decodeGo_refines C hC, AESLayer.decodeGo_refines C hC]

/-- connection level: two session states that agree on the keys and the counter — whatever commands and replies
    left in their layers — give the same result, the same transmitted bytes and the same final counter for any
    command and any reply script -/
theorem session_history_independent (C : Ops) (c : Cmd) (hf : c.reqFails = false) (s s' : Sess)
    (hk : s'.keys = s.keys) (hi : s'.inbound = s.inbound) (hs : s.inbound < 4294967296)
    (ivs : List Bytes) (script : List Outcome) (hl : script.length ≤ ivs.length) :
    (sendLoop C c s' ivs script).2 = (sendLoop C c s ivs script).2 ∧
    (sendLoop C c s' ivs script).1.inbound = (sendLoop C c s ivs script).1.inbound := by
  obtain ⟨a1, a2, _, a4⟩ := sendLoop_spec C c hf s hs ivs script hl
  obtain ⟨b1, b2, _, b4⟩ := sendLoop_spec C c hf s' (by rw [hi]; exact hs) ivs script hl
  rw [hk] at b1 b2 b4
  rw [hi] at b2 b4
  refine ⟨Prod.ext (by rw [a2, b2]) (by rw [a1, b1]), by rw [a4, b4]⟩

end Bmc.Proofs.C17
