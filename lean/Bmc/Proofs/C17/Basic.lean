import Bmc.Wire.DeviceID
import Bmc.Wire.Chassis
/-! # C17: decoding into a used receiver gives exactly what decoding into a fresh one gives — per layer -/
namespace Bmc.Proofs.C17
open Bmc Bmc.Wire

theorem deviceID_reuse (prev : GetDeviceIDRsp) (d : GoSlice) :
    GetDeviceIDRsp.decodeGo true prev d = GetDeviceIDRsp.decodeGo true {} d := by
  rw [GetDeviceIDRsp.decodeGo_refines, GetDeviceIDRsp.decodeGo_refines]

theorem chassis_reuse (prev : GetChassisStatusRsp) (d : GoSlice) :
    GetChassisStatusRsp.decodeGo true prev d = GetChassisStatusRsp.decodeGo true {} d := by
  rw [(GetChassisStatusRsp.decodeGo_canon prev d).1, (GetChassisStatusRsp.decodeGo_canon {} d).1]

end Bmc.Proofs.C17
