import Bmc.Lemmas.SetupOpenRefine
import Bmc.Lemmas.SetupRakp1Refine
import Bmc.Lemmas.Rakp2Refine
import Bmc.Lemmas.V1Refine
import Bmc.Wire.Rakp4
import Bmc.Wire.Selector
/-! # C17 (session-setup layers): decoding into a used receiver gives exactly what decoding into a fresh one gives.
    The v1.5 session header is proved for the REPAIRED variant (`resetAuthCode = true`); on the pinned tree the
    AuthCode of an earlier authenticated packet survives an unauthenticated one (example below). -/
namespace Bmc.Proofs.C17
open Bmc Bmc.Wire

theorem openSessionRsp_reuse (prev : Setup.OpenSessionRsp) (d : GoSlice) :
    Setup.OpenSessionRsp.decodeGo prev d = Setup.OpenSessionRsp.decodeGo {} d := by
  rw [Setup.OpenSessionRsp.decodeGo_refines, Setup.OpenSessionRsp.decodeGo_refines]

theorem rakp1_reuse (prev : Setup.RAKP1) (d : GoSlice) : Setup.RAKP1.decodeGo prev d = Setup.RAKP1.decodeGo {} d := by
  rw [Setup.RAKP1.decodeGo_refines, Setup.RAKP1.decodeGo_refines]

theorem rakp2_reuse (prev : RAKP2) (d : GoSlice) : RAKP2.decodeGo true prev d = RAKP2.decodeGo true {} d := by
  rw [RAKP2.decodeGo_refines, RAKP2.decodeGo_refines]

theorem rakp4_reuse (prev : Setup.RAKP4) (d : GoSlice) : Setup.RAKP4.decodeGo prev d = Setup.RAKP4.decodeGo {} d := by
  rw [Setup.RAKP4.decodeGo_refines, Setup.RAKP4.decodeGo_refines]

theorem selector_reuse (prev : Setup.Selector) (d : GoSlice) :
    Setup.Selector.decodeGo prev d = Setup.Selector.decodeGo {} d := by
  rw [Setup.Selector.decodeGo_refines, Setup.Selector.decodeGo_refines]

theorem v1_reuse (prev : V1Session) (d : GoSlice) : V1Session.decodeGo true prev d = V1Session.decodeGo true {} d := by
  rw [V1Session.decodeGo_refines, V1Session.decodeGo_refines]

/-- PINNED TREE: an unauthenticated v1.5 packet decoded after an authenticated one still shows the earlier
    packet's AuthCode; a fresh receiver shows zeros -/
example :
    let authd : Bytes := [2, 1, 0, 0, 0, 2, 0, 0, 0] ++ List.replicate 16 0x5a ++ [0]
    let plain : Bytes := [0, 1, 0, 0, 0, 2, 0, 0, 0, 0]
    (match V1Session.decodeGo false {} (GoSlice.ofBytes authd) with
     | .ok p => (V1Session.decodeGo false p (GoSlice.ofBytes plain)).map (·.authCode)
     | _ => R.err) = R.ok (List.replicate 16 0x5a) ∧
    (V1Session.decodeGo false {} (GoSlice.ofBytes plain)).map (·.authCode) = R.ok (List.replicate 16 0) := by
  decide

end Bmc.Proofs.C17
