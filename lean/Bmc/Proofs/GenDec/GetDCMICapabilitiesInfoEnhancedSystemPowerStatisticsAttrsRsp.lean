import Bmc.Lemmas.GenDec
/-! # The decoders RE-TRANSLATED from the Go source on every run are the hand-written models (property-support theorems)

`Bmc.Gen.Dec.T.decodeGo` is emitted by `tools/decgen` from `(*T).DecodeFromBytes` as the source stands now, statement by
statement, over the Go-slice semantics of `Basic/Go.lean`. Each `T_gen_eq` says it IS the model `Bmc.Wire.X.decodeGo` that
C05 / C07 / C17 reason about — for every receiver value and every Go slice (every length, every capacity,
including the error, panic and over-read outcomes) — through `toModel` (`Lemmas/GenDec.lean`). A source change to one of
these decoders changes `Gen/Dec.lean` and breaks the corresponding obligation at build time. -/
/-! One obligation per module (split of Proofs/GenDec), so that a decoder whose translation changes breaks its own
    theorem only. -/
namespace Bmc.Proofs.GenDec
open Bmc Bmc.Gen.Dec Bmc.Lemmas.GenDec

theorem GetDCMICapabilitiesInfoEnhancedSystemPowerStatisticsAttrsRsp_gen_eq (prev : Cap5) (d : GoSlice) :
    (GetDCMICapabilitiesInfoEnhancedSystemPowerStatisticsAttrsRsp.decodeGo prev d).map
        GetDCMICapabilitiesInfoEnhancedSystemPowerStatisticsAttrsRsp.toModel
      = Wire.DcmiCap5.decodeGo (GetDCMICapabilitiesInfoEnhancedSystemPowerStatisticsAttrsRsp.toModel prev) d := by
  rw [Wire.DcmiCap5.decodeGo_refines]
  unfold GetDCMICapabilitiesInfoEnhancedSystemPowerStatisticsAttrsRsp.decodeGo Wire.DcmiCap5.decode
  simp only [GoSlice.vis_length]
  by_cases h : d.len < 3
  · unfold getDCMICapabilitiesInfoRspHeader.Decode
    simp only [h, if_true, R.bind_err, R.map, R.ofExcept_error]
  · simp only [hdr_decode_ok _ _ h, R.bind_ok, GoSlice.sub_len, h, if_false]
    by_cases hb : d.len - 3 < 1
    · simp only [hb, if_true, R.map, R.ofExcept_error]
    · simp only [hb, if_false]
      dcmi_simp
      have e3 : (List.take (d.len - 3) (List.drop 3 d.vis)).getD 0 0 = List.getD d.vis 3 0 := by
        rw [getD_take _ _ _ (by omega), getD_drop]
      simp only [e3]
      generalize hn : (List.getD d.vis 3 0).toNat = n
      by_cases hg : d.len - 3 < 1 + n
      · simp only [hg, if_true, R.map, R.ofExcept_error]
      · simp only [hg, if_false]
        rw [cap5_loop _ n (by simp only [GoSlice.sub_len]; omega) n (Nat.le_refl _) _ (by simp)]
        have e7 : GoDec.nat (((d.len : Nat) : Int) - ((d.len - 3 : Nat) : Int) + ((1 : Nat) : Int) + ((n : Nat) : Int)) = .ok (4 + n) := by
          rw [GoDec.nat_ok _ (by omega)]; congr 1; omega
        rw [e7]
        dcmi_simp
        simp only [GoSlice.take_len_drop_vis, GetDCMICapabilitiesInfoEnhancedSystemPowerStatisticsAttrsRsp.toModel,
          getDCMICapabilitiesInfoRspHeader.toModel, R.ofExcept_ok, Wire.DcmiHeader.ofBytes, List.drop_drop, Nat.sub_zero, List.drop_zero]
        have hp : List.take (d.len - 3 - (1 + n)) (List.drop (3 + (1 + n)) d.vis) = List.drop (4 + n) d.vis := by
          rw [show 3 + (1 + n) = 4 + n by omega]
          apply List.take_of_length_le; simp; omega
        have hq : List.map Int.toNat
            (List.map (fun i => dcmi_rollingAvgPeriodDuration ((List.drop 3 d.vis).getD (1 + i) 0)) (List.range n) ++
              List.drop n (List.replicate n 0)) = List.map Wire.rollingNs (List.take n (List.drop 4 d.vis)) := by
          rw [← Wire.range_getD d.vis 4 n (by simp; omega)]
          have hd : List.drop n (List.replicate n (0 : Int)) = [] := by simp
          rw [hd, List.append_nil, List.map_map, List.map_map, List.map_map]
          apply List.map_congr_left
          intro i _
          simp only [Function.comp_def, rolling_eq, getD_drop]
          congr 2; omega
        rw [hp, hq]

end Bmc.Proofs.GenDec
