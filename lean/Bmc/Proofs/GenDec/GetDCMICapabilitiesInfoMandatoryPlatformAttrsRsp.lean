import Bmc.Lemmas.GenDec
/-! # The decoders RE-TRANSLATED from the Go source on every run are the hand-written models (property-support theorems)

`Bmc.Gen.Dec.T.decodeGo` is emitted by `tools/decgen` from `(*T).DecodeFromBytes` as the source stands now, statement by
statement, over the Go-slice semantics of `Basic/Go.lean`. Each `T_gen_eq` says it IS the model `Bmc.Wire.X.decodeGo` that
C05 / C07 / C17 reason about — for every receiver value and every Go slice (every length, every capacity,
including the error, panic and over-read outcomes) — through `toModel` (`Lemmas/GenDec.lean`). A source change to one of
these decoders changes `Gen/Dec.lean` and breaks the corresponding obligation at build time. -/
/-! One obligation per module (split of Proofs/GenDec), so that a decoder whose translation changes breaks its own
    theorem only. -/
namespace Bmc.Proofs.GenDec
open Bmc Bmc.Gen.Dec Bmc.Lemmas.GenDec

theorem GetDCMICapabilitiesInfoMandatoryPlatformAttrsRsp_gen_eq (prev : GetDCMICapabilitiesInfoMandatoryPlatformAttrsRsp) (d : GoSlice) :
    (GetDCMICapabilitiesInfoMandatoryPlatformAttrsRsp.decodeGo prev d).map GetDCMICapabilitiesInfoMandatoryPlatformAttrsRsp.toModel
      = Wire.DcmiCap2.decodeGo (GetDCMICapabilitiesInfoMandatoryPlatformAttrsRsp.toModel prev) d := by
  unfold GetDCMICapabilitiesInfoMandatoryPlatformAttrsRsp.decodeGo Wire.DcmiCap2.decodeGo
  by_cases h : d.len < 3
  · unfold getDCMICapabilitiesInfoRspHeader.Decode Wire.DcmiHeader.decodeGo
    simp only [h, if_true, R.bind_err, R.map]
  · simp only [hdr_decode_ok _ _ h, dcmiHeader_ok _ h, R.bind_ok, GoSlice.sub_len, Wire.DcmiCap2.build, Wire.DcmiHeader.isV10]
    by_cases hb : d.len - 3 < 4
    · simp only [hb, if_true, R.map]
    · simp only [hb, if_false]
      by_cases hv : (d.len - 3 == 4 || (List.getD d.vis 0 0 == 1 && List.getD d.vis 1 0 == 0)) = true
      · simp only [hv, if_true]
        dcmi_simp
        simp only [GetDCMICapabilitiesInfoMandatoryPlatformAttrsRsp.toModel, getDCMICapabilitiesInfoRspHeader.toModel, le16_toNat,
          le16_pair, Int.toNat_natCast]
      · have h5 : d.len - 3 ≠ 4 := by
          intro e; apply hv; simp [e]
        simp only [hv, if_false, Bool.false_eq_true]
        dcmi_simp
        simp only [GetDCMICapabilitiesInfoMandatoryPlatformAttrsRsp.toModel, getDCMICapabilitiesInfoRspHeader.toModel, le16_toNat,
          le16_pair, Int.toNat_natCast]

end Bmc.Proofs.GenDec
