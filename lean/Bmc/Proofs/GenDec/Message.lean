import Bmc.Lemmas.GenDec
/-! # The decoders RE-TRANSLATED from the Go source on every run are the hand-written models (property-support theorems)

`Bmc.Gen.Dec.T.decodeGo` is emitted by `tools/decgen` from `(*T).DecodeFromBytes` as the source stands now, statement by
statement, over the Go-slice semantics of `Basic/Go.lean`. Each `T_gen_eq` says it IS the model `Bmc.Wire.X.decodeGo` that
C05 / C07 / C17 reason about — for every receiver value and every Go slice (every length, every capacity,
including the error, panic and over-read outcomes) — through `toModel` (`Lemmas/GenDec.lean`). A source change to one of
these decoders changes `Gen/Dec.lean` and breaks the corresponding obligation at build time. -/
/-! One obligation per module (split of Proofs/GenDec), so that a decoder whose translation changes breaks its own
    theorem only. -/
namespace Bmc.Proofs.GenDec
open Bmc Bmc.Gen.Dec Bmc.Lemmas.GenDec

theorem Message_gen_eq (prev : Message) (d : GoSlice) :
    (Message.decodeGo prev d).map Message.toModel = Wire.Message.decodeGo 8 (Message.toModel prev) d := by
  unfold Message.decodeGo Wire.Message.decodeGo
  by_cases h7 : d.len < 7
  · simp only [h7, if_true, R.map]
  · simp only [h7, if_false]
    msg_simp
    by_cases hc1 : (List.getD d.vis 2 0 != Prim.checksum (List.take (2 - 0) (List.drop 0 d.vis))) = true
    · simp only [hc1, if_true, R.map]
    · simp only [hc1, if_false, Bool.false_eq_true]
      by_cases hc2 : (List.getD d.vis (d.len - 1) 0 != Prim.checksum (List.take (d.len - 1 - 3) (List.drop 3 d.vis))) = true
      · simp only [hc2, if_true, R.map]
      · simp only [hc2, if_false, Bool.false_eq_true]
        simp only [Message.decodeRequest, Message.decodeResponse, Message.decodeDataHeader, Message.decodeSpecialNetFns,
          Wire.Message.specialGo, Wire.isGroup, Wire.isOEM]
        by_cases hreq : Wire.isRequest (List.getD d.vis 1 0 >>> 2) = true
        · simp only [hreq, Bool.not_true, Bool.false_and, if_true, if_false, Bool.false_eq_true]
          msg_simp
          by_cases hg : (List.getD d.vis 1 0 >>> 2 == 44 || List.getD d.vis 1 0 >>> 2 == 45) = true
          · simp only [hg, if_true]
            by_cases hl : d.len - 1 - 6 < 1
            · simp only [hl, if_true, R.bind_err, R.map]
            · simp only [hl, if_false]; msg_simp; simp only [Message.toModel]; try rfl
          · simp only [hg, if_false, Bool.false_eq_true]
            by_cases ho : (List.getD d.vis 1 0 >>> 2 == 46 || List.getD d.vis 1 0 >>> 2 == 47) = true
            · simp only [ho, if_true]
              by_cases hl : d.len - 1 - 6 < 3
              · simp only [hl, if_true, R.bind_err, R.map]
              · simp only [hl, if_false]; msg_simp; simp only [Message.toModel, or_shl24]; try rfl
            · simp only [ho, if_false, Bool.false_eq_true]; msg_simp; simp only [Message.toModel]; try rfl
        · simp only [hreq, Bool.not_false, Bool.true_and, if_false, Bool.false_eq_true, decide_eq_true_eq]
          by_cases h8 : d.len < 8
          · simp only [h8, if_true, R.map]
          · simp only [h8, if_false]
            msg_simp
            by_cases hg : (List.getD d.vis 1 0 >>> 2 == 44 || List.getD d.vis 1 0 >>> 2 == 45) = true
            · simp only [hg, if_true]
              by_cases hl : d.len - 1 - 7 < 1
              · simp only [hl, if_true, R.bind_err, R.map]
              · simp only [hl, if_false]; msg_simp; simp only [Message.toModel]; try rfl
            · simp only [hg, if_false, Bool.false_eq_true]
              by_cases ho : (List.getD d.vis 1 0 >>> 2 == 46 || List.getD d.vis 1 0 >>> 2 == 47) = true
              · simp only [ho, if_true]
                by_cases hl : d.len - 1 - 7 < 3
                · simp only [hl, if_true, R.bind_err, R.map]
                · simp only [hl, if_false]; msg_simp; simp only [Message.toModel, or_shl24]; try rfl
              · simp only [ho, if_false, Bool.false_eq_true]; msg_simp; simp only [Message.toModel]; try rfl

end Bmc.Proofs.GenDec
