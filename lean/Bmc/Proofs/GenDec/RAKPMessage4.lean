import Bmc.Lemmas.GenDec
/-! # The decoders RE-TRANSLATED from the Go source on every run are the hand-written models (property-support theorems)

`Bmc.Gen.Dec.T.decodeGo` is emitted by `tools/decgen` from `(*T).DecodeFromBytes` as the source stands now, statement by
statement, over the Go-slice semantics of `Basic/Go.lean`. Each `T_gen_eq` says it IS the model `Bmc.Wire.X.decodeGo` that
C05 / C07 / C17 reason about — for every receiver value and every Go slice (every length, every capacity,
including the error, panic and over-read outcomes) — through `toModel` (`Lemmas/GenDec.lean`). A source change to one of
these decoders changes `Gen/Dec.lean` and breaks the corresponding obligation at build time. -/
/-! One obligation per module (split of Proofs/GenDec), so that a decoder whose translation changes breaks its own
    theorem only. -/
namespace Bmc.Proofs.GenDec
open Bmc Bmc.Gen.Dec Bmc.Lemmas.GenDec

theorem RAKPMessage4_gen_eq (prev : RAKPMessage4) (d : GoSlice) :
    (RAKPMessage4.decodeGo prev d).map RAKPMessage4.toModel = Wire.Setup.RAKP4.decodeGo (RAKPMessage4.toModel prev) d := by
  unfold RAKPMessage4.decodeGo Wire.Setup.RAKP4.decodeGo
  by_cases h : d.len < 8
  · simp [h, R.map]
  · simp only [h, if_false]
    gen_simp
    by_cases hc : (List.getD d.vis 1 0 == 0 && decide (d.len > 8)) = true
    · have h8 : d.len > 8 := by simp at hc; exact hc.2
      simp only [hc, if_true]; simp only [RAKPMessage4.toModel, le32_toNat]
    · simp only [hc, if_false, Bool.false_eq_true]; simp only [RAKPMessage4.toModel, le32_toNat]

end Bmc.Proofs.GenDec
