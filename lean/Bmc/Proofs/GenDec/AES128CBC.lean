import Bmc.Lemmas.GenDecAes
/-! # The decoders RE-TRANSLATED from the Go source on every run are the hand-written models (property-support theorems)

`Bmc.Gen.Dec.T.decodeGo` is emitted by `tools/decgen` from `(*T).DecodeFromBytes` as the source stands now, statement by
statement, over the Go-slice semantics of `Basic/Go.lean`. Each `T_gen_eq` says it IS the model `Bmc.Wire.X.decodeGo` that
C05 / C07 / C17 reason about — for every receiver value and every Go slice (every length, every capacity,
including the error, panic and over-read outcomes) — through `toModel` (`Lemmas/GenDec.lean`). A source change to one of
these decoders changes `Gen/Dec.lean` and breaks the corresponding obligation at build time. -/
/-! One obligation per module (split of Proofs/GenDec), so that a decoder whose translation changes breaks its own
    theorem only. -/
namespace Bmc.Proofs.GenDec
open Bmc Bmc.Gen.Dec Bmc.Lemmas.GenDec Bmc.Crypto

/-- `AES128CBC.DecodeFromBytes` as re-translated is the hand model `Wire.AESLayer.decodeGo` (with the pad-start guard of the
    current tree). The external calls are PARAMETERS of the regenerated definition: `a.cipher.BlockSize()` is the constant 16
    (the field is only ever set from `aes.NewCipher`; `aes.BlockSize` as type-checked), and
    `cipher.NewCBCDecrypter(a.cipher, iv).CryptBlocks(data[16:], data[16:])` is `cipher_decryptCBC iv ciphertext`, here
    instantiated with the model's CBC decryption over a lawful block cipher (16-byte blocks); the in-place decryption is the
    slice `data` re-read afterwards (`GoDec.cryptBlocksInPlace`). -/
theorem AES128CBC_gen_eq (C : Ops) (hC : C.Lawful) (key : Bytes) (prev : AES128CBC) (d : GoSlice) :
    (AES128CBC.decodeGo (fun iv ct => cbcDec C key (ct.length / 16) iv ct) prev d).map AES128CBC.toModel
      = Wire.AESLayer.decodeGo C key true (AES128CBC.toModel prev) d := by
  rw [Wire.AESLayer.decodeGo_refines C hC]
  exact AES128CBC_pure C hC key prev d

end Bmc.Proofs.GenDec
