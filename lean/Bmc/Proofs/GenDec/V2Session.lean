import Bmc.Lemmas.GenDecV2Session
/-! # The decoders RE-TRANSLATED from the Go source on every run are the hand-written models (property-support theorems)

`Bmc.Gen.Dec.T.decodeGo` is emitted by `tools/decgen` from `(*T).DecodeFromBytes` as the source stands now, statement by
statement, over the Go-slice semantics of `Basic/Go.lean`. Each `T_gen_eq` says it IS the model `Bmc.Wire.X.decodeGo` that
C05 / C07 / C17 reason about — for every receiver value and every Go slice (every length, every capacity,
including the error, panic and over-read outcomes) — through `toModel` (`Lemmas/GenDec.lean`). A source change to one of
these decoders changes `Gen/Dec.lean` and breaks the corresponding obligation at build time. -/
/-! One obligation per module (split of Proofs/GenDec), so that a decoder whose translation changes breaks its own
    theorem only. -/
namespace Bmc.Proofs.GenDec
open Bmc Bmc.Gen.Dec Bmc.Lemmas.GenDec

/-- `V2Session.DecodeFromBytes` as re-translated is the hand model `Wire.V2Session.decodeGo`, for every receiver, every Go
    slice and every `mac`. The pad-scanning loop (`for b := 0xFF; offset < len(data) && b == 0xFF; offset++`) runs with FUEL
    `len(data) + 1` (the definition is in the monad `RF`; the equality with `RF.lift …` shows the fuel always suffices);
    `executeHash(s.IntegrityAlgorithm, data[:offset])` is the PARAMETER `mac` (the model's: the integrity algorithm already
    keyed, nil ⇒ no bytes) and `hmac.Equal` is equality of the byte strings. (`DecodeFromBytes` does not consult
    `payloadDescriptors`: that map is only read by `NextLayerType`, which is not a byte parser.) -/
theorem V2Session_gen_eq (mac : Bytes → Bytes) (prev : V2Session) (d : GoSlice) :
    (V2Session.decodeGo mac prev d).map V2Session.toModel
      = RF.lift (Wire.V2Session.decodeGo mac (V2Session.toModel prev) d) :=
  V2Session_lift mac prev d

end Bmc.Proofs.GenDec
