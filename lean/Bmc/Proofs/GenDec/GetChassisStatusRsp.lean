import Bmc.Lemmas.GenDec
/-! # The decoders RE-TRANSLATED from the Go source on every run are the hand-written models (property-support theorems)

`Bmc.Gen.Dec.T.decodeGo` is emitted by `tools/decgen` from `(*T).DecodeFromBytes` as the source stands now, statement by
statement, over the Go-slice semantics of `Basic/Go.lean`. Each `T_gen_eq` says it IS the model `Bmc.Wire.X.decodeGo` that
C05 / C07 / C17 reason about — for every receiver value and every Go slice (every length, every capacity,
including the error, panic and over-read outcomes) — through `toModel` (`Lemmas/GenDec.lean`). A source change to one of
these decoders changes `Gen/Dec.lean` and breaks the corresponding obligation at build time. -/
/-! One obligation per module (split of Proofs/GenDec), so that a decoder whose translation changes breaks its own
    theorem only. -/
namespace Bmc.Proofs.GenDec
open Bmc Bmc.Gen.Dec Bmc.Lemmas.GenDec

theorem GetChassisStatusRsp_gen_eq (prev : GetChassisStatusRsp) (d : GoSlice) :
    (GetChassisStatusRsp.decodeGo prev d).map GetChassisStatusRsp.toModel
      = Wire.GetChassisStatusRsp.decodeGo true (GetChassisStatusRsp.toModel prev) d := by
  unfold GetChassisStatusRsp.decodeGo Wire.GetChassisStatusRsp.decodeGo
  by_cases h : d.len < 3
  · simp [h, R.map]
  · simp only [h, if_false]
    by_cases h3 : d.len > 3
    · simp only [h3, if_true]
      gen_simp
      by_cases hc : (List.getD d.vis 2 0 &&& 64 != 0) = true <;> simp only [hc, if_true, if_false, Bool.false_eq_true] <;> gen_simp <;>
        simp only [GetChassisStatusRsp.toModel, pack_1f, pack_0f, pack_ff, pack_00]
    · simp only [h3, if_false]
      gen_simp
      by_cases hc : (List.getD d.vis 2 0 &&& 64 != 0) = true <;> simp only [hc, if_true, if_false, Bool.false_eq_true] <;> gen_simp <;>
        simp only [GetChassisStatusRsp.toModel, pack_1f, pack_0f, pack_ff, pack_00]

end Bmc.Proofs.GenDec
