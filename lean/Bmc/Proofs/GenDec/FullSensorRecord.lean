import Bmc.Lemmas.GenDec
import Bmc.Lemmas.GenDecFSR
/-! # The decoders RE-TRANSLATED from the Go source on every run are the hand-written models (property-support theorems)

`Bmc.Gen.Dec.T.decodeGo` is emitted by `tools/decgen` from `(*T).DecodeFromBytes` as the source stands now, statement by
statement, over the Go-slice semantics of `Basic/Go.lean`. Each `T_gen_eq` says it IS the model `Bmc.Wire.X.decodeGo` that
C05 / C07 / C17 reason about — for every receiver value and every Go slice (every length, every capacity,
including the error, panic and over-read outcomes) — through `toModel` (`Lemmas/GenDec.lean`). A source change to one of
these decoders changes `Gen/Dec.lean` and breaks the corresponding obligation at build time. -/
/-! One obligation per module (split of Proofs/GenDec), so that a decoder whose translation changes breaks its own
    theorem only. -/
namespace Bmc.Proofs.GenDec
open Bmc Bmc.Gen.Dec Bmc.Lemmas.GenDec

/-- `FullSensorRecord.DecodeFromBytes` as re-translated — with `complement.Twos` (10- and 4-bit sign extension through
    `uint16` arithmetic and `int16(…)` / `int8(…)`), `StringEncoding.Decoder()` (the map literal `stringEncodingDecoders` as a
    finite function into the closed sum of the three decoders of `id_string.go`) and those decoders (their loops, the float
    ceiling / floor idioms, `string(runes)`) — is the hand model `Wire.FullSensorRecord.decodeGo`. -/
theorem FullSensorRecord_gen_eq (prev : FullSensorRecord) (d : GoSlice) :
    (FullSensorRecord.decodeGo prev d).map FullSensorRecord.toModel
      = Wire.FullSensorRecord.decodeGo (FullSensorRecord.toModel prev) d := by
  unfold FullSensorRecord.decodeGo Wire.FullSensorRecord.decodeGo
  by_cases h : d.len < 43
  · simp only [h, if_true, R.map]
  · simp only [h, if_false]
    gen_simp
    simp only [List.set_cons_zero, List.set_cons_succ, twos10, twos4]
    rw [idDecoder_eq]
    cases hid : Wire.idDecoder (List.getD d.vis 42 0 >>> 6) (d.sub 43 d.len (by omega) (Nat.le_refl _)) (List.getD d.vis 42 0 &&& 31).toNat with
    | ok p =>
      simp only [R.map, R.bind_ok, natRes, nat_add]
      cases d.slice 0 (43 + p.2) <;> try rfl
      simp only [R.bind_ok]
      cases d.sliceFrom (43 + p.2) <;> rfl
    | err => rfl
    | panic => rfl
    | overread => rfl


end Bmc.Proofs.GenDec
