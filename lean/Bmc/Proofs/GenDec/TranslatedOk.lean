import Bmc.Lemmas.GenDec
/-! # The decoders RE-TRANSLATED from the Go source on every run are the hand-written models (property-support theorems)

`Bmc.Gen.Dec.T.decodeGo` is emitted by `tools/decgen` from `(*T).DecodeFromBytes` as the source stands now, statement by
statement, over the Go-slice semantics of `Basic/Go.lean`. Each `T_gen_eq` says it IS the model `Bmc.Wire.X.decodeGo` that
C05 / C07 / C17 reason about — for every receiver value and every Go slice (every length, every capacity,
including the error, panic and over-read outcomes) — through `toModel` (`Lemmas/GenDec.lean`). A source change to one of
these decoders changes `Gen/Dec.lean` and breaks the corresponding obligation at build time. -/
/-! One obligation per module (split of Proofs/GenDec), so that a decoder whose translation changes breaks its own
    theorem only. -/
namespace Bmc.Proofs.GenDec
open Bmc Bmc.Gen.Dec Bmc.Lemmas.GenDec

/-- the layers translated when this file was delivered; a layer the translator no longer manages is a broken obligation -/
theorem translated_ok : ∀ n ∈ [
    "ipmi.ReserveSDRRepositoryRsp", "ipmi.GetSystemGUIDRsp", "ipmi.SetSessionPrivilegeLevelRsp", "ipmi.GetSDRRsp",
    "ipmi.SDR", "ipmi.GetSensorReadingRsp", "ipmi.GetChannelCipherSuitesRsp",
    "ipmi.GetChannelAuthenticationCapabilitiesRsp", "ipmi.GetSDRRepositoryInfoRsp", "dcmi.GetPowerReadingRsp",
    "ipmi.GetChassisStatusRsp", "ipmi.GetDeviceIDRsp", "ipmi.RAKPMessage4", "ipmi.RAKPMessage2", "ipmi.RAKPMessage1",
    "ipmi.V1Session", "ipmi.GetSessionInfoRsp", "ipmi.SessionSelector", "ipmi.OpenSessionRsp",
    "dcmi.GetDCMICapabilitiesInfoManageabilityAccessAttrsRsp", "dcmi.GetDCMICapabilitiesInfoOptionalPlatformAttrsRsp",
    "dcmi.GetDCMICapabilitiesInfoSupportedCapabilitiesRsp", "dcmi.GetDCMICapabilitiesInfoMandatoryPlatformAttrsRsp",
    "ipmi.Message", "dcmi.GetDCMICapabilitiesInfoEnhancedSystemPowerStatisticsAttrsRsp", "dcmi.GetDCMISensorInfoRsp",
    "ipmi.FullSensorRecord", "ipmi.V2Session", "ipmi.AES128CBC", "bmc.parseCipherSuiteRecordData"],
    n ∈ Bmc.Gen.Dec.translated := by decide

end Bmc.Proofs.GenDec
