import Bmc.Lemmas.GenDec
/-! # The decoders RE-TRANSLATED from the Go source on every run are the hand-written models (property-support theorems)

`Bmc.Gen.Dec.T.decodeGo` is emitted by `tools/decgen` from `(*T).DecodeFromBytes` as the source stands now, statement by
statement, over the Go-slice semantics of `Basic/Go.lean`. Each `T_gen_eq` says it IS the model `Bmc.Wire.X.decodeGo` that
C05 / C07 / C17 reason about — for every receiver value and every Go slice (every length, every capacity,
including the error, panic and over-read outcomes) — through `toModel` (`Lemmas/GenDec.lean`). A source change to one of
these decoders changes `Gen/Dec.lean` and breaks the corresponding obligation at build time. -/
/-! One obligation per module (split of Proofs/GenDec), so that a decoder whose translation changes breaks its own
    theorem only. -/
namespace Bmc.Proofs.GenDec
open Bmc Bmc.Gen.Dec Bmc.Lemmas.GenDec

theorem SessionSelector_gen_eq (prev : SessionSelector) (d : GoSlice) :
    (SessionSelector.decodeGo prev d).map SessionSelector.toModel = Wire.Setup.Selector.decodeGo (SessionSelector.toModel prev) d := by
  unfold SessionSelector.decodeGo Wire.Setup.Selector.decodeGo
  by_cases h : d.len < 1
  · simp [h, R.map]
  · simp only [h, if_false]
    gen_simp
    simp [SessionSelector.toModel]

end Bmc.Proofs.GenDec
