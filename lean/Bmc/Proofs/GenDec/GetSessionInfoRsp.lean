import Bmc.Lemmas.GenDec
/-! # The decoders RE-TRANSLATED from the Go source on every run are the hand-written models (property-support theorems)

`Bmc.Gen.Dec.T.decodeGo` is emitted by `tools/decgen` from `(*T).DecodeFromBytes` as the source stands now, statement by
statement, over the Go-slice semantics of `Basic/Go.lean`. Each `T_gen_eq` says it IS the model `Bmc.Wire.X.decodeGo` that
C05 / C07 / C17 reason about — for every receiver value and every Go slice (every length, every capacity,
including the error, panic and over-read outcomes) — through `toModel` (`Lemmas/GenDec.lean`). A source change to one of
these decoders changes `Gen/Dec.lean` and breaks the corresponding obligation at build time. -/
/-! One obligation per module (split of Proofs/GenDec), so that a decoder whose translation changes breaks its own
    theorem only. -/
namespace Bmc.Proofs.GenDec
open Bmc Bmc.Gen.Dec Bmc.Lemmas.GenDec

theorem GetSessionInfoRsp_gen_eq (prev : GetSessionInfoRsp) (d : GoSlice) :
    (GetSessionInfoRsp.decodeGo prev d).map GetSessionInfoRsp.toModel
      = Wire.SessionInfoRsp.decodeGo (GetSessionInfoRsp.toModel prev) d := by
  unfold GetSessionInfoRsp.decodeGo Wire.SessionInfoRsp.decodeGo
  by_cases h : d.len < 3
  · simp [h, R.map]
  · simp only [h, if_false]
    gen_simp
    by_cases hc : (List.getD d.vis 0 0 == 0 && d.len == 3) = true
    · simp only [hc, if_true]; (try gen_simp); simp only [GetSessionInfoRsp.toModel]; rfl
    · simp only [hc, if_false, Bool.false_eq_true]
      by_cases h6 : d.len < 6
      · simp only [h6, if_true, R.map]
      · simp only [h6, if_false]; (try gen_simp)
        by_cases h18 : d.len < 18
        · simp only [h18, if_true]; (try gen_simp); simp only [GetSessionInfoRsp.toModel]; rfl
        · simp only [h18, if_false]; (try gen_simp)
          simp (disch := len_disch) only [GetSessionInfoRsp.toModel, le16_toNat, GoDec.copyArr_full, copyAt_v4, List.take_take, Nat.min_self]

end Bmc.Proofs.GenDec
