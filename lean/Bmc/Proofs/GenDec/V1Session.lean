import Bmc.Lemmas.GenDec
/-! # The decoders RE-TRANSLATED from the Go source on every run are the hand-written models (property-support theorems)

`Bmc.Gen.Dec.T.decodeGo` is emitted by `tools/decgen` from `(*T).DecodeFromBytes` as the source stands now, statement by
statement, over the Go-slice semantics of `Basic/Go.lean`. Each `T_gen_eq` says it IS the model `Bmc.Wire.X.decodeGo` that
C05 / C07 / C17 reason about — for every receiver value and every Go slice (every length, every capacity,
including the error, panic and over-read outcomes) — through `toModel` (`Lemmas/GenDec.lean`). A source change to one of
these decoders changes `Gen/Dec.lean` and breaks the corresponding obligation at build time. -/
/-! One obligation per module (split of Proofs/GenDec), so that a decoder whose translation changes breaks its own
    theorem only. -/
namespace Bmc.Proofs.GenDec
open Bmc Bmc.Gen.Dec Bmc.Lemmas.GenDec

theorem V1Session_gen_eq (prev : V1Session) (d : GoSlice) :
    (V1Session.decodeGo prev d).map V1Session.toModel = Wire.V1Session.decodeGo true (V1Session.toModel prev) d := by
  unfold V1Session.decodeGo Wire.V1Session.decodeGo
  by_cases h : d.len < 10
  · simp [h, R.map]
  · simp only [h, if_false]
    gen_simp
    by_cases hc : (List.getD d.vis 0 0 == 0) = true
    · simp only [hc, if_true]; (try gen_simp); simp only [V1Session.toModel, le32_toNat]
    · simp only [hc, if_false, Bool.false_eq_true]
      by_cases h26 : d.len < 26
      · simp [h26, R.map]
      · simp only [h26, if_false]; (try gen_simp)
        simp (disch := len_disch) only [V1Session.toModel, le32_toNat, GoDec.copyArr_full, List.take_take, Nat.min_self]

end Bmc.Proofs.GenDec
