import Bmc.Lemmas.GenDec
/-! # The decoders RE-TRANSLATED from the Go source on every run are the hand-written models (property-support theorems)

`Bmc.Gen.Dec.T.decodeGo` is emitted by `tools/decgen` from `(*T).DecodeFromBytes` as the source stands now, statement by
statement, over the Go-slice semantics of `Basic/Go.lean`. Each `T_gen_eq` says it IS the model `Bmc.Wire.X.decodeGo` that
C05 / C07 / C17 reason about — for every receiver value and every Go slice (every length, every capacity,
including the error, panic and over-read outcomes) — through `toModel` (`Lemmas/GenDec.lean`). A source change to one of
these decoders changes `Gen/Dec.lean` and breaks the corresponding obligation at build time. -/
/-! One obligation per module (split of Proofs/GenDec), so that a decoder whose translation changes breaks its own
    theorem only. -/
namespace Bmc.Proofs.GenDec
open Bmc Bmc.Gen.Dec Bmc.Lemmas.GenDec

theorem RAKPMessage1_gen_eq (prev : RAKPMessage1) (d : GoSlice) :
    (RAKPMessage1.decodeGo prev d).map RAKPMessage1.toModel = Wire.Setup.RAKP1.decodeGo (RAKPMessage1.toModel prev) d := by
  unfold RAKPMessage1.decodeGo Wire.Setup.RAKP1.decodeGo
  by_cases h : d.len < 28
  · simp [h, R.map]
  · simp only [h, if_false]
    gen_simp
    by_cases hn : List.getD d.vis 27 0 > 16
    · simp only [hn, if_true, R.map]
    · simp only [hn, if_false]
      by_cases hl : d.len < (28 + List.getD d.vis 27 0).toNat
      · simp only [hl, if_true, R.map]
      · simp only [hl, if_false]
        have : 28 ≤ (28 + List.getD d.vis 27 0).toNat := by
          have : (List.getD d.vis 27 0).toNat ≤ 16 := by
            have := UInt8.not_lt.mp hn; exact UInt8.le_iff_toNat_le.mp this
          rw [UInt8.toNat_add]; have : (28 : UInt8).toNat = 28 := rfl; omega
        gen_simp
        simp (disch := len_disch) only [RAKPMessage1.toModel, le32_toNat, GoDec.copyArr_full, List.take_take, Nat.min_self]

end Bmc.Proofs.GenDec
