import Bmc.Lemmas.GenDec
/-! # The decoders RE-TRANSLATED from the Go source on every run are the hand-written models (property-support theorems)

`Bmc.Gen.Dec.T.decodeGo` is emitted by `tools/decgen` from `(*T).DecodeFromBytes` as the source stands now, statement by
statement, over the Go-slice semantics of `Basic/Go.lean`. Each `T_gen_eq` says it IS the model `Bmc.Wire.X.decodeGo` that
C05 / C07 / C17 reason about — for every receiver value and every Go slice (every length, every capacity,
including the error, panic and over-read outcomes) — through `toModel` (`Lemmas/GenDec.lean`). A source change to one of
these decoders changes `Gen/Dec.lean` and breaks the corresponding obligation at build time. -/
/-! One obligation per module (split of Proofs/GenDec), so that a decoder whose translation changes breaks its own
    theorem only. -/
namespace Bmc.Proofs.GenDec
open Bmc Bmc.Gen.Dec Bmc.Lemmas.GenDec

theorem GetDCMISensorInfoRsp_gen_eq (prev : GetDCMISensorInfoRsp) (prevM : Wire.SensorInfo) (d : GoSlice) :
    (GetDCMISensorInfoRsp.decodeGo prev d).map GetDCMISensorInfoRsp.toView
      = (Wire.SensorInfo.decodeGo prevM d).map Wire.SensorInfo.view := by
  rw [Wire.SensorInfo.decodeGo_refines]
  unfold GetDCMISensorInfoRsp.decodeGo Wire.SensorInfoView.decode
  simp only [GoSlice.vis_length]
  by_cases h : d.len < 2
  · simp only [h, if_true, R.map, R.ofExcept_error]
  · simp only [h, if_false]
    gen_simp
    generalize hn : (List.getD d.vis 1 0).toNat = n
    by_cases hg : d.len < 2 + n * 2
    · simp only [hg, if_true, R.map, R.ofExcept_error]
    · simp only [hg, if_false]
      rw [sensorInfo_loop d n (by omega) n (Nat.le_refl _)]
      simp only [R.bind_ok, R.map, R.ofExcept_ok, GetDCMISensorInfoRsp.toView, List.nil_append, List.map_map, Function.comp_def,
        le16_toNat, Nat.sub_zero, List.drop_zero, GoSlice.take_len_drop_vis]

end Bmc.Proofs.GenDec
