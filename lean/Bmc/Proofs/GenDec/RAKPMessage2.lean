import Bmc.Lemmas.GenDec
/-! # The decoders RE-TRANSLATED from the Go source on every run are the hand-written models (property-support theorems)

`Bmc.Gen.Dec.T.decodeGo` is emitted by `tools/decgen` from `(*T).DecodeFromBytes` as the source stands now, statement by
statement, over the Go-slice semantics of `Basic/Go.lean`. Each `T_gen_eq` says it IS the model `Bmc.Wire.X.decodeGo` that
C05 / C07 / C17 reason about — for every receiver value and every Go slice (every length, every capacity,
including the error, panic and over-read outcomes) — through `toModel` (`Lemmas/GenDec.lean`). A source change to one of
these decoders changes `Gen/Dec.lean` and breaks the corresponding obligation at build time. -/
/-! One obligation per module (split of Proofs/GenDec), so that a decoder whose translation changes breaks its own
    theorem only. -/
namespace Bmc.Proofs.GenDec
open Bmc Bmc.Gen.Dec Bmc.Lemmas.GenDec

theorem RAKPMessage2_gen_eq (prev : RAKPMessage2) (d : GoSlice) :
    (RAKPMessage2.decodeGo prev d).map RAKPMessage2.toModel = Wire.RAKP2.decodeGo true (RAKPMessage2.toModel prev) d := by
  unfold RAKPMessage2.decodeGo Wire.RAKP2.decodeGo
  by_cases h : d.len < 8
  · simp [h, R.map]
  · simp only [h, if_false]
    gen_simp
    by_cases hc : (List.getD d.vis 1 0 == 0) = true
    · simp only [hc, if_true, Bool.true_and, decide_eq_true_eq]
      by_cases h40 : d.len < 40
      · simp [h40, R.map]
      · simp only [h40, if_false]
        by_cases h41 : d.len > 40
        · simp only [h41, if_true]; (try gen_simp)
          simp (disch := len_disch) only [RAKPMessage2.toModel, le32_toNat, GoDec.copyArr_full, List.take_take, Nat.min_self]
        · simp only [h41, if_false]; (try gen_simp)
          simp (disch := len_disch) only [RAKPMessage2.toModel, le32_toNat, GoDec.copyArr_full, List.take_take, Nat.min_self]
    · simp only [hc, if_false, Bool.false_eq_true]; (try gen_simp); simp only [RAKPMessage2.toModel, le32_toNat]

end Bmc.Proofs.GenDec
