import Bmc.Lemmas.GenDec
/-! # The decoders RE-TRANSLATED from the Go source on every run are the hand-written models (property-support theorems)

`Bmc.Gen.Dec.T.decodeGo` is emitted by `tools/decgen` from `(*T).DecodeFromBytes` as the source stands now, statement by
statement, over the Go-slice semantics of `Basic/Go.lean`. Each `T_gen_eq` says it IS the model `Bmc.Wire.X.decodeGo` that
C05 / C07 / C17 reason about — for every receiver value and every Go slice (every length, every capacity,
including the error, panic and over-read outcomes) — through `toModel` (`Lemmas/GenDec.lean`). A source change to one of
these decoders changes `Gen/Dec.lean` and breaks the corresponding obligation at build time. -/
/-! One obligation per module (split of Proofs/GenDec), so that a decoder whose translation changes breaks its own
    theorem only. -/
namespace Bmc.Proofs.GenDec
open Bmc Bmc.Gen.Dec Bmc.Lemmas.GenDec

theorem OpenSessionRsp_gen_eq (prev : OpenSessionRsp) (d : GoSlice) :
    (OpenSessionRsp.decodeGo prev d).map OpenSessionRsp.toModel
      = Wire.Setup.OpenSessionRsp.decodeGo (OpenSessionRsp.toModel prev) d := by
  unfold OpenSessionRsp.decodeGo Wire.Setup.OpenSessionRsp.decodeGo Wire.Setup.OpenSessionRsp.tailGo
  by_cases h1 : (d.len == 1) = true
  · have h1' : d.len = 1 := by simpa using h1
    have hne : (d.len != 36) = true := by simp [h1']
    simp only [h1, if_true]
    gen_simp
    by_cases hs : (List.getD d.vis 0 0 == 0) = true
    · simp only [hs, hne, if_true, R.bind_err, R.map]
    · simp only [hs, if_false, Bool.false_eq_true]; (try gen_simp); simp only [OpenSessionRsp.toModel]; rfl
  · simp only [h1, if_false, Bool.false_eq_true]
    by_cases h7 : d.len < 7
    · simp only [h7, if_true, R.bind_err, R.map]
    · simp only [h7, if_false]
      gen_simp
      by_cases hs : (List.getD d.vis 1 0 == 0) = true
      · simp only [hs, if_true]
        by_cases h36 : (d.len != 36) = true
        · simp only [h36, if_true, R.bind_err, R.map]
        · simp only [h36, if_false, Bool.false_eq_true]
          have : d.len = 36 := by simpa using h36
          gen_simp
          simp only [← auth_deserialise prev.authenticationPayload, ← integ_deserialise prev.integrityPayload,
            ← conf_deserialise prev.confidentialityPayload]
          generalize AuthenticationPayload.Deserialise prev.authenticationPayload _ = ra
          generalize IntegrityPayload.Deserialise prev.integrityPayload _ = ri
          generalize ConfidentialityPayload.Deserialise prev.confidentialityPayload _ = rc
          cases ra <;> first | rfl | skip
          cases ri <;> first | rfl | skip
          cases rc <;> first | rfl | skip
          simp only [R.map, R.bind_ok, R.pure_eq, OpenSessionRsp.toModel, le32_toNat]
      · simp only [hs, if_false, Bool.false_eq_true]; (try gen_simp); simp only [OpenSessionRsp.toModel, le32_toNat]; rfl

end Bmc.Proofs.GenDec
