import Bmc.Lemmas.GenDecSuites
/-! # The decoders RE-TRANSLATED from the Go source on every run are the hand-written models (property-support theorems)

`Bmc.Gen.Dec.T.decodeGo` is emitted by `tools/decgen` from `(*T).DecodeFromBytes` as the source stands now, statement by
statement, over the Go-slice semantics of `Basic/Go.lean`. Each `T_gen_eq` says it IS the model `Bmc.Wire.X.decodeGo` that
C05 / C07 / C17 reason about — for every receiver value and every Go slice (every length, every capacity,
including the error, panic and over-read outcomes) — through `toModel` (`Lemmas/GenDec.lean`). A source change to one of
these decoders changes `Gen/Dec.lean` and breaks the corresponding obligation at build time. -/
/-! One obligation per module (split of Proofs/GenDec), so that a decoder whose translation changes breaks its own
    theorem only. -/
namespace Bmc.Proofs.GenDec
open Bmc Bmc.Gen.Dec Bmc.Lemmas.GenDec

/-- `parseCipherSuiteRecordData` (cipher_suites.go) as re-translated — the outer `for len(joined) > 0` loop and the two
    scanning loops run with FUEL `len(joined) + 1` (`GoDec.loopM`), the nested `range` product as folds — is the model
    `Proto.Enum.parseRecords` of C16 / C12 on the bytes the slice denotes, for EVERY Go slice (whatever lies behind its
    length); in particular the regenerated definition never runs out of fuel (`RF.lift` has no `outOfFuel`). -/
theorem parseCipherSuiteRecordData_gen_eq (d : GoSlice) :
    (bmc_parseCipherSuiteRecordData d).map (List.map CipherSuiteRecord.toEntry)
      = RF.lift (Proto.Enum.parseRecords d.vis) := by
  rw [bmc_parse_unfold]
  have h := outer_loop (d.len + 1) d [] (d.vis.length + 1) (by omega) (by simp)
  simp only [List.map_nil] at h
  unfold Proto.Enum.parseRecords
  rw [← h]
  cases GoDec.loopM (d.len + 1) stepG (d, []) <;> rfl

/-- the fuel the translator chose always suffices -/
theorem parseCipherSuiteRecordData_fuel (d : GoSlice) : bmc_parseCipherSuiteRecordData d ≠ RF.outOfFuel := by
  intro h
  have := parseCipherSuiteRecordData_gen_eq d
  rw [h] at this
  cases hp : Proto.Enum.parseRecords d.vis <;> rw [hp] at this <;> cases this

end Bmc.Proofs.GenDec
