import Bmc.Proto.Timing
import Bmc.Gen.Facts
/-! # C13 — blocking calls never outlive their context (property theorems only; PARTIAL)

What is proved is about the time model under assumptions A1–A3 (see `Proto/Timing.lean`); socket deadlines, timers
and the scheduler themselves are outside Lean. The assumptions are tied to the source by regenerated syntactic facts
(below) and the property is exercised over real UDP sockets by the `time` scenario. -/
namespace Bmc.Proofs.C13
open Bmc.Proto.Timing

/-- for EVERY behaviour of the BMC (any stream of attempt durations, outcomes and back-off proposals), any
    per-attempt timeout T ≥ 1 and any deadline D: with D − now + 1 units of fuel the call returns, no later than
    max now D, and it reports success only if some attempt received a final response -/
theorem returns_by_deadline (T D : Nat) (hT : 1 ≤ T) (att : Nat → Att) (f i now : Nat) (hf : D - now + 1 ≤ f) :
    ∃ t r, run T D att f i now = some (t, r) ∧ t ≤ max now D ∧ (r = true → ∃ j, (att j).final = true) := by
  induction f generalizing i now with
  | zero => omega
  | succ f ih =>
    unfold run
    by_cases hd : D ≤ now
    · simp only [hd, if_true]
      exact ⟨now, false, rfl, by omega, by simp⟩
    · simp only [hd, if_false]
      have hlt : now < D := by omega
      have hend1 : now + 1 ≤ attemptEnd T D now (att i).dur := by unfold attemptEnd; omega
      have hend2 : attemptEnd T D now (att i).dur ≤ D := by unfold attemptEnd; omega
      split
      · rename_i hfin
        refine ⟨_, true, rfl, by omega, fun _ => ⟨i, ?_⟩⟩
        simp at hfin; exact hfin.2
      · split
        · exact ⟨_, false, rfl, by omega, by simp⟩
        · rename_i hgo
          simp at hgo
          have := ih (i + 1) (attemptEnd T D now (att i).dur + (att i).backoff) (by omega)
          obtain ⟨t, r, h1, h2, h3⟩ := this
          exact ⟨t, r, h1, by omega, h3⟩

/-- a call made with an already expired context returns at once, with an error, after at most one attempt -/
theorem expired_context (T D : Nat) (att : Nat → Att) (f i now : Nat) (h : D ≤ now) :
    run T D att (f + 1) i now = some (now, false) := by
  simp [run, h]

/-- no call reports success without having received a final response in time -/
theorem no_false_success (T D : Nat) (att : Nat → Att) (f i now t : Nat) (h : run T D att f i now = some (t, true)) :
    ∃ j, i ≤ j ∧ (att j).final = true := by
  induction f generalizing i now with
  | zero => simp [run] at h
  | succ f ih =>
    unfold run at h
    split at h
    · simp at h
    · simp only [] at h
      split at h
      · rename_i hfin
        simp at hfin
        exact ⟨i, Nat.le_refl _, hfin.2⟩
      · split at h
        · simp at h
        · obtain ⟨j, hj, hf⟩ := ih _ _ h
          exact ⟨j, by omega, hf⟩

/-- the single-loop facts in the form the composite calls need: the loop returns, at a time between `now` and
    `max now D` -/
theorem run_bounds (T D : Nat) (hT : 1 ≤ T) (att : Nat → Att) (f i now : Nat) (hf : D - now + 1 ≤ f) :
    ∃ t r, run T D att f i now = some (t, r) ∧ now ≤ t ∧ t ≤ max now D := by
  induction f generalizing i now with
  | zero => omega
  | succ f ih =>
    unfold run
    by_cases hd : D ≤ now
    · simp only [hd, if_true]; exact ⟨now, false, rfl, by omega, by omega⟩
    · simp only [hd, if_false]
      have hend1 : now + 1 ≤ attemptEnd T D now (att i).dur := by unfold attemptEnd; omega
      have hend2 : attemptEnd T D now (att i).dur ≤ D := by unfold attemptEnd; omega
      split
      · exact ⟨_, true, rfl, by omega, by omega⟩
      · split
        · exact ⟨_, false, rfl, by omega, by omega⟩
        · rename_i hgo
          simp at hgo
          obtain ⟨t, r, h1, h2, h3⟩ := ih (i + 1) (attemptEnd T D now (att i).dur + (att i).backoff) (by omega)
          exact ⟨t, r, h1, by omega, by omega⟩

/-- MULTI-STEP CALLS (session handshake, session close, one SDR walk): any number of steps, each a retry loop under the
    caller's context with ANY behaviour of the BMC at ANY step: with D − now + 1 units of fuel per step the call
    returns, no later than max now D -/
theorem sequence_returns_by_deadline (T D : Nat) (hT : 1 ≤ T) (fuel : Nat) (steps : List (Nat → Att)) (now : Nat)
    (hf : D - now + 1 ≤ fuel) :
    ∃ t r, runSeq T D fuel steps now = some (t, r) ∧ now ≤ t ∧ t ≤ max now D := by
  induction steps generalizing now with
  | nil => exact ⟨now, true, rfl, by omega, by omega⟩
  | cons att rest ih =>
    obtain ⟨t, r, h1, h2, h3⟩ := run_bounds T D hT att fuel 0 now hf
    simp only [runSeq, h1]
    cases r with
    | false => exact ⟨t, false, rfl, h2, h3⟩
    | true =>
      obtain ⟨t', r', g1, g2, g3⟩ := ih t (by omega)
      exact ⟨t', r', g1, by omega, by omega⟩

/-- SDR REPOSITORY RETRIEVAL: the outer retry over whole walks, with any back-off proposals and any BMC behaviour in
    every walk (modifications, lost reservations, black holes …): returns no later than max now D -/
theorem retrieval_returns_by_deadline (T D : Nat) (hT : 1 ≤ T) (fuel : Nat) (walk : Nat → List (Nat → Att))
    (backoff : Nat → Nat) (f i now : Nat) (hfuel : D + 1 ≤ fuel) (hf : D - now + 1 ≤ f) :
    ∃ t r, runOuter T D fuel walk backoff f i now = some (t, r) ∧ t ≤ max now D := by
  induction f generalizing i now with
  | zero => omega
  | succ f ih =>
    unfold runOuter
    by_cases hd : D ≤ now
    · simp only [hd, if_true]; exact ⟨now, false, rfl, by omega⟩
    · simp only [hd, if_false]
      obtain ⟨t, r, h1, h2, h3⟩ := sequence_returns_by_deadline T D hT fuel (walk i) now (by omega)
      rw [h1]
      cases r with
      | true => exact ⟨t, true, rfl, h3⟩
      | false =>
        simp only []
        split
        · exact ⟨t, false, rfl, h3⟩
        · rename_i hgo
          simp at hgo
          obtain ⟨t', r', g1, g2⟩ := ih (i + 1) (max (t + backoff i) (now + 1)) (by omega)
          exact ⟨t', r', g1, by omega⟩

/-- … and an expired context ends every composite call at once -/
theorem expired_context_composite (T D fuel : Nat) (att : Nat → Att) (rest : List (Nat → Att)) (walk : Nat → List (Nat → Att))
    (backoff : Nat → Nat) (f i now : Nat) (h : D ≤ now) :
    runSeq T D (fuel + 1) (att :: rest) now = some (now, false) ∧
    runOuter T D fuel walk backoff (f + 1) i now = some (now, false) := by
  constructor
  · simp [runSeq, run, h]
  · simp [runOuter, h]

example : runSeq 3 20 30 [fun _ => ⟨1, true, 0⟩, fun i => ⟨1, i == 1, 2⟩, fun _ => ⟨9, false, 2⟩] 0 = some (20, false) := by decide

/-- TIE to the source (regenerated on every run): every per-attempt context is derived from the caller's context, every
    retry loop runs under `backoff.WithContext(_, ctx)`, and `transport.Send` sets both socket deadlines from its context -/
theorem timing_facts :
    Bmc.Gen.Facts.bmc_withTimeoutCalls = 3 ∧ Bmc.Gen.Facts.bmc_withTimeoutFromCallerCtx = true ∧
    Bmc.Gen.Facts.bmc_retryCalls = 4 ∧ Bmc.Gen.Facts.bmc_retryAllWithContext = true ∧
    Bmc.Gen.Facts.transport_deadlinesFromCtx = 2 := by decide

/-- … and no call anywhere in the library hands a context to a callee other than the enclosing function's own context
    parameter or one derived from it in the same function by `context.WithTimeout / WithDeadline / WithCancel` (no
    `context.Background()`, no stored context): the deadline of the caller reaches every blocking step. -/
theorem context_pass_through : Bmc.Gen.Facts.contextArgsForeign = [] := by decide

example : run 3 10 (fun _ => ⟨5, false, 2⟩) 12 0 0 = some (10, false) := by decide
example : run 3 10 (fun i => ⟨1, i == 2, 1⟩) 12 0 0 = some (5, true) := by decide

end Bmc.Proofs.C13
