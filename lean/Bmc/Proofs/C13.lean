import Bmc.Proto.Timing
import Bmc.Gen.Facts
/-! # C13 — blocking calls never outlive their context (property theorems only; PARTIAL)

What is proved is about the time model under assumptions A1–A3 (see `Proto/Timing.lean`); socket deadlines, timers
and the scheduler themselves are outside Lean. The assumptions are tied to the source by regenerated syntactic facts
(below) and the property is exercised over real UDP sockets by the `time` scenario. -/
namespace Bmc.Proofs.C13
open Bmc.Proto.Timing

/-- for EVERY behaviour of the BMC (any stream of attempt durations, outcomes and back-off proposals), any
    per-attempt timeout T ≥ 1 and any deadline D: with D − now + 1 units of fuel the call returns, no later than
    max now D, and it reports success only if some attempt received a final response -/
theorem returns_by_deadline (T D : Nat) (hT : 1 ≤ T) (att : Nat → Att) (f i now : Nat) (hf : D - now + 1 ≤ f) :
    ∃ t r, run T D att f i now = some (t, r) ∧ t ≤ max now D ∧ (r = true → ∃ j, (att j).final = true) := by
  induction f generalizing i now with
  | zero => omega
  | succ f ih =>
    unfold run
    by_cases hd : D ≤ now
    · simp only [hd, if_true]
      exact ⟨now, false, rfl, by omega, by simp⟩
    · simp only [hd, if_false]
      have hlt : now < D := by omega
      have hend1 : now + 1 ≤ attemptEnd T D now (att i).dur := by unfold attemptEnd; omega
      have hend2 : attemptEnd T D now (att i).dur ≤ D := by unfold attemptEnd; omega
      split
      · rename_i hfin
        refine ⟨_, true, rfl, by omega, fun _ => ⟨i, ?_⟩⟩
        simp at hfin; exact hfin.2
      · split
        · exact ⟨_, false, rfl, by omega, by simp⟩
        · rename_i hgo
          simp at hgo
          have := ih (i + 1) (attemptEnd T D now (att i).dur + (att i).backoff) (by omega)
          obtain ⟨t, r, h1, h2, h3⟩ := this
          exact ⟨t, r, h1, by omega, h3⟩

/-- a call made with an already expired context returns at once, with an error, after at most one attempt -/
theorem expired_context (T D : Nat) (att : Nat → Att) (f i now : Nat) (h : D ≤ now) :
    run T D att (f + 1) i now = some (now, false) := by
  simp [run, h]

/-- no call reports success without having received a final response in time -/
theorem no_false_success (T D : Nat) (att : Nat → Att) (f i now t : Nat) (h : run T D att f i now = some (t, true)) :
    ∃ j, i ≤ j ∧ (att j).final = true := by
  induction f generalizing i now with
  | zero => simp [run] at h
  | succ f ih =>
    unfold run at h
    split at h
    · simp at h
    · simp only [] at h
      split at h
      · rename_i hfin
        simp at hfin
        exact ⟨i, Nat.le_refl _, hfin.2⟩
      · split at h
        · simp at h
        · obtain ⟨j, hj, hf⟩ := ih _ _ h
          exact ⟨j, by omega, hf⟩

/-- TIE to the source (regenerated on every run): every per-attempt context is derived from the caller's context, every
    retry loop runs under `backoff.WithContext(_, ctx)`, and `transport.Send` sets both socket deadlines from its context -/
theorem timing_facts :
    Bmc.Gen.Facts.bmc_withTimeoutCalls = 3 ∧ Bmc.Gen.Facts.bmc_withTimeoutFromCallerCtx = true ∧
    Bmc.Gen.Facts.bmc_retryCalls = 4 ∧ Bmc.Gen.Facts.bmc_retryAllWithContext = true ∧
    Bmc.Gen.Facts.transport_deadlinesFromCtx = 2 := by decide

example : run 3 10 (fun _ => ⟨5, false, 2⟩) 12 0 0 = some (10, false) := by decide
example : run 3 10 (fun i => ⟨1, i == 2, 1⟩) 12 0 0 = some (5, true) := by decide

end Bmc.Proofs.C13
