import Bmc.Driver.Dec
import Bmc.Wire.Dcmi
/-! Driver entries for the pkg/dcmi response layers. Field names and order are those of the Go harness's
    reflection dump: BaseLayer's Contents / Payload, the layer's own exported fields in declaration order, then
    (capabilities layers) `Header={…}` — the harness wrapper's copy of the promoted fields of the unexported
    embedded header struct, which the dump would otherwise skip. -/
namespace Bmc.Driver
open Bmc Bmc.Wire

def kvL (k : String) (l : List Nat) : String := s!"{k}=[{",".intercalate (l.map toString)}]"
def showHdr (h : DcmiHeader) : String :=
  s!"Header=\{MajorVersion={h.major.toNat},MinorVersion={h.minor.toNat},Revision={h.revision.toNat}}"

def showCap1 (g : DcmiCap1) : String := fields [
  kvH "Contents" g.contents, kvH "Payload" g.payload,
  kvB "TemperatureMonitor" g.temperatureMonitor, kvB "ChassisPower" g.chassisPower, kvB "SELLogging" g.selLogging,
  kvB "Identification" g.identification, kvB "PowerManagement" g.powerManagement, kvB "VLANCapable" g.vlanCapable,
  kvB "SOLSupported" g.solSupported, kvB "OOBPrimaryLANChannelAvailable" g.oobPrimary,
  kvB "OOBSecondaryLANChannelAvailable" g.oobSecondary, kvB "SerialTMODEAvailable" g.serialTMODE,
  kvB "IBKCSChannelAvailable" g.ibKCS, kvB "IBSystemInterfaceChannelAvailable" g.ibSystemInterface, showHdr g.hdr]

def showCap2 (g : DcmiCap2) : String := fields [
  kvH "Contents" g.contents, kvH "Payload" g.payload,
  kvB "SELAutoRollover" g.selAutoRollover, kvB "SELFlushOnRollover" g.selFlushOnRollover,
  kvB "SELRecordLevelFlushOnRollover" g.selRecordLevelFlushOnRollover, kvN "SELMaxEntries" g.selMaxEntries,
  kvB "AssetTagSupport" g.assetTagSupport, kvB "DHCPHostNameSupport" g.dhcpHostNameSupport, kvB "GUIDSupport" g.guidSupport,
  kvB "BaseboardTemperature" g.baseboardTemperature, kvB "ProcessorsTemperature" g.processorsTemperature,
  kvB "InletTemperature" g.inletTemperature, kvN "TemperatureSamplingFrequency" g.temperatureSamplingFrequency, showHdr g.hdr]

def showCap3 (g : DcmiCap3) : String := fields [
  kvH "Contents" g.contents, kvH "Payload" g.payload, kvU "PowerManagementSlaveAddress" g.slaveAddress,
  kvU "PowerManagementChannel" g.channel, kvU "PowerManagementRevision" g.revision, showHdr g.hdr]

def showCap4 (g : DcmiCap4) : String := fields [
  kvH "Contents" g.contents, kvH "Payload" g.payload, kvU "PrimaryLANOOBChannel" g.primaryLAN,
  kvU "SecondaryLANOOBChannel" g.secondaryLAN, kvU "SerialOOBChannel" g.serial, showHdr g.hdr]

def showCap5 (g : DcmiCap5) : String := fields [
  kvH "Contents" g.contents, kvH "Payload" g.payload, kvL "PowerRollingAvgTimePeriods" g.periods, showHdr g.hdr]

def showPowerReading (g : PowerReading) : String := fields [
  kvH "Contents" [], kvH "Payload" [], kvN "Instantaneous" g.instantaneous, kvN "Min" g.min, kvN "Max" g.max, kvN "Avg" g.avg,
  kvN "Timestamp" g.timestamp, kvN "Period" g.period, kvB "Active" g.active]

def showSensorInfo (g : SensorInfo) : String := fields [
  kvH "Contents" g.view.contents, kvH "Payload" g.view.payload, kvU "Instances" g.view.instances, kvL "RecordIDs" g.view.recordIDs]

def decTableDcmi : List (String × DecFn) := [
  ("dcmicap1", decWith {} DcmiCap1.decodeGo showCap1),
  ("dcmicap2", decWith {} DcmiCap2.decodeGo showCap2),
  ("dcmicap3", decWith {} DcmiCap3.decodeGo showCap3),
  ("dcmicap4", decWith {} DcmiCap4.decodeGo showCap4),
  ("dcmicap5", decWith {} DcmiCap5.decodeGo showCap5),
  ("powerreading", decWith {} PowerReading.decodeGo showPowerReading),
  ("dcmisensorinfo", decWith {} SensorInfo.decodeGo showSensorInfo)]

end Bmc.Driver
