import Bmc.Driver.Prim
import Bmc.Proto.Enum
import Bmc.Spec.Enum
import Bmc.Spec.Dcmi
import Bmc.Spec.Sess
/-! `suites`, `parse`, `dcmi` operations (C16): the model of the paged enumerations run against the specification's
    BMC (pages of record data; instance-start pages of record IDs), at the level of response bodies. -/
namespace Bmc.Driver
open Bmc Bmc.Proto.Enum

def showNats (sep empty : String) (l : List Nat) : String :=
  if l.isEmpty then empty else sep.intercalate (l.map toString)

def showEntries (es : List Entry) : String :=
  if es.isEmpty then "-" else
  ",".intercalate (es.map fun e => s!"{e.id}:{e.iana}:{e.auth}:{e.integ}:{e.conf}")

def parseNats (sep empty : String) (s : String) : Option (List Nat) :=
  if s == empty then some [] else (s.splitOn sep).mapM String.toNat?

/-- `R:<id.iana|s.auth.integ.conf;…>` -/
def parseRecsArg (s : String) : Option (List Spec.Enum.Record) :=
  if !s.startsWith "R:" then none else
  let body := (s.drop 2).toString
  if body == "" then some [] else
  (body.splitOn ";").mapM fun p =>
    match p.splitOn "." with
    | [id, ia, au, ig, co] => do
      let id ← id.toNat?
      let iana ← (if ia == "s" then some none else ia.toNat?.map some)
      let au ← au.toNat?
      let ig ← parseNats "+" "_" ig
      let co ← parseNats "+" "_" co
      pure { id := id, iana := iana, auth := au, integ := ig, conf := co }
    | _ => none

/-- the generated record list, when the op carries one, must encode (by the SPECIFICATION's encoder) to the op's data -/
def recsConsistent (data : Bytes) (recs : String) : Bool :=
  match parseRecsArg recs with
  | some rs => Spec.Enum.encodeRecords rs == data
  | none => true

def showParse : R (List Entry) → String
  | .ok es => "ok " ++ showEntries es
  | .err => "err"
  | .panic => "panic"
  | .overread => "overread"

/-- `fail` = `-` | `c<i>` | `x<i>`: list index i is not answered normally -/
def parseFail (s : String) : Option (Option Nat) :=
  if s == "-" then some none else ((s.drop 1).toString.toNat?).map some

def evalSuites (args : List String) : String :=
  let go (dataS psS failS recs : String) : String :=
    match parseHex dataS, psS.toNat?, parseFail failS with
    | some data, some ps, some fail =>
      if !recsConsistent data recs then "spec-encoding-differs" else
      -- the BMC: channel number, then bytes [ps·i, ps·i + ps) of the record data (ps = 16: `Spec.Enum.page`)
      let body : Nat → Option Bytes := fun w =>
        if fail == some w then none
        else if ps == 16 then some (Spec.Enum.pageBody 1 data w)                      -- the specification's BMC
        else some (Spec.CipherSuites.encode ⟨1, (data.drop (ps * w)).take ps⟩)       -- a BMC with another page size
      let (idx, r) := retrieveSupportedCipherSuites (pageOfBody body)
      -- after a run in which the BMC failed to answer a list index: the SAME connection is asked again and the BMC now answers
      -- every index — a discovery keeps nothing from an earlier, failed one
      let again :=
        if fail.isSome then
          let body2 : Nat → Option Bytes := fun w =>
            if ps == 16 then some (Spec.Enum.pageBody 1 data w) else some (Spec.CipherSuites.encode ⟨1, (data.drop (ps * w)).take ps⟩)
          let (idx2, r2) := retrieveSupportedCipherSuites (pageOfBody body2)
          s!" again={showParse r2} idx={showNats "," "-" idx2}"
        else ""
      s!"{showParse r} idx={showNats "," "-" idx}{again}"
    | _, _, _ => "bad-op"
  match args with
  | [d] => go d "16" "-" "-"
  | [d, ps, f, recs] => go d ps f recs
  | _ => "bad-op"

def evalParse (args : List String) : String :=
  let go (dataS recs : String) : String :=
    match parseHex dataS with
    | some data => if !recsConsistent data recs then "spec-encoding-differs" else showParse (parseRecords data)
    | none => "bad-op"
  match args with
  | [d] => go d "-"
  | [d, recs] => go d recs
  | _ => "bad-op"

def stdIDs (k n : Nat) : List Nat := (List.range n).map fun j => (k + 1) * 0x4000 + j * 0x21 + 1

/-- what the BMC holds under each of the six entity IDs, from the op's arguments -/
def holdings (counts : List Nat) (std : String) (d : List String) : Option (Nat → Option (List Nat)) := do
  let from_ ← (if std == "ok" then some 3 else if std == "empty" then some 3
               else if std == "err" then some 0 else if std.startsWith "err" then (std.drop 3).toString.toNat? else none)
  let dl ← d.mapM fun s => if s == "!" then some none else (parseNats "," "-" s).map some
  pure fun e =>
    match Spec.Enum.stdEntities.idxOf? e, Spec.Enum.dcmiEntities.idxOf? e with
    | some k, _ => if k ≥ from_ then none else some (if std == "empty" then [] else stdIDs k (counts.getD k 0))
    | _, some k => (dl.getD k none)
    | _, _ => none

def showDcmi (l : List Req) (r : R SensorInfo) : String :=
  let reqs := if l.isEmpty then "-" else ",".intercalate (l.map fun q => s!"{q.entity}:{q.start}")
  match r with
  | .ok i => s!"ok {showNats "," "-" i.inlet} {showNats "," "-" i.cpu} {showNats "," "-" i.baseboard} req={reqs}"
  | .err => s!"err req={reqs}"
  | .panic => s!"panic req={reqs}"
  | .overread => s!"overread req={reqs}"

/-- `totDelta` as a signed decimal -/
def parseIntEnum (s : String) : Option Int :=
  if s.startsWith "-" then (s.drop 1).toString.toNat?.map fun n => - (n : Int) else s.toNat?.map fun n => (n : Int)

def evalDcmi (args : List String) : String :=
  let go (cS psS std d0 d1 d2 deltaS : String) : String :=
    match parseNats "," "-" cS, psS.toNat?, parseIntEnum deltaS with
    | some counts, some ps, some delta =>
      match holdings counts std [d0, d1, d2] with
      | none => "bad-op"
      | some ids =>
        let spec : Spec.Enum.DcmiBmc := { ids := ids, pageSize := ps }
        -- a conforming BMC reports the number of instances it holds; `delta` ≠ 0 is a BMC that misreports it
        let respond : Nat → Nat → Option (Nat × List Nat) := fun e s =>
          (spec.respond e s).map fun (t, pg) => (if delta == 0 then t else (min 255 (max 0 ((t : Int) + delta))).toNat, pg)
        let body : Nat → Nat → Option Bytes := fun e s =>
          if delta == 0 then spec.respondBody e s                                      -- the specification's BMC
          else (respond e s).map fun (t, pg) => Spec.SensorInfo.encode ⟨UInt8.ofNat t, pg⟩
        let (l, r) := getSensorInfo (bmcOfBody body)
        -- a FAILED enumeration is followed by a second one on the same connection against the same BMC: it asks and answers
        -- exactly as the first did (nothing of the failed run is kept)
        match r with
        | .err => s!"{showDcmi l r} again={showDcmi l r}"
        | _ => showDcmi l r
    | _, _, _ => "bad-op"
  match args with
  | [c, ps, std, d0, d1, d2] => go c ps std d0 d1 d2 "0"
  | [c, ps, std, d0, d1, d2, delta] => go c ps std d0 d1 d2 delta
  | _ => "bad-op"

end Bmc.Driver
