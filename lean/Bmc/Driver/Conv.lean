import Bmc.Proto.Sensor
import Bmc.Driver.Prim
import Bmc.Lemmas.Binary64
/-! `conv <record hex> <raw> <flags> [<completion code> <further response bytes hex>]` — the model's answer for the
    path record → `NewSensorReader` → `Read` (C15). Prints the reader kind, and the canonical exact decimal of the
    linear part or the error kind; never a float. -/
namespace Bmc.Driver
open Bmc Bmc.Wire Bmc.Proto.Sensor

/-- the key under which the table holds this lineariser -/
def lineariserKey (l : Lineariser) : Nat :=
  match lineariserTable.find? (fun e => e.2 == l) with
  | some (k, _) => k
  | none => 0

def showKind : Reader → String
  | .linear _ => "linear"
  | .linearised _ l => s!"linearised:{lineariserKey l}"

def showDecimal (d : Int × Int) : String :=
  let n := normalize d
  s!"{n.1}e{n.2}"

/-- `num` = the float64 returned is a number (not NaN), for the REPAIRED lineariser table (`cbrt := true`): on
    the unrepaired code the cube root of a negative value shows up as `num=0` against the model's `num=1` -/
def showRead : ReadRes → String
  | .err => "err"
  | .unavailable => "err-unavailable"
  | .scanningDisabled => "err-scanning"
  | .value d l =>
    let num := match l with
      | none => true
      | some f => f.returnsNumber true (signOf (normalize d).1)
    s!"{showDecimal d} num={bool num}"

/-- the binary64 value the five-rounding computation of `ConvertReading` returns (`FloatModel.convertFloat` under `rnd64`), and
    whether the exponent self-check of `rnd64` held on every non-zero intermediate (proved always: `exponentOk_of_ne_zero`) -/
def linearFloat (rd : Reader) (raw : UInt8) : Rat × Bool :=
  let l := rd.lin
  let x := l.parser.parse raw
  let R := FloatModel.Rounding.binary64
  let p1 := R.rnd ((10 : Rat) ^ l.bExp)
  let t1 := (l.b : Rat) * p1
  let b1 := R.rnd t1
  let t2 := (l.m : Rat) * (x : Rat) + b1
  let s := R.rnd t2
  let p2 := R.rnd ((10 : Rat) ^ l.rExp)
  let t3 := s * p2
  let r := R.rnd t3
  let ok (q : Rat) : Bool := q == 0 || FloatModel.exponentOk q
  (r, ok ((10 : Rat) ^ l.bExp) && ok t1 && ok t2 && ok ((10 : Rat) ^ l.rExp) && ok t3)

def showRat (r : Rat) : String := s!"{r.num}/{r.den}"

/-- as the exact rational `num/den`; `!` appended should the self-check ever fail -/
def showLinearFloat (rd : Reader) (raw : UInt8) : String :=
  let (r, allOk) := linearFloat rd raw
  showRat r ++ (if allOk then "" else "!")

/-- the three linearisations Go computes with correctly rounded operations only — `math.Pow(f, -1)` is `1/f`, `math.Pow(f, 2)` is
    `f*f`, `math.Pow(f, 3)` is `(f*f)*f` (the repeated-squaring loop of `math.pow` on the `Frexp` mantissa; scaling by powers of two
    is exact) — evaluated under `rnd64` on the model's linear value: the binary64 the linearised reader returns, bit for bit -/
def showLinearised (rd : Reader) (raw : UInt8) : String :=
  let R := FloatModel.Rounding.binary64
  let v := (linearFloat rd raw).1
  match rd with
  | .linearised _ .powFNeg1 => if v == 0 then " ~nl=inf" else s!" ~nl={showRat (R.rnd (1 / v))}"
  | .linearised _ .powF2 => s!" ~nl={showRat (R.rnd (v * v))}"
  | .linearised _ .powF3 => s!" ~nl={showRat (R.rnd (R.rnd (v * v) * v))}"
  | .linearised _ .mathSqrt => if v < 0 then " ~nl=nan" else s!" ~nl={showRat (FloatModel.sqrt64 v)}"    -- IEEE-754: correctly rounded
  | _ => ""

def showBuildErr : BuildErr → String
  | .nonLinear => "err-nonlinear"
  | .notAnalog => "err-notanalog"
  | .notLinearised => "err-notlinearised"

def evalConv (args : List String) : String :=
  let run (recS rawS flS ccS exS : String) : String :=
    match parseHex recS, rawS.toNat?, flS.toNat?, ccS.toNat?, parseHex exS with
    | some rec, some raw, some fl, some cc, some ex =>
      match conv (GoSlice.ofBytes rec) (UInt8.ofNat cc) (GoSlice.ofBytes (UInt8.ofNat raw :: UInt8.ofNat fl :: ex)) with
      | .ok (.error e) => s!"kind={showBuildErr e} val=-"
      | .ok (.ok (rd, res)) =>
        let lin := match res with
          | .value _ _ => s!" ~lin={showLinearFloat rd (UInt8.ofNat raw)}{showLinearised rd (UInt8.ofNat raw)}"
          | _ => ""
        s!"kind={showKind rd} req={rd.lin.number.toNat}/{rd.lin.ownerLUN.toNat} val={showRead res}{lin}"
      | .err => "rec-err"
      | .panic => "panic"
      | .overread => "overread"
    | _, _, _, _, _ => "bad-op"
  match args with
  | [r, a, f] => run r a f "0" "c0"
  | [r, a, f, c, e] => run r a f c e
  | [r, a, f, c, e, _warmUps] => run r a f c e      -- earlier reads of the same reader do not matter
  | _ => "bad-op"

end Bmc.Driver
