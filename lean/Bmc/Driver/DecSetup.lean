import Bmc.Driver.Dec
import Bmc.Wire.OpenSessionRsp
import Bmc.Wire.Rakp1
import Bmc.Wire.Rakp2
import Bmc.Wire.Rakp4
import Bmc.Wire.Selector
import Bmc.Wire.V1Session
namespace Bmc.Driver
open Bmc Bmc.Wire

def showAlg (k : String) (p : Setup.AlgPayload) : String :=
  s!"{k}=\{Wildcard={bool p.wildcard},Algorithm={p.algorithm.toNat}}"

def showOpenSessionRsp (o : Setup.OpenSessionRsp) : String := fields [
  kvH "Contents" o.contents, kvH "Payload" [], kvU "Tag" o.tag, kvU "Status" o.status,
  kvU "MaxPrivilegeLevel" o.maxPriv, kvN "RemoteConsoleSessionID" o.consoleSID,
  kvN "ManagedSystemSessionID" o.bmcSID, showAlg "AuthenticationPayload" o.auth,
  showAlg "IntegrityPayload" o.integ, showAlg "ConfidentialityPayload" o.conf]

def showRakp1 (r : Setup.RAKP1) : String := fields [
  kvH "Contents" r.contents, kvH "Payload" [], kvU "Tag" r.tag, kvN "ManagedSystemSessionID" r.bmcSID,
  kvH "RemoteConsoleRandom" r.consoleRandom, kvB "PrivilegeLevelLookup" r.lookup,
  kvU "MaxPrivilegeLevel" r.maxPriv, kvH "Username" r.username]

def showRakp2 (r : RAKP2) : String := fields [
  kvH "Contents" r.contents, kvH "Payload" [], kvU "Tag" r.tag, kvU "Status" r.status,
  kvN "RemoteConsoleSessionID" r.consoleSessionID, kvH "ManagedSystemRandom" r.bmcRandom,
  kvH "ManagedSystemGUID" r.bmcGUID, kvH "AuthCode" r.authCode]

def showRakp4 (r : Setup.RAKP4) : String := fields [
  kvH "Contents" r.contents, kvH "Payload" [], kvU "Tag" r.tag, kvU "Status" r.status,
  kvN "RemoteConsoleSessionID" r.consoleSID, kvH "ICV" r.icv]

def showSelector (s : Setup.Selector) : String := fields [
  kvH "Contents" [], kvH "Payload" s.payload, kvB "IsRMCPPlus" s.isRMCPPlus]

/-- `AuthenticationAlgorithm hash.Hash` is injected by the caller, not decoded: hidden on the Go side -/
def showV1 (s : V1Session) : String := fields [
  kvH "Contents" s.contents, kvH "Payload" s.payload, kvU "AuthType" s.authType, kvN "Sequence" s.sequence,
  kvN "ID" s.id, kvH "AuthCode" s.authCode, kvU "Length" s.length]

/-- `rakp2` and `v1session` are registered with the REPAIRED variants (length guard; AuthCode reset) -/
def decTableSetup : List (String × DecFn) := [
  ("opensessionrsp", decWith {} Setup.OpenSessionRsp.decodeGo showOpenSessionRsp),
  ("rakp1", decWith {} Setup.RAKP1.decodeGo showRakp1),
  ("rakp2", decWith {} (RAKP2.decodeGo true) showRakp2),
  ("rakp4", decWith {} Setup.RAKP4.decodeGo showRakp4),
  ("selector", decWith {} Setup.Selector.decodeGo showSelector),
  ("v1session", decWith {} (V1Session.decodeGo true) showV1)]

end Bmc.Driver
