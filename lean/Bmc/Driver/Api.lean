import Bmc.Driver.Send
import Bmc.Driver.DecBasic
import Bmc.Driver.DecSess
import Bmc.Driver.DecSdr
import Bmc.Driver.DecDcmi
import Bmc.Proto.Api
/-! `api` operations: one or more high-level calls on one connection.

`api <sess|sl> <auth> <integ> <k1> <k2> <localID> <remoteID> <inbound> <call> <args|-> <entropy> <script> [/ <call> <args|-> <entropy> <script>]…`

State, entropy and script conventions are those of `send` (Driver/Send.lean); for `sl` the session fields are ignored.
Per call: `sent=<hex datagrams> res=<ok DUMP | err | panic> inbound=<n>`; the dump is the `dec` dump of the returned
response struct, `GUID=…` / `PrivilegeLevel=…` for the two projections, `-` for calls that return an error only.
Calls of one op are joined by ` ; `. -/
namespace Bmc.Driver
open Bmc Bmc.Wire Bmc.Crypto Bmc.Proto

def parseInts (s : String) : Option (List Int) :=
  if s == "-" then some [] else (s.splitOn ",").mapM String.toInt?

def u8 (i : Int) : UInt8 := UInt8.ofNat i.toNat

/-- call name (the Go method's) + arguments in the order of the Go signature / request struct -/
def parseCall (name : String) (a : List Int) : Option Call :=
  match name, a with
  | "GetSystemGUID", [] => some .getSystemGUID
  | "GetChannelAuthenticationCapabilities", [e, c, p] =>
    some (.getChannelAuthenticationCapabilities { extendedData := e == 1, channel := u8 c, maxPrivilegeLevel := u8 p })
  | "GetSessionInfo", [i, h, id] => some (.getSessionInfo { index := u8 i, handle := u8 h, id := id.toNat })
  | "GetDeviceID", [] => some .getDeviceID
  | "GetChassisStatus", [] => some .getChassisStatus
  | "ChassisControl", [c] => some (.chassisControl c.toNat)
  | "GetSDRRepositoryInfo", [] => some .getSDRRepositoryInfo
  | "ReserveSDRRepository", [] => some .reserveSDRRepository
  | "GetSensorReading", [n] => some (.getSensorReading (u8 n))
  | "GetSessionPrivilegeLevel", [] => some .getSessionPrivilegeLevel
  | "SetSessionPrivilegeLevel", [l] => some (.setSessionPrivilegeLevel (u8 l))
  | "Close", [] => some .close
  | "GetPowerReading", [m, ns] => some (.getPowerReading { mode := u8 m, periodNs := ns })
  | "GetDCMISensorInfo", [t, e, i, s] =>
    some (.getDCMISensorInfo { type := u8 t, entity := u8 e, instance_ := u8 i, instanceStart := u8 s })
  | "GetDCMICapabilitiesInfoSupportedCapabilities", [] => some .dcmiSupportedCapabilities
  | "GetDCMICapabilitiesInfoMandatoryPlatformAttrs", [] => some .dcmiMandatoryPlatformAttrs
  | "GetDCMICapabilitiesInfoOptionalPlatformAttrs", [] => some .dcmiOptionalPlatformAttrs
  | "GetDCMICapabilitiesInfoManageabilityAccessAttrs", [] => some .dcmiManageabilityAccessAttrs
  | "GetDCMICapabilitiesInfoEnhancedSystemPowerStatisticsAttrs", [] => some .dcmiEnhancedSystemPowerStatisticsAttrs
  | _, _ => none

def showSensorInfoView (v : SensorInfoView) : String := fields [
  kvH "Contents" v.contents, kvH "Payload" v.payload, kvU "Instances" v.instances, kvL "RecordIDs" v.recordIDs]

def showValue : Value → String
  | .none => "-"
  | .guid g => kvH "GUID" g
  | .level l => kvU "PrivilegeLevel" l
  | .authCaps v => showAuthCaps v
  | .sessionInfo v => showSessionInfo v
  | .deviceID v => showDeviceID v
  | .chassis v => showChassis v
  | .sdrRepoInfo v => showSDRRepoInfo v
  | .reserve v => showReserveSDR v
  | .sensorReading v => showSensorReading v
  | .powerReading v => showPowerReading v
  | .sensorInfo v => showSensorInfoView v
  | .cap1 v => showCap1 v
  | .cap2 v => showCap2 v
  | .cap3 v => showCap3 v
  | .cap4 v => showCap4 v
  | .cap5 v => showCap5 v

/-- the calls of one op: groups of four tokens separated by `/` -/
def splitCalls : List String → Option (List (String × String × String × String))
  | [c, a, e, s] => some [(c, a, e, s)]
  | c :: a :: e :: s :: "/" :: rest => (splitCalls rest).map ((c, a, e, s) :: ·)
  | _ => none

def evalApiCalls (sl : Bool) : Sess → List (String × String × String × String) → List String
  | _, [] => []
  | s, (name, argS, entS, scriptS) :: rest =>
    match (parseInts argS).bind (parseCall name), parseHex entS, parseScript scriptS with
    | some call, some ent, some script =>
      if sl then
        if !call.sessionless then ["bad-op"] else
        let (sent, r) := slCall call script
        s!"sent={showSent sent} res={showR showValue r} inbound=0" :: evalApiCalls sl s rest
      else
        let (s', sent, r) := sessCall realOps s call (chunk16 (ent.length / 16) ent) script
        s!"sent={showSent sent} res={showR showValue r} inbound={s'.inbound}" :: evalApiCalls sl s' rest
    | _, _, _ => ["bad-op"]

def evalApi (args : List String) : String :=
  match args with
  | kind :: _auth :: integ :: k1 :: k2 :: lid :: rid :: inb :: calls =>
    match [integ, lid, rid, inb].mapM String.toNat?, parseHex k1, parseHex k2, splitCalls calls with
    | some [integ, lid, rid, inb], some k1, some k2, some calls =>
      if kind != "sess" && kind != "sl" then "bad-op" else
      let s : Sess := { inbound := inb, localID := lid, remoteID := rid, integ := integ, k1 := k1, k2 := k2 }
      " ; ".intercalate (evalApiCalls (kind == "sl") s calls)
    | _, _, _, _ => "bad-op"
  | _ => "bad-op"

end Bmc.Driver
