import Bmc.Driver.Prim
import Bmc.Proto.Timing
namespace Bmc.Driver
open Bmc.Proto.Timing

/-- `time <call> <T_ms> <D_ms> <fault>`: the model's prediction — under every fault no attempt ever receives a final
    response, so the call ends in an error, and (by `returns_by_deadline`) not after the deadline; run the model on
    the fault's attempt stream to get both -/
def evalTime (args : List String) : String :=
  match args with
  | [call, t, d, fault] =>
    match t.toNat?, d.toNat? with
    | some t, some d =>
      let att : Nat → Att := fun _ =>
        match fault with
        | "none" => ⟨1, true, 0⟩
        | "late" => ⟨t + 60, true, 500⟩
        | "blackhole" => ⟨1000000, false, 500⟩
        | _ => ⟨1, false, 500⟩
      -- in-session calls fail at the first transport error; the session-level result is the same: error by the deadline
      let _ := call
      match run (max 1 t) d att (d + 2) 0 0 with
      | some (tEnd, ok) => s!"res={if ok then "ok" else "err"} late={bool (decide (tEnd > max d 0))}"
      | none => "res=none late=1"
    | _, _ => "bad-op"
  | _ => "bad-op"

end Bmc.Driver
