import Bmc.Driver.Prim
import Bmc.Proto.Timing
namespace Bmc.Driver
open Bmc.Proto.Timing

/-- the attempt stream of one step under a fault (`none` = a well-behaved BMC) -/
def faultAtt (t : Nat) (fault : String) : Nat → Att := fun _ =>
  match fault with
  | "none" => ⟨1, true, 0⟩
  | "late" => ⟨t + 60, true, 500⟩
  | "blackhole" => ⟨1000000, false, 500⟩
  | _ => ⟨1, false, 500⟩

/-- `time <call> <T_ms> <D_ms> <fault[@k]>`: the model's prediction. The call is a single retry loop (`sl`, `cmd`,
    `close`), a sequence of three exchanges (`hs`; `hsd`: two discovery pages first, five steps) or the outer retry over walks of nine steps (`sdr`, the reference
    BMC's repository holds three records); with `fault@k` the first k datagrams are answered properly, i.e. the first k
    steps succeed at once. Under every fault no step that meets it ever receives a final response, so the call ends in
    an error, and (by `returns_by_deadline` / `sequence_returns_by_deadline` / `retrieval_returns_by_deadline`) not after
    the deadline. -/
def evalTime1 (args : List String) : String :=
  match args with
  | [call, t, d, faultK] =>
    match t.toNat?, d.toNat? with
    | some t, some d =>
      let (fault, k) := match faultK.splitOn "@" with
        | [f, k] => (f, k.toNat?.getD 0)
        | _ => (faultK, 0)
      let step (i : Nat) : Nat → Att := if i < k then faultAtt t "none" else faultAtt t fault
      let T := max 1 t
      -- a trailing "f" = the same call with a fast constant back-off (the model's run has no back-off delay at all)
      let call := if call.endsWith "f" && call != "f" then (call.dropRight 1) else call
      let r := match call with
        | "hs" => runSeq T d (d + 2) ((List.range 3).map step) 0
        | "hsd" => runSeq T d (d + 2) ((List.range 5).map step) 0
        | "sdr" => runOuter T d (d + 2) (fun w => (List.range 9).map (fun i => if w == 0 then step i else faultAtt t fault)) (fun _ => 500) (d + 2) 0 0
        | _ => run T d (step 0) (d + 2) 0 0
      match r with
      | some (tEnd, ok) => s!"res={if ok then "ok" else "err"} late={bool (decide (tEnd > max d 0))}"
      | none => "res=none late=1"
    | _, _ => "bad-op"
  | _ => "bad-op"

/-- with a fifth argument `again` the same call is made twice under the persisting fault: two independent runs -/
def evalTime (args : List String) : String :=
  match args with
  | [call, t, d, f, "again"] =>
    let r := evalTime1 [call, t, d, f]
    if r == "bad-op" then r else s!"{r} {(r.replace "res=" "res2=").replace "late=" "late2="}"
  | _ => evalTime1 args

end Bmc.Driver
