import Bmc.Driver.Dec
import Bmc.Wire.Message
import Bmc.Wire.V2Session
import Bmc.Wire.Aes
import Bmc.Crypto.AES
import Bmc.Crypto.Hash
namespace Bmc.Driver
open Bmc Bmc.Wire Bmc.Crypto

/-- the executable instance used by the driver (validated against Go's crypto/*; no theorem depends on it) -/
def realOps : Ops := { hmac := Hash.hmac, encBlock := AES.encBlock, decBlock := AES.decBlock }

/-- integrity algorithms as negotiated (hasher.go: algorithmHasher), keyed with K1 -/
def integMac (C : Ops) (alg : Nat) (k1 : Bytes) (m : Bytes) : Bytes :=
  match alg with
  | 1 => (C.hmac .sha1 k1 m).take 12
  | 2 => C.hmac .md5 k1 m
  | 4 => (C.hmac .sha256 k1 m).take 16
  | _ => []                       -- IntegrityAlgorithmNone: executeHash(nil) = nil

def showMessage (m : Message) : String := fields [
  kvH "Contents" m.contents, kvH "Payload" m.payload, kvU "Function" m.function, kvU "Body" m.body, kvN "Enterprise" m.enterprise,
  kvU "Command" m.command, kvU "RemoteAddress" m.remoteAddress, kvU "RemoteLUN" m.remoteLUN, kvU "Checksum1" m.checksum1,
  kvU "LocalAddress" m.localAddress, kvU "LocalLUN" m.localLUN, kvU "Sequence" m.sequence,
  kvU "CompletionCode" m.completionCode, kvU "Checksum2" m.checksum2]

def showV2 (v : V2Session) : String := fields [
  kvH "Contents" v.contents, kvH "Payload" v.payload, kvU "PayloadType" v.payloadType, kvN "Enterprise" v.enterprise,
  kvN "PayloadID" v.payloadID, kvB "Encrypted" v.encrypted, kvB "Authenticated" v.authenticated, kvN "ID" v.id,
  kvN "Sequence" v.sequence, kvN "Length" v.length, kvU "Pad" v.pad, kvH "Signature" v.signature]

def showAes (a : AESLayer) : String := fields [kvH "Contents" a.contents, kvH "Payload" a.payload]

/-- fixed keys shared with the Go harness (dec_core.go) -/
def testK1 : Bytes := (List.range 20).map (fun i => UInt8.ofNat (i + 1))
def testK2 : Bytes := (List.range 16).map (fun i => UInt8.ofNat (0xA0 + i))

def decTableCore : List (String × DecFn) := [
  ("message", decWith {} (Message.decodeGo 8) showMessage),
  ("v2none", decWith {} (V2Session.decodeGo (integMac realOps 0 testK1)) showV2),
  ("v2sha1", decWith {} (V2Session.decodeGo (integMac realOps 1 testK1)) showV2),
  ("v2md5", decWith {} (V2Session.decodeGo (integMac realOps 2 testK1)) showV2),
  ("v2sha256", decWith {} (V2Session.decodeGo (integMac realOps 4 testK1)) showV2),
  ("aes", decWith {} (AESLayer.decodeGo realOps testK2 true) showAes)]

end Bmc.Driver
