import Bmc.Spec.Prim
import Bmc.Prim.Strings
import Bmc.Prim.Packed6
namespace Bmc.Driver
open Bmc Bmc.Prim

def hexDigit (c : Char) : Option Nat :=
  if '0' ≤ c ∧ c ≤ '9' then some (c.toNat - '0'.toNat)
  else if 'a' ≤ c ∧ c ≤ 'f' then some (c.toNat - 'a'.toNat + 10)
  else none

def parseHex (s : String) : Option Bytes :=
  if s == "-" then some [] else
  let rec go : List Char → Option Bytes
    | [] => some []
    | [_] => none
    | a :: b :: rest => do
      let x ← hexDigit a; let y ← hexDigit b; let tl ← go rest
      pure (UInt8.ofNat (x * 16 + y) :: tl)
  go s.toList

def hexOf (bs : Bytes) : String :=
  if bs.isEmpty then "-" else
  String.join (bs.map fun b => String.ofList [Nat.digitChar (b.toNat / 16), Nat.digitChar (b.toNat % 16)])

def bool (b : Bool) : String := if b then "1" else "0"

def showR (f : α → String) : R α → String
  | .ok a => "ok " ++ f a | .err => "err" | .panic => "panic" | .overread => "overread"

def showStr (r : R (Bytes × Nat)) : String := showR (fun (s, n) => s!"{hexOf s} {n}") r

/-- evaluate one `prim` op against the SPECIFICATION (scalars) or the hand model (loops); the output is the
    canonical rendering the Go side also prints -/
def evalPrim (fn : String) (args : List String) : String :=
  match fn, args.map String.toNat? with
  | "bcdDecode", [some a] => toString (Spec.bcd a)
  | "ones", [some a] => toString (Spec.ones8 a)
  | "twos", [some v, some bits] => toString (Spec.twos bits v)
  | "adfUnsigned", [some a] => toString a
  | "adfOnes", [some a] => toString (Spec.ones8 a)
  | "adfTwos", [some a] => toString (Spec.twos 8 a)
  | "ccIsTemporary", [some a] => bool (Spec.isTemporary a)
  | "nfIsRequest", [some a] => bool (Spec.isRequestFn a)
  | "eiSystemRelative", [some a] => bool (Spec.systemRelative a)
  | "eiDeviceRelative", [some a] => bool (Spec.deviceRelative a)
  | "linIsLinear", [some a] => bool (Spec.isLinear a)
  | "linIsLinearised", [some a] => bool (Spec.isLinearised a)
  | "linIsNonLinear", [some a] => bool (Spec.isNonLinear a)
  | "rollingDuration", [some a] => toString (Spec.rollingDurationNs a)
  | "rollingByte", [some a] => toString (rollingByteGo a)
  | "checksum", _ =>
    match args with
    | [h] => match parseHex h with
      | some bs => toString (Spec.checksum bs).toNat
      | none => "bad-op"
    | _ => "bad-op"
  | _, _ => "bad-op"

/-- `str <bcdplus|packed6|latin1> <count> <data> <tail>` -/
def evalStr (args : List String) : String :=
  match args with
  | [enc, c, dataS, tailS] =>
    match c.toNat?, parseHex dataS, parseHex tailS with
    | some c, some data, some tail =>
      let d := GoSlice.window data tail
      match enc with
      | "bcdplus" => showStr (bcdPlusGo d c)
      | "packed6" => showStr (decode6Go d c)
      | "latin1" => showStr (latin1Go d c)
      | _ => "bad-op"
    | _, _, _ => "bad-op"
  | _ => "bad-op"

end Bmc.Driver
