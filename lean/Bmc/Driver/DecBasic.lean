import Bmc.Driver.Dec
import Bmc.Wire.DeviceID
import Bmc.Wire.Chassis
namespace Bmc.Driver
open Bmc Bmc.Wire

def showDeviceID (g : GetDeviceIDRsp) : String := fields [
  kvH "Contents" g.contents, kvH "Payload" [], kvU "ID" g.id, kvB "ProvidesSDRs" g.providesSDRs, kvU "Revision" g.revision,
  kvB "Available" g.available, kvU "MajorFirmwareRevision" g.majorFirmwareRevision,
  kvU "MinorFirmwareRevision" g.minorFirmwareRevision, kvU "MajorIPMIVersion" g.majorIPMIVersion,
  kvU "MinorIPMIVersion" g.minorIPMIVersion,
  kvBit "SupportsChassisDevice" g.support 7, kvBit "SupportsBridgeDevice" g.support 6,
  kvBit "SupportsIPMBEventGeneratorDevice" g.support 5, kvBit "SupportsIPMBEventReceiverDevice" g.support 4,
  kvBit "SupportsFRUInventoryDevice" g.support 3, kvBit "SupportsSELDevice" g.support 2,
  kvBit "SupportsSDRRepositoryDevice" g.support 1, kvBit "SupportsSensorDevice" g.support 0,
  kvN "Manufacturer" g.manufacturer, kvN "Product" g.product, kvH "AuxiliaryFirmwareRevision" g.aux]

def showChassis (c : GetChassisStatusRsp) : String := fields [
  kvH "Contents" c.contents, kvH "Payload" c.payload, kvU "PowerRestorePolicy" c.powerRestorePolicy,
  kvBit "PowerControlFault" c.flags0 4, kvBit "PowerFault" c.flags0 3, kvBit "Interlock" c.flags0 2,
  kvBit "PowerOverload" c.flags0 1, kvBit "PoweredOn" c.flags0 0,
  kvBit "PoweredOnByIPMI" c.flags1 4, kvBit "LastPowerDownFault" c.flags1 3, kvBit "LastPowerDownInterlock" c.flags1 2,
  kvBit "LastPowerDownOverload" c.flags1 1, kvBit "LastPowerDownSupplyFailure" c.flags1 0,
  kvU "ChassisIdentifyState" c.identifyState,
  kvBit "CoolingFault" c.flags2 3, kvBit "DriveFault" c.flags2 2, kvBit "Lockout" c.flags2 1, kvBit "Intrusion" c.flags2 0,
  kvBit "StandbyButtonDisableAllowed" c.frontPanel 7, kvBit "DiagnosticInterruptButtonDisableAllowed" c.frontPanel 6,
  kvBit "ResetButtonDisableAllowed" c.frontPanel 5, kvBit "PowerOffButtonDisableAllowed" c.frontPanel 4,
  kvBit "StandbyButtonDisabled" c.frontPanel 3, kvBit "DiagnosticInterruptButtonDisabled" c.frontPanel 2,
  kvBit "ResetButtonDisabled" c.frontPanel 1, kvBit "PowerOffButtonDisabled" c.frontPanel 0]

def decTableBasic : List (String × DecFn) := [
  ("deviceid", decWith {} (GetDeviceIDRsp.decodeGo true) showDeviceID),
  ("chassis", decWith {} (GetChassisStatusRsp.decodeGo true) showChassis)]

end Bmc.Driver
