import Bmc.Driver.Dec
import Bmc.Wire.Simple
import Bmc.Wire.Sdr
namespace Bmc.Driver
open Bmc Bmc.Wire

def showSDRRepoInfo (i : SDRRepoInfoRsp) : String := fields [
  kvH "Contents" i.contents, kvH "Payload" i.payload, kvU "Version" i.version, kvN "Records" i.records,
  kvN "FreeSpace" i.freeSpace, kvN "LastAddition" i.lastAddition, kvN "LastErase" i.lastErase,
  kvBit "Overflow" i.flags 7, kvBit "SupportsModalUpdate" i.flags 6, kvBit "SupportsNonModalUpdate" i.flags 5,
  kvBit "SupportsDelete" i.flags 3, kvBit "SupportsPartialAdd" i.flags 2, kvBit "SupportsReserve" i.flags 1,
  kvBit "SupportsGetAllocationInformation" i.flags 0]

def showReserveSDR (r : ReserveRsp) : String := fields [
  kvH "Contents" r.contents, kvH "Payload" [], kvN "ReservationID" r.reservationID]

def showGetSDR (r : GetSDRRsp) : String := fields [
  kvH "Contents" r.contents, kvH "Payload" r.payload, kvN "Next" r.next]

def showSDRHeader (s : SDRHeader) : String := fields [
  kvH "Contents" s.contents, kvH "Payload" s.payload, kvN "ID" s.id, kvU "Version" s.version, kvU "Type" s.typ,
  kvU "Length" s.length]

def showSensorReading (r : SensorReadingRsp) : String := fields [
  kvH "Contents" r.contents, kvH "Payload" r.payload, kvU "Reading" r.reading,
  kvB "EventMessagesEnabled" r.eventMessagesEnabled, kvB "ScanningEnabled" r.scanningEnabled,
  kvB "ReadingUnavailable" r.readingUnavailable]

def showFullSensorRecord (r : FullSensorRecord) : String := fields [
  kvH "Contents" r.contents, kvH "Payload" r.payload,
  kvU "OwnerAddress" r.ownerAddress, kvU "Channel" r.channel, kvU "OwnerLUN" r.ownerLUN, kvU "Number" r.number,
  kvI "M" r.m, kvI "B" r.b, kvI "BExp" r.bExp, kvI "RExp" r.rExp,
  kvB "IsContainerEntity" r.isContainerEntity, kvU "Entity" r.entity, kvU "Instance" r.inst, kvB "Ignore" r.ignore,
  kvU "SensorType" r.sensorType, kvU "OutputType" r.outputType, kvU "AnalogDataFormat" r.analogDataFormat,
  kvU "RateUnit" r.rateUnit, kvB "IsPercentage" r.isPercentage, kvU "BaseUnit" r.baseUnit,
  kvU "ModifierUnit" r.modifierUnit, kvU "Linearisation" r.linearisation, kvU "Tolerance" r.tolerance,
  kvI "Accuracy" r.accuracy, kvU "AccuracyExp" r.accuracyExp, kvU "Direction" r.direction,
  kvB "NominalReadingSpecified" r.nominalReadingSpecified, kvB "NormalMinSpecified" r.normalMinSpecified,
  kvB "NormalMaxSpecified" r.normalMaxSpecified, kvU "NominalReading" r.nominalReading, kvU "NormalMin" r.normalMin,
  kvU "NormalMax" r.normalMax, kvU "SensorMin" r.sensorMin, kvU "SensorMax" r.sensorMax, kvH "Identity" r.identity]

def decTableSdr : List (String × DecFn) := [
  ("sdrrepoinfo", decWith {} SDRRepoInfoRsp.decodeGo showSDRRepoInfo),
  ("reservesdr", decWith {} ReserveRsp.decodeGo showReserveSDR),
  ("getsdr", decWith {} GetSDRRsp.decodeGo showGetSDR),
  ("sdrheader", decWith {} SDRHeader.decodeGo showSDRHeader),
  ("sensorreading", decWith {} SensorReadingRsp.decodeGo showSensorReading),
  ("fsr", decWith {} FullSensorRecord.decodeGo showFullSensorRecord)]

end Bmc.Driver
