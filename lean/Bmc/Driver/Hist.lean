import Bmc.Driver.Prim
import Bmc.Proto.Metrics
namespace Bmc.Driver
open Bmc.Proto.Metrics

def attOf : Char → Option Att
  | 'F' => some (.final 0) | 'E' => some (.final 0xC1) | 'B' => some (.temp 0xC0) | 'T' => some (.temp 0xC3)
  | 'a' => some (.final 0x01) | 'b' => some (.final 0x41) | 'd' => some (.final 0x81) | 'e' => some (.final 0xD0)
  | 'f' => some (.final 0xD3) | 'h' => some (.final 0xFF) | 'i' => some (.final 0xCC) | 'j' => some (.final 0x7F)
  | 'm' => some (.final 0xC9) | 'n' => some (.final 0x80)
  | 'X' => some .junk | 'G' => some .junk | 'L' => some .lost | 'K' => some .cancelled | _ => none

def attsOf (s : String) : Option (List Att) := if s == "-" then some [] else s.toList.mapM attOf

def evOf (s : String) : Option Ev :=
  match s.splitOn ":" with
  | ["D"] => some .dialOk | ["X"] => some .dialFail | ["C"] => some .closeConn
  | ["O"] => some .openOk | ["o"] => some .openFail
  | ["S", l] => (attsOf l).map .closeSess
  | ["c", name, l] => (attsOf l).map (.cmd name true (name != "rawfail"))
  | ["l", name, l] => (attsOf l).map (.cmd name false (name != "rawfail"))
  | _ => none

def insertSorted {κ : Type} (lt : κ → κ → Bool) (x : κ × Nat) : List (κ × Nat) → List (κ × Nat)
  | [] => [x]
  | y :: r => if lt x.1 y.1 then x :: y :: r else y :: insertSorted lt x r

def showCounts {κ : Type} (lt : κ → κ → Bool) (sh : κ → String) (l : List (κ × Nat)) : String :=
  let l := (l.filter (·.2 != 0)).foldl (fun acc x => insertSorted lt x acc) []
  if l.isEmpty then "-" else ",".intercalate (l.map fun (k, n) => s!"{sh k}:{n}")

/-- `hist <event> <event> …` -/
def evalHist (args : List String) : String :=
  match args.mapM evOf with
  | some evs =>
    let m := run evs
    s!"conn={m.connAttempts}/{m.connFailures}/{m.connOpen} sess={m.sessAttempts}/{m.sessFailures}/{m.sessOpen} retries={m.retries} attempts={showCounts (· < ·) id m.cmdAttempts} failures={showCounts (· < ·) id m.cmdFailures} responses={showCounts (· < ·) toString m.responses}"
  | none => "bad-op"

end Bmc.Driver
