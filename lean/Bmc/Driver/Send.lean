import Bmc.Driver.Dec
import Bmc.Proto.Session
namespace Bmc.Driver
open Bmc Bmc.Wire Bmc.Crypto Bmc.Proto

def realOpsFull : Ops := { hmac := Hash.hmac, encBlock := AES.encBlock, decBlock := AES.decBlock }

def chunk16 : Bytes → List Bytes
  | [] => []
  | bs => if bs.length < 16 then [] else bs.take 16 :: chunk16 (bs.drop 16)
termination_by bs => bs.length
decreasing_by simp; omega

def parseScript (s : String) : Option (List Outcome) :=
  if s == "-" then some [] else
  (s.splitOn ",").mapM fun item =>
    if item == "L" then some Outcome.lost
    else if item.startsWith "R:" then (parseHex (item.drop 2).toString).map Outcome.reply
    else none

def showRes : Res → String
  | .ok c p => s!"ok {c.toNat} {hexOf p}"
  | .transportErr => "transport"
  | .ctxExpired => "ctx"
  | .crashed => "crashed"

/-- `send <variant> <integ> <k1> <k2> <localID> <remoteID> <inbound> <fn> <cmd> <body> <lun> <req> <ivs> <script>` -/
def evalSend (args : List String) : String :=
  match args with
  | [variant, integ, k1, k2, lid, rid, inb, fn, cmd, body, lun, req, ivs, script] =>
    match integ.toNat?, parseHex k1, parseHex k2, lid.toNat?, rid.toNat?, inb.toNat?, fn.toNat?, cmd.toNat?,
          body.toNat?, lun.toNat?, parseHex req, parseHex ivs, parseScript script with
    | some integ, some k1, some k2, some lid, some rid, some inb, some fn, some cmd, some body, some lun,
      some req, some ivs, some script =>
      let fixed := variant == "1"
      let s : Sess := { inbound := inb, localID := lid, remoteID := rid, integ := integ, k1 := k1, k2 := k2 }
      let c : Cmd := { fn := UInt8.ofNat fn, cmd := UInt8.ofNat cmd, body := UInt8.ofNat body, lun := UInt8.ofNat lun, req := req }
      let (s', sent, r) := send realOpsFull (if fixed then 8 else 7) fixed fixed s c (chunk16 ivs) script
      let sentS := if sent.isEmpty then "-" else ",".intercalate (sent.map hexOf)
      s!"sent={sentS} res={showRes r} inbound={s'.inbound}"
    | _, _, _, _, _, _, _, _, _, _, _, _, _ => "bad-op"
  | _ => "bad-op"

end Bmc.Driver
