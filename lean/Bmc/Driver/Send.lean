import Bmc.Driver.DecCore
import Bmc.Proto.Session
namespace Bmc.Driver
open Bmc Bmc.Wire Bmc.Crypto Bmc.Proto

def chunk16 : Nat → Bytes → List Bytes
  | 0, _ => []
  | n + 1, bs => if bs.length < 16 then [] else bs.take 16 :: chunk16 n (bs.drop 16)

def parseScript (s : String) : Option (List Outcome) :=
  if s == "-" then some [] else
  (s.splitOn ",").mapM fun item =>
    if item == "L" then some Outcome.lost
    else if item.startsWith "R:" then (parseHex (item.drop 2).toString).map Outcome.reply
    else none

def showRes : Res → String
  | .ok c p => s!"ok {c.toNat} {hexOf p}"
  | .transportErr => "err"
  | .serializeErr => "err"
  | .ctxExpired => "err"
  | .crashed => "panic"

def showSent (sent : List Bytes) : String := if sent.isEmpty then "-" else ",".intercalate (sent.map hexOf)

/-- `send <auth> <integ> <k1> <k2> <localID> <remoteID> <inbound> <fn> <cmd> <body> <ent> <lun> <req|!> <entropy> <script>` -/
def evalSend (args : List String) : String :=
  match args with
  | [_auth, integ, k1, k2, lid, rid, inb, fn, cmd, body, ent, lun, req, ivs, script] =>
    match [integ, lid, rid, inb, fn, cmd, body, ent, lun].mapM String.toNat?, parseHex k1, parseHex k2,
          (if req == "!" then some [] else parseHex req), parseHex ivs, parseScript script with
    | some [integ, lid, rid, inb, fn, cmd, body, ent, lun], some k1, some k2, some reqB, some ivs, some script =>
      let s : Sess := { inbound := inb, localID := lid, remoteID := rid, integ := integ, k1 := k1, k2 := k2 }
      let c : Cmd := { fn := UInt8.ofNat fn, cmd := UInt8.ofNat cmd, body := UInt8.ofNat body, ent := ent
                       lun := UInt8.ofNat lun, req := reqB, reqFails := req == "!" }
      let (s', sent, r) := send realOps s c (chunk16 (ivs.length / 16) ivs) script
      s!"sent={showSent sent} res={showRes r} inbound={s'.inbound}"
    | _, _, _, _, _, _ => "bad-op"
  | _ => "bad-op"

end Bmc.Driver
