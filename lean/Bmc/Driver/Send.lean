import Bmc.Driver.DecCore
import Bmc.Proto.Session
import Bmc.Lemmas.MetricsWire
namespace Bmc.Driver
open Bmc Bmc.Wire Bmc.Crypto Bmc.Proto

def chunk16 : Nat → Bytes → List Bytes
  | 0, _ => []
  | n + 1, bs => if bs.length < 16 then [] else bs.take 16 :: chunk16 n (bs.drop 16)

def parseScript (s : String) : Option (List Outcome) :=
  if s == "-" then some [] else
  (s.splitOn ",").mapM fun item =>
    if item == "L" || item == "Lx" then some Outcome.lost    -- `Lx`: lost, and the caller's context ends during the wait
    else if item.startsWith "R:" then (parseHex (item.drop 2).toString).map Outcome.reply
    else if item.startsWith "R!:" then (parseHex (item.drop 3).toString).map Outcome.reply   -- … and the context ends: the script ends here
    else none

def showRes : Res → String
  | .ok c p => s!"ok {c.toNat} {hexOf p}"
  | .transportErr => "err"
  | .serializeErr => "err"
  | .ctxExpired => "err"
  | .crashed => "panic"

def showSent (sent : List Bytes) : String := if sent.isEmpty then "-" else ",".intercalate (sent.map hexOf)

/-- `send <auth> <integ> <k1> <k2> <localID> <remoteID> <inbound> <fn> <cmd> <body> <ent> <lun> <req|!> <entropy> <script>` -/
def evalSend (args : List String) : String :=
  match args with
  | [_auth, integ, k1, k2, lid, rid, inb, fn, cmd, body, ent, lun, req, ivs, script] =>
    match [integ, lid, rid, inb, fn, cmd, body, ent, lun].mapM String.toNat?, parseHex k1, parseHex k2,
          (if req == "!" then some [] else parseHex req), parseHex ivs, parseScript script with
    | some [integ, lid, rid, inb, fn, cmd, body, ent, lun], some k1, some k2, some reqB, some ivs, some script =>
      let s : Sess := { inbound := inb, localID := lid, remoteID := rid, integ := integ, k1 := k1, k2 := k2 }
      let c : Cmd := { fn := UInt8.ofNat fn, cmd := UInt8.ofNat cmd, body := UInt8.ofNat body, ent := ent
                       lun := UInt8.ofNat lun, req := reqB, reqFails := req == "!" }
      let (s', sent, r) := send realOps s c (chunk16 (ivs.length / 16) ivs) script
      s!"sent={showSent sent} res={showRes r} inbound={s'.inbound}"
    | _, _, _, _, _, _ => "bad-op"
  | _ => "bad-op"

end Bmc.Driver

namespace Bmc.Driver
open Bmc Bmc.Wire Bmc.Crypto Bmc.Proto

/-- `sendhist <auth> <integ> <k1> <k2> <localID> <remoteID> <n> <entropy>`: n commands on one session, the reply to
    each of which is lost (so each transmits exactly one datagram): the IVs and sequence numbers the BMC sees -/
def evalSendHist (args : List String) : String :=
  match args with
  | [_auth, integ, k1, k2, lid, rid, n, ent] =>
    match [integ, lid, rid, n].mapM String.toNat?, parseHex k1, parseHex k2, parseHex ent with
    | some [integ, lid, rid, n], some k1, some k2, some ent =>
      let c : Cmd := { fn := 0x06, cmd := 0x01 }
      let ivs := chunk16 (ent.length / 16) ent
      let rec go (fuel : Nat) (s : Sess) (ivs : List Bytes) (acc : List Bytes) : List Bytes :=
        match fuel, ivs with
        | 0, _ => acc
        | _, [] => acc
        | f + 1, iv :: rest =>
          let (s', sent, _) := send realOps s c [iv] [.lost]
          go f s' rest (acc ++ sent)
      let sent := go n { localID := lid, remoteID := rid, integ := integ, k1 := k1, k2 := k2 } ivs []
      let ivsOut := sent.map fun d => (d.drop 16).take 16
      let seqs := sent.map fun d => le32 (d.drop 10)
      s!"n={sent.length} ivs={hexOf ivsOut.flatten} seqs={seqs}"
    | _, _, _, _ => "bad-op"
  | _ => "bad-op"
end Bmc.Driver

namespace Bmc.Driver
open Bmc Bmc.Wire Bmc.Crypto Bmc.Proto

/-- `sendseq <auth> <integ> <k1> <k2> <localID> <remoteID> <inbound> <entropy> <script>|<script>|…`: a history of Get Device ID
    commands on one session; `W` (the socket refuses the write) is, to the library, a failed Send like `L`: the attempt
    consumed its sequence number and ends the command -/
def evalSendSeq (args : List String) : String :=
  match args with
  | [_auth, integ, k1, k2, lid, rid, inb, ent, scripts] =>
    match [integ, lid, rid, inb].mapM String.toNat?, parseHex k1, parseHex k2, parseHex ent,
          (scripts.splitOn "|").mapM (fun s => parseScript ((s.replace "Lx" "L").replace "W" "L")) with
    | some [integ, lid, rid, inb], some k1, some k2, some ent, some scripts =>
      let c : Cmd := { fn := 0x06, cmd := 0x01 }
      let rec go (ss : List (List Outcome)) (s : Sess) (ivs : List Bytes) (sent : List Bytes) (res : List String) :
          Sess × List Bytes × List String :=
        match ss with
        | [] => (s, sent, res)
        | sc :: rest =>
          let (s', out, r) := send realOps s c ivs sc
          go rest s' (ivs.drop out.length) (sent ++ out) (res ++ [match r with | .ok _ _ => "ok" | _ => "err"])
      let (s', sent, res) := go scripts { inbound := inb, localID := lid, remoteID := rid, integ := integ, k1 := k1, k2 := k2 }
        (chunk16 (ent.length / 16) ent) [] []
      s!"seqs={sent.map fun d => le32 (d.drop 10)} res=[{", ".intercalate res}] inbound={s'.inbound}"
    | _, _, _, _, _ => "bad-op"
  | _ => "bad-op"
end Bmc.Driver

namespace Bmc.Driver
open Bmc Bmc.Wire Bmc.Crypto Bmc.Proto

/-- `sendm <15 send args>`: what the instrumentation model does during the call, each attempt's outcome being DERIVED
    FROM THE BYTES of the scripted reply (`attOf`, the function the C18 theorem `wire_accounting` is about). A script
    whose last item is `R!:…` ends with the context expiring while that reply is handled (`cancelled` follows it). -/
def evalSendM (args : List String) : String :=
  match args with
  | [_auth, integ, k1, k2, lid, rid, _inb, fn, cmd, body, ent, lun, _req, _ivs, script] =>
    match [integ, lid, rid, fn, cmd, body, ent, lun].mapM String.toNat?, parseHex k1, parseHex k2, parseScript script with
    | some [integ, lid, rid, fn, cmd, body, ent, lun], some k1, some k2, some sc =>
      let k : Keys := ⟨lid, rid, integ, k1, k2⟩
      let c : Cmd := { fn := UInt8.ofNat fn, cmd := UInt8.ofNat cmd, body := UInt8.ofNat body, ent := ent, lun := UInt8.ofNat lun }
      let atts := sc.map (attOf realOps k c)
      let cancelled := ((script.splitOn ",").getLast?.map (·.startsWith "R!:")).getD false
      let atts := if cancelled then atts ++ [Metrics.Att.cancelled] else atts
      let m := Metrics.command {} "raw" true true atts
      let ok := Metrics.succeeds true atts
      let resp := m.responses.filter (·.2 != 0)
      let resp := resp.foldl (fun acc x => insertSortedNat x acc) []
      let rs := if resp.isEmpty then "-" else ",".intercalate (resp.map fun (c, n) => s!"{c}:{n}")
      s!"res={if ok then "ok" else "err"} retries={m.retries} attempts={Metrics.cnt "raw" m.cmdAttempts} failures={Metrics.cnt "raw" m.cmdFailures} responses={rs}"
    | _, _, _, _ => "bad-op"
  | _ => "bad-op"
where
  insertSortedNat (x : Nat × Nat) : List (Nat × Nat) → List (Nat × Nat)
    | [] => [x]
    | y :: r => if x.1 < y.1 then x :: y :: r else y :: insertSortedNat x r
end Bmc.Driver

namespace Bmc.Driver

/-- Bursts over the real socket (`sendb`, `slsendb`): a raw script item `R:a+R:b` answers one transmission with several
    datagrams. The socket is a FIFO, so attempt i reads the oldest datagram not yet read, or times out when there is none:
    the DELIVERED script. -/
def queueScript (raw : List String) : List String :=
  let rec go (q : List String) : List String → List String
    | [] => []
    | it :: rest =>
      let q := if it == "L" then q else q ++ it.splitOn "+"
      match q with
      | [] => "L" :: go [] rest
      | d :: q' => d :: go q' rest
  go [] raw

def deliveredScript (s : String) : String := ",".intercalate (queueScript (s.splitOn ","))

def evalSendB (args : List String) : String :=
  match args.getLast? with
  | some script => if script == "-" then "bad-op" else evalSend (args.dropLast ++ [deliveredScript script])
  | none => "bad-op"

end Bmc.Driver
