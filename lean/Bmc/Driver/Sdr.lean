import Bmc.Driver.DecSdr
import Bmc.Lemmas.SdrWalkBmc
/-! `sdr <repo> <event> <maxRetries> [ts=<addition>/<erase>]` (C14): the model of `RetrieveSDRRepository`
    (`Proto/SdrWalk.lean`, REPAIRED map key) run against the conforming BMC of `Spec/Repo.lean` with the event
    scheduled just before the k-th Get SDR request; the context allows `maxRetries + 1` runs of the closure.
    Outcome: `ok <id:hex(field dump),… sorted by id | -> reqs=<requests answered>` or `err`. -/
namespace Bmc.Driver
open Bmc Bmc.Wire Bmc.Spec Bmc.Proto.SdrWalk Bmc.Lemmas.SdrWalk

def parseSdrRec (s : String) : Option SdrRec :=
  match s.splitOn ":" with
  | [a, b, c] => do
    let id ← a.toNat?; let t ← b.toNat?; let body ← parseHex c
    pure ⟨id, UInt8.ofNat t, body⟩
  | _ => none

def parseSdrRepo (s : String) : Option (List SdrRec) :=
  if s == "-" then some [] else (s.splitOn ",").mapM parseSdrRec

/-- `none` | `lose@k` | `add@k=rec` | `del@k=id` → the schedule: k−1 empty batches that wait for a Get SDR, then the event -/
def parseSdrEvent (s : String) : Option (List (Bool × List Mod)) :=
  if s == "none" then some [] else
  match s.splitOn "@" with
  | [kind, rest] =>
    let (ks, arg) := match rest.splitOn "=" with
      | [k, a] => (k, a)
      | _ => (rest, "")
    match ks.toNat? with
    | some k =>
      let m : Option Mod :=
        if kind == "lose" then some .lose
        else if kind == "add" then (parseSdrRec arg).map .add
        else if kind == "del" then arg.toNat?.map .delete
        else none
      if k = 0 then none else m.map fun m => List.replicate (k - 1) (true, []) ++ [(true, [m])]
    | none => none
  | _ => none

def insertSortedSdr (e : Nat × String) : List (Nat × String) → List (Nat × String)
  | [] => [e]
  | x :: xs => if e.1 ≤ x.1 then e :: x :: xs else x :: insertSortedSdr e xs

def showSdrRepository (m : SDRRepository) : String :=
  let entries := (m.map fun e => (e.1, hexOf (showFullSensorRecord e.2).toUTF8.toList)).foldr insertSortedSdr []
  if entries.isEmpty then "-" else ",".intercalate (entries.map fun e => s!"{e.1}:{e.2}")

def evalSdr (args : List String) : String :=
  match args with
  | repoS :: evS :: retriesS :: rest =>
    let ts : Option (Nat × Nat) := match rest with
      | [] => some (0x5f000000, 0x5e000000)
      | [t] => if t.startsWith "ts=" then
          (match ((t.drop 3).toString.splitOn "/").map String.toNat? with
           | [some a, some e] => some (a, e)
           | _ => none)
        else none
      | _ => none
    match parseSdrRepo repoS, parseSdrEvent evS, retriesS.toNat?, ts with
    | some recs, some sched, some retries, some (a, e) =>
      let w : World := { repo := { store := { recs := recs, addTs := a, eraseTs := e } }, sched := sched }
      -- fuel: a well-formed repository has fewer than 65536 records; more visits than that mean a cycle of Next links
      match retrieve true (logged bmc) 70000 (retries + 1) (w, []) with
      | ((_, log), some m) => s!"ok {showSdrRepository m} reqs={log.length}"
      | (_, none) => "err"
    | _, _, _, _ => "bad-op"
  | _ => "bad-op"

end Bmc.Driver
