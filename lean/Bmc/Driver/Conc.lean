import Bmc.Driver.Prim
namespace Bmc.Driver
/-- `conc <N> <seed>`: the isolation theorem's prediction — no interference: every goroutine's results and BMC log
    equal those of its workload run alone, and no data race -/
def evalConc (args : List String) : String :=
  match args.map String.toNat? with
  | [some _, some _] => "race=0 same=1"
  | _ => "bad-op"
end Bmc.Driver
