import Bmc.Driver.Prim
import Bmc.Wire.Message
import Bmc.Wire.V2Session
import Bmc.Wire.Rakp2
import Bmc.Wire.DeviceID
import Bmc.Wire.V1Session
import Bmc.Wire.Aes
import Bmc.Crypto.AES
namespace Bmc.Driver
open Bmc Bmc.Wire Bmc.Crypto

def hexOf (bs : Bytes) : String :=
  if bs.isEmpty then "-" else
  String.join (bs.map fun b => String.ofList [Nat.digitChar (b.toNat / 16), Nat.digitChar (b.toNat % 16)])

def showR (f : α → String) : R α → String
  | .ok a => "ok " ++ f a | .err => "err" | .panic => "panic" | .overread => "overread"

/-- toy integrity "hash" shared with the Go harness: 12 bytes, byte i = (sum of message + i * length) -/
def toyMac (m : Bytes) : Bytes :=
  let s : UInt8 := m.foldl (· + ·) 0
  (List.range 12).map fun i => s + UInt8.ofNat (i * m.length)

def realOps : Ops := { hmac := fun _ _ _ => [], encBlock := AES.encBlock, decBlock := AES.decBlock }

def mkSlice (data tail : Bytes) : GoSlice := GoSlice.window data tail

def showMessage (m : Message) : String :=
  s!"fn={m.function.toNat} body={m.body.toNat} ent={m.enterprise} cmd={m.command.toNat} ra={m.remoteAddress.toNat} rl={m.remoteLUN.toNat} c1={m.checksum1.toNat} la={m.localAddress.toNat} ll={m.localLUN.toNat} seq={m.sequence.toNat} cc={m.completionCode.toNat} c2={m.checksum2.toNat} contents={hexOf m.contents} payload={hexOf m.payload}"

def showV2 (v : V2Session) : String :=
  s!"enc={bool v.encrypted} auth={bool v.authenticated} pt={v.payloadType.toNat} ent={v.enterprise} pid={v.payloadID} id={v.id} seq={v.sequence} len={v.length} pad={v.pad.toNat} sig={hexOf v.signature} contents={hexOf v.contents} payload={hexOf v.payload}"

def showRakp2 (r : RAKP2) : String :=
  s!"tag={r.tag.toNat} status={r.status.toNat} sid={r.consoleSessionID} rnd={hexOf r.bmcRandom} guid={hexOf r.bmcGUID} ac={hexOf r.authCode}"

def showDev (g : GetDeviceIDRsp) : String :=
  s!"id={g.id.toNat} sdrs={bool g.providesSDRs} rev={g.revision.toNat} avail={bool g.available} maj={g.majorFirmwareRevision.toNat} min={g.minorFirmwareRevision.toNat} imaj={g.majorIPMIVersion.toNat} imin={g.minorIPMIVersion.toNat} sup={g.support.toNat} man={g.manufacturer} prod={g.product} aux={hexOf g.aux}"

def showV1 (v : V1Session) : String :=
  s!"at={v.authType.toNat} seq={v.sequence} id={v.id} ac={hexOf v.authCode} len={v.length.toNat} contents={hexOf v.contents} payload={hexOf v.payload}"

def showAes (a : AESLayer) : String := s!"iv={hexOf a.contents} payload={hexOf a.payload}"

/-- `dec <layer> <variant> <prev> <tail> <data> [key]` — variant 0 = pinned tree, 1 = repaired -/
def evalDec (args : List String) : String :=
  match args with
  | layer :: variant :: prevS :: tailS :: dataS :: rest =>
    match parseHex prevS, parseHex tailS, parseHex dataS with
    | some prev, some tail, some data =>
      let fixed := variant == "1"
      let d := mkSlice data tail
      match layer with
      | "message" => showR showMessage (Message.decodeGo (if fixed then 8 else 7) {} d)
      | "v2" => showR showV2 (V2Session.decodeGo toyMac {} d)
      | "rakp2" => showR showRakp2 (RAKP2.decodeGo fixed {} d)
      | "deviceid" =>
        let p : GetDeviceIDRsp := match GetDeviceIDRsp.decodeGo fixed {} (GoSlice.ofBytes prev) with
          | .ok v => v | _ => {}
        showR showDev (GetDeviceIDRsp.decodeGo fixed p d)
      | "v1" =>
        let p : V1Session := match V1Session.decodeGo fixed {} (GoSlice.ofBytes prev) with
          | .ok v => v | _ => {}
        showR showV1 (V1Session.decodeGo fixed p d)
      | "aes" =>
        match rest with
        | [keyS] => match parseHex keyS with
          | some key => showR showAes (AESLayer.decodeGo realOps key fixed {} d)
          | none => "bad-op"
        | _ => "bad-op"
      | _ => "bad-op"
    | _, _, _ => "bad-op"
  | _ => "bad-op"

end Bmc.Driver
