import Bmc.Driver.Prim
/-! `dec` operations: decode `data` (a window with `tail` beyond its length) into a receiver that has
    first decoded `prev` (empty = fresh receiver); print every exported field the way the Go harness's
    reflection dump does (`Name=value`, declaration order, BaseLayer's Contents/Payload first). -/
namespace Bmc.Driver
open Bmc

abbrev DecFn := Bytes → Bytes → Bytes → String

def decWith {X : Type} (fresh : X) (dec : X → GoSlice → R X) (sh : X → String) : DecFn := fun prev data tail =>
  let p : R X := if prev.isEmpty then .ok fresh else dec fresh (GoSlice.ofBytes prev)
  match p with
  | .ok pv => showR sh (dec pv (GoSlice.window data tail))
  | _ => "prev-failed"

def kvN (k : String) (n : Nat) : String := s!"{k}={n}"
def kvB (k : String) (b : Bool) : String := s!"{k}={bool b}"
def kvH (k : String) (bs : Bytes) : String := s!"{k}={hexOf bs}"
def kvU (k : String) (b : UInt8) : String := s!"{k}={b.toNat}"
def kvI (k : String) (i : Int) : String := s!"{k}={i}"
/-- bit n of a flags byte -/
def kvBit (k : String) (b : UInt8) (n : Nat) : String := s!"{k}={bool (b.toNat / 2 ^ n % 2 == 1)}"
def fields (l : List String) : String := " ".intercalate l

end Bmc.Driver
