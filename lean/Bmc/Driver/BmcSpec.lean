import Bmc.Driver.Send
import Bmc.Spec.BmcSession
/-! `bmcopen` / `bmcseal`: the Lean specification of the conforming in-session BMC, evaluated on the datagrams of the real
    library and against the harness's reference BMC. -/
namespace Bmc.Driver
open Bmc Bmc.Wire Bmc.Crypto Bmc.Proto Bmc.Spec

def reqPrefix (fn body : UInt8) (ent : Nat) : Bytes :=
  if isGroup fn then [body]
  else if isOEM fn then [UInt8.ofNat (ent % 256), UInt8.ofNat (ent / 256 % 256), UInt8.ofNat (ent / 65536 % 256)]
  else []

/-- `bmcopen <integ> <k1> <k2> <remoteID> <datagram>` -/
def evalBmcOpen (args : List String) : String :=
  match args with
  | [integ, k1, k2, rid, d] =>
    match integ.toNat?, parseHex k1, parseHex k2, rid.toNat?, parseHex d with
    | some integ, some k1, some k2, some rid, some d =>
      match bmcOpen realOps ⟨0, rid, integ, k1, k2⟩ d with
      | none => "none"
      | some r => s!"seq={r.seq} fn={r.fn.toNat} lun={r.lun.toNat} cmd={r.cmd.toNat} data={hexOf (reqPrefix r.fn r.body r.ent ++ r.data)}"
    | _, _, _, _, _ => "bad-op"
  | _ => "bad-op"

/-- `bmcseal <integ> <k1> <k2> <localID> <fn> <cmd> <body> <ent> <lun> <cc> <data> <seq> <iv>` -/
def evalBmcSeal (args : List String) : String :=
  match args with
  | [integ, k1, k2, lid, fn, cmd, body, ent, lun, cc, data, seq, iv] =>
    match [integ, lid, fn, cmd, body, ent, lun, cc, seq].mapM String.toNat?, parseHex k1, parseHex k2, parseHex data, parseHex iv with
    | some [integ, lid, fn, cmd, body, ent, lun, cc, seq], some k1, some k2, some data, some iv =>
      let c : Cmd := { fn := UInt8.ofNat fn, cmd := UInt8.ofNat cmd, body := UInt8.ofNat body, ent := ent, lun := UInt8.ofNat lun }
      hexOf (responseDatagram realOps ⟨lid, 0, integ, k1, k2⟩ c (UInt8.ofNat cc) data seq iv)
    | _, _, _, _, _ => "bad-op"
  | _ => "bad-op"

end Bmc.Driver
