import Bmc.Driver.Send
import Bmc.Proto.Sessionless
namespace Bmc.Driver
open Bmc Bmc.Wire Bmc.Proto

/-- `slsend <fn> <cmd> <body> <ent> <lun> <req|!> <script>` -/
def evalSlSend (args : List String) : String :=
  match args with
  | [fn, cmd, body, ent, lun, req, script] =>
    match [fn, cmd, body, ent, lun].mapM String.toNat?, (if req == "!" then some [] else parseHex req), parseScript script with
    | some [fn, cmd, body, ent, lun], some reqB, some script =>
      let c : Cmd := { fn := UInt8.ofNat fn, cmd := UInt8.ofNat cmd, body := UInt8.ofNat body, ent := ent
                       lun := UInt8.ofNat lun, req := reqB, reqFails := req == "!" }
      let (sent, r) := slSend c script
      s!"sent={showSent sent} res={showRes r}"
    | _, _, _ => "bad-op"
  | _ => "bad-op"

end Bmc.Driver

namespace Bmc.Driver
/-- `slhist <7 args> / <7 args> / …`: every command on a connection behaves as on a fresh one -/
def evalSlHist (args : List String) : String :=
  let rec go (fuel : Nat) (a : List String) (acc : List String) : List String :=
    match fuel with
    | 0 => acc
    | f + 1 =>
      if a.length < 7 then acc else
      let r := evalSlSend (a.take 7)
      let rest := a.drop 7
      let rest := if rest.head? == some "/" then rest.drop 1 else rest
      go f rest (acc ++ [r])
  " ; ".intercalate (go args.length args [])
end Bmc.Driver

namespace Bmc.Driver
def evalSlSendB (args : List String) : String :=
  match args.getLast? with
  | some script => if script == "-" then "bad-op" else evalSlSend (args.dropLast ++ [deliveredScript script])
  | none => "bad-op"
end Bmc.Driver
