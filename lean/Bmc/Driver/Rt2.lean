import Bmc.Driver.DecSetup
import Bmc.Wire.C08Encode
/-! `rtv1` / `rtrakp1` operations (C08): the bytes the serialisers produce, from the encode models, followed by what the
    pure decoders of the round-trip theorems make of them. -/
namespace Bmc.Driver
open Bmc Bmc.Wire

/-- `rtv1 <authType> <seq> <id> <authCodeHex> <payloadhex>`; `-` as AuthCode = the zero value of the `[16]byte` -/
def evalRtV1 (args : List String) : String :=
  match args with
  | [at_, seq, id, ac, inner] =>
    match [at_, seq, id].mapM String.toNat?, parseHex ac, parseHex inner with
    | some [at_, seq, id], some ac, some inner =>
      if ac.length != 16 && ac.length != 0 then "bad-op" else
      let s : V1Session := { authType := UInt8.ofNat at_, sequence := seq, id := id
                             authCode := if ac.isEmpty then List.replicate 16 0 else ac }
      let b := (V1Session.encode s inner).2
      match V1Session.decode b with
      | .ok d => s!"{hexOf b} ok {showV1 d}"
      | .error _ => s!"{hexOf b} err"
    | _, _, _ => "bad-op"
  | _ => "bad-op"

/-- `rtrakp1 <tag> <sessionID> <randomHex> <lookup> <priv> <userhex>` -/
def evalRtRakp1 (args : List String) : String :=
  match args with
  | [tag, sid, rnd, lookup, priv, user] =>
    match [tag, sid, priv].mapM String.toNat?, parseHex rnd, parseHex user with
    | some [tag, sid, priv], some rnd, some user =>
      if rnd.length != 16 then "bad-op" else
      let v : Setup.RAKP1 := { tag := UInt8.ofNat tag, bmcSID := sid, consoleRandom := rnd, lookup := lookup == "1"
                               maxPriv := UInt8.ofNat priv, username := user }
      match v.serialize with
      | .error _ => "err"
      | .ok b =>
        match Setup.RAKP1.decode b with
        | .ok d => s!"{hexOf b} ok {showRakp1 d}"
        | .error _ => s!"{hexOf b} err"
    | _, _, _ => "bad-op"
  | _ => "bad-op"

end Bmc.Driver
