import Bmc.Driver.DecCore
import Bmc.Wire.Encode
/-! `rt` operations (C08): the bytes the serialisers produce, from the encode models. -/
namespace Bmc.Driver
open Bmc Bmc.Wire Bmc.Crypto

def evalRt (args : List String) : String :=
  match args with
  | ["message", fn, body, ent, cmd, ra, rl, la, ll, seq, cc, data] =>
    match [fn, body, ent, cmd, ra, rl, la, ll, seq, cc].mapM String.toNat?, parseHex data with
    | some [fn, body, ent, cmd, ra, rl, la, ll, seq, cc], some data =>
      let m : Message := { function := UInt8.ofNat fn, body := UInt8.ofNat body, enterprise := ent, command := UInt8.ofNat cmd
                           remoteAddress := UInt8.ofNat ra, remoteLUN := UInt8.ofNat rl, localAddress := UInt8.ofNat la
                           localLUN := UInt8.ofNat ll, sequence := UInt8.ofNat seq, completionCode := UInt8.ofNat cc }
      hexOf (Message.encode m data).2
    | _, _ => "bad-op"
  | ["v2", alg, pt, enc, auth, ent, pid, id, seq, inner] =>
    match [alg, pt, enc, auth, ent, pid, id, seq].mapM String.toNat?, parseHex inner with
    | some [alg, pt, enc, auth, ent, pid, id, seq], some inner =>
      let s : V2Session := { payloadType := UInt8.ofNat pt, encrypted := enc == 1, authenticated := auth == 1
                             enterprise := ent, payloadID := pid, id := id, sequence := seq }
      hexOf (V2Session.encode (integMac realOps alg testK1) s inner).2
    | _, _ => "bad-op"
  | ["aes", iv, msg] =>
    match parseHex iv, parseHex msg with
    | some iv, some msg => hexOf (AESLayer.encode realOps testK2 iv msg)
    | _, _ => "bad-op"
  | _ => "bad-op"

end Bmc.Driver
