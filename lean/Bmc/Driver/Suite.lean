import Bmc.Driver.Hs
import Bmc.Proto.Suites
import Bmc.Proto.Discovery
import Bmc.Spec.Enum
namespace Bmc.Driver
open Bmc Bmc.Proto

def parseSuite (s : String) : Option Suite :=
  match (s.splitOn "/").map String.toNat? with
  | [some a, some i, some c] => some ⟨a, i, c⟩
  | _ => none

def parseSuites (s : String) : Option (List Suite) :=
  if s == "-" then some [] else (s.splitOn ";").mapM parseSuite

def supportedSuite (s : Suite) : Bool :=
  (s.auth == 1 || s.auth == 2 || s.auth == 3) && (s.integ == 1 || s.integ == 2 || s.integ == 4) && s.conf == 1

/-- `suite <prefs> <advertised | fail>` -/
def evalSuite (args : List String) : String :=
  match args with
  | [prefs, adv] =>
    match parseSuites prefs, (if adv == "fail" then some none else (parseSuites adv).map some) with
    | some prefs, some adv =>
      -- the advertised suites as the reference BMC of the harness holds them: standard records C0h, ID k+1, one
      -- integrity and one confidentiality algorithm each, served 16 bytes per list index; discovery is EXECUTED
      let page : Nat → Option Bytes := match adv with
        | none => fun _ => none
        | some l =>
          let rs : List Spec.Enum.Record := (List.range l.length).zipWith (fun k (s : Suite) =>
            { id := k + 1, iana := none, auth := s.auth, integ := [s.integ], conf := [s.conf] }) l
          Enum.pageOfBody fun i => some (Spec.Enum.pageBody 0x0E (Spec.Enum.encodeRecords rs) i)
      match determineFull prefs page with
      | .propose p d => s!"proposed={p.auth}/{p.integ}/{p.conf} discovery={bool d} res={if supportedSuite p then "ok" else "err"}"
      | .noSupported => "proposed=none discovery=1 res=nosuite"
      | .discoveryFailed => "proposed=none discovery=1 res=err"
    | _, _ => "bad-op"
  | _ => "bad-op"

def showChoice : Choice → String
  | .propose p d => s!"proposed={p.auth}/{p.integ}/{p.conf} discovery={bool d} res={if supportedSuite p then "ok" else "err"}"
  | .noSupported => "proposed=none discovery=1 res=nosuite"
  | .discoveryFailed => "proposed=none discovery=1 res=err"

def parseAlgs (s : String) : Option (List Nat) := if s == "-" then some [] else (s.splitOn "+").mapM String.toNat?

def parseRecord (s : String) : Option Spec.Enum.Record :=
  match s.splitOn "," with
  | [id, iana, auth, is, cs] =>
    match id.toNat?, (if iana == "-" then some none else iana.toNat?.map some), auth.toNat?, parseAlgs is, parseAlgs cs with
    | some id, some iana, some auth, some is, some cs => some { id := id, iana := iana, auth := auth, integ := is, conf := cs }
    | _, _, _, _, _ => none
  | _ => none

/-- `suiterec <prefs> <records>`: the BMC holds these cipher suite records; discovery is executed over its pages -/
def evalSuiteRec (args : List String) : String :=
  match args with
  | [prefs, recs] =>
    match parseSuites prefs, (recs.splitOn ";").mapM parseRecord with
    | some prefs, some rs =>
      showChoice (determineFull prefs (Enum.pageOfBody fun i => some (Spec.Enum.pageBody 0x0E (Spec.Enum.encodeRecords rs) i)))
    | _, _ => "bad-op"
  | _ => "bad-op"

end Bmc.Driver
