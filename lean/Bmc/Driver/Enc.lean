import Bmc.Driver.DecCore
import Bmc.Wire.Requests
import Bmc.Proto.Handshake
/-! `enc`, `pkt`, `pktcmd` operations (C06): the bytes the request serialisers and the session-less datagram
    builder produce, evaluated from the models of `Wire/Requests.lean`. -/
namespace Bmc.Driver
open Bmc Bmc.Wire Bmc.Wire.Req Bmc.Crypto

private def u8 (n : Nat) : UInt8 := UInt8.ofNat n
private def showE : Except Unit Bytes → String
  | .ok b => hexOf b
  | .error _ => "err"

/-- a possibly negative decimal integer -/
def parseInt (s : String) : Option Int :=
  if s.startsWith "-" then (s.drop 1).toNat?.map (fun n => -(n : Int)) else s.toNat?.map (fun n => (n : Int))

/-- request body of one layer from positional field values: `some (ok bytes | error)`; `none` = malformed op -/
def encBody (layer : String) (args : List String) : Option (Except Unit Bytes) :=
  match layer, args with
  | "authcaps", [ext, ch, p] =>
    match [ext, ch, p].mapM String.toNat? with
    | some [ext, ch, p] => some (.ok (AuthCaps.encode { extendedData := ext == 1, channel := u8 ch, maxPrivilegeLevel := u8 p }))
    | _ => none
  | "ciphersuites", [ch, pt, idx] =>
    match [ch, pt, idx].mapM String.toNat? with
    | some [ch, pt, idx] => some (.ok (CipherSuites.encode { channel := u8 ch, payloadType := u8 pt, listIndex := u8 idx }))
    | _ => none
  | "sessioninfo", [idx, h, id] =>
    match [idx, h, id].mapM String.toNat? with
    | some [idx, h, id] => some (.ok (SessionInfo.encode { index := u8 idx, handle := u8 h, id := id }))
    | _ => none
  | "setpriv", [l] => l.toNat?.map (fun l => SetPriv.encode (u8 l))
  | "closesession", [id, h] =>
    match [id, h].mapM String.toNat? with
    | some [id, h] => some (.ok (CloseSession.encode id (u8 h)))
    | _ => none
  | "chassisctl", [c] => c.toNat?.map (fun c => .ok (ChassisControl.encode c))
  | "getsdr", [res, rec, off, len] =>
    match [res, rec, off, len].mapM String.toNat? with
    | some [res, rec, off, len] => some (.ok (GetSDR.encode res rec (u8 off) (u8 len)))
    | _ => none
  | "sensorreading", [n] => n.toNat?.map (fun n => .ok (SensorReading.encode (u8 n)))
  | "opensession", [tag, p, sid, aw, a, iw, i, cw, c] =>
    match [tag, p, sid, aw, a, iw, i, cw, c].mapM String.toNat? with
    | some [tag, p, sid, aw, a, iw, i, cw, c] =>
      some (.ok (OpenSession.encode { tag := u8 tag, maxPrivilegeLevel := u8 p, sessionID := sid, authWildcard := aw == 1, auth := u8 a
                                      integWildcard := iw == 1, integ := u8 i, confWildcard := cw == 1, conf := u8 c }))
    | _ => none
  | "rakp1", [tag, sid, rm, lookup, p, user] =>
    match [tag, sid, lookup, p].mapM String.toNat?, parseHex rm, parseHex user with
    | some [tag, sid, lookup, p], some rm, some user =>
      some (Rakp1.encode { tag := u8 tag, bmcSessionID := sid, random := rm, privilegeLevelLookup := lookup == 1
                           maxPrivilegeLevel := u8 p, username := user })
    | _, _, _ => none
  | "rakp3", [tag, st, sid, code] =>
    match [tag, st, sid].mapM String.toNat?, parseHex code with
    | some [tag, st, sid], some code => some (.ok (Rakp3.encode { tag := u8 tag, status := u8 st, bmcSessionID := sid, authCode := code }))
    | _, _ => none
  | "dcmicaps", [p] => p.toNat?.map (fun p => .ok (DcmiCaps.encode (u8 p)))
  | "powerreading", [m, ns] =>
    match m.toNat?, parseInt ns with
    | some m, some ns => some (.ok (PowerReading.encode { mode := u8 m, periodNs := ns }))
    | _, _ => none
  | "dcmisensorinfo", [t, e, i, s] =>
    match [t, e, i, s].mapM String.toNat? with
    | some [t, e, i, s] => some (.ok (DcmiSensorInfo.encode { type := u8 t, entity := u8 e, instance_ := u8 i, instanceStart := u8 s }))
    | _ => none
  | _, _ => none

/-- `enc <layer> <field values…>` → hex of the serialised body, or `err` -/
def evalEnc (args : List String) : String :=
  match args with
  | layer :: rest => match encBody layer rest with
    | some r => showE r
    | none => "bad-op"
  | [] => "bad-op"

/-- `pkt <netfn> <cmd> <body> <ent> <lun> <bodyhex>` → the datagram of a session-less command carrying that operation -/
def evalPkt (args : List String) : String :=
  match args with
  | [fn, cmd, body, ent, lun, data] =>
    match [fn, cmd, body, ent, lun].mapM String.toNat?, parseHex data with
    | some [fn, cmd, body, ent, lun], some data =>
      hexOf (packetSessionless { function := u8 fn, body := u8 body, enterprise := ent, command := u8 cmd } (u8 lun) data)
    | _, _ => "bad-op"
  | _ => "bad-op"

private def cmdOf : String → Option (Cmd × String)
  | "GetChassisStatus" => some (.getChassisStatus, "")
  | "ChassisControl" => some (.chassisControl, "chassisctl")
  | "GetDeviceID" => some (.getDeviceID, "")
  | "GetSystemGUID" => some (.getSystemGUID, "")
  | "GetChannelAuthenticationCapabilities" => some (.authCaps, "authcaps")
  | "SetSessionPrivilegeLevel" => some (.setPriv, "setpriv")
  | "CloseSession" => some (.closeSession, "closesession")
  | "GetSDRRepositoryInfo" => some (.sdrRepoInfo, "")
  | "ReserveSDRRepository" => some (.reserveSDR, "")
  | "GetSDR" => some (.getSDR, "getsdr")
  | "GetSessionInfo" => some (.sessionInfo, "sessioninfo")
  | "GetChannelCipherSuites" => some (.cipherSuites, "ciphersuites")
  | "DCMICaps" => some (.dcmiCaps, "dcmicaps")
  | "GetPowerReading" => some (.powerReading, "powerreading")
  | "GetDCMISensorInfo" => some (.dcmiSensorInfo, "dcmisensorinfo")
  | _ => none

private def authHash : Nat → Option HashAlg
  | 1 => some .sha1 | 2 => some .md5 | 3 => some .sha256 | _ => none

private def showList (ds : List Bytes) : String := if ds.isEmpty then "err" else ",".intercalate (ds.map hexOf)

/-- the three setup datagrams of `NewV2Session` with one cipher suite against the reference BMC of the harness
    (password "secret", BMC random C0…CF, it echoes the proposed algorithms masked to 6 bits, answers RAKP 1 only
    for a known authentication algorithm): Open Session Request (tag 0, console session ID 1), RAKP 1, RAKP 3. -/
def newSessionDatagrams (user : Bytes) (priv : Nat) (lookup : Bool) (auth integ conf bmcSID : Nat) (rm : Bytes) : List Bytes :=
  let d1 := packetPayload ptOpenSessionReq (OpenSession.encode { maxPrivilegeLevel := u8 priv, sessionID := 1, auth := u8 auth
                                                                 integ := u8 integ, conf := u8 conf })
  match Rakp1.encode { bmcSessionID := bmcSID, random := rm, privilegeLevelLookup := lookup, maxPrivilegeLevel := u8 priv, username := user } with
  | .error _ => [d1]
  | .ok r1 =>
    let d2 := packetPayload ptRakp1 r1
    match authHash (auth % 64) with
    | none => [d1, d2]
    | some h =>
      let bit : UInt8 := if lookup then 0 else 0x10
      let roleWire : UInt8 := (u8 priv &&& 0xF) ||| bit
      let roleLib : UInt8 := u8 priv ||| bit           -- authenticator.go hashes the unmasked level
      if roleWire != roleLib then [d1, d2] else        -- the BMC's RAKP 2 code does not verify: ErrIncorrectPassword
      let rc : Bytes := (List.range 16).map (fun i => u8 (0xC0 + i))
      let code := Hash.hmac h "secret".toUTF8.toList (rc ++ putLE32 1 ++ [roleLib, u8 user.length] ++ user)
      [d1, d2, packetPayload ptRakp3 (Rakp3.encode { status := 0, bmcSessionID := bmcSID, authCode := code })]

/-- `pktcmd <name> <field values…>` → the datagram(s) the library transmits for that high-level call -/
def evalPktCmd (args : List String) : String :=
  match args with
  | ["GetSensorReading", n, lun] =>
    match n.toNat?, lun.toNat? with
    | some n, some lun => showE (commandDatagram .sensorReading (u8 lun) (.ok (SensorReading.encode (u8 n))))
    | _, _ => "bad-op"
  | ["NewV2Session", user, priv, lookup, auth, integ, conf, sid, rm] =>
    match parseHex user, [priv, lookup, auth, integ, conf, sid].mapM String.toNat?, parseHex rm with
    | some user, some [priv, lookup, auth, integ, conf, sid], some rm =>
      showList (newSessionDatagrams user priv (lookup == 1) auth integ conf sid rm)
    | _, _, _ => "bad-op"
  | ["RetrieveSupportedCipherSuites", n] =>
    match n.toNat? with
    | some n => showList ((List.range (min (n + 1) 64)).map fun i =>   -- list indices are 6 bits wide: 0 … 63
        packetSessionless Cmd.cipherSuites.operation (Cmd.cipherSuites.lun 0)
          (CipherSuites.encode { channel := u8 Gen.Facts.ipmi_ChannelPresentInterface, payloadType := 0, listIndex := u8 i }))
    | none => "bad-op"
  | name :: rest =>
    match cmdOf name with
    | some (c, "") => if rest.isEmpty then showE (commandDatagram c 0 (.ok [])) else "bad-op"
    | some (c, layer) => match encBody layer rest with
      | some body => showE (commandDatagram c 0 body)
      | none => "bad-op"
    | none => "bad-op"
  | [] => "bad-op"

end Bmc.Driver
