import Bmc.Driver.Dec
import Bmc.Wire.Simple
import Bmc.Wire.Sess
/-! Driver entries of group Sess: field dumps in the Go struct's declaration order (BaseLayer first). -/
namespace Bmc.Driver
open Bmc Bmc.Wire

def showAuthCaps (g : AuthCapsRsp) : String := fields [
  kvH "Contents" g.contents, kvH "Payload" g.payload, kvU "Channel" g.channel,
  kvBit "ExtendedCapabilities" g.authTypes 7, kvBit "AuthenticationTypeOEM" g.authTypes 5,
  kvBit "AuthenticationTypePassword" g.authTypes 4, kvBit "AuthenticationTypeMD5" g.authTypes 2,
  kvBit "AuthenticationTypeMD2" g.authTypes 1, kvBit "AuthenticationTypeNone" g.authTypes 0,
  kvBit "TwoKeyLogin" g.status 5, kvBit "PerMessageAuthentication" g.status 4, kvBit "UserLevelAuthentication" g.status 3,
  kvBit "NonNullUsernamesEnabled" g.status 2, kvBit "NullUsernamesEnabled" g.status 1,
  kvBit "AnonymousLoginEnabled" g.status 0,
  kvBit "SupportsV2" g.versions 1, kvBit "SupportsV1" g.versions 0,
  kvN "OEM" g.oem, kvU "OEMData" g.oemData]

def showCipherSuites (c : CipherSuitesRsp) : String := fields [
  kvH "Contents" c.contents, kvH "Payload" c.payload, kvU "Channel" c.channel, kvH "CipherSuiteRecordsChunk" c.chunk]

/-- `SetSessionPrivilegeLevelRsp.DecodeFromBytes` never assigns the BaseLayer -/
def showSetPriv (r : SetPrivRsp) : String := fields [
  kvH "Contents" [], kvH "Payload" [], kvU "PrivilegeLevel" r.level]

/-- `GetSystemGUIDRsp.DecodeFromBytes` never assigns `Payload` -/
def showGUID (g : GUIDRsp) : String := fields [
  kvH "Contents" g.contents, kvH "Payload" [], kvH "GUID" g.guid]

def showSessionInfo (g : SessionInfoRsp) : String := fields [
  kvH "Contents" g.contents, kvH "Payload" g.payload, kvU "Handle" g.handle, kvU "Max" g.max, kvU "Active" g.active,
  kvU "UserID" g.userID, kvU "PrivilegeLevel" g.privilegeLevel, kvB "IsIPMIv2" g.isIPMIv2, kvU "Channel" g.channel,
  kvH "IP" g.ip, kvH "MAC" g.mac, kvN "Port" g.port]

def decTableSess : List (String × DecFn) := [
  ("authcaps", decWith {} AuthCapsRsp.decodeGo showAuthCaps),
  ("ciphersuites", decWith {} CipherSuitesRsp.decodeGo showCipherSuites),
  ("setpriv", decWith {} SetPrivRsp.decodeGo showSetPriv),
  ("guid", decWith {} GUIDRsp.decodeGo showGUID),
  ("sessioninfo", decWith {} SessionInfoRsp.decodeGo showSessionInfo)]

end Bmc.Driver
