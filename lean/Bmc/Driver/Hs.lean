import Bmc.Driver.Send
import Bmc.Proto.Handshake
namespace Bmc.Driver
open Bmc Bmc.Wire Bmc.Crypto Bmc.Proto

def showHs : HsRes → String
  | .ok l r a i c sik k1 k2 => s!"ok local={l} remote={r} algs={a.toNat}/{i.toNat}/{c.toNat} sik={hexOf sik} k1={hexOf k1} k2={hexOf k2}"
  | .incorrectPassword => "badpw"
  | .error => "err"
  | .crashed => "crashed"

/-- `hs <variant> <user> <pass> <kg> <priv> <lookup> <auth> <integ> <conf> <rm> <script>` -/
def evalHs (args : List String) : String :=
  match args with
  | [variant, user, pass, kg, priv, lookup, auth, integ, conf, rm, script] =>
    match parseHex user, parseHex pass, parseHex kg, priv.toNat?, lookup.toNat?, auth.toNat?, integ.toNat?, conf.toNat?,
          parseHex rm, parseScript script with
    | some user, some pass, some kg, some priv, some lookup, some auth, some integ, some conf, some rm, some script =>
      let fixed := variant == "1"
      let o : Opts := { user := user, pass := pass, kg := kg, priv := UInt8.ofNat priv, lookup := lookup == 1
                        auth := UInt8.ofNat auth, integ := UInt8.ofNat integ, conf := UInt8.ofNat conf }
      let (sent, r) := newSession realOpsFull (if fixed then 8 else 7) fixed fixed o rm script
      let sentS := if sent.isEmpty then "-" else ",".intercalate (sent.map hexOf)
      s!"sent={sentS} res={showHs r}"
    | _, _, _, _, _, _, _, _, _, _ => "bad-op"
  | _ => "bad-op"
end Bmc.Driver
