import Bmc.Proto.Metrics
import Bmc.Driver.Send
import Bmc.Proto.Handshake
namespace Bmc.Driver
open Bmc Bmc.Wire Bmc.Crypto Bmc.Proto

def showHs : HsRes → String
  | .ok l r a i c sik k1 k2 => s!"ok local={l} remote={r} algs={a.toNat}/{i.toNat}/{c.toNat} sik={hexOf sik} k1={hexOf k1} k2={hexOf k2}"
  | .incorrectPassword => "badpw"
  | .error => "err"
  | .crashed => "panic"

/-- `hs <user> <pass> <kg> <priv> <lookup> <auth> <integ> <conf> <rm> <bmcpass> <bmckg> <script>`
    (the BMC's own password / KG are only used by the harness's reference verdict) -/
def evalHs (args : List String) : String :=
  match args with
  | [user, pass, kg, priv, lookup, auth, integ, conf, rm, _bp, _bk, script] =>
    match parseHex user, parseHex pass, parseHex kg, [priv, lookup, auth, integ, conf].mapM String.toNat?, parseHex rm,
          parseScript script with
    | some user, some pass, some kg, some [priv, lookup, auth, integ, conf], some rm, some script =>
      let o : Opts := { user := user, pass := pass, kg := kg, priv := UInt8.ofNat priv, lookup := lookup == 1
                        auth := UInt8.ofNat auth, integ := UInt8.ofNat integ, conf := UInt8.ofNat conf }
      let (sent, r) := newSession realOps o rm script
      s!"sent={showSent sent} res={showHs r}"
    | _, _, _, _, _, _ => "bad-op"
  | _ => "bad-op"

/-- `hs2 <12 args> / <12 args> / …`: every handshake on a connection behaves as on a fresh one (the model has no
    connection state for session establishment to carry over) -/
def evalHs2 (args : List String) : String :=
  let rec go (fuel : Nat) (a : List String) (acc : List String) : List String :=
    match fuel with
    | 0 => acc
    | f + 1 =>
      if a.length < 12 then acc else
      let r := evalHs (a.take 12)
      let rest := a.drop 12
      let rest := if rest.head? == some "/" then rest.drop 1 else rest
      go f rest (acc ++ [r])
  " ; ".intercalate (go args.length args [])

/-- `hsm <12 hs args>`: what the instrumentation model (`Metrics.step` with `openOk` / `openFail`) does during the
    handshake of `hs`: the outcome is that of the byte-level handshake model `newSession`. -/
def evalHsM (args : List String) : String :=
  let r := evalHs args
  if r == "bad-op" then r else
  let ok := ((r.splitOn " res=").getD 1 "").startsWith "ok"
  let m := Bmc.Proto.Metrics.step {} (if ok then .openOk else .openFail)
  let other := m.retries + m.cmdAttempts.length + m.cmdFailures.length + m.responses.length
  -- an established session is then closed; the reply to Close Session is lost
  let m2 := if ok then Bmc.Proto.Metrics.step m (.closeSess [.lost]) else m
  let closed := if ok then "err" else "-"
  s!"res={if ok then "ok" else "err"} attempts={m.sessAttempts} failures={m.sessFailures} open={m.sessOpen} other={other} closed={closed} close_attempts={Bmc.Proto.Metrics.cnt "Close Session" m2.cmdAttempts} open_after={m2.sessOpen}"

end Bmc.Driver
