import Bmc.Driver.Send
import Bmc.Proto.Handshake
namespace Bmc.Driver
open Bmc Bmc.Wire Bmc.Crypto Bmc.Proto

def showHs : HsRes → String
  | .ok l r a i c sik k1 k2 => s!"ok local={l} remote={r} algs={a.toNat}/{i.toNat}/{c.toNat} sik={hexOf sik} k1={hexOf k1} k2={hexOf k2}"
  | .incorrectPassword => "badpw"
  | .error => "err"
  | .crashed => "panic"

/-- `hs <user> <pass> <kg> <priv> <lookup> <auth> <integ> <conf> <rm> <bmcpass> <bmckg> <script>`
    (the BMC's own password / KG are only used by the harness's reference verdict) -/
def evalHs (args : List String) : String :=
  match args with
  | [user, pass, kg, priv, lookup, auth, integ, conf, rm, _bp, _bk, script] =>
    match parseHex user, parseHex pass, parseHex kg, [priv, lookup, auth, integ, conf].mapM String.toNat?, parseHex rm,
          parseScript script with
    | some user, some pass, some kg, some [priv, lookup, auth, integ, conf], some rm, some script =>
      let o : Opts := { user := user, pass := pass, kg := kg, priv := UInt8.ofNat priv, lookup := lookup == 1
                        auth := UInt8.ofNat auth, integ := UInt8.ofNat integ, conf := UInt8.ofNat conf }
      let (sent, r) := newSession realOps o rm script
      s!"sent={showSent sent} res={showHs r}"
    | _, _, _, _, _, _ => "bad-op"
  | _ => "bad-op"

end Bmc.Driver
