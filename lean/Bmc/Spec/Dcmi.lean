import Bmc.Spec.Basic
import Bmc.Spec.Prim
/-! DCMI responses as the specification lays them out (DCMI v1.0 / v1.1 / v1.5: Get DCMI Capabilities Info §6.1,
    Table 6-3 "DCMI Capabilities Parameters"; Get Power Reading §6.6.1; Get DCMI Sensor Info §6.5.2), after the
    completion code and the group-extension byte DC. Written from the tables (DESIGN.md Appendix H) and the
    library's doc comments, not by inverting the decoders.

    One deliberate reading is followed and flagged: the SEL attributes of parameter 2 (see `Cap2`). -/
namespace Bmc.Spec
open Bmc

/-- the three published versions; the response begins with major version, minor version, parameter revision. The
    published values of the parameter revision are 01 for v1.0 and 02 for v1.1 and v1.5, but it is a field of its own —
    a BMC may carry any value there, and it must not influence how the rest is read — so it is a free byte here -/
inductive DcmiVersion where
  | v10 (rev : UInt8) | v11 (rev : UInt8) | v15 (rev : UInt8)
  deriving Repr, DecidableEq

def DcmiVersion.header : DcmiVersion → Bytes
  | .v10 rev => [1, 0, rev]
  | .v11 rev => [1, 1, rev]
  | .v15 rev => [1, 5, rev]

def DcmiVersion.isV10 : DcmiVersion → Bool
  | .v10 _ => true
  | _ => false

/-- Parameter 1, Supported DCMI Capabilities — three bytes.
    v1.0:  byte 1 mandatory platform capabilities: [3] temperature monitor, [2] chassis power, [1] SEL logging,
           [0] identification; byte 2 optional platform capabilities: [0] power management; byte 3 manageability
           access: [5] VLAN capable, [4] SOL supported, [3] OOB primary LAN channel available, [2] OOB secondary LAN
           channel available, [1] serial TMODE available, [0] in-band KCS channel available.
    v1.1 / v1.5: byte 1 reserved; byte 2 [0] power management; byte 3: [2] OOB secondary LAN channel available,
           [1] serial TMODE available, [0] in-band system interface channel available; the rest reserved
           (the v1.0 capabilities became mandatory and lost their bits). -/
structure Cap1 where
  ver : DcmiVersion
  (temperatureMonitor chassisPower selLogging identification : Bool)      -- v1.0 only
  powerManagement : Bool
  (vlanCapable solSupported oobPrimary : Bool)                            -- v1.0 only
  (oobSecondary serialTMODE : Bool)
  /-- bit 0 of byte 3: the KCS channel in v1.0, the system interface channel from v1.1 -/
  inBand : Bool

def Cap1.encode (v : Cap1) : Bytes :=
  v.ver.header ++
  (if v.ver.isV10 then
    [bit v.temperatureMonitor 3 ||| bit v.chassisPower 2 ||| bit v.selLogging 1 ||| bit v.identification 0,
     bit v.powerManagement 0,
     bit v.vlanCapable 5 ||| bit v.solSupported 4 ||| bit v.oobPrimary 3 ||| bit v.oobSecondary 2 ||| bit v.serialTMODE 1
       ||| bit v.inBand 0]
   else
    [0, bit v.powerManagement 0, bit v.oobSecondary 2 ||| bit v.serialTMODE 1 ||| bit v.inBand 0])

/-- Parameter 2, Mandatory Platform Attributes.
    bytes 1:2 SEL attributes: automatic rollover enabled, [v1.1+] entire-SEL flush upon rollover, [v1.1+] record-level
           flush upon rollover, one reserved bit, 12-bit number of SEL entries;
    v1.0:  byte 3 identification attributes: [2] asset tag, [1] DHCP host name, [0] GUID; byte 4 temperature
           monitoring: [2] baseboard, [1] processors, [0] inlet;
    v1.1 / v1.5: bytes 3, 4 reserved; byte 5 temperature sampling frequency in seconds.

    READING FOLLOWED (pinned by the repository's tests, DESIGN.md §10): the library takes the flags from bits 7:5 of
    the FIRST byte and computes the entry count as (first byte & 0x0f) + 256 × second byte. `encode` lays the two
    bytes out accordingly, so `selEntries` ranges over the values that reading can represent (`wf`). The DCMI
    table read as one 16-bit little-endian word ([15] rollover … [11:0] entries, least significant byte first —
    the way ipmitool and FreeIPMI read it) is `selAttrsLSFirst`; `Lemmas/DcmiBits.lean` shows on an example what the
    library makes of it. -/
structure Cap2 where
  ver : DcmiVersion
  selAutoRollover : Bool
  (selFlushOnRollover selRecordLevelFlushOnRollover : Bool)                -- v1.1+
  selEntries : Nat
  (assetTag dhcpHostName guid : Bool)                                     -- v1.0 only
  (baseboardTemperature processorsTemperature inletTemperature : Bool)    -- v1.0 only
  samplingSeconds : Nat                                                   -- v1.1+

def Cap2.wf (v : Cap2) : Prop := v.selEntries < 65536 ∧ v.selEntries % 256 < 16 ∧ v.samplingSeconds < 256
instance Cap2.decWf (v : Cap2) : Decidable v.wf := by unfold Cap2.wf; infer_instance

def Cap2.encode (v : Cap2) : Bytes :=
  v.ver.header ++
  (if v.ver.isV10 then
    [bit v.selAutoRollover 7 ||| UInt8.ofNat (v.selEntries % 256), UInt8.ofNat (v.selEntries / 256),
     bit v.assetTag 2 ||| bit v.dhcpHostName 1 ||| bit v.guid 0,
     bit v.baseboardTemperature 2 ||| bit v.processorsTemperature 1 ||| bit v.inletTemperature 0]
   else
    [bit v.selAutoRollover 7 ||| bit v.selFlushOnRollover 6 ||| bit v.selRecordLevelFlushOnRollover 5
       ||| UInt8.ofNat (v.selEntries % 256), UInt8.ofNat (v.selEntries / 256), 0, 0, UInt8.ofNat v.samplingSeconds])

/-- the SEL attributes as a 16-bit word sent least significant byte first: `entries < 4096` in bits 11:0, the flags
    in bits 15:13 (NOT what the library decodes — see `Cap2`) -/
def selAttrsLSFirst (rollover flush recordLevel : Bool) (entries : Nat) : Bytes :=
  [UInt8.ofNat (entries % 256), bit rollover 7 ||| bit flush 6 ||| bit recordLevel 5 ||| UInt8.ofNat (entries / 256 % 16)]

/-- Parameter 3, Optional Platform Attributes: byte 1 [7:1] 7-bit I²C slave address of the power management
    controller, [0] reserved; byte 2 [7:4] channel number, [3:0] device revision -/
structure Cap3 where
  ver : DcmiVersion
  slaveAddress : UInt8        -- 7 bits
  channel : UInt8             -- 4 bits
  revision : UInt8            -- 4 bits

def Cap3.wf (v : Cap3) : Prop := v.slaveAddress.toNat < 128 ∧ v.channel.toNat < 16 ∧ v.revision.toNat < 16
instance Cap3.decWf (v : Cap3) : Decidable v.wf := by unfold Cap3.wf; infer_instance

def Cap3.encode (v : Cap3) : Bytes := v.ver.header ++ [v.slaveAddress <<< 1, (v.channel <<< 4) ||| v.revision]

/-- Parameter 4, Manageability Access Attributes: primary LAN, secondary LAN and serial out-of-band channel numbers
    (FF = not supported) -/
structure Cap4 where
  ver : DcmiVersion
  (primaryLAN secondaryLAN serial : UInt8)

def Cap4.encode (v : Cap4) : Bytes := v.ver.header ++ [v.primaryLAN, v.secondaryLAN, v.serial]

/-- a rolling average time period: [7:6] unit (0 seconds, 1 minutes, 2 hours, 3 days), [5:0] duration -/
structure RollingPeriod where
  unit : Nat
  value : Nat
  deriving Repr, DecidableEq

def RollingPeriod.wf (p : RollingPeriod) : Prop := p.unit < 4 ∧ p.value < 64
instance RollingPeriod.decWf (p : RollingPeriod) : Decidable p.wf := by unfold RollingPeriod.wf; infer_instance
def RollingPeriod.byte (p : RollingPeriod) : UInt8 := UInt8.ofNat (64 * p.unit + p.value)
/-- the period in nanoseconds -/
def RollingPeriod.ns (p : RollingPeriod) : Nat := 1000000000 * (p.value * unitSeconds p.unit)

/-- Parameter 5, Enhanced System Power Statistics Attributes (v1.1+): the number of supported rolling average time
    periods, then one byte per period -/
structure Cap5 where
  ver : DcmiVersion
  periods : List RollingPeriod

def Cap5.wf (v : Cap5) : Prop := v.periods.length < 256 ∧ ∀ p ∈ v.periods, p.wf

def Cap5.encode (v : Cap5) : Bytes := v.ver.header ++ UInt8.ofNat v.periods.length :: v.periods.map RollingPeriod.byte

/-- Get Power Reading response: current, minimum, maximum, average power in watts (2 bytes each), IPMI timestamp
    (4, seconds), statistics reporting time period (4, milliseconds), power reading state: [6] power measurement
    active, the rest reserved -/
structure PowerReading where
  (current minimum maximum average : Nat)
  timestamp : Nat
  periodMs : Nat
  active : Bool

def PowerReading.wf (v : PowerReading) : Prop :=
  v.current < 65536 ∧ v.minimum < 65536 ∧ v.maximum < 65536 ∧ v.average < 65536 ∧ v.timestamp < 4294967296 ∧ v.periodMs < 4294967296
instance PowerReading.decWf (v : PowerReading) : Decidable v.wf := by unfold PowerReading.wf; infer_instance

def PowerReading.encode (v : PowerReading) : Bytes :=
  le16 v.current ++ le16 v.minimum ++ le16 v.maximum ++ le16 v.average ++ le32 v.timestamp ++ le32 v.periodMs ++ [bit v.active 6]

/-- Get DCMI Sensor Info response: total number of instances of the entity, number of record IDs in this response
    (the specification sends at most 8), then the SDR record IDs, 2 bytes each, least significant byte first -/
structure SensorInfo where
  instances : UInt8
  recordIDs : List Nat

/-- `recordIDs.length ≤ 8` is what the specification promises; the count byte allows 255 and the theorems are
    proved for that -/
def SensorInfo.wf (v : SensorInfo) : Prop := v.recordIDs.length < 256 ∧ ∀ r ∈ v.recordIDs, r < 65536

def SensorInfo.encode (v : SensorInfo) : Bytes :=
  [v.instances, UInt8.ofNat v.recordIDs.length] ++ v.recordIDs.flatMap le16

end Bmc.Spec
