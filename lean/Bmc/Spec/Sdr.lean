import Bmc.Spec.Basic
import Bmc.Spec.Prim
import Bmc.Prim.Packed6
/-! SDR repository commands, the SDR header, Get Sensor Reading and the Full Sensor Record as the specification
    lays them out (IPMI v2.0 §33.9, §33.11, §33.12, §43, §43.1, §43.15, §35.14; DESIGN.md Appendix H). Offsets are
    within the layer. Written from the tables, not from the Go code. -/
namespace Bmc.Spec
open Bmc

/-- the `bits`-bit two's complement representation of an integer −2^(bits−1) ≤ i < 2^(bits−1) -/
def toTwos (bits : Nat) (i : Int) : Nat := (i % ((2 ^ bits : Nat) : Int)).toNat

-- Get SDR Repository Info (§33.9) ---------------------------------------------------------------------------
structure SDRRepoInfo where
  versionMajor : Nat            -- SDR version 51h = 1.5: the MAJOR digit is in the low nibble
  versionMinor : Nat
  records : Nat                 -- 2 bytes, least significant first
  freeSpace : Nat               -- 2 bytes
  lastAddition : Nat            -- 4 bytes, seconds
  lastErase : Nat               -- 4 bytes
  overflow : Bool               -- [13] bit 7
  modalUpdate : Bool            -- bit 6
  nonModalUpdate : Bool         -- bit 5   (bit 4 reserved)
  delete : Bool                 -- bit 3
  partialAdd : Bool             -- bit 2
  reserve : Bool                -- bit 1
  allocationInfo : Bool         -- bit 0

def SDRRepoInfo.wf (v : SDRRepoInfo) : Prop :=
  v.versionMajor < 10 ∧ v.versionMinor < 10 ∧ v.records < 65536 ∧ v.freeSpace < 65536 ∧
  v.lastAddition < 4294967296 ∧ v.lastErase < 4294967296
instance SDRRepoInfo.decWf (v : SDRRepoInfo) : Decidable v.wf := by unfold SDRRepoInfo.wf; infer_instance

def SDRRepoInfo.flags (v : SDRRepoInfo) : UInt8 :=
  bit v.overflow 7 ||| bit v.modalUpdate 6 ||| bit v.nonModalUpdate 5 ||| bit v.delete 3 ||| bit v.partialAdd 2
    ||| bit v.reserve 1 ||| bit v.allocationInfo 0

def SDRRepoInfo.encode (v : SDRRepoInfo) : Bytes :=
  [UInt8.ofNat (16 * v.versionMinor + v.versionMajor)] ++ le16 v.records ++ le16 v.freeSpace ++ le32 v.lastAddition
  ++ le32 v.lastErase ++ [v.flags]

-- Reserve SDR Repository (§33.11), Get SDR (§33.12) -------------------------------------------------------------
structure ReserveSDR where
  reservationID : Nat
def ReserveSDR.wf (v : ReserveSDR) : Prop := v.reservationID < 65536
instance ReserveSDR.decWf (v : ReserveSDR) : Decidable v.wf := by unfold ReserveSDR.wf; infer_instance
def ReserveSDR.encode (v : ReserveSDR) : Bytes := le16 v.reservationID

structure GetSDR where
  next : Nat                    -- record ID of the next record, FFFFh = none
  data : Bytes                  -- the record bytes requested
def GetSDR.wf (v : GetSDR) : Prop := v.next < 65536
instance GetSDR.decWf (v : GetSDR) : Decidable v.wf := by unfold GetSDR.wf; infer_instance
def GetSDR.encode (v : GetSDR) : Bytes := le16 v.next ++ v.data

-- SDR header (§43) -------------------------------------------------------------------------------------------------
structure SDRHeader where
  id : Nat                      -- record ID, 2 bytes
  versionMajor : Nat            -- 51h = 1.5, as above
  versionMinor : Nat
  recordType : UInt8
  body : Bytes                  -- record key and body; the header's last byte is their length
def SDRHeader.wf (v : SDRHeader) : Prop := v.id < 65536 ∧ v.versionMajor < 10 ∧ v.versionMinor < 10 ∧ v.body.length < 256
instance SDRHeader.decWf (v : SDRHeader) : Decidable v.wf := by unfold SDRHeader.wf; infer_instance
def SDRHeader.encode (v : SDRHeader) : Bytes :=
  le16 v.id ++ [UInt8.ofNat (16 * v.versionMinor + v.versionMajor), v.recordType, UInt8.ofNat v.body.length] ++ v.body

-- Get Sensor Reading (§35.14) -----------------------------------------------------------------------------------
structure SensorReading where
  reading : UInt8
  eventMessagesEnabled : Bool   -- [1] bit 7
  scanningEnabled : Bool        -- bit 6
  readingUnavailable : Bool     -- bit 5   (bits 4:0 reserved)
  states : UInt8                -- threshold comparison status / discrete states 7:0
  states2 : Option UInt8        -- discrete sensors only, optional: states 14:8
def SensorReading.encode (v : SensorReading) : Bytes :=
  [v.reading, bit v.eventMessagesEnabled 7 ||| bit v.scanningEnabled 6 ||| bit v.readingUnavailable 5, v.states]
  ++ (match v.states2 with | some s => [s] | none => [])

-- ID string (§43.15) ---------------------------------------------------------------------------------------------
/-- bits 7:6 of the type/length byte -/
inductive StrEnc | unicode | bcdPlus | packed6 | latin1
  deriving DecidableEq, Repr
def StrEnc.code : StrEnc → Nat
  | .unicode => 0 | .bcdPlus => 1 | .packed6 => 2 | .latin1 => 3

/-- an ID string: its encoding and its characters (as character codes) -/
structure IdString where
  enc : StrEnc
  chars : Bytes

/-- the count is a 5-bit field; BCD plus strings are over the alphabet `0123456789 -.:,_`, packed 6-bit strings over
    the characters 20h…5Fh; for the byte-per-character types a count of 1 is reserved ("at least two bytes of data
    must be present when this type is used") -/
def IdString.wf (s : IdString) : Prop :=
  s.chars.length ≤ 31 ∧
  match s.enc with
  | .bcdPlus => ∀ c ∈ s.chars, c ∈ bcdPlusTable
  | .packed6 => ∀ c ∈ s.chars, 0x20 ≤ c.toNat ∧ c.toNat ≤ 0x5f
  | _ => s.chars.length ≠ 1
instance IdString.decWf (s : IdString) : Decidable s.wf := by
  unfold IdString.wf; cases s.enc <;> infer_instance

/-- position of a character in the BCD plus alphabet -/
def bcdNibble (c : UInt8) : UInt8 := UInt8.ofNat (bcdPlusTable.idxOf c)
/-- two characters per byte, the first in the high nibble; an odd count leaves the last low nibble 0 -/
def bcdPack (cs : Bytes) : Bytes :=
  (List.range ((cs.length + 1) / 2)).map fun k => (bcdNibble (cs.getD (2 * k) 0x30) <<< 4) ||| bcdNibble (cs.getD (2 * k + 1) 0x30)

def IdString.bytes (s : IdString) : Bytes :=
  match s.enc with
  | .bcdPlus => bcdPack s.chars
  | .packed6 => Prim.pack6 (s.chars.map (· - 0x20))      -- 6-bit code = character − 20h, packed LSB first
  | _ => s.chars

def IdString.typeLength (s : IdString) : UInt8 := (UInt8.ofNat s.enc.code <<< 6) ||| UInt8.ofNat s.chars.length

-- Full Sensor Record (§43.1): record key and body, i.e. the bytes after the 5-byte header ---------------------
structure FullSensor where
  ownerID : UInt8               -- 0
  channel : UInt8               -- 1, bits 7:4
  ownerLUN : UInt8              -- 1, bits 1:0 (3:2 reserved)
  number : UInt8                -- 2
  entityID : UInt8              -- 3
  logical : Bool                -- 4, bit 7
  entityInstance : UInt8        -- 4, bits 6:0
  initialization : UInt8        -- 5
  ignoreIfAbsent : Bool         -- 6, bit 7
  capabilities : UInt8          -- 6, bits 6:0
  sensorType : UInt8            -- 7
  eventReadingType : UInt8      -- 8
  assertionMask : Nat           -- 9–10   (lower threshold reading mask)
  deassertionMask : Nat         -- 11–12  (upper threshold reading mask)
  readingMask : Nat             -- 13–14  (settable / readable threshold mask)
  analogFormat : UInt8          -- 15, bits 7:6
  rateUnit : UInt8              -- 15, bits 5:3
  modifierUse : UInt8           -- 15, bits 2:1
  percentage : Bool             -- 15, bit 0
  baseUnit : UInt8              -- 16
  modifierUnit : UInt8          -- 17
  linearisation : UInt8         -- 18, bits 6:0 (bit 7 reserved)
  m : Int                       -- 19 = ls 8 bits, 20 bits 7:6 = ms 2 bits; 10-bit two's complement
  tolerance : UInt8             -- 20, bits 5:0
  b : Int                       -- 21 = ls 8 bits, 22 bits 7:6 = ms 2 bits; 10-bit two's complement
  accuracy : Int                -- 22 bits 5:0 = ls 6 bits, 23 bits 7:4 = ms 4 bits; 10-bit two's complement
  accuracyExp : UInt8           -- 23, bits 3:2
  direction : UInt8             -- 23, bits 1:0
  rExp : Int                    -- 24, bits 7:4; 4-bit two's complement (K2)
  bExp : Int                    -- 24, bits 3:0; 4-bit two's complement (K1)
  normalMinSpecified : Bool     -- 25, bit 2
  normalMaxSpecified : Bool     -- 25, bit 1
  nominalSpecified : Bool       -- 25, bit 0 (7:3 reserved)
  nominalReading : UInt8        -- 26
  normalMax : UInt8             -- 27
  normalMin : UInt8             -- 28
  sensorMax : UInt8             -- 29
  sensorMin : UInt8             -- 30
  upperNonRecoverable : UInt8   -- 31
  upperCritical : UInt8         -- 32
  upperNonCritical : UInt8      -- 33
  lowerNonRecoverable : UInt8   -- 34
  lowerCritical : UInt8         -- 35
  lowerNonCritical : UInt8      -- 36
  positiveHysteresis : UInt8    -- 37
  negativeHysteresis : UInt8    -- 38   (39, 40 reserved)
  oem : UInt8                   -- 41
  idString : IdString           -- 42 type/length, 43… the string

def FullSensor.wf (v : FullSensor) : Prop :=
  v.channel.toNat < 16 ∧ v.ownerLUN.toNat < 4 ∧ v.entityInstance.toNat < 128 ∧ v.capabilities.toNat < 128 ∧
  v.assertionMask < 65536 ∧ v.deassertionMask < 65536 ∧ v.readingMask < 65536 ∧
  v.analogFormat.toNat < 4 ∧ v.rateUnit.toNat < 8 ∧ v.modifierUse.toNat < 4 ∧ v.linearisation.toNat < 128 ∧
  (-512 ≤ v.m ∧ v.m ≤ 511) ∧ v.tolerance.toNat < 64 ∧ (-512 ≤ v.b ∧ v.b ≤ 511) ∧ (-512 ≤ v.accuracy ∧ v.accuracy ≤ 511) ∧
  v.accuracyExp.toNat < 4 ∧ v.direction.toNat < 4 ∧ (-8 ≤ v.rExp ∧ v.rExp ≤ 7) ∧ (-8 ≤ v.bExp ∧ v.bExp ≤ 7) ∧
  v.idString.wf
instance FullSensor.decWf (v : FullSensor) : Decidable v.wf := by unfold FullSensor.wf; infer_instance

/-- the 43 bytes up to and including the type/length byte -/
def FullSensor.fixed (v : FullSensor) : Bytes :=
  [v.ownerID, (v.channel <<< 4) ||| v.ownerLUN, v.number,
   v.entityID, bit v.logical 7 ||| v.entityInstance, v.initialization, bit v.ignoreIfAbsent 7 ||| v.capabilities,
   v.sensorType, v.eventReadingType,
   UInt8.ofNat (v.assertionMask % 256), UInt8.ofNat (v.assertionMask / 256 % 256),
   UInt8.ofNat (v.deassertionMask % 256), UInt8.ofNat (v.deassertionMask / 256 % 256),
   UInt8.ofNat (v.readingMask % 256), UInt8.ofNat (v.readingMask / 256 % 256),
   (v.analogFormat <<< 6) ||| (v.rateUnit <<< 3) ||| (v.modifierUse <<< 1) ||| bit v.percentage 0,
   v.baseUnit, v.modifierUnit, v.linearisation,
   UInt8.ofNat (toTwos 10 v.m % 256), (UInt8.ofNat (toTwos 10 v.m / 256) <<< 6) ||| v.tolerance,
   UInt8.ofNat (toTwos 10 v.b % 256), (UInt8.ofNat (toTwos 10 v.b / 256) <<< 6) ||| UInt8.ofNat (toTwos 10 v.accuracy % 64),
   (UInt8.ofNat (toTwos 10 v.accuracy / 64) <<< 4) ||| (v.accuracyExp <<< 2) ||| v.direction,
   (UInt8.ofNat (toTwos 4 v.rExp) <<< 4) ||| UInt8.ofNat (toTwos 4 v.bExp),
   bit v.normalMinSpecified 2 ||| bit v.normalMaxSpecified 1 ||| bit v.nominalSpecified 0,
   v.nominalReading, v.normalMax, v.normalMin, v.sensorMax, v.sensorMin,
   v.upperNonRecoverable, v.upperCritical, v.upperNonCritical, v.lowerNonRecoverable, v.lowerCritical, v.lowerNonCritical,
   v.positiveHysteresis, v.negativeHysteresis, 0, 0, v.oem,
   v.idString.typeLength]

def FullSensor.encode (v : FullSensor) : Bytes := v.fixed ++ v.idString.bytes

end Bmc.Spec
