import Bmc.Crypto.Abstract
/-! The RAKP key-agreement formulas of IPMI v2.0 §13.28–13.32, over the values exchanged. -/
namespace Bmc.Spec
open Bmc Bmc.Crypto

/-- everything both sides know after RAKP 2 -/
structure Exchange where
  sidm : Bytes        -- console's session ID, 4 bytes in wire order
  sidc : Bytes        -- BMC's session ID
  rm : Bytes          -- console random
  rc : Bytes          -- BMC random
  guid : Bytes        -- BMC GUID
  role : UInt8        -- requested role byte as sent in RAKP 1 (bit 4 = name-only lookup)
  uname : Bytes

def Exchange.ulen (x : Exchange) : UInt8 := UInt8.ofNat (x.uname.length % 256)

/-- RAKP 2 key exchange authentication code: HMAC_Kuid(SIDm ‖ SIDc ‖ Rm ‖ Rc ‖ GUIDc ‖ Role ‖ ULen ‖ UName) -/
def rakp2Code (C : Ops) (h : HashAlg) (kuid : Bytes) (x : Exchange) : Bytes :=
  C.hmac h kuid (x.sidm ++ x.sidc ++ x.rm ++ x.rc ++ x.guid ++ [x.role, x.ulen] ++ x.uname)

/-- RAKP 3: HMAC_Kuid(Rc ‖ SIDm ‖ Role ‖ ULen ‖ UName) -/
def rakp3Code (C : Ops) (h : HashAlg) (kuid : Bytes) (x : Exchange) : Bytes :=
  C.hmac h kuid (x.rc ++ x.sidm ++ [x.role, x.ulen] ++ x.uname)

/-- SIK = HMAC_Kg(Rm ‖ Rc ‖ Role ‖ ULen ‖ UName); Kg = Kuid when the BMC has no key -/
def sik (C : Ops) (h : HashAlg) (kuid kg : Bytes) (x : Exchange) : Bytes :=
  C.hmac h (if kg.isEmpty then kuid else kg) (x.rm ++ x.rc ++ [x.role, x.ulen] ++ x.uname)

/-- K_n = HMAC_SIK(n repeated 20 times) -/
def k (C : Ops) (h : HashAlg) (sik : Bytes) (n : UInt8) : Bytes := C.hmac h sik (List.replicate 20 n)

/-- RAKP 4 integrity check value: HMAC_SIK(Rm ‖ SIDc ‖ GUIDc), truncated to 12 bytes for SHA1, 16 for SHA256, whole for MD5 -/
def icv (C : Ops) (h : HashAlg) (sik : Bytes) (x : Exchange) : Bytes :=
  let full := C.hmac h sik (x.rm ++ x.sidc ++ x.guid)
  match h with | .sha1 => full.take 12 | .sha256 => full.take 16 | .md5 => full

end Bmc.Spec
