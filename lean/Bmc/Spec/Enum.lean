import Bmc.Basic.Bytes
import Bmc.Spec.Sess
import Bmc.Spec.Dcmi
/-! # Specification side of C16 — paged enumerations

Written from IPMI v2.0 §22.15 (Get Channel Cipher Suites, Table 22-18 "Cipher Suite Record Format") and DCMI v1.5
§6.5.2 (Get DCMI Sensor Info), the library's doc comments and the vectors in `cipher_suites_test.go`; NOT by inverting
`parseCipherSuiteRecordData`.

Cipher Suite Record (Table 22-18):
  * start of record: `C0h` = standard cipher suite, `C1h` = OEM cipher suite;
  * cipher suite ID;
  * OEM records only: OEM IANA, three bytes, least significant byte first;
  * authentication algorithm number: tag bits [7:6] = 00b, [5:0] = algorithm number;
  * integrity algorithm number(s): tag bits [7:6] = 01b, [5:0] = algorithm number;
  * confidentiality algorithm number(s): tag bits [7:6] = 10b, [5:0] = algorithm number.
Records are laid end to end; the data is read 16 bytes at a time by list index 0…3Fh, "until the list data is
exhausted, at which point it will [return] 0 bytes or <16 bytes of list data". -/
namespace Bmc.Spec.Enum
open Bmc

/-- one Cipher Suite Record as the BMC holds it -/
structure Record where
  id : Nat
  /-- `some n` = OEM record (start byte C1h) carrying IANA enterprise number `n`; `none` = standard record (C0h) -/
  iana : Option Nat
  auth : Nat
  integ : List Nat
  conf : List Nat
  deriving Repr, DecidableEq

/-- what fits the fields: 8-bit ID, 24-bit IANA, 6-bit algorithm numbers. The grammar puts no bound on how many
    integrity / confidentiality algorithms a record lists (zero included; the library's test pins "implicitly none"). -/
def Record.wf (r : Record) : Prop :=
  r.id < 256 ∧ (∀ n, r.iana = some n → n < 16777216) ∧ r.auth < 64 ∧ (∀ a ∈ r.integ, a < 64) ∧ (∀ a ∈ r.conf, a < 64)

instance (r : Record) : Decidable r.wf := by unfold Record.wf; exact inferInstance

def authByte (a : Nat) : UInt8 := UInt8.ofNat a               -- tag 00b
def integByte (a : Nat) : UInt8 := UInt8.ofNat (0x40 + a)      -- tag 01b
def confByte (a : Nat) : UInt8 := UInt8.ofNat (0x80 + a)       -- tag 10b

def Record.header (r : Record) : Bytes :=
  match r.iana with
  | none => [0xC0, UInt8.ofNat r.id]
  | some n => [0xC1, UInt8.ofNat r.id, UInt8.ofNat (n % 256), UInt8.ofNat (n / 256 % 256), UInt8.ofNat (n / 65536 % 256)]

def Record.encode (r : Record) : Bytes :=
  r.header ++ authByte r.auth :: (r.integ.map integByte ++ r.conf.map confByte)

def encodeRecords (rs : List Record) : Bytes := rs.flatMap Record.encode

/-- what a console learns from one record: an identified (authentication, integrity, confidentiality) triple -/
structure CipherSuiteEntry where
  id : Nat
  iana : Nat            -- 0 for a standard suite
  auth : Nat
  integ : Nat
  conf : Nat
  deriving Repr, DecidableEq

/-- a record that lists no integrity (confidentiality) algorithm means "none" = algorithm number 0 -/
def orNone (l : List Nat) : List Nat := if l.isEmpty then [0] else l

/-- one entry per (integrity, confidentiality) combination, integrity-major: the order in which the record lists
    them (`RetrieveSupportedCipherSuites`' documentation: "a record containing multiple integrity or confidentiality
    algorithms is expanded into multiple records") -/
def expand (r : Record) : List CipherSuiteEntry :=
  (orNone r.integ).flatMap fun i => (orNone r.conf).map fun c =>
    { id := r.id, iana := r.iana.getD 0, auth := r.auth, integ := i, conf := c }

/-- the BMC's answer to list index `i`: bytes [16i, 16i+16) of the record data (fewer, possibly none, at the end) -/
def page (data : Bytes) (i : Nat) : Bytes := (data.drop (16 * i)).take 16

/-- … as a Get Channel Cipher Suites response body: channel number, then the page -/
def pageBody (ch : UInt8) (data : Bytes) (i : Nat) : Bytes := Spec.CipherSuites.encode ⟨ch, page data i⟩

/-! ## Get DCMI Sensor Info (DCMI §6.5.2)
Request: sensor type, entity ID, entity instance (0 = all), entity instance start. Response: total number of
instances of the entity, number of record IDs in this response (at most 8 by the specification), the record IDs.
Instances are numbered from 1; "instance start" selects the first instance to report. -/

structure DcmiBmc where
  /-- record IDs of the instances 1, 2, … of each entity; `none` = the BMC rejects the entity ID (completion code) -/
  ids : Nat → Option (List Nat)
  /-- most record IDs per response (8 for a conforming BMC) -/
  pageSize : Nat

/-- answer to (entity, instanceStart): total number of instances and the page beginning at that instance -/
def DcmiBmc.respond (b : DcmiBmc) (entity start : Nat) : Option (Nat × List Nat) :=
  (b.ids entity).map fun l => (l.length, (l.drop (start - 1)).take b.pageSize)

/-- … as a Get DCMI Sensor Info response body: total, number of record IDs in this response, the record IDs -/
def DcmiBmc.respondBody (b : DcmiBmc) (entity start : Nat) : Option Bytes :=
  (b.respond entity start).map fun (t, pg) => Spec.SensorInfo.encode ⟨UInt8.ofNat t, pg⟩

/-- the requests a console needs for an entity with `n` instances served `p` at a time: instance start 1, then
    1 + p, 1 + 2p, … while instances remain (one request even when there is none) -/
def expectedStarts (p n : Nat) : Nat → Nat → List Nat
  | 0, _ => []
  | f + 1, k => (k + 1) :: (if k + p < n then expectedStarts p n f (k + p) else [])

/-- temperature-sensor entities: IPMI entity IDs (DCMI v1.5, Table 6-14) and the DCMI-specific ones (v1.0/v1.1) -/
def stdEntities : List Nat := [0x37, 0x03, 0x07]     -- air inlet, processor, system board
def dcmiEntities : List Nat := [0x40, 0x41, 0x42]    -- DCMI air inlet, processor, baseboard

end Bmc.Spec.Enum
