import Bmc.Lemmas.ResponseAccepted
/-! The conforming BMC inside an established session (IPMI v2.0 §13.6, 13.8, 13.28.4, 13.29), as a pure function of the
    session keys and one received datagram: strip the RMCP header, check the RMCP+ session wrapper (authenticated,
    encrypted, payload type IPMI, addressed to the BMC's session ID, AuthCode = integrity algorithm under K1 over
    everything before it), decrypt the payload under K2, check the confidentiality pad, decode the IPMI message
    (both checksums) addressed to the BMC (20h) from the remote console (81h); then answer with the response datagram
    (`Proto.responseDatagram`: response message for the same NetFn + 1 / command / sequence / group or OEM prefix,
    AES-CBC under K2, wrapper for the CONSOLE's session ID, AuthCode under K1). What the command means to the BMC is a
    parameter (`handler`). -/
namespace Bmc.Spec
open Bmc Bmc.Wire Bmc.Crypto Bmc.Proto

/-- what the BMC reads out of an acceptable in-session request -/
structure BmcReq where
  seq : Nat
  fn : UInt8
  cmd : UInt8
  body : UInt8
  ent : Nat
  lun : UInt8
  data : Bytes
  deriving Repr, DecidableEq

/-- the BMC's checks on a received datagram (none = silently dropped) -/
def bmcOpen (C : Ops) (k : Keys) (d : Bytes) : Option BmcReq :=
  if d.take 4 != [6, 0, 0xFF, 7] then none else
  match V2Session.decode (integMac C k.integ k.k1) (d.drop 4) with
  | .error _ => none
  | .ok v =>
    if !(v.authenticated && v.encrypted && v.payloadType == 0 && v.id == k.remoteID) then none else
    match AESLayer.decode C k.k2 v.payload with
    | .error _ => none
    | .ok a =>
      match Message.decode 8 a.payload with
      | .error _ => none
      | .ok m =>
        if !(m.remoteAddress == 0x20 && m.localAddress == 0x81 && isRequest m.function) then none else
        some ⟨v.sequence, m.function, m.command, m.body, m.enterprise, m.remoteLUN, m.payload⟩

/-- the command as the BMC understood it, in the console model's terms -/
def BmcReq.toCmd (r : BmcReq) : Cmd := { fn := r.fn, cmd := r.cmd, body := r.body, ent := r.ent, lun := r.lun, req := r.data }

/-- the BMC's reply: `handler` gives completion code and response data; `seq`, `iv` are the BMC's own outbound
    sequence number and IV draw -/
def bmcAnswer (C : Ops) (k : Keys) (handler : BmcReq → UInt8 × Bytes) (seq : Nat) (iv : Bytes) (d : Bytes) : Option Bytes :=
  (bmcOpen C k d).map fun r => responseDatagram C k r.toCmd (handler r).1 (handler r).2 seq iv

end Bmc.Spec
