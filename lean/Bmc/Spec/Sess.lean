import Bmc.Spec.Basic
/-! Session-setup responses and Get Chassis Status as the specification lays them out (IPMI v2.0 rev 1.1 tables
    22-15, 22-18, 22-21, 22-16, 22-25, 28-3; DESIGN.md Appendix H). Offsets are within the response body (after the
    completion code); reserved bits are written as 0. -/
namespace Bmc.Spec
open Bmc

-- Get Channel Authentication Capabilities (22.13) -----------------------------------------------------------------
structure AuthCaps where
  channel : UInt8                      -- [0] 3:0 (7:4 reserved)
  extended : Bool                      -- [1] bit 7: IPMI v2.0+ extended capabilities available
  (oemAuth password md5 md2 none : Bool)   -- [1] bits 5, 4, 2, 1, 0 (bits 6 and 3 reserved)
  kgNonNull : Bool                     -- [2] bit 5: KG is set to a non-null value ("two-key login")
  perMessageAuthDisabled : Bool        -- [2] bit 4: 1b = per-message authentication is DISABLED
  userLevelAuthDisabled : Bool         -- [2] bit 3: 1b = user-level authentication is DISABLED
  (nonNullUsernames nullUsernames anonymousLogin : Bool)   -- [2] bits 2, 1, 0
  (v20 v15 : Bool)                     -- [3] bits 1, 0 (extended capabilities; 7:2 reserved)
  oemID : Nat                          -- [4:7] IANA enterprise number, least significant byte first
  oemData : UInt8                      -- [7]

def AuthCaps.wf (v : AuthCaps) : Prop := v.channel.toNat < 16 ∧ v.oemID < 16777216
instance AuthCaps.decWf (v : AuthCaps) : Decidable v.wf := by unfold AuthCaps.wf; infer_instance

def AuthCaps.encode (v : AuthCaps) : Bytes :=
  [v.channel,
   bit v.extended 7 ||| bit v.oemAuth 5 ||| bit v.password 4 ||| bit v.md5 2 ||| bit v.md2 1 ||| bit v.none 0,
   bit v.kgNonNull 5 ||| bit v.perMessageAuthDisabled 4 ||| bit v.userLevelAuthDisabled 3 ||| bit v.nonNullUsernames 2
     ||| bit v.nullUsernames 1 ||| bit v.anonymousLogin 0,
   bit v.v20 1 ||| bit v.v15 0]
  ++ le24 v.oemID ++ [v.oemData]

-- Get Channel Cipher Suites (22.15) ---------------------------------------------------------------------------------
structure CipherSuites where
  channel : UInt8          -- [0] 3:0
  chunk : Bytes            -- [1:] 0 … 16 bytes of cipher suite record data (fewer than 16 = last chunk)

def CipherSuites.wf (v : CipherSuites) : Prop := v.channel.toNat < 16 ∧ v.chunk.length ≤ 16
instance CipherSuites.decWf (v : CipherSuites) : Decidable v.wf := by unfold CipherSuites.wf; infer_instance
def CipherSuites.encode (v : CipherSuites) : Bytes := v.channel :: v.chunk

-- Set Session Privilege Level (22.18) -------------------------------------------------------------------------------
structure SetPriv where
  level : UInt8            -- [0] 3:0 new privilege level (7:4 reserved)
def SetPriv.wf (v : SetPriv) : Prop := v.level.toNat < 16
instance SetPriv.decWf (v : SetPriv) : Decidable v.wf := by unfold SetPriv.wf; infer_instance
def SetPriv.encode (v : SetPriv) : Bytes := [v.level]

-- Get System GUID (22.14) -----------------------------------------------------------------------------------------
structure SystemGUID where
  guid : Bytes             -- 16 bytes, passed through in wire order
def SystemGUID.wf (v : SystemGUID) : Prop := v.guid.length = 16
instance SystemGUID.decWf (v : SystemGUID) : Decidable v.wf := by unfold SystemGUID.wf; infer_instance
def SystemGUID.encode (v : SystemGUID) : Bytes := v.guid

-- Get Session Info (22.20) ------------------------------------------------------------------------------------------
/-- the channel-type specific tail of an active session's data -/
inductive SessionChannelInfo where
  | absent                                                             -- nothing beyond byte [5]
  /-- 802.3 LAN: [6:10] remote console IP (MS byte first), [10:16] MAC (MS byte first), [16:18] port (LS byte first) -/
  | lan (ip : UInt8 × UInt8 × UInt8 × UInt8) (mac : UInt8 × UInt8 × UInt8 × UInt8 × UInt8 × UInt8) (port : Nat)
  /-- asynchronous serial / modem: [6] activity type, [7] destination selector, [8:12] PPP IP [, [12:14] port] -/
  | serial (activity dest : UInt8) (ip : UInt8 × UInt8 × UInt8 × UInt8) (port : Option Nat)

structure ActiveSession where
  userID : UInt8           -- [3] 5:0
  privilege : UInt8        -- [4] 3:0 operating privilege level
  v20 : Bool               -- [5] 7:4 session protocol auxiliary data: 0h = IPMI v1.5, 1h = IPMI v2.0 / RMCP+
  channel : UInt8          -- [5] 3:0 channel the session was activated over
  chan : SessionChannelInfo

structure SessionInfo where
  handle : UInt8           -- [0] 00h when no active session matches the request
  possible : UInt8         -- [1] 5:0 number of possible active sessions
  active : UInt8           -- [2] 5:0 number of currently active sessions
  session : Option ActiveSession     -- bytes [3:] are returned only for an active session

def SessionChannelInfo.wf : SessionChannelInfo → Prop
  | .absent => True
  | .lan _ _ port => port < 65536
  | .serial _ _ _ (some port) => port < 65536
  | .serial _ _ _ none => True
instance SessionChannelInfo.decWf (c : SessionChannelInfo) : Decidable c.wf := by
  cases c with
  | absent => exact isTrue trivial
  | lan _ _ p => exact inferInstanceAs (Decidable (p < 65536))
  | serial _ _ _ p => cases p with
    | none => exact isTrue trivial
    | some p => exact inferInstanceAs (Decidable (p < 65536))

def ActiveSession.wf (s : ActiveSession) : Prop :=
  s.userID.toNat < 64 ∧ s.privilege.toNat < 16 ∧ s.channel.toNat < 16 ∧ s.chan.wf
instance ActiveSession.decWf (s : ActiveSession) : Decidable s.wf := by unfold ActiveSession.wf; infer_instance

/-- "no session found" is reported with handle 00h; an active session normally has a non-zero handle, but handle
    00h followed by the session's fields (sent by Super Micro BMCs, pinned by the repository's tests) is allowed too -/
def SessionInfo.wf (v : SessionInfo) : Prop :=
  v.possible.toNat < 64 ∧ v.active.toNat < 64 ∧
  (match v.session with | none => v.handle = 0 | some s => s.wf)
instance SessionInfo.decWf (v : SessionInfo) : Decidable v.wf := by
  unfold SessionInfo.wf; cases v.session <;> infer_instance

def SessionChannelInfo.encode : SessionChannelInfo → Bytes
  | .absent => []
  | .lan (a, b, c, d) (m0, m1, m2, m3, m4, m5) port => [a, b, c, d, m0, m1, m2, m3, m4, m5] ++ le16 port
  | .serial act dest (a, b, c, d) port => [act, dest, a, b, c, d] ++ (match port with | some p => le16 p | none => [])

def ActiveSession.encode (s : ActiveSession) : Bytes :=
  [s.userID, s.privilege, ((if s.v20 then (1 : UInt8) else 0) <<< 4) ||| s.channel] ++ s.chan.encode

def SessionInfo.encode (v : SessionInfo) : Bytes :=
  [v.handle, v.possible, v.active] ++ (match v.session with | some s => s.encode | none => [])

-- Get Chassis Status (28.2) -----------------------------------------------------------------------------------------
structure FrontPanel where
  (standbyDisableAllowed diagDisableAllowed resetDisableAllowed powerOffDisableAllowed : Bool)   -- [3] bits 7 … 4
  (standbyDisabled diagDisabled resetDisabled powerOffDisabled : Bool)                           -- [3] bits 3 … 0

structure ChassisStatus where
  restorePolicy : UInt8                -- [0] 6:5 (00 stays off, 01 previous state, 10 powers up, 11 unknown)
  (powerControlFault powerFault interlock powerOverload poweredOn : Bool)                         -- [0] bits 4 … 0
  (poweredOnByIPMI lastDownFault lastDownInterlock lastDownOverload lastDownACFailed : Bool)      -- [1] bits 4 … 0
  identifySupported : Bool             -- [2] bit 6: Chassis Identify command and state info supported
  identifyState : UInt8                -- [2] 5:4 (00 off, 01 temporary, 10 indefinite); meaningful iff supported
  (coolingFault driveFault lockout intrusion : Bool)                                              -- [2] bits 3 … 0
  frontPanel : Option FrontPanel       -- [3] optional front panel button capabilities and disable status

def ChassisStatus.wf (v : ChassisStatus) : Prop := v.restorePolicy.toNat < 4 ∧ v.identifyState.toNat < 4
instance ChassisStatus.decWf (v : ChassisStatus) : Decidable v.wf := by unfold ChassisStatus.wf; infer_instance

def FrontPanel.encode (f : FrontPanel) : UInt8 :=
  bit f.standbyDisableAllowed 7 ||| bit f.diagDisableAllowed 6 ||| bit f.resetDisableAllowed 5 |||
  bit f.powerOffDisableAllowed 4 ||| bit f.standbyDisabled 3 ||| bit f.diagDisabled 2 ||| bit f.resetDisabled 1 |||
  bit f.powerOffDisabled 0

def ChassisStatus.encode (v : ChassisStatus) : Bytes :=
  [(v.restorePolicy <<< 5) ||| bit v.powerControlFault 4 ||| bit v.powerFault 3 ||| bit v.interlock 2
     ||| bit v.powerOverload 1 ||| bit v.poweredOn 0,
   bit v.poweredOnByIPMI 4 ||| bit v.lastDownFault 3 ||| bit v.lastDownInterlock 2 ||| bit v.lastDownOverload 1
     ||| bit v.lastDownACFailed 0,
   bit v.identifySupported 6 ||| (v.identifyState <<< 4) ||| bit v.coolingFault 3 ||| bit v.driveFault 2
     ||| bit v.lockout 1 ||| bit v.intrusion 0]
  ++ (match v.frontPanel with | some f => [f.encode] | none => [])

end Bmc.Spec
