import Bmc.Spec.Sdr
/-! # The SDR Repository Device as the specification describes it (IPMI v2.0 §33, §33.9 Get SDR Repository Info,
    §33.11 Reserve SDR Repository, §33.12 Get SDR, §43 record header; DESIGN.md Appendix H)

    Written from the command tables and the prose of §33 — not from `sdr_repository.go`:

    * the repository is an ORDERED list of records; a record is its 16-bit Record ID, a record type byte and the
      record key + body bytes; on the wire a record is the 5-byte header of §43 (ID, SDR version 51h, type, number of
      remaining bytes) followed by those bytes;
    * Record IDs are unique handles; FFFFh never names a stored record (it is the "last record" / "no next record"
      value) and 0000h in a REQUEST means "the first record", whatever its ID is — so a stored record may carry the
      ID 0000h only in the first position;
    * Get SDR returns the ID of the record that follows in list order (FFFFh after the last one) and the requested
      window `[offset, offset+n)` of the record, `n = FFh` meaning "to the end of the record";
    * a Reservation ID is required when the offset is not zero; any modification of the repository, and a reservation
      taken by somebody else, cancels the outstanding reservation, after which partial reads answer C5h;
    * additions update the "most recent addition" timestamp, deletions / clears the "most recent erase" timestamp. -/
namespace Bmc.Spec
open Bmc

/-- one stored Sensor Data Record -/
structure SdrRec where
  id : Nat
  typ : UInt8
  body : Bytes                  -- record key and body, i.e. everything after the 5-byte header
  deriving DecidableEq, Repr

/-- the record as the repository stores and serves it: header (§43) then key and body -/
def SdrRec.header (r : SdrRec) : SDRHeader := ⟨r.id, 1, 5, r.typ, r.body⟩
def SdrRec.bytes (r : SdrRec) : Bytes := r.header.encode

/-- the part of the device that modifications act on -/
structure Store where
  recs : List SdrRec
  addTs : Nat := 0              -- most recent addition, seconds
  eraseTs : Nat := 0            -- most recent erase (delete or clear), seconds
  deriving Repr

/-- Record IDs distinct, none FFFFh, 0000h at most in the first position; every body length fits the header's
    one-byte count -/
def wfStore (recs : List SdrRec) : Prop :=
  (recs.map (·.id)).Nodup ∧ (∀ r ∈ recs, r.id < 0xFFFF ∧ r.body.length < 256) ∧ (∀ r ∈ recs.tail, r.id ≠ 0)
instance decWfStore (recs : List SdrRec) : Decidable (wfStore recs) := by unfold wfStore; infer_instance

/-- … and the two timestamps fit their four bytes -/
def Store.wf (s : Store) : Prop := wfStore s.recs ∧ s.addTs < 4294967296 ∧ s.eraseTs < 4294967296
instance Store.decWf (s : Store) : Decidable s.wf := by unfold Store.wf; infer_instance

/-- modification events. Every one of them cancels the outstanding reservation. A timestamp has a resolution of one
    second; the device modelled here is one on which every modification is visible in it (`+ 1`) — the hypothesis
    "bumps a timestamp on every modification" of C14's third clause. -/
inductive Mod where
  | add (r : SdrRec)            -- Add SDR / Partial Add SDR completed: appended, addition timestamp updated
  | delete (id : Nat)           -- Delete SDR: removed, erase timestamp updated
  | lose                        -- the reservation is lost without a change (another requester reserved, device reset)
  deriving Repr

def Store.apply (s : Store) : Mod → Store
  | .add r => { s with recs := s.recs ++ [r], addTs := s.addTs + 1 }
  | .delete id => { s with recs := s.recs.filter (fun r => r.id ≠ id), eraseTs := s.eraseTs + 1 }
  | .lose => s

def Store.applyAll (s : Store) (ms : List Mod) : Store := ms.foldl Store.apply s

-- the commands ------------------------------------------------------------------------------------------------------
inductive RepoReq where
  | info                                    -- NetFn Storage (0Ah), command 20h, no data
  | reserve                                 -- command 22h, no data
  | getSDR (resv id off len : Nat)          -- command 23h: reservation ID, record ID, offset into record, bytes to read
  deriving Repr, DecidableEq

def RepoReq.isGetSDR : RepoReq → Bool
  | .getSDR .. => true
  | _ => false

/-- completion code and response data -/
structure RepoRsp where
  cc : UInt8
  data : Bytes
  deriving Repr, DecidableEq

/-- Record ID of the first record of a list, FFFFh when there is none -/
def nextID : List SdrRec → Nat
  | [] => 0xFFFF
  | r :: _ => r.id

/-- the record with a given ID and the ID of the one after it -/
def findRec : List SdrRec → Nat → Option (SdrRec × Nat)
  | [], _ => none
  | r :: rs, id => if r.id = id then some (r, nextID rs) else findRec rs id

/-- record selection of Get SDR: 0000h = first record, FFFFh = last record, anything else by ID -/
def locate (recs : List SdrRec) (id : Nat) : Option (SdrRec × Nat) :=
  if id = 0 then (match recs with | [] => none | r :: rs => some (r, nextID rs))
  else if id = 0xFFFF then recs.getLast?.map (fun r => (r, 0xFFFF))
  else findRec recs id

/-- Get SDR Repository Info of a store: SDR version 51h, record count, free space, the two timestamps, operation
    support = non-modal update, delete, reserve -/
def Store.info (s : Store) : SDRRepoInfo :=
  { versionMajor := 1, versionMinor := 5, records := s.recs.length % 65536, freeSpace := 0x1000
    lastAddition := s.addTs % 4294967296, lastErase := s.eraseTs % 4294967296
    overflow := false, modalUpdate := false, nonModalUpdate := true, delete := true, partialAdd := false, reserve := true
    allocationInfo := false }

/-- the device: a store plus the reservation it has handed out -/
structure Repo where
  store : Store
  resv : Nat := 0               -- the last Reservation ID handed out
  resvOk : Bool := false        -- … and whether it still stands
  deriving Repr

/-- Reservation IDs count up, skipping 0000h ("no reservation") -/
def Repo.nextResv (R : Repo) : Nat := if (R.resv + 1) % 65536 = 0 then 1 else (R.resv + 1) % 65536

def Repo.getSDR (R : Repo) (resv id off len : Nat) : RepoRsp :=
  if off ≠ 0 ∧ ¬ (R.resvOk = true ∧ resv = R.resv) then ⟨0xC5, []⟩           -- reservation cancelled or invalid
  else match locate R.store.recs id with
    | none => ⟨0xCB, []⟩                                                      -- requested record not present
    | some (r, next) =>
      if r.bytes.length < off then ⟨0xC9, []⟩                                 -- parameter out of range
      else ⟨0, le16 next ++ (r.bytes.drop off).take (if len = 0xFF then r.bytes.length else len)⟩

def Repo.step (R : Repo) : RepoReq → Repo × RepoRsp
  | .info => (R, ⟨0, R.store.info.encode⟩)
  | .reserve => ({ R with resv := R.nextResv, resvOk := true }, ⟨0, le16 R.nextResv⟩)
  | .getSDR resv id off len => (R, R.getSDR resv id off len)

/-- modifications reach the device between two requests -/
def Repo.applyAll (R : Repo) (ms : List Mod) : Repo :=
  { R with store := R.store.applyAll ms, resvOk := R.resvOk && ms.isEmpty }

/-- A BMC together with what will happen to its repository: `sched` lists, in order, the batches of modifications
    still to come. A batch `(false, ms)` arrives just before the next request of any kind; a batch `(true, ms)` waits
    for the next Get SDR request and arrives just before it (so "before the k-th Get SDR request" can be said
    without knowing how many other requests come first). After the last batch nothing changes any more. -/
structure World where
  repo : Repo
  sched : List (Bool × List Mod) := []
  deriving Repr

def World.answer (w : World) (q : RepoReq) : World × RepoRsp :=
  match w.sched with
  | [] => (⟨(w.repo.step q).1, []⟩, (w.repo.step q).2)
  | (sdrOnly, ms) :: rest =>
    if sdrOnly && !q.isGetSDR then (⟨(w.repo.step q).1, w.sched⟩, (w.repo.step q).2)
    else (⟨((w.repo.applyAll ms).step q).1, rest⟩, ((w.repo.applyAll ms).step q).2)

/-- the stores the schedule leads through (all of them, whatever requests are made) are well formed -/
def World.Inv (w : World) : Prop :=
  ∀ k, (w.repo.store.applyAll ((w.sched.take k).flatMap (·.2))).wf

/-- a quiet BMC: nothing is scheduled -/
def World.quiet (R : Repo) : World := ⟨R, []⟩

end Bmc.Spec
