import Bmc.Basic.Bytes
/-! # Specification of the primitive value conversions (C20)

Mathematical definitions over `Nat`/`Int`, written from the IPMI/DCMI text, independent of the Go
code. The driver evaluates these; `Proofs/C20` proves the code's (translated or modelled) functions
equal to them on the whole domain. -/
namespace Bmc.Spec
open Bmc

/-- packed BCD byte: tens in the high nibble, units in the low nibble (as an 8-bit value) -/
def bcd (b : Nat) : Nat := (10 * (b / 16) + b % 16) % 256

/-- 8-bit one's complement: 0x00…0x7f are 0…127, 0x80…0xff are −127…−0 -/
def ones8 (b : Nat) : Int := if b < 128 then (b : Int) else -((255 - b : Nat) : Int)

/-- two's complement of an n-bit field holding `v < 2^n` -/
def twos (bits v : Nat) : Int := if v < 2 ^ (bits - 1) then (v : Int) else (v : Int) - 2 ^ bits

/-- completion codes the caller should retry: node busy, timeout -/
def isTemporary (c : Nat) : Bool := c == 0xC0 || c == 0xC3

/-- entity instances 0x00…0x5f are system-relative, 0x60…0x7f device-relative -/
def systemRelative (i : Nat) : Bool := decide (i ≤ 0x5f)
def deviceRelative (i : Nat) : Bool := decide (0x60 ≤ i ∧ i ≤ 0x7f)

/-- seconds per time unit of a DCMI rolling-average byte (bits 7:6) -/
def unitSeconds (u : Nat) : Nat := [1, 60, 3600, 86400].getD u 86400

/-- DCMI rolling average time period byte → nanoseconds -/
def rollingDurationNs (b : Nat) : Nat := 1000000000 * ((b % 64) * unitSeconds (b / 64))

/-- whole seconds → the DCMI byte with the coarsest unit that fits, clamped to 63 days -/
def rollingByte (secs : Nat) : Nat :=
  if secs < 60 then secs
  else if secs < 3600 then secs / 60 + 0x40
  else if secs < 86400 then secs / 3600 + 0x80
  else min (secs / 86400) 63 + 0xc0

/-- linearisation classes -/
def isLinear (l : Nat) : Bool := l == 0
def isLinearised (l : Nat) : Bool := decide (1 ≤ l ∧ l ≤ 11)
def isNonLinear (l : Nat) : Bool := decide (12 ≤ l)

/-- a network function is a request iff it is even -/
def isRequestFn (n : Nat) : Bool := n % 2 == 0

/-- IPMI checksum: the byte that makes the 8-bit sum zero -/
def checksum (bs : Bytes) : UInt8 := 0 - bs.foldl (· + ·) 0

/-- BCD plus alphabet -/
def bcdPlusTable : List UInt8 := "0123456789 -.:,_".toList.map (fun c => UInt8.ofNat c.toNat)

/-- BCD plus: character i is the high nibble of byte i/2 for even i, the low nibble for odd i -/
def bcdPlus (bs : Bytes) (c : Nat) : Option (Bytes × Nat) :=
  if bs.length < (c + 1) / 2 then none else
  some ((List.range c).map (fun i =>
      let b := bs.getD (i / 2) 0
      bcdPlusTable.getD (if i % 2 = 0 then b.toNat / 16 else b.toNat % 16) 0), (c + 1) / 2)

/-- 8-bit ASCII + Latin-1: the bytes themselves; a length of zero means "no string" -/
def latin1 (bs : Bytes) (c : Nat) : Option (Bytes × Nat) :=
  if c = 0 then some ([], 0) else
  if bs.length < 2 then none else
  if bs.length < c then none else some (bs.take c, c)

end Bmc.Spec
