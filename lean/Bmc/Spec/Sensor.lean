import Bmc.Spec.Prim
/-! # Specification of sensor reading conversion (C15)

Written from IPMI v2.0 §36.3 "Sensor Reading Conversion Formula", Table 43-1 "Full Sensor Record" (byte 21
"Sensor Units 1" bits 7:6 = analog data format, byte 24 "Linearization", bytes 25–30 M, B, exponents) and
§35.14 "Get Sensor Reading" (response byte 3), independently of the Go code.

    y = L[(M·x + (B · 10^K1)) · 10^K2]

x = the raw reading byte taken as unsigned, 1's complement or 2's complement as the record says;
M, B = 10-bit two's complement; K1 (B exponent), K2 (R exponent) = 4-bit two's complement;
L = the linearisation function named by byte 24.

The linear part is an exact rational number (`linearValue : Rat`, core `Rat`). The eleven functions L are
transcendental / irrational valued: they are NAMED here (`LinFn`), not evaluated — Lean core has no real numbers.
What a value of `Result.value (some f) v` denotes is "f applied to the rational v"; the numeric agreement of the
Go `float64` with that number is checked by the correspondence harness only (see props.py, C15 = partial). -/
namespace Bmc.Spec.Sensor
open Bmc

/-- Table 43-1, byte 24, bits 6:0: 01h…0Bh, in the table's order -/
inductive LinFn
  | ln       -- 01h  ln(x)
  | log10    -- 02h  log10(x)
  | log2     -- 03h  log2(x)
  | exp      -- 04h  e^x
  | exp10    -- 05h  10^x
  | exp2     -- 06h  2^x
  | inv      -- 07h  1/x
  | sqr      -- 08h  x²
  | cube     -- 09h  x³
  | sqrt     -- 0Ah  √x
  | cubeRt   -- 0Bh  ∛x   ("cube-1(x)")
  deriving DecidableEq, Repr

def LinFn.code : LinFn → Nat
  | .ln => 1 | .log10 => 2 | .log2 => 3 | .exp => 4 | .exp10 => 5 | .exp2 => 6
  | .inv => 7 | .sqr => 8 | .cube => 9 | .sqrt => 10 | .cubeRt => 11

def linFnOfCode : Nat → Option LinFn
  | 1 => some .ln | 2 => some .log10 | 3 => some .log2 | 4 => some .exp | 5 => some .exp10 | 6 => some .exp2
  | 7 => some .inv | 8 => some .sqr | 9 => some .cube | 10 => some .sqrt | 11 => some .cubeRt
  | _ => none

/-- where the real function is defined: logarithms on the positive numbers, 1/x away from zero, the square root on
    the non-negative numbers; the exponentials, powers and the cube root (the inverse of the bijection x ↦ x³)
    everywhere -/
def LinFn.definedAt : LinFn → Rat → Bool
  | .ln, v => decide (0 < v)
  | .log10, v => decide (0 < v)
  | .log2, v => decide (0 < v)
  | .inv, v => decide (v ≠ 0)
  | .sqrt, v => decide (0 ≤ v)
  | _, _ => true

/-- how a record's linearisation code classifies the sensor: 00h linear, 01h…0Bh linearised with the named
    function, everything else (70h non-linear, 71h…7Fh OEM non-linear, and the reserved codes between) is not
    convertible with the record's constant factors -/
inductive Kind
  | linear
  | linearised (f : LinFn)
  | nonLinear
  deriving DecidableEq, Repr

def kindOf (lin : Nat) : Kind :=
  if lin = 0 then .linear else
  match linFnOfCode lin with
  | some f => .linearised f
  | none => .nonLinear

/-- byte 21 bits 7:6: 00b unsigned, 01b 1's complement, 10b 2's complement, 11b "does not return analog (numeric)
    reading" -/
def rawValue (fmt x : Nat) : Option Int :=
  match fmt with
  | 0 => some (x : Int)
  | 1 => some (ones8 x)
  | 2 => some (twos 8 x)
  | _ => none

/-- the linear part of the formula, exactly -/
def linearValue (M B K1 K2 x : Int) : Rat :=
  ((M : Rat) * (x : Rat) + (B : Rat) * (10 : Rat) ^ K1) * (10 : Rat) ^ K2

/-- Get Sensor Reading response byte 3: bit 5 = 1b reading/state unavailable, bit 6 = 0b sensor scanning disabled
    (bit 7 = event messages, bits 4:0 reserved) -/
inductive Status | unavailable | scanningDisabled | valid
  deriving DecidableEq, Repr

def unavailableBit (flags : Nat) : Bool := flags / 32 % 2 == 1
def scanningBit (flags : Nat) : Bool := flags / 64 % 2 == 1

def status (flags : Nat) : Status :=
  if unavailableBit flags then .unavailable
  else if !scanningBit flags then .scanningDisabled
  else .valid

structure Factors where
  M : Int
  B : Int
  K1 : Int
  K2 : Int
  deriving DecidableEq, Repr

/-- what a console following the specification reports for (record, reading): it refuses records it cannot
    convert with constant factors; otherwise the two status errors, or the value `L(v)` given by the name of L
    (`none` = identity) and the exact rational argument v -/
inductive Result
  | refused
  | unavailable
  | scanningDisabled
  | value (f : Option LinFn) (v : Rat)
  deriving DecidableEq

def reading (fmt lin : Nat) (f : Factors) (raw flags : Nat) : Result :=
  match kindOf lin, rawValue fmt raw with
  | .nonLinear, _ => .refused
  | _, none => .refused
  | k, some x =>
    match status flags with
    | .unavailable => .unavailable
    | .scanningDisabled => .scanningDisabled
    | .valid => .value (match k with | .linearised g => some g | _ => none) (linearValue f.M f.B f.K1 f.K2 x)

end Bmc.Spec.Sensor
