import Bmc.Spec.Basic
/-! Get Device ID response (IPMI v2.0 §20.1), as the specification lays it out. -/
namespace Bmc.Spec
open Bmc

structure DeviceID where
  id : UInt8
  providesSDRs : Bool
  revision : UInt8              -- 4 bits
  available : Bool              -- wire bit 7 of byte 2 is "device NOT available / update in progress"
  majorFirmware : UInt8         -- 7 bits
  minorFirmware : Nat           -- 0…99, BCD on the wire
  ipmiMajor : UInt8             -- 4 bits (low nibble)
  ipmiMinor : UInt8             -- 4 bits (high nibble)
  (chassis bridge eventGenerator eventReceiver fru sel sdrRepository sensor : Bool)   -- byte 5, bits 7…0
  manufacturer : Nat            -- 3 bytes, least significant first
  product : Nat                 -- 2 bytes
  aux : Option (UInt8 × UInt8 × UInt8 × UInt8)   -- optional auxiliary firmware revision

def DeviceID.wf (v : DeviceID) : Prop :=
  v.revision.toNat < 16 ∧ v.majorFirmware.toNat < 128 ∧ v.minorFirmware < 100 ∧ v.ipmiMajor.toNat < 16 ∧ v.ipmiMinor.toNat < 16 ∧
  v.manufacturer < 16777216 ∧ v.product < 65536
instance (v : DeviceID) : Decidable v.wf := by unfold DeviceID.wf; infer_instance

def DeviceID.encode (v : DeviceID) : Bytes :=
  [v.id, bit v.providesSDRs 7 ||| v.revision, bit (!v.available) 7 ||| v.majorFirmware, bcdByte v.minorFirmware,
   (v.ipmiMinor <<< 4) ||| v.ipmiMajor,
   bit v.chassis 7 ||| bit v.bridge 6 ||| bit v.eventGenerator 5 ||| bit v.eventReceiver 4 ||| bit v.fru 3 ||| bit v.sel 2
     ||| bit v.sdrRepository 1 ||| bit v.sensor 0]
  ++ le24 v.manufacturer ++ le16 v.product
  ++ (match v.aux with | some (a, b, c, d) => [a, b, c, d] | none => [])

end Bmc.Spec
