import Bmc.Basic.Bytes
/-! Helpers shared by the specification-side encoders. -/
namespace Bmc.Spec
open Bmc

def bit (b : Bool) (n : Nat) : UInt8 := if b then UInt8.ofNat (2 ^ n) else 0
def le16 (n : Nat) : Bytes := [UInt8.ofNat (n % 256), UInt8.ofNat (n / 256 % 256)]
def le24 (n : Nat) : Bytes := [UInt8.ofNat (n % 256), UInt8.ofNat (n / 256 % 256), UInt8.ofNat (n / 65536 % 256)]
def le32 (n : Nat) : Bytes :=
  [UInt8.ofNat (n % 256), UInt8.ofNat (n / 256 % 256), UInt8.ofNat (n / 65536 % 256), UInt8.ofNat (n / 16777216 % 256)]
/-- packed BCD of a number 0…99 -/
def bcdByte (n : Nat) : UInt8 := UInt8.ofNat (16 * (n / 10) + n % 10)

end Bmc.Spec
