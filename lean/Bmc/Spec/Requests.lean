import Bmc.Basic.Bytes
/-! # Reference parser for requests (C06), written from the specification tables

IPMI v2.0 rev 1.1 and DCMI v1.5 as transcribed in DESIGN.md Appendix H (and the layout comments of the library's
doc strings): ASF RMCP header (§13.1.3), RMCP+ session wrapper (§13.6), IPMI LAN message (§13.8), and the request
data of each command the library issues. This is what a conforming BMC reads. It shares nothing with `Wire/`:
its own little-endian readers, its own checksum rule ("the 8-bit sum of the covered bytes and the checksum is
zero"), its own command table. Reserved bits and bytes must be zero ("reserved: write as 0"); a field is returned
as the number the table says it is. Only what is *layout* is checked: the value of an enumerated field (privilege
level, chassis control, algorithm number, …) is returned, not judged. -/
namespace Bmc.Spec.Req
open Bmc

/-! ## readers -/
def rd16 (a b : UInt8) : Nat := a.toNat + 256 * b.toNat
def rd24 (a b c : UInt8) : Nat := a.toNat + 256 * b.toNat + 65536 * c.toNat
def rd32 (a b c d : UInt8) : Nat := a.toNat + 256 * b.toNat + 65536 * c.toNat + 16777216 * d.toNat

/-- 8-bit sum of a byte string -/
def sum8 (bs : Bytes) : UInt8 := bs.foldl (· + ·) 0

/-! ## the packet: RMCP, session wrapper, IPMI message -/

/-- ASF RMCP header: `[0]` version 06h (RMCP 1.0); `[1]` reserved 00h; `[2]` sequence number, FFh = no RMCP ACK
    wanted; `[3]` class of message: bit 7 = ACK (0 for a normal message), bits 6:4 reserved, bits 3:0 = 7 (IPMI).
    Returns the bytes that follow. -/
def parseRMCP : Bytes → Option Bytes
  | v :: r :: s :: c :: rest => if v = 6 ∧ r = 0 ∧ s = 0xFF ∧ c = 7 then some rest else none
  | _ => none

/-- the fields of an RMCP+ session wrapper that carries neither a trailer nor encryption -/
structure Wrapper where
  payloadType : Nat
  sessionID : Nat
  sequence : Nat
  payload : Bytes
  deriving Repr, DecidableEq

/-- IPMI v2.0 / RMCP+ session header (§13.6): `[0]` authentication type / format = 06h; `[1]` bit 7 payload is
    encrypted, bit 6 payload is authenticated, bits 5:0 payload type; (payload type 02h only: OEM IANA and OEM
    payload ID — not accepted here, the library has no such request); session ID (4, LS byte first); session
    sequence number (4); payload length (2); payload. An unauthenticated packet has no session trailer, so the
    payload length must be exactly what remains of the datagram. Packets marked encrypted or authenticated are
    in-session traffic and are not parsed by this function. -/
def parseWrapper : Bytes → Option Wrapper
  | at_ :: pt :: i0 :: i1 :: i2 :: i3 :: s0 :: s1 :: s2 :: s3 :: l0 :: l1 :: payload =>
    if at_ ≠ 6 then none
    else if pt.toNat / 64 ≠ 0 then none            -- bit 7 (encrypted) or bit 6 (authenticated)
    else if pt.toNat % 64 = 2 then none            -- OEM explicit
    else if rd16 l0 l1 ≠ payload.length then none
    else some { payloadType := pt.toNat % 64, sessionID := rd32 i0 i1 i2 i3, sequence := rd32 s0 s1 s2 s3, payload := payload }
  | _ => none

/-- what follows the command byte for the two "extension" network functions (§5.1): NetFn 2Ch/2Dh (group
    extension): one byte, the defining body (DCh = DCMI); NetFn 2Eh/2Fh (OEM/group): three bytes, the IANA
    enterprise number, LS byte first -/
inductive Ext where
  | none
  | group (definingBody : Nat)
  | oem (iana : Nat)
  deriving Repr, DecidableEq

/-- header of an IPMI LAN request message -/
structure IpmiHeader where
  rsAddr : Nat      -- responder's slave address (bit 0 = 0) or software ID (bit 0 = 1); the BMC is 20h
  netFn : Nat       -- 6 bits, even for a request
  rsLUN : Nat       -- 2 bits
  rqAddr : Nat      -- requester: remote console software ID 40h is the byte 81h
  rqSeq : Nat       -- 6 bits
  rqLUN : Nat       -- 2 bits
  cmd : Nat
  ext : Ext
  deriving Repr, DecidableEq

/-- IPMI LAN request message (§13.8, fig. 13-4): `[0]` rsAddr; `[1]` NetFn (7:2) / rsLUN (1:0); `[2]` checksum 1
    over `[0:2]`; `[3]` rqAddr; `[4]` rqSeq (7:2) / rqLUN (1:0); `[5]` cmd; data; last byte checksum 2 over
    `[3:last]`. Both checksums are verified: the 8-bit sum of the covered bytes plus the checksum is 0. An odd
    NetFn is a response and is not a request. Returns the header and the request data after any extension bytes. -/
def parseMessage : Bytes → Option (IpmiHeader × Bytes)
  | rs :: nl :: c1 :: rq :: sl :: cmd :: rest =>
    if rest = [] then none                                   -- no room for checksum 2
    else if sum8 [rs, nl, c1] ≠ 0 then none
    else if sum8 (rq :: sl :: cmd :: rest) ≠ 0 then none
    else
      let netFn := nl.toNat / 4
      let data := rest.dropLast
      let hdr (e : Ext) : IpmiHeader :=
        { rsAddr := rs.toNat, netFn := netFn, rsLUN := nl.toNat % 4, rqAddr := rq.toNat, rqSeq := sl.toNat / 4
          rqLUN := sl.toNat % 4, cmd := cmd.toNat, ext := e }
      if netFn % 2 = 1 then none
      else if netFn = 0x2C then
        match data with
        | b :: d => some (hdr (.group b.toNat), d)
        | [] => none
      else if netFn = 0x2E then
        match data with
        | a :: b :: c :: d => some (hdr (.oem (rd24 a b c)), d)
        | _ => none
      else some (hdr .none, data)
  | _ => none

/-- a request datagram as the BMC sees it -/
structure ParsedRequest where
  payloadType : Nat
  sessionID : Nat
  sequence : Nat
  ipmi : Option IpmiHeader       -- present exactly for payload type 00h (IPMI message)
  body : Bytes                   -- request data (IPMI) or the whole payload (RMCP+ setup messages)
  deriving Repr, DecidableEq

/-- RMCP header, session wrapper and — for payload type 00h — the IPMI message with both checksums -/
def parsePacket (d : Bytes) : Option ParsedRequest := do
  let rest ← parseRMCP d
  let w ← parseWrapper rest
  if w.payloadType = 0 then
    let (h, body) ← parseMessage w.payload
    pure { payloadType := 0, sessionID := w.sessionID, sequence := w.sequence, ipmi := some h, body := body }
  else
    pure { payloadType := w.payloadType, sessionID := w.sessionID, sequence := w.sequence, ipmi := none, body := w.payload }

/-! ## payload types and the command table (IPMI v2.0 table 13-16, Appendix G; DCMI v1.5 table 6-1) -/

def payloadIPMI : Nat := 0x00
def payloadOpenSessionReq : Nat := 0x10
def payloadRAKP1 : Nat := 0x12
def payloadRAKP3 : Nat := 0x14

def netFnChassis : Nat := 0x00
def netFnSensorEvent : Nat := 0x04
def netFnApp : Nat := 0x06
def netFnStorage : Nat := 0x0A
def netFnGroupExt : Nat := 0x2C
def definingBodyDCMI : Nat := 0xDC

/-- (NetFn, command, extension) of a command -/
structure CmdCode where
  netFn : Nat
  cmd : Nat
  ext : Ext := .none
  deriving Repr, DecidableEq

def getChassisStatus : CmdCode := ⟨netFnChassis, 0x01, .none⟩
def chassisControl : CmdCode := ⟨netFnChassis, 0x02, .none⟩
def getDeviceID : CmdCode := ⟨netFnApp, 0x01, .none⟩
def getSystemGUID : CmdCode := ⟨netFnApp, 0x37, .none⟩
def getChannelAuthCaps : CmdCode := ⟨netFnApp, 0x38, .none⟩
def setSessionPrivilegeLevel : CmdCode := ⟨netFnApp, 0x3B, .none⟩
def closeSession : CmdCode := ⟨netFnApp, 0x3C, .none⟩
def getSessionInfo : CmdCode := ⟨netFnApp, 0x3D, .none⟩
def getChannelCipherSuites : CmdCode := ⟨netFnApp, 0x54, .none⟩
def getSDRRepositoryInfo : CmdCode := ⟨netFnStorage, 0x20, .none⟩
def reserveSDRRepository : CmdCode := ⟨netFnStorage, 0x22, .none⟩
def getSDR : CmdCode := ⟨netFnStorage, 0x23, .none⟩
def getSensorReading : CmdCode := ⟨netFnSensorEvent, 0x2D, .none⟩
def getDCMICapabilitiesInfo : CmdCode := ⟨netFnGroupExt, 0x01, .group definingBodyDCMI⟩
def getPowerReading : CmdCode := ⟨netFnGroupExt, 0x02, .group definingBodyDCMI⟩
def getDCMISensorInfo : CmdCode := ⟨netFnGroupExt, 0x07, .group definingBodyDCMI⟩

/-! ## request data of each command -/

/-- Get Channel Authentication Capabilities (§22.13): `[0]` bit 7 = get IPMI v2.0+ extended data, 6:4 reserved,
    3:0 channel number (Eh = the channel the request arrives on); `[1]` 7:4 reserved, 3:0 requested maximum
    privilege level -/
structure AuthCaps where
  v2Data : Bool
  channel : Nat
  privilege : Nat
  deriving Repr, DecidableEq

def parseAuthCaps : Bytes → Option AuthCaps
  | [b0, b1] =>
    if b0.toNat / 16 % 8 ≠ 0 ∨ b1.toNat / 16 ≠ 0 then none
    else some { v2Data := b0.toNat / 128 = 1, channel := b0.toNat % 16, privilege := b1.toNat % 16 }
  | _ => none

/-- Get Channel Cipher Suites (§22.15): `[0]` 7:4 reserved, 3:0 channel; `[1]` 7:6 reserved, 5:0 payload type;
    `[2]` bit 7: 1 = list algorithms by cipher suite, 0 = list supported algorithms; bit 6 reserved; 5:0 list index -/
structure CipherSuites where
  channel : Nat
  payloadType : Nat
  bySuite : Bool
  listIndex : Nat
  deriving Repr, DecidableEq

def parseCipherSuites : Bytes → Option CipherSuites
  | [b0, b1, b2] =>
    if b0.toNat / 16 ≠ 0 ∨ b1.toNat / 64 ≠ 0 ∨ b2.toNat / 64 % 2 ≠ 0 then none
    else some { channel := b0.toNat % 16, payloadType := b1.toNat % 64, bySuite := b2.toNat / 128 = 1, listIndex := b2.toNat % 64 }
  | _ => none

/-- Get Session Info (§22.20): `[0]` session index: 00h = the session this request arrives over, N = the Nth
    active session, FEh = look up by session handle (one more byte), FFh = look up by session ID (four more bytes) -/
inductive SessionSel where
  | current
  | nth (n : Nat)
  | handle (h : Nat)
  | id (sessionID : Nat)
  deriving Repr, DecidableEq

def parseSessionInfo : Bytes → Option SessionSel
  | [i] => if i = 0xFE ∨ i = 0xFF then none else if i = 0 then some .current else some (.nth i.toNat)
  | [i, h] => if i = 0xFE then some (.handle h.toNat) else none
  | [i, a, b, c, d] => if i = 0xFF then some (.id (rd32 a b c d)) else none
  | _ => none

/-- Set Session Privilege Level (§22.18): one byte, 7:4 reserved, 3:0 requested level (0 = no change) -/
def parseSetPriv : Bytes → Option Nat
  | [b] => if b.toNat / 16 ≠ 0 then none else some (b.toNat % 16)
  | _ => none

/-- Close Session (§22.19): session ID (4); a null ID is followed by the session handle to close (IPMI v2.0) -/
inductive CloseSel where
  | byID (sessionID : Nat)
  | byHandle (h : Nat)
  deriving Repr, DecidableEq

def parseCloseSession : Bytes → Option CloseSel
  | [a, b, c, d] => if rd32 a b c d = 0 then none else some (.byID (rd32 a b c d))
  | [a, b, c, d, h] => if rd32 a b c d = 0 then some (.byHandle h.toNat) else none
  | _ => none

/-- Chassis Control (§28.3): one byte, 7:4 reserved, 3:0 chassis control -/
def parseChassisControl : Bytes → Option Nat
  | [b] => if b.toNat / 16 ≠ 0 then none else some (b.toNat % 16)
  | _ => none

/-- Get SDR (§33.12): reservation ID (2, LS byte first), record ID (2; 0000h = first record), offset into
    record, bytes to read (FFh = rest of the record) -/
structure GetSDR where
  reservation : Nat
  record : Nat
  offset : Nat
  length : Nat
  deriving Repr, DecidableEq

def parseGetSDR : Bytes → Option GetSDR
  | [r0, r1, i0, i1, o, n] => some { reservation := rd16 r0 r1, record := rd16 i0 i1, offset := o.toNat, length := n.toNat }
  | _ => none

/-- Get Sensor Reading (§35.14): sensor number (FFh reserved); the sensor's owner LUN is the rsLUN of the message -/
def parseSensorReading : Bytes → Option Nat
  | [n] => some n.toNat
  | _ => none

/-- an algorithm payload of the Open Session Request (§13.17): payload type, two reserved bytes, payload length
    (08h; 00h = "null field": let the BMC choose), then 7:6 reserved, 5:0 algorithm, three reserved bytes.
    `none` = wildcard. -/
def parseAlg (typ : UInt8) : Bytes → Option (Option Nat)
  | [t, r1, r2, len, a, r3, r4, r5] =>
    if t ≠ typ ∨ r1 ≠ 0 ∨ r2 ≠ 0 ∨ r3 ≠ 0 ∨ r4 ≠ 0 ∨ r5 ≠ 0 then none
    else if len = 0 then (if a = 0 then some none else none)
    else if len = 8 then (if a.toNat / 64 ≠ 0 then none else some (some (a.toNat % 64)))
    else none
  | _ => none

/-- RMCP+ Open Session Request (§13.17): message tag; 7:4 reserved, 3:0 requested maximum privilege level (0 =
    highest the algorithms allow); two reserved bytes; remote console session ID (4); authentication (type 00h),
    integrity (01h) and confidentiality (02h) payloads -/
structure OpenSession where
  tag : Nat
  privilege : Nat
  consoleSessionID : Nat
  auth : Option Nat
  integ : Option Nat
  conf : Option Nat
  deriving Repr, DecidableEq

def parseOpenSession (b : Bytes) : Option OpenSession :=
  if b.length ≠ 32 then none else
  match b.take 8 with
  | [tag, p, r1, r2, s0, s1, s2, s3] =>
    if p.toNat / 16 ≠ 0 ∨ r1 ≠ 0 ∨ r2 ≠ 0 then none else do
    let a ← parseAlg 0 ((b.drop 8).take 8)
    let i ← parseAlg 1 ((b.drop 16).take 8)
    let c ← parseAlg 2 (b.drop 24)
    pure { tag := tag.toNat, privilege := p.toNat % 16, consoleSessionID := rd32 s0 s1 s2 s3, auth := a, integ := i, conf := c }
  | _ => none

/-- RAKP Message 1 (§13.20): message tag; three reserved bytes; managed system session ID (4); remote console
    random number (16); role: 7:5 reserved, bit 4 = 1 name-only lookup / 0 user name + privilege lookup, 3:0
    requested maximum privilege level; two reserved bytes; user name length (0–16); user name (exactly that long) -/
structure Rakp1 where
  tag : Nat
  bmcSessionID : Nat
  random : Bytes
  nameOnlyLookup : Bool
  privilege : Nat
  username : Bytes
  deriving Repr, DecidableEq

def parseRakp1 : Bytes → Option Rakp1
  | tag :: r1 :: r2 :: r3 :: s0 :: s1 :: s2 :: s3 :: rest =>
    match rest.drop 16 with
    | role :: r4 :: r5 :: ulen :: user =>
      if r1 ≠ 0 ∨ r2 ≠ 0 ∨ r3 ≠ 0 ∨ r4 ≠ 0 ∨ r5 ≠ 0 then none
      else if role.toNat / 32 ≠ 0 then none
      else if ulen.toNat > 16 ∨ user.length ≠ ulen.toNat then none
      else some { tag := tag.toNat, bmcSessionID := rd32 s0 s1 s2 s3, random := rest.take 16
                  nameOnlyLookup := role.toNat / 16 % 2 = 1, privilege := role.toNat % 16, username := user }
    | _ => none
  | _ => none

/-- RAKP Message 3 (§13.22): message tag; RMCP+ status code; two reserved bytes; managed system session ID (4);
    key exchange authentication code (its length is the authentication algorithm's; absent when the status
    reports an error) -/
structure Rakp3 where
  tag : Nat
  status : Nat
  bmcSessionID : Nat
  authCode : Bytes
  deriving Repr, DecidableEq

def parseRakp3 : Bytes → Option Rakp3
  | tag :: st :: r1 :: r2 :: s0 :: s1 :: s2 :: s3 :: code =>
    if r1 ≠ 0 ∨ r2 ≠ 0 then none
    else if st ≠ 0 ∧ code ≠ [] then none
    else some { tag := tag.toNat, status := st.toNat, bmcSessionID := rd32 s0 s1 s2 s3, authCode := code }
  | _ => none

/-- Get DCMI Capabilities Info (DCMI §6.1; after the DCh group-extension byte): parameter selector -/
def parseDcmiCaps : Bytes → Option Nat
  | [p] => some p.toNat
  | _ => none

/-- Get Power Reading (DCMI §6.6.1): mode (01h = system power statistics, 02h = enhanced system power
    statistics); mode attributes: for mode 02h the rolling-average time period (7:6 unit: 0 s, 1 min, 2 h, 3 d;
    5:0 amount), reserved for mode 01h; one reserved byte -/
inductive PowerMode where
  | normal
  | enhanced (unit amount : Nat)
  deriving Repr, DecidableEq

def parsePowerReading : Bytes → Option PowerMode
  | [m, a, r] =>
    if r ≠ 0 then none
    else if m = 1 then (if a = 0 then some .normal else none)
    else if m = 2 then some (.enhanced (a.toNat / 64) (a.toNat % 64))
    else none
  | _ => none

/-- Get DCMI Sensor Info (DCMI §6.5.2): sensor type (01h = temperature); entity ID; entity instance (00h =
    all instances, then the next byte is the instance to start from; otherwise that byte is not used) -/
inductive InstanceSel where
  | all (start : Nat)
  | one (inst : Nat)
  deriving Repr, DecidableEq

structure DcmiSensorInfo where
  sensorType : Nat
  entity : Nat
  sel : InstanceSel
  deriving Repr, DecidableEq

def parseDcmiSensorInfo : Bytes → Option DcmiSensorInfo
  | [t, e, i, s] =>
    some { sensorType := t.toNat, entity := e.toNat, sel := if i = 0 then .all s.toNat else .one i.toNat }
  | _ => none

/-- commands without request data (Get Device ID, Get System GUID, Get Chassis Status, Get SDR Repository Info,
    Reserve SDR Repository) -/
def parseEmpty : Bytes → Option Unit
  | [] => some ()
  | _ => none

/-! ## what the BMC reads -/

/-- a session-less IPMI command as the BMC dispatches it: the datagram must parse, travel outside any session
    (payload type 00h, session ID and sequence number null: §13.6 "session ID 00000000h is used for messages sent
    outside of a session"), be addressed to the BMC (20h) from the remote console's software ID (81h) and carry
    the command's NetFn / command / extension bytes; the request data is then read with the command's own
    table. Returns the responder LUN and the fields. -/
def readCommand {α : Type} (code : CmdCode) (parse : Bytes → Option α) (d : Bytes) : Option (Nat × α) := do
  let p ← parsePacket d
  let h ← p.ipmi
  if p.payloadType = payloadIPMI ∧ p.sessionID = 0 ∧ p.sequence = 0 ∧ h.rsAddr = 0x20 ∧ h.rqAddr = 0x81 ∧
      h.netFn = code.netFn ∧ h.cmd = code.cmd ∧ h.ext = code.ext then
    (parse p.body).map (fun v => (h.rsLUN, v))
  else none

/-- an RMCP+ session-setup message: payload type as given, null session, no IPMI message inside -/
def readPayload {α : Type} (payloadType : Nat) (parse : Bytes → Option α) (d : Bytes) : Option α := do
  let p ← parsePacket d
  if p.payloadType = payloadType ∧ p.sessionID = 0 ∧ p.sequence = 0 ∧ p.ipmi = none then parse p.body else none

end Bmc.Spec.Req
