import Bmc.Spec.Rakp
import Bmc.Spec.Setup
/-! The conforming BMC's side of RMCP+ session establishment, written from the specification
    (IPMI v2.0 rev 1.1 §13.17–13.23, §13.28–13.32; DESIGN.md Appendix H) — not from the library's code.

    A managed system that holds a user password `kuid` (and possibly a BMC key `kg`), picks its own session ID,
    a 16-byte random number and has a 16-byte GUID, answers the console's three session-setup messages with
    three datagrams that are functions of what it RECEIVED (`Received`) and of its own values (`BmcSide`). Its
    keys are derived from those same values (`BmcSide.sik`, `k1`, `k2`). Nothing here mentions the console's
    options or the library's model. -/
namespace Bmc.Spec
open Bmc Bmc.Crypto

/-- a session-setup payload outside any session (§13.6, Appendix H): RMCP header (version 06, reserved, sequence FF
    = no RMCP ACK, class 07 = IPMI), then the v2.0 session wrapper with authentication type 06 (RMCP+ format),
    payload type (neither encrypted nor authenticated), session ID 0, session sequence number 0, payload length
    (2 bytes, little-endian), payload. (Not for payload type 02 "OEM explicit", which has two more fields.) -/
def sessionless (ptype : UInt8) (payload : Bytes) : Bytes :=
  [6, 0, 0xFF, 7] ++ ([6, ptype] ++ le32 0 ++ le32 0 ++ le16 payload.length ++ payload)

/-- RMCP+ Open Session Request (§13.17): tag, requested maximum privilege (bits 3:0), two reserved bytes, the
    console's session ID, the three algorithm payloads -/
def openSessionRequest (tag priv : UInt8) (sidm : Nat) (auth integ conf : UInt8) : Bytes :=
  [tag, priv, 0, 0] ++ le32 sidm ++ algPayload 0 (some auth) ++ algPayload 1 (some integ) ++ algPayload 2 (some conf)

/-- RAKP Message 1 (§13.20) with the role byte as one value (bit 4 = name-only lookup, bits 3:0 = requested maximum
    privilege): tag, three reserved bytes, the managed system's session ID, the console's random number, the role
    byte, two reserved bytes, user name length, user name -/
def rakp1 (tag : UInt8) (sidc : Nat) (rm : Bytes) (role : UInt8) (uname : Bytes) : Bytes :=
  [tag, 0, 0, 0] ++ le32 sidc ++ rm ++ [role, 0, 0, UInt8.ofNat uname.length] ++ uname

/-- RAKP Message 3 (§13.22): tag, status, two reserved bytes, the managed system's session ID, the key exchange
    authentication code -/
def rakp3 (tag status : UInt8) (sidc : Nat) (code : Bytes) : Bytes :=
  [tag, status, 0, 0] ++ le32 sidc ++ code

/-- what the managed system holds before the exchange -/
structure BmcSide where
  kuid : Bytes             -- the user's password
  kg : Bytes := []         -- the BMC key K_G; empty = none configured ("K_UID is used in place of K_G")
  sidc : Nat               -- the session ID it allocates
  rc : Bytes               -- its random number
  guid : Bytes             -- its GUID
  maxPriv : UInt8 := 4     -- the maximum privilege level it reports in the Open Session Response

def BmcSide.wf (b : BmcSide) : Prop := b.sidc < 4294967296 ∧ b.rc.length = 16 ∧ b.guid.length = 16
instance BmcSide.decWf (b : BmcSide) : Decidable b.wf := by unfold BmcSide.wf; infer_instance

/-- the fields the managed system has received from the console: Open Session Request (tag, console session ID,
    proposed algorithms) and RAKP Message 1 (console random number, role byte, user name) -/
structure Received where
  tag : UInt8
  sidm : Nat
  auth : UInt8
  integ : UInt8
  conf : UInt8
  rm : Bytes
  role : UInt8
  uname : Bytes

/-- the values both sides know after RAKP 2, as the BMC holds them (session IDs in wire order) -/
def BmcSide.exchange (b : BmcSide) (rx : Received) : Exchange :=
  { sidm := le32 rx.sidm, sidc := le32 b.sidc, rm := rx.rm, rc := b.rc, guid := b.guid, role := rx.role, uname := rx.uname }

/-- the BMC's session integrity key and the two derived keys (§13.31, §13.32), from what it received -/
def BmcSide.sik (b : BmcSide) (C : Ops) (h : HashAlg) (rx : Received) : Bytes := Spec.sik C h b.kuid b.kg (b.exchange rx)
def BmcSide.k1 (b : BmcSide) (C : Ops) (h : HashAlg) (rx : Received) : Bytes := Spec.k C h (b.sik C h rx) 1
def BmcSide.k2 (b : BmcSide) (C : Ops) (h : HashAlg) (rx : Received) : Bytes := Spec.k C h (b.sik C h rx) 2

/-- Open Session Response (payload type 11h): tag echoed, status 00, maximum privilege, reserved, the console's
    session ID echoed, the BMC's session ID, the three algorithm payloads confirming the proposal -/
def BmcSide.openSessionReply (b : BmcSide) (rx : Received) : Bytes :=
  sessionless 0x11 (OpenSessionRsp.ok rx.tag b.maxPriv rx.sidm b.sidc (some rx.auth) (some rx.integ) (some rx.conf)).encode

/-- RAKP Message 2 (payload type 13h): tag, status 00, two reserved bytes, the console's session ID, the BMC's random
    number and GUID, the key exchange authentication code under the user's password -/
def BmcSide.rakp2Reply (b : BmcSide) (C : Ops) (h : HashAlg) (rx : Received) : Bytes :=
  sessionless 0x13 (RAKP2.ok rx.tag rx.sidm b.rc b.guid (rakp2Code C h b.kuid (b.exchange rx))).encode

/-- the RAKP 3 code the BMC expects from a console that knows the password -/
def BmcSide.expectedRakp3 (b : BmcSide) (C : Ops) (h : HashAlg) (rx : Received) : Bytes :=
  rakp3Code C h b.kuid (b.exchange rx)

/-- RAKP Message 4 (payload type 15h): tag, status 00, two reserved bytes, the console's session ID, the integrity
    check value under the session integrity key -/
def BmcSide.rakp4Reply (b : BmcSide) (C : Ops) (h : HashAlg) (rx : Received) : Bytes :=
  sessionless 0x15 (RAKP4.ok rx.tag rx.sidm (icv C h (b.sik C h rx) (b.exchange rx))).encode

end Bmc.Spec
