import Bmc.Spec.Basic
/-! Session-setup messages and session wrappers as the specification lays them out
    (IPMI v2.0 rev 1.1: §13.6 / §6.11.7 session headers, §13.17–13.18 Open Session, §13.20–13.23 RAKP 1–4;
    DESIGN.md Appendix H). Reserved bytes are sent as 00. -/
namespace Bmc.Spec
open Bmc

/-- an algorithm payload of the Open Session messages (§13.17): payload type (00 authentication, 01 integrity,
    02 confidentiality), two reserved bytes, payload length (08, or 00 for "wildcard / null field"), the algorithm
    number in bits 5:0, three reserved bytes. `none` is the wildcard form. -/
def algPayload (typ : UInt8) (alg : Option UInt8) : Bytes :=
  match alg with
  | some a => [typ, 0, 0, 8, a, 0, 0, 0]
  | none => [typ, 0, 0, 0, 0, 0, 0, 0]

/-- an algorithm number fits bits 5:0 -/
def algWf : Option UInt8 → Prop
  | some x => x.toNat < 64
  | none => True
instance algWf.dec (a : Option UInt8) : Decidable (algWf a) := by cases a <;> unfold algWf <;> infer_instance

/-- RMCP+ Open Session Response (§13.18). "If the previous message generated an error, then only the Status
    Code, Reserved, and Remote Console Session ID fields are returned": after the tag this is status, ONE
    reserved byte and the four ID bytes (7 bytes; the reading pinned by the library's own test); some BMCs
    (Supermicro) send the status byte alone. -/
inductive OpenSessionRsp where
  | statusOnly (status : UInt8)
  | failed (tag status : UInt8) (consoleSID : Nat)
  | ok (tag maxPriv : UInt8) (consoleSID bmcSID : Nat) (auth integ conf : Option UInt8)

def OpenSessionRsp.wf : OpenSessionRsp → Prop
  | .statusOnly st => st ≠ 0
  | .failed _ st sid => st ≠ 0 ∧ sid < 4294967296
  | .ok _ mp csid bsid a i c =>
    mp.toNat < 16 ∧ csid < 4294967296 ∧ bsid < 4294967296 ∧
    algWf a ∧ algWf i ∧ algWf c
instance OpenSessionRsp.decWf (v : OpenSessionRsp) : Decidable v.wf := by cases v <;> unfold OpenSessionRsp.wf <;> infer_instance

def OpenSessionRsp.encode : OpenSessionRsp → Bytes
  | .statusOnly st => [st]
  | .failed tag st sid => [tag, st, 0] ++ le32 sid
  | .ok tag mp csid bsid a i c =>
    [tag, 0, mp, 0] ++ le32 csid ++ le32 bsid ++ algPayload 0 a ++ algPayload 1 i ++ algPayload 2 c

/-- RAKP Message 1 (§13.20): tag, three reserved bytes, managed-system session ID, 16-byte console random number,
    role byte (bit 4: name-only lookup, bits 3:0: requested maximum privilege), two reserved bytes, user name
    length (≤ 16), user name -/
structure RAKP1 where
  tag : UInt8
  bmcSID : Nat
  rm : Bytes
  nameOnly : Bool
  priv : UInt8
  user : Bytes

def RAKP1.wf (v : RAKP1) : Prop :=
  v.bmcSID < 4294967296 ∧ v.rm.length = 16 ∧ v.priv.toNat < 16 ∧ v.user.length ≤ 16
instance RAKP1.decWf (v : RAKP1) : Decidable v.wf := by unfold RAKP1.wf; infer_instance

def RAKP1.encode (v : RAKP1) : Bytes :=
  [v.tag, 0, 0, 0] ++ le32 v.bmcSID ++ v.rm ++ [bit v.nameOnly 4 ||| v.priv, 0, 0, UInt8.ofNat v.user.length] ++ v.user

/-- RAKP Message 2 (§13.21): tag, status, two reserved bytes, console session ID; when the status is 00 also the
    managed system's random number (16), its GUID (16) and the key-exchange authentication code (length given
    by the authentication algorithm; empty for RAKP-none) -/
inductive RAKP2 where
  | failed (tag status : UInt8) (consoleSID : Nat)
  | ok (tag : UInt8) (consoleSID : Nat) (rc guid authCode : Bytes)

def RAKP2.wf : RAKP2 → Prop
  | .failed _ st sid => st ≠ 0 ∧ sid < 4294967296
  | .ok _ sid rc guid _ => sid < 4294967296 ∧ rc.length = 16 ∧ guid.length = 16
instance RAKP2.decWf (v : RAKP2) : Decidable v.wf := by cases v <;> unfold RAKP2.wf <;> infer_instance

def RAKP2.encode : RAKP2 → Bytes
  | .failed tag st sid => [tag, st, 0, 0] ++ le32 sid
  | .ok tag sid rc guid ac => [tag, 0, 0, 0] ++ le32 sid ++ rc ++ guid ++ ac

/-- RAKP Message 4 (§13.23): tag, status, two reserved bytes, console session ID; when the status is 00 the
    integrity check value (length given by the authentication algorithm; empty for RAKP-none) -/
inductive RAKP4 where
  | failed (tag status : UInt8) (consoleSID : Nat)
  | ok (tag : UInt8) (consoleSID : Nat) (icv : Bytes)

def RAKP4.wf : RAKP4 → Prop
  | .failed _ st sid => st ≠ 0 ∧ sid < 4294967296
  | .ok _ sid _ => sid < 4294967296
instance RAKP4.decWf (v : RAKP4) : Decidable v.wf := by cases v <;> unfold RAKP4.wf <;> infer_instance

def RAKP4.encode : RAKP4 → Bytes
  | .failed tag st sid => [tag, st, 0, 0] ++ le32 sid
  | .ok tag sid icv => [tag, 0, 0, 0] ++ le32 sid ++ icv

/-- IPMI v1.5 session header (§6.11.7 / §13.6): authentication type (00 none, 01 MD2, 02 MD5, 04 password, 05 OEM),
    session sequence number, session ID, a 16-byte authentication code that is absent exactly when the type is
    none, the payload length in one byte, the payload -/
structure V1Packet where
  authType : UInt8
  sequence : Nat
  id : Nat
  authCode : Option Bytes
  payload : Bytes

def V1Packet.wf (v : V1Packet) : Prop :=
  v.sequence < 4294967296 ∧ v.id < 4294967296 ∧ v.payload.length < 256 ∧
  (match v.authCode with
   | none => v.authType = 0
   | some c => v.authType ≠ 0 ∧ c.length = 16)
instance V1Packet.decWf (v : V1Packet) : Decidable v.wf := by
  unfold V1Packet.wf; cases v.authCode <;> infer_instance

def V1Packet.header (v : V1Packet) : Bytes :=
  [v.authType] ++ le32 v.sequence ++ le32 v.id ++ (match v.authCode with | some c => c | none => [])
    ++ [UInt8.ofNat v.payload.length]
def V1Packet.encode (v : V1Packet) : Bytes := v.header ++ v.payload

/-- what follows the RMCP header of an IPMI-class message: a session wrapper whose first byte is the authentication
    type / format: 06 = RMCP+ (IPMI v2.0) format, anything else = an IPMI v1.5 header (§13.6) -/
structure SessionWrapper where
  authType : UInt8
  rest : Bytes

def SessionWrapper.encode (v : SessionWrapper) : Bytes := v.authType :: v.rest
def SessionWrapper.isV2 (v : SessionWrapper) : Bool := v.authType == 6

end Bmc.Spec
