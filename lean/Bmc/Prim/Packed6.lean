import Bmc.Basic.Tactics
/-! Model of `ipmi.decodePacked6BitAscii` (pkg/ipmi/id_string.go) and its specification. -/
namespace Bmc.Prim
open Bmc

/-- start offset of character i: `(i-1) - floor((i-1)/4)` with Go's float floor (i = 0 ↦ 0) -/
def off6 (i : Nat) : Nat := if i = 0 then 0 else (i - 1) - (i - 1) / 4

/-- one iteration of the loop body -/
def char6 (d : GoSlice) (i : Nat) : R UInt8 := do
  let o := off6 i
  if i % 4 = 0 then
    let b ← d.idx o; pure ((b &&& 0x3f) + 0x20)
  else if i % 4 = 1 then
    let b ← d.idx o; let b' ← d.idx (o + 1); pure (((b >>> 6) ||| ((b' &&& 0xf) <<< 2)) + 0x20)
  else if i % 4 = 2 then
    let b ← d.idx o; let b' ← d.idx (o + 1); pure (((b >>> 4) ||| ((b' &&& 0x3) <<< 4)) + 0x20)
  else
    let b ← d.idx o; pure ((b >>> 2) + 0x20)

def loop6 (d : GoSlice) : Nat → Nat → R (List UInt8)
  | _, 0 => pure []
  | i, n + 1 => do
    let ch ← char6 d i
    let rest ← loop6 d (i + 1) n
    pure (ch :: rest)

/-- `decodePacked6BitAscii(b, c)`: the string (as bytes: every rune is < 0x60) and the bytes consumed -/
def decode6Go (d : GoSlice) (c : Nat) : R (List UInt8 × Nat) := do
  if d.len < c - c / 4 then R.err else
  let s ← loop6 d 0 c
  pure (s, c - c / 4)

-- SPEC ---------------------------------------------------------------------------------------------
/-- byte k of the packing of 6-bit codes, least-significant bits first, four codes per three bytes -/
def packByte (cs : List UInt8) (k : Nat) : UInt8 :=
  let q := k / 3
  let c (j : Nat) := cs.getD (4 * q + j) 0
  if k % 3 = 0 then c 0 ||| (c 1 <<< 6)
  else if k % 3 = 1 then (c 1 >>> 2) ||| (c 2 <<< 4)
  else (c 2 >>> 4) ||| (c 3 <<< 2)

def pack6 (cs : List UInt8) : Bytes := (List.range (cs.length - cs.length / 4)).map (packByte cs)

theorem pack6_len (cs : List UInt8) : (pack6 cs).length = cs.length - cs.length / 4 := by simp [pack6]

theorem pack6_getD (cs : List UInt8) (k : Nat) (h : k < cs.length - cs.length / 4) : (pack6 cs).getD k 0 = packByte cs k := by
  simp [pack6, List.getD_eq_getElem?_getD, h]

-- bit identities over all 6-bit values ---------------------------------------------------------------
theorem bits0 : ∀ a : Nat, a < 64 → ∀ b : Nat, b < 64 →
    ((UInt8.ofNat a ||| (UInt8.ofNat b <<< 6)) &&& (0x3f : UInt8) = UInt8.ofNat a) ∧
    ((UInt8.ofNat a ||| (UInt8.ofNat b <<< 6)) >>> 6 = UInt8.ofNat b &&& (3 : UInt8)) := by decide +kernel
theorem bits1 : ∀ b : Nat, b < 64 → ∀ c : Nat, c < 64 →
    (((UInt8.ofNat b >>> 2) ||| (UInt8.ofNat c <<< 4)) &&& (0xf : UInt8) = UInt8.ofNat b >>> 2) ∧
    (((UInt8.ofNat b >>> 2) ||| (UInt8.ofNat c <<< 4)) >>> 4 = UInt8.ofNat c &&& (0xf : UInt8)) := by decide +kernel
theorem bits2 : ∀ c : Nat, c < 64 → ∀ d : Nat, d < 64 →
    (((UInt8.ofNat c >>> 4) ||| (UInt8.ofNat d <<< 2)) &&& (0x3 : UInt8) = UInt8.ofNat c >>> 4) ∧
    (((UInt8.ofNat c >>> 4) ||| (UInt8.ofNat d <<< 2)) >>> 2 = UInt8.ofNat d) := by decide +kernel
theorem join1 : ∀ b : Nat, b < 64 → (UInt8.ofNat b &&& (3 : UInt8)) ||| ((UInt8.ofNat b >>> 2) <<< 2) = UInt8.ofNat b := by decide +kernel
theorem join2 : ∀ c : Nat, c < 64 → (UInt8.ofNat c &&& (0xf : UInt8)) ||| ((UInt8.ofNat c >>> 4) <<< 4) = UInt8.ofNat c := by decide +kernel

end Bmc.Prim
