import Bmc.Basic.Bytes
namespace Bmc.Prim

/-- model of `ipmi.checksum`: two's-complement of the byte sum -/
def checksum (bs : Bytes) : UInt8 := 0 - bs.foldl (· + ·) 0

def sum (bs : Bytes) : UInt8 := bs.foldl (· + ·) 0

end Bmc.Prim
