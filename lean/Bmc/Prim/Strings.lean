import Bmc.Basic.Tactics
import Bmc.Spec.Prim
/-! Models of `decodeBCDPlus`, `decode8BitAsciiLatin1` (pkg/ipmi/id_string.go) and
    `rollingAvgPeriodByte` (pkg/dcmi/rolling_average.go). Strings are modelled as their bytes
    (every rune the decoders produce is < 0x80, or a raw byte for Latin-1). -/
namespace Bmc.Prim
open Bmc

/-- one iteration of the BCD plus loop: `bcdPlusRunes[(b[i/2]>>shift)&0xf]`, shift = 4 for even i -/
def bcdChar (d : GoSlice) (i : Nat) : R UInt8 := do
  let b ← d.idx (i / 2)
  let nib : UInt8 := if i % 2 = 0 then (b >>> 4) &&& 0xf else b &&& 0xf
  pure (Spec.bcdPlusTable.getD nib.toNat 0)

def loopBcd (d : GoSlice) : Nat → Nat → R Bytes
  | _, 0 => pure []
  | i, n + 1 => do
    let ch ← bcdChar d i
    let rest ← loopBcd d (i + 1) n
    pure (ch :: rest)

/-- `decodeBCDPlus(b, c)`; `math.Ceil(float64(c)/2)` is `(c+1)/2` on non-negative ints -/
def bcdPlusGo (d : GoSlice) (c : Nat) : R (Bytes × Nat) := do
  if d.len < (c + 1) / 2 then R.err else
  let s ← loopBcd d 0 c
  pure (s, (c + 1) / 2)

/-- `decode8BitAsciiLatin1(b, c)`. A character count of zero means there is no string and is accepted
    whatever follows. -/
def latin1Go (d : GoSlice) (c : Nat) : R (Bytes × Nat) := do
  if c = 0 then pure ([], 0) else
  if d.len < 2 then R.err else
  if d.len < c then R.err else
  let s ← d.slice 0 c
  pure (s.vis, c)

/-- `rollingAvgPeriodByte(d)` for a non-negative whole number of seconds (float division by a whole
    unit followed by truncation is `Nat` division there) -/
def rollingByteGo (secs : Nat) : Nat :=
  if secs < 60 then secs % 256
  else if secs < 3600 then (secs / 60) % 256 ||| 0x40
  else if secs < 86400 then (secs / 3600) % 256 ||| 0x80
  else (min (secs / 86400) 63) % 256 ||| 0xc0

end Bmc.Prim
