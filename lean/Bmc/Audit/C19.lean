import Bmc.Proofs.C19
import Bmc.Proofs.EndToEnd.IsolationC19
import Bmc.Proofs.SourcePins
#print axioms Bmc.Proofs.C19.isolation
#print axioms Bmc.Proofs.C19.no_shared_writes
#print axioms Bmc.Proofs.C19.shared_state_inventory
#print axioms Bmc.Proofs.EndToEnd.generated_SendCommand_isolation
#print axioms Bmc.Proofs.SourcePins.pinned_sources
