import Bmc.Proofs.C19
#print axioms Bmc.Proofs.C19.isolation
#print axioms Bmc.Proofs.C19.no_shared_writes
#print axioms Bmc.Proofs.C19.shared_state_inventory
