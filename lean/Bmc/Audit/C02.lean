import Bmc.Proofs.C02
#print axioms Bmc.Proofs.C02.icvOf_spec
#print axioms Bmc.Proofs.C02.session_sound
#print axioms Bmc.Proofs.C02.wrong_code_is_password_error
#print axioms Bmc.Proofs.C02.password_error_only_from_wrong_code
#print axioms Bmc.Proofs.C02.bad_status_or_tag
#print axioms Bmc.Proofs.C02.truncated_reply_is_not_a_reply
#print axioms Bmc.Proofs.C02.only_truncated_replies_no_session
