import Bmc.Proofs.C02
import Bmc.Proofs.GenKeys.TranslatedOk
import Bmc.Proofs.GenKeys.SIK
import Bmc.Proofs.GenKeys.Rakp2
import Bmc.Proofs.GenKeys.Rakp3
import Bmc.Proofs.GenKeys.ICV
import Bmc.Proofs.GenKeys.KConstant
import Bmc.Proofs.GenKeys.Tables
import Bmc.Proofs.GenKeys.Integrity
import Bmc.Proofs.GenKeys.Cipher
import Bmc.Proofs.GenHs.TranslatedOk
import Bmc.Proofs.GenHs.Model
import Bmc.Proofs.GenHs.Wrappers
import Bmc.Proofs.GenHs.NewV2Session
import Bmc.Proofs.GenHs.Examples
import Bmc.Proofs.GenLoops.BuildAndSendPayload
import Bmc.Proofs.EndToEnd.HandshakeC02
#print axioms Bmc.Proofs.C02.icvOf_spec
#print axioms Bmc.Proofs.C02.session_sound
#print axioms Bmc.Proofs.C02.wrong_code_is_password_error
#print axioms Bmc.Proofs.C02.password_error_only_from_wrong_code
#print axioms Bmc.Proofs.C02.bad_status_or_tag
#print axioms Bmc.Proofs.C02.truncated_reply_is_not_a_reply
#print axioms Bmc.Proofs.C02.only_truncated_replies_no_session
#print axioms Bmc.Proofs.GenKeys.translated_ok
#print axioms Bmc.Proofs.GenKeys.hashOf_ok
#print axioms Bmc.Proofs.GenKeys.calculateSIK_input_eq
#print axioms Bmc.Proofs.GenKeys.calculateRAKPMessage2AuthCode_input_eq
#print axioms Bmc.Proofs.GenKeys.calculateRAKPMessage3AuthCode_input_eq
#print axioms Bmc.Proofs.GenKeys.calculateRAKPMessage4ICV_input_eq
#print axioms Bmc.Proofs.GenKeys.calculateRAKPMessage4ICV_mac
#print axioms Bmc.Proofs.GenKeys.K_constant_eq
#print axioms Bmc.Proofs.GenKeys.K_input_eq
#print axioms Bmc.Proofs.GenKeys.session_k1_k2
#print axioms Bmc.Proofs.GenKeys.spec_k_is_K_input
#print axioms Bmc.Proofs.GenKeys.authHash_is_table
#print axioms Bmc.Proofs.GenKeys.icvLen_is_table
#print axioms Bmc.Proofs.GenKeys.constructors_are_hmac
#print axioms Bmc.Proofs.GenKeys.truncatedHash_Size_eq
#print axioms Bmc.Proofs.GenKeys.algorithmHasher_is_integMac
#print axioms Bmc.Proofs.GenKeys.algorithmCipher_key
#print axioms Bmc.Proofs.GenKeys.algorithmCipher_key_is_take16
#print axioms Bmc.Proofs.GenHs.translated_ok
#print axioms Bmc.Proofs.GenHs.gaveUp_none
#print axioms Bmc.Proofs.GenHs.stepOpen_is_checks
#print axioms Bmc.Proofs.GenHs.stepRakp2_is_checks
#print axioms Bmc.Proofs.GenHs.stepRakp4_is_checks
#print axioms Bmc.Proofs.GenHs.newSession_is_hsRun
#print axioms Bmc.Proofs.GenHs.openSession_gen_eq
#print axioms Bmc.Proofs.GenHs.rakpMessage1_gen_eq
#print axioms Bmc.Proofs.GenHs.rakpMessage3_gen_eq
#print axioms Bmc.Proofs.GenHs.newV2Session_gen_eq
#print axioms Bmc.Proofs.GenHs.newV2Session_no_suite
#print axioms Bmc.Proofs.GenHs.newV2Session_total
#print axioms Bmc.Proofs.GenHs.keys_view_ignores_authCode
#print axioms Bmc.Proofs.GenHs.toy_session
#print axioms Bmc.Proofs.GenHs.toy_wrong_code
#print axioms Bmc.Proofs.GenHs.toy_wrong_icv
#print axioms Bmc.Proofs.GenHs.toy_gen_eq
#print axioms Bmc.Proofs.GenLoops.V2Sessionless_buildAndSendPayload_gen_eq
#print axioms Bmc.Proofs.GenLoops.V2Sessionless_buildAndSendPayload_serialize_error
#print axioms Bmc.Proofs.EndToEnd.hsRun_sound
#print axioms Bmc.Proofs.EndToEnd.viewAnswers_honest
#print axioms Bmc.Proofs.EndToEnd.hsRun_incorrect_password
#print axioms Bmc.Proofs.EndToEnd.generated_newV2Session_sound
#print axioms Bmc.Proofs.EndToEnd.generated_newV2Session_incorrect_password
