import Bmc.Proofs.C16
import Bmc.Proofs.GenDec.CipherSuiteRecords
import Bmc.Proofs.GenOrch.GetEntityInstances
import Bmc.Proofs.GenOrch.GetSensorMap
import Bmc.Proofs.GenOrch.CountRecordIDs
import Bmc.Proofs.GenOrch.GetSensorInfo
import Bmc.Proofs.GenOrch.RetrieveSupportedCipherSuites
import Bmc.Proofs.EndToEnd.EnumC16
#print axioms Bmc.Proofs.C16.parse_encode
#print axioms Bmc.Proofs.C16.parse_total
#print axioms Bmc.Proofs.C16.parse_sound
#print axioms Bmc.Proofs.C16.parse_malformed
#print axioms Bmc.Proofs.C16.parse_fuel
#print axioms Bmc.Proofs.C16.parse_malformed_start
#print axioms Bmc.Proofs.C16.parse_malformed_stray
#print axioms Bmc.Proofs.C16.parse_malformed_truncated
#print axioms Bmc.Proofs.C16.chunks_fuel
#print axioms Bmc.Proofs.C16.chunks_reassemble
#print axioms Bmc.Proofs.C16.chunks_reassemble_max
#print axioms Bmc.Proofs.C16.chunks_reassemble_wire
#print axioms Bmc.Proofs.C16.retrieve_complete
#print axioms Bmc.Proofs.C16.retrieve_eq_parse
#print axioms Bmc.Proofs.C16.dcmi_fuel
#print axioms Bmc.Proofs.C16.dcmi_pages
#print axioms Bmc.Proofs.C16.dcmi_requests
#print axioms Bmc.Proofs.C16.dcmi_pages_wire
#print axioms Bmc.Proofs.C16.fallback_iff
#print axioms Bmc.Proofs.C16.sensorInfo_std
#print axioms Bmc.Proofs.C16.sensorInfo_dcmi
#print axioms Bmc.Proofs.C16.sensorInfo_err
#print axioms Bmc.Proofs.GenDec.parseCipherSuiteRecordData_gen_eq
#print axioms Bmc.Proofs.GenDec.parseCipherSuiteRecordData_fuel
#print axioms Bmc.Proofs.GenOrch.getEntityInstances_gen_eq
#print axioms Bmc.Proofs.GenOrch.getEntityInstances_fuel
#print axioms Bmc.Proofs.GenOrch.getEntityInstances_fuel_any
#print axioms Bmc.Proofs.GenOrch.getSensorMap_gen_eq
#print axioms Bmc.Proofs.GenOrch.getSensorMap_fuel_any
#print axioms Bmc.Proofs.GenOrch.CountRecordIDs_gen_eq
#print axioms Bmc.Proofs.GenOrch.ipmiSensorEntityIDs_gen_eq
#print axioms Bmc.Proofs.GenOrch.dcmiSensorEntityIDs_gen_eq
#print axioms Bmc.Proofs.GenOrch.GetSensorInfo_gen_eq
#print axioms Bmc.Proofs.GenOrch.GetSensorInfo_fuel
#print axioms Bmc.Proofs.GenOrch.GetSensorInfo_fuel_any
#print axioms Bmc.Proofs.GenOrch.RetrieveSupportedCipherSuites_gen_eq
#print axioms Bmc.Proofs.GenOrch.RetrieveSupportedCipherSuites_fuel
#print axioms Bmc.Proofs.GenOrch.RetrieveSupportedCipherSuites_fuel_any
#print axioms Bmc.Proofs.EndToEnd.retrieveSupportedCipherSuites_congr
#print axioms Bmc.Proofs.EndToEnd.generated_RetrieveSupportedCipherSuites_complete
#print axioms Bmc.Proofs.EndToEnd.instLoop_congr
#print axioms Bmc.Proofs.EndToEnd.generated_getEntityInstances_pages
#print axioms Bmc.Proofs.EndToEnd.sensorMapLoop_congr
#print axioms Bmc.Proofs.EndToEnd.getSensorInfo_congr
#print axioms Bmc.Proofs.EndToEnd.generated_GetSensorInfo_std
