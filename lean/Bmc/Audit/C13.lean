import Bmc.Proofs.C13
#print axioms Bmc.Proofs.C13.returns_by_deadline
#print axioms Bmc.Proofs.C13.expired_context
#print axioms Bmc.Proofs.C13.no_false_success
#print axioms Bmc.Proofs.C13.timing_facts
