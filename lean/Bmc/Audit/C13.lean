import Bmc.Proofs.C13
import Bmc.Proofs.EndToEnd.ContextC13
import Bmc.Proofs.C13Source
import Bmc.Proofs.SourcePins
import Bmc.Proofs.EndToEnd.HistoryC13
#print axioms Bmc.Proofs.C13.returns_by_deadline
#print axioms Bmc.Proofs.C13.expired_context
#print axioms Bmc.Proofs.C13.no_false_success
#print axioms Bmc.Proofs.C13.run_bounds
#print axioms Bmc.Proofs.C13.sequence_returns_by_deadline
#print axioms Bmc.Proofs.C13.retrieval_returns_by_deadline
#print axioms Bmc.Proofs.C13.expired_context_composite
#print axioms Bmc.Proofs.C13.timing_facts
#print axioms Bmc.Proofs.C13.context_pass_through
#print axioms Bmc.Proofs.EndToEnd.generated_session_loop_stops_with_context
#print axioms Bmc.Proofs.EndToEnd.generated_session_loop_expired_context
#print axioms Bmc.Proofs.EndToEnd.slExpected_le
#print axioms Bmc.Proofs.EndToEnd.generated_sessionless_loop_stops_with_context
#print axioms Bmc.Proofs.C13.transport_source
#print axioms Bmc.Proofs.SourcePins.pinned_sources
#print axioms Bmc.Proofs.EndToEnd.contract_length_le
#print axioms Bmc.Proofs.EndToEnd.generated_history_within_contexts
#print axioms Bmc.Proofs.EndToEnd.generated_history_prefix_within_contexts
#print axioms Bmc.Proofs.EndToEnd.contract_append
#print axioms Bmc.Proofs.EndToEnd.generated_history_call_within_its_context
