import Bmc.Proofs.C13
#print axioms Bmc.Proofs.C13.returns_by_deadline
#print axioms Bmc.Proofs.C13.expired_context
#print axioms Bmc.Proofs.C13.no_false_success
#print axioms Bmc.Proofs.C13.run_bounds
#print axioms Bmc.Proofs.C13.sequence_returns_by_deadline
#print axioms Bmc.Proofs.C13.retrieval_returns_by_deadline
#print axioms Bmc.Proofs.C13.expired_context_composite
#print axioms Bmc.Proofs.C13.timing_facts
#print axioms Bmc.Proofs.C13.context_pass_through
