import Bmc.Proofs.C15
import Bmc.Proofs.C15Float
import Bmc.Proofs.C15Source
#print axioms Bmc.Proofs.C15.convert_exact
#print axioms Bmc.Proofs.C15.printed_value
#print axioms Bmc.Proofs.C15.printed_canonical
#print axioms Bmc.Proofs.C15.raw_interpretation
#print axioms Bmc.Proofs.C15.reader_selection
#print axioms Bmc.Proofs.C15.reader_refused_iff
#print axioms Bmc.Proofs.C15.lineariser_table
#print axioms Bmc.Proofs.C15.lineariser_defined
#print axioms Bmc.Proofs.C15.flags
#print axioms Bmc.Proofs.C15.flags_iff
#print axioms Bmc.Proofs.C15.read_error
#print axioms Bmc.Proofs.C15.sensor_reading_spec
#print axioms Bmc.Proofs.C15.convertReading_source
#print axioms Bmc.Proofs.C15.ab_pow10
#print axioms Bmc.Proofs.C15.convert_error
#print axioms Bmc.Proofs.C15.five_roundings
#print axioms Bmc.Proofs.C15.convert_within_6u
#print axioms Bmc.Proofs.C15.convert_binary64_within_6u
#print axioms Bmc.Proofs.C15.binary64_is_rounding_to_53_bits
#print axioms Bmc.Proofs.C15.sqrt64_is_correctly_rounded
#print axioms Bmc.Proofs.C15.driver_prints_convertFloat
#print axioms Bmc.Proofs.C15.convert_exact_rounding
#print axioms Bmc.Proofs.C15.lineariser_table_source
#print axioms Bmc.Proofs.C15.parser_table_source
#print axioms Bmc.Proofs.C15.sensor_reader_source
#print axioms Bmc.Proofs.C15.lineariser_table_keys
