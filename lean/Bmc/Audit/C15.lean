import Bmc.Proofs.C15
#print axioms Bmc.Proofs.C15.convert_exact
#print axioms Bmc.Proofs.C15.printed_value
#print axioms Bmc.Proofs.C15.printed_canonical
#print axioms Bmc.Proofs.C15.raw_interpretation
#print axioms Bmc.Proofs.C15.reader_selection
#print axioms Bmc.Proofs.C15.reader_refused_iff
#print axioms Bmc.Proofs.C15.lineariser_table
#print axioms Bmc.Proofs.C15.lineariser_defined
#print axioms Bmc.Proofs.C15.flags
#print axioms Bmc.Proofs.C15.flags_iff
#print axioms Bmc.Proofs.C15.read_error
#print axioms Bmc.Proofs.C15.sensor_reading_spec
