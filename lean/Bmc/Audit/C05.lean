import Bmc.Proofs.C05.Basic
import Bmc.Proofs.C05.Core
import Bmc.Proofs.C05.Sess
import Bmc.Proofs.C05.Sdr
import Bmc.Proofs.C05.Setup
import Bmc.Proofs.C05.Dcmi
import Bmc.Proofs.C05.Calls
import Bmc.Proofs.GenDec.TranslatedOk
import Bmc.Proofs.GenDec.ReserveSDRRepositoryRsp
import Bmc.Proofs.GenDec.GetSystemGUIDRsp
import Bmc.Proofs.GenDec.SetSessionPrivilegeLevelRsp
import Bmc.Proofs.GenDec.GetSDRRsp
import Bmc.Proofs.GenDec.SDR
import Bmc.Proofs.GenDec.GetSensorReadingRsp
import Bmc.Proofs.GenDec.GetChannelCipherSuitesRsp
import Bmc.Proofs.GenDec.GetChannelAuthenticationCapabilitiesRsp
import Bmc.Proofs.GenDec.GetSDRRepositoryInfoRsp
import Bmc.Proofs.GenDec.GetPowerReadingRsp
import Bmc.Proofs.GenDec.GetChassisStatusRsp
import Bmc.Proofs.GenDec.GetDeviceIDRsp
import Bmc.Proofs.GenDec.RAKPMessage4
import Bmc.Proofs.GenDec.RAKPMessage2
import Bmc.Proofs.GenDec.RAKPMessage1
import Bmc.Proofs.GenDec.V1Session
import Bmc.Proofs.GenDec.GetSessionInfoRsp
import Bmc.Proofs.GenDec.OpenSessionRsp
import Bmc.Proofs.GenDec.GetDCMICapabilitiesInfoManageabilityAccessAttrsRsp
import Bmc.Proofs.GenDec.GetDCMICapabilitiesInfoOptionalPlatformAttrsRsp
import Bmc.Proofs.GenDec.GetDCMICapabilitiesInfoSupportedCapabilitiesRsp
import Bmc.Proofs.GenDec.GetDCMICapabilitiesInfoMandatoryPlatformAttrsRsp
import Bmc.Proofs.GenDec.SessionSelector
import Bmc.Proofs.GenDec.Message
import Bmc.Proofs.GenDec.GetDCMICapabilitiesInfoEnhancedSystemPowerStatisticsAttrsRsp
import Bmc.Proofs.GenDec.GetDCMISensorInfoRsp
import Bmc.Proofs.GenDec.FullSensorRecord
import Bmc.Proofs.GenDec.V2Session
import Bmc.Proofs.GenDec.AES128CBC
import Bmc.Proofs.EndToEnd.SafeC05
import Bmc.Proofs.C13Source
import Bmc.Proofs.SourcePins
import Bmc.Proofs.EndToEnd.HistoryC05
#print axioms Bmc.Proofs.C05.deviceID_total
#print axioms Bmc.Proofs.C05.deviceID_safe
#print axioms Bmc.Proofs.C05.chassis_total
#print axioms Bmc.Proofs.C05.ofExcept_safe
#print axioms Bmc.Proofs.C05.message_total
#print axioms Bmc.Proofs.C05.message_safe
#print axioms Bmc.Proofs.C05.v2_total
#print axioms Bmc.Proofs.C05.v2_safe
#print axioms Bmc.Proofs.C05.aes_total
#print axioms Bmc.Proofs.C05.aes_safe
#print axioms Bmc.Proofs.C05.rmcp_safe
#print axioms Bmc.Proofs.C05.decodeChain_total
#print axioms Bmc.Proofs.C05.call_total
#print axioms Bmc.Proofs.C05.authCaps_total
#print axioms Bmc.Proofs.C05.cipherSuites_total
#print axioms Bmc.Proofs.C05.setPriv_total
#print axioms Bmc.Proofs.C05.guid_total
#print axioms Bmc.Proofs.C05.sessionInfo_total
#print axioms Bmc.Proofs.C05.sdrRepoInfo_total
#print axioms Bmc.Proofs.C05.reserveSDR_total
#print axioms Bmc.Proofs.C05.getSDR_total
#print axioms Bmc.Proofs.C05.sdrHeader_total
#print axioms Bmc.Proofs.C05.sensorReading_total
#print axioms Bmc.Proofs.C05.idString_total
#print axioms Bmc.Proofs.C05.idString_safe
#print axioms Bmc.Proofs.C05.fullSensor_total
#print axioms Bmc.Proofs.C05.fullSensor_safe
#print axioms Bmc.Proofs.C05.openSessionRsp_total
#print axioms Bmc.Proofs.C05.openSessionRsp_safe
#print axioms Bmc.Proofs.C05.rakp1_total
#print axioms Bmc.Proofs.C05.rakp1_safe
#print axioms Bmc.Proofs.C05.rakp2_total
#print axioms Bmc.Proofs.C05.rakp2_safe
#print axioms Bmc.Proofs.C05.rakp4_total
#print axioms Bmc.Proofs.C05.rakp4_safe
#print axioms Bmc.Proofs.C05.selector_total
#print axioms Bmc.Proofs.C05.selector_safe
#print axioms Bmc.Proofs.C05.v1_total
#print axioms Bmc.Proofs.C05.v1_safe
#print axioms Bmc.Proofs.C05.dcmiCap1_total
#print axioms Bmc.Proofs.C05.dcmiCap1_safe
#print axioms Bmc.Proofs.C05.dcmiCap2_total
#print axioms Bmc.Proofs.C05.dcmiCap2_safe
#print axioms Bmc.Proofs.C05.dcmiCap3_total
#print axioms Bmc.Proofs.C05.dcmiCap3_safe
#print axioms Bmc.Proofs.C05.dcmiCap4_total
#print axioms Bmc.Proofs.C05.dcmiCap4_safe
#print axioms Bmc.Proofs.C05.dcmiCap5_total
#print axioms Bmc.Proofs.C05.dcmiCap5_safe
#print axioms Bmc.Proofs.C05.powerReading_total
#print axioms Bmc.Proofs.C05.powerReading_safe
#print axioms Bmc.Proofs.C05.sensorInfo_total
#print axioms Bmc.Proofs.C05.sensorInfo_safe
#print axioms Bmc.Proofs.C05.not_bad_cases
#print axioms Bmc.Proofs.C05.slChain_total
#print axioms Bmc.Proofs.C05.sessionless_call_total
#print axioms Bmc.Proofs.C05.deserialiseAlg_safe
#print axioms Bmc.Proofs.C05.bind_safe
#print axioms Bmc.Proofs.C05.hsOpenSessionRsp_safe
#print axioms Bmc.Proofs.C05.hsRakp4_safe
#print axioms Bmc.Proofs.C05.payloadReply_total
#print axioms Bmc.Proofs.C05.exchange_total
#print axioms Bmc.Proofs.C05.exchangePayload_total
#print axioms Bmc.Proofs.C05.handshake_total
#print axioms Bmc.Proofs.GenDec.translated_ok
#print axioms Bmc.Proofs.GenDec.ReserveSDRRepositoryRsp_gen_eq
#print axioms Bmc.Proofs.GenDec.GetSystemGUIDRsp_gen_eq
#print axioms Bmc.Proofs.GenDec.SetSessionPrivilegeLevelRsp_gen_eq
#print axioms Bmc.Proofs.GenDec.GetSDRRsp_gen_eq
#print axioms Bmc.Proofs.GenDec.SDR_gen_eq
#print axioms Bmc.Proofs.GenDec.GetSensorReadingRsp_gen_eq
#print axioms Bmc.Proofs.GenDec.GetChannelCipherSuitesRsp_gen_eq
#print axioms Bmc.Proofs.GenDec.GetChannelAuthenticationCapabilitiesRsp_gen_eq
#print axioms Bmc.Proofs.GenDec.GetSDRRepositoryInfoRsp_gen_eq
#print axioms Bmc.Proofs.GenDec.GetPowerReadingRsp_gen_eq
#print axioms Bmc.Proofs.GenDec.GetChassisStatusRsp_gen_eq
#print axioms Bmc.Proofs.GenDec.GetDeviceIDRsp_gen_eq
#print axioms Bmc.Proofs.GenDec.RAKPMessage4_gen_eq
#print axioms Bmc.Proofs.GenDec.RAKPMessage2_gen_eq
#print axioms Bmc.Proofs.GenDec.RAKPMessage1_gen_eq
#print axioms Bmc.Proofs.GenDec.V1Session_gen_eq
#print axioms Bmc.Proofs.GenDec.GetSessionInfoRsp_gen_eq
#print axioms Bmc.Proofs.GenDec.OpenSessionRsp_gen_eq
#print axioms Bmc.Proofs.GenDec.GetDCMICapabilitiesInfoManageabilityAccessAttrsRsp_gen_eq
#print axioms Bmc.Proofs.GenDec.GetDCMICapabilitiesInfoOptionalPlatformAttrsRsp_gen_eq
#print axioms Bmc.Proofs.GenDec.GetDCMICapabilitiesInfoSupportedCapabilitiesRsp_gen_eq
#print axioms Bmc.Proofs.GenDec.GetDCMICapabilitiesInfoMandatoryPlatformAttrsRsp_gen_eq
#print axioms Bmc.Proofs.GenDec.SessionSelector_gen_eq
#print axioms Bmc.Proofs.GenDec.Message_gen_eq
#print axioms Bmc.Proofs.GenDec.GetDCMICapabilitiesInfoEnhancedSystemPowerStatisticsAttrsRsp_gen_eq
#print axioms Bmc.Proofs.GenDec.GetDCMISensorInfoRsp_gen_eq
#print axioms Bmc.Proofs.GenDec.FullSensorRecord_gen_eq
#print axioms Bmc.Proofs.GenDec.V2Session_gen_eq
#print axioms Bmc.Proofs.GenDec.AES128CBC_gen_eq
#print axioms Bmc.Proofs.EndToEnd.R.bad_map
#print axioms Bmc.Proofs.EndToEnd.bad_of_map_eq
#print axioms Bmc.Proofs.EndToEnd.generated_GetDeviceIDRsp_safe
#print axioms Bmc.Proofs.EndToEnd.generated_GetChassisStatusRsp_safe
#print axioms Bmc.Proofs.EndToEnd.generated_GetChannelAuthenticationCapabilitiesRsp_safe
#print axioms Bmc.Proofs.EndToEnd.generated_GetChannelCipherSuitesRsp_safe
#print axioms Bmc.Proofs.EndToEnd.generated_SetSessionPrivilegeLevelRsp_safe
#print axioms Bmc.Proofs.EndToEnd.generated_GetSystemGUIDRsp_safe
#print axioms Bmc.Proofs.EndToEnd.generated_GetSessionInfoRsp_safe
#print axioms Bmc.Proofs.EndToEnd.generated_GetSDRRepositoryInfoRsp_safe
#print axioms Bmc.Proofs.EndToEnd.generated_ReserveSDRRepositoryRsp_safe
#print axioms Bmc.Proofs.EndToEnd.generated_GetSDRRsp_safe
#print axioms Bmc.Proofs.EndToEnd.generated_SDR_safe
#print axioms Bmc.Proofs.EndToEnd.generated_GetSensorReadingRsp_safe
#print axioms Bmc.Proofs.EndToEnd.generated_FullSensorRecord_safe
#print axioms Bmc.Proofs.EndToEnd.generated_GetPowerReadingRsp_safe
#print axioms Bmc.Proofs.EndToEnd.generated_GetDCMICapabilitiesInfoSupportedCapabilitiesRsp_safe
#print axioms Bmc.Proofs.EndToEnd.generated_GetDCMICapabilitiesInfoMandatoryPlatformAttrsRsp_safe
#print axioms Bmc.Proofs.EndToEnd.generated_GetDCMICapabilitiesInfoOptionalPlatformAttrsRsp_safe
#print axioms Bmc.Proofs.EndToEnd.generated_GetDCMICapabilitiesInfoManageabilityAccessAttrsRsp_safe
#print axioms Bmc.Proofs.EndToEnd.generated_OpenSessionRsp_safe
#print axioms Bmc.Proofs.EndToEnd.generated_RAKPMessage1_safe
#print axioms Bmc.Proofs.EndToEnd.generated_RAKPMessage2_safe
#print axioms Bmc.Proofs.EndToEnd.generated_RAKPMessage4_safe
#print axioms Bmc.Proofs.EndToEnd.generated_SessionSelector_safe
#print axioms Bmc.Proofs.EndToEnd.generated_V1Session_safe
#print axioms Bmc.Proofs.EndToEnd.generated_Message_safe
#print axioms Bmc.Proofs.EndToEnd.generated_Cap5_safe
#print axioms Bmc.Proofs.EndToEnd.generated_GetDCMISensorInfoRsp_safe
#print axioms Bmc.Proofs.EndToEnd.generated_AES128CBC_safe
#print axioms Bmc.Proofs.EndToEnd.generated_V2Session_safe
#print axioms Bmc.Proofs.EndToEnd.generated_parseCipherSuiteRecordData_safe
#print axioms Bmc.Proofs.C13.transport_source
#print axioms Bmc.Proofs.SourcePins.pinned_sources
#print axioms Bmc.Proofs.EndToEnd.modelResults_no_panic
#print axioms Bmc.Proofs.EndToEnd.generated_history_never_panics
