import Bmc.Proofs.C18
#print axioms Bmc.Proofs.C18.cnt_bump
#print axioms Bmc.Proofs.C18.loop_laws
#print axioms Bmc.Proofs.C18.command_laws
#print axioms Bmc.Proofs.C18.conservation
#print axioms Bmc.Proofs.C18.gauges_do_not_drift
#print axioms Bmc.Proofs.C18.wire_accounting
#print axioms Bmc.Proofs.C18.instrumentation_sites
