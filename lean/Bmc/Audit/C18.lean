import Bmc.Proofs.C18
import Bmc.Proofs.GenLoops.BuildAndSend
import Bmc.Proofs.GenLoops.BuildAndSendCommand
import Bmc.Proofs.EndToEnd.MetricsC18
#print axioms Bmc.Proofs.C18.cnt_bump
#print axioms Bmc.Proofs.C18.loop_laws
#print axioms Bmc.Proofs.C18.command_laws
#print axioms Bmc.Proofs.C18.conservation
#print axioms Bmc.Proofs.C18.gauges_do_not_drift
#print axioms Bmc.Proofs.C18.wire_accounting
#print axioms Bmc.Proofs.C18.instrumentation_sites
#print axioms Bmc.Proofs.GenLoops.V2Session_buildAndSend_gen_eq
#print axioms Bmc.Proofs.GenLoops.V2Session_buildAndSend_events_eq
#print axioms Bmc.Proofs.GenLoops.V2Session_buildAndSend_expired_context
#print axioms Bmc.Proofs.GenLoops.V2Session_SendCommand_gen_eq
#print axioms Bmc.Proofs.GenLoops.V2Session_SendCommand_events_eq
#print axioms Bmc.Proofs.GenLoops.V2Sessionless_buildAndSendCommand_gen_eq
#print axioms Bmc.Proofs.GenLoops.V2Sessionless_buildAndSendCommand_events_eq
#print axioms Bmc.Proofs.GenLoops.V2Sessionless_SendCommand_gen_eq
#print axioms Bmc.Proofs.GenLoops.V2Sessionless_SendCommand_events_eq
#print axioms Bmc.Proofs.EndToEnd.generated_session_SendCommand_accounting
#print axioms Bmc.Proofs.EndToEnd.generated_sessionless_SendCommand_accounting
#print axioms Bmc.Proofs.EndToEnd.generatedRun_metrics
#print axioms Bmc.Proofs.EndToEnd.generated_history_conservation
