import Bmc.Proofs.C12
import Bmc.Proofs.GenDec.CipherSuiteRecords
import Bmc.Proofs.GenOrch.RetrieveSupportedCipherSuites
import Bmc.Proofs.GenHs.Model
#print axioms Bmc.Proofs.C12.choose_first_supported
#print axioms Bmc.Proofs.C12.none_supported
#print axioms Bmc.Proofs.C12.singleton_no_discovery
#print axioms Bmc.Proofs.C12.defaults
#print axioms Bmc.Proofs.C12.defaults_fact
#print axioms Bmc.Proofs.C12.no_downgrade
#print axioms Bmc.Proofs.C12.discovery_then_choice
#print axioms Bmc.Proofs.C12.first_advertised_preference
#print axioms Bmc.Proofs.C12.discovery_failure_is_error
#print axioms Bmc.Proofs.GenDec.parseCipherSuiteRecordData_gen_eq
#print axioms Bmc.Proofs.GenDec.parseCipherSuiteRecordData_fuel
#print axioms Bmc.Proofs.GenOrch.RetrieveSupportedCipherSuites_gen_eq
#print axioms Bmc.Proofs.GenOrch.RetrieveSupportedCipherSuites_fuel
#print axioms Bmc.Proofs.GenOrch.RetrieveSupportedCipherSuites_fuel_any
#print axioms Bmc.Proofs.GenHs.stepOpen_is_checks
#print axioms Bmc.Proofs.GenHs.stepRakp2_is_checks
#print axioms Bmc.Proofs.GenHs.stepRakp4_is_checks
#print axioms Bmc.Proofs.GenHs.newSession_is_hsRun
