import Bmc.Proofs.C12
import Bmc.Proofs.GenDec.CipherSuiteRecords
import Bmc.Proofs.GenOrch.DetermineCipherSuite
import Bmc.Proofs.GenOrch.RetrieveSupportedCipherSuites
import Bmc.Proofs.GenHs.TranslatedOk
import Bmc.Proofs.GenHs.Model
import Bmc.Proofs.GenHs.Wrappers
import Bmc.Proofs.GenHs.NewV2Session
import Bmc.Proofs.GenHs.Examples
import Bmc.Proofs.EndToEnd.HandshakeC02
import Bmc.Proofs.EndToEnd.DiscoveryC12
#print axioms Bmc.Proofs.C12.choose_first_supported
#print axioms Bmc.Proofs.C12.none_supported
#print axioms Bmc.Proofs.C12.singleton_no_discovery
#print axioms Bmc.Proofs.C12.defaults
#print axioms Bmc.Proofs.C12.defaults_fact
#print axioms Bmc.Proofs.C12.no_downgrade
#print axioms Bmc.Proofs.C12.discovery_then_choice
#print axioms Bmc.Proofs.C12.first_advertised_preference
#print axioms Bmc.Proofs.C12.discovery_failure_is_error
#print axioms Bmc.Proofs.GenDec.parseCipherSuiteRecordData_gen_eq
#print axioms Bmc.Proofs.GenDec.parseCipherSuiteRecordData_fuel
#print axioms Bmc.Proofs.GenOrch.defaultCipherSuites_gen_eq
#print axioms Bmc.Proofs.GenOrch.determineCipherSuite_gen_eq
#print axioms Bmc.Proofs.GenOrch.determineCipherSuite_fuel_any
#print axioms Bmc.Proofs.GenOrch.RetrieveSupportedCipherSuites_gen_eq
#print axioms Bmc.Proofs.GenOrch.RetrieveSupportedCipherSuites_fuel
#print axioms Bmc.Proofs.GenOrch.RetrieveSupportedCipherSuites_fuel_any
#print axioms Bmc.Proofs.GenHs.translated_ok
#print axioms Bmc.Proofs.GenHs.gaveUp_none
#print axioms Bmc.Proofs.GenHs.stepOpen_is_checks
#print axioms Bmc.Proofs.GenHs.stepRakp2_is_checks
#print axioms Bmc.Proofs.GenHs.stepRakp4_is_checks
#print axioms Bmc.Proofs.GenHs.newSession_is_hsRun
#print axioms Bmc.Proofs.GenHs.openSession_gen_eq
#print axioms Bmc.Proofs.GenHs.rakpMessage1_gen_eq
#print axioms Bmc.Proofs.GenHs.rakpMessage3_gen_eq
#print axioms Bmc.Proofs.GenHs.newV2Session_gen_eq
#print axioms Bmc.Proofs.GenHs.newV2Session_no_suite
#print axioms Bmc.Proofs.GenHs.newV2Session_total
#print axioms Bmc.Proofs.GenHs.keys_view_ignores_authCode
#print axioms Bmc.Proofs.GenHs.toy_session
#print axioms Bmc.Proofs.GenHs.toy_wrong_code
#print axioms Bmc.Proofs.GenHs.toy_wrong_icv
#print axioms Bmc.Proofs.GenHs.toy_gen_eq
#print axioms Bmc.Proofs.EndToEnd.hsRun_sound
#print axioms Bmc.Proofs.EndToEnd.viewAnswers_honest
#print axioms Bmc.Proofs.EndToEnd.hsRun_incorrect_password
#print axioms Bmc.Proofs.EndToEnd.generated_newV2Session_sound
#print axioms Bmc.Proofs.EndToEnd.generated_newV2Session_incorrect_password
#print axioms Bmc.Proofs.EndToEnd.retrieveLoop_congr
#print axioms Bmc.Proofs.EndToEnd.determineFull_congr
#print axioms Bmc.Proofs.EndToEnd.generated_determineCipherSuite_first_preference
#print axioms Bmc.Proofs.EndToEnd.generated_determineCipherSuite_single
#print axioms Bmc.Proofs.EndToEnd.generated_determineCipherSuite_defaults
