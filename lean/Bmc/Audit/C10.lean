import Bmc.Proofs.C10
import Bmc.Proofs.GenLoops.BuildAndSend
import Bmc.Proofs.GenLoops.BuildAndSendCommand
import Bmc.Proofs.GenLoops.BuildAndSendPayload
import Bmc.Proofs.EndToEnd.SessionC03
import Bmc.Proofs.EndToEnd.SessionlessC10
import Bmc.Proofs.EndToEnd.SessionC10
import Bmc.Proofs.EndToEnd.HistoryC10
import Bmc.Proofs.EndToEnd.SessionlessHistory
#print axioms Bmc.Proofs.C10.session_send_refines
#print axioms Bmc.Proofs.C10.lost_in_session_stops
#print axioms Bmc.Proofs.C10.final_is_not_temporary
#print axioms Bmc.Proofs.C10.sessionless_send_refines
#print axioms Bmc.Proofs.C10.lost_sessionless_retries
#print axioms Bmc.Proofs.C10.unserialisable_sends_nothing
#print axioms Bmc.Proofs.C10.busy_then_final
#print axioms Bmc.Proofs.C10.handshake_payload_retries
#print axioms Bmc.Proofs.C10.sessionless_retries_until_final
#print axioms Bmc.Proofs.GenLoops.V2Session_buildAndSend_gen_eq
#print axioms Bmc.Proofs.GenLoops.V2Session_buildAndSend_events_eq
#print axioms Bmc.Proofs.GenLoops.V2Session_buildAndSend_expired_context
#print axioms Bmc.Proofs.GenLoops.V2Session_SendCommand_gen_eq
#print axioms Bmc.Proofs.GenLoops.V2Session_SendCommand_events_eq
#print axioms Bmc.Proofs.GenLoops.V2Sessionless_buildAndSendCommand_gen_eq
#print axioms Bmc.Proofs.GenLoops.V2Sessionless_buildAndSendCommand_events_eq
#print axioms Bmc.Proofs.GenLoops.V2Sessionless_SendCommand_gen_eq
#print axioms Bmc.Proofs.GenLoops.V2Sessionless_SendCommand_events_eq
#print axioms Bmc.Proofs.GenLoops.V2Sessionless_buildAndSendPayload_gen_eq
#print axioms Bmc.Proofs.GenLoops.V2Sessionless_buildAndSendPayload_serialize_error
#print axioms Bmc.Proofs.EndToEnd.generated_loop_datagrams
#print axioms Bmc.Proofs.EndToEnd.generated_sessionless_SendCommand_retries
#print axioms Bmc.Proofs.EndToEnd.generated_sessionless_SendCommand_until_final
#print axioms Bmc.Proofs.EndToEnd.generated_SendCommand_busy_then_final
#print axioms Bmc.Proofs.EndToEnd.runHistory_is_the_contract
#print axioms Bmc.Proofs.EndToEnd.generated_history_is_the_contract
#print axioms Bmc.Proofs.EndToEnd.contract_count_busy_then_final
#print axioms Bmc.Proofs.EndToEnd.generated_sessionless_history
#print axioms Bmc.Proofs.EndToEnd.generated_sessionless_history_ignores_connection
#print axioms Bmc.Proofs.EndToEnd.generated_sessionless_history_null
#print axioms Bmc.Proofs.EndToEnd.generated_sessionless_history_results
