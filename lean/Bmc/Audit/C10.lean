import Bmc.Proofs.C10
#print axioms Bmc.Proofs.C10.session_send_refines
#print axioms Bmc.Proofs.C10.lost_in_session_stops
#print axioms Bmc.Proofs.C10.final_is_not_temporary
#print axioms Bmc.Proofs.C10.sessionless_send_refines
#print axioms Bmc.Proofs.C10.lost_sessionless_retries
#print axioms Bmc.Proofs.C10.unserialisable_sends_nothing
#print axioms Bmc.Proofs.C10.busy_then_final
#print axioms Bmc.Proofs.C10.handshake_payload_retries
#print axioms Bmc.Proofs.C10.sessionless_retries_until_final
