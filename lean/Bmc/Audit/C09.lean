import Bmc.Proofs.C09
#print axioms Bmc.Proofs.C09.command_seqs
#print axioms Bmc.Proofs.C09.serialise_failure_consumes_nothing
#print axioms Bmc.Proofs.C09.history_seqs
#print axioms Bmc.Proofs.C09.history_strictly_increasing
#print axioms Bmc.Proofs.C09.history_no_reuse
#print axioms Bmc.Proofs.C09.sessionless_null
#print axioms Bmc.Proofs.C09.sessionless_all_null
#print axioms Bmc.Proofs.C09.sequence_counter_writers
