import Bmc.Proofs.C09
import Bmc.Proofs.GenLoops.BuildAndSend
import Bmc.Proofs.GenLoops.BuildAndSendCommand
import Bmc.Proofs.EndToEnd.SessionC09
import Bmc.Proofs.EndToEnd.SessionlessC09
import Bmc.Proofs.EndToEnd.HistoryC09
import Bmc.Proofs.EndToEnd.SessionlessHistory
import Bmc.Proofs.EndToEnd.WholeC09
import Bmc.Proofs.EndToEnd.HistoryC09Fail
#print axioms Bmc.Proofs.C09.command_seqs
#print axioms Bmc.Proofs.C09.serialise_failure_consumes_nothing
#print axioms Bmc.Proofs.C09.history_seqs
#print axioms Bmc.Proofs.C09.history_strictly_increasing
#print axioms Bmc.Proofs.C09.history_no_reuse
#print axioms Bmc.Proofs.C09.sessionless_null
#print axioms Bmc.Proofs.C09.sessionless_all_null
#print axioms Bmc.Proofs.C09.sequence_counter_writers
#print axioms Bmc.Proofs.GenLoops.V2Session_buildAndSend_gen_eq
#print axioms Bmc.Proofs.GenLoops.V2Session_buildAndSend_events_eq
#print axioms Bmc.Proofs.GenLoops.V2Session_buildAndSend_expired_context
#print axioms Bmc.Proofs.GenLoops.V2Session_SendCommand_gen_eq
#print axioms Bmc.Proofs.GenLoops.V2Session_SendCommand_events_eq
#print axioms Bmc.Proofs.GenLoops.V2Sessionless_buildAndSendCommand_gen_eq
#print axioms Bmc.Proofs.GenLoops.V2Sessionless_buildAndSendCommand_events_eq
#print axioms Bmc.Proofs.GenLoops.V2Sessionless_SendCommand_gen_eq
#print axioms Bmc.Proofs.GenLoops.V2Sessionless_SendCommand_events_eq
#print axioms Bmc.Proofs.EndToEnd.generated_loop_sequence_numbers
#print axioms Bmc.Proofs.EndToEnd.generated_sessionless_loop_null_session
#print axioms Bmc.Proofs.EndToEnd.generatedHistory_eq
#print axioms Bmc.Proofs.EndToEnd.generated_history_sequence_numbers
#print axioms Bmc.Proofs.EndToEnd.generated_history_no_reuse
#print axioms Bmc.Proofs.EndToEnd.generated_sessionless_history
#print axioms Bmc.Proofs.EndToEnd.generated_sessionless_history_ignores_connection
#print axioms Bmc.Proofs.EndToEnd.generated_sessionless_history_null
#print axioms Bmc.Proofs.EndToEnd.generated_sessionless_history_results
#print axioms Bmc.Proofs.EndToEnd.generated_session_then_history_sequence_numbers
#print axioms Bmc.Proofs.EndToEnd.sendLoop_keys_any
#print axioms Bmc.Proofs.EndToEnd.generatedHistory_eq_any
#print axioms Bmc.Proofs.EndToEnd.generated_history_sequence_numbers_any
#print axioms Bmc.Proofs.EndToEnd.generated_history_no_reuse_any
