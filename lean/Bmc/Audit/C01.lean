import Bmc.Proofs.C01
#print axioms Bmc.Proofs.C01.keys_are_spec
#print axioms Bmc.Proofs.C01.session_ids
#print axioms Bmc.Proofs.C01.unsupported_refused
#print axioms Bmc.Proofs.C01.commands_sealed_with_session_keys
#print axioms Bmc.Proofs.C01.handshake_succeeds
#print axioms Bmc.Proofs.C01.keys_agree
#print axioms Bmc.Proofs.C01.transmits_spec_datagrams
#print axioms Bmc.Proofs.C01.hfit_of_lawful
#print axioms Bmc.Proofs.C01.response_returned
#print axioms Bmc.Proofs.C01.responseMsg_wf
#print axioms Bmc.Proofs.C01.handshake_succeeds_despite_loss
#print axioms Bmc.Proofs.C01.lost_and_truncated_are_skipped
#print axioms Bmc.Proofs.C01.command_answered
#print axioms Bmc.Proofs.C01.all_commands_answered
#print axioms Bmc.Proofs.C01.session_then_commands
