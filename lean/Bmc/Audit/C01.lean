import Bmc.Proofs.C01
import Bmc.Proofs.GenKeys.TranslatedOk
import Bmc.Proofs.GenKeys.SIK
import Bmc.Proofs.GenKeys.Rakp2
import Bmc.Proofs.GenKeys.Rakp3
import Bmc.Proofs.GenKeys.ICV
import Bmc.Proofs.GenKeys.KConstant
import Bmc.Proofs.GenKeys.Tables
import Bmc.Proofs.GenKeys.Integrity
import Bmc.Proofs.GenKeys.Cipher
import Bmc.Proofs.GenHs.TranslatedOk
import Bmc.Proofs.GenHs.Model
import Bmc.Proofs.GenHs.Wrappers
import Bmc.Proofs.GenHs.NewV2Session
import Bmc.Proofs.GenHs.Examples
import Bmc.Proofs.EndToEnd.HandshakeC01
import Bmc.Proofs.EndToEnd.SessionC01
import Bmc.Proofs.EndToEnd.WholeC01
#print axioms Bmc.Proofs.C01.keys_are_spec
#print axioms Bmc.Proofs.C01.session_ids
#print axioms Bmc.Proofs.C01.unsupported_refused
#print axioms Bmc.Proofs.C01.commands_sealed_with_session_keys
#print axioms Bmc.Proofs.C01.handshake_succeeds
#print axioms Bmc.Proofs.C01.keys_agree
#print axioms Bmc.Proofs.C01.transmits_spec_datagrams
#print axioms Bmc.Proofs.C01.hfit_of_lawful
#print axioms Bmc.Proofs.C01.response_returned
#print axioms Bmc.Proofs.C01.responseMsg_wf
#print axioms Bmc.Proofs.C01.handshake_succeeds_despite_loss
#print axioms Bmc.Proofs.C01.lost_and_truncated_are_skipped
#print axioms Bmc.Proofs.C01.command_answered
#print axioms Bmc.Proofs.C01.all_commands_answered
#print axioms Bmc.Proofs.C01.session_then_commands
#print axioms Bmc.Proofs.GenKeys.translated_ok
#print axioms Bmc.Proofs.GenKeys.hashOf_ok
#print axioms Bmc.Proofs.GenKeys.calculateSIK_input_eq
#print axioms Bmc.Proofs.GenKeys.calculateRAKPMessage2AuthCode_input_eq
#print axioms Bmc.Proofs.GenKeys.calculateRAKPMessage3AuthCode_input_eq
#print axioms Bmc.Proofs.GenKeys.calculateRAKPMessage4ICV_input_eq
#print axioms Bmc.Proofs.GenKeys.calculateRAKPMessage4ICV_mac
#print axioms Bmc.Proofs.GenKeys.K_constant_eq
#print axioms Bmc.Proofs.GenKeys.K_input_eq
#print axioms Bmc.Proofs.GenKeys.session_k1_k2
#print axioms Bmc.Proofs.GenKeys.spec_k_is_K_input
#print axioms Bmc.Proofs.GenKeys.authHash_is_table
#print axioms Bmc.Proofs.GenKeys.icvLen_is_table
#print axioms Bmc.Proofs.GenKeys.constructors_are_hmac
#print axioms Bmc.Proofs.GenKeys.truncatedHash_Size_eq
#print axioms Bmc.Proofs.GenKeys.algorithmHasher_is_integMac
#print axioms Bmc.Proofs.GenKeys.algorithmCipher_key
#print axioms Bmc.Proofs.GenKeys.algorithmCipher_key_is_take16
#print axioms Bmc.Proofs.GenHs.translated_ok
#print axioms Bmc.Proofs.GenHs.gaveUp_none
#print axioms Bmc.Proofs.GenHs.stepOpen_is_checks
#print axioms Bmc.Proofs.GenHs.stepRakp2_is_checks
#print axioms Bmc.Proofs.GenHs.stepRakp4_is_checks
#print axioms Bmc.Proofs.GenHs.newSession_is_hsRun
#print axioms Bmc.Proofs.GenHs.openSession_gen_eq
#print axioms Bmc.Proofs.GenHs.rakpMessage1_gen_eq
#print axioms Bmc.Proofs.GenHs.rakpMessage3_gen_eq
#print axioms Bmc.Proofs.GenHs.newV2Session_gen_eq
#print axioms Bmc.Proofs.GenHs.newV2Session_no_suite
#print axioms Bmc.Proofs.GenHs.newV2Session_total
#print axioms Bmc.Proofs.GenHs.keys_view_ignores_authCode
#print axioms Bmc.Proofs.GenHs.toy_session
#print axioms Bmc.Proofs.GenHs.toy_wrong_code
#print axioms Bmc.Proofs.GenHs.toy_wrong_icv
#print axioms Bmc.Proofs.GenHs.toy_gen_eq
#print axioms Bmc.Proofs.EndToEnd.rakp2Code_fields
#print axioms Bmc.Proofs.EndToEnd.rakp3Code_fields
#print axioms Bmc.Proofs.EndToEnd.sikOf_fields
#print axioms Bmc.Proofs.EndToEnd.icvOf_fields
#print axioms Bmc.Proofs.EndToEnd.hsRun_live
#print axioms Bmc.Proofs.EndToEnd.hsRun_against_spec_bmc
#print axioms Bmc.Proofs.EndToEnd.generated_newV2Session_live
#print axioms Bmc.Proofs.EndToEnd.generated_newV2Session_against_spec_bmc
#print axioms Bmc.Proofs.EndToEnd.generated_SendCommand_answered
#print axioms Bmc.Proofs.EndToEnd.generated_all_commands_answered
#print axioms Bmc.Proofs.EndToEnd.keysOfSession_sessionOf
#print axioms Bmc.Proofs.EndToEnd.generated_session_then_commands
