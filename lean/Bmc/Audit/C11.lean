import Bmc.Proofs.C11
import Bmc.Proofs.C11.Match
import Bmc.Proofs.GenLoops.BuildAndSend
import Bmc.Proofs.GenLoops.BuildAndSendCommand
import Bmc.Proofs.EndToEnd.SessionC11
import Bmc.Proofs.EndToEnd.SessionlessC11
import Bmc.Proofs.EndToEnd.HistoryC11
import Bmc.Proofs.EndToEnd.WholeC04
import Bmc.Proofs.EndToEnd.SessionlessHistory
#print axioms Bmc.Proofs.C11.session_result_matches_request
#print axioms Bmc.Proofs.C11.stray_is_retry
#print axioms Bmc.Proofs.C11.sessionless_result_matches_request
#print axioms Bmc.Proofs.C11.strays_are_skipped
#print axioms Bmc.Proofs.C11.isResponseTo_gen_eq
#print axioms Bmc.Proofs.C11.acceptable_uses_isResponseTo
#print axioms Bmc.Proofs.GenLoops.V2Session_buildAndSend_gen_eq
#print axioms Bmc.Proofs.GenLoops.V2Session_buildAndSend_events_eq
#print axioms Bmc.Proofs.GenLoops.V2Session_buildAndSend_expired_context
#print axioms Bmc.Proofs.GenLoops.V2Session_SendCommand_gen_eq
#print axioms Bmc.Proofs.GenLoops.V2Session_SendCommand_events_eq
#print axioms Bmc.Proofs.GenLoops.V2Sessionless_buildAndSendCommand_gen_eq
#print axioms Bmc.Proofs.GenLoops.V2Sessionless_buildAndSendCommand_events_eq
#print axioms Bmc.Proofs.GenLoops.V2Sessionless_SendCommand_gen_eq
#print axioms Bmc.Proofs.GenLoops.V2Sessionless_SendCommand_events_eq
#print axioms Bmc.Proofs.EndToEnd.generated_loop_result_matches_request
#print axioms Bmc.Proofs.EndToEnd.generated_sessionless_loop_result_matches_request
#print axioms Bmc.Proofs.EndToEnd.sendCommand_result_justified
#print axioms Bmc.Proofs.EndToEnd.generated_history_results
#print axioms Bmc.Proofs.EndToEnd.generated_session_then_history_results
#print axioms Bmc.Proofs.EndToEnd.integ_ne_zero_of_negotiated
#print axioms Bmc.Proofs.EndToEnd.generated_sessionless_history
#print axioms Bmc.Proofs.EndToEnd.generated_sessionless_history_ignores_connection
#print axioms Bmc.Proofs.EndToEnd.generated_sessionless_history_null
#print axioms Bmc.Proofs.EndToEnd.generated_sessionless_history_results
