import Bmc.Proofs.C11
import Bmc.Proofs.C11.Match
#print axioms Bmc.Proofs.C11.session_result_matches_request
#print axioms Bmc.Proofs.C11.stray_is_retry
#print axioms Bmc.Proofs.C11.sessionless_result_matches_request
#print axioms Bmc.Proofs.C11.strays_are_skipped
#print axioms Bmc.Proofs.C11.isResponseTo_gen_eq
#print axioms Bmc.Proofs.C11.acceptable_uses_isResponseTo
