import Bmc.Proofs.C11
#print axioms Bmc.Proofs.C11.session_result_matches_request
#print axioms Bmc.Proofs.C11.stray_is_retry
#print axioms Bmc.Proofs.C11.sessionless_result_matches_request
#print axioms Bmc.Proofs.C11.strays_are_skipped
