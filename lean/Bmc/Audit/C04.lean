import Bmc.Proofs.C04
import Bmc.Proofs.GenLoops.BuildAndSend
import Bmc.Proofs.GenDec.V2Session
import Bmc.Proofs.GenDec.AES128CBC
import Bmc.Proofs.GenDec.Message
import Bmc.Proofs.EndToEnd.SessionC04
import Bmc.Proofs.EndToEnd.HistoryC11
import Bmc.Proofs.EndToEnd.WholeC04
#print axioms Bmc.Proofs.C04.accept_sound
#print axioms Bmc.Proofs.C04.unauthenticated_or_foreign_is_retry
#print axioms Bmc.Proofs.C04.accepted_satisfies_mac
#print axioms Bmc.Proofs.C04.tampered_authcode_is_retry
#print axioms Bmc.Proofs.C04.rmcp_header_cannot_change_the_value
#print axioms Bmc.Proofs.C04.response_with_any_header
#print axioms Bmc.Proofs.GenLoops.V2Session_buildAndSend_gen_eq
#print axioms Bmc.Proofs.GenLoops.V2Session_buildAndSend_events_eq
#print axioms Bmc.Proofs.GenLoops.V2Session_buildAndSend_expired_context
#print axioms Bmc.Proofs.GenLoops.V2Session_SendCommand_gen_eq
#print axioms Bmc.Proofs.GenLoops.V2Session_SendCommand_events_eq
#print axioms Bmc.Proofs.GenDec.V2Session_gen_eq
#print axioms Bmc.Proofs.GenDec.AES128CBC_gen_eq
#print axioms Bmc.Proofs.GenDec.Message_gen_eq
#print axioms Bmc.Proofs.EndToEnd.generated_loop_accepts_only_authentic
#print axioms Bmc.Proofs.EndToEnd.sendCommand_result_justified
#print axioms Bmc.Proofs.EndToEnd.generated_history_results
#print axioms Bmc.Proofs.EndToEnd.generated_session_then_history_results
#print axioms Bmc.Proofs.EndToEnd.integ_ne_zero_of_negotiated
