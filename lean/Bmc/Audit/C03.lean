import Bmc.Proofs.C03
import Bmc.Proofs.GenLoops.BuildAndSend
import Bmc.Proofs.GenEnc.V2Session
import Bmc.Proofs.GenEnc.Message
import Bmc.Proofs.GenEnc.AES128CBC
import Bmc.Proofs.EndToEnd.SessionC03
import Bmc.Proofs.EndToEnd.HistoryC03
import Bmc.Proofs.EndToEnd.WholeC03
#print axioms Bmc.Proofs.C03.datagram_shape
#print axioms Bmc.Proofs.C03.integrity_pad
#print axioms Bmc.Proofs.C03.payload_decrypts
#print axioms Bmc.Proofs.C03.message_is_the_command
#print axioms Bmc.Proofs.C03.iv_is_own_draw
#print axioms Bmc.Proofs.C03.ith_datagram_uses_ith_draw
#print axioms Bmc.Proofs.C03.wrapper_opens
#print axioms Bmc.Proofs.GenLoops.V2Session_buildAndSend_gen_eq
#print axioms Bmc.Proofs.GenLoops.V2Session_buildAndSend_events_eq
#print axioms Bmc.Proofs.GenLoops.V2Session_buildAndSend_expired_context
#print axioms Bmc.Proofs.GenLoops.V2Session_SendCommand_gen_eq
#print axioms Bmc.Proofs.GenLoops.V2Session_SendCommand_events_eq
#print axioms Bmc.Proofs.GenEnc.V2Session_enc_eq
#print axioms Bmc.Proofs.GenEnc.Message_enc_eq
#print axioms Bmc.Proofs.GenEnc.AES128CBC_enc_param
#print axioms Bmc.Proofs.GenEnc.AES128CBC_enc_eq
#print axioms Bmc.Proofs.GenEnc.AES128CBC_enc_randErr
#print axioms Bmc.Proofs.EndToEnd.generated_loop_datagrams
#print axioms Bmc.Proofs.EndToEnd.history_datagrams
#print axioms Bmc.Proofs.EndToEnd.generated_history_datagrams
#print axioms Bmc.Proofs.EndToEnd.generated_history_packets_open
#print axioms Bmc.Proofs.EndToEnd.generated_session_then_history_opens
