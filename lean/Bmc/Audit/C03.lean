import Bmc.Proofs.C03
#print axioms Bmc.Proofs.C03.datagram_shape
#print axioms Bmc.Proofs.C03.integrity_pad
#print axioms Bmc.Proofs.C03.payload_decrypts
#print axioms Bmc.Proofs.C03.message_is_the_command
#print axioms Bmc.Proofs.C03.iv_is_own_draw
#print axioms Bmc.Proofs.C03.ith_datagram_uses_ith_draw
#print axioms Bmc.Proofs.C03.wrapper_opens
