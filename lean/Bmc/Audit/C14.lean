import Bmc.Proofs.C14
import Bmc.Proofs.GenOrch.TranslatedOk
import Bmc.Proofs.GenOrch.WalkSDRs
import Bmc.Proofs.GenOrch.RetrieveSDRRepository
import Bmc.Proofs.EndToEnd.WalkC14
import Bmc.Proofs.EndToEnd.AgainC14
#print axioms Bmc.Proofs.C14.walk_complete
#print axioms Bmc.Proofs.C14.retrieve_complete
#print axioms Bmc.Proofs.C14.result_exact
#print axioms Bmc.Proofs.C14.modified_discarded_getSDR
#print axioms Bmc.Proofs.C14.modified_discarded_walk
#print axioms Bmc.Proofs.C14.modified_discarded_timestamp
#print axioms Bmc.Proofs.C14.modified_discarded_repeat
#print axioms Bmc.Proofs.C14.snapshot
#print axioms Bmc.Proofs.C14.snapshot_run
#print axioms Bmc.Proofs.GenOrch.translated_ok
#print axioms Bmc.Proofs.GenOrch.gaveUp_none
#print axioms Bmc.Proofs.GenOrch.walkSDRs_gen_eq
#print axioms Bmc.Proofs.GenOrch.RetrieveSDRRepository_gen_eq
#print axioms Bmc.Proofs.EndToEnd.generated_walkSDRs_complete
#print axioms Bmc.Proofs.EndToEnd.generated_RetrieveSDRRepository_snapshot
#print axioms Bmc.Proofs.EndToEnd.generated_RetrieveSDRRepository_again
