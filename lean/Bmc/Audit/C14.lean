import Bmc.Proofs.C14
#print axioms Bmc.Proofs.C14.walk_complete
#print axioms Bmc.Proofs.C14.retrieve_complete
#print axioms Bmc.Proofs.C14.result_exact
#print axioms Bmc.Proofs.C14.modified_discarded_getSDR
#print axioms Bmc.Proofs.C14.modified_discarded_walk
#print axioms Bmc.Proofs.C14.modified_discarded_timestamp
#print axioms Bmc.Proofs.C14.modified_discarded_repeat
#print axioms Bmc.Proofs.C14.snapshot
#print axioms Bmc.Proofs.C14.snapshot_run
