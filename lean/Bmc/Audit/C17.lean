import Bmc.Proofs.C17.Basic
import Bmc.Proofs.C17.Core
import Bmc.Proofs.C17.Sess
import Bmc.Proofs.C17.Sdr
import Bmc.Proofs.C17.Setup
import Bmc.Proofs.C17.Dcmi
import Bmc.Proofs.GenOrch.TranslatedOk
import Bmc.Proofs.ApiWrappers
#print axioms Bmc.Proofs.C17.deviceID_reuse
#print axioms Bmc.Proofs.C17.chassis_reuse
#print axioms Bmc.Proofs.C17.message_reuse
#print axioms Bmc.Proofs.C17.v2_reuse
#print axioms Bmc.Proofs.C17.aes_reuse
#print axioms Bmc.Proofs.C17.session_history_independent
#print axioms Bmc.Proofs.C17.authCaps_reuse
#print axioms Bmc.Proofs.C17.cipherSuites_reuse
#print axioms Bmc.Proofs.C17.setPriv_reuse
#print axioms Bmc.Proofs.C17.guid_reuse
#print axioms Bmc.Proofs.C17.sessionInfo_reuse
#print axioms Bmc.Proofs.C17.sdrRepoInfo_reuse
#print axioms Bmc.Proofs.C17.reserveSDR_reuse
#print axioms Bmc.Proofs.C17.getSDR_reuse
#print axioms Bmc.Proofs.C17.sdrHeader_reuse
#print axioms Bmc.Proofs.C17.sensorReading_reuse
#print axioms Bmc.Proofs.C17.fullSensor_reuse
#print axioms Bmc.Proofs.C17.openSessionRsp_reuse
#print axioms Bmc.Proofs.C17.rakp1_reuse
#print axioms Bmc.Proofs.C17.rakp2_reuse
#print axioms Bmc.Proofs.C17.rakp4_reuse
#print axioms Bmc.Proofs.C17.selector_reuse
#print axioms Bmc.Proofs.C17.v1_reuse
#print axioms Bmc.Proofs.C17.dcmiCap1_reuse
#print axioms Bmc.Proofs.C17.dcmiCap2_reuse
#print axioms Bmc.Proofs.C17.dcmiCap3_reuse
#print axioms Bmc.Proofs.C17.dcmiCap4_reuse
#print axioms Bmc.Proofs.C17.dcmiCap5_reuse
#print axioms Bmc.Proofs.C17.powerReading_reuse
#print axioms Bmc.Proofs.C17.sensorInfo_reuse
#print axioms Bmc.Proofs.GenOrch.translated_ok
#print axioms Bmc.Proofs.GenOrch.gaveUp_none
#print axioms Bmc.Proofs.ApiWrappers.api_wrappers
#print axioms Bmc.Proofs.ApiWrappers.api_other_senders
#print axioms Bmc.Proofs.ApiWrappers.api_cmd_constructors
#print axioms Bmc.Proofs.ApiWrappers.validate_response
