import Bmc.Proofs.C17.Basic
import Bmc.Proofs.C17.Core
import Bmc.Proofs.C17.Sess
import Bmc.Proofs.C17.Sdr
import Bmc.Proofs.C17.Setup
import Bmc.Proofs.C17.Dcmi
import Bmc.Proofs.GenDec.TranslatedOk
import Bmc.Proofs.GenDec.ReserveSDRRepositoryRsp
import Bmc.Proofs.GenDec.GetSystemGUIDRsp
import Bmc.Proofs.GenDec.SetSessionPrivilegeLevelRsp
import Bmc.Proofs.GenDec.GetSDRRsp
import Bmc.Proofs.GenDec.SDR
import Bmc.Proofs.GenDec.GetSensorReadingRsp
import Bmc.Proofs.GenDec.GetChannelCipherSuitesRsp
import Bmc.Proofs.GenDec.GetChannelAuthenticationCapabilitiesRsp
import Bmc.Proofs.GenDec.GetSDRRepositoryInfoRsp
import Bmc.Proofs.GenDec.GetPowerReadingRsp
import Bmc.Proofs.GenDec.GetChassisStatusRsp
import Bmc.Proofs.GenDec.GetDeviceIDRsp
import Bmc.Proofs.GenDec.RAKPMessage4
import Bmc.Proofs.GenDec.RAKPMessage2
import Bmc.Proofs.GenDec.RAKPMessage1
import Bmc.Proofs.GenDec.V1Session
import Bmc.Proofs.GenDec.GetSessionInfoRsp
import Bmc.Proofs.GenDec.OpenSessionRsp
import Bmc.Proofs.GenDec.GetDCMICapabilitiesInfoManageabilityAccessAttrsRsp
import Bmc.Proofs.GenDec.GetDCMICapabilitiesInfoOptionalPlatformAttrsRsp
import Bmc.Proofs.GenDec.GetDCMICapabilitiesInfoSupportedCapabilitiesRsp
import Bmc.Proofs.GenDec.GetDCMICapabilitiesInfoMandatoryPlatformAttrsRsp
import Bmc.Proofs.GenDec.SessionSelector
import Bmc.Proofs.GenDec.Message
import Bmc.Proofs.GenDec.GetDCMICapabilitiesInfoEnhancedSystemPowerStatisticsAttrsRsp
import Bmc.Proofs.GenDec.GetDCMISensorInfoRsp
import Bmc.Proofs.GenDec.FullSensorRecord
import Bmc.Proofs.GenDec.V2Session
import Bmc.Proofs.GenDec.AES128CBC
import Bmc.Proofs.GenOrch.TranslatedOk
import Bmc.Proofs.GenOrch.WalkSDRs
import Bmc.Proofs.GenOrch.RetrieveSDRRepository
import Bmc.Proofs.ApiWrappers
import Bmc.Proofs.EndToEnd.DecodeC07
import Bmc.Proofs.EndToEnd.DecodeSetupC07
import Bmc.Proofs.EndToEnd.ReuseC17
import Bmc.Proofs.EndToEnd.ReceiverC17
import Bmc.Proofs.EndToEnd.HistoryC17
import Bmc.Proofs.EndToEnd.SessionlessHistory
#print axioms Bmc.Proofs.C17.deviceID_reuse
#print axioms Bmc.Proofs.C17.chassis_reuse
#print axioms Bmc.Proofs.C17.message_reuse
#print axioms Bmc.Proofs.C17.v2_reuse
#print axioms Bmc.Proofs.C17.aes_reuse
#print axioms Bmc.Proofs.C17.session_history_independent
#print axioms Bmc.Proofs.C17.authCaps_reuse
#print axioms Bmc.Proofs.C17.cipherSuites_reuse
#print axioms Bmc.Proofs.C17.setPriv_reuse
#print axioms Bmc.Proofs.C17.guid_reuse
#print axioms Bmc.Proofs.C17.sessionInfo_reuse
#print axioms Bmc.Proofs.C17.sdrRepoInfo_reuse
#print axioms Bmc.Proofs.C17.reserveSDR_reuse
#print axioms Bmc.Proofs.C17.getSDR_reuse
#print axioms Bmc.Proofs.C17.sdrHeader_reuse
#print axioms Bmc.Proofs.C17.sensorReading_reuse
#print axioms Bmc.Proofs.C17.fullSensor_reuse
#print axioms Bmc.Proofs.C17.openSessionRsp_reuse
#print axioms Bmc.Proofs.C17.rakp1_reuse
#print axioms Bmc.Proofs.C17.rakp2_reuse
#print axioms Bmc.Proofs.C17.rakp4_reuse
#print axioms Bmc.Proofs.C17.selector_reuse
#print axioms Bmc.Proofs.C17.v1_reuse
#print axioms Bmc.Proofs.C17.dcmiCap1_reuse
#print axioms Bmc.Proofs.C17.dcmiCap2_reuse
#print axioms Bmc.Proofs.C17.dcmiCap3_reuse
#print axioms Bmc.Proofs.C17.dcmiCap4_reuse
#print axioms Bmc.Proofs.C17.dcmiCap5_reuse
#print axioms Bmc.Proofs.C17.powerReading_reuse
#print axioms Bmc.Proofs.C17.sensorInfo_reuse
#print axioms Bmc.Proofs.GenDec.translated_ok
#print axioms Bmc.Proofs.GenDec.ReserveSDRRepositoryRsp_gen_eq
#print axioms Bmc.Proofs.GenDec.GetSystemGUIDRsp_gen_eq
#print axioms Bmc.Proofs.GenDec.SetSessionPrivilegeLevelRsp_gen_eq
#print axioms Bmc.Proofs.GenDec.GetSDRRsp_gen_eq
#print axioms Bmc.Proofs.GenDec.SDR_gen_eq
#print axioms Bmc.Proofs.GenDec.GetSensorReadingRsp_gen_eq
#print axioms Bmc.Proofs.GenDec.GetChannelCipherSuitesRsp_gen_eq
#print axioms Bmc.Proofs.GenDec.GetChannelAuthenticationCapabilitiesRsp_gen_eq
#print axioms Bmc.Proofs.GenDec.GetSDRRepositoryInfoRsp_gen_eq
#print axioms Bmc.Proofs.GenDec.GetPowerReadingRsp_gen_eq
#print axioms Bmc.Proofs.GenDec.GetChassisStatusRsp_gen_eq
#print axioms Bmc.Proofs.GenDec.GetDeviceIDRsp_gen_eq
#print axioms Bmc.Proofs.GenDec.RAKPMessage4_gen_eq
#print axioms Bmc.Proofs.GenDec.RAKPMessage2_gen_eq
#print axioms Bmc.Proofs.GenDec.RAKPMessage1_gen_eq
#print axioms Bmc.Proofs.GenDec.V1Session_gen_eq
#print axioms Bmc.Proofs.GenDec.GetSessionInfoRsp_gen_eq
#print axioms Bmc.Proofs.GenDec.OpenSessionRsp_gen_eq
#print axioms Bmc.Proofs.GenDec.GetDCMICapabilitiesInfoManageabilityAccessAttrsRsp_gen_eq
#print axioms Bmc.Proofs.GenDec.GetDCMICapabilitiesInfoOptionalPlatformAttrsRsp_gen_eq
#print axioms Bmc.Proofs.GenDec.GetDCMICapabilitiesInfoSupportedCapabilitiesRsp_gen_eq
#print axioms Bmc.Proofs.GenDec.GetDCMICapabilitiesInfoMandatoryPlatformAttrsRsp_gen_eq
#print axioms Bmc.Proofs.GenDec.SessionSelector_gen_eq
#print axioms Bmc.Proofs.GenDec.Message_gen_eq
#print axioms Bmc.Proofs.GenDec.GetDCMICapabilitiesInfoEnhancedSystemPowerStatisticsAttrsRsp_gen_eq
#print axioms Bmc.Proofs.GenDec.GetDCMISensorInfoRsp_gen_eq
#print axioms Bmc.Proofs.GenDec.FullSensorRecord_gen_eq
#print axioms Bmc.Proofs.GenDec.V2Session_gen_eq
#print axioms Bmc.Proofs.GenDec.AES128CBC_gen_eq
#print axioms Bmc.Proofs.GenOrch.translated_ok
#print axioms Bmc.Proofs.GenOrch.gaveUp_none
#print axioms Bmc.Proofs.GenOrch.walkSDRs_gen_eq
#print axioms Bmc.Proofs.GenOrch.RetrieveSDRRepository_gen_eq
#print axioms Bmc.Proofs.ApiWrappers.api_wrappers
#print axioms Bmc.Proofs.ApiWrappers.api_other_senders
#print axioms Bmc.Proofs.ApiWrappers.api_cmd_constructors
#print axioms Bmc.Proofs.ApiWrappers.validate_response
#print axioms Bmc.Proofs.EndToEnd.generated_GetDeviceIDRsp_decodes
#print axioms Bmc.Proofs.EndToEnd.generated_AuthCapsRsp_decodes
#print axioms Bmc.Proofs.EndToEnd.generated_CipherSuitesRsp_decodes
#print axioms Bmc.Proofs.EndToEnd.generated_SetPrivRsp_decodes
#print axioms Bmc.Proofs.EndToEnd.generated_GUIDRsp_decodes
#print axioms Bmc.Proofs.EndToEnd.generated_SessionInfoRsp_decodes
#print axioms Bmc.Proofs.EndToEnd.generated_ChassisStatusRsp_decodes
#print axioms Bmc.Proofs.EndToEnd.generated_SDRRepoInfoRsp_decodes
#print axioms Bmc.Proofs.EndToEnd.generated_ReserveRsp_decodes
#print axioms Bmc.Proofs.EndToEnd.generated_GetSDRRsp_decodes
#print axioms Bmc.Proofs.EndToEnd.generated_FullSensorRecord_decodes
#print axioms Bmc.Proofs.EndToEnd.generated_PowerReadingRsp_decodes
#print axioms Bmc.Proofs.EndToEnd.generated_SDRHeader_decodes
#print axioms Bmc.Proofs.EndToEnd.generated_SensorReadingRsp_decodes
#print axioms Bmc.Proofs.EndToEnd.generated_SensorInfoRsp_decodes
#print axioms Bmc.Proofs.EndToEnd.generated_Cap1_decodes
#print axioms Bmc.Proofs.EndToEnd.generated_Cap2_decodes
#print axioms Bmc.Proofs.EndToEnd.generated_Cap3_decodes
#print axioms Bmc.Proofs.EndToEnd.generated_Cap4_decodes
#print axioms Bmc.Proofs.EndToEnd.generated_Cap5_decodes
#print axioms Bmc.Proofs.EndToEnd.generated_OpenSessionRsp_decodes
#print axioms Bmc.Proofs.EndToEnd.generated_RAKPMessage1_decodes
#print axioms Bmc.Proofs.EndToEnd.generated_RAKPMessage2_decodes
#print axioms Bmc.Proofs.EndToEnd.generated_RAKPMessage4_decodes
#print axioms Bmc.Proofs.EndToEnd.generated_SessionSelector_decodes
#print axioms Bmc.Proofs.EndToEnd.generated_V1Session_decodes
#print axioms Bmc.Proofs.EndToEnd.generated_session_SendCommand_ignores_history
#print axioms Bmc.Proofs.EndToEnd.generated_sessionless_SendCommand_ignores_history
#print axioms Bmc.Proofs.EndToEnd.generated_GetDeviceIDRsp_ignores_receiver
#print axioms Bmc.Proofs.EndToEnd.generated_GetChassisStatusRsp_ignores_receiver
#print axioms Bmc.Proofs.EndToEnd.generated_GetChannelAuthenticationCapabilitiesRsp_ignores_receiver
#print axioms Bmc.Proofs.EndToEnd.generated_GetChannelCipherSuitesRsp_ignores_receiver
#print axioms Bmc.Proofs.EndToEnd.generated_SetSessionPrivilegeLevelRsp_ignores_receiver
#print axioms Bmc.Proofs.EndToEnd.generated_GetSystemGUIDRsp_ignores_receiver
#print axioms Bmc.Proofs.EndToEnd.generated_GetSessionInfoRsp_ignores_receiver
#print axioms Bmc.Proofs.EndToEnd.generated_GetSDRRepositoryInfoRsp_ignores_receiver
#print axioms Bmc.Proofs.EndToEnd.generated_ReserveSDRRepositoryRsp_ignores_receiver
#print axioms Bmc.Proofs.EndToEnd.generated_GetSDRRsp_ignores_receiver
#print axioms Bmc.Proofs.EndToEnd.generated_SDR_ignores_receiver
#print axioms Bmc.Proofs.EndToEnd.generated_GetSensorReadingRsp_ignores_receiver
#print axioms Bmc.Proofs.EndToEnd.generated_FullSensorRecord_ignores_receiver
#print axioms Bmc.Proofs.EndToEnd.generated_GetPowerReadingRsp_ignores_receiver
#print axioms Bmc.Proofs.EndToEnd.generated_GetDCMICapabilitiesInfoSupportedCapabilitiesRsp_ignores_receiver
#print axioms Bmc.Proofs.EndToEnd.generated_GetDCMICapabilitiesInfoMandatoryPlatformAttrsRsp_ignores_receiver
#print axioms Bmc.Proofs.EndToEnd.generated_GetDCMICapabilitiesInfoOptionalPlatformAttrsRsp_ignores_receiver
#print axioms Bmc.Proofs.EndToEnd.generated_GetDCMICapabilitiesInfoManageabilityAccessAttrsRsp_ignores_receiver
#print axioms Bmc.Proofs.EndToEnd.generated_OpenSessionRsp_ignores_receiver
#print axioms Bmc.Proofs.EndToEnd.generated_RAKPMessage1_ignores_receiver
#print axioms Bmc.Proofs.EndToEnd.generated_RAKPMessage2_ignores_receiver
#print axioms Bmc.Proofs.EndToEnd.generated_RAKPMessage4_ignores_receiver
#print axioms Bmc.Proofs.EndToEnd.generated_SessionSelector_ignores_receiver
#print axioms Bmc.Proofs.EndToEnd.generated_V1Session_ignores_receiver
#print axioms Bmc.Proofs.EndToEnd.generated_Message_ignores_receiver
#print axioms Bmc.Proofs.EndToEnd.generatedResults_eq
#print axioms Bmc.Proofs.EndToEnd.generated_history_ignores_what_the_connection_holds
#print axioms Bmc.Proofs.EndToEnd.generated_sessionless_history
#print axioms Bmc.Proofs.EndToEnd.generated_sessionless_history_ignores_connection
#print axioms Bmc.Proofs.EndToEnd.generated_sessionless_history_null
#print axioms Bmc.Proofs.EndToEnd.generated_sessionless_history_results
