import Bmc.Proofs.C06
import Bmc.Proofs.ApiWrappers
import Bmc.Proofs.GenEnc.TranslatedOk
import Bmc.Proofs.GenEnc.GetSensorReadingReq
import Bmc.Proofs.GenEnc.GetDCMICapabilitiesInfoReq
import Bmc.Proofs.GenEnc.GetDCMISensorInfoReq
import Bmc.Proofs.GenEnc.ChassisControlReq
import Bmc.Proofs.GenEnc.CloseSessionReq
import Bmc.Proofs.GenEnc.GetChannelAuthenticationCapabilitiesReq
import Bmc.Proofs.GenEnc.GetChannelCipherSuitesReq
import Bmc.Proofs.GenEnc.GetSDRReq
import Bmc.Proofs.GenEnc.GetSessionInfoReq
import Bmc.Proofs.GenEnc.SetSessionPrivilegeLevelReq
import Bmc.Proofs.GenEnc.OpenSessionReq
import Bmc.Proofs.GenEnc.RAKPMessage3
import Bmc.Proofs.GenEnc.RAKPMessage1
import Bmc.Proofs.GenEnc.V1Session
import Bmc.Proofs.GenEnc.Message
import Bmc.Proofs.GenEnc.GetPowerReadingReq
import Bmc.Proofs.GenEnc.V2Session
import Bmc.Proofs.GenEnc.AES128CBC
import Bmc.Proofs.EndToEnd.RequestsC06
import Bmc.Proofs.EndToEnd.DatagramC06
import Bmc.Proofs.EndToEnd.HistoryC06
#print axioms Bmc.Proofs.C06.packet_parses
#print axioms Bmc.Proofs.C06.payload_packet_parses
#print axioms Bmc.Proofs.C06.operation_table
#print axioms Bmc.Proofs.C06.command_packet_parses
#print axioms Bmc.Proofs.C06.authcaps_parses
#print axioms Bmc.Proofs.C06.authcaps_request
#print axioms Bmc.Proofs.C06.ciphersuites_parses
#print axioms Bmc.Proofs.C06.sessioninfo_parses
#print axioms Bmc.Proofs.C06.setpriv_parses
#print axioms Bmc.Proofs.C06.set_priv_callback
#print axioms Bmc.Proofs.C06.set_priv_callback_not_sent
#print axioms Bmc.Proofs.C06.closesession_parses
#print axioms Bmc.Proofs.C06.chassiscontrol_parses
#print axioms Bmc.Proofs.C06.getsdr_parses
#print axioms Bmc.Proofs.C06.sensorreading_parses
#print axioms Bmc.Proofs.C06.sensorreading_request
#print axioms Bmc.Proofs.C06.no_body_request
#print axioms Bmc.Proofs.C06.opensession_parses
#print axioms Bmc.Proofs.C06.opensession_request
#print axioms Bmc.Proofs.C06.rakp1_parses
#print axioms Bmc.Proofs.C06.rakp1_long_username
#print axioms Bmc.Proofs.C06.rakp3_parses
#print axioms Bmc.Proofs.C06.rakp_request
#print axioms Bmc.Proofs.C06.dcmicaps_parses
#print axioms Bmc.Proofs.C06.dcmicaps_request
#print axioms Bmc.Proofs.C06.powerreading_normal_parses
#print axioms Bmc.Proofs.C06.powerreading_enhanced_parses
#print axioms Bmc.Proofs.C06.dcmisensorinfo_parses
#print axioms Bmc.Proofs.ApiWrappers.api_wrappers
#print axioms Bmc.Proofs.ApiWrappers.api_other_senders
#print axioms Bmc.Proofs.ApiWrappers.api_cmd_constructors
#print axioms Bmc.Proofs.ApiWrappers.validate_response
#print axioms Bmc.Proofs.GenEnc.translated_ok
#print axioms Bmc.Proofs.GenEnc.gaveUp_empty
#print axioms Bmc.Proofs.GenEnc.uninterpreted_ok
#print axioms Bmc.Proofs.GenEnc.GetSensorReadingReq_enc_eq
#print axioms Bmc.Proofs.GenEnc.GetDCMICapabilitiesInfoReq_enc_eq
#print axioms Bmc.Proofs.GenEnc.GetDCMISensorInfoReq_enc_eq
#print axioms Bmc.Proofs.GenEnc.ChassisControlReq_enc_eq
#print axioms Bmc.Proofs.GenEnc.CloseSessionReq_enc_eq
#print axioms Bmc.Proofs.GenEnc.GetChannelAuthenticationCapabilitiesReq_enc_eq
#print axioms Bmc.Proofs.GenEnc.GetChannelCipherSuitesReq_enc_eq
#print axioms Bmc.Proofs.GenEnc.GetSDRReq_enc_eq
#print axioms Bmc.Proofs.GenEnc.GetSessionInfoReq_enc_eq
#print axioms Bmc.Proofs.GenEnc.SetSessionPrivilegeLevelReq_enc_eq
#print axioms Bmc.Proofs.GenEnc.OpenSessionReq_enc_eq_inner
#print axioms Bmc.Proofs.GenEnc.OpenSessionReq_enc_eq
#print axioms Bmc.Proofs.GenEnc.RAKPMessage3_enc_eq
#print axioms Bmc.Proofs.GenEnc.RAKPMessage1_enc_eq
#print axioms Bmc.Proofs.GenEnc.RAKPMessage1_enc_eq_setup
#print axioms Bmc.Proofs.GenEnc.V1Session_enc_eq
#print axioms Bmc.Proofs.GenEnc.Message_enc_eq
#print axioms Bmc.Proofs.GenEnc.GetPowerReadingReq_enc_eq_any
#print axioms Bmc.Proofs.GenEnc.GetPowerReadingReq_enc_eq
#print axioms Bmc.Proofs.GenEnc.V2Session_enc_eq
#print axioms Bmc.Proofs.GenEnc.AES128CBC_enc_param
#print axioms Bmc.Proofs.GenEnc.AES128CBC_enc_eq
#print axioms Bmc.Proofs.GenEnc.AES128CBC_enc_randErr
#print axioms Bmc.Proofs.EndToEnd.generated_authcaps_request
#print axioms Bmc.Proofs.EndToEnd.generated_ciphersuites_request
#print axioms Bmc.Proofs.EndToEnd.generated_sessioninfo_request
#print axioms Bmc.Proofs.EndToEnd.generated_setpriv_request
#print axioms Bmc.Proofs.EndToEnd.generated_setpriv_callback
#print axioms Bmc.Proofs.EndToEnd.generated_closesession_request
#print axioms Bmc.Proofs.EndToEnd.generated_chassiscontrol_request
#print axioms Bmc.Proofs.EndToEnd.generated_getsdr_request
#print axioms Bmc.Proofs.EndToEnd.generated_sensorreading_request
#print axioms Bmc.Proofs.EndToEnd.generated_opensession_request
#print axioms Bmc.Proofs.EndToEnd.generated_rakp1_request
#print axioms Bmc.Proofs.EndToEnd.generated_rakp3_request
#print axioms Bmc.Proofs.EndToEnd.generated_dcmicaps_request
#print axioms Bmc.Proofs.EndToEnd.generated_dcmisensorinfo_request
#print axioms Bmc.Proofs.EndToEnd.generated_powerreading_enhanced_request
#print axioms Bmc.Proofs.EndToEnd.generated_powerreading_normal_request
#print axioms Bmc.Proofs.EndToEnd.generated_sessionless_datagram_parses
#print axioms Bmc.Proofs.EndToEnd.generated_payload_datagram_parses
#print axioms Bmc.Proofs.EndToEnd.requestMessage_eq
#print axioms Bmc.Proofs.EndToEnd.generated_history_requests_parse
