import Bmc.Proofs.C07.Basic
import Bmc.Proofs.C07.Core
import Bmc.Proofs.C07.Sess
import Bmc.Proofs.C07.Sdr
import Bmc.Proofs.C07.Setup
import Bmc.Proofs.C07.Dcmi
import Bmc.Proofs.C07.Api
import Bmc.Proofs.GenDec.TranslatedOk
import Bmc.Proofs.GenDec.ReserveSDRRepositoryRsp
import Bmc.Proofs.GenDec.GetSystemGUIDRsp
import Bmc.Proofs.GenDec.SetSessionPrivilegeLevelRsp
import Bmc.Proofs.GenDec.GetSDRRsp
import Bmc.Proofs.GenDec.SDR
import Bmc.Proofs.GenDec.GetSensorReadingRsp
import Bmc.Proofs.GenDec.GetChannelCipherSuitesRsp
import Bmc.Proofs.GenDec.GetChannelAuthenticationCapabilitiesRsp
import Bmc.Proofs.GenDec.GetSDRRepositoryInfoRsp
import Bmc.Proofs.GenDec.GetPowerReadingRsp
import Bmc.Proofs.GenDec.GetChassisStatusRsp
import Bmc.Proofs.GenDec.GetDeviceIDRsp
import Bmc.Proofs.GenDec.RAKPMessage4
import Bmc.Proofs.GenDec.RAKPMessage2
import Bmc.Proofs.GenDec.RAKPMessage1
import Bmc.Proofs.GenDec.V1Session
import Bmc.Proofs.GenDec.GetSessionInfoRsp
import Bmc.Proofs.GenDec.OpenSessionRsp
import Bmc.Proofs.GenDec.GetDCMICapabilitiesInfoManageabilityAccessAttrsRsp
import Bmc.Proofs.GenDec.GetDCMICapabilitiesInfoOptionalPlatformAttrsRsp
import Bmc.Proofs.GenDec.GetDCMICapabilitiesInfoSupportedCapabilitiesRsp
import Bmc.Proofs.GenDec.GetDCMICapabilitiesInfoMandatoryPlatformAttrsRsp
import Bmc.Proofs.GenDec.SessionSelector
import Bmc.Proofs.GenDec.Message
import Bmc.Proofs.GenDec.GetDCMICapabilitiesInfoEnhancedSystemPowerStatisticsAttrsRsp
import Bmc.Proofs.GenDec.GetDCMISensorInfoRsp
import Bmc.Proofs.GenDec.FullSensorRecord
import Bmc.Proofs.GenDec.V2Session
import Bmc.Proofs.GenDec.AES128CBC
import Bmc.Proofs.ApiWrappers
import Bmc.Proofs.EndToEnd.DecodeC07
import Bmc.Proofs.EndToEnd.DecodeSetupC07
#print axioms Bmc.Proofs.C07.deviceID_decode_spec
#print axioms Bmc.Proofs.C07.deviceID_short
#print axioms Bmc.Proofs.C07.message_decode_spec_response
#print axioms Bmc.Proofs.C07.message_bad_checksum1
#print axioms Bmc.Proofs.C07.message_bad_checksum2
#print axioms Bmc.Proofs.C07.message_short
#print axioms Bmc.Proofs.C07.v2_length_exceeds
#print axioms Bmc.Proofs.C07.v2_short
#print axioms Bmc.Proofs.C07.authCaps_decode_spec
#print axioms Bmc.Proofs.C07.authCaps_short
#print axioms Bmc.Proofs.C07.cipherSuites_decode_spec
#print axioms Bmc.Proofs.C07.cipherSuites_short
#print axioms Bmc.Proofs.C07.setPriv_decode_spec
#print axioms Bmc.Proofs.C07.setPriv_short
#print axioms Bmc.Proofs.C07.guid_decode_spec
#print axioms Bmc.Proofs.C07.guid_short
#print axioms Bmc.Proofs.C07.sessionInfo_decode_spec
#print axioms Bmc.Proofs.C07.sessionInfo_short
#print axioms Bmc.Proofs.C07.sessionInfo_short_active
#print axioms Bmc.Proofs.C07.chassis_decode_spec
#print axioms Bmc.Proofs.C07.chassis_short
#print axioms Bmc.Proofs.C07.sdrRepoInfo_decode_spec
#print axioms Bmc.Proofs.C07.sdrRepoInfo_short
#print axioms Bmc.Proofs.C07.reserveSDR_decode_spec
#print axioms Bmc.Proofs.C07.reserveSDR_short
#print axioms Bmc.Proofs.C07.getSDR_decode_spec
#print axioms Bmc.Proofs.C07.getSDR_short
#print axioms Bmc.Proofs.C07.sdrHeader_decode_spec
#print axioms Bmc.Proofs.C07.sdrHeader_short
#print axioms Bmc.Proofs.C07.sensorReading_decode_spec
#print axioms Bmc.Proofs.C07.sensorReading_short
#print axioms Bmc.Proofs.C07.fullSensor_decode_spec
#print axioms Bmc.Proofs.C07.fullSensor_decode_wire
#print axioms Bmc.Proofs.C07.fullSensor_short
#print axioms Bmc.Proofs.C07.fullSensor_truncated
#print axioms Bmc.Proofs.C07.openSessionRsp_decode_spec
#print axioms Bmc.Proofs.C07.openSessionRsp_short
#print axioms Bmc.Proofs.C07.openSessionRsp_ok_exact
#print axioms Bmc.Proofs.C07.openSessionRsp_payload_type
#print axioms Bmc.Proofs.C07.openSessionRsp_wildcard_alg
#print axioms Bmc.Proofs.C07.rakp1_decode_spec
#print axioms Bmc.Proofs.C07.rakp1_short
#print axioms Bmc.Proofs.C07.rakp1_bad_username
#print axioms Bmc.Proofs.C07.rakp2_decode_spec
#print axioms Bmc.Proofs.C07.rakp2_short
#print axioms Bmc.Proofs.C07.rakp2_ok_short
#print axioms Bmc.Proofs.C07.rakp4_decode_spec
#print axioms Bmc.Proofs.C07.rakp4_short
#print axioms Bmc.Proofs.C07.selector_decode_spec
#print axioms Bmc.Proofs.C07.selector_short
#print axioms Bmc.Proofs.C07.v1_decode_spec
#print axioms Bmc.Proofs.C07.v1_short
#print axioms Bmc.Proofs.C07.v1_auth_short
#print axioms Bmc.Proofs.C07.handshake_openSessionRsp
#print axioms Bmc.Proofs.C07.handshake_rakp4
#print axioms Bmc.Proofs.C07.handshake_openSessionRsp_spec
#print axioms Bmc.Proofs.C07.cap1_decode_spec
#print axioms Bmc.Proofs.C07.cap1_short
#print axioms Bmc.Proofs.C07.cap2_decode_spec
#print axioms Bmc.Proofs.C07.cap2_four_byte_body
#print axioms Bmc.Proofs.C07.cap2_short
#print axioms Bmc.Proofs.C07.cap3_decode_spec
#print axioms Bmc.Proofs.C07.cap3_short
#print axioms Bmc.Proofs.C07.cap4_decode_spec
#print axioms Bmc.Proofs.C07.cap4_short
#print axioms Bmc.Proofs.C07.cap5_decode_spec
#print axioms Bmc.Proofs.C07.cap5_short
#print axioms Bmc.Proofs.C07.cap5_truncated
#print axioms Bmc.Proofs.C07.powerReading_decode_spec
#print axioms Bmc.Proofs.C07.powerReading_short
#print axioms Bmc.Proofs.C07.sensorInfo_decode_spec
#print axioms Bmc.Proofs.C07.sensorInfo_short
#print axioms Bmc.Proofs.C07.sensorInfo_truncated
#print axioms Bmc.Proofs.C07.call_returns_decoded
#print axioms Bmc.Proofs.C07.nonzero_code_is_error
#print axioms Bmc.Proofs.C07.finish_nonzero_code
#print axioms Bmc.Proofs.C07.value_only_from_code_zero
#print axioms Bmc.Proofs.C07.call_history_independent
#print axioms Bmc.Proofs.C07.finish_never_panics
#print axioms Bmc.Proofs.C07.callback_refused
#print axioms Bmc.Proofs.C07.operation_is_spec
#print axioms Bmc.Proofs.C07.request_is_the_call
#print axioms Bmc.Proofs.C07.sessionless_call_returns_decoded
#print axioms Bmc.Proofs.C07.sessionless_nonzero_code_is_error
#print axioms Bmc.Proofs.C07.sessionless_wrapper_fields_ignored
#print axioms Bmc.Proofs.C07.sessionless_value_only_from_code_zero
#print axioms Bmc.Proofs.C07.sessionless_request_is_the_call
#print axioms Bmc.Proofs.C07.getSystemGUID_returns
#print axioms Bmc.Proofs.C07.getSystemGUID_returns_sessionless
#print axioms Bmc.Proofs.C07.getChannelAuthenticationCapabilities_returns
#print axioms Bmc.Proofs.C07.getChannelAuthenticationCapabilities_returns_sessionless
#print axioms Bmc.Proofs.C07.getSessionInfo_returns
#print axioms Bmc.Proofs.C07.getDeviceID_returns
#print axioms Bmc.Proofs.C07.getChassisStatus_returns
#print axioms Bmc.Proofs.C07.chassisControl_returns
#print axioms Bmc.Proofs.C07.getSDRRepositoryInfo_returns
#print axioms Bmc.Proofs.C07.reserveSDRRepository_returns
#print axioms Bmc.Proofs.C07.getSensorReading_returns
#print axioms Bmc.Proofs.C07.getSessionPrivilegeLevel_returns
#print axioms Bmc.Proofs.C07.setSessionPrivilegeLevel_returns
#print axioms Bmc.Proofs.C07.close_returns
#print axioms Bmc.Proofs.C07.getPowerReading_returns
#print axioms Bmc.Proofs.C07.getDCMISensorInfo_returns
#print axioms Bmc.Proofs.C07.dcmiSupportedCapabilities_returns
#print axioms Bmc.Proofs.C07.dcmiSupportedCapabilities_returns_sessionless
#print axioms Bmc.Proofs.C07.dcmiMandatoryPlatformAttrs_returns
#print axioms Bmc.Proofs.C07.dcmiMandatoryPlatformAttrs_returns_sessionless
#print axioms Bmc.Proofs.C07.dcmiOptionalPlatformAttrs_returns
#print axioms Bmc.Proofs.C07.dcmiOptionalPlatformAttrs_returns_sessionless
#print axioms Bmc.Proofs.C07.dcmiManageabilityAccessAttrs_returns
#print axioms Bmc.Proofs.C07.dcmiManageabilityAccessAttrs_returns_sessionless
#print axioms Bmc.Proofs.C07.dcmiEnhancedSystemPowerStatisticsAttrs_returns
#print axioms Bmc.Proofs.C07.dcmiEnhancedSystemPowerStatisticsAttrs_returns_sessionless
#print axioms Bmc.Proofs.GenDec.translated_ok
#print axioms Bmc.Proofs.GenDec.ReserveSDRRepositoryRsp_gen_eq
#print axioms Bmc.Proofs.GenDec.GetSystemGUIDRsp_gen_eq
#print axioms Bmc.Proofs.GenDec.SetSessionPrivilegeLevelRsp_gen_eq
#print axioms Bmc.Proofs.GenDec.GetSDRRsp_gen_eq
#print axioms Bmc.Proofs.GenDec.SDR_gen_eq
#print axioms Bmc.Proofs.GenDec.GetSensorReadingRsp_gen_eq
#print axioms Bmc.Proofs.GenDec.GetChannelCipherSuitesRsp_gen_eq
#print axioms Bmc.Proofs.GenDec.GetChannelAuthenticationCapabilitiesRsp_gen_eq
#print axioms Bmc.Proofs.GenDec.GetSDRRepositoryInfoRsp_gen_eq
#print axioms Bmc.Proofs.GenDec.GetPowerReadingRsp_gen_eq
#print axioms Bmc.Proofs.GenDec.GetChassisStatusRsp_gen_eq
#print axioms Bmc.Proofs.GenDec.GetDeviceIDRsp_gen_eq
#print axioms Bmc.Proofs.GenDec.RAKPMessage4_gen_eq
#print axioms Bmc.Proofs.GenDec.RAKPMessage2_gen_eq
#print axioms Bmc.Proofs.GenDec.RAKPMessage1_gen_eq
#print axioms Bmc.Proofs.GenDec.V1Session_gen_eq
#print axioms Bmc.Proofs.GenDec.GetSessionInfoRsp_gen_eq
#print axioms Bmc.Proofs.GenDec.OpenSessionRsp_gen_eq
#print axioms Bmc.Proofs.GenDec.GetDCMICapabilitiesInfoManageabilityAccessAttrsRsp_gen_eq
#print axioms Bmc.Proofs.GenDec.GetDCMICapabilitiesInfoOptionalPlatformAttrsRsp_gen_eq
#print axioms Bmc.Proofs.GenDec.GetDCMICapabilitiesInfoSupportedCapabilitiesRsp_gen_eq
#print axioms Bmc.Proofs.GenDec.GetDCMICapabilitiesInfoMandatoryPlatformAttrsRsp_gen_eq
#print axioms Bmc.Proofs.GenDec.SessionSelector_gen_eq
#print axioms Bmc.Proofs.GenDec.Message_gen_eq
#print axioms Bmc.Proofs.GenDec.GetDCMICapabilitiesInfoEnhancedSystemPowerStatisticsAttrsRsp_gen_eq
#print axioms Bmc.Proofs.GenDec.GetDCMISensorInfoRsp_gen_eq
#print axioms Bmc.Proofs.GenDec.FullSensorRecord_gen_eq
#print axioms Bmc.Proofs.GenDec.V2Session_gen_eq
#print axioms Bmc.Proofs.GenDec.AES128CBC_gen_eq
#print axioms Bmc.Proofs.ApiWrappers.api_wrappers
#print axioms Bmc.Proofs.ApiWrappers.api_other_senders
#print axioms Bmc.Proofs.ApiWrappers.api_cmd_constructors
#print axioms Bmc.Proofs.ApiWrappers.validate_response
#print axioms Bmc.Proofs.EndToEnd.generated_GetDeviceIDRsp_decodes
#print axioms Bmc.Proofs.EndToEnd.generated_AuthCapsRsp_decodes
#print axioms Bmc.Proofs.EndToEnd.generated_CipherSuitesRsp_decodes
#print axioms Bmc.Proofs.EndToEnd.generated_SetPrivRsp_decodes
#print axioms Bmc.Proofs.EndToEnd.generated_GUIDRsp_decodes
#print axioms Bmc.Proofs.EndToEnd.generated_SessionInfoRsp_decodes
#print axioms Bmc.Proofs.EndToEnd.generated_ChassisStatusRsp_decodes
#print axioms Bmc.Proofs.EndToEnd.generated_SDRRepoInfoRsp_decodes
#print axioms Bmc.Proofs.EndToEnd.generated_ReserveRsp_decodes
#print axioms Bmc.Proofs.EndToEnd.generated_GetSDRRsp_decodes
#print axioms Bmc.Proofs.EndToEnd.generated_FullSensorRecord_decodes
#print axioms Bmc.Proofs.EndToEnd.generated_PowerReadingRsp_decodes
#print axioms Bmc.Proofs.EndToEnd.generated_SDRHeader_decodes
#print axioms Bmc.Proofs.EndToEnd.generated_SensorReadingRsp_decodes
#print axioms Bmc.Proofs.EndToEnd.generated_SensorInfoRsp_decodes
#print axioms Bmc.Proofs.EndToEnd.generated_Cap1_decodes
#print axioms Bmc.Proofs.EndToEnd.generated_Cap2_decodes
#print axioms Bmc.Proofs.EndToEnd.generated_Cap3_decodes
#print axioms Bmc.Proofs.EndToEnd.generated_Cap4_decodes
#print axioms Bmc.Proofs.EndToEnd.generated_Cap5_decodes
#print axioms Bmc.Proofs.EndToEnd.generated_OpenSessionRsp_decodes
#print axioms Bmc.Proofs.EndToEnd.generated_RAKPMessage1_decodes
#print axioms Bmc.Proofs.EndToEnd.generated_RAKPMessage2_decodes
#print axioms Bmc.Proofs.EndToEnd.generated_RAKPMessage4_decodes
#print axioms Bmc.Proofs.EndToEnd.generated_SessionSelector_decodes
#print axioms Bmc.Proofs.EndToEnd.generated_V1Session_decodes
