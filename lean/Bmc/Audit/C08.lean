import Bmc.Proofs.C08
#print axioms Bmc.Proofs.C08.message_roundtrip
#print axioms Bmc.Proofs.C08.message_reencode
#print axioms Bmc.Proofs.C08.v2_roundtrip
#print axioms Bmc.Proofs.C08.v2_reencode
#print axioms Bmc.Proofs.C08.v1_roundtrip
#print axioms Bmc.Proofs.C08.v1_length
#print axioms Bmc.Proofs.C08.v1_reencode
#print axioms Bmc.Proofs.C08.rakp1_roundtrip
#print axioms Bmc.Proofs.C08.rakp1_toolong
#print axioms Bmc.Proofs.C08.rakp1_reencode
#print axioms Bmc.Proofs.C08.aes_roundtrip
