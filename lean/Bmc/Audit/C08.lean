import Bmc.Proofs.C08
#print axioms Bmc.Proofs.C08.message_roundtrip
#print axioms Bmc.Proofs.C08.message_reencode
#print axioms Bmc.Proofs.C08.v2_roundtrip_partial
#print axioms Bmc.Proofs.C08.aes_roundtrip
