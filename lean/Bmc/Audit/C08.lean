import Bmc.Proofs.C08
import Bmc.Proofs.GenEnc.TranslatedOk
import Bmc.Proofs.GenEnc.GetSensorReadingReq
import Bmc.Proofs.GenEnc.GetDCMICapabilitiesInfoReq
import Bmc.Proofs.GenEnc.GetDCMISensorInfoReq
import Bmc.Proofs.GenEnc.ChassisControlReq
import Bmc.Proofs.GenEnc.CloseSessionReq
import Bmc.Proofs.GenEnc.GetChannelAuthenticationCapabilitiesReq
import Bmc.Proofs.GenEnc.GetChannelCipherSuitesReq
import Bmc.Proofs.GenEnc.GetSDRReq
import Bmc.Proofs.GenEnc.GetSessionInfoReq
import Bmc.Proofs.GenEnc.SetSessionPrivilegeLevelReq
import Bmc.Proofs.GenEnc.OpenSessionReq
import Bmc.Proofs.GenEnc.RAKPMessage3
import Bmc.Proofs.GenEnc.RAKPMessage1
import Bmc.Proofs.GenEnc.V1Session
import Bmc.Proofs.GenEnc.Message
import Bmc.Proofs.GenEnc.GetPowerReadingReq
import Bmc.Proofs.GenEnc.V2Session
import Bmc.Proofs.GenEnc.AES128CBC
import Bmc.Proofs.GenDec.V2Session
import Bmc.Proofs.GenDec.AES128CBC
import Bmc.Proofs.GenDec.Message
import Bmc.Proofs.GenDec.V1Session
import Bmc.Proofs.GenDec.RAKPMessage1
import Bmc.Proofs.EndToEnd.RoundTripC08
#print axioms Bmc.Proofs.C08.message_roundtrip
#print axioms Bmc.Proofs.C08.message_reencode
#print axioms Bmc.Proofs.C08.v2_roundtrip
#print axioms Bmc.Proofs.C08.v2_reencode
#print axioms Bmc.Proofs.C08.v1_roundtrip
#print axioms Bmc.Proofs.C08.v1_length
#print axioms Bmc.Proofs.C08.v1_reencode
#print axioms Bmc.Proofs.C08.rakp1_roundtrip
#print axioms Bmc.Proofs.C08.rakp1_toolong
#print axioms Bmc.Proofs.C08.rakp1_reencode
#print axioms Bmc.Proofs.C08.aes_roundtrip
#print axioms Bmc.Proofs.GenEnc.translated_ok
#print axioms Bmc.Proofs.GenEnc.gaveUp_empty
#print axioms Bmc.Proofs.GenEnc.uninterpreted_ok
#print axioms Bmc.Proofs.GenEnc.GetSensorReadingReq_enc_eq
#print axioms Bmc.Proofs.GenEnc.GetDCMICapabilitiesInfoReq_enc_eq
#print axioms Bmc.Proofs.GenEnc.GetDCMISensorInfoReq_enc_eq
#print axioms Bmc.Proofs.GenEnc.ChassisControlReq_enc_eq
#print axioms Bmc.Proofs.GenEnc.CloseSessionReq_enc_eq
#print axioms Bmc.Proofs.GenEnc.GetChannelAuthenticationCapabilitiesReq_enc_eq
#print axioms Bmc.Proofs.GenEnc.GetChannelCipherSuitesReq_enc_eq
#print axioms Bmc.Proofs.GenEnc.GetSDRReq_enc_eq
#print axioms Bmc.Proofs.GenEnc.GetSessionInfoReq_enc_eq
#print axioms Bmc.Proofs.GenEnc.SetSessionPrivilegeLevelReq_enc_eq
#print axioms Bmc.Proofs.GenEnc.OpenSessionReq_enc_eq_inner
#print axioms Bmc.Proofs.GenEnc.OpenSessionReq_enc_eq
#print axioms Bmc.Proofs.GenEnc.RAKPMessage3_enc_eq
#print axioms Bmc.Proofs.GenEnc.RAKPMessage1_enc_eq
#print axioms Bmc.Proofs.GenEnc.RAKPMessage1_enc_eq_setup
#print axioms Bmc.Proofs.GenEnc.V1Session_enc_eq
#print axioms Bmc.Proofs.GenEnc.Message_enc_eq
#print axioms Bmc.Proofs.GenEnc.GetPowerReadingReq_enc_eq_any
#print axioms Bmc.Proofs.GenEnc.GetPowerReadingReq_enc_eq
#print axioms Bmc.Proofs.GenEnc.V2Session_enc_eq
#print axioms Bmc.Proofs.GenEnc.AES128CBC_enc_param
#print axioms Bmc.Proofs.GenEnc.AES128CBC_enc_eq
#print axioms Bmc.Proofs.GenEnc.AES128CBC_enc_randErr
#print axioms Bmc.Proofs.GenDec.V2Session_gen_eq
#print axioms Bmc.Proofs.GenDec.AES128CBC_gen_eq
#print axioms Bmc.Proofs.GenDec.Message_gen_eq
#print axioms Bmc.Proofs.GenDec.V1Session_gen_eq
#print axioms Bmc.Proofs.GenDec.RAKPMessage1_gen_eq
#print axioms Bmc.Proofs.EndToEnd.generated_message_roundtrip
#print axioms Bmc.Proofs.EndToEnd.generated_v1_roundtrip
#print axioms Bmc.Proofs.EndToEnd.generated_v2_roundtrip
#print axioms Bmc.Proofs.EndToEnd.generated_aes_roundtrip
#print axioms Bmc.Proofs.EndToEnd.generated_rakp1_roundtrip
