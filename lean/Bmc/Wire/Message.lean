import Bmc.Basic.Go
import Bmc.Prim.Checksum
/-! Model of `ipmi.Message.DecodeFromBytes` (pkg/ipmi/message.go). -/
namespace Bmc.Wire
open Bmc Bmc.Prim

structure Message where
  function : UInt8 := 0       -- 6-bit NetFn
  body : UInt8 := 0
  enterprise : Nat := 0
  command : UInt8 := 0
  remoteAddress : UInt8 := 0
  remoteLUN : UInt8 := 0
  checksum1 : UInt8 := 0
  localAddress : UInt8 := 0
  localLUN : UInt8 := 0
  sequence : UInt8 := 0
  completionCode : UInt8 := 0
  checksum2 : UInt8 := 0
  contents : Bytes := []
  payload : Bytes := []
  deriving Repr, DecidableEq

def isRequest (fn : UInt8) : Bool := fn % 2 == 0
def isGroup (fn : UInt8) : Bool := fn == 0x2c || fn == 0x2d
def isOEM (fn : UInt8) : Bool := fn == 0x2e || fn == 0x2f

/-- `decodeSpecialNetFns`: `d` is `data[start:len-1]`; returns (body, enterprise, consumed) -/
def Message.specialGo (fn : UInt8) (d : GoSlice) : R (UInt8 × Nat × Nat) := do
  if isGroup fn then
    if d.len < 1 then R.err else
    let b ← d.idx 0
    pure (b, 0, 1)
  else if isOEM fn then
    if d.len < 3 then R.err else
    let b0 ← d.idx 0; let b1 ← d.idx 1; let b2 ← d.idx 2
    pure (0, b0.toNat + 256 * b1.toNat + 65536 * b2.toNat, 3)
  else pure (0, 0, 0)

/-- `Message.DecodeFromBytes` on a reused receiver `prev`; `minRsp` is the extra length guard on the
    response path (absent on the pinned tree, i.e. 7; 8 once the 7-byte-response panic is repaired).
    Every field is assigned on the success path, so `prev` does not show in the result. -/
def Message.decodeGo (minRsp : Nat) (_prev : Message) (d : GoSlice) : R Message := do
  if d.len < 7 then R.err else
  let b0 ← d.idx 0; let b1 ← d.idx 1; let b2 ← d.idx 2
  let h ← d.slice 0 2
  if b2 != checksum h.vis then R.err else
  let b3 ← d.idx 3; let b4 ← d.idx 4; let b5 ← d.idx 5
  let last ← d.idx (d.len - 1)
  let body ← d.slice 3 (d.len - 1)
  if last != checksum body.vis then R.err else
  let fn := b1 >>> 2
  let start := if isRequest fn then 6 else 7
  if !isRequest fn && d.len < minRsp then R.err else
  let cc ← if isRequest fn then pure 0 else d.idx 6
  let inner ← d.slice start (d.len - 1)
  let (bodyCode, ent, consumed) ← Message.specialGo fn inner
  let c ← d.slice 0 (start + consumed)
  let p ← d.slice (start + consumed) (d.len - 1)
  pure { function := fn, body := bodyCode, enterprise := ent, command := b5
         remoteAddress := b0, remoteLUN := b1 &&& 3, checksum1 := b2
         localAddress := b3, localLUN := b4 &&& 3, sequence := b4 >>> 2
         completionCode := cc, checksum2 := last, contents := c.vis, payload := p.vis }

/-- pure reference decoder on the visible bytes -/
def Message.decode (minRsp : Nat) (b : Bytes) : Except Unit Message :=
  if b.length < 7 then .error () else
  let b0 := b.getD 0 0; let b1 := b.getD 1 0; let b2 := b.getD 2 0
  if b2 != checksum (b.take 2) then .error () else
  let b3 := b.getD 3 0; let b4 := b.getD 4 0; let b5 := b.getD 5 0
  let last := b.getD (b.length - 1) 0
  if last != checksum ((b.drop 3).take (b.length - 1 - 3)) then .error () else
  let fn := b1 >>> 2
  let req := isRequest fn
  if !req && b.length < minRsp then .error () else
  let start := if req then 6 else 7
  let cc := if req then 0 else b.getD 6 0
  let inner := (b.drop start).take (b.length - 1 - start)
  if isGroup fn && inner.length < 1 then .error () else
  if !isGroup fn && isOEM fn && inner.length < 3 then .error () else
  let consumed := if isGroup fn then 1 else if isOEM fn then 3 else 0
  .ok { function := fn
        body := if isGroup fn then inner.getD 0 0 else 0
        enterprise := if !isGroup fn && isOEM fn then
          (inner.getD 0 0).toNat + 256 * (inner.getD 1 0).toNat + 65536 * (inner.getD 2 0).toNat else 0
        command := b5, remoteAddress := b0, remoteLUN := b1 &&& 3, checksum1 := b2
        localAddress := b3, localLUN := b4 &&& 3, sequence := b4 >>> 2
        completionCode := cc, checksum2 := last
        contents := b.take (start + consumed)
        payload := (b.drop (start + consumed)).take (b.length - 1 - (start + consumed)) }

/-- PINNED TREE (finding 1): a 7-byte response with valid checksums panics -/
example : Message.decodeGo 7 {} (GoSlice.ofBytes [0x81, 0x1c, 0x63, 0x20, 0x04, 0x01, 0xdb]) = R.panic := by
  decide

end Bmc.Wire
