import Bmc.Basic.Tactics
import Bmc.Wire.V2Session
/-! Model of `ipmi.OpenSessionRsp.DecodeFromBytes` (pkg/ipmi/open_session.go) and of the three
    `{Authentication,Integrity,Confidentiality}Payload.Deserialise` methods it calls.
    (A partial model without `Contents` lives in `Wire/Setup.lean` for the handshake prototype; this is the
    complete one, kept in its own namespace.) -/
namespace Bmc.Wire.Setup
open Bmc Bmc.Wire

/-- `ipmi.AuthenticationPayload` / `IntegrityPayload` / `ConfidentialityPayload`: the same two fields -/
structure AlgPayload where
  wildcard : Bool := false
  algorithm : UInt8 := 0
  deriving Repr, DecidableEq

structure OpenSessionRsp where
  tag : UInt8 := 0
  status : UInt8 := 0
  maxPriv : UInt8 := 0
  consoleSID : Nat := 0          -- RemoteConsoleSessionID
  bmcSID : Nat := 0              -- ManagedSystemSessionID
  auth : AlgPayload := {}
  integ : AlgPayload := {}
  conf : AlgPayload := {}
  contents : Bytes := []         -- BaseLayer.Contents; BaseLayer.Payload is never assigned
  deriving Repr, DecidableEq

/-- `X.Deserialise(d, df)` for the payload type byte `typ`; the remaining bytes `d[8:]` it returns are
    discarded by the caller -/
def deserialiseAlg (typ : UInt8) (d : GoSlice) : R AlgPayload := do
  if d.len < 8 then R.err else
  let t ← d.idx 0
  if t != typ then R.err else
  let l ← d.idx 3
  let a ← d.idx 4
  if l == 0 && (a &&& 0x3f) != 0 then R.err else
  let _rest ← d.sliceFrom 8
  pure { wildcard := l == 0, algorithm := a &&& 0x3f }

/-- the second `if` statement of `DecodeFromBytes`, entered with the header fields already assigned to `o` -/
def OpenSessionRsp.tailGo (o : OpenSessionRsp) (d : GoSlice) : R OpenSessionRsp := do
  if o.status == 0 then
    if d.len != 36 then R.err else
    let mp ← d.idx 2
    let c ← d.slice 0 36
    let s1 ← d.slice 4 8
    let s2 ← d.slice 8 12
    let a ← d.slice 12 20
    let ap ← deserialiseAlg 0 a
    let i ← d.slice 20 28
    let ip ← deserialiseAlg 1 i
    let k ← d.slice 28 36
    let kp ← deserialiseAlg 2 k
    pure { o with maxPriv := mp, contents := c.vis, consoleSID := le32 s1.vis, bmcSID := le32 s2.vis
                  auth := ap, integ := ip, conf := kp }
  else
    pure { o with maxPriv := 0, bmcSID := 0, auth := {}, integ := {}, conf := {} }

/-- `OpenSessionRsp.DecodeFromBytes`: fields a path does not assign keep `prev`'s value -/
def OpenSessionRsp.decodeGo (prev : OpenSessionRsp) (d : GoSlice) : R OpenSessionRsp := do
  if d.len == 1 then
    let c ← d.slice 0 1
    let s ← d.idx 0
    OpenSessionRsp.tailGo { prev with contents := c.vis, tag := 0, status := s, consoleSID := 0 } d
  else if d.len < 7 then R.err
  else
    let c ← d.slice 0 7
    let t ← d.idx 0
    let s ← d.idx 1
    let sid ← d.slice 3 7
    OpenSessionRsp.tailGo { prev with contents := c.vis, tag := t, status := s, consoleSID := le32 sid.vis } d

/-- one 8-byte algorithm payload at the head of `b` -/
def algOf (typ : UInt8) (b : Bytes) : Except Unit AlgPayload :=
  if b.getD 0 0 != typ then .error () else
  if b.getD 3 0 == 0 && (b.getD 4 0 &&& 0x3f) != 0 then .error () else
  .ok { wildcard := b.getD 3 0 == 0, algorithm := b.getD 4 0 &&& 0x3f }

/-- the pure decoder -/
def OpenSessionRsp.decode (b : Bytes) : Except Unit OpenSessionRsp :=
  if b.length = 1 then
    -- a lone status byte; a lone 00 would be "success" and is then rejected for not being 36 bytes long
    if b.getD 0 0 == 0 then .error () else .ok { status := b.getD 0 0, contents := b.take 1 }
  else if b.length < 7 then .error ()
  else if b.getD 1 0 == 0 then
    if b.length ≠ 36 then .error () else
    match algOf 0 (b.drop 12), algOf 1 (b.drop 20), algOf 2 (b.drop 28) with
    | .ok a, .ok i, .ok k =>
      .ok { tag := b.getD 0 0, status := b.getD 1 0, maxPriv := b.getD 2 0, consoleSID := le32 (b.drop 4)
            bmcSID := le32 (b.drop 8), auth := a, integ := i, conf := k, contents := b.take 36 }
    | _, _, _ => .error ()
  else
    -- the library's (test-pinned) reading of the error form: tag, status, one reserved byte, console session ID
    .ok { tag := b.getD 0 0, status := b.getD 1 0, consoleSID := le32 (b.drop 3), contents := b.take 7 }

end Bmc.Wire.Setup
