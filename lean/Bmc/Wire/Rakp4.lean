import Bmc.Basic.Tactics
import Bmc.Wire.V2Session
/-! Model of `ipmi.RAKPMessage4.DecodeFromBytes` (pkg/ipmi/rakp_message_4.go).
    (`Wire/Setup.lean` has a version without `Contents` for the handshake prototype.) -/
namespace Bmc.Wire.Setup
open Bmc Bmc.Wire

structure RAKP4 where
  tag : UInt8 := 0
  status : UInt8 := 0
  consoleSID : Nat := 0          -- RemoteConsoleSessionID
  icv : Bytes := []
  contents : Bytes := []         -- BaseLayer.Contents = data; BaseLayer.Payload is never assigned
  deriving Repr, DecidableEq

def RAKP4.decodeGo (_prev : RAKP4) (d : GoSlice) : R RAKP4 := do
  if d.len < 8 then R.err else
  let t ← d.idx 0
  let s ← d.idx 1
  let sid ← d.slice 4 8
  let icv ← if s == 0 && d.len > 8 then (do let x ← d.sliceFrom 8; pure x.vis) else pure []
  pure { tag := t, status := s, consoleSID := le32 sid.vis, icv := icv, contents := d.vis }

def RAKP4.decode (b : Bytes) : Except Unit RAKP4 :=
  if b.length < 8 then .error () else
  .ok { tag := b.getD 0 0, status := b.getD 1 0, consoleSID := le32 (b.drop 4)
        icv := if b.getD 1 0 == 0 then b.drop 8 else [], contents := b }

theorem RAKP4.decodeGo_refines (prev : RAKP4) (d : GoSlice) :
    RAKP4.decodeGo prev d = R.ofExcept (RAKP4.decode d.vis) := by
  unfold RAKP4.decodeGo RAKP4.decode
  simp -zeta only [GoSlice.vis_length]
  by_cases h : d.len < 8
  · simp [h]
  · simp -zeta only [h, if_false]
    simp -zeta (disch := omega) only [GoSlice.idx_ok, GoSlice.slice_ok, R.bind_ok]
    cases hs : (List.getD d.vis 1 0 == 0) <;> by_cases h8 : d.len > 8 <;>
      simp (disch := omega) [hs, h8, le32_take, GoSlice.sliceFrom_ok]
    omega

end Bmc.Wire.Setup
