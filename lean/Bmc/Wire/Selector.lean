import Bmc.Basic.Tactics
/-! Model of `ipmi.SessionSelector.DecodeFromBytes` (pkg/ipmi/session_selector.go): a zero-length layer. -/
namespace Bmc.Wire.Setup
open Bmc

structure Selector where
  isRMCPPlus : Bool := false
  payload : Bytes := []          -- BaseLayer.Payload = data; BaseLayer.Contents is never assigned
  deriving Repr, DecidableEq

def Selector.decodeGo (_prev : Selector) (d : GoSlice) : R Selector := do
  if d.len < 1 then R.err else
  let b0 ← d.idx 0
  pure { isRMCPPlus := b0 == 6, payload := d.vis }

def Selector.decode (b : Bytes) : Except Unit Selector :=
  if b.length < 1 then .error () else .ok { isRMCPPlus := b.getD 0 0 == 6, payload := b }

theorem Selector.decodeGo_refines (prev : Selector) (d : GoSlice) :
    Selector.decodeGo prev d = R.ofExcept (Selector.decode d.vis) := by
  unfold Selector.decodeGo Selector.decode
  simp -zeta only [GoSlice.vis_length]
  by_cases h : d.len < 1
  · simp [h]
  · simp -zeta only [h, if_false]
    simp -zeta (disch := omega) only [GoSlice.idx_ok, R.bind_ok]
    rfl

end Bmc.Wire.Setup
