import Bmc.Wire.Message
import Bmc.Wire.V2Session
import Bmc.Wire.Aes
/-! Models of the SerializeTo methods used on the in-session path. -/
namespace Bmc.Wire
open Bmc Bmc.Prim Bmc.Crypto

structure RMCP where
  version : UInt8 := 0
  sequence : UInt8 := 0
  ack : Bool := false
  cls : UInt8 := 0
  deriving Repr, DecidableEq

def RMCP.encode (r : RMCP) : Bytes := [r.version, 0, r.sequence, (if r.ack then 0x80 else 0) ||| r.cls]

/-- `layers.RMCP.DecodeFromBytes` (gopacket); payload = data[4:] -/
def RMCP.decodeGo (_prev : RMCP) (d : GoSlice) : R (RMCP × GoSlice) := do
  if d.len < 4 then R.err else
  let b0 ← d.idx 0; let b2 ← d.idx 2; let b3 ← d.idx 3
  let p ← d.sliceFrom 4
  pure ({ version := b0, sequence := b2, ack := b3 &&& 0x80 != 0, cls := b3 &&& 0xF }, p)

def putLE16 (n : Nat) : Bytes := [UInt8.ofNat (n % 256), UInt8.ofNat (n / 256 % 256)]
def putLE32 (n : Nat) : Bytes :=
  [UInt8.ofNat (n % 256), UInt8.ofNat (n / 256 % 256), UInt8.ofNat (n / 65536 % 256), UInt8.ofNat (n / 16777216 % 256)]

/-- `V2Session.SerializeTo` with FixLengths and ComputeChecksums; returns the updated layer too -/
def V2Session.encode (mac : Bytes → Bytes) (s : V2Session) (inner : Bytes) : V2Session × Bytes :=
  let oem := s.payloadType == 2
  let headerLength := if oem then 18 else 12
  let len := inner.length % 65536
  let pad := if s.authenticated then (4 - (headerLength + len + 2) % 4) % 4 else s.pad.toNat
  let flags : UInt8 := s.payloadType ||| (if s.encrypted then 0x80 else 0) ||| (if s.authenticated then 0x40 else 0)
  let header : Bytes := [6, flags] ++ (if oem then putLE32 s.enterprise ++ putLE16 s.payloadID else [])
    ++ putLE32 s.id ++ putLE32 s.sequence ++ putLE16 len
  if s.authenticated then
    let body := header ++ inner ++ List.replicate pad 0xff ++ [UInt8.ofNat pad, 7]
    let sig := mac body
    ({ s with length := len, pad := UInt8.ofNat pad, signature := sig }, body ++ sig)
  else
    ({ s with length := len }, header ++ inner)

/-- `Message.SerializeTo` with ComputeChecksums -/
def Message.encode (m : Message) (data : Bytes) : Message × Bytes :=
  let b1 : UInt8 := (m.function <<< 2) ||| m.remoteLUN
  let ck1 := checksum [m.remoteAddress, b1]
  let rest : Bytes := [m.localAddress, (m.sequence <<< 2) ||| m.localLUN, m.command]
    ++ (if isRequest m.function then [] else [m.completionCode])
    ++ (if isGroup m.function then [m.body]
        else if isOEM m.function then
          [UInt8.ofNat (m.enterprise % 256), UInt8.ofNat (m.enterprise / 256 % 256), UInt8.ofNat (m.enterprise / 65536 % 256)]
        else [])
    ++ data
  let ck2 := checksum rest
  ({ m with checksum1 := ck1, checksum2 := ck2 }, [m.remoteAddress, b1, ck1] ++ rest ++ [ck2])

end Bmc.Wire
