import Bmc.Basic.Tactics
/-! Model of `ipmi.GetChassisStatusRsp.DecodeFromBytes`. -/
namespace Bmc.Wire
open Bmc

structure GetChassisStatusRsp where
  powerRestorePolicy : UInt8 := 0
  flags0 : UInt8 := 0          -- PowerControlFault, PowerFault, Interlock, PowerOverload, PoweredOn (bits 4..0 of byte 0)
  flags1 : UInt8 := 0          -- PoweredOnByIPMI, LastPowerDown{Fault,Interlock,Overload,SupplyFailure} (bits 4..0 of byte 1)
  identifyState : UInt8 := 0   -- 0..3, or 0xff when unsupported
  flags2 : UInt8 := 0          -- CoolingFault, DriveFault, Lockout, Intrusion (bits 3..0 of byte 2)
  frontPanel : UInt8 := 0      -- the eight button flags; reset to 0 when byte 3 is absent
  contents : Bytes := []
  payload : Bytes := []
  deriving Repr, DecidableEq

/-- `resetTail = false` would be a tree where the else-branch resetting the button flags is missing -/
def GetChassisStatusRsp.decodeGo (resetTail : Bool) (prev : GetChassisStatusRsp) (d : GoSlice) : R GetChassisStatusRsp := do
  if d.len < 3 then R.err else
  let b0 ← d.idx 0; let b1 ← d.idx 1; let b2 ← d.idx 2
  let ident := if b2 &&& 0x40 != 0 then (b2 &&& 0x30) >>> 4 else 0xff
  if d.len > 3 then
    let b3 ← d.idx 3
    let c ← d.slice 0 4
    let p ← d.sliceFrom 4
    pure { powerRestorePolicy := (b0 &&& 0x60) >>> 5, flags0 := b0 &&& 0x1f, flags1 := b1 &&& 0x1f
           identifyState := ident, flags2 := b2 &&& 0x0f, frontPanel := b3, contents := c.vis, payload := p.vis }
  else
    let c ← d.slice 0 3
    let p ← d.sliceFrom 3
    pure { powerRestorePolicy := (b0 &&& 0x60) >>> 5, flags0 := b0 &&& 0x1f, flags1 := b1 &&& 0x1f
           identifyState := ident, flags2 := b2 &&& 0x0f
           frontPanel := if resetTail then 0 else prev.frontPanel, contents := c.vis, payload := p.vis }

/-- the decoder on a fresh receiver and an exact-capacity slice -/
def GetChassisStatusRsp.decode (b : Bytes) : R GetChassisStatusRsp :=
  GetChassisStatusRsp.decodeGo true {} (GoSlice.ofBytes b)

/-- C05 + C17 in one statement: the outcome never is a panic or an over-read, and does not depend on the
    receiver's previous contents nor on capacity / bytes beyond `len` -/
theorem GetChassisStatusRsp.decodeGo_canon (prev : GetChassisStatusRsp) (d : GoSlice) :
    GetChassisStatusRsp.decodeGo true prev d = GetChassisStatusRsp.decode d.vis ∧
    (GetChassisStatusRsp.decodeGo true prev d).bad = false := by
  unfold GetChassisStatusRsp.decode GetChassisStatusRsp.decodeGo
  simp -zeta only [GoSlice.len_ofBytes, GoSlice.vis_length]
  by_cases h : d.len < 3
  · simp [h, R.bad]
  · simp -zeta only [h, if_false]
    simp -zeta (disch := (simp only [GoSlice.len_ofBytes, GoSlice.vis_length]; omega)) only [GoSlice.idx_ok, R.bind_ok,
      GoSlice.vis_ofBytes]
    constructor <;> (go_round; go_round; go_round)
#print axioms GetChassisStatusRsp.decodeGo_canon

/-- the (hypothetical) tree without the else-branch leaks the previous button flags -/
example :
    (GetChassisStatusRsp.decodeGo false { frontPanel := 0xAB } (GoSlice.ofBytes [1, 2, 3])).map (·.frontPanel) = R.ok 0xAB := by
  decide
end Bmc.Wire
