import Bmc.Basic.Tactics
import Bmc.Wire.V2Session
/-! Model of `ipmi.RAKPMessage1.DecodeFromBytes` (pkg/ipmi/rakp_message_1.go). -/
namespace Bmc.Wire.Setup
open Bmc Bmc.Wire

structure RAKP1 where
  tag : UInt8 := 0
  bmcSID : Nat := 0                            -- ManagedSystemSessionID
  consoleRandom : Bytes := List.replicate 16 0 -- RemoteConsoleRandom [16]byte
  lookup : Bool := false                       -- PrivilegeLevelLookup
  maxPriv : UInt8 := 0
  username : Bytes := []                       -- Go string, as bytes
  contents : Bytes := []                       -- BaseLayer.Contents = data; BaseLayer.Payload is never assigned
  deriving Repr, DecidableEq

def RAKP1.decodeGo (_prev : RAKP1) (d : GoSlice) : R RAKP1 := do
  if d.len < 28 then R.err else
  let t ← d.idx 0
  let sid ← d.slice 4 8
  let rnd ← d.slice 8 24            -- copy(r.RemoteConsoleRandom[:], data[8:24]): all 16 bytes are overwritten
  let b24 ← d.idx 24
  let b24' ← d.idx 24
  let n ← d.idx 27                  -- lenUsername (uint8)
  if n > 16 then R.err else
  -- `28+lenUsername` is computed in uint8; with lenUsername ≤ 16 it cannot wrap
  if d.len < (28 + n).toNat then R.err else
  let u ← d.slice 28 (28 + n).toNat
  pure { tag := t, bmcSID := le32 sid.vis, consoleRandom := rnd.vis, lookup := (b24' &&& 0x10) == 0
         maxPriv := b24 &&& 0xF, username := u.vis, contents := d.vis }

def RAKP1.decode (b : Bytes) : Except Unit RAKP1 :=
  if b.length < 28 then .error () else
  let n := (b.getD 27 0).toNat
  if n > 16 then .error () else
  if b.length < 28 + n then .error () else
  .ok { tag := b.getD 0 0, bmcSID := le32 (b.drop 4), consoleRandom := (b.drop 8).take 16
        lookup := (b.getD 24 0 &&& 0x10) == 0, maxPriv := b.getD 24 0 &&& 0xF
        username := (b.drop 28).take n, contents := b }

end Bmc.Wire.Setup
