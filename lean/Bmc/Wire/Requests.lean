import Bmc.Wire.Encode
import Bmc.Wire.Setup
import Bmc.Prim.Strings
import Bmc.Gen.Facts
import Bmc.Gen.Prims
/-! # Models of the request serialisers (C06)

One `encode` per request layer of `pkg/ipmi` and `pkg/dcmi`, mirroring its `SerializeTo` (the gopacket serialize
buffer is a byte list: `PrependBytes` puts bytes in front of what the inner layers wrote, `AppendBytes` behind),
the operation table of `pkg/ipmi/operation.go` / `pkg/dcmi/operations.go` with each command's `RemoteLUN()`, and the
session-less datagram stack of `v2sessionless.go` (`buildAndSendCommand`, `buildAndSendPayload`).
Go field types: every field below is a `uint8` in Go unless noted (`Nat` = `uint16`/`uint32`/`uint`, truncated by
the serialiser exactly as the Go conversion does). -/
namespace Bmc.Wire.Req
open Bmc Bmc.Wire Bmc.Prim

/-! ## IPMI request bodies (pkg/ipmi) -/

/-- `GetChannelAuthenticationCapabilitiesReq` -/
structure AuthCaps where
  extendedData : Bool := false
  channel : UInt8 := 0
  maxPrivilegeLevel : UInt8 := 0
  deriving Repr, DecidableEq

/-- `bytes[0] = uint8(g.Channel); if g.ExtendedData { bytes[0] |= 1 << 7 }; bytes[1] = uint8(g.MaxPrivilegeLevel)` -/
def AuthCaps.encode (g : AuthCaps) : Bytes :=
  [if g.extendedData then g.channel ||| 0x80 else g.channel, g.maxPrivilegeLevel]

/-- `GetChannelCipherSuitesReq` -/
structure CipherSuites where
  channel : UInt8 := 0
  payloadType : UInt8 := 0
  listIndex : UInt8 := 0
  deriving Repr, DecidableEq

/-- `bytes[0] = uint8(c.Channel & 0x0f); bytes[1] = uint8(c.PayloadType & 0x3f); bytes[2] = uint8(1<<7 | c.ListIndex&0x3f)` -/
def CipherSuites.encode (c : CipherSuites) : Bytes :=
  [c.channel &&& 0x0f, c.payloadType &&& 0x3f, 0x80 ||| (c.listIndex &&& 0x3f)]

/-- `GetSessionInfoReq` (`ID` is a `uint32`) -/
structure SessionInfo where
  index : UInt8 := 0
  handle : UInt8 := 0
  id : Nat := 0
  deriving Repr, DecidableEq

/-- length 1, +1 for `SessionIndexHandle` (0xfe), +4 for `SessionIndexID` (0xff) -/
def SessionInfo.encode (g : SessionInfo) : Bytes :=
  if g.index == 0xfe then [g.index, g.handle]
  else if g.index == 0xff then g.index :: putLE32 g.id
  else [g.index]

/-- `SetSessionPrivilegeLevelReq`: `PrivilegeLevelCallback` (1) is refused; `bytes[0] = uint8(c.PrivilegeLevel) & 0xF` -/
def SetPriv.encode (level : UInt8) : Except Unit Bytes :=
  if level == 1 then .error () else .ok [level &&& 0xF]

/-- `CloseSessionReq` (`ID` is a `uint32`): the handle follows only a null ID -/
def CloseSession.encode (id : Nat) (handle : UInt8) : Bytes :=
  if id == 0 then putLE32 id ++ [handle] else putLE32 id

/-- `ChassisControlReq` (`ChassisControl` is a Go `uint`): `bytes[0] = uint8(c.ChassisControl)` -/
def ChassisControl.encode (control : Nat) : Bytes := [UInt8.ofNat (control % 256)]

/-- `GetSDRReq` (`ReservationID`, `RecordID` are `uint16`) -/
def GetSDR.encode (reservation record : Nat) (offset length : UInt8) : Bytes :=
  putLE16 reservation ++ putLE16 record ++ [offset, length]

/-- `GetSensorReadingReq` (the owner LUN travels in the message header, see `Cmd.lun`) -/
def SensorReading.encode (number : UInt8) : Bytes := [number]

/-! ## RMCP+ setup payloads -/

/-- `OpenSessionReq` with its three algorithm payloads (each `Wildcard bool` + `Algorithm uint8`) -/
structure OpenSession where
  tag : UInt8 := 0
  maxPrivilegeLevel : UInt8 := 0
  sessionID : Nat := 0
  authWildcard : Bool := false
  auth : UInt8 := 0
  integWildcard : Bool := false
  integ : UInt8 := 0
  confWildcard : Bool := false
  conf : UInt8 := 0
  deriving Repr, DecidableEq

/-- `OpenSessionReq.SerializeTo`: 8 header bytes prepended, then the three `Serialise` calls append 8 bytes each -/
def OpenSession.encode (o : OpenSession) : Bytes :=
  [o.tag, o.maxPrivilegeLevel &&& 0x0f, 0, 0] ++ putLE32 o.sessionID
    ++ algPayload 0 o.authWildcard o.auth ++ algPayload 1 o.integWildcard o.integ ++ algPayload 2 o.confWildcard o.conf

/-- the encoder of `Wire/Setup.lean` used by the handshake model is the non-wildcard case -/
theorem OpenSession.encode_noWildcard (tag priv : UInt8) (sid : Nat) (a i c : UInt8) :
    OpenSession.encode { tag := tag, maxPrivilegeLevel := priv, sessionID := sid, auth := a, integ := i, conf := c }
      = OpenSessionReq.encode tag priv sid a i c := rfl

/-- `RAKPMessage1` (`RemoteConsoleRandom` is a `[16]byte`, `Username` a string = bytes) -/
structure Rakp1 where
  tag : UInt8 := 0
  bmcSessionID : Nat := 0
  random : Bytes := []
  privilegeLevelLookup : Bool := false
  maxPrivilegeLevel : UInt8 := 0
  username : Bytes := []
  deriving Repr, DecidableEq

/-- `RAKPMessage1.SerializeTo` = the encoder of `Wire/Setup.lean` (checked against the source: role byte
    `priv & 0xF`, bit 4 set when `!PrivilegeLevelLookup`; error when the user name exceeds 16 bytes) -/
def Rakp1.encode (r : Rakp1) : Except Unit Bytes :=
  RAKP1.encode r.tag r.bmcSessionID r.random r.privilegeLevelLookup r.maxPrivilegeLevel r.username

/-- `RAKPMessage3`: the AuthCode is written only with `StatusCodeOK` -/
structure Rakp3 where
  tag : UInt8 := 0
  status : UInt8 := 0
  bmcSessionID : Nat := 0
  authCode : Bytes := []
  deriving Repr, DecidableEq

def Rakp3.encode (r : Rakp3) : Bytes :=
  [r.tag, r.status, 0, 0] ++ putLE32 r.bmcSessionID ++ (if r.status == 0 then r.authCode else [])

theorem Rakp3.encode_ok (tag : UInt8) (sid : Nat) (code : Bytes) :
    Rakp3.encode { tag := tag, status := 0, bmcSessionID := sid, authCode := code } = RAKP3.encode tag sid code := rfl

/-! ## DCMI request bodies (pkg/dcmi); the group-extension byte 0xDC belongs to the message header -/

/-- `GetDCMICapabilitiesInfoReq` -/
def DcmiCaps.encode (parameter : UInt8) : Bytes := [parameter]

/-- `rollingAvgPeriodByte(d)` for `d` in nanoseconds. Non-negative durations: float division of the duration by a
    whole unit followed by truncation is `Nat` division (`Bmc.Prim.rollingByteGo` on whole seconds; the fraction of
    a second never changes the quotient). Negative durations (outside the claim; `byte(float)` of a negative number
    is implementation-defined in Go): what go1.23/amd64 computes for |d| < 2^31 s — truncation toward zero, low byte. -/
def rollingByteNs (ns : Int) : UInt8 :=
  if 0 ≤ ns then UInt8.ofNat (rollingByteGo (ns.toNat / 1000000000))
  else UInt8.ofNat (Int.emod (Int.tdiv ns 1000000000) 256).toNat

/-- `GetPowerReadingReq` (`Period` is a `time.Duration`, i.e. an `int64` of nanoseconds) -/
structure PowerReading where
  mode : UInt8 := 0
  periodNs : Int := 0
  deriving Repr, DecidableEq

/-- only `SystemPowerStatisticsModeEnhanced` (2) carries the rolling-average byte -/
def PowerReading.encode (g : PowerReading) : Bytes :=
  [g.mode, if g.mode == 2 then rollingByteNs g.periodNs else 0, 0]

/-- `GetDCMISensorInfoReq` -/
structure DcmiSensorInfo where
  type : UInt8 := 0
  entity : UInt8 := 0
  instance_ : UInt8 := 0
  instanceStart : UInt8 := 0
  deriving Repr, DecidableEq

def DcmiSensorInfo.encode (g : DcmiSensorInfo) : Bytes :=
  [g.type, g.entity, g.instance_, if g.instance_ == 0 then g.instanceStart else 0]

/-! ## The operation table and the session-less datagram -/

/-- `ipmi.Operation` (`Enterprise` is a `uint32`) -/
structure Operation where
  function : UInt8 := 0
  body : UInt8 := 0
  enterprise : Nat := 0
  command : UInt8 := 0
  deriving Repr, DecidableEq

/-- every `ipmi.Command` implementation of the library -/
inductive Cmd where
  | getChassisStatus | chassisControl | getDeviceID | getSystemGUID | authCaps | setPriv | closeSession
  | sdrRepoInfo | reserveSDR | getSDR | sensorReading | sessionInfo | cipherSuites
  | dcmiCaps | powerReading | dcmiSensorInfo
  deriving Repr, DecidableEq

/-- `Operation()` of each command: the `Operation…Req` values of `pkg/ipmi/operation.go` and `pkg/dcmi/operations.go`
    (NetFn and body code through the regenerated constants) -/
def Cmd.operation : Cmd → Operation
  | .getChassisStatus => { function := UInt8.ofNat Gen.Facts.ipmi_NetworkFunctionChassisReq, command := 0x01 }
  | .chassisControl => { function := UInt8.ofNat Gen.Facts.ipmi_NetworkFunctionChassisReq, command := 0x02 }
  | .getDeviceID => { function := UInt8.ofNat Gen.Facts.ipmi_NetworkFunctionAppReq, command := 0x01 }
  | .getSystemGUID => { function := UInt8.ofNat Gen.Facts.ipmi_NetworkFunctionAppReq, command := 0x37 }
  | .authCaps => { function := UInt8.ofNat Gen.Facts.ipmi_NetworkFunctionAppReq, command := 0x38 }
  | .setPriv => { function := UInt8.ofNat Gen.Facts.ipmi_NetworkFunctionAppReq, command := 0x3b }
  | .closeSession => { function := UInt8.ofNat Gen.Facts.ipmi_NetworkFunctionAppReq, command := 0x3c }
  | .sdrRepoInfo => { function := UInt8.ofNat Gen.Facts.ipmi_NetworkFunctionStorageReq, command := 0x20 }
  | .reserveSDR => { function := UInt8.ofNat Gen.Facts.ipmi_NetworkFunctionStorageReq, command := 0x22 }
  | .getSDR => { function := UInt8.ofNat Gen.Facts.ipmi_NetworkFunctionStorageReq, command := 0x23 }
  | .sensorReading => { function := UInt8.ofNat Gen.Facts.ipmi_NetworkFunctionSensorReq, command := 0x2d }
  | .sessionInfo => { function := UInt8.ofNat Gen.Facts.ipmi_NetworkFunctionAppReq, command := 0x3d }
  | .cipherSuites => { function := UInt8.ofNat Gen.Facts.ipmi_NetworkFunctionAppReq, command := 0x54 }
  | .dcmiCaps => { function := UInt8.ofNat Gen.Facts.ipmi_NetworkFunctionGroupReq, body := UInt8.ofNat Gen.Facts.ipmi_BodyCodeDCMI, command := 0x01 }
  | .powerReading => { function := UInt8.ofNat Gen.Facts.ipmi_NetworkFunctionGroupReq, body := UInt8.ofNat Gen.Facts.ipmi_BodyCodeDCMI, command := 0x02 }
  | .dcmiSensorInfo => { function := UInt8.ofNat Gen.Facts.ipmi_NetworkFunctionGroupReq, body := UInt8.ofNat Gen.Facts.ipmi_BodyCodeDCMI, command := 0x07 }

/-- `RemoteLUN()`: `LUNBMC` everywhere except Get Sensor Reading, which returns the caller's `OwnerLUN` -/
def Cmd.lun (c : Cmd) (ownerLUN : UInt8) : UInt8 :=
  match c with
  | .sensorReading => ownerLUN
  | _ => UInt8.ofNat Gen.Facts.ipmi_LUNBMC

/-- `ipmi.SlaveAddressBMC.Address()` through the regenerated SSA translation -/
def bmcAddress : UInt8 := UInt8.ofNat (Gen.slaveAddress (BitVec.ofNat 8 Gen.Facts.ipmi_SlaveAddressBMC)).toNat
/-- `ipmi.SoftwareIDRemoteConsole1.Address()` -/
def consoleAddress : UInt8 := UInt8.ofNat (Gen.swidAddress (BitVec.ofNat 8 Gen.Facts.ipmi_SoftwareIDRemoteConsole1)).toNat

/-- the three struct literals of `buildAndSendCommand` -/
def rmcpLayer : RMCP := { version := 6, sequence := 0xFF, cls := 7 }
def messageLayer (op : Operation) (lun : UInt8) : Message :=
  { function := op.function, body := op.body, enterprise := op.enterprise, command := op.command
    remoteAddress := bmcAddress, remoteLUN := lun, localAddress := consoleAddress, sequence := 1 }

/-- the datagram `buildAndSendCommand` hands to the transport: `SerializeLayers(rmcp, v2session, message, request)`
    with FixLengths and ComputeChecksums; the null session has no integrity algorithm (`fun _ => []`), and
    `serializableLayerOrEmpty` turns a nil request into an empty body -/
def packetSessionless (op : Operation) (lun : UInt8) (body : Bytes) : Bytes :=
  let msg := (Message.encode (messageLayer op lun) body).2
  RMCP.encode rmcpLayer ++ (V2Session.encode (fun _ => []) { payloadType := 0 } msg).2

/-- the datagram of `buildAndSendPayload` for a payload whose descriptor is the plain payload type `ptype`
    (Open Session Request 0x10, RAKP 1 0x12, RAKP 3 0x14): no message layer -/
def packetPayload (ptype : UInt8) (body : Bytes) : Bytes :=
  RMCP.encode rmcpLayer ++ (V2Session.encode (fun _ => []) { payloadType := ptype } body).2

/-- payload types of the library's three setup payloads (`Descriptor()`), through the regenerated constants -/
def ptOpenSessionReq : UInt8 := UInt8.ofNat Gen.Facts.ipmi_PayloadTypeOpenSessionReq
def ptRakp1 : UInt8 := UInt8.ofNat Gen.Facts.ipmi_PayloadTypeRAKPMessage1
def ptRakp3 : UInt8 := UInt8.ofNat Gen.Facts.ipmi_PayloadTypeRAKPMessage3

/-- what a command sends: the packet around its request body, or nothing when the body cannot be serialised -/
def commandDatagram (c : Cmd) (ownerLUN : UInt8) (body : Except Unit Bytes) : Except Unit Bytes :=
  body.map (packetSessionless c.operation (c.lun ownerLUN))

/-! ## Wire widths: the values of the Go fields that fit the field on the wire (explicit, decidable).
    Everything outside is outside the claim of C06 (the serialisers mask or overflow into neighbouring bits). -/

/-- channel and privilege level are 4-bit fields -/
def AuthCaps.wf (g : AuthCaps) : Prop := g.channel.toNat < 16 ∧ g.maxPrivilegeLevel.toNat < 16
instance (g : AuthCaps) : Decidable g.wf := by unfold AuthCaps.wf; infer_instance

/-- channel 4 bits, payload type 6 bits, list index 6 bits -/
def CipherSuites.wf (c : CipherSuites) : Prop :=
  c.channel.toNat < 16 ∧ c.payloadType.toNat < 64 ∧ c.listIndex.toNat < 64
instance (c : CipherSuites) : Decidable c.wf := by unfold CipherSuites.wf; infer_instance

def SessionInfo.wf (g : SessionInfo) : Prop := g.id < 4294967296
instance (g : SessionInfo) : Decidable g.wf := by unfold SessionInfo.wf; infer_instance

/-- a 4-bit level other than the reserved Callback -/
def SetPriv.wf (level : UInt8) : Prop := level.toNat < 16 ∧ level ≠ 1
instance (l : UInt8) : Decidable (SetPriv.wf l) := by unfold SetPriv.wf; infer_instance

def OpenSession.wf (o : OpenSession) : Prop :=
  o.maxPrivilegeLevel.toNat < 16 ∧ o.sessionID < 4294967296 ∧ (o.authWildcard = false → o.auth.toNat < 64) ∧
  (o.integWildcard = false → o.integ.toNat < 64) ∧ (o.confWildcard = false → o.conf.toNat < 64)
instance (o : OpenSession) : Decidable o.wf := by unfold OpenSession.wf; infer_instance

/-- what the Go types guarantee (32-bit ID, 16-byte random number), a 4-bit privilege level and a user name
    of at most 16 bytes -/
def Rakp1.wf (r : Rakp1) : Prop :=
  r.bmcSessionID < 4294967296 ∧ r.random.length = 16 ∧ r.maxPrivilegeLevel.toNat < 16 ∧ r.username.length ≤ 16
instance (r : Rakp1) : Decidable r.wf := by unfold Rakp1.wf; infer_instance

def Rakp3.wf (r : Rakp3) : Prop := r.bmcSessionID < 4294967296
instance (r : Rakp3) : Decidable r.wf := by unfold Rakp3.wf; infer_instance

/-- a request NetFn (6 bits, even) and a 3-byte enterprise number -/
def Operation.wf (op : Operation) : Prop :=
  op.function.toNat < 64 ∧ op.function.toNat % 2 = 0 ∧ op.enterprise < 16777216
instance (op : Operation) : Decidable op.wf := by unfold Operation.wf; infer_instance

/-- the message around `body` fits the 16-bit payload length of the session wrapper -/
def bodyFits (body : Bytes) : Prop := body.length + 11 < 65536
instance (b : Bytes) : Decidable (bodyFits b) := by unfold bodyFits; infer_instance

end Bmc.Wire.Req
