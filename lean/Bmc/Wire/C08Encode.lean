import Bmc.Wire.Encode
import Bmc.Wire.V1Session
import Bmc.Wire.Rakp1
import Bmc.Wire.Setup
/-! Models of the remaining two-way serialisers of C08: `V1Session.SerializeTo` (pkg/ipmi/v1session.go) and
    `RAKPMessage1.SerializeTo` as a function of the layer value (pkg/ipmi/rakp_message_1.go). -/
namespace Bmc.Wire
open Bmc

/-- `V1Session.SerializeTo` with `FixLengths`: `s.Length = uint8(len(b.Bytes()))` (wraps modulo 256), then 10 bytes, or
    26 with the 16-byte AuthCode when the authentication type is not none, are prepended. Returns the updated layer.
    (`AuthCode` is a `[16]byte` in Go: the model's list always has 16 entries, see `V1Session.WF`.) -/
def V1Session.encode (s : V1Session) (inner : Bytes) : V1Session × Bytes :=
  let l := UInt8.ofNat inner.length
  ({ s with length := l },
   [s.authType] ++ putLE32 s.sequence ++ putLE32 s.id ++ (if s.authType == 0 then [l] else s.authCode ++ [l]) ++ inner)

/-- `RAKPMessage1.SerializeTo` on a layer value: the fields go through the serialiser model of the Setup group -/
def Setup.RAKP1.serialize (v : Setup.RAKP1) : Except Unit Bytes :=
  RAKP1.encode v.tag v.bmcSID v.consoleRandom v.lookup v.maxPriv v.username

end Bmc.Wire
