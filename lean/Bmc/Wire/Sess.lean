import Bmc.Basic.Tactics
import Bmc.Wire.Simple
/-! Model of `ipmi.GetSessionInfoRsp.DecodeFromBytes` (pkg/ipmi/get_session_info.go).
    The other layers of this group (`AuthCapsRsp`, `CipherSuitesRsp`, `SetPrivRsp`, `GUIDRsp`) are modelled in
    `Wire/Simple.lean`, `GetChassisStatusRsp` in `Wire/Chassis.lean`. -/
namespace Bmc.Wire
open Bmc

structure SessionInfoRsp where
  handle : UInt8 := 0
  max : UInt8 := 0             -- data[1] as is (the library does not mask the two reserved bits)
  active : UInt8 := 0          -- data[2] as is
  userID : UInt8 := 0          -- data[3] & 0x3f
  privilegeLevel : UInt8 := 0  -- data[4] & 0xf
  isIPMIv2 : Bool := false     -- (data[5] & 0xf0) >> 4 == 1
  channel : UInt8 := 0         -- data[5] & 0xf
  ip : Bytes := []             -- net.IP: nil, or the 16-byte IPv4-mapped form
  mac : Bytes := []            -- net.HardwareAddr: nil, or 6 bytes
  port : Nat := 0
  contents : Bytes := []
  payload : Bytes := []
  deriving Repr, DecidableEq

/-- the first twelve bytes of `ip := [16]byte{0, 0, 0, 0, 0, 0, 0, 0, 0, 0, 0xff, 0xff}` -/
def v4Prefix : Bytes := [0, 0, 0, 0, 0, 0, 0, 0, 0, 0, 0xff, 0xff]

/-- Statement by statement: the three guards (`< 3`, `handle == 0 && len == 3`, `< 6`, `< 18`), the index
    expressions, the slice expressions `data[6:10]`, `data[10:16]`, `data[16:18]`, `data[:n]`, `data[n:]`.
    Every success path of the Go method assigns every field (the two short paths reset the tail fields
    explicitly), which is why `prev` survives in no field; `{ prev with … }` keeps that visible. -/
def SessionInfoRsp.decodeGo (prev : SessionInfoRsp) (d : GoSlice) : R SessionInfoRsp := do
  if d.len < 3 then R.err else
  let b0 ← d.idx 0; let b1 ← d.idx 1; let b2 ← d.idx 2
  let g : SessionInfoRsp := { prev with handle := b0, max := b1, active := b2 }
  if g.handle == 0 && d.len == 3 then
    let c ← d.slice 0 3
    let p ← d.sliceFrom 3
    pure { g with userID := 0, privilegeLevel := 0, isIPMIv2 := false, channel := 0, ip := [], mac := [], port := 0
                  contents := c.vis, payload := p.vis }
  else
  if d.len < 6 then R.err else
  let b3 ← d.idx 3; let b4 ← d.idx 4; let b5 ← d.idx 5
  let g : SessionInfoRsp := { g with userID := b3 &&& 0x3f, privilegeLevel := b4 &&& 0xf
                                     isIPMIv2 := (b5 &&& 0xf0) >>> 4 == 1, channel := b5 &&& 0xf }
  if d.len < 18 then
    let c ← d.slice 0 6
    let p ← d.sliceFrom 6
    pure { g with ip := [], mac := [], port := 0, contents := c.vis, payload := p.vis }
  else
  let ip4 ← d.slice 6 10
  let mac ← d.slice 10 16
  let pt ← d.slice 16 18
  let c ← d.slice 0 18
  let p ← d.sliceFrom 18
  pure { g with ip := v4Prefix ++ ip4.vis, mac := mac.vis, port := le16 pt.vis, contents := c.vis, payload := p.vis }

/-- the decoder on a fresh receiver and an exact-capacity slice -/
def SessionInfoRsp.decode (b : Bytes) : R SessionInfoRsp := SessionInfoRsp.decodeGo {} (GoSlice.ofBytes b)

end Bmc.Wire
