import Bmc.Basic.Tactics
import Bmc.Wire.V2Session
import Bmc.Spec.Prim
/-! Models of the response layers of pkg/dcmi: the five Get DCMI Capabilities Info parameter responses
    (get_dcmi_capabilities_info.go), Get Power Reading (get_power_reading.go) and Get DCMI Sensor Info
    (get_dcmi_sensor_info.go).

    Each `decodeGo` mirrors the Go `DecodeFromBytes`: the same guards in the same order, every index and slice
    expression through `GoSlice.idx` / `slice` / `sliceFrom` (bytes the Go code reads only on one branch are read
    only on that branch), fields a path does not assign keep `prev`'s value. `decode` is the pure decoder on the
    visible bytes; the refinement theorems are in `Lemmas/DcmiRefine.lean`. -/
namespace Bmc.Wire
open Bmc

-- the header shared by the five capabilities responses -----------------------------------------------------------

/-- `getDCMICapabilitiesInfoRspHeader` (an embedded struct, not a layer of its own) -/
structure DcmiHeader where
  major : UInt8 := 0
  minor : UInt8 := 0
  revision : UInt8 := 0
  deriving Repr, DecidableEq

/-- `(*getDCMICapabilitiesInfoRspHeader).Decode`: the three header fields and `data[3:]` -/
def DcmiHeader.decodeGo (d : GoSlice) : R (DcmiHeader × GoSlice) := do
  if d.len < 3 then R.err else
  let b0 ← d.idx 0; let b1 ← d.idx 1; let b2 ← d.idx 2
  let body ← d.sliceFrom 3
  pure ({ major := b0, minor := b1, revision := b2 }, body)

/-- `g.MajorVersion == 1 && g.MinorVersion == 0` -/
def DcmiHeader.isV10 (h : DcmiHeader) : Bool := h.major == 1 && h.minor == 0

def DcmiHeader.ofBytes (b : Bytes) : DcmiHeader := { major := b.getD 0 0, minor := b.getD 1 0, revision := b.getD 2 0 }

-- parameter 1: supported DCMI capabilities -------------------------------------------------------------------------

structure DcmiCap1 where
  hdr : DcmiHeader := {}
  temperatureMonitor : Bool := false
  chassisPower : Bool := false
  selLogging : Bool := false
  identification : Bool := false
  powerManagement : Bool := false
  vlanCapable : Bool := false
  solSupported : Bool := false
  oobPrimary : Bool := false
  oobSecondary : Bool := false
  serialTMODE : Bool := false
  ibKCS : Bool := false
  ibSystemInterface : Bool := false
  contents : Bytes := []
  payload : Bytes := []
  deriving Repr, DecidableEq

/-- the field assignments of parameter 1, given the header and the three body bytes (`b0` is read on the v1.0
    path only) -/
def DcmiCap1.build (h : DcmiHeader) (b0 b1 b2 : UInt8) (c p : Bytes) : DcmiCap1 :=
  let v10 := h.isV10
  { hdr := h
    temperatureMonitor := if v10 then b0 &&& 8 != 0 else true
    chassisPower := if v10 then b0 &&& 4 != 0 else true
    selLogging := if v10 then b0 &&& 2 != 0 else true
    identification := if v10 then b0 &&& 1 != 0 else true
    powerManagement := b1 &&& 1 != 0
    vlanCapable := if v10 then b2 &&& 32 != 0 else true
    solSupported := if v10 then b2 &&& 16 != 0 else true
    oobPrimary := if v10 then b2 &&& 8 != 0 else true
    oobSecondary := b2 &&& 4 != 0
    serialTMODE := b2 &&& 2 != 0
    ibKCS := if v10 then b2 &&& 1 != 0 else true
    ibSystemInterface := if v10 then false else b2 &&& 1 != 0
    contents := c, payload := p }

def DcmiCap1.decodeGo (_prev : DcmiCap1) (d : GoSlice) : R DcmiCap1 := do
  let (h, body) ← DcmiHeader.decodeGo d
  if body.len < 3 then R.err else
  let b0 ← if h.isV10 then body.idx 0 else pure 0
  let b1 ← body.idx 1
  let b2 ← body.idx 2
  let c ← d.slice 0 (d.len - body.len + 3)
  let p ← body.sliceFrom 3
  pure (DcmiCap1.build h b0 b1 b2 c.vis p.vis)

def DcmiCap1.decode (b : Bytes) : Except Unit DcmiCap1 :=
  if b.length < 3 then .error () else
  if b.length - 3 < 3 then .error () else
  let h := DcmiHeader.ofBytes b
  .ok (DcmiCap1.build h (if h.isV10 then b.getD 3 0 else 0) (b.getD 4 0) (b.getD 5 0) (b.take 6) (b.drop 6))

-- parameter 2: mandatory platform attributes -----------------------------------------------------------------------

structure DcmiCap2 where
  hdr : DcmiHeader := {}
  selAutoRollover : Bool := false
  selFlushOnRollover : Bool := false
  selRecordLevelFlushOnRollover : Bool := false
  selMaxEntries : Nat := 0
  assetTagSupport : Bool := false
  dhcpHostNameSupport : Bool := false
  guidSupport : Bool := false
  baseboardTemperature : Bool := false
  processorsTemperature : Bool := false
  inletTemperature : Bool := false
  /-- `time.Duration`, nanoseconds -/
  temperatureSamplingFrequency : Nat := 0
  contents : Bytes := []
  payload : Bytes := []
  deriving Repr, DecidableEq

/-- the field assignments of parameter 2. `v10` is the code's `isVersion10`; on that path `b4` is not read, on the
    other `b2`, `b3` are not. `SELMaxEntries` is `binary.LittleEndian.Uint16([]byte{body[0] & 0xf, body[1]})`:
    the low nibble of the FIRST byte plus 256 × the SECOND byte — the reading the repository's tests pin
    (`f5 aa` ⇒ 43525, `4f ff` ⇒ 65295). -/
def DcmiCap2.build (h : DcmiHeader) (v10 : Bool) (b0 b1 b2 b3 b4 : UInt8) (c p : Bytes) : DcmiCap2 :=
  { hdr := h
    selAutoRollover := b0 &&& 0x80 != 0
    selFlushOnRollover := if v10 then false else b0 &&& 0x40 != 0
    selRecordLevelFlushOnRollover := if v10 then false else b0 &&& 0x20 != 0
    selMaxEntries := (b0 &&& 0xf).toNat + 256 * b1.toNat
    assetTagSupport := if v10 then b2 &&& 4 != 0 else true
    dhcpHostNameSupport := if v10 then b2 &&& 2 != 0 else true
    guidSupport := if v10 then b2 &&& 1 != 0 else true
    baseboardTemperature := if v10 then b3 &&& 4 != 0 else true
    processorsTemperature := if v10 then b3 &&& 2 != 0 else true
    inletTemperature := if v10 then b3 &&& 1 != 0 else true
    temperatureSamplingFrequency := if v10 then 0 else 1000000000 * b4.toNat
    contents := c, payload := p }

def DcmiCap2.decodeGo (_prev : DcmiCap2) (d : GoSlice) : R DcmiCap2 := do
  let (h, body) ← DcmiHeader.decodeGo d
  if body.len < 4 then R.err else
  -- `isVersion10 := len(body) == 4 || g.MajorVersion == 1 && g.MinorVersion == 0`
  let v10 := body.len == 4 || h.isV10
  let b0 ← body.idx 0
  let b1 ← body.idx 1
  let b2 ← if v10 then body.idx 2 else pure 0
  let b3 ← if v10 then body.idx 3 else pure 0
  let b4 ← if v10 then pure 0 else body.idx 4
  let n := if v10 then 4 else 5
  let c ← d.slice 0 (d.len - body.len + n)
  let p ← body.sliceFrom n
  pure (DcmiCap2.build h v10 b0 b1 b2 b3 b4 c.vis p.vis)

def DcmiCap2.decode (b : Bytes) : Except Unit DcmiCap2 :=
  if b.length < 3 then .error () else
  if b.length - 3 < 4 then .error () else
  let h := DcmiHeader.ofBytes b
  let v10 := b.length - 3 == 4 || h.isV10
  let n := if v10 then 4 else 5
  .ok (DcmiCap2.build h v10 (b.getD 3 0) (b.getD 4 0) (if v10 then b.getD 5 0 else 0) (if v10 then b.getD 6 0 else 0)
    (if v10 then 0 else b.getD 7 0) (b.take (3 + n)) (b.drop (3 + n)))

-- parameter 3: optional platform attributes ------------------------------------------------------------------------

structure DcmiCap3 where
  hdr : DcmiHeader := {}
  slaveAddress : UInt8 := 0
  channel : UInt8 := 0
  revision : UInt8 := 0
  contents : Bytes := []
  payload : Bytes := []
  deriving Repr, DecidableEq

def DcmiCap3.decodeGo (_prev : DcmiCap3) (d : GoSlice) : R DcmiCap3 := do
  let (h, body) ← DcmiHeader.decodeGo d
  if body.len < 2 then R.err else
  let b0 ← body.idx 0
  let b1 ← body.idx 1
  let c ← d.slice 0 (d.len - body.len + 2)
  let p ← body.sliceFrom 2
  pure { hdr := h, slaveAddress := b0 >>> 1, channel := b1 >>> 4, revision := b1 &&& 0xf, contents := c.vis, payload := p.vis }

def DcmiCap3.decode (b : Bytes) : Except Unit DcmiCap3 :=
  if b.length < 3 then .error () else
  if b.length - 3 < 2 then .error () else
  .ok { hdr := DcmiHeader.ofBytes b, slaveAddress := b.getD 3 0 >>> 1, channel := b.getD 4 0 >>> 4, revision := b.getD 4 0 &&& 0xf
        contents := b.take 5, payload := b.drop 5 }

-- parameter 4: manageability access attributes ---------------------------------------------------------------------

structure DcmiCap4 where
  hdr : DcmiHeader := {}
  primaryLAN : UInt8 := 0
  secondaryLAN : UInt8 := 0
  serial : UInt8 := 0
  contents : Bytes := []
  payload : Bytes := []
  deriving Repr, DecidableEq

def DcmiCap4.decodeGo (_prev : DcmiCap4) (d : GoSlice) : R DcmiCap4 := do
  let (h, body) ← DcmiHeader.decodeGo d
  if body.len < 3 then R.err else
  let b0 ← body.idx 0
  let b1 ← body.idx 1
  let b2 ← body.idx 2
  let c ← d.slice 0 (d.len - body.len + 3)
  let p ← body.sliceFrom 3
  pure { hdr := h, primaryLAN := b0, secondaryLAN := b1, serial := b2, contents := c.vis, payload := p.vis }

def DcmiCap4.decode (b : Bytes) : Except Unit DcmiCap4 :=
  if b.length < 3 then .error () else
  if b.length - 3 < 3 then .error () else
  .ok { hdr := DcmiHeader.ofBytes b, primaryLAN := b.getD 3 0, secondaryLAN := b.getD 4 0, serial := b.getD 5 0
        contents := b.take 6, payload := b.drop 6 }

-- parameter 5: enhanced system power statistics attributes ---------------------------------------------------------

/-- `rollingAvgPeriodDuration(b)` in nanoseconds — the function as translated from the Go source on every run
    (`Bmc.Gen`), proved equal to the specification's `Spec.rollingDurationNs` in `Proofs/C20` -/
def rollingNs (b : UInt8) : Nat := Spec.rollingDurationNs b.toNat   -- `rollingAvgPeriodDuration`, proved equal to this in Proofs/C20 (rolling_duration)

/-- the successive index expressions `s[i]` for `i` in a list (the loop `for i … { … body[1+i] }`) -/
def _root_.Bmc.GoSlice.idxs (s : GoSlice) : List Nat → R Bytes
  | [] => .ok []
  | i :: is => do
    let b ← s.idx i
    let bs ← GoSlice.idxs s is
    pure (b :: bs)

structure DcmiCap5 where
  hdr : DcmiHeader := {}
  /-- `[]time.Duration`, nanoseconds; allocated afresh by `make` on every successful decode -/
  periods : List Nat := []
  contents : Bytes := []
  payload : Bytes := []
  deriving Repr, DecidableEq

def DcmiCap5.decodeGo (_prev : DcmiCap5) (d : GoSlice) : R DcmiCap5 := do
  let (h, body) ← DcmiHeader.decodeGo d
  if body.len < 1 then R.err else
  let b0 ← body.idx 0
  let periods := b0.toNat
  if body.len < 1 + periods then R.err else
  let bs ← body.idxs ((List.range periods).map (1 + ·))
  let c ← d.slice 0 (d.len - body.len + 1 + periods)
  let p ← body.sliceFrom (1 + periods)
  pure { hdr := h, periods := bs.map rollingNs, contents := c.vis, payload := p.vis }

def DcmiCap5.decode (b : Bytes) : Except Unit DcmiCap5 :=
  if b.length < 3 then .error () else
  if b.length - 3 < 1 then .error () else
  let n := (b.getD 3 0).toNat
  if b.length - 3 < 1 + n then .error () else
  .ok { hdr := DcmiHeader.ofBytes b, periods := ((b.drop 4).take n).map rollingNs, contents := b.take (4 + n), payload := b.drop (4 + n) }

-- Get Power Reading ------------------------------------------------------------------------------------------------

/-- `GetPowerReadingRsp`. The method never assigns `BaseLayer.Contents` / `Payload`; they stay nil for the life of
    the receiver and are not fields of the model (the driver prints them empty). -/
structure PowerReading where
  instantaneous : Nat := 0
  min : Nat := 0
  max : Nat := 0
  avg : Nat := 0
  /-- `time.Unix(int64(uint32), 0)`: seconds since the epoch -/
  timestamp : Nat := 0
  /-- `time.Millisecond * time.Duration(uint32)`: nanoseconds (at most 4294967295000000, no int64 overflow) -/
  period : Nat := 0
  active : Bool := false
  deriving Repr, DecidableEq

def PowerReading.decodeGo (_prev : PowerReading) (d : GoSlice) : R PowerReading := do
  if d.len < 17 then R.err else
  let i ← d.slice 0 2
  let mn ← d.slice 2 4
  let mx ← d.slice 4 6
  let av ← d.slice 6 8
  let ts ← d.slice 8 12
  let pd ← d.slice 12 16
  let st ← d.idx 16
  pure { instantaneous := le16 i.vis, min := le16 mn.vis, max := le16 mx.vis, avg := le16 av.vis
         timestamp := le32 ts.vis, period := 1000000 * le32 pd.vis, active := st &&& 0x40 != 0 }

def PowerReading.decode (b : Bytes) : Except Unit PowerReading :=
  if b.length < 17 then .error () else
  .ok { instantaneous := le16 b, min := le16 (b.drop 2), max := le16 (b.drop 4), avg := le16 (b.drop 6)
        timestamp := le32 (b.drop 8), period := 1000000 * le32 (b.drop 12), active := b.getD 16 0 &&& 0x40 != 0 }

-- Get DCMI Sensor Info ---------------------------------------------------------------------------------------------

/-- a Go `[]ipmi.RecordID`: `buf` is the backing array from the slice start to its capacity, `len` the length -/
structure U16Slice where
  buf : List Nat := []
  len : Nat := 0
  deriving Repr, DecidableEq

namespace U16Slice
/-- the elements the slice denotes -/
def vis (s : U16Slice) : List Nat := s.buf.take s.len
/-- `s[:0]` — always legal (0 ≤ cap); keeps the backing array -/
def reset (s : U16Slice) : U16Slice := { s with len := 0 }
/-- `append(s, x)`: written in place while the capacity allows, otherwise into a new array (Go over-allocates
    the new array; how much is not observable through the slice, the model allocates exactly `len + 1`) -/
def append (s : U16Slice) (x : Nat) : U16Slice :=
  if s.len < s.buf.length then { buf := s.buf.set s.len x, len := s.len + 1 }
  else { buf := s.vis ++ [x], len := s.len + 1 }
/-- `len ≤ cap` -/
def Inv (s : U16Slice) : Prop := s.len ≤ s.buf.length
end U16Slice

/-- the receiver: `RecordIDs` is a slice whose backing array survives from decode to decode -/
structure SensorInfo where
  instances : UInt8 := 0
  recordIDs : U16Slice := {}
  contents : Bytes := []
  payload : Bytes := []
  deriving Repr, DecidableEq

/-- what a caller can see of the receiver -/
structure SensorInfoView where
  instances : UInt8 := 0
  recordIDs : List Nat := []
  contents : Bytes := []
  payload : Bytes := []
  deriving Repr, DecidableEq

def SensorInfo.view (s : SensorInfo) : SensorInfoView :=
  { instances := s.instances, recordIDs := s.recordIDs.vis, contents := s.contents, payload := s.payload }

/-- the loop `for i … { offset := 2 + i*2; id := binary.LittleEndian.Uint16(data[offset:]); ids = append(ids, id) }`;
    `Uint16` begins with `_ = b[1]`, a panic on a slice shorter than 2 -/
def SensorInfo.readIDs (d : GoSlice) : List Nat → U16Slice → R U16Slice
  | [], acc => .ok acc
  | i :: is, acc => do
    let t ← d.sliceFrom (2 + i * 2)
    if t.len < 2 then R.panic else
    SensorInfo.readIDs d is (acc.append (le16 t.vis))

def SensorInfo.decodeGo (prev : SensorInfo) (d : GoSlice) : R SensorInfo := do
  if d.len < 2 then R.err else
  let b0 ← d.idx 0
  let b1 ← d.idx 1
  let n := b1.toNat
  let expect := 2 + n * 2
  if d.len < expect then R.err else
  let c ← d.slice 0 expect
  let p ← d.sliceFrom expect
  let ids ← SensorInfo.readIDs d (List.range n) prev.recordIDs.reset
  pure { instances := b0, recordIDs := ids, contents := c.vis, payload := p.vis }

def SensorInfoView.decode (b : Bytes) : Except Unit SensorInfoView :=
  if b.length < 2 then .error () else
  let n := (b.getD 1 0).toNat
  if b.length < 2 + n * 2 then .error () else
  .ok { instances := b.getD 0 0, recordIDs := (List.range n).map (fun i => le16 (b.drop (2 + i * 2)))
        contents := b.take (2 + n * 2), payload := b.drop (2 + n * 2) }

/-- reuse of the backing array: after 3 record IDs then 1, the slice shows the one new ID only; the two old ones
    are still in the array beyond `len` (reachable only by re-slicing up to `cap`, which no caller does) -/
example :
    let r1 := SensorInfo.decodeGo {} (GoSlice.ofBytes [3, 3, 0x11, 0x11, 0x22, 0x22, 0x33, 0x33])
    (match r1 with
     | .ok v => (SensorInfo.decodeGo v (GoSlice.ofBytes [1, 1, 0x44, 0x44])).map (fun s => (s.view.recordIDs, s.recordIDs.buf))
     | _ => R.err) = R.ok ([0x4444], [0x4444, 0x2222, 0x3333]) := by
  decide

end Bmc.Wire
