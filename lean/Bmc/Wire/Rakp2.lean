import Bmc.Basic.Tactics
import Bmc.Wire.V2Session
/-! Model of `ipmi.RAKPMessage2.DecodeFromBytes`. -/
namespace Bmc.Wire
open Bmc

structure RAKP2 where
  tag : UInt8 := 0
  status : UInt8 := 0
  consoleSessionID : Nat := 0
  bmcRandom : Bytes := List.replicate 16 0
  bmcGUID : Bytes := List.replicate 16 0
  authCode : Bytes := []
  contents : Bytes := []
  deriving Repr, DecidableEq

/-- `guard40 = false` is the pinned tree (no length check before `data[8:24]`, `data[24:40]`) -/
def RAKP2.decodeGo (guard40 : Bool) (_prev : RAKP2) (d : GoSlice) : R RAKP2 := do
  if d.len < 8 then R.err else
  let tag ← d.idx 0
  let st ← d.idx 1
  let sid ← d.slice 4 8
  if st == 0 then
    if guard40 && d.len < 40 then R.err else
    let rnd ← d.slice 8 24
    let guid ← d.slice 24 40
    let ac ← if d.len > 40 then (do let s ← d.sliceFrom 40; pure s.vis) else pure []
    pure { tag := tag, status := st, consoleSessionID := le32 sid.vis, bmcRandom := rnd.vis, bmcGUID := guid.vis
           authCode := ac, contents := d.vis }
  else
    pure { tag := tag, status := st, consoleSessionID := le32 sid.vis
           bmcRandom := List.replicate 16 0, bmcGUID := List.replicate 16 0, authCode := [], contents := d.vis }

def RAKP2.decode (b : Bytes) : Except Unit RAKP2 :=
  if b.length < 8 then .error () else
  let st := b.getD 1 0
  if st == 0 then
    if b.length < 40 then .error () else
    .ok { tag := b.getD 0 0, status := st, consoleSessionID := le32 (b.drop 4)
          bmcRandom := (b.drop 8).take 16, bmcGUID := (b.drop 24).take 16, authCode := b.drop 40, contents := b }
  else
    .ok { tag := b.getD 0 0, status := st, consoleSessionID := le32 (b.drop 4)
          bmcRandom := List.replicate 16 0, bmcGUID := List.replicate 16 0, authCode := [], contents := b }

/-- PINNED TREE (finding 2): a 10-byte status-OK RAKP 2 panics on an exact-capacity slice … -/
example : RAKP2.decodeGo false {} (GoSlice.ofBytes (List.replicate 10 0)) = R.panic := by decide
/-- … and reads beyond the datagram when it is a window into the receive buffer -/
example : RAKP2.decodeGo false {} (GoSlice.window (List.replicate 10 0) (List.replicate 40 0xAA)) = R.overread := by
  decide

end Bmc.Wire
