import Bmc.Basic.Tactics
/-! Model of `ipmi.GetDeviceIDRsp.DecodeFromBytes`. -/
namespace Bmc.Wire
open Bmc

structure GetDeviceIDRsp where
  id : UInt8 := 0
  providesSDRs : Bool := false
  revision : UInt8 := 0
  available : Bool := false
  majorFirmwareRevision : UInt8 := 0
  minorFirmwareRevision : UInt8 := 0     -- bcd.Decode(data[3])
  majorIPMIVersion : UInt8 := 0
  minorIPMIVersion : UInt8 := 0
  support : UInt8 := 0                    -- the eight Supports* flags, bit i = flag i
  manufacturer : Nat := 0
  product : Nat := 0
  aux : Bytes := [0, 0, 0, 0]            -- [4]byte
  contents : Bytes := []
  deriving Repr, DecidableEq

def bcdDecode (b : UInt8) : UInt8 := ((b &&& 0xf0) >>> 4) * 10 + (b &&& 0x0f)

/-- Go's `copy(dst[:], src)` into a 4-byte array -/
def copy4 (dst src : Bytes) : Bytes := (src.take 4) ++ (dst.drop (min 4 src.length)).take (4 - min 4 src.length)

/-- `zeroFirst = false` is the pinned tree: `copy(g.AuxiliaryFirmwareRevision[:], data[11:])` onto the
    previous contents when `len(data) > 11` -/
def GetDeviceIDRsp.decodeGo (zeroFirst : Bool) (prev : GetDeviceIDRsp) (d : GoSlice) : R GetDeviceIDRsp := do
  if d.len < 11 then R.err else
  let b0 ← d.idx 0; let b1 ← d.idx 1; let b2 ← d.idx 2; let b3 ← d.idx 3; let b4 ← d.idx 4; let b5 ← d.idx 5
  let b6 ← d.idx 6; let b7 ← d.idx 7; let b8 ← d.idx 8
  let p ← d.slice 9 11
  let aux ← if d.len > 11 then (do
      let t ← d.sliceFrom 11
      pure (copy4 (if zeroFirst then [0, 0, 0, 0] else prev.aux) t.vis))
    else pure [0, 0, 0, 0]
  pure { id := b0, providesSDRs := b1 &&& 0x80 != 0, revision := b1 &&& 0x0f
         available := b2 &&& 0x80 == 0, majorFirmwareRevision := b2 &&& 0x7f
         minorFirmwareRevision := bcdDecode b3
         majorIPMIVersion := b4 &&& 0xf, minorIPMIVersion := b4 >>> 4, support := b5
         manufacturer := b6.toNat + 256 * b7.toNat + 65536 * b8.toNat
         product := (p.vis.getD 0 0).toNat + 256 * (p.vis.getD 1 0).toNat
         aux := aux, contents := d.vis }

def GetDeviceIDRsp.decode (b : Bytes) : Except Unit GetDeviceIDRsp :=
  if b.length < 11 then .error () else
  .ok { id := b.getD 0 0, providesSDRs := b.getD 1 0 &&& 0x80 != 0, revision := b.getD 1 0 &&& 0x0f
        available := b.getD 2 0 &&& 0x80 == 0, majorFirmwareRevision := b.getD 2 0 &&& 0x7f
        minorFirmwareRevision := bcdDecode (b.getD 3 0)
        majorIPMIVersion := b.getD 4 0 &&& 0xf, minorIPMIVersion := b.getD 4 0 >>> 4, support := b.getD 5 0
        manufacturer := (b.getD 6 0).toNat + 256 * (b.getD 7 0).toNat + 65536 * (b.getD 8 0).toNat
        product := (b.getD 9 0).toNat + 256 * (b.getD 10 0).toNat
        aux := copy4 [0, 0, 0, 0] (b.drop 11), contents := b }

/-- PINNED TREE (finding 12): a 13-byte body decoded after a 15-byte one keeps two stale bytes -/
example :
    let long : Bytes := [0x20, 0x81, 0x02, 0x15, 0x02, 0xbf, 0x57, 0x01, 0x00, 0x34, 0x12, 0xAA, 0xBB, 0xCC, 0xDD]
    let r1 := GetDeviceIDRsp.decodeGo false {} (GoSlice.ofBytes long)
    (match r1 with
     | .ok v => (GetDeviceIDRsp.decodeGo false v (GoSlice.ofBytes (long.take 13))).map (·.aux)
     | _ => R.err) = R.ok [0xAA, 0xBB, 0xCC, 0xDD]
    ∧ (GetDeviceIDRsp.decodeGo false {} (GoSlice.ofBytes (long.take 13))).map (·.aux) = R.ok [0xAA, 0xBB, 0, 0] := by
  decide

theorem GetDeviceIDRsp.decodeGo_refines (prev : GetDeviceIDRsp) (d : GoSlice) :
    GetDeviceIDRsp.decodeGo true prev d = R.ofExcept (GetDeviceIDRsp.decode d.vis) := by
  unfold GetDeviceIDRsp.decodeGo GetDeviceIDRsp.decode
  simp -zeta only [GoSlice.vis_length]
  by_cases h : d.len < 11
  · simp [h]
  · simp -zeta only [h, if_false]
    simp -zeta (disch := omega) only [GoSlice.idx_ok, R.bind_ok]
    go_round
    go_round
    go_round
    · have : d.vis.drop 11 = [] := List.drop_eq_nil_of_le (by simp; omega)
      simp [this, copy4]
#print axioms GetDeviceIDRsp.decodeGo_refines
