import Bmc.Basic.Tactics
import Bmc.Wire.Simple
import Bmc.Prim.Strings
import Bmc.Prim.Packed6
/-! Models of the SDR group of pkg/ipmi: `GetSDRRepositoryInfoRsp.DecodeFromBytes` and
    `FullSensorRecord.DecodeFromBytes` (with `complement.Twos` and the choice of ID string decoder).
    Reserve SDR Repository, Get SDR, the SDR header and Get Sensor Reading are in `Wire/Simple.lean`
    (`ReserveRsp`, `GetSDRRsp`, `SDRHeader`, `SensorReadingRsp`; checked against the Go source: same guards,
    same slices, same fields). -/
namespace Bmc.Wire
open Bmc

-- Get SDR Repository Info -----------------------------------------------------------------------------------
structure SDRRepoInfoRsp where
  version : UInt8 := 0          -- bcd.Decode(data[0]&0xf)*10 + bcd.Decode(data[0]>>4)
  records : Nat := 0
  freeSpace : Nat := 0
  lastAddition : Nat := 0       -- time.Unix(seconds, 0), kept as the seconds (the zero time.Time is rendered 0 as well)
  lastErase : Nat := 0
  flags : UInt8 := 0            -- data[13] with the unread bit 4 cleared: 7 overflow, 6 modal, 5 non-modal, 3 delete,
                                -- 2 partial add, 1 reserve, 0 allocation info
  contents : Bytes := []
  payload : Bytes := []
  deriving Repr, DecidableEq

def SDRRepoInfoRsp.decodeGo (_prev : SDRRepoInfoRsp) (d : GoSlice) : R SDRRepoInfoRsp := do
  if d.len < 14 then R.err else
  let c ← d.slice 0 14
  let p ← d.sliceFrom 14
  let b0 ← d.idx 0
  let r ← d.slice 1 3
  let f ← d.slice 3 5
  let a ← d.slice 5 9
  let e ← d.slice 9 13
  let b13 ← d.idx 13
  pure { version := (bcd (b0 &&& (0xf : UInt8))) * (10 : UInt8) + bcd (b0 >>> (4 : UInt8))
         records := le16 r.vis, freeSpace := le16 f.vis, lastAddition := le32 a.vis, lastErase := le32 e.vis
         flags := b13 &&& 0xef, contents := c.vis, payload := p.vis }
def SDRRepoInfoRsp.decode (b : Bytes) : R SDRRepoInfoRsp := SDRRepoInfoRsp.decodeGo {} (GoSlice.ofBytes b)

-- complement.Twos ---------------------------------------------------------------------------------------------
/-- `complement.Twos([2]byte{hi, lo}, bits)`: `numerical := uint16(lo) | uint16(hi)<<8; mask := uint16(1) << (uint16(bits)-1);
    int16((numerical ^ mask) - mask)`. (Go's shift count is not reduced modulo 16, Lean's is: the two agree for
    1 ≤ bits ≤ 16; the decoder calls it with 10 and 4 only.) -/
def twosGo (hi lo : UInt8) (bits : UInt8) : Int16 :=
  let numerical : UInt16 := lo.toUInt16 ||| (hi.toUInt16 <<< 8)
  let mask : UInt16 := (1 : UInt16) <<< (bits.toUInt16 - 1)
  ((numerical ^^^ mask) - mask).toInt16

-- ID string ---------------------------------------------------------------------------------------------------
/-- `StringEncoding(data[42] >> 6).Decoder()` followed by `decoder.Decode(b, c)`: the map has entries for 0…3
    (0 and 3 both `decode8BitAsciiLatin1`), any other key is the "no decoder found" error -/
def idDecoder (enc : UInt8) (d : GoSlice) (c : Nat) : R (Bytes × Nat) :=
  if enc = 1 then Prim.bcdPlusGo d c
  else if enc = 2 then Prim.decode6Go d c
  else if enc = 0 ∨ enc = 3 then Prim.latin1Go d c
  else R.err

-- Full Sensor Record ------------------------------------------------------------------------------------------
structure FullSensorRecord where
  ownerAddress : UInt8 := 0
  channel : UInt8 := 0
  ownerLUN : UInt8 := 0
  number : UInt8 := 0
  m : Int := 0                  -- int16
  b : Int := 0                  -- int16
  bExp : Int := 0               -- int8
  rExp : Int := 0               -- int8
  isContainerEntity : Bool := false
  entity : UInt8 := 0
  inst : UInt8 := 0
  ignore : Bool := false
  sensorType : UInt8 := 0
  outputType : UInt8 := 0
  analogDataFormat : UInt8 := 0
  rateUnit : UInt8 := 0
  isPercentage : Bool := false
  baseUnit : UInt8 := 0
  modifierUnit : UInt8 := 0
  linearisation : UInt8 := 0
  tolerance : UInt8 := 0
  accuracy : Int := 0           -- int16
  accuracyExp : UInt8 := 0
  direction : UInt8 := 0
  nominalReadingSpecified : Bool := false
  normalMinSpecified : Bool := false
  normalMaxSpecified : Bool := false
  nominalReading : UInt8 := 0
  normalMin : UInt8 := 0
  normalMax : UInt8 := 0
  sensorMin : UInt8 := 0
  sensorMax : UInt8 := 0
  identity : Bytes := []        -- the Go string's bytes (every rune produced is < 0x80, or a raw byte)
  contents : Bytes := []
  payload : Bytes := []
  deriving Repr, DecidableEq

/-- the assignments of `FullSensorRecord.DecodeFromBytes`, as a function of the bytes they read -/
def FullSensorRecord.ofBytes (b0 b1 b2 b3 b4 b6 b7 b8 b15 b16 b17 b18 b19 b20 b21 b22 b23 b24 b25 b26 b27 b28 b29 b30 : UInt8)
    (identity contents payload : Bytes) : FullSensorRecord :=
  { ownerAddress := b0, channel := b1 >>> 4, ownerLUN := b1 &&& 0x3, number := b2
    entity := b3, isContainerEntity := b4 &&& 0x80 != 0, inst := b4 &&& 0x7f
    ignore := b6 &&& 0x80 != 0
    sensorType := b7, outputType := b8
    analogDataFormat := b15 >>> 6, rateUnit := (b15 &&& 0x38) >>> 3, isPercentage := b15 &&& 1 != 0
    baseUnit := b16, modifierUnit := b17
    linearisation := b18 &&& 0x7f
    m := (twosGo (b20 >>> 6) b19 10).toInt
    tolerance := b20 &&& 0x3f
    b := (twosGo (b22 >>> 6) b21 10).toInt
    accuracy := (twosGo ((b23 &&& 0xf0) >>> 6) ((b22 &&& (0x3f : UInt8)) ||| ((b23 &&& (0xf0 : UInt8)) <<< (2 : UInt8))) 10).toInt
    accuracyExp := (b23 &&& 0xc) >>> 2
    direction := b23 &&& 0x3
    rExp := (twosGo 0 (b24 >>> 4) 4).toInt8.toInt
    bExp := (twosGo 0 (b24 &&& 0xf) 4).toInt8.toInt
    nominalReadingSpecified := b25 &&& 1 != 0
    normalMaxSpecified := b25 &&& 2 != 0
    normalMinSpecified := b25 &&& 4 != 0
    nominalReading := b26, normalMax := b27, normalMin := b28
    sensorMax := b29, sensorMin := b30
    identity := identity, contents := contents, payload := payload }

def FullSensorRecord.decodeGo (_prev : FullSensorRecord) (d : GoSlice) : R FullSensorRecord := do
  if d.len < 43 then R.err else
  let b0 ← d.idx 0; let b1 ← d.idx 1; let b2 ← d.idx 2; let b3 ← d.idx 3; let b4 ← d.idx 4
  let b6 ← d.idx 6; let b7 ← d.idx 7; let b8 ← d.idx 8
  let b15 ← d.idx 15; let b16 ← d.idx 16; let b17 ← d.idx 17; let b18 ← d.idx 18; let b19 ← d.idx 19
  let b20 ← d.idx 20; let b21 ← d.idx 21; let b22 ← d.idx 22; let b23 ← d.idx 23; let b24 ← d.idx 24
  let b25 ← d.idx 25; let b26 ← d.idx 26; let b27 ← d.idx 27; let b28 ← d.idx 28; let b29 ← d.idx 29
  let b30 ← d.idx 30
  let b42 ← d.idx 42
  let t ← d.sliceFrom 43
  let r ← idDecoder (b42 >>> 6) t (b42 &&& 0x1f).toNat
  let c ← d.slice 0 (43 + r.2)
  let p ← d.sliceFrom (43 + r.2)
  pure (FullSensorRecord.ofBytes b0 b1 b2 b3 b4 b6 b7 b8 b15 b16 b17 b18 b19 b20 b21 b22 b23 b24 b25 b26 b27 b28 b29 b30
          r.1 c.vis p.vis)

/-- packed 6-bit ASCII as a function of the bytes: character `i` -/
def char6P (b : Bytes) (i : Nat) : UInt8 :=
  let o := Prim.off6 i
  if i % 4 = 0 then (b.getD o 0 &&& 0x3f) + 0x20
  else if i % 4 = 1 then ((b.getD o 0 >>> 6) ||| ((b.getD (o + 1) 0 &&& 0xf) <<< 2)) + 0x20
  else if i % 4 = 2 then ((b.getD o 0 >>> 4) ||| ((b.getD (o + 1) 0 &&& 0x3) <<< 4)) + 0x20
  else (b.getD o 0 >>> 2) + 0x20

def dec6P (b : Bytes) (c : Nat) : Option (Bytes × Nat) :=
  if b.length < c - c / 4 then none else some ((List.range' 0 c).map (char6P b), c - c / 4)

/-- the four ID string decoders as functions of the bytes that follow the type/length byte -/
def idPure (enc : UInt8) (b : Bytes) (c : Nat) : Option (Bytes × Nat) :=
  if enc = 1 then Spec.bcdPlus b c
  else if enc = 2 then dec6P b c
  else if enc = 0 ∨ enc = 3 then Spec.latin1 b c
  else none

/-- the pure decoder -/
def FullSensorRecord.decode (b : Bytes) : Except Unit FullSensorRecord :=
  if b.length < 43 then .error () else
  match idPure (b.getD 42 0 >>> 6) (b.drop 43) (b.getD 42 0 &&& 0x1f).toNat with
  | none => .error ()
  | some r => .ok (FullSensorRecord.ofBytes (b.getD 0 0) (b.getD 1 0) (b.getD 2 0) (b.getD 3 0) (b.getD 4 0) (b.getD 6 0)
      (b.getD 7 0) (b.getD 8 0) (b.getD 15 0) (b.getD 16 0) (b.getD 17 0) (b.getD 18 0) (b.getD 19 0) (b.getD 20 0)
      (b.getD 21 0) (b.getD 22 0) (b.getD 23 0) (b.getD 24 0) (b.getD 25 0) (b.getD 26 0) (b.getD 27 0) (b.getD 28 0)
      (b.getD 29 0) (b.getD 30 0) r.1 (b.take (43 + r.2)) (b.drop (43 + r.2)))

/-- the repository's own test vector (full_sensor_record_test.go, second case): M = −257, B = 496,
    accuracy = −342, R exp = −6, B exp = 5, nine packed 6-bit characters, three trailing bytes -/
def fsrTestVector : Bytes :=
  [0x30, 0x5e, 0x16, 0x0a, 0xe0, 0x7f, 0xe8, 0x03, 0x01, 0x00, 0x72, 0x00, 0x72, 0x3f, 0x3f, 0x2d, 0x05, 0x0e,
   0x05, 0xff, 0xb5, 0xf0, 0x6a, 0xad, 0xa5, 0xaa, 0x08, 0x11, 0x3a, 0x7b, 0x80, 0x64, 0x64, 0x5f, 0x00, 0x00,
   0x00, 0x02, 0x02, 0xff, 0xff, 0xff, 0x89, 0x18, 0x01, 0x74, 0xc7, 0xce, 0xdb, 0x3f, 0x9a, 0x00, 0x00]
example :
    (FullSensorRecord.decodeGo {} (GoSlice.ofBytes fsrTestVector)).map (fun r => [r.m, r.b, r.accuracy, r.rExp, r.bExp])
      = R.ok [-257, 496, -342, -6, 5] ∧
    (FullSensorRecord.decodeGo {} (GoSlice.ofBytes fsrTestVector)).map (fun r => (r.tolerance, r.identity, r.payload))
      = R.ok (53, [0x38, 0x24, 0x20, 0x3d, 0x27, 0x5b, 0x5c, 0x56, 0x5f], [0x9a, 0, 0]) := by
  decide +kernel

end Bmc.Wire
