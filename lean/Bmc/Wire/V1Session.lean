import Bmc.Basic.Tactics
import Bmc.Wire.V2Session
/-! Model of `ipmi.V1Session.DecodeFromBytes`. -/
namespace Bmc.Wire
open Bmc

structure V1Session where
  authType : UInt8 := 0
  sequence : Nat := 0
  id : Nat := 0
  authCode : Bytes := List.replicate 16 0
  length : UInt8 := 0
  contents : Bytes := []
  payload : Bytes := []
  deriving Repr, DecidableEq

/-- `resetAuthCode = false` is the pinned tree: `AuthCode` keeps its previous value when the auth type is none -/
def V1Session.decodeGo (resetAuthCode : Bool) (prev : V1Session) (d : GoSlice) : R V1Session := do
  if d.len < 10 then R.err else
  let at_ ← d.idx 0
  let sSeq ← d.slice 1 5
  let sId ← d.slice 5 9
  if at_ == 0 then
    let c ← d.slice 0 10
    let p ← d.sliceFrom 10
    let l ← d.idx 9
    pure { authType := at_, sequence := le32 sSeq.vis, id := le32 sId.vis
           authCode := if resetAuthCode then List.replicate 16 0 else prev.authCode
           length := l, contents := c.vis, payload := p.vis }
  else
    if d.len < 26 then R.err else
    let c ← d.slice 0 26
    let p ← d.sliceFrom 26
    let ac ← d.slice 9 25
    let l ← d.idx 25
    pure { authType := at_, sequence := le32 sSeq.vis, id := le32 sId.vis, authCode := ac.vis
           length := l, contents := c.vis, payload := p.vis }

def V1Session.decode (b : Bytes) : Except Unit V1Session :=
  if b.length < 10 then .error () else
  if b.getD 0 0 == 0 then
    .ok { authType := b.getD 0 0, sequence := le32 (b.drop 1), id := le32 (b.drop 5)
          authCode := List.replicate 16 0, length := b.getD 9 0, contents := b.take 10, payload := b.drop 10 }
  else if b.length < 26 then .error () else
    .ok { authType := b.getD 0 0, sequence := le32 (b.drop 1), id := le32 (b.drop 5)
          authCode := (b.drop 9).take 16, length := b.getD 25 0, contents := b.take 26, payload := b.drop 26 }

/-- PINNED TREE (finding 12b): the AuthCode of an earlier authenticated packet survives -/
example :
    let p : V1Session := { authCode := List.replicate 16 0xEE }
    (V1Session.decodeGo false p (GoSlice.ofBytes (List.replicate 12 0))).map (·.authCode) = R.ok (List.replicate 16 0xEE) := by
  decide

end Bmc.Wire
