import Bmc.Basic.Tactics
import Bmc.Crypto.Toy
/-! Model of `ipmi.AES128CBC` (pkg/ipmi/aes_128_cbc.go): SerializeTo and DecodeFromBytes. -/
namespace Bmc.Wire
open Bmc Bmc.Crypto

structure AESLayer where
  contents : Bytes := []      -- the IV
  payload : Bytes := []       -- decrypted message
  deriving Repr, DecidableEq

/-- confidentiality trailer: 01, 02, …, n, then n -/
def confPad (n : Nat) : Bytes := (List.range n).map (fun i => UInt8.ofNat (i + 1)) ++ [UInt8.ofNat n]

def padLen (msgLen : Nat) : Nat := 15 - msgLen % 16

/-- `AES128CBC.SerializeTo` with the IV drawn from the entropy stream -/
def AESLayer.encode (C : Ops) (key iv msg : Bytes) : Bytes :=
  let pt := msg ++ confPad (padLen msg.length)
  iv ++ cbcEnc C key (pt.length / 16) iv pt

/-- the pad-checking loop: `data[padStart+i] == i+1` for i < padBytes -/
def padOk (pad : Bytes) : Bool := pad == (List.range pad.length).map (fun i => UInt8.ofNat (i + 1))

/-- `AES128CBC.DecodeFromBytes`. The in-place decryption is modelled by computing the plaintext from the
    visible bytes; afterwards the Go code only indexes `data` (never beyond `len`) except for the final
    `data[16:padStart]`. `guardStart = false` is the pinned tree. -/
def AESLayer.decodeGo (C : Ops) (key : Bytes) (guardStart : Bool) (_prev : AESLayer) (d : GoSlice) : R AESLayer := do
  if d.len < 17 || d.len % 16 != 0 then R.err else
  let iv ← d.slice 0 16
  let ct ← d.sliceFrom 16
  let pt := cbcDec C key (ct.len / 16) iv.vis ct.vis
  let data' := GoSlice.ofBytes (iv.vis ++ pt)        -- what `data` holds after CryptBlocks
  let padBytes ← data'.idx (d.len - 1)
  if padBytes > 16 then R.err else
  let padStart := d.len - padBytes.toNat - 1
  let pad ← data'.slice padStart (padStart + padBytes.toNat)
  if !padOk pad.vis then R.err else
  if guardStart && padStart < 16 then R.err else
  let p ← data'.slice 16 padStart
  pure { contents := iv.vis, payload := p.vis }

def AESLayer.decode (C : Ops) (key : Bytes) (b : Bytes) : Except Unit AESLayer :=
  if b.length < 17 || b.length % 16 != 0 then .error () else
  let iv := b.take 16
  let pt := cbcDec C key ((b.length - 16) / 16) iv (b.drop 16)
  let data' := iv ++ pt
  let padBytes := data'.getD (b.length - 1) 0
  if padBytes > 16 then .error () else
  let padStart := b.length - padBytes.toNat - 1
  if !padOk ((data'.drop padStart).take padBytes.toNat) then .error () else
  if padStart < 16 then .error () else
  .ok { contents := iv, payload := (data'.drop 16).take (padStart - 16) }

/-- PINNED TREE (finding 3): one ciphertext block whose plaintext is 02,…,10h followed by pad length 10h,
    with IV[15] = 01, passes the pad check and panics at `data[16:15]` (toy cipher, zero key = identity) -/
example :
    let iv : Bytes := List.replicate 15 0 ++ [1]
    let pt : Bytes := (List.range 15).map (fun i => UInt8.ofNat (i + 2)) ++ [16]
    AESLayer.decodeGo toy (List.replicate 16 0) false {} (GoSlice.ofBytes (iv ++ cbcEnc toy (List.replicate 16 0) 1 iv pt))
      = R.panic := by
  decide

end Bmc.Wire
