import Bmc.Basic.Go
/-! Model of `ipmi.V2Session.DecodeFromBytes` (pkg/ipmi/v2session.go). -/
namespace Bmc.Wire
open Bmc

structure V2Session where
  encrypted : Bool := false
  authenticated : Bool := false
  payloadType : UInt8 := 0
  enterprise : Nat := 0
  payloadID : Nat := 0
  id : Nat := 0
  sequence : Nat := 0
  length : Nat := 0
  pad : UInt8 := 0
  signature : Bytes := []
  contents : Bytes := []
  payload : Bytes := []
  deriving Repr, DecidableEq

def le16 (b : Bytes) : Nat := (b.getD 0 0).toNat + 256 * (b.getD 1 0).toNat
def le32 (b : Bytes) : Nat :=
  (b.getD 0 0).toNat + 256 * (b.getD 1 0).toNat + 65536 * (b.getD 2 0).toNat + 16777216 * (b.getD 3 0).toNat

@[simp] theorem le32_take (l : Bytes) (n : Nat) (h : 4 ≤ n) : le32 (l.take n) = le32 l := by
  simp [le32, getD_take, show 0 < n by omega, show 1 < n by omega, show 2 < n by omega, show 3 < n by omega]

@[simp] theorem le16_take (l : Bytes) (n : Nat) (h : 2 ≤ n) : le16 (l.take n) = le16 l := by
  simp [le16, getD_take, show 0 < n by omega, show 1 < n by omega]

/-- number of iterations of the pad-scanning loop over the bytes after the payload:
    `for b := 0xFF; offset < len(data) && b == 0xFF; offset++ { b = data[offset] }` -/
def scanFF : Bytes → Nat
  | [] => 0
  | b :: bs => if b == 0xFF then 1 + scanFF bs else 1

theorem scanFF_le (bs : Bytes) : scanFF bs ≤ bs.length := by
  induction bs with
  | nil => simp [scanFF]
  | cons b bs ih => simp only [scanFF]; split <;> simp <;> omega

/-- `mac` is the integrity algorithm already keyed (nil ⇒ `executeHash` returns nil ⇒ `fun _ => []`) -/
def V2Session.decodeGo (mac : Bytes → Bytes) (_prev : V2Session) (d : GoSlice) : R V2Session := do
  if d.len < 12 then R.err else
  let b0 ← d.idx 0
  if b0 != 6 then R.err else
  let b1 ← d.idx 1
  let enc := b1 &&& 0x80 != 0
  let auth := b1 &&& 0x40 != 0
  let pt := b1 &&& 0x3f
  let oem := pt == 2
  if oem && d.len < 18 then R.err else
  let ent ← if oem then (do let s ← d.slice 2 6; pure (le32 s.vis)) else pure 0
  let pid ← if oem then (do let s ← d.slice 6 8; pure (le16 s.vis)) else pure 0
  let off := if oem then 8 else 2
  let sId ← d.slice off (off + 4)
  let sSeq ← d.slice (off + 4) (off + 8)
  let sLen ← d.slice (off + 8) (off + 10)
  let len := le16 sLen.vis
  let off := off + 10
  let contents ← d.slice 0 off
  if d.len < off + len then R.err else
  let payload ← d.slice off (off + len)
  let off := off + len
  if !auth then
    pure { encrypted := enc, authenticated := auth, payloadType := pt, enterprise := ent, payloadID := pid
           id := le32 sId.vis, sequence := le32 sSeq.vis, length := len, pad := 0, signature := []
           contents := contents.vis, payload := payload.vis }
  else
    let rest ← d.sliceFrom off            -- not a Go expression: the loop only indexes under `offset < len(data)`
    let n := scanFF rest.vis
    -- offset after the loop is off + n; `offset--`; Pad = uint8(offset - padStart); `offset += 2`
    let sigOff := off + n + 1
    if d.len < sigOff then R.err else
    let sig ← d.sliceFrom sigOff
    let signed ← d.slice 0 sigOff
    if sig.vis != mac signed.vis then R.err else
    pure { encrypted := enc, authenticated := auth, payloadType := pt, enterprise := ent, payloadID := pid
           id := le32 sId.vis, sequence := le32 sSeq.vis, length := len
           pad := UInt8.ofNat (n - 1), signature := sig.vis
           contents := contents.vis, payload := payload.vis }

/-- pure reference decoder -/
def V2Session.decode (mac : Bytes → Bytes) (b : Bytes) : Except Unit V2Session :=
  if b.length < 12 then .error () else
  if b.getD 0 0 != 6 then .error () else
  let b1 := b.getD 1 0
  let auth := b1 &&& 0x40 != 0
  let pt := b1 &&& 0x3f
  let oem := pt == 2
  if oem && b.length < 18 then .error () else
  let off := if oem then 8 else 2
  let len := le16 (b.drop (off + 8))
  let hdr := off + 10
  if b.length < hdr + len then .error () else
  let base : V2Session :=
    { encrypted := b1 &&& 0x80 != 0, authenticated := auth, payloadType := pt
      enterprise := if oem then le32 (b.drop 2) else 0
      payloadID := if oem then le16 (b.drop 6) else 0
      id := le32 (b.drop off), sequence := le32 (b.drop (off + 4)), length := len
      contents := b.take hdr, payload := (b.drop hdr).take len }
  if !auth then .ok base else
  let n := scanFF (b.drop (hdr + len))
  let sigOff := hdr + len + n + 1
  if b.length < sigOff then .error () else
  if b.drop sigOff != mac (b.take sigOff) then .error () else
  .ok { base with pad := UInt8.ofNat (n - 1), signature := b.drop sigOff }

end Bmc.Wire
