import Bmc.Basic.Tactics
import Bmc.Wire.V2Session
/-! Models of the small response layers of pkg/ipmi. Each `decodeGo` mirrors the Go method; `decode` is the same
    function on a fresh receiver and an exact-capacity slice; `decodeGo_canon` is the C05+C17 statement. -/
namespace Bmc.Wire
open Bmc

macro "canon_proof" guardLemma:term : tactic => `(tactic| (
  by_cases h : $guardLemma
  · simp [h, R.bad]
  · simp -zeta only [h, if_false]
    (try simp -zeta (disch := (first | omega | (simp only [GoSlice.len_ofBytes, GoSlice.vis_length]; omega))) only
      [GoSlice.idx_ok, R.bind_ok, GoSlice.vis_ofBytes])
    constructor <;>
      (go_round [le32_take, le16_take]
       go_round [le32_take, le16_take]
       go_round [le32_take, le16_take]
       go_round [le32_take, le16_take])))

-- Get Channel Authentication Capabilities ------------------------------------------------------------
structure AuthCapsRsp where
  channel : UInt8 := 0
  authTypes : UInt8 := 0      -- byte 1 as is (bit 7 extended, 5 OEM, 4 password, 2 MD5, 1 MD2, 0 none)
  status : UInt8 := 0         -- byte 2 bits 5..0
  versions : UInt8 := 0       -- byte 3 bits 1..0
  oem : Nat := 0
  oemData : UInt8 := 0
  contents : Bytes := []
  payload : Bytes := []
  deriving Repr, DecidableEq

def AuthCapsRsp.decodeGo (_prev : AuthCapsRsp) (d : GoSlice) : R AuthCapsRsp := do
  if d.len < 8 then R.err else
  let c ← d.slice 0 8
  let p ← d.sliceFrom 8
  let b0 ← d.idx 0; let b1 ← d.idx 1; let b2 ← d.idx 2; let b3 ← d.idx 3
  let b4 ← d.idx 4; let b5 ← d.idx 5; let b6 ← d.idx 6; let b7 ← d.idx 7
  pure { channel := b0, authTypes := b1 &&& 0xb7, status := b2 &&& 0x3f, versions := b3 &&& 3
         oem := b4.toNat + 256 * b5.toNat + 65536 * b6.toNat, oemData := b7, contents := c.vis, payload := p.vis }
def AuthCapsRsp.decode (b : Bytes) : R AuthCapsRsp := AuthCapsRsp.decodeGo {} (GoSlice.ofBytes b)
theorem AuthCapsRsp.decodeGo_canon (prev : AuthCapsRsp) (d : GoSlice) :
    AuthCapsRsp.decodeGo prev d = AuthCapsRsp.decode d.vis ∧ (AuthCapsRsp.decodeGo prev d).bad = false := by
  unfold AuthCapsRsp.decode AuthCapsRsp.decodeGo
  simp -zeta only [GoSlice.len_ofBytes, GoSlice.vis_length]
  canon_proof (d.len < 8)

-- Get Channel Cipher Suites ---------------------------------------------------------------------------
structure CipherSuitesRsp where
  channel : UInt8 := 0
  chunk : Bytes := []
  contents : Bytes := []
  payload : Bytes := []
  deriving Repr, DecidableEq

def CipherSuitesRsp.decodeGo (_prev : CipherSuitesRsp) (d : GoSlice) : R CipherSuitesRsp := do
  if d.len < 1 then R.err else
  let e := if d.len > 17 then 17 else d.len
  let c ← d.slice 0 e
  let p ← d.sliceFrom e
  let b0 ← d.idx 0
  let ch ← d.slice 1 e
  pure { channel := b0, chunk := ch.vis, contents := c.vis, payload := p.vis }
def CipherSuitesRsp.decode (b : Bytes) : R CipherSuitesRsp := CipherSuitesRsp.decodeGo {} (GoSlice.ofBytes b)
theorem CipherSuitesRsp.decodeGo_canon (prev : CipherSuitesRsp) (d : GoSlice) :
    CipherSuitesRsp.decodeGo prev d = CipherSuitesRsp.decode d.vis ∧ (CipherSuitesRsp.decodeGo prev d).bad = false := by
  unfold CipherSuitesRsp.decode CipherSuitesRsp.decodeGo
  simp -zeta only [GoSlice.len_ofBytes, GoSlice.vis_length]
  by_cases h : d.len < 1
  · simp [h, R.bad]
  · simp -zeta only [h, if_false]
    by_cases h17 : d.len > 17
    · simp only [h17, if_true]
      constructor <;> (go_round; go_round; go_round)
    · simp only [h17, if_false]
      constructor <;> (go_round; go_round; go_round)

-- Set Session Privilege Level ---------------------------------------------------------------------------
structure SetPrivRsp where
  level : UInt8 := 0
  deriving Repr, DecidableEq
def SetPrivRsp.decodeGo (_prev : SetPrivRsp) (d : GoSlice) : R SetPrivRsp := do
  if d.len != 1 then R.err else
  let b ← d.idx 0
  pure { level := b &&& 0xF }
def SetPrivRsp.decode (b : Bytes) : R SetPrivRsp := SetPrivRsp.decodeGo {} (GoSlice.ofBytes b)
theorem SetPrivRsp.decodeGo_canon (prev : SetPrivRsp) (d : GoSlice) :
    SetPrivRsp.decodeGo prev d = SetPrivRsp.decode d.vis ∧ (SetPrivRsp.decodeGo prev d).bad = false := by
  unfold SetPrivRsp.decode SetPrivRsp.decodeGo
  simp -zeta only [GoSlice.len_ofBytes, GoSlice.vis_length]
  by_cases h : (d.len != 1) = true
  · simp [h, R.bad]
  · simp -zeta only [h, if_false, Bool.false_eq_true]
    have : d.len = 1 := by simpa using h
    constructor <;> (go_round; go_round)

-- Get System GUID / Reserve SDR Repository / Get SDR / SDR header / Get Sensor Reading -----------------------
structure GUIDRsp where
  guid : Bytes := List.replicate 16 0
  contents : Bytes := []
  deriving Repr, DecidableEq
def GUIDRsp.decodeGo (_prev : GUIDRsp) (d : GoSlice) : R GUIDRsp := do
  if d.len < 16 then R.err else
  let c ← d.slice 0 16
  pure { guid := c.vis, contents := c.vis }
def GUIDRsp.decode (b : Bytes) : R GUIDRsp := GUIDRsp.decodeGo {} (GoSlice.ofBytes b)
theorem GUIDRsp.decodeGo_canon (prev : GUIDRsp) (d : GoSlice) :
    GUIDRsp.decodeGo prev d = GUIDRsp.decode d.vis ∧ (GUIDRsp.decodeGo prev d).bad = false := by
  unfold GUIDRsp.decode GUIDRsp.decodeGo
  simp -zeta only [GoSlice.len_ofBytes, GoSlice.vis_length]
  canon_proof (d.len < 16)

structure ReserveRsp where
  reservationID : Nat := 0
  contents : Bytes := []
  deriving Repr, DecidableEq
def ReserveRsp.decodeGo (_prev : ReserveRsp) (d : GoSlice) : R ReserveRsp := do
  if d.len < 2 then R.err else
  let c ← d.slice 0 2
  pure { reservationID := le16 c.vis, contents := c.vis }
def ReserveRsp.decode (b : Bytes) : R ReserveRsp := ReserveRsp.decodeGo {} (GoSlice.ofBytes b)
theorem ReserveRsp.decodeGo_canon (prev : ReserveRsp) (d : GoSlice) :
    ReserveRsp.decodeGo prev d = ReserveRsp.decode d.vis ∧ (ReserveRsp.decodeGo prev d).bad = false := by
  unfold ReserveRsp.decode ReserveRsp.decodeGo
  simp -zeta only [GoSlice.len_ofBytes, GoSlice.vis_length]
  canon_proof (d.len < 2)

structure GetSDRRsp where
  next : Nat := 0
  contents : Bytes := []
  payload : Bytes := []
  deriving Repr, DecidableEq
def GetSDRRsp.decodeGo (_prev : GetSDRRsp) (d : GoSlice) : R GetSDRRsp := do
  if d.len < 2 then R.err else
  let c ← d.slice 0 2
  let p ← d.sliceFrom 2
  pure { next := le16 c.vis, contents := c.vis, payload := p.vis }
def GetSDRRsp.decode (b : Bytes) : R GetSDRRsp := GetSDRRsp.decodeGo {} (GoSlice.ofBytes b)
theorem GetSDRRsp.decodeGo_canon (prev : GetSDRRsp) (d : GoSlice) :
    GetSDRRsp.decodeGo prev d = GetSDRRsp.decode d.vis ∧ (GetSDRRsp.decodeGo prev d).bad = false := by
  unfold GetSDRRsp.decode GetSDRRsp.decodeGo
  simp -zeta only [GoSlice.len_ofBytes, GoSlice.vis_length]
  canon_proof (d.len < 2)

def bcd (b : UInt8) : UInt8 := ((b &&& 0xf0) >>> 4) * 10 + (b &&& 0x0f)

structure SDRHeader where
  id : Nat := 0
  version : UInt8 := 0
  typ : UInt8 := 0
  length : UInt8 := 0
  contents : Bytes := []
  payload : Bytes := []
  deriving Repr, DecidableEq
def SDRHeader.decodeGo (_prev : SDRHeader) (d : GoSlice) : R SDRHeader := do
  if d.len < 5 then R.err else
  let i ← d.slice 0 2
  let b2 ← d.idx 2; let b3 ← d.idx 3; let b4 ← d.idx 4
  let c ← d.slice 0 5
  let p ← d.sliceFrom 5
  pure { id := le16 i.vis, version := (bcd (b2 &&& (0xf : UInt8))) * (10 : UInt8) + bcd (b2 >>> (4 : UInt8)), typ := b3, length := b4
         contents := c.vis, payload := p.vis }
def SDRHeader.decode (b : Bytes) : R SDRHeader := SDRHeader.decodeGo {} (GoSlice.ofBytes b)
theorem SDRHeader.decodeGo_canon (prev : SDRHeader) (d : GoSlice) :
    SDRHeader.decodeGo prev d = SDRHeader.decode d.vis ∧ (SDRHeader.decodeGo prev d).bad = false := by
  unfold SDRHeader.decode SDRHeader.decodeGo
  simp -zeta only [GoSlice.len_ofBytes, GoSlice.vis_length]
  canon_proof (d.len < 5)

structure SensorReadingRsp where
  reading : UInt8 := 0
  eventMessagesEnabled : Bool := false
  scanningEnabled : Bool := false
  readingUnavailable : Bool := false
  contents : Bytes := []
  payload : Bytes := []
  deriving Repr, DecidableEq
def SensorReadingRsp.decodeGo (_prev : SensorReadingRsp) (d : GoSlice) : R SensorReadingRsp := do
  if d.len < 3 then R.err else
  let b0 ← d.idx 0; let b1 ← d.idx 1
  let e := if d.len > 3 then 4 else 3
  let c ← d.slice 0 e
  let p ← d.sliceFrom e
  pure { reading := b0, eventMessagesEnabled := b1 &&& 0x80 != 0, scanningEnabled := b1 &&& 0x40 != 0
         readingUnavailable := b1 &&& 0x20 != 0, contents := c.vis, payload := p.vis }
def SensorReadingRsp.decode (b : Bytes) : R SensorReadingRsp := SensorReadingRsp.decodeGo {} (GoSlice.ofBytes b)
theorem SensorReadingRsp.decodeGo_canon (prev : SensorReadingRsp) (d : GoSlice) :
    SensorReadingRsp.decodeGo prev d = SensorReadingRsp.decode d.vis ∧ (SensorReadingRsp.decodeGo prev d).bad = false := by
  unfold SensorReadingRsp.decode SensorReadingRsp.decodeGo
  simp -zeta only [GoSlice.len_ofBytes, GoSlice.vis_length]
  by_cases h : d.len < 3
  · simp [h, R.bad]
  · simp -zeta only [h, if_false]
    simp -zeta (disch := (first | omega | (simp only [GoSlice.len_ofBytes, GoSlice.vis_length]; omega))) only
      [GoSlice.idx_ok, R.bind_ok, GoSlice.vis_ofBytes]
    by_cases h3 : d.len > 3
    · simp only [h3, if_true]
      constructor <;> (go_round; go_round; go_round)
    · simp only [h3, if_false]
      constructor <;> (go_round; go_round; go_round)

end Bmc.Wire
