import Bmc.Wire.Encode
import Bmc.Wire.Rakp2
/-! Models of the RMCP+ session-setup layers: Open Session Req/Rsp, RAKP 1, 3, 4. -/
namespace Bmc.Wire
open Bmc

def algPayload (typ : UInt8) (wildcard : Bool) (alg : UInt8) : Bytes :=
  [typ, 0, 0] ++ (if wildcard then [0, 0] else [8, alg]) ++ [0, 0, 0]

/-- `OpenSessionReq.SerializeTo` -/
def OpenSessionReq.encode (tag priv : UInt8) (sid : Nat) (auth integ conf : UInt8) : Bytes :=
  [tag, priv &&& 0x0f, 0, 0] ++ putLE32 sid ++ algPayload 0 false auth ++ algPayload 1 false integ ++ algPayload 2 false conf

structure OpenSessionRsp where
  tag : UInt8 := 0
  status : UInt8 := 0
  maxPriv : UInt8 := 0
  consoleSessionID : Nat := 0
  bmcSessionID : Nat := 0
  authWild : Bool := false
  auth : UInt8 := 0
  integWild : Bool := false
  integ : UInt8 := 0
  confWild : Bool := false
  conf : UInt8 := 0
  deriving Repr, DecidableEq

/-- `{Authentication,Integrity,Confidentiality}Payload.Deserialise` on `data[a:a+8]` -/
def deserialiseAlg (typ : UInt8) (d : GoSlice) : R (Bool × UInt8) := do
  if d.len < 8 then R.err else
  let t ← d.idx 0
  if t != typ then R.err else
  let l ← d.idx 3
  let a ← d.idx 4
  let wild := l == 0
  let alg := a &&& 0x3f
  if wild && alg != 0 then R.err else
  pure (wild, alg)

/-- `OpenSessionRsp.DecodeFromBytes` -/
def OpenSessionRsp.decodeGo (prev : OpenSessionRsp) (d : GoSlice) : R OpenSessionRsp := do
  let hdr : R OpenSessionRsp ←
    if d.len == 1 then do
      let s ← d.idx 0
      pure (pure { prev with tag := 0, status := s, consoleSessionID := 0 })
    else if d.len < 7 then pure R.err
    else do
      let t ← d.idx 0; let s ← d.idx 1
      let sid ← d.slice 3 7
      pure (pure { prev with tag := t, status := s, consoleSessionID := le32 sid.vis })
  let o ← hdr
  if o.status == 0 then
    if d.len != 36 then R.err else
    let mp ← d.idx 2
    let s1 ← d.slice 4 8
    let s2 ← d.slice 8 12
    let a ← d.slice 12 20
    let (aw, aa) ← deserialiseAlg 0 a
    let i ← d.slice 20 28
    let (iw, ia) ← deserialiseAlg 1 i
    let c ← d.slice 28 36
    let (cw, ca) ← deserialiseAlg 2 c
    pure { o with maxPriv := mp, consoleSessionID := le32 s1.vis, bmcSessionID := le32 s2.vis
                  authWild := aw, auth := aa, integWild := iw, integ := ia, confWild := cw, conf := ca }
  else
    pure { o with maxPriv := 0, bmcSessionID := 0, authWild := false, auth := 0, integWild := false, integ := 0
                  confWild := false, conf := 0 }

/-- `RAKPMessage1.SerializeTo`; error when the username is longer than 16 bytes -/
def RAKP1.encode (tag : UInt8) (bmcSID : Nat) (rm : Bytes) (lookup : Bool) (priv : UInt8) (user : Bytes) : Except Unit Bytes :=
  if user.length > 16 then .error () else
  .ok ([tag, 0, 0, 0] ++ putLE32 bmcSID ++ rm ++ [(priv &&& 0xF) ||| (if lookup then 0 else 0x10), 0, 0, UInt8.ofNat user.length] ++ user)

/-- `RAKPMessage3.SerializeTo` with status OK -/
def RAKP3.encode (tag : UInt8) (bmcSID : Nat) (authCode : Bytes) : Bytes :=
  [tag, 0, 0, 0] ++ putLE32 bmcSID ++ authCode

structure RAKP4 where
  tag : UInt8 := 0
  status : UInt8 := 0
  consoleSessionID : Nat := 0
  icv : Bytes := []
  deriving Repr, DecidableEq

/-- `RAKPMessage4.DecodeFromBytes` -/
def RAKP4.decodeGo (_prev : RAKP4) (d : GoSlice) : R RAKP4 := do
  if d.len < 8 then R.err else
  let t ← d.idx 0; let s ← d.idx 1
  let sid ← d.slice 4 8
  let icv ← if s == 0 && d.len > 8 then (do let x ← d.sliceFrom 8; pure x.vis) else pure []
  pure { tag := t, status := s, consoleSessionID := le32 sid.vis, icv := icv }

end Bmc.Wire
