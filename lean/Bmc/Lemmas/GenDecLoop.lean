import Bmc.Basic.GoDec
/-! Loop lemmas for the REGENERATED decoders (`Bmc/Gen/Dec.lean`): a counting loop that fills `make([]T, n)` element by
    element (`List.foldlM` with `GoDec.setAt`) is the list of the values computed, in order; `GoDec.loopM` unfolding. -/
namespace Bmc.Lemmas.GenDec
open Bmc

theorem R.bind_assoc' {α β γ : Type} (x : R α) (f : α → R β) (g : β → R γ) :
    ((x >>= f) >>= g) = (x >>= fun a => f a >>= g) := by cases x <;> rfl

/-- the values `g k, g (k+1), …, g (k+n-1)` computed in this order (the first failure is the outcome) -/
def fillM {α : Type} (g : Nat → R α) : Nat → Nat → R (List α)
  | _, 0 => pure []
  | i, n + 1 => do
    let v ← g i
    let rest ← fillM g (i + 1) n
    pure (v :: rest)

theorem set_append_drop' {α : Type} (A P : List α) (v : α) (hP : 0 < P.length) :
    (A ++ P).set A.length v = (A ++ [v]) ++ P.drop 1 := by
  cases P with
  | nil => simp at hP
  | cons p ps => simp

/-- filling a slice of the right length from index `k` on -/
theorem foldlM_setAt {α : Type} (g : Nat → R α) (n : Nat) : ∀ (k : Nat) (pre post : List α),
    pre.length = k → post.length = n →
    List.foldlM (fun rs i => g i >>= fun v => GoDec.setAt rs i v) (pre ++ post) (List.range' k n)
      = (fillM g k n).map (fun l => pre ++ l) := by
  induction n with
  | zero =>
    intro k pre post _ hpost
    have : post = [] := List.eq_nil_of_length_eq_zero hpost
    simp [fillM, R.map, this]
  | succ n ih =>
    intro k pre post hpre hpost
    rw [List.range'_succ, List.foldlM_cons]
    simp only [fillM]
    cases hg : g k with
    | ok v =>
      simp only [R.bind_ok]
      have hlt : k < (pre ++ post).length := by simp; omega
      have hs : GoDec.setAt (pre ++ post) k v = .ok ((pre ++ [v]) ++ post.drop 1) := by
        unfold GoDec.setAt
        rw [if_pos hlt, ← hpre, set_append_drop' pre post v (by omega)]
      rw [hs]
      simp only [R.bind_ok]
      rw [ih (k + 1) (pre ++ [v]) (post.drop 1) (by simp; omega) (by simp; omega)]
      cases fillM g (k + 1) n <;> simp [R.map]
    | err => simp [R.map]
    | panic => simp [R.map]
    | overread => simp [R.map]

/-- `runes := make([]T, n); for i := 0; i < n; i++ { runes[i] = g i }` -/
theorem foldlM_fill {α : Type} (g : Nat → R α) (n : Nat) (z : α) :
    List.foldlM (fun rs i => g i >>= fun v => GoDec.setAt rs i v) (List.replicate n z) (List.range n)
      = fillM g 0 n := by
  have := foldlM_setAt g n 0 [] (List.replicate n z) rfl (by simp)
  rw [List.range_eq_range']
  simp only [List.nil_append] at this
  rw [this]
  cases fillM g 0 n <;> simp [R.map]

theorem fillM_map {α β : Type} (g : Nat → R α) (f : α → β) (n : Nat) : ∀ k,
    fillM (fun i => (g i).map f) k n = (fillM g k n).map (List.map f) := by
  induction n with
  | zero => intro k; simp [fillM, R.map]
  | succ n ih =>
    intro k
    simp only [fillM, ih]
    cases g k <;> simp [R.map]
    cases fillM g (k + 1) n <;> simp

theorem fillM_congr {α : Type} (g h : Nat → R α) (n : Nat) : ∀ k, (∀ i, k ≤ i → i < k + n → g i = h i) →
    fillM g k n = fillM h k n := by
  induction n with
  | zero => intro k _; rfl
  | succ n ih =>
    intro k hk
    simp only [fillM]
    rw [hk k (Nat.le_refl _) (by omega), ih (k + 1) (fun i h1 h2 => hk i (by omega) (by omega))]

/-- every value produced satisfies `P` when each `g i` does -/
theorem fillM_all {α : Type} (g : Nat → R α) (P : α → Prop) (hP : ∀ i v, g i = .ok v → P v) (n : Nat) : ∀ k l,
    fillM g k n = .ok l → ∀ v ∈ l, P v := by
  induction n with
  | zero => intro k l h; simp [fillM] at h; cases h; simp
  | succ n ih =>
    intro k l h
    simp only [fillM] at h
    cases hg : g k with
    | ok v =>
      rw [hg] at h
      simp only [R.bind_ok] at h
      cases hr : fillM g (k + 1) n with
      | ok rest =>
        rw [hr] at h
        simp at h
        cases h
        intro w hw
        cases hw with
        | head => exact hP k v hg
        | tail _ hw => exact ih (k + 1) rest hr w hw
      | err => rw [hr] at h; simp at h
      | panic => rw [hr] at h; simp at h
      | overread => rw [hr] at h; simp at h
    | err => rw [hg] at h; simp at h
    | panic => rw [hg] at h; simp at h
    | overread => rw [hg] at h; simp at h

theorem loopM_succ {σ : Type} (n : Nat) (step : σ → RF (Option σ)) (s : σ) :
    GoDec.loopM (n + 1) step s = (step s >>= fun o => match o with | none => pure s | some s' => GoDec.loopM n step s') := rfl

theorem loopM_zero {σ : Type} (step : σ → RF (Option σ)) (s : σ) : GoDec.loopM 0 step s = RF.outOfFuel := rfl

end Bmc.Lemmas.GenDec
