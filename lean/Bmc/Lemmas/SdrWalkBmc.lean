import Bmc.Proto.SdrWalk
import Bmc.Spec.Repo
import Bmc.Proofs.C07.Sdr
/-! Helper lemmas for C14, part 1: the conforming BMC of `Spec/Repo.lean` as an answer function for the model of
    `Proto/SdrWalk.lean`; what its answers decode to; timestamps only grow and stand still only when the records do. -/
namespace Bmc.Lemmas.SdrWalk
open Bmc Bmc.Wire Bmc.Spec Bmc.Proto.SdrWalk

def toSpec : Req → RepoReq
  | .repoInfo => .info
  | .reserve => .reserve
  | .getSDR a b c d => .getSDR a b c d

/-- the conforming BMC (with its future) as an answer function: it always answers -/
def bmc : Answer World := fun w q =>
  ((w.answer (toSpec q)).1, some ⟨(w.answer (toSpec q)).2.cc, (w.answer (toSpec q)).2.data⟩)

/-- what retrieval has to return for a repository content: its Full Sensor Records (type 01h), in repository order,
    each under its own Record ID, decoded -/
def fullView (recs : List SdrRec) : SDRRepository :=
  recs.filterMap fun r =>
    if r.typ = (1 : UInt8) then (match FullSensorRecord.decode r.body with | .ok f => some (r.id, f) | .error _ => none) else none

/-- the two timestamps of a BMC -/
def tsLe (w w' : World) : Prop :=
  w.repo.store.addTs ≤ w'.repo.store.addTs ∧ w.repo.store.eraseTs ≤ w'.repo.store.eraseTs
def tsEq (w w' : World) : Prop :=
  w.repo.store.addTs = w'.repo.store.addTs ∧ w.repo.store.eraseTs = w'.repo.store.eraseTs

theorem tsLe_refl (w : World) : tsLe w w := ⟨Nat.le_refl _, Nat.le_refl _⟩
theorem tsLe_trans {a b c : World} (h1 : tsLe a b) (h2 : tsLe b c) : tsLe a c :=
  ⟨Nat.le_trans h1.1 h2.1, Nat.le_trans h1.2 h2.2⟩
theorem tsEq_squeeze {a b c : World} (h1 : tsLe a b) (h2 : tsLe b c) (h : tsEq a c) : tsEq a b ∧ tsEq b c := by
  unfold tsLe tsEq at *; omega

-- modifications ---------------------------------------------------------------------------------------------------------
theorem apply_mono (s : Store) (m : Mod) : s.addTs ≤ (s.apply m).addTs ∧ s.eraseTs ≤ (s.apply m).eraseTs := by
  cases m <;> simp [Store.apply]

theorem apply_same (s : Store) (m : Mod) (h1 : (s.apply m).addTs = s.addTs) (h2 : (s.apply m).eraseTs = s.eraseTs) :
    (s.apply m).recs = s.recs := by
  cases m <;> simp [Store.apply] at *

theorem applyAll_mono (ms : List Mod) : ∀ s : Store,
    s.addTs ≤ (s.applyAll ms).addTs ∧ s.eraseTs ≤ (s.applyAll ms).eraseTs := by
  induction ms with
  | nil => intro s; simp [Store.applyAll]
  | cons m ms ih =>
    intro s
    have h1 := apply_mono s m
    have h2 := ih (s.apply m)
    simp only [Store.applyAll, List.foldl_cons] at *
    omega

theorem applyAll_same (ms : List Mod) : ∀ s : Store,
    (s.applyAll ms).addTs = s.addTs → (s.applyAll ms).eraseTs = s.eraseTs → (s.applyAll ms).recs = s.recs := by
  induction ms with
  | nil => intro s _ _; rfl
  | cons m ms ih =>
    intro s e1 e2
    have h1 := apply_mono s m
    have h2 := applyAll_mono ms (s.apply m)
    simp only [Store.applyAll, List.foldl_cons] at *
    rw [ih (s.apply m) (by omega) (by omega)]
    exact apply_same s m (by omega) (by omega)

theorem applyAll_append (s : Store) (a b : List Mod) : s.applyAll (a ++ b) = (s.applyAll a).applyAll b := by
  simp [Store.applyAll, List.foldl_append]

-- one request ---------------------------------------------------------------------------------------------------------
theorem step_store (R : Repo) (q : RepoReq) : (R.step q).1.store = R.store := by
  cases q <;> rfl

/-- the store after a request: either untouched or the next batch applied -/
theorem answer_store (w : World) (q : RepoReq) :
    ((w.answer q).1.repo.store = w.repo.store ∧ (w.answer q).1.sched = w.sched) ∨
    (∃ b ms rest, w.sched = (b, ms) :: rest ∧ (w.answer q).1.repo.store = w.repo.store.applyAll ms ∧
      (w.answer q).1.sched = rest) := by
  unfold World.answer
  cases hs : w.sched with
  | nil => left; simp [step_store]
  | cons e rest =>
    obtain ⟨b, ms⟩ := e
    by_cases hc : (b && !q.isGetSDR) = true
    · left; simp [hc, step_store]
    · right; exact ⟨b, ms, rest, rfl, by simp [hc, step_store, Repo.applyAll], by simp [hc]⟩

theorem answer_mono (w : World) (q : RepoReq) : tsLe w (w.answer q).1 := by
  rcases answer_store w q with ⟨h, _⟩ | ⟨b, ms, rest, _, h, _⟩
  · unfold tsLe; rw [h]; exact ⟨Nat.le_refl _, Nat.le_refl _⟩
  · unfold tsLe; rw [h]; exact applyAll_mono ms _

theorem answer_same (w : World) (q : RepoReq) (h : tsEq w (w.answer q).1) :
    (w.answer q).1.repo.store.recs = w.repo.store.recs := by
  rcases answer_store w q with ⟨h', _⟩ | ⟨b, ms, rest, _, h', _⟩
  · rw [h']
  · unfold tsEq at h
    rw [h'] at h ⊢
    exact applyAll_same ms _ h.1.symm h.2.symm

theorem inv_store (w : World) (h : w.Inv) : w.repo.store.wf := by
  have := h 0
  simpa [Store.applyAll] using this

theorem answer_inv (w : World) (q : RepoReq) (h : w.Inv) : (w.answer q).1.Inv := by
  rcases answer_store w q with ⟨h1, h2⟩ | ⟨b, ms, rest, hs, h1, h2⟩
  · intro k; rw [h1, h2]; exact h k
  · intro k
    rw [h1, h2, ← applyAll_append]
    have := h (k + 1)
    simpa [hs] using this

-- what the answers are --------------------------------------------------------------------------------------------------
theorem answer_info (w : World) : (w.answer .info).2 = ⟨0, (w.answer .info).1.repo.store.info.encode⟩ := by
  unfold World.answer
  cases hs : w.sched with
  | nil => rfl
  | cons e rest =>
    obtain ⟨b, ms⟩ := e
    by_cases hc : (b && !RepoReq.info.isGetSDR) = true <;> simp [hc] <;> rfl

theorem answer_reserve (w : World) :
    (w.answer .reserve).2 = ⟨0, le16 (w.answer .reserve).1.repo.resv⟩ ∧ (w.answer .reserve).1.repo.resvOk = true ∧
    (w.answer .reserve).1.repo.resv < 65536 := by
  have hlt : ∀ R : Repo, R.nextResv < 65536 := by
    intro R; unfold Repo.nextResv; split <;> omega
  unfold World.answer
  cases hs : w.sched with
  | nil => exact ⟨rfl, rfl, hlt _⟩
  | cons e rest =>
    obtain ⟨b, ms⟩ := e
    by_cases hc : (b && !RepoReq.reserve.isGetSDR) = true
    · simp only [hc, if_true]; exact ⟨rfl, rfl, hlt _⟩
    · simp only [hc]; exact ⟨rfl, rfl, hlt _⟩

theorem answer_getSDR (w : World) (resv id off len : Nat) :
    (w.answer (.getSDR resv id off len)).2 = (w.answer (.getSDR resv id off len)).1.repo.getSDR resv id off len := by
  unfold World.answer
  cases hs : w.sched with
  | nil => rfl
  | cons e rest =>
    obtain ⟨b, ms⟩ := e
    by_cases hc : (b && !(RepoReq.getSDR resv id off len).isGetSDR) = true
    · simp only [hc, if_true]; rfl
    · simp only [hc]; rfl

/-- a Get SDR leaves the reservation as the batch before it left it; nothing else touches it -/
theorem answer_getSDR_repo (w : World) (resv id off len : Nat) :
    (w.answer (.getSDR resv id off len)).1.repo.resv = w.repo.resv := by
  unfold World.answer
  cases hs : w.sched with
  | nil => rfl
  | cons e rest =>
    obtain ⟨b, ms⟩ := e
    by_cases hc : (b && !(RepoReq.getSDR resv id off len).isGetSDR) = true
    · simp only [hc, if_true]; rfl
    · simp only [hc]; rfl

-- decoding them ---------------------------------------------------------------------------------------------------------
theorem info_wf (s : Store) : s.info.wf := by
  unfold Store.info SDRRepoInfo.wf
  refine ⟨by simp, by simp, ?_, by simp, ?_, ?_⟩ <;> exact Nat.mod_lt _ (by decide)

/-- a call to the conforming BMC in terms of the answer's code and data -/
theorem call_bmc {α : Type} (dec : Bytes → R α) (w : World) (q : Req) (cc : UInt8) (data : Bytes)
    (h : (w.answer (toSpec q)).2 = ⟨cc, data⟩) :
    call bmc dec w q = ((w.answer (toSpec q)).1,
      match dec data with | .ok v => if cc = 0 then some v else none | _ => none) := by
  unfold call bmc
  simp only [h]
  cases dec data <;> simp
  split <;> rfl

/-- Get SDR Repository Info: always succeeds, the decoded timestamps are the store's -/
theorem call_info (w : World) :
    call bmc SDRRepoInfoRsp.decode w .repoInfo =
      ((w.answer .info).1, some (Proofs.C07.sdrRepoInfoView (w.answer .info).1.repo.store.info)) := by
  rw [call_bmc _ w .repoInfo _ _ (answer_info w), Proofs.C07.sdrRepoInfo_decode_spec _ (info_wf _)]
  rfl

/-- Reserve SDR Repository: always succeeds -/
theorem call_reserve (w : World) :
    call bmc ReserveRsp.decode w .reserve =
      ((w.answer .reserve).1, some { reservationID := (w.answer .reserve).1.repo.resv
                                     contents := le16 (w.answer .reserve).1.repo.resv }) := by
  obtain ⟨h1, _, h3⟩ := answer_reserve w
  have := Proofs.C07.reserveSDR_decode_spec ⟨(w.answer .reserve).1.repo.resv⟩ h3
  simp only [ReserveSDR.encode] at this
  rw [call_bmc _ w .reserve _ _ h1, this]
  rfl

end Bmc.Lemmas.SdrWalk
