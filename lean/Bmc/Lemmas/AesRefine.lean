import Bmc.Wire.Aes
namespace Bmc.Wire
open Bmc Bmc.Crypto

theorem cbcDec_len (C : Ops) (hC : C.Lawful) (key : Bytes) (n : Nat) (prev ct : Bytes)
    (hp : prev.length = 16) (hl : 16 * n ≤ ct.length) : (cbcDec C key n prev ct).length = 16 * n := by
  induction n generalizing prev ct with
  | zero => simp [cbcDec]
  | succ n ih =>
    have h1 : (ct.take 16).length = 16 := by simp; omega
    have hd := hC.dec_len key _ h1
    simp only [cbcDec, List.length_append]
    rw [xorBytes_len _ _ (by omega), hd, ih _ _ h1 (by simp; omega)]
    omega

theorem AESLayer.decodeGo_refines (C : Ops) (hC : C.Lawful) (key : Bytes) (prev : AESLayer) (d : GoSlice) :
    AESLayer.decodeGo C key true prev d = R.ofExcept (AESLayer.decode C key d.vis) := by
  unfold AESLayer.decodeGo AESLayer.decode
  simp -zeta only [GoSlice.vis_length]
  by_cases h : (d.len < 17 || d.len % 16 != 0) = true
  · simp [h]
  · simp -zeta only [h, if_false, Bool.false_eq_true]
    have h17 : ¬ d.len < 17 := by simp at h; omega
    have hmod : d.len % 16 = 0 := by simp at h; omega
    simp -zeta (disch := omega) only [GoSlice.slice_ok, GoSlice.sliceFrom_ok, R.bind_ok, GoSlice.sub_vis,
      GoSlice.sub_len, Nat.sub_zero, List.drop_zero, GoSlice.take_len_drop_vis]
    simp only []
    have hiv : (List.take 16 d.vis).length = 16 := by simp; omega
    have hpt : (cbcDec C key ((d.len - 16) / 16) (List.take 16 d.vis) (List.drop 16 d.vis)).length = d.len - 16 := by
      rw [cbcDec_len C hC _ _ _ _ hiv (by simp; omega)]; omega
    generalize cbcDec C key ((d.len - 16) / 16) (List.take 16 d.vis) (List.drop 16 d.vis) = pt at hpt ⊢
    have hbl : (List.take 16 d.vis ++ pt).length = d.len := by simp [hpt]; omega
    generalize hbuf : List.take 16 d.vis ++ pt = buf at hbl ⊢
    have hlen : (GoSlice.ofBytes buf).len = d.len := by simp [GoSlice.ofBytes, hbl]
    rw [GoSlice.idx_ok _ _ (by omega)]
    simp only [R.bind_ok, GoSlice.vis_ofBytes]
    split
    · rfl
    · rename_i hpb
      have hpb' : (List.getD buf (d.len - 1) 0).toNat ≤ 16 := by
        have := UInt8.not_lt.mp hpb
        exact UInt8.le_iff_toNat_le.mp this
      generalize (List.getD buf (d.len - 1) 0).toNat = pb at hpb' ⊢
      go_round
      go_round
      go_round
      all_goals (simp only [GoSlice.vis_ofBytes, Bool.true_and, decide_eq_true_eq] at *)
      all_goals (try contradiction)
      all_goals (try (exfalso; omega))
      all_goals (try (simp (disch := omega) only [GoSlice.slice_ok, R.bind_ok, GoSlice.sub_vis, GoSlice.vis_ofBytes]))
#print axioms AESLayer.decodeGo_refines
