import Bmc.Lemmas.RequestsBits
/-! Request data of every request layer: the reference parser recovers the caller's fields (C06, body level). -/
namespace Bmc.Wire.Req
open Bmc Bmc.Wire Bmc.Prim

theorem authcaps_body (g : AuthCaps) (h : g.wf) :
    Spec.Req.parseAuthCaps g.encode =
      some { v2Data := g.extendedData, channel := g.channel.toNat, privilege := g.maxPrivilegeLevel.toNat } := by
  obtain ⟨ext, c, p⟩ := g
  obtain ⟨hc, hp⟩ := h
  simp only at hc hp
  have h := authcaps_bits c hc ext
  simp only [AuthCaps.encode]
  generalize (if ext = true then c ||| 0x80 else c) = b0 at h ⊢
  obtain ⟨h1, h2, h3⟩ := h
  simp [Spec.Req.parseAuthCaps, h1, h2, h3]; omega

theorem ciphersuites_body (c : CipherSuites) (h : c.wf) :
    Spec.Req.parseCipherSuites c.encode =
      some { channel := c.channel.toNat, payloadType := c.payloadType.toNat, bySuite := true, listIndex := c.listIndex.toNat } := by
  obtain ⟨ch, pt, idx⟩ := c
  obtain ⟨hc, hp, hi⟩ := h
  simp only at hc hp hi
  have ⟨⟨a1, a2⟩, _⟩ := mask_bits ch
  have ⟨_, ⟨b1, b2⟩, _⟩ := mask_bits pt
  have ⟨_, _, c1, c2, c3⟩ := mask_bits idx
  simp only [CipherSuites.encode]
  generalize ch &&& 0x0f = x0 at a1 a2
  generalize pt &&& 0x3f = x1 at b1 b2
  generalize 0x80 ||| (idx &&& 0x3f) = x2 at c1 c2 c3
  simp [Spec.Req.parseCipherSuites, a1, a2 hc, b1, b2 hp, c1, c2, c3 hi]

theorem sessioninfo_body (g : SessionInfo) (hid : g.wf) :
    Spec.Req.parseSessionInfo g.encode =
      some (if g.index = 0 then .current else if g.index = 0xFE then .handle g.handle.toNat
            else if g.index = 0xFF then .id g.id else .nth g.index.toNat) := by
  obtain ⟨i, h, id⟩ := g
  simp only [SessionInfo.wf] at hid
  simp only [SessionInfo.encode]
  by_cases h1 : i = 0xFE
  · subst h1; simp [Spec.Req.parseSessionInfo]
  · by_cases h2 : i = 0xFF
    · subst h2; simp [Spec.Req.parseSessionInfo, putLE32, rd32_le id hid]
    · by_cases h0 : i = 0 <;> simp [Spec.Req.parseSessionInfo, h1, h2, h0]

theorem setpriv_body (level : UInt8) (h : SetPriv.wf level) :
    ∃ b, SetPriv.encode level = .ok b ∧ Spec.Req.parseSetPriv b = some level.toNat := by
  obtain ⟨hl, h1⟩ := h
  have ⟨a1, a2⟩ := priv_bits level hl
  refine ⟨[level &&& 0xF], by simp [SetPriv.encode, h1], ?_⟩
  generalize level &&& 0xF = x at a1 a2
  simp [Spec.Req.parseSetPriv, a1, a2]

theorem closesession_body (id : Nat) (handle : UInt8) (hid : id < 4294967296) :
    Spec.Req.parseCloseSession (CloseSession.encode id handle) =
      some (if id = 0 then .byHandle handle.toNat else .byID id) := by
  by_cases h0 : id = 0
  · subst h0; simp [CloseSession.encode, putLE32, Spec.Req.parseCloseSession, Spec.Req.rd32]
  · simp [CloseSession.encode, putLE32, Spec.Req.parseCloseSession, rd32_le id hid, h0]

theorem chassiscontrol_body (c : Nat) (hc : c < 16) :
    Spec.Req.parseChassisControl (ChassisControl.encode c) = some c := by
  have e : c % 256 = c := by omega
  have e1 : c / 16 = 0 := by omega
  have e2 : c % 16 = c := by omega
  simp [ChassisControl.encode, Spec.Req.parseChassisControl, e, e1, e2]

theorem getsdr_body (res rec : Nat) (off len : UInt8) (hr : res < 65536) (hi : rec < 65536) :
    Spec.Req.parseGetSDR (GetSDR.encode res rec off len) =
      some { reservation := res, record := rec, offset := off.toNat, length := len.toNat } := by
  simp [GetSDR.encode, putLE16, Spec.Req.parseGetSDR, rd16_le res hr, rd16_le rec hi]

theorem parseAlg_encode (typ : UInt8) (wild : Bool) (a : UInt8) (ha : wild = false → a.toNat < 64) :
    Spec.Req.parseAlg typ (algPayload typ wild a) = some (if wild then none else some a.toNat) := by
  cases wild
  · have h := ha rfl
    have e1 : a.toNat / 64 = 0 := by omega
    have e2 : a.toNat % 64 = a.toNat := by omega
    simp [algPayload, Spec.Req.parseAlg, e1, e2]
  · simp [algPayload, Spec.Req.parseAlg]

theorem algPayload_length (typ : UInt8) (w : Bool) (a : UInt8) : (algPayload typ w a).length = 8 := by
  cases w <;> rfl

theorem opensession_body (o : OpenSession) (h : o.wf) :
    Spec.Req.parseOpenSession o.encode =
      some { tag := o.tag.toNat, privilege := o.maxPrivilegeLevel.toNat, consoleSessionID := o.sessionID
             auth := if o.authWildcard then none else some o.auth.toNat
             integ := if o.integWildcard then none else some o.integ.toNat
             conf := if o.confWildcard then none else some o.conf.toNat } := by
  obtain ⟨tag, p, sid, aw, a, iw, i, cw, c⟩ := o
  obtain ⟨hp, hs, ha, hi, hc⟩ := h
  simp only at hp hs ha hi hc ⊢
  have ⟨p1, p2⟩ := priv_bits p hp
  have la := algPayload_length 0 aw a
  have li := algPayload_length 1 iw i
  have lc := algPayload_length 2 cw c
  simp only [OpenSession.encode, putLE32]
  generalize p &&& 0x0f = pb at p1 p2
  generalize hA : algPayload 0 aw a = A at la
  generalize hI : algPayload 1 iw i = I at li
  generalize hC : algPayload 2 cw c = C at lc
  have t8 : (([tag, pb, 0, 0] : Bytes) ++ [UInt8.ofNat (sid % 256), UInt8.ofNat (sid / 256 % 256), UInt8.ofNat (sid / 65536 % 256),
      UInt8.ofNat (sid / 16777216 % 256)] ++ A ++ I ++ C).take 8 = [tag, pb, 0, 0, UInt8.ofNat (sid % 256), UInt8.ofNat (sid / 256 % 256), UInt8.ofNat (sid / 65536 % 256),
      UInt8.ofNat (sid / 16777216 % 256)] := by simp
  have d8 : ((([tag, pb, 0, 0] : Bytes) ++ [UInt8.ofNat (sid % 256), UInt8.ofNat (sid / 256 % 256), UInt8.ofNat (sid / 65536 % 256),
      UInt8.ofNat (sid / 16777216 % 256)] ++ A ++ I ++ C).drop 8).take 8 = A := by simp [la]
  have d16 : ((([tag, pb, 0, 0] : Bytes) ++ [UInt8.ofNat (sid % 256), UInt8.ofNat (sid / 256 % 256), UInt8.ofNat (sid / 65536 % 256),
      UInt8.ofNat (sid / 16777216 % 256)] ++ A ++ I ++ C).drop 16).take 8 = I := by
    simp [la, li]
  have d24 : ((([tag, pb, 0, 0] : Bytes) ++ [UInt8.ofNat (sid % 256), UInt8.ofNat (sid / 256 % 256), UInt8.ofNat (sid / 65536 % 256),
      UInt8.ofNat (sid / 16777216 % 256)] ++ A ++ I ++ C).drop 24) = C := by
    simp [la, li, List.drop_append]
  unfold Spec.Req.parseOpenSession
  rw [t8, d8, d16, d24]
  subst hA hI hC
  simp [parseAlg_encode _ _ _ ha, parseAlg_encode _ _ _ hi, parseAlg_encode _ _ _ hc, p1, p2, rd32_le sid hs, la, li, lc]

theorem rakp1_body (r : Rakp1) (h : r.wf) :
    ∃ b, r.encode = .ok b ∧
      Spec.Req.parseRakp1 b = some { tag := r.tag.toNat, bmcSessionID := r.bmcSessionID, random := r.random
                                     nameOnlyLookup := !r.privilegeLevelLookup, privilege := r.maxPrivilegeLevel.toNat
                                     username := r.username } := by
  obtain ⟨tag, sid, rm, lookup, p, user⟩ := r
  obtain ⟨hs, hr, hp, hu⟩ := h
  simp only at hs hr hp hu ⊢
  have ⟨b1, b2, b3⟩ := role_bits p hp lookup
  refine ⟨_, by simp only [Rakp1.encode, RAKP1.encode, show ¬ user.length > 16 by omega, if_false]; rfl, ?_⟩
  generalize (p &&& 0xF) ||| (if lookup = true then 0 else 0x10) = role at b1 b2 b3
  have hul : (UInt8.ofNat user.length).toNat = user.length := by simp; omega
  have e1 : (rm ++ [role, 0, 0, UInt8.ofNat user.length] ++ user).drop 16 = [role, 0, 0, UInt8.ofNat user.length] ++ user := by
    rw [List.append_assoc]; exact List.drop_left' hr
  have e2 : (rm ++ [role, 0, 0, UInt8.ofNat user.length] ++ user).take 16 = rm := by
    rw [List.append_assoc]; exact List.take_left' hr
  simp only [putLE32, List.cons_append, List.nil_append, List.append_assoc, Spec.Req.parseRakp1]
  simp only [List.append_assoc, List.cons_append, List.nil_append] at e1 e2
  simp only [e1, e2]
  simp [b1, b2, b3, hul, rd32_le sid hs]
  omega

theorem rakp1_long (r : Rakp1) (h : r.username.length > 16) : r.encode = .error () := by
  simp [Rakp1.encode, RAKP1.encode, h]

theorem rakp3_body (r : Rakp3) (hs : r.wf) :
    Spec.Req.parseRakp3 r.encode =
      some { tag := r.tag.toNat, status := r.status.toNat, bmcSessionID := r.bmcSessionID
             authCode := if r.status = 0 then r.authCode else [] } := by
  obtain ⟨tag, st, sid, code⟩ := r
  simp only [Rakp3.wf] at hs
  by_cases h : st = 0
  · subst h; simp [Rakp3.encode, putLE32, Spec.Req.parseRakp3, rd32_le sid hs]
  · simp [Rakp3.encode, putLE32, Spec.Req.parseRakp3, rd32_le sid hs, h]

theorem powerreading_normal (ns : Int) :
    Spec.Req.parsePowerReading (PowerReading.encode { mode := 1, periodNs := ns }) = some .normal := by
  simp [PowerReading.encode, Spec.Req.parsePowerReading]

theorem powerreading_enhanced (ns : Int) (h : 0 ≤ ns) :
    Spec.Req.parsePowerReading (PowerReading.encode { mode := 2, periodNs := ns }) =
      some (.enhanced (Spec.rollingByte (ns.toNat / 1000000000) / 64) (Spec.rollingByte (ns.toNat / 1000000000) % 64)) := by
  have e := rollingByteNs_toNat ns h
  simp only [PowerReading.encode]
  generalize rollingByteNs ns = b at e
  simp [Spec.Req.parsePowerReading, e]

theorem dcmisensorinfo_body (g : DcmiSensorInfo) :
    Spec.Req.parseDcmiSensorInfo g.encode =
      some { sensorType := g.type.toNat, entity := g.entity.toNat
             sel := if g.instance_ = 0 then .all g.instanceStart.toNat else .one g.instance_.toNat } := by
  obtain ⟨t, e, i, s⟩ := g
  by_cases h : i = 0 <;> simp [DcmiSensorInfo.encode, Spec.Req.parseDcmiSensorInfo, h]

end Bmc.Wire.Req
