import Bmc.Gen.Orch
import Bmc.Lemmas.GenOrch
import Bmc.Lemmas.GenOrchFuel
import Bmc.Proto.Enum
import Bmc.Lemmas.EnumPaging
import Bmc.Lemmas.EnumParse
/-! Helper definitions and lemmas for `Proofs/GenOrch/*` (cipher suites) that do not depend on the BODIES of the regenerated
    functions: how a typed BMC is turned into the answer function the regenerated definitions take and into the hand model's
    `page` (`Proto/Enum.lean`), one round of the chunk loop written out and the loop against the hand model's `retrieveLoop`. -/
namespace Bmc.Lemmas.GenOrchSuites
open Bmc Bmc.GoOrch Bmc.Gen.Orch Bmc.Proto.Enum

/-- a BMC as the TYPES of the code see it: request struct ↦ response struct, `none` = `ValidateResponse` gave an error -/
abbrev TBmc := GetChannelCipherSuitesReq → Option GetChannelCipherSuitesRsp
abbrev Junk := List GetChannelCipherSuitesReq → GetChannelCipherSuitesReq → GetChannelCipherSuitesRsp
abbrev St := List GetChannelCipherSuitesReq × GetChannelCipherSuitesCmd

/-- the answer function of such a BMC, keeping the log of the request structs; `junk` = what the response struct holds
    after a FAILED command (anything) -/
def ansOf (b : TBmc) (junk : Junk) :
    List GetChannelCipherSuitesReq → GetChannelCipherSuitesReq → List GetChannelCipherSuitesReq × GetChannelCipherSuitesRsp × Bool :=
  fun log q => (log ++ [q], (b q).getD (junk log q), (b q).isSome)

/-- the hand model's BMC (list index AS SERIALISED ↦ chunk) for the channel / payload type of the code's literal -/
def pageOf (b : TBmc) : Nat → Option Bytes := fun w =>
  (b { channel := 14, payloadType := 0, listIndex := UInt8.ofNat w }).map (·.cipherSuiteRecordsChunk)

/-- the list index as it goes out on the wire -/
def viewReq (q : GetChannelCipherSuitesReq) : Nat := q.listIndex.toNat % 64

/-- one round of the chunk loop, written out -/
def stepSpec (b : TBmc) (junk : Junk) (buf : Bytes) : M St (Step Bytes) := fun s =>
  let q := s.2.req
  let r := (b q).getD (junk s.1 q)
  bif (b q).isSome then
    if (q.listIndex == 63 || decide (r.cipherSuiteRecordsChunk.length < 16)) then
      (.ok (.brk (buf ++ r.cipherSuiteRecordsChunk)), (s.1 ++ [q], { req := q, rsp := r }))
    else (.ok (.next (buf ++ r.cipherSuiteRecordsChunk)), (s.1 ++ [q], { req := { q with listIndex := q.listIndex + 1 }, rsp := r }))
  else (.err, (s.1 ++ [q], { req := q, rsp := r }))

/-- the loop against the hand model's loop (with fuel that suffices) -/
theorem loop_retrieveLoop (b : TBmc) (junk : Junk) : ∀ (f i : Nat) (buf : Bytes) (log : List GetChannelCipherSuitesReq)
    (cmd : GetChannelCipherSuitesCmd), cmd.req.channel = 14 → cmd.req.payloadType = 0 → cmd.req.listIndex.toNat = i →
    i ≤ 63 → 63 - i < f →
    (loop f (stepSpec b junk) buf (log, cmd)).1 = RF.lift (retrieveLoop 63 (pageOf b) f i buf).2 ∧
    (loop f (stepSpec b junk) buf (log, cmd)).2.1.map viewReq = log.map viewReq ++ (retrieveLoop 63 (pageOf b) f i buf).1 := by
  intro f
  induction f with
  | zero => intro i buf log cmd _ _ _ _ h; omega
  | succ n ih =>
    intro i buf log cmd hc hp hi hle hf
    rw [loop_succ]
    unfold retrieveLoop
    simp only [stepSpec]
    have hq : cmd.req = { channel := 14, payloadType := 0, listIndex := UInt8.ofNat (i % 64) } := by
      cases hcr : cmd.req with
      | mk c p l =>
        rw [hcr] at hc hp hi
        simp only at hc hp hi
        subst hc hp
        simp only [GetChannelCipherSuitesReq.mk.injEq, true_and]
        apply UInt8.toNat_inj.mp
        rw [hi, UInt8.toNat_ofNat']
        omega
    have hpage : pageOf b (i % 64) = (b cmd.req).map (·.cipherSuiteRecordsChunk) := by
      unfold pageOf; rw [hq]
    rw [hpage]
    have hv : viewReq cmd.req = i % 64 := by unfold viewReq; rw [hi]
    cases hb : b cmd.req with
    | none => simp [hv]
    | some r =>
      simp only [Option.map_some, Option.isSome_some, Option.getD_some, cond_true]
      have hli : (cmd.req.listIndex == 63) = (i == 63) := by
        rw [← hi, Bool.eq_iff_iff]
        simp only [beq_iff_eq]
        constructor
        · intro h; rw [h]; rfl
        · intro h; exact UInt8.toNat_inj.mp (by rw [h]; rfl)
      rw [hli]
      by_cases hbr : (i == 63 || decide (r.cipherSuiteRecordsChunk.length < 16)) = true
      · simp only [hbr, if_true]
        simp [hv]
      · simp only [hbr, Bool.false_eq_true, if_false]
        have hne : i ≠ 63 := by intro e; simp [e] at hbr
        have hmod : (i + 1) % 256 = i + 1 := Nat.mod_eq_of_lt (by omega)
        rw [hmod]
        have hi' : (cmd.req.listIndex + 1).toNat = i + 1 := by
          rw [UInt8.toNat_add, hi]; simp; omega
        have := ih (i + 1) (buf ++ r.cipherSuiteRecordsChunk) (log ++ [cmd.req])
          { req := { cmd.req with listIndex := cmd.req.listIndex + 1 }, rsp := r } hc hp hi' (by omega) (by omega)
        obtain ⟨h1, h2⟩ := this
        refine ⟨h1, ?_⟩
        rw [h2]
        simp [hv]

/-- one round of the chunk loop over an arbitrary answer function -/
def stepAny {σ : Type} (send : σ → GetChannelCipherSuitesReq → σ × GetChannelCipherSuitesRsp × Bool) (buf : Bytes) :
    M (σ × GetChannelCipherSuitesCmd) (Step Bytes) := fun s =>
  bif (send s.1 s.2.req).2.2 then
    if (s.2.req.listIndex == 63 || decide ((send s.1 s.2.req).2.1.cipherSuiteRecordsChunk.length < 16)) then
      (.ok (.brk (buf ++ (send s.1 s.2.req).2.1.cipherSuiteRecordsChunk)), ((send s.1 s.2.req).1, { req := s.2.req, rsp := (send s.1 s.2.req).2.1 }))
    else (.ok (.next (buf ++ (send s.1 s.2.req).2.1.cipherSuiteRecordsChunk)),
      ((send s.1 s.2.req).1, { req := { s.2.req with listIndex := s.2.req.listIndex + 1 }, rsp := (send s.1 s.2.req).2.1 }))
  else (.err, ((send s.1 s.2.req).1, { req := s.2.req, rsp := (send s.1 s.2.req).2.1 }))

/-- the list index goes up by one every round and the loop is left at 63: 64 rounds are enough whatever the answer
    function says, from any state -/
theorem loop_fuel_any {σ : Type} (send : σ → GetChannelCipherSuitesReq → σ × GetChannelCipherSuitesRsp × Bool) :
    ∀ (f : Nat) (buf : Bytes) (s : σ × GetChannelCipherSuitesCmd), s.2.req.listIndex.toNat ≤ 63 → 63 - s.2.req.listIndex.toNat < f →
    (loop f (stepAny send) buf s).1 ≠ .outOfFuel := by
  intro f
  induction f with
  | zero => intro buf s _ h; omega
  | succ n ih =>
    intro buf s hle hf
    rw [loop_succ]
    simp only [stepAny]
    generalize send s.1 s.2.req = r
    obtain ⟨s', rsp, ok⟩ := r
    cases ok
    · intro h; cases h
    · simp only [cond_true]
      by_cases hbr : (s.2.req.listIndex == 63 || decide (rsp.cipherSuiteRecordsChunk.length < 16)) = true
      · simp only [hbr, if_true]; intro h; cases h
      · simp only [hbr, Bool.false_eq_true, if_false]
        simp only [Bool.or_eq_true, beq_iff_eq, not_or] at hbr
        have hne : s.2.req.listIndex.toNat ≠ 63 := fun h => hbr.1 (UInt8.toNat_inj.mp (by rw [h]; rfl))
        have hi : (s.2.req.listIndex + 1).toNat = s.2.req.listIndex.toNat + 1 := by
          rw [UInt8.toNat_add]; simp; omega
        exact ih _ _ (by simp only [hi]; omega) (by simp only [hi]; omega)

/-- the hand model never panics -/
theorem retrieveLoop_res (page : Nat → Option Bytes) : ∀ (f i : Nat) (buf : Bytes),
    (retrieveLoop 63 page f i buf).2 = .err ∨ ∃ d, (retrieveLoop 63 page f i buf).2 = .ok d := by
  intro f
  induction f with
  | zero => intro i buf; exact Or.inl rfl
  | succ n ih =>
    intro i buf
    unfold retrieveLoop
    cases page (i % 64) with
    | none => exact Or.inl rfl
    | some chunk =>
      simp only []
      split
      · exact Or.inr ⟨_, rfl⟩
      · exact ih _ _

theorem retrieve_res (page : Nat → Option Bytes) :
    (retrieveSupportedCipherSuites page).2 = .err ∨ ∃ es, (retrieveSupportedCipherSuites page).2 = .ok es := by
  unfold retrieveSupportedCipherSuites retrieveSupportedCipherSuitesL retrieveChunksL
  rcases retrieveLoop_res page 64 0 [] with h | ⟨d, h⟩
  · simp only [h]; exact Or.inl rfl
  · simp only [h, R.bind_ok]
    exact Lemmas.Enum.parseLoop_total _ d [] (by omega)

end Bmc.Lemmas.GenOrchSuites
