import Bmc.Lemmas.GenEnc
import Bmc.Wire.Aes
/-! Lemmas identifying the REGENERATED `ipmi.AES128CBC.SerializeTo` (`Bmc.Gen.Enc.AES128CBC.serializeTo`; the draw of the IV and
    CBC encryption are parameters) with the hand model `Wire.AESLayer.encode`. -/
namespace Bmc.Lemmas.GenEnc
open Bmc Bmc.Wire Bmc.GoEnc Bmc.Gen.Enc Bmc.Crypto

/-- `uint8(n)` of a non-negative Go `int` -/
theorem ofInt_natCast (n : Nat) : UInt8.ofInt ((n : Nat) : Int) = UInt8.ofNat n := by
  unfold UInt8.ofInt
  apply UInt8.toNat_inj.mp
  have : (((n : Nat) : Int) % 2 ^ 8).toNat = n % 256 := by omega
  rw [this]
  simp

/-- the confidentiality-pad loop `for i := 0; i < n; i++ { w[i] = uint8(i + 1) }` -/
theorem fill_pad (w : Bytes) (n : Nat) (h : n ≤ w.length) :
    List.foldlM (fun w i => (do let w ← setB w i (UInt8.ofNat (i + 1)); pure w)) w (List.range n)
      = R.ok ((List.range n).map (fun i => UInt8.ofNat (i + 1)) ++ w.drop n) := by
  induction n with
  | zero => simp
  | succ n ih =>
    rw [List.range_succ, List.foldlM_append, ih (by omega)]
    have hl : n < ((List.range n).map (fun i => UInt8.ofNat (i + 1)) ++ w.drop n).length := by simp; omega
    simp only [R.bind_ok, List.foldlM_cons, List.foldlM_nil, setB, hl, if_true, R.pure_eq]
    congr 1
    apply List.ext_getElem?
    intro i
    simp only [List.getElem?_set, List.getElem?_append, List.length_map, List.length_range, List.map_append,
      List.map_cons, List.map_nil, List.length_append, List.length_cons, List.length_nil]
    by_cases h1 : i < n
    · have h2 : i < n + 0 + 1 := by omega
      have h3 : ¬ n = i := by omega
      simp [h1, h2, h3]
    · by_cases h2 : i = n
      · subst h2; simp; omega
      · have e2 : ¬ i < n + 0 + 1 := by omega
        have e3 : ¬ n = i := by omega
        simp only [h1, e2, e3, if_false, List.getElem?_drop]
        congr 1; omega

theorem fill_pad' (w : Bytes) (n : Nat) (h : n ≤ w.length) :
    List.foldlM (fun w i => setB w i (UInt8.ofNat (i + 1))) w (List.range n)
      = R.ok ((List.range n).map (fun i => UInt8.ofNat (i + 1)) ++ w.drop n) := by
  have := fill_pad w n h
  simpa using this

/-- `trailer[padLength] = uint8(padLength)` behind the `n` pad bytes written by the loop -/
theorem setB_after (l w : Bytes) (n : Nat) (v : UInt8) (hl : l.length = n) (hw : n < w.length) :
    setB (l ++ w.drop n) n v = .ok (l ++ [v] ++ w.drop (n + 1)) := by
  unfold setB
  have h1 : n < (l ++ w.drop n).length := by simp; omega
  simp only [h1, if_true]
  congr 1
  subst hl
  rw [List.set_append_right _ _ (Nat.le_refl _), Nat.sub_self]
  cases hd : w.drop l.length with
  | nil => have := congrArg List.length hd; simp at this; omega
  | cons a t =>
    have : w.drop (l.length + 1) = t := by rw [← List.drop_drop, hd]; rfl
    simp [this]

/-- the whole trailer: `n + 1` bytes of indeterminate content become the model's `confPad n` -/
theorem trailer_eq (stale : Bytes) (n : Nat) :
    (do let w ← List.foldlM (fun w i => setB w i (UInt8.ofNat (i + 1))) (fresh stale (n + 1)) (List.range n)
        setB w n (UInt8.ofNat n)) = R.ok (confPad n) := by
  rw [fill_pad' _ n (by rw [length_fresh]; omega), R.bind_ok,
    setB_after _ _ n _ (by simp) (by rw [length_fresh]; omega)]
  have : (fresh stale (n + 1)).drop (n + 1) = [] := List.drop_eq_nil_of_le (by rw [length_fresh]; omega)
  rw [this]; simp [confPad]

/-- `rand.Read(iv)` that succeeds replaces the 16 stale bytes by the 16 bytes drawn -/
theorem randRead_some (iv w : Bytes) (h : iv.length = w.length) : randRead (some iv) w = .ok iv := by
  unfold randRead
  simp only
  rw [List.take_append_of_le_length (by omega), List.take_of_length_le (by omega)]

/-- in-place CBC encryption of everything behind the 16-byte IV window -/
theorem crypt_ok (enc : Bytes → Bytes → Bytes) (iv pt : Bytes) (hiv : iv.length = 16) (hmod : pt.length % 16 = 0)
    (henc : (enc iv pt).length = pt.length) :
    cryptBlocksInPlace enc 16 iv (iv ++ pt) 16 = .ok (iv ++ enc iv pt) := by
  unfold cryptBlocksInPlace
  have h1 : ¬ iv.length ≠ 16 := by omega
  have h2 : ¬ (iv ++ pt).length < 16 := by simp; omega
  have h3 : ¬ ((iv ++ pt).length - 16) % 16 ≠ 0 := by simp; omega
  simp only [h1, h2, h3, if_false]
  have e1 : (iv ++ pt).take 16 = iv := by rw [List.take_append_of_le_length (by omega), List.take_of_length_le (by omega)]
  have e2 : (iv ++ pt).drop 16 = pt := by rw [List.drop_append_of_le_length (by omega), List.drop_of_length_le (by omega)]; rfl
  rw [e1, e2, List.take_append_of_le_length (by omega), List.take_of_length_le (by omega)]

/-- the plaintext handed to CBC is a whole number of blocks -/
theorem padded_len (msg : Bytes) : (msg ++ confPad (padLen msg.length)).length % 16 = 0 := by
  simp [confPad, padLen]; omega

end Bmc.Lemmas.GenEnc
