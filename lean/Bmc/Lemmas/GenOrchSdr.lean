import Bmc.Gen.Orch
import Bmc.Lemmas.GenOrch
import Bmc.Proto.SdrWalk
import Bmc.Proofs.GenDec.SDR
import Bmc.Proofs.GenDec.FullSensorRecord
/-! Helper definitions and lemmas for `Proofs/GenOrch/WalkSDRs.lean` / `RetrieveSDRRepository.lean` that do not depend on
    the BODIES of the regenerated functions: how the hand model's raw answer function (`Proto.SdrWalk.Answer σ`: completion
    code + response data) is turned into the typed answer functions the regenerated definitions take (through the hand
    model's `call` and the layer decoders), one round of the walk written out over the typed answer function, and that
    loop against the hand model's `walkLoop`. -/
namespace Bmc.Lemmas.GenOrchSdr
open Bmc Bmc.GoOrch Bmc.Gen.Orch Bmc.Proto Bmc.Proto.SdrWalk Bmc.Lemmas.GenOrch

abbrev GRepo := List (UInt16 × Gen.Dec.FullSensorRecord)
/-- the Go map `SDRRepository` as the translation keeps it, read as the hand model's -/
def viewRepo (g : GRepo) : SDRRepository := g.map fun p => (p.1.toNat, Gen.Dec.FullSensorRecord.toModel p.2)

/-- the hand model's outcome in the monad of the translation -/
def ofRes {α : Type} : Res α → RF α
  | .ok a => .ok a
  | .err => .err
  | .outOfFuel => .outOfFuel

/-- the request struct as the hand model's request -/
def reqOf (q : GetSDRReq) : Req := .getSDR q.reservationID.toNat q.recordID.toNat q.offset.toNat q.length.toNat

def rspOf (w : Wire.GetSDRRsp) : GetSDRRsp := { payload := w.payload, next := UInt16.ofNat w.next }

/-- the typed answer function for Get SDR of a raw answer function: `SendCommand` + `ValidateResponse` + the response
    layer are the hand model's `call`; `junk` = what the response struct holds after a FAILED command (anything) -/
def sendOf {σ : Type} (a : Answer σ) (junk : σ → GetSDRReq → GetSDRRsp) : σ → GetSDRReq → σ × GetSDRRsp × Bool := fun s q =>
  ((SdrWalk.call a Wire.GetSDRRsp.decode s (reqOf q)).1,
   ((SdrWalk.call a Wire.GetSDRRsp.decode s (reqOf q)).2.map rspOf).getD (junk s q),
   (SdrWalk.call a Wire.GetSDRRsp.decode s (reqOf q)).2.isSome)

/-- `s.ReserveSDRRepository(ctx)` -/
def reserveOf {σ : Type} (a : Answer σ) : σ → σ × Option ReserveSDRRepositoryRsp := fun s =>
  ((SdrWalk.call a Wire.ReserveRsp.decode s .reserve).1,
   (SdrWalk.call a Wire.ReserveRsp.decode s .reserve).2.map fun w => { reservationID := UInt16.ofNat w.reservationID })

theorem le16_lt (b : Bytes) : Wire.le16 b < 65536 := by
  unfold Wire.le16
  have h0 := (b.getD 0 0).toNat_lt
  have h1 := (b.getD 1 0).toNat_lt
  omega

theorem call_some {σ α : Type} (a : Answer σ) (dec : Bytes → R α) (s s' : σ) (q : Req) (v : α)
    (h : SdrWalk.call a dec s q = (s', some v)) : ∃ r, dec r = .ok v := by
  unfold SdrWalk.call at h
  cases ha : a s q with
  | mk s1 o =>
    rw [ha] at h
    cases o with
    | none => simp at h
    | some r =>
      simp only at h
      cases hd : dec r.data with
      | ok w =>
        rw [hd] at h
        simp only at h
        split at h
        · simp only [Prod.mk.injEq, Option.some.injEq] at h; exact ⟨r.data, by rw [hd, h.2]⟩
        · simp at h
      | err => rw [hd] at h; simp at h
      | panic => rw [hd] at h; simp at h
      | overread => rw [hd] at h; simp at h

theorem getSDR_next_lt (b : Bytes) (w : Wire.GetSDRRsp) (h : Wire.GetSDRRsp.decode b = .ok w) : w.next < 65536 := by
  unfold Wire.GetSDRRsp.decode Wire.GetSDRRsp.decodeGo at h
  split at h
  · cases h
  · cases h1 : (GoSlice.ofBytes b).slice 0 2 with
    | ok c =>
      rw [h1] at h
      simp only [R.bind_ok] at h
      cases h2 : (GoSlice.ofBytes b).sliceFrom 2 with
      | ok p =>
        rw [h2] at h
        simp only [R.bind_ok, R.pure_eq, R.ok.injEq] at h
        rw [← h]
        exact le16_lt _
      | err => rw [h2] at h; cases h
      | panic => rw [h2] at h; cases h
      | overread => rw [h2] at h; cases h
    | err => rw [h1] at h; cases h
    | panic => rw [h1] at h; cases h
    | overread => rw [h1] at h; cases h

theorem reserve_lt (b : Bytes) (w : Wire.ReserveRsp) (h : Wire.ReserveRsp.decode b = .ok w) : w.reservationID < 65536 := by
  unfold Wire.ReserveRsp.decode Wire.ReserveRsp.decodeGo at h
  split at h
  · cases h
  · cases h1 : (GoSlice.ofBytes b).slice 0 2 with
    | ok c =>
      rw [h1] at h
      simp only [R.bind_ok, R.pure_eq, R.ok.injEq] at h
      rw [← h]
      exact le16_lt _
    | err => rw [h1] at h; cases h
    | panic => rw [h1] at h; cases h
    | overread => rw [h1] at h; cases h

theorem viewRepo_mapSet (g : GRepo) (k : UInt16) (v : Gen.Dec.FullSensorRecord) :
    viewRepo (mapSet g k v) = SdrWalk.insert (viewRepo g) k.toNat (Gen.Dec.FullSensorRecord.toModel v) := by
  unfold viewRepo mapSet SdrWalk.insert
  simp only [List.map_append, List.map_cons, List.map_nil, List.filter_map]
  congr 2
  apply List.filter_congr
  intro p _
  by_cases h : p.1 = k
  · simp [Function.comp, h]
  · have : p.1.toNat ≠ k.toNat := fun hh => h (UInt16.toNat_inj.mp hh)
    simp [Function.comp, h, this]

/-- the SDR header layer: the regenerated decoder behind `packetLayer` against the hand model's decoder -/
theorem header_layer (payload : Bytes) :
    (packetLayer Gen.Dec.SDR.decodeGo {} payload).map Gen.Dec.SDR.toModel
      = (match Wire.SDRHeader.decodeGo {} (GoSlice.ofBytes payload) with | .ok h => some h | _ => none) := by
  have := Proofs.GenDec.SDR_gen_eq {} (GoSlice.ofBytes payload)
  have h0 : Gen.Dec.SDR.toModel {} = {} := rfl
  rw [h0] at this
  unfold packetLayer
  rw [← this]
  cases Gen.Dec.SDR.decodeGo {} (GoSlice.ofBytes payload) <;> rfl

theorem fsr_layer (payload : Bytes) :
    (packetLayer Gen.Dec.FullSensorRecord.decodeGo {} payload).map Gen.Dec.FullSensorRecord.toModel
      = (match Wire.FullSensorRecord.decodeGo {} (GoSlice.ofBytes payload) with | .ok h => some h | _ => none) := by
  have := Proofs.GenDec.FullSensorRecord_gen_eq {} (GoSlice.ofBytes payload)
  have h0 : Gen.Dec.FullSensorRecord.toModel {} = {} := by decide
  rw [h0] at this
  unfold packetLayer
  rw [← this]
  cases Gen.Dec.FullSensorRecord.decodeGo {} (GoSlice.ofBytes payload) <;> rfl


/-- one round of the `for getSDRCmd.Req.RecordID != ipmi.RecordIDLast` loop, written out over a typed answer function -/
def stepSpec {σ : Type} (send : σ → GetSDRReq → σ × GetSDRRsp × Bool) (g : GRepo) : M (σ × GetSDRCmd) (Step GRepo) := fun st =>
  if st.2.req.recordID = 65535 then (.ok (.brk g), st) else
  bif (send st.1 st.2.req).2.2 then
    match packetLayer Gen.Dec.SDR.decodeGo {} (send st.1 st.2.req).2.1.payload with
    | none => (.err, ((send st.1 st.2.req).1, { st.2 with rsp := (send st.1 st.2.req).2.1 }))
    | some header =>
      if header.type_ = 1 then
        if header.length > 64 then (.err, ((send st.1 st.2.req).1, { st.2 with rsp := (send st.1 st.2.req).2.1 })) else
        bif (send (send st.1 st.2.req).1 { st.2.req with offset := 5, length := header.length }).2.2 then
          match packetLayer Gen.Dec.FullSensorRecord.decodeGo {}
              (send (send st.1 st.2.req).1 { st.2.req with offset := 5, length := header.length }).2.1.payload with
          | none => (.err, ((send (send st.1 st.2.req).1 { st.2.req with offset := 5, length := header.length }).1,
              { req := { st.2.req with offset := 5, length := header.length },
                rsp := (send (send st.1 st.2.req).1 { st.2.req with offset := 5, length := header.length }).2.1 }))
          | some fsr => (.ok (.next (mapSet g header.id fsr)),
              ((send (send st.1 st.2.req).1 { st.2.req with offset := 5, length := header.length }).1,
               { req := { st.2.req with
                    recordID := (send (send st.1 st.2.req).1 { st.2.req with offset := 5, length := header.length }).2.1.next,
                    offset := 0, length := 5 },
                 rsp := (send (send st.1 st.2.req).1 { st.2.req with offset := 5, length := header.length }).2.1 }))
        else (.err, ((send (send st.1 st.2.req).1 { st.2.req with offset := 5, length := header.length }).1,
              { req := { st.2.req with offset := 5, length := header.length },
                rsp := (send (send st.1 st.2.req).1 { st.2.req with offset := 5, length := header.length }).2.1 }))
      else (.ok (.next g), ((send st.1 st.2.req).1,
              { req := { st.2.req with recordID := (send st.1 st.2.req).2.1.next, offset := 0, length := 5 },
                rsp := (send st.1 st.2.req).2.1 }))
  else (.err, ((send st.1 st.2.req).1, { st.2 with rsp := (send st.1 st.2.req).2.1 }))

theorem ofNat_toNat16 (n : Nat) (h : n < 65536) : (UInt16.ofNat n).toNat = n := by
  simp [UInt16.toNat_ofNat']; omega

/-- the loop over the typed answer function of a raw one against the hand model's `walkLoop` (the repaired map key) -/
theorem loop_walkLoop {σ : Type} (a : Answer σ) (junk : σ → GetSDRReq → GetSDRRsp) :
    ∀ (fuel : Nat) (g : GRepo) (s : σ) (cmd : GetSDRCmd) (resv id : Nat),
    cmd.req.reservationID.toNat = resv → cmd.req.recordID.toNat = id → cmd.req.offset = 0 → cmd.req.length = 5 →
    (loop fuel (stepSpec (sendOf a junk)) g (s, cmd)).1.map viewRepo = ofRes (walkLoop true a fuel s resv id (viewRepo g)).2 ∧
    (loop fuel (stepSpec (sendOf a junk)) g (s, cmd)).2.1 = (walkLoop true a fuel s resv id (viewRepo g)).1 := by
  intro fuel
  induction fuel with
  | zero => intro g s cmd resv id _ _ _ _; exact ⟨rfl, rfl⟩
  | succ n ih =>
    intro g s cmd resv id hr hi ho hl
    rw [loop_succ]
    unfold walkLoop
    simp only [stepSpec]
    have hid : (cmd.req.recordID = 65535) ↔ id = 0xFFFF := by
      rw [← hi]
      constructor
      · intro h; rw [h]; rfl
      · intro h; exact UInt16.toNat_inj.mp (by rw [h]; rfl)
    by_cases hlast : id = 0xFFFF
    · simp [hid.mpr hlast, hlast, RF.map, ofRes]
    · have hne : ¬ cmd.req.recordID = 65535 := fun h => hlast (hid.mp h)
      simp only [hne, hlast, if_false]
      have hq : reqOf cmd.req = .getSDR resv id 0 5 := by
        unfold reqOf; rw [hr, hi, ho, hl]; rfl
      simp only [sendOf, hq]
      cases hc : SdrWalk.call a Wire.GetSDRRsp.decode s (.getSDR resv id 0 5) with
      | mk s1 o =>
        cases o with
        | none => simp [RF.map, ofRes]
        | some w =>
          simp only [Option.map_some, Option.getD_some, Option.isSome_some, cond_true]
          have hw : w.next < 65536 := by
            obtain ⟨b, hb⟩ := call_some a _ s s1 _ w hc
            exact getSDR_next_lt b w hb
          have hl1 := header_layer w.payload
          have hp : (rspOf w).payload = w.payload := rfl
          rw [hp]
          cases hh : Wire.SDRHeader.decodeGo {} (GoSlice.ofBytes w.payload) with
          | ok h =>
            rw [hh] at hl1
            cases hg : packetLayer Gen.Dec.SDR.decodeGo {} w.payload with
            | none => rw [hg] at hl1; cases hl1
            | some gh =>
              rw [hg] at hl1
              simp only [Option.map_some, Option.some.injEq] at hl1
              subst hl1
              simp only [Gen.Dec.SDR.toModel]
              by_cases ht : gh.type_ = 1
              · simp only [ht, if_true]
                have hlen : (gh.length > 64) ↔ gh.length.toNat > 64 := by
                  constructor
                  · intro h; exact UInt8.lt_iff_toNat_lt.mp h
                  · intro h; exact UInt8.lt_iff_toNat_lt.mpr h
                by_cases hlong : gh.length.toNat > 64
                · simp [hlen.mpr hlong, hlong, RF.map, ofRes]
                · have hnl : ¬ gh.length > 64 := fun h => hlong (hlen.mp h)
                  simp only [hnl, hlong, if_false]
                  have hq2 : reqOf { cmd.req with offset := 5, length := gh.length } = .getSDR resv id 5 gh.length.toNat := by
                    unfold reqOf; simp only [hr, hi]; rfl
                  simp only [hq2]
                  cases hc2 : SdrWalk.call a Wire.GetSDRRsp.decode s1 (.getSDR resv id 5 gh.length.toNat) with
                  | mk s2 o2 =>
                    cases o2 with
                    | none => simp [RF.map, ofRes]
                    | some w2 =>
                      simp only [Option.map_some, Option.getD_some, Option.isSome_some, cond_true]
                      have hw2 : w2.next < 65536 := by
                        obtain ⟨b, hb⟩ := call_some a _ s1 s2 _ w2 hc2
                        exact getSDR_next_lt b w2 hb
                      have hl2 := fsr_layer w2.payload
                      have hp2 : (rspOf w2).payload = w2.payload := rfl
                      rw [hp2]
                      cases hf : Wire.FullSensorRecord.decodeGo {} (GoSlice.ofBytes w2.payload) with
                      | ok f =>
                        rw [hf] at hl2
                        cases hgf : packetLayer Gen.Dec.FullSensorRecord.decodeGo {} w2.payload with
                        | none => rw [hgf] at hl2; cases hl2
                        | some gf =>
                          rw [hgf] at hl2
                          simp only [Option.map_some, Option.some.injEq] at hl2
                          subst hl2
                          simp only [if_true]
                          have := ih (mapSet g gh.id gf) s2
                            { req := { cmd.req with recordID := (rspOf w2).next, offset := 0, length := 5 }, rsp := rspOf w2 }
                            resv w2.next hr (ofNat_toNat16 _ hw2) rfl rfl
                          rw [viewRepo_mapSet] at this
                          exact this
                      | err =>
                        rw [hf] at hl2
                        cases hgf : packetLayer Gen.Dec.FullSensorRecord.decodeGo {} w2.payload with
                        | none => simp [RF.map, ofRes]
                        | some gf => rw [hgf] at hl2; cases hl2
                      | panic =>
                        rw [hf] at hl2
                        cases hgf : packetLayer Gen.Dec.FullSensorRecord.decodeGo {} w2.payload with
                        | none => simp [RF.map, ofRes]
                        | some gf => rw [hgf] at hl2; cases hl2
                      | overread =>
                        rw [hf] at hl2
                        cases hgf : packetLayer Gen.Dec.FullSensorRecord.decodeGo {} w2.payload with
                        | none => simp [RF.map, ofRes]
                        | some gf => rw [hgf] at hl2; cases hl2
              · simp only [ht, if_false]
                exact ih g s1 { req := { cmd.req with recordID := (rspOf w).next, offset := 0, length := 5 }, rsp := rspOf w }
                  resv w.next hr (ofNat_toNat16 _ hw) rfl rfl
          | err =>
            rw [hh] at hl1
            cases hg : packetLayer Gen.Dec.SDR.decodeGo {} w.payload with
            | none => simp [RF.map, ofRes]
            | some gh => rw [hg] at hl1; cases hl1
          | panic =>
            rw [hh] at hl1
            cases hg : packetLayer Gen.Dec.SDR.decodeGo {} w.payload with
            | none => simp [RF.map, ofRes]
            | some gh => rw [hg] at hl1; cases hl1
          | overread =>
            rw [hh] at hl1
            cases hg : packetLayer Gen.Dec.SDR.decodeGo {} w.payload with
            | none => simp [RF.map, ofRes]
            | some gh => rw [hg] at hl1; cases hl1

end Bmc.Lemmas.GenOrchSdr
