import Bmc.Gen.Dec
import Bmc.Lemmas.GenDecBits
import Bmc.Wire.Simple
import Bmc.Wire.Sdr
import Bmc.Wire.Selector
import Bmc.Wire.Sess
import Bmc.Wire.Dcmi
import Bmc.Wire.Chassis
import Bmc.Wire.DeviceID
import Bmc.Wire.Rakp1
import Bmc.Wire.Rakp2
import Bmc.Wire.Rakp4
import Bmc.Wire.V1Session
import Bmc.Wire.OpenSessionRsp
import Bmc.Wire.Message
import Bmc.Lemmas.DcmiRefine
/-! `toModel`: the structure the translator emits for a Go layer (`Bmc.Gen.Dec.T`, one field per Go field) read as the
    hand-written model's structure (`Bmc.Wire.X`). Where the hand model keeps a FLAGS BYTE for several Go booleans,
    `toModel` packs the generated booleans into that byte, flag `F` at the bit position the driver's `kvBit "F" _ n`
    prints it from (direction: generated → model). Wider integers: `UInt16`/`UInt32` ↦ `toNat`; `time.Time` /
    `time.Duration` (`Int`: seconds / nanoseconds) ↦ `toNat`. -/
namespace Bmc.Gen.Dec
open Bmc Bmc.Lemmas.GenDec

/-- a flag as the bit(s) `m` of a flags byte -/
def bit (b : Bool) (m : UInt8) : UInt8 := if b then m else 0

/-- rewrite the legal index / slice expressions of a regenerated decoder (and of the model) -/
macro "gen_simp" : tactic => `(tactic|
  simp (disch := omega) only [if_true, if_false, GoSlice.idx_ok, GoSlice.slice_ok, GoSlice.sliceFrom_ok, R.bind_ok, R.pure_eq,
    R.map, Bmc.Lemmas.GenDec.le16_toNat, Bmc.Lemmas.GenDec.le32_toNat, Bmc.Lemmas.GenDec.or_shl24, GoSlice.sub_vis,
    GoSlice.sub_len])

/-- side conditions about lengths of `take`/`drop` of the visible bytes -/
macro "len_disch" : tactic => `(tactic| (simp only [GoSlice.vis_length, List.length_take, List.length_drop]; omega))

def ReserveSDRRepositoryRsp.toModel (g : ReserveSDRRepositoryRsp) : Wire.ReserveRsp :=
  { reservationID := g.reservationID.toNat, contents := g.contents }

def GetSystemGUIDRsp.toModel (g : GetSystemGUIDRsp) : Wire.GUIDRsp := { guid := g.guid, contents := g.contents }

def SetSessionPrivilegeLevelRsp.toModel (g : SetSessionPrivilegeLevelRsp) : Wire.SetPrivRsp := { level := g.privilegeLevel }

def GetSDRRsp.toModel (g : GetSDRRsp) : Wire.GetSDRRsp := { next := g.next.toNat, contents := g.contents, payload := g.payload }

theorem bcd_eq (b : UInt8) : bcd_Decode b = Wire.bcd b := rfl

def SDR.toModel (g : SDR) : Wire.SDRHeader :=
  { id := g.id.toNat, version := g.version, typ := g.type_, length := g.length, contents := g.contents, payload := g.payload }

def GetSensorReadingRsp.toModel (g : GetSensorReadingRsp) : Wire.SensorReadingRsp :=
  { reading := g.reading, eventMessagesEnabled := g.eventMessagesEnabled, scanningEnabled := g.scanningEnabled,
    readingUnavailable := g.readingUnavailable, contents := g.contents, payload := g.payload }

def GetChannelCipherSuitesRsp.toModel (g : GetChannelCipherSuitesRsp) : Wire.CipherSuitesRsp :=
  { channel := g.channel, chunk := g.cipherSuiteRecordsChunk, contents := g.contents, payload := g.payload }

def SessionSelector.toModel (g : SessionSelector) : Wire.Setup.Selector := { isRMCPPlus := g.isRMCPPlus, payload := g.payload }


def GetChannelAuthenticationCapabilitiesRsp.toModel (g : GetChannelAuthenticationCapabilitiesRsp) : Wire.AuthCapsRsp :=
  { channel := g.channel
    authTypes := bit g.extendedCapabilities 0x80 ||| bit g.authenticationTypeOEM 0x20 ||| bit g.authenticationTypePassword 0x10 |||
      bit g.authenticationTypeMD5 4 ||| bit g.authenticationTypeMD2 2 ||| bit g.authenticationTypeNone 1
    status := bit g.twoKeyLogin 0x20 ||| bit g.perMessageAuthentication 0x10 ||| bit g.userLevelAuthentication 8 |||
      bit g.nonNullUsernamesEnabled 4 ||| bit g.nullUsernamesEnabled 2 ||| bit g.anonymousLoginEnabled 1
    versions := bit g.supportsV2 2 ||| bit g.supportsV1 1
    oem := g.oem.toNat, oemData := g.oemData, contents := g.contents, payload := g.payload }

theorem pack_b7 : ∀ x : UInt8, bit (x &&& 128 != 0) 0x80 ||| bit (x &&& 32 != 0) 0x20 ||| bit (x &&& 16 != 0) 0x10 |||
    bit (x &&& 4 != 0) 4 ||| bit (x &&& 2 != 0) 2 ||| bit (x &&& 1 != 0) 1 = x &&& 0xb7 := forall_uint8 (by decide +kernel)
theorem pack_3f : ∀ x : UInt8, bit (x &&& 32 != 0) 0x20 ||| bit (x &&& 16 != 0) 0x10 ||| bit (x &&& 8 != 0) 8 |||
    bit (x &&& 4 != 0) 4 ||| bit (x &&& 2 != 0) 2 ||| bit (x &&& 1 != 0) 1 = x &&& 0x3f := forall_uint8 (by decide +kernel)
theorem pack_03 : ∀ x : UInt8, bit (x &&& 2 != 0) 2 ||| bit (x &&& 1 != 0) 1 = x &&& 3 := forall_uint8 (by decide +kernel)

def GetSDRRepositoryInfoRsp.toModel (g : GetSDRRepositoryInfoRsp) : Wire.SDRRepoInfoRsp :=
  { version := g.version, records := g.records.toNat, freeSpace := g.freeSpace.toNat
    lastAddition := g.lastAddition.toNat, lastErase := g.lastErase.toNat
    flags := bit g.overflow 0x80 ||| bit g.supportsModalUpdate 0x40 ||| bit g.supportsNonModalUpdate 0x20 |||
      bit g.supportsDelete 8 ||| bit g.supportsPartialAdd 4 ||| bit g.supportsReserve 2 ||| bit g.supportsGetAllocationInformation 1
    contents := g.contents, payload := g.payload }

theorem pack_ef : ∀ x : UInt8, bit (x &&& 128 != 0) 0x80 ||| bit (x &&& 64 != 0) 0x40 ||| bit (x &&& 32 != 0) 0x20 |||
    bit (x &&& 8 != 0) 8 ||| bit (x &&& 4 != 0) 4 ||| bit (x &&& 2 != 0) 2 ||| bit (x &&& 1 != 0) 1 = x &&& 0xef :=
  forall_uint8 (by decide +kernel)

def GetPowerReadingRsp.toModel (g : GetPowerReadingRsp) : Wire.PowerReading :=
  { instantaneous := g.instantaneous.toNat, min := g.min.toNat, max := g.max.toNat, avg := g.avg.toNat
    timestamp := g.timestamp.toNat, period := g.period.toNat, active := g.active }

def GetChassisStatusRsp.toModel (g : GetChassisStatusRsp) : Wire.GetChassisStatusRsp :=
  { powerRestorePolicy := g.powerRestorePolicy
    flags0 := bit g.powerControlFault 0x10 ||| bit g.powerFault 8 ||| bit g.interlock 4 ||| bit g.powerOverload 2 ||| bit g.poweredOn 1
    flags1 := bit g.poweredOnByIPMI 0x10 ||| bit g.lastPowerDownFault 8 ||| bit g.lastPowerDownInterlock 4 |||
      bit g.lastPowerDownOverload 2 ||| bit g.lastPowerDownSupplyFailure 1
    identifyState := g.chassisIdentifyState
    flags2 := bit g.coolingFault 8 ||| bit g.driveFault 4 ||| bit g.lockout 2 ||| bit g.intrusion 1
    frontPanel := bit g.standbyButtonDisableAllowed 0x80 ||| bit g.diagnosticInterruptButtonDisableAllowed 0x40 |||
      bit g.resetButtonDisableAllowed 0x20 ||| bit g.powerOffButtonDisableAllowed 0x10 ||| bit g.standbyButtonDisabled 8 |||
      bit g.diagnosticInterruptButtonDisabled 4 ||| bit g.resetButtonDisabled 2 ||| bit g.powerOffButtonDisabled 1
    contents := g.contents, payload := g.payload }

theorem pack_1f : ∀ x : UInt8, bit (x &&& 16 != 0) 0x10 ||| bit (x &&& 8 != 0) 8 ||| bit (x &&& 4 != 0) 4 ||| bit (x &&& 2 != 0) 2 |||
    bit (x &&& 1 != 0) 1 = x &&& 0x1f := forall_uint8 (by decide +kernel)
theorem pack_0f : ∀ x : UInt8, bit (x &&& 8 != 0) 8 ||| bit (x &&& 4 != 0) 4 ||| bit (x &&& 2 != 0) 2 ||| bit (x &&& 1 != 0) 1 = x &&& 0x0f :=
  forall_uint8 (by decide +kernel)
theorem pack_ff : ∀ x : UInt8, bit (x &&& 128 != 0) 0x80 ||| bit (x &&& 64 != 0) 0x40 ||| bit (x &&& 32 != 0) 0x20 |||
    bit (x &&& 16 != 0) 0x10 ||| bit (x &&& 8 != 0) 8 ||| bit (x &&& 4 != 0) 4 ||| bit (x &&& 2 != 0) 2 ||| bit (x &&& 1 != 0) 1 = x :=
  forall_uint8 (by decide +kernel)
theorem pack_00 : bit false 0x80 ||| bit false 0x40 ||| bit false 0x20 ||| bit false 0x10 ||| bit false 8 ||| bit false 4 |||
    bit false 2 ||| bit false 1 = 0 := by decide

theorem bcd_eq' (b : UInt8) : bcd_Decode b = Wire.bcdDecode b := rfl

def GetDeviceIDRsp.toModel (g : GetDeviceIDRsp) : Wire.GetDeviceIDRsp :=
  { id := g.id, providesSDRs := g.providesSDRs, revision := g.revision, available := g.available
    majorFirmwareRevision := g.majorFirmwareRevision, minorFirmwareRevision := g.minorFirmwareRevision
    majorIPMIVersion := g.majorIPMIVersion, minorIPMIVersion := g.minorIPMIVersion
    support := bit g.supportsChassisDevice 0x80 ||| bit g.supportsBridgeDevice 0x40 ||| bit g.supportsIPMBEventGeneratorDevice 0x20 |||
      bit g.supportsIPMBEventReceiverDevice 0x10 ||| bit g.supportsFRUInventoryDevice 8 ||| bit g.supportsSELDevice 4 |||
      bit g.supportsSDRRepositoryDevice 2 ||| bit g.supportsSensorDevice 1
    manufacturer := g.manufacturer.toNat, product := g.product.toNat, aux := g.auxiliaryFirmwareRevision, contents := g.contents }

theorem copy4_eq (dst src : Bytes) : GoDec.copyArr 4 dst src = Wire.copy4 dst src := rfl

def RAKPMessage4.toModel (g : RAKPMessage4) : Wire.Setup.RAKP4 :=
  { tag := g.tag, status := g.status, consoleSID := g.remoteConsoleSessionID.toNat, icv := g.icv, contents := g.contents }

def RAKPMessage2.toModel (g : RAKPMessage2) : Wire.RAKP2 :=
  { tag := g.tag, status := g.status, consoleSessionID := g.remoteConsoleSessionID.toNat, bmcRandom := g.managedSystemRandom
    bmcGUID := g.managedSystemGUID, authCode := g.authCode, contents := g.contents }

def RAKPMessage1.toModel (g : RAKPMessage1) : Wire.Setup.RAKP1 :=
  { tag := g.tag, bmcSID := g.managedSystemSessionID.toNat, consoleRandom := g.remoteConsoleRandom
    lookup := g.privilegeLevelLookup, maxPriv := g.maxPrivilegeLevel, username := g.username, contents := g.contents }

def V1Session.toModel (g : V1Session) : Wire.V1Session :=
  { authType := g.authType, sequence := g.sequence.toNat, id := g.id.toNat, authCode := g.authCode, length := g.length
    contents := g.contents, payload := g.payload }

def GetSessionInfoRsp.toModel (g : GetSessionInfoRsp) : Wire.SessionInfoRsp :=
  { handle := g.handle, max := g.max, active := g.active, userID := g.userID, privilegeLevel := g.privilegeLevel
    isIPMIv2 := g.isIPMIv2, channel := g.channel, ip := g.ip, mac := g.mac, port := g.port.toNat
    contents := g.contents, payload := g.payload }

theorem copyAt_v4 (src : Bytes) (h : src.length = 4) :
    GoDec.copyAt 16 12 [0, 0, 0, 0, 0, 0, 0, 0, 0, 0, 255, 255, 0, 0, 0, 0] src = Wire.v4Prefix ++ src := by
  have : 4 ≤ src.length := by omega
  simp [GoDec.copyAt, GoDec.copyArr_full, this, Wire.v4Prefix, List.take_of_length_le (Nat.le_of_eq h)]

def AuthenticationPayload.toModel (a : AuthenticationPayload) : Wire.Setup.AlgPayload := { wildcard := a.wildcard, algorithm := a.algorithm }
def IntegrityPayload.toModel (a : IntegrityPayload) : Wire.Setup.AlgPayload := { wildcard := a.wildcard, algorithm := a.algorithm }
def ConfidentialityPayload.toModel (a : ConfidentialityPayload) : Wire.Setup.AlgPayload := { wildcard := a.wildcard, algorithm := a.algorithm }

def OpenSessionRsp.toModel (g : OpenSessionRsp) : Wire.Setup.OpenSessionRsp :=
  { tag := g.tag, status := g.status, maxPriv := g.maxPrivilegeLevel, consoleSID := g.remoteConsoleSessionID.toNat
    bmcSID := g.managedSystemSessionID.toNat, auth := g.authenticationPayload.toModel, integ := g.integrityPayload.toModel
    conf := g.confidentialityPayload.toModel, contents := g.contents }

theorem auth_deserialise (a : AuthenticationPayload) (s : GoSlice) :
    (AuthenticationPayload.Deserialise a s).map (fun p => p.1.toModel) = Wire.Setup.deserialiseAlg 0 s := by
  unfold AuthenticationPayload.Deserialise Wire.Setup.deserialiseAlg
  by_cases h : s.len < 8
  · simp only [h, if_true, R.map]
  · simp only [h, if_false]
    gen_simp
    by_cases h0 : (List.getD s.vis 0 0 != 0) = true
    · simp only [h0, if_true, R.map]
    · simp only [h0, if_false, Bool.false_eq_true]
      by_cases h1 : (List.getD s.vis 3 0 == 0 && List.getD s.vis 4 0 &&& 63 != 0) = true
      · simp only [h1, if_true, R.map]
      · simp only [h1, if_false, Bool.false_eq_true, R.map, AuthenticationPayload.toModel]

theorem integ_deserialise (a : IntegrityPayload) (s : GoSlice) :
    (IntegrityPayload.Deserialise a s).map (fun p => p.1.toModel) = Wire.Setup.deserialiseAlg 1 s := by
  unfold IntegrityPayload.Deserialise Wire.Setup.deserialiseAlg
  by_cases h : s.len < 8
  · simp only [h, if_true, R.map]
  · simp only [h, if_false]
    gen_simp
    by_cases h0 : (List.getD s.vis 0 0 != 1) = true
    · simp only [h0, if_true, R.map]
    · simp only [h0, if_false, Bool.false_eq_true]
      by_cases h1 : (List.getD s.vis 3 0 == 0 && List.getD s.vis 4 0 &&& 63 != 0) = true
      · simp only [h1, if_true, R.map]
      · simp only [h1, if_false, Bool.false_eq_true, R.map, IntegrityPayload.toModel]

theorem conf_deserialise (a : ConfidentialityPayload) (s : GoSlice) :
    (ConfidentialityPayload.Deserialise a s).map (fun p => p.1.toModel) = Wire.Setup.deserialiseAlg 2 s := by
  unfold ConfidentialityPayload.Deserialise Wire.Setup.deserialiseAlg
  by_cases h : s.len < 8
  · simp only [h, if_true, R.map]
  · simp only [h, if_false]
    gen_simp
    by_cases h0 : (List.getD s.vis 0 0 != 2) = true
    · simp only [h0, if_true, R.map]
    · simp only [h0, if_false, Bool.false_eq_true]
      by_cases h1 : (List.getD s.vis 3 0 == 0 && List.getD s.vis 4 0 &&& 63 != 0) = true
      · simp only [h1, if_true, R.map]
      · simp only [h1, if_false, Bool.false_eq_true, R.map, ConfidentialityPayload.toModel]

/-- a bind whose function only uses the image under `f` -/
theorem bind_via_map {α β γ : Type} (x : R α) (f : α → β) (k : α → R γ) (k' : β → R γ) (h : ∀ a, k a = k' (f a)) :
    (x >>= k) = (x.map f >>= k') := by
  cases x <;> first | exact h _ | rfl

theorem nat_sub_add (a b c : Nat) (h : b ≤ a) : GoDec.nat (((a : Nat) : Int) - ((b : Nat) : Int) + ((c : Nat) : Int)) = .ok (a - b + c) := by
  rw [GoDec.nat_ok _ (by omega)]; congr 1; omega

macro "dcmi_simp" : tactic => `(tactic|
  simp (config := { maxSteps := 2000000 }) (disch := first | omega | (simp only [GoSlice.sub_len]; omega)) only [if_true, if_false, GoSlice.idx_ok, GoSlice.slice_ok,
    GoSlice.sliceFrom_ok, R.bind_ok, R.pure_eq, R.map, Bmc.Lemmas.GenDec.le16_toNat, GoSlice.sub_vis, GoSlice.sub_len, nat_sub_add])

def getDCMICapabilitiesInfoRspHeader.toModel (h : getDCMICapabilitiesInfoRspHeader) : Wire.DcmiHeader :=
  { major := h.majorVersion, minor := h.minorVersion, revision := h.revision }

def GetDCMICapabilitiesInfoManageabilityAccessAttrsRsp.toModel (g : GetDCMICapabilitiesInfoManageabilityAccessAttrsRsp) : Wire.DcmiCap4 :=
  { hdr := g.getDCMICapabilitiesInfoRspHeader.toModel, primaryLAN := g.primaryLANOOBChannel, secondaryLAN := g.secondaryLANOOBChannel
    serial := g.serialOOBChannel, contents := g.contents, payload := g.payload }

def GetDCMICapabilitiesInfoOptionalPlatformAttrsRsp.toModel (g : GetDCMICapabilitiesInfoOptionalPlatformAttrsRsp) : Wire.DcmiCap3 :=
  { hdr := g.getDCMICapabilitiesInfoRspHeader.toModel, slaveAddress := g.powerManagementSlaveAddress, channel := g.powerManagementChannel
    revision := g.powerManagementRevision, contents := g.contents, payload := g.payload }

def GetDCMICapabilitiesInfoSupportedCapabilitiesRsp.toModel (g : GetDCMICapabilitiesInfoSupportedCapabilitiesRsp) : Wire.DcmiCap1 :=
  { hdr := g.getDCMICapabilitiesInfoRspHeader.toModel, temperatureMonitor := g.temperatureMonitor, chassisPower := g.chassisPower
    selLogging := g.selLogging, identification := g.identification, powerManagement := g.powerManagement, vlanCapable := g.vlanCapable
    solSupported := g.solSupported, oobPrimary := g.oobPrimaryLANChannelAvailable, oobSecondary := g.oobSecondaryLANChannelAvailable
    serialTMODE := g.serialTMODEAvailable, ibKCS := g.ibkcsChannelAvailable, ibSystemInterface := g.ibSystemInterfaceChannelAvailable
    contents := g.contents, payload := g.payload }

def GetDCMICapabilitiesInfoMandatoryPlatformAttrsRsp.toModel (g : GetDCMICapabilitiesInfoMandatoryPlatformAttrsRsp) : Wire.DcmiCap2 :=
  { hdr := g.getDCMICapabilitiesInfoRspHeader.toModel, selAutoRollover := g.selAutoRollover, selFlushOnRollover := g.selFlushOnRollover
    selRecordLevelFlushOnRollover := g.selRecordLevelFlushOnRollover, selMaxEntries := g.selMaxEntries.toNat
    assetTagSupport := g.assetTagSupport, dhcpHostNameSupport := g.dhcpHostNameSupport, guidSupport := g.guidSupport
    baseboardTemperature := g.baseboardTemperature, processorsTemperature := g.processorsTemperature
    inletTemperature := g.inletTemperature, temperatureSamplingFrequency := g.temperatureSamplingFrequency.toNat
    contents := g.contents, payload := g.payload }

theorem le16_pair (a b : UInt8) : Wire.le16 [a, b] = a.toNat + 256 * b.toNat := rfl

theorem hdr_decode_ok (h0 : getDCMICapabilitiesInfoRspHeader) (d : GoSlice) (hl : ¬ d.len < 3) :
    getDCMICapabilitiesInfoRspHeader.Decode h0 d =
      .ok ({ majorVersion := d.vis.getD 0 0, minorVersion := d.vis.getD 1 0, revision := d.vis.getD 2 0 },
           d.sub 3 d.len (by omega) (Nat.le_refl _)) := by
  unfold getDCMICapabilitiesInfoRspHeader.Decode
  simp only [hl, if_false]
  dcmi_simp

theorem dcmiHeader_ok (d : GoSlice) (hl : ¬ d.len < 3) :
    Wire.DcmiHeader.decodeGo d =
      .ok ({ major := d.vis.getD 0 0, minor := d.vis.getD 1 0, revision := d.vis.getD 2 0 }, d.sub 3 d.len (by omega) (Nat.le_refl _)) := by
  unfold Wire.DcmiHeader.decodeGo
  simp only [hl, if_false]
  dcmi_simp

theorem checksum_eq (b : Bytes) : ipmi_checksum b = Prim.checksum b := rfl
theorem isRequest_eq (n : UInt8) : NetworkFunction_IsRequest n = Wire.isRequest n := rfl

theorem nat_cast (n : Nat) : GoDec.nat ((n : Nat) : Int) = .ok n := by
  rw [GoDec.nat_ok _ (by omega)]; rfl
theorem nat_sub (a b : Nat) (h : b ≤ a) : GoDec.nat (((a : Nat) : Int) - ((b : Nat) : Int)) = .ok (a - b) := by
  rw [GoDec.nat_ok _ (by omega)]; congr 1; omega
theorem nat_add (a b : Nat) : GoDec.nat (((a : Nat) : Int) + ((b : Nat) : Int)) = .ok (a + b) := by
  rw [GoDec.nat_ok _ (by omega)]; congr 1

def Message.toModel (g : Message) : Wire.Message :=
  { function := g.operation.function, body := g.operation.body, enterprise := g.operation.enterprise.toNat
    command := g.operation.command, remoteAddress := g.remoteAddress, remoteLUN := g.remoteLUN, checksum1 := g.checksum1
    localAddress := g.localAddress, localLUN := g.localLUN, sequence := g.sequence, completionCode := g.completionCode
    checksum2 := g.checksum2, contents := g.contents, payload := g.payload }

macro "msg_simp" : tactic => `(tactic|
  simp (disch := first | omega | (simp only [GoSlice.sub_len]; omega)) only [if_true, if_false, GoSlice.idx_ok, GoSlice.slice_ok,
    GoSlice.sliceFrom_ok, R.bind_ok, R.bind_err, R.pure_eq, R.map, GoSlice.sub_vis, GoSlice.sub_len, nat_cast, nat_sub, nat_add,
    checksum_eq, isRequest_eq, Bool.false_eq_true])

theorem rolling_eq : ∀ b : UInt8, (dcmi_rollingAvgPeriodDuration b).toNat = Wire.rollingNs b := forall_uint8 (by decide +kernel)

abbrev Cap5 := GetDCMICapabilitiesInfoEnhancedSystemPowerStatisticsAttrsRsp

theorem set_append_drop {α : Type} (A P : List α) (m : Nat) (v : α) (hA : A.length = m) (hP : m < P.length) :
    (A ++ P.drop m).set m v = (A ++ [v]) ++ P.drop (m + 1) := by
  subst hA
  rw [List.set_append_right _ _ (Nat.le_refl _)]
  simp only [Nat.sub_self, List.append_assoc, List.singleton_append]
  congr 1
  rw [List.drop_eq_getElem_cons hP]
  rfl

theorem cap5_loop (body : GoSlice) (n : Nat) (hb : 1 + n ≤ body.len) (m : Nat) (hm : m ≤ n) (r : Cap5)
    (hl : r.powerRollingAvgTimePeriods.length = n) :
    List.foldlM (fun (r : Cap5) i => (do
      let t4 ← body.idx (1 + i)
      let t5 ← GoDec.setAt r.powerRollingAvgTimePeriods i (dcmi_rollingAvgPeriodDuration t4)
      R.ok { r with powerRollingAvgTimePeriods := t5 })) r (List.range m)
    = R.ok { r with powerRollingAvgTimePeriods :=
        (List.range m).map (fun i => dcmi_rollingAvgPeriodDuration (body.vis.getD (1 + i) 0)) ++ r.powerRollingAvgTimePeriods.drop m } := by
  induction m with
  | zero => simp
  | succ m ih =>
    rw [List.range_succ, List.foldlM_append, ih (by omega)]
    simp only [R.bind_ok, List.foldlM_cons, List.foldlM_nil, R.pure_eq]
    rw [GoSlice.idx_ok _ _ (by omega)]
    simp only [R.bind_ok, GoDec.setAt]
    have hlen : m < ((List.range m).map (fun i => dcmi_rollingAvgPeriodDuration (body.vis.getD (1 + i) 0)) ++
        r.powerRollingAvgTimePeriods.drop m).length := by simp; omega
    rw [if_pos hlen]
    simp only [R.bind_ok]
    rw [set_append_drop _ _ _ _ (by simp) (by omega)]
    simp [List.map_append]

def GetDCMICapabilitiesInfoEnhancedSystemPowerStatisticsAttrsRsp.toModel (g : Cap5) : Wire.DcmiCap5 :=
  { hdr := g.getDCMICapabilitiesInfoRspHeader.toModel, periods := g.powerRollingAvgTimePeriods.map Int.toNat
    contents := g.contents, payload := g.payload }

theorem sensorInfo_loop (d : GoSlice) (n : Nat) (hd : 2 + n * 2 ≤ d.len) (m : Nat) (hm : m ≤ n) (r : GetDCMISensorInfoRsp) :
    List.foldlM (fun (r : GetDCMISensorInfoRsp) i => (do
      let t6 ← d.sliceFrom (2 + i * 2)
      let t7 ← GoDec.le16Go t6
      R.ok { r with recordIDs := r.recordIDs ++ [t7] })) r (List.range m)
    = R.ok { r with recordIDs := r.recordIDs ++ (List.range m).map (fun i => GoDec.le16 (d.vis.drop (2 + i * 2))) } := by
  induction m with
  | zero => simp
  | succ m ih =>
    rw [List.range_succ, List.foldlM_append, ih (by omega)]
    simp only [R.bind_ok, List.foldlM_cons, List.foldlM_nil, R.pure_eq]
    rw [GoSlice.sliceFrom_ok _ _ (by omega)]
    simp only [R.bind_ok, GoDec.le16Go, GoSlice.sub_len]
    have : ¬ d.len - (2 + m * 2) < 2 := by omega
    simp only [this, if_false, R.bind_ok, Wire.sub_tail_vis, List.map_append, List.map_cons, List.map_nil, List.append_assoc]

def GetDCMISensorInfoRsp.toView (g : GetDCMISensorInfoRsp) : Wire.SensorInfoView :=
  { instances := g.instances, recordIDs := g.recordIDs.map UInt16.toNat, contents := g.contents, payload := g.payload }

end Bmc.Gen.Dec
