import Bmc.Lemmas.AcceptInv
import Bmc.Lemmas.MessageRefine
import Bmc.Lemmas.MessageRoundTrip
import Bmc.Lemmas.V2RoundTripAuth
import Bmc.Lemmas.AesRoundTrip
/-! COMPLETENESS of the in-session receive path: the datagram a conforming BMC builds in answer to a command — the
    response message (addresses swapped, NetFn + 1, same command / sequence / group or OEM prefix, completion code,
    body), AES-CBC under K2, wrapped for the CONSOLE's session ID, authenticated under K1 — decodes through the whole
    chain and is classified as the command's final response (or, for the two temporary codes, as a retry). -/
namespace Bmc.Proto
open Bmc Bmc.Wire Bmc.Crypto

/-- the response message to `c` (IPMI 13.8: rqAddr / NetFn+1 / rsAddr / rqSeq echoed / command / completion code) -/
def responseMsg (c : Cmd) (cc : UInt8) : Message :=
  { function := c.fn + 1, body := c.body, enterprise := c.ent, command := c.cmd
    remoteAddress := 0x81, remoteLUN := 0, localAddress := 0x20, localLUN := c.lun, sequence := 1
    completionCode := cc }

def responseBytes (c : Cmd) (cc : UInt8) (data : Bytes) : Bytes := (Message.encode (responseMsg c cc) data).2

def responseAes (C : Ops) (k : Keys) (c : Cmd) (cc : UInt8) (data iv : Bytes) : Bytes :=
  AESLayer.encode C k.k2 iv (responseBytes c cc data)

/-- the wrapper of a response: addressed to the console's session ID, both flags set, payload type IPMI -/
def responseWrapper (k : Keys) (seq : Nat) : V2Session :=
  { encrypted := true, authenticated := true, id := k.localID, payloadType := 0, sequence := seq }

/-- the whole datagram: RMCP header (version 6, no ACK, class IPMI) + authenticated, encrypted session wrapper -/
def responseDatagram (C : Ops) (k : Keys) (c : Cmd) (cc : UInt8) (data : Bytes) (seq : Nat) (iv : Bytes) : Bytes :=
  [6, 0, 0xFF, 7] ++ (V2Session.encode (integMac C k.integ k.k1) (responseWrapper k seq) (responseAes C k c cc data iv)).2

theorem rmcp_decode (prev : RMCP) (rest : Bytes) :
    RMCP.decodeGo prev (GoSlice.ofBytes ([6, 0, 0xFF, 7] ++ rest)) =
      .ok ({ version := 6, sequence := 0xFF, ack := false, cls := 7 },
           (GoSlice.ofBytes ([6, 0, 0xFF, 7] ++ rest)).sub 4 (rest.length + 4) (by omega) (by simp)) := by
  unfold RMCP.decodeGo
  have h4 : ¬ (GoSlice.ofBytes ([6, 0, 0xFF, 7] ++ rest)).len < 4 := by simp
  simp only [h4, if_false]
  rw [GoSlice.idx_ok _ 0 (by simp), GoSlice.idx_ok _ 2 (by simp), GoSlice.idx_ok _ 3 (by simp)]
  simp only [R.bind_ok]
  rw [GoSlice.sliceFrom_ok _ 4 (by simp)]
  simp only [R.bind_ok, R.pure_eq, GoSlice.vis_ofBytes]
  have : (GoSlice.ofBytes ([6, 0, 0xFF, 7] ++ rest)).len = rest.length + 4 := by simp
  simp [this]
  constructor <;> decide

theorem aes_encode_length (C : Ops) (hC : C.Lawful) (key iv msg : Bytes) (hiv : iv.length = 16) :
    0 < (AESLayer.encode C key iv msg).length := by
  unfold AESLayer.encode; simp; omega

theorem v2_encode_head (mac : Bytes → Bytes) (s : V2Session) (inner : Bytes) :
    (V2Session.encode mac s inner).2.getD 0 0 = 6 ∧ 0 < (V2Session.encode mac s inner).2.length := by
  unfold V2Session.encode
  simp only []
  split <;> simp

end Bmc.Proto

namespace Bmc.Proto
open Bmc Bmc.Wire Bmc.Crypto

theorem message_encode_pos (m : Message) (data : Bytes) : 0 < (Message.encode m data).2.length := by
  unfold Message.encode; simp

/-- innermost step: the message layer decodes the response -/
theorem onMessage_response (s : Sess) (c : Cmd) (cc : UInt8) (data : Bytes) (hm : (responseMsg c cc).WF) :
    ∃ m, onMessage s (GoSlice.ofBytes (responseBytes c cc data)) = ({ s with msg := m }, .message) ∧
      m.function = c.fn + 1 ∧ m.command = c.cmd ∧ m.body = c.body ∧ m.enterprise = c.ent ∧
      m.completionCode = cc ∧ m.payload = data := by
  have hmsg := Message.decode_encode (responseMsg c cc) data hm
  have hpos := message_encode_pos (responseMsg c cc) data
  unfold onMessage
  have h0 : ((GoSlice.ofBytes (responseBytes c cc data)).len == 0) = false := by
    simp only [GoSlice.len_ofBytes, responseBytes, beq_eq_false_iff_ne, ne_eq]; omega
  simp only [h0, Bool.false_eq_true, if_false]
  rw [Message.decodeGo_refines, GoSlice.vis_ofBytes, responseBytes, hmsg]
  exact ⟨_, rfl, rfl, rfl, rfl, rfl, rfl, rfl⟩

end Bmc.Proto

namespace Bmc.Proto
open Bmc Bmc.Wire Bmc.Crypto

/-- middle step: the confidentiality layer decrypts under K2 and hands the message on -/
theorem onWrapper_response (C : Ops) (hC : C.Lawful) (s : Sess) (v : V2Session) (c : Cmd) (cc : UInt8) (data iv : Bytes)
    (hiv : iv.length = 16) (hm : (responseMsg c cc).WF)
    (hp : v.payload = AESLayer.encode C s.k2 iv (responseBytes c cc data)) (hpt : v.payloadType = 0) (henc : v.encrypted = true) :
    ∃ m, onWrapper C s v = ({ s with v2 := v, msg := m }, .message) ∧
      m.function = c.fn + 1 ∧ m.command = c.cmd ∧ m.body = c.body ∧ m.enterprise = c.ent ∧
      m.completionCode = cc ∧ m.payload = data := by
  have haes := AESLayer.decode_encode C hC s.k2 iv (responseBytes c cc data) hiv
  have hpos := aes_encode_length C hC s.k2 iv (responseBytes c cc data) hiv
  unfold onWrapper
  have h0 : v.payload.isEmpty = false := by
    rw [hp]; cases h : AESLayer.encode C s.k2 iv (responseBytes c cc data) with
    | nil => rw [h] at hpos; simp at hpos
    | cons _ _ => rfl
  simp only [h0, Bool.false_eq_true, if_false, hpt, bne_self_eq_false, henc, if_true]
  rw [AESLayer.decodeGo_refines C hC, GoSlice.vis_ofBytes, hp, haes]
  simp only [R.ofExcept_ok]
  obtain ⟨m, h1, h2⟩ := onMessage_response { s with v2 := v } c cc data hm
  exact ⟨m, h1, h2⟩

/-- the chain on a conforming response: every layer decodes, and the message layer holds the response -/
theorem onReply_response (C : Ops) (hC : C.Lawful) (s : Sess) (c : Cmd) (cc : UInt8) (data : Bytes) (seq : Nat) (iv : Bytes)
    (hiv : iv.length = 16) (hm : (responseMsg c cc).WF) (hid : s.localID < 4294967296) (hseq : seq < 4294967296)
    (hlen : (responseAes C s.keys c cc data iv).length < 65536) :
    ∃ r v2 msg, onReply C s (GoSlice.ofBytes (responseDatagram C s.keys c cc data seq iv)) = ({ s with rmcp := r, v2 := v2, msg := msg }, .message) ∧
      v2.authenticated = true ∧ v2.encrypted = true ∧ v2.id = s.localID ∧ v2.sequence = seq ∧
      msg.function = c.fn + 1 ∧ msg.command = c.cmd ∧ msg.body = c.body ∧ msg.enterprise = c.ent ∧
      msg.completionCode = cc ∧ msg.payload = data := by
  have hwf : (responseWrapper s.keys seq).WF (responseAes C s.keys c cc data iv) :=
    ⟨by show (0 : UInt8).toNat < 64; decide, hid, hseq, hlen, by show (0 : Nat) < 4294967296; omega,
     by show (0 : Nat) < 65536; omega, fun _ => ⟨rfl, rfl⟩, fun h => by simp [responseWrapper] at h⟩
  have hv2 := V2Session.decode_encode (integMac C s.integ s.k1) (responseWrapper s.keys seq) (responseAes C s.keys c cc data iv) hwf
  obtain ⟨hhead, hpos⟩ := v2_encode_head (integMac C s.integ s.k1) (responseWrapper s.keys seq) (responseAes C s.keys c cc data iv)
  unfold onReply responseDatagram
  rw [rmcp_decode]
  simp only []
  generalize hrest : (V2Session.encode (integMac C s.keys.integ s.keys.k1) (responseWrapper s.keys seq) (responseAes C s.keys c cc data iv)).2 = rest at *
  have hvis : ((GoSlice.ofBytes ([6, 0, 0xFF, 7] ++ rest)).sub 4 (rest.length + 4) (by omega) (by simp)).vis = rest := by
    simp
  have hl : ((GoSlice.ofBytes ([6, 0, 0xFF, 7] ++ rest)).sub 4 (rest.length + 4) (by omega) (by simp)).len = rest.length := by
    simp
  rw [V2Session.decodeGo_refines, hvis, hl]
  have hrest' : (V2Session.encode (integMac C s.integ s.k1) (responseWrapper s.keys seq) (responseAes C s.keys c cc data iv)).2 = rest := hrest
  rw [hrest'] at hv2 hhead hpos
  rw [hv2]
  have h0 : (rest.length == 0) = false := by simp only [beq_eq_false_iff_ne, ne_eq]; omega
  have h6 : (rest.getD 0 0 != 6) = false := by rw [hhead]; rfl
  have h7 : ((7 : UInt8) != 7) = false := rfl
  simp only [h0, h6, h7, Bool.false_eq_true, if_false, R.ofExcept_ok]
  obtain ⟨m, h1, h2⟩ := onWrapper_response C hC { s with rmcp := { version := 6, sequence := 0xFF, ack := false, cls := 7 } }
    { (V2Session.encode (integMac C s.integ s.k1) (responseWrapper s.keys seq) (responseAes C s.keys c cc data iv)).1 with
      contents := rest.take (if (responseWrapper s.keys seq).payloadType == 2 then 18 else 12)
      payload := responseAes C s.keys c cc data iv } c cc data iv hiv hm rfl rfl rfl
  rw [h1]
  exact ⟨_, _, m, rfl, rfl, rfl, rfl, rfl, h2⟩

end Bmc.Proto

namespace Bmc.Proto
open Bmc Bmc.Wire Bmc.Crypto

/-- classification of a conforming response: final with its completion code and body, unless the code is one of the
    two temporary ones -/
theorem classify_response (C : Ops) (hC : C.Lawful) (k : Keys) (c : Cmd) (cc : UInt8) (data : Bytes) (seq : Nat) (iv : Bytes)
    (hiv : iv.length = 16) (hm : (responseMsg c cc).WF) (hid : k.localID < 4294967296) (hseq : seq < 4294967296)
    (hlen : (responseAes C k c cc data iv).length < 65536) :
    classify C k c (responseDatagram C k c cc data seq iv) = if isTemp cc then .retry else .final cc data := by
  obtain ⟨r, v2, msg, h, ha, _, hidv, _, hf, hcmd, hb, he, hcc, hp⟩ :=
    onReply_response C hC k.sess c cc data seq iv hiv hm hid hseq hlen
  have hk : k.sess.keys = k := rfl
  rw [hk] at h
  unfold classify
  rw [h]
  simp only [view, if_true]
  have hacc : accept k c v2 msg = true := by
    simp [accept, ha, hidv, hf, hcmd, hb, he, Keys.sess]
  rw [hacc, hcc, hp]
  cases isTemp cc <;> simp

end Bmc.Proto

namespace Bmc.Proto
open Bmc Bmc.Wire Bmc.Crypto

/-- two commands are the same operation when NetFn, command number, group body code and OEM enterprise agree -/
def sameOperation (c c' : Cmd) : Bool := c'.fn == c.fn && c'.cmd == c.cmd && c'.body == c.body && c'.ent == c.ent

/-- a conforming response to ANOTHER operation `c'` — authentic, for this session, any completion code and body — is
    classified as a retry while `c` is pending: it never becomes `c`'s result -/
theorem classify_stray (C : Ops) (hC : C.Lawful) (k : Keys) (c c' : Cmd) (hne : sameOperation c c' = false) (cc : UInt8) (data : Bytes)
    (seq : Nat) (iv : Bytes) (hiv : iv.length = 16) (hm : (responseMsg c' cc).WF) (hid : k.localID < 4294967296)
    (hseq : seq < 4294967296) (hlen : (responseAes C k c' cc data iv).length < 65536) :
    classify C k c (responseDatagram C k c' cc data seq iv) = .retry := by
  obtain ⟨r, v2, msg, h, ha, _, hidv, _, hf, hcmd, hb, he, hcc, hp⟩ :=
    onReply_response C hC k.sess c' cc data seq iv hiv hm hid hseq hlen
  have hk : k.sess.keys = k := rfl
  rw [hk] at h
  unfold classify
  rw [h]
  simp only [view, if_true]
  have hacc : accept k c v2 msg = false := by
    simp only [accept, hf, hcmd, hb, he]
    simp only [sameOperation] at hne
    by_cases h1 : c'.fn + 1 = c.fn + 1
    · have h1' : c'.fn = c.fn := by
        have := congrArg (· - 1) h1
        simpa using this
      simp only [h1', beq_self_eq_true, Bool.true_and] at hne
      simp only [h1', beq_self_eq_true, Bool.and_true]
      cases hx : (c'.cmd == c.cmd) <;> cases hy : (c'.body == c.body) <;> cases hz : (c'.ent == c.ent) <;> simp_all
    · have : (c'.fn + 1 == c.fn + 1) = false := by simpa using h1
      simp [this]
  rw [hacc]
  simp

end Bmc.Proto
