import Bmc.Wire.C08Encode
import Bmc.Lemmas.V2RoundTripAuth
/-! Round trip of the v1.5 session wrapper (C08). -/
namespace Bmc.Wire
open Bmc

/-- values of the Go struct that the wire format can carry: 32-bit numbers, a 16-byte AuthCode, which is all zero when
    the authentication type is none (the field is absent from the wire then) -/
structure V1Session.WF (s : V1Session) : Prop where
  seq : s.sequence < 4294967296
  id : s.id < 4294967296
  ac : s.authCode.length = 16
  ac0 : s.authType = 0 → s.authCode = List.replicate 16 0

theorem le32_putLE32 (n : Nat) (h : n < 4294967296) (r : Bytes) : le32 (putLE32 n ++ r) = n := by
  simp [le32, putLE32]; omega

theorem V1Session.decode_encode (s : V1Session) (inner : Bytes) (h : s.WF) :
    V1Session.decode (V1Session.encode s inner).2 =
      .ok { (V1Session.encode s inner).1 with
            contents := (V1Session.encode s inner).2.take (if s.authType == 0 then 10 else 26)
            payload := inner } := by
  obtain ⟨hseq, hid, hac, hac0⟩ := h
  obtain ⟨at_, seq, id, ac, len, contents, payload⟩ := s
  simp only at hseq hid hac hac0
  have eid : id % 256 + 256 * (id / 256 % 256) + 65536 * (id / 65536 % 256) + 16777216 * (id / 16777216 % 256) = id := by omega
  have eseq : seq % 256 + 256 * (seq / 256 % 256) + 65536 * (seq / 65536 % 256) + 16777216 * (seq / 16777216 % 256) = seq := by omega
  unfold V1Session.encode V1Session.decode
  by_cases h0 : at_ = 0
  · subst h0
    have := hac0 rfl
    subst this
    simp [putLE32, le32, eid, eseq]
  · have hb : (at_ == 0) = false := by simpa using h0
    simp [hb, h0, putLE32, le32, eid, eseq, hac]
    have d17 : ∀ x : UInt8, List.drop 17 (ac ++ x :: inner) = inner := by
      intro x
      rw [show 17 = ac.length + 1 by omega, ← List.drop_drop]; simp
    rw [if_neg (by omega), if_neg (by omega), d17]

/-- the length byte counts the inner payload exactly as long as it fits a byte -/
theorem V1Session.encode_length (s : V1Session) (inner : Bytes) (h : inner.length < 256) :
    (V1Session.encode s inner).1.length.toNat = inner.length := by
  simp [V1Session.encode]; omega

theorem V1Session.reencode (s : V1Session) (inner c p : Bytes) :
    (V1Session.encode { (V1Session.encode s inner).1 with contents := c, payload := p } inner).2 =
      (V1Session.encode s inner).2 := rfl

end Bmc.Wire
