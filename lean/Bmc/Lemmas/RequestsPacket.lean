import Bmc.Lemmas.RequestsBits
import Bmc.Proto.Handshake
/-! The session-less datagram stack parses back (C06, packet level): RMCP header, null-session wrapper, IPMI
    message with both checksums, for any operation, LUN and body. -/
namespace Bmc.Wire.Req
open Bmc Bmc.Wire Bmc.Prim

/-- a message laid out as rsAddr, NetFn/LUN, checksum 1, rqAddr, rqSeq/LUN, cmd, tail, checksum 2 passes both
    checksum tests of the reference parser, whatever the bytes are -/
theorem parseMessage_layout (rs nl rq sl cmd : UInt8) (tail : Bytes) :
    Spec.Req.parseMessage (rs :: nl :: checksum [rs, nl] :: rq :: sl :: cmd :: (tail ++ [checksum (rq :: sl :: cmd :: tail)])) =
      (let netFn := nl.toNat / 4
       let hdr (e : Spec.Req.Ext) : Spec.Req.IpmiHeader :=
         { rsAddr := rs.toNat, netFn := netFn, rsLUN := nl.toNat % 4, rqAddr := rq.toNat, rqSeq := sl.toNat / 4
           rqLUN := sl.toNat % 4, cmd := cmd.toNat, ext := e }
       if netFn % 2 = 1 then none
       else if netFn = 0x2C then
         match tail with
         | b :: d => some (hdr (.group b.toNat), d)
         | [] => none
       else if netFn = 0x2E then
         match tail with
         | a :: b :: c :: d => some (hdr (.oem (Spec.Req.rd24 a b c)), d)
         | _ => none
       else some (hdr .none, tail)) := by
  have e1 : Spec.Req.sum8 [rs, nl, checksum [rs, nl]] = 0 := sum8_checksum [rs, nl]
  have e2 : Spec.Req.sum8 (rq :: sl :: cmd :: (tail ++ [checksum (rq :: sl :: cmd :: tail)])) = 0 :=
    sum8_checksum (rq :: sl :: cmd :: tail)
  simp only [Spec.Req.parseMessage, e1, e2]
  simp only [List.append_eq_nil_iff, List.cons_ne_nil, and_false, if_false, ne_eq, not_true_eq_false, List.dropLast_concat]
  rfl

/-- the session wrapper of a null-session packet parses back -/
theorem parseWrapper_encode (pt : UInt8) (inner : Bytes) (hpt : pt.toNat < 64) (h2 : pt ≠ 2) (hl : inner.length < 65536) :
    Spec.Req.parseWrapper (V2Session.encode (fun _ => []) { payloadType := pt } inner).2 =
      some { payloadType := pt.toNat, sessionID := 0, sequence := 0, payload := inner } := by
  have hoem : (pt == 2) = false := by simpa using h2
  have hm : pt.toNat % 64 = pt.toNat := Nat.mod_eq_of_lt hpt
  have hd : pt.toNat / 64 = 0 := Nat.div_eq_of_lt hpt
  have h2' : ¬ pt.toNat = 2 := by
    intro h; apply h2; exact UInt8.toNat_inj.mp (by simpa using h)
  simp [V2Session.encode, hoem, putLE32, putLE16, Spec.Req.parseWrapper, Spec.Req.rd16, Spec.Req.rd32, hm, hd, h2']
  omega

/-- `SlaveAddressBMC.Address()` and `SoftwareIDRemoteConsole1.Address()` (regenerated from the source) -/
theorem addresses : bmcAddress = 0x20 ∧ consoleAddress = 0x81 := by decide

/-- the extension bytes the specification expects after the command byte of an operation -/
def expectedExt (op : Operation) : Spec.Req.Ext :=
  if op.function = 0x2C then .group op.body.toNat else if op.function = 0x2E then .oem op.enterprise else .none

theorem message_parses (op : Operation) (lun : UInt8) (body : Bytes)
    (hf : op.function.toNat < 64) (hreq : op.function.toNat % 2 = 0) (hl : lun.toNat < 4) (he : op.enterprise < 16777216) :
    Spec.Req.parseMessage (Message.encode (messageLayer op lun) body).2 =
      some ({ rsAddr := 0x20, netFn := op.function.toNat, rsLUN := lun.toNat, rqAddr := 0x81, rqSeq := 1, rqLUN := 0
              cmd := op.command.toNat, ext := expectedExt op }, body) := by
  obtain ⟨fn, b, ent, cmd⟩ := op
  simp only at hf hreq he
  obtain ⟨a1, a2⟩ := fnlun_nat fn lun hf hl
  have hr : isRequest fn = true := by
    simp only [isRequest, beq_iff_eq]
    apply UInt8.toNat_inj.mp
    simpa using hreq
  simp only [Message.encode, messageLayer, hr, addresses.1, addresses.2, if_true, List.append_nil]
  have hsl : ((1 : UInt8) <<< 2 ||| 0).toNat / 4 = 1 ∧ ((1 : UInt8) <<< 2 ||| 0).toNat % 4 = 0 := by decide
  have h20 : (32 : UInt8).toNat = 32 ∧ (129 : UInt8).toNat = 129 := by decide
  have hne : ∀ k : Nat, k < 256 → fn.toNat ≠ k → fn ≠ UInt8.ofNat k := by
    intro k hk h e; apply h; rw [e]; simp; omega
  simp only [List.cons_append, List.nil_append]
  generalize hpre : (if isGroup fn = true then [b] else if isOEM fn = true then
      [UInt8.ofNat (ent % 256), UInt8.ofNat (ent / 256 % 256), UInt8.ofNat (ent / 65536 % 256)] else []) = pre
  rw [parseMessage_layout]
  subst hpre
  simp only [a1, a2, hsl.1, hsl.2, h20.1, h20.2]
  by_cases hg : fn = 0x2C
  · subst hg; simp [isGroup, expectedExt]
  · by_cases ho : fn = 0x2E
    · subst ho
      simp [isGroup, isOEM, expectedExt, Spec.Req.rd24]
      omega
    · have g1 : fn.toNat ≠ 0x2C := fun h => hg (UInt8.toNat_inj.mp (by simpa using h))
      have g2 : fn.toNat ≠ 0x2E := fun h => ho (UInt8.toNat_inj.mp (by simpa using h))
      have g3 : fn ≠ 0x2D := hne 0x2D (by omega) (by omega)
      have g4 : fn ≠ 0x2F := hne 0x2F (by omega) (by omega)
      simp [isGroup, isOEM, expectedExt, hg, ho, g1, g2, g3, g4, hreq]

theorem message_length (m : Message) (data : Bytes) : (Message.encode m data).2.length ≤ data.length + 11 := by
  simp only [Message.encode]
  split <;> split <;> (try split) <;> simp <;> omega

theorem parseRMCP_encode (rest : Bytes) : Spec.Req.parseRMCP (RMCP.encode rmcpLayer ++ rest) = some rest := by
  simp [RMCP.encode, rmcpLayer, Spec.Req.parseRMCP]

theorem packet_parses (op : Operation) (lun : UInt8) (body : Bytes) (h : op.wf) (hl : lun.toNat < 4) (hb : bodyFits body) :
    Spec.Req.parsePacket (packetSessionless op lun body) =
      some { payloadType := 0, sessionID := 0, sequence := 0
             ipmi := some { rsAddr := 0x20, netFn := op.function.toNat, rsLUN := lun.toNat, rqAddr := 0x81, rqSeq := 1
                            rqLUN := 0, cmd := op.command.toNat, ext := expectedExt op }
             body := body } := by
  have hlen := message_length (messageLayer op lun) body
  unfold bodyFits at hb
  have hw := parseWrapper_encode 0 (Message.encode (messageLayer op lun) body).2 (by decide) (by decide) (by omega)
  simp only [Spec.Req.parsePacket, packetSessionless, parseRMCP_encode, hw, Option.bind_eq_bind, Option.bind_some,
    message_parses op lun body h.1 h.2.1 hl h.2.2]
  rfl

theorem payload_packet_parses (pt : UInt8) (body : Bytes) (hpt : pt.toNat < 64) (h0 : pt ≠ 0) (h2 : pt ≠ 2)
    (hb : body.length < 65536) :
    Spec.Req.parsePacket (packetPayload pt body) =
      some { payloadType := pt.toNat, sessionID := 0, sequence := 0, ipmi := none, body := body } := by
  have hw := parseWrapper_encode pt body hpt h2 hb
  have h0' : ¬ pt.toNat = 0 := fun h => h0 (UInt8.toNat_inj.mp (by simpa using h))
  simp [Spec.Req.parsePacket, packetPayload, parseRMCP_encode, hw, h0']

/-- the handshake model's datagram builder is `packetPayload` -/
theorem setupDatagram_eq (pt : UInt8) (body : Bytes) : Proto.setupDatagram pt body = packetPayload pt body := rfl

/-- the BMC-side reading of a session-less command datagram -/
theorem readCommand_packet {α : Type} (op : Operation) (lun : UInt8) (body : Bytes) (h : op.wf) (hl : lun.toNat < 4)
    (hb : bodyFits body) (code : Spec.Req.CmdCode) (parse : Bytes → Option α)
    (hcode : op.function.toNat = code.netFn ∧ op.command.toNat = code.cmd ∧ expectedExt op = code.ext) :
    Spec.Req.readCommand code parse (packetSessionless op lun body) = (parse body).map (fun v => (lun.toNat, v)) := by
  obtain ⟨c1, c2, c3⟩ := hcode
  simp [Spec.Req.readCommand, packet_parses op lun body h hl hb, Spec.Req.payloadIPMI, c1, c2, c3]

theorem readPayload_packet {α : Type} (pt : UInt8) (body : Bytes) (hpt : pt.toNat < 64) (h0 : pt ≠ 0) (h2 : pt ≠ 2)
    (hb : body.length < 65536) (parse : Bytes → Option α) :
    Spec.Req.readPayload pt.toNat parse (packetPayload pt body) = parse body := by
  simp [Spec.Req.readPayload, payload_packet_parses pt body hpt h0 h2 hb]

end Bmc.Wire.Req
