import Bmc.Gen.Dec
import Bmc.Lemmas.GenDecLoop
import Bmc.Wire.Sdr
/-! Lemmas identifying the REGENERATED `ipmi.FullSensorRecord.DecodeFromBytes` (with `complement.Twos`, `StringEncoding.Decoder`
    and the three ID-string decoders of `id_string.go`, all in `Bmc/Gen/Dec.lean`) with the hand model `Wire/Sdr.lean`,
    `Prim/Strings.lean`, `Prim/Packed6.lean`. Go strings are their bytes: every rune the decoders produce is below 0x80
    (shown here: `bcd_table_lt`, `code6_lt`), so `string(runes)` (UTF-8) is one byte per rune. -/
namespace Bmc.Lemmas.GenDec
open Bmc Bmc.Gen.Dec

/-- the rune of an ASCII byte -/
def rune (ch : UInt8) : Int32 := Int32.ofNat ch.toNat

theorem utf8_rune : ∀ ch : UInt8, ch < 0x80 → GoDec.utf8Rune (rune ch).toInt = [ch] :=
  forall_uint8 (by decide +kernel)

theorem stringOfRunes_ascii (l : Bytes) (h : ∀ ch ∈ l, ch < 0x80) : GoDec.stringOfRunes (l.map rune) = l := by
  induction l with
  | nil => rfl
  | cons a l ih =>
    simp only [GoDec.stringOfRunes, List.map_cons, List.flatMap_cons]
    rw [utf8_rune a (h a (by simp))]
    have := ih (fun ch hch => h ch (by simp [hch]))
    simp only [GoDec.stringOfRunes] at this
    rw [this]; rfl

theorem twos10 (hi lo : UInt8) : complement_Twos [hi, lo] 10 = Wire.twosGo hi lo 10 := rfl

theorem twos4 (hi lo : UInt8) : complement_Twos [hi, lo] 4 = Wire.twosGo hi lo 4 := rfl

def natRes (p : Bytes × Nat) : Bytes × Int := (p.1, ((p.2 : Nat) : Int))

theorem nat_cast' (n : Nat) : GoDec.nat ((n : Nat) : Int) = .ok n := by
  rw [GoDec.nat_ok _ (by omega)]; simp

theorem latin1_eq (b : GoSlice) (c : Nat) :
    ipmi_decode8BitAsciiLatin1 b ((c : Nat) : Int) = (Prim.latin1Go b c).map natRes := by
  unfold ipmi_decode8BitAsciiLatin1 Prim.latin1Go
  by_cases h0 : c = 0
  · subst h0; simp [R.map, natRes]
  · have h0' : ¬ (((c : Nat) : Int) == ((0 : Nat) : Int)) = true := by simp; omega
    simp only [h0', h0, if_false, Bool.false_eq_true]
    by_cases h2 : b.len < 2
    · simp [h2, R.map]
    · simp only [h2, if_false]
      by_cases hc : b.len < c
      · have : ((b.len : Nat) : Int) < ((c : Nat) : Int) := by omega
        simp [hc, this, R.map]
      · have : ¬ ((b.len : Nat) : Int) < ((c : Nat) : Int) := by omega
        simp only [hc, this, if_false, nat_cast', R.bind_ok]
        cases b.slice 0 c <;> simp [R.map, natRes]

theorem loopBcd_eq (d : GoSlice) (n : Nat) : ∀ k, Prim.loopBcd d k n = fillM (Prim.bcdChar d) k n := by
  induction n with
  | zero => intro k; rfl
  | succ n ih => intro k; simp only [Prim.loopBcd, fillM, ih]

theorem bcd_table_hi : ∀ x : UInt8, GoDec.listIdx ipmi_bcdPlusRunes (((GoDec.shr8 x (4 : UInt8).toNat) &&& (15 : UInt8))).toNat
    = .ok (rune (Spec.bcdPlusTable.getD ((x >>> 4) &&& 0xf).toNat 0)) := forall_uint8 (by decide +kernel)

theorem bcd_table_lo : ∀ x : UInt8, GoDec.listIdx ipmi_bcdPlusRunes (((GoDec.shr8 x (0 : UInt8).toNat) &&& (15 : UInt8))).toNat
    = .ok (rune (Spec.bcdPlusTable.getD (x &&& 0xf).toNat 0)) := forall_uint8 (by decide +kernel)

theorem bcd_table_lt : ∀ k, Spec.bcdPlusTable.getD k 0 < 0x80 := by
  intro k
  by_cases h : k < 16
  · revert k; decide
  · have : Spec.bcdPlusTable.length ≤ k := by
      have : Spec.bcdPlusTable.length = 16 := by decide
      omega
    simp [List.getD_eq_getElem?_getD, List.getElem?_eq_none this]

/-- the value stored by one iteration of the BCD plus loop -/
def bcdStep (b : GoSlice) (i : Nat) : R Int32 :=
  (if (i % 2 == 0) = true then pure (4 : UInt8) else pure (0 : UInt8)) >>= fun shift =>
  b.idx (i / 2) >>= fun t4 =>
  GoDec.listIdx ipmi_bcdPlusRunes (((GoDec.shr8 t4 shift.toNat) &&& (15 : UInt8))).toNat

theorem bcdStep_eq (b : GoSlice) (i : Nat) : bcdStep b i = (Prim.bcdChar b i).map rune := by
  unfold bcdStep Prim.bcdChar
  by_cases h : i % 2 = 0
  · simp only [h, BEq.rfl, if_true, R.pure_eq, R.bind_ok]
    cases b.idx (i / 2) <;> simp only [R.map, R.bind_ok, R.bind_err, R.bind_panic, R.bind_overread, bcd_table_hi]
  · have h' : (i % 2 == 0) = false := by simp [h]
    simp only [h, h', if_false, R.pure_eq, R.bind_ok, Bool.false_eq_true]
    cases b.idx (i / 2) <;> simp only [R.map, R.bind_ok, R.bind_err, R.bind_panic, R.bind_overread, bcd_table_lo]

theorem bcdChar_lt (b : GoSlice) (i : Nat) (v : UInt8) (h : Prim.bcdChar b i = .ok v) : v < 0x80 := by
  unfold Prim.bcdChar at h
  cases hb : b.idx (i / 2) with
  | ok x =>
    rw [hb] at h
    simp only [R.bind_ok, R.pure_eq] at h
    cases h
    exact bcd_table_lt _
  | err => rw [hb] at h; simp at h
  | panic => rw [hb] at h; simp at h
  | overread => rw [hb] at h; simp at h

theorem bcdPlus_eq (b : GoSlice) (c : Nat) :
    ipmi_decodeBCDPlus b ((c : Nat) : Int) = (Prim.bcdPlusGo b c).map natRes := by
  unfold ipmi_decodeBCDPlus Prim.bcdPlusGo
  have hb : GoDec.floatCeilDiv ((c : Nat) : Int) 2 = (((c + 1) / 2 : Nat) : Int) := by
    unfold GoDec.floatCeilDiv; omega
  simp only [hb]
  by_cases hl : b.len < (c + 1) / 2
  · have : ((b.len : Nat) : Int) < (((c + 1) / 2 : Nat) : Int) := by omega
    simp only [hl, this, if_true, R.map]
  · have : ¬ ((b.len : Nat) : Int) < (((c + 1) / 2 : Nat) : Int) := by omega
    simp only [hl, this, if_false, nat_cast', R.bind_ok, Int.toNat_natCast]
    have hstep : (fun (s2 : List Int32) (i : Nat) => (do
        let runes : List Int32 := s2
        let shift : UInt8 := (0 : UInt8)
        let j3 ← (if ((i % 2) == 0) then (do
            let shift : UInt8 := (4 : UInt8)
            pure shift) else (do
            pure shift))
        let shift : UInt8 := j3
        let t4 ← b.idx (i / 2)
        let t5 ← GoDec.listIdx ipmi_bcdPlusRunes ((((GoDec.shr8 t4 (shift).toNat) &&& (15 : UInt8))).toNat)
        let runes ← GoDec.setAt runes i t5
        pure runes : R (List Int32)))
        = (fun rs i => bcdStep b i >>= fun v => GoDec.setAt rs i v) := by
      funext rs i
      simp only [bcdStep, bind_assoc]
    rw [hstep, foldlM_fill, loopBcd_eq]
    have hg : fillM (bcdStep b) 0 c = (fillM (Prim.bcdChar b) 0 c).map (List.map rune) := by
      rw [← fillM_map]; exact fillM_congr _ _ _ _ (fun i _ _ => bcdStep_eq b i)
    rw [hg]
    cases hf : fillM (Prim.bcdChar b) 0 c with
    | ok l =>
      simp only [R.map, R.bind_ok, R.pure_eq, natRes]
      rw [stringOfRunes_ascii l (fillM_all _ _ (bcdChar_lt b) c 0 l hf)]
    | err => simp [R.map]
    | panic => simp [R.map]
    | overread => simp [R.map]

theorem c6a : ∀ x : UInt8, (x &&& 0x3f) + 0x20 < 0x80 := forall_uint8 (by decide +kernel)

theorem c6d : ∀ x : UInt8, (x >>> 2) + 0x20 < 0x80 := forall_uint8 (by decide +kernel)

theorem shr6_lt : ∀ x : UInt8, (x >>> 6).toNat < 4 := forall_uint8 (by decide +kernel)

theorem shr4_lt : ∀ x : UInt8, (x >>> 4).toNat < 16 := forall_uint8 (by decide +kernel)

theorem and15_lt : ∀ x : UInt8, (x &&& 0xf).toNat < 16 := forall_uint8 (by decide +kernel)

theorem and3_lt : ∀ x : UInt8, (x &&& 0x3).toNat < 4 := forall_uint8 (by decide +kernel)

theorem c6b' : ∀ a : Nat, a < 4 → ∀ b : Nat, b < 16 → (UInt8.ofNat a ||| (UInt8.ofNat b <<< 2)) + 0x20 < 0x80 := by decide +kernel

theorem c6c' : ∀ a : Nat, a < 16 → ∀ b : Nat, b < 4 → (UInt8.ofNat a ||| (UInt8.ofNat b <<< 4)) + 0x20 < 0x80 := by decide +kernel

theorem c6b (x y : UInt8) : ((x >>> 6) ||| ((y &&& 0xf) <<< 2)) + 0x20 < 0x80 := by
  have := c6b' _ (shr6_lt x) _ (and15_lt y)
  rwa [UInt8.ofNat_toNat, UInt8.ofNat_toNat] at this

theorem c6c (x y : UInt8) : ((x >>> 4) ||| ((y &&& 0x3) <<< 4)) + 0x20 < 0x80 := by
  have := c6c' _ (shr4_lt x) _ (and3_lt y)
  rwa [UInt8.ofNat_toNat, UInt8.ofNat_toNat] at this

/-- filling a slice while threading a second component that each round overwrites -/
theorem foldlM_setAt2 {α β : Type} (g : Nat → R (α × β)) (n : Nat) : ∀ (k : Nat) (pre post : List α) (a : β),
    pre.length = k → post.length = n →
    (List.foldlM (fun (st : List α × β) i => g i >>= fun v => GoDec.setAt st.1 i v.1 >>= fun rs => R.ok (rs, v.2))
        (pre ++ post, a) (List.range' k n)).map Prod.fst
      = (fillM (fun i => (g i).map Prod.fst) k n).map (fun l => pre ++ l) := by
  induction n with
  | zero =>
    intro k pre post a _ hpost
    have : post = [] := List.eq_nil_of_length_eq_zero hpost
    simp [fillM, R.map, this]
  | succ n ih =>
    intro k pre post a hpre hpost
    rw [List.range'_succ, List.foldlM_cons]
    simp only [fillM]
    cases hg : g k with
    | ok v =>
      simp only [R.bind_ok]
      have hlt : k < (pre ++ post).length := by simp; omega
      have hs : GoDec.setAt (pre ++ post) k v.1 = .ok ((pre ++ [v.1]) ++ post.drop 1) := by
        unfold GoDec.setAt
        rw [if_pos hlt, ← hpre, set_append_drop' pre post v.1 (by omega)]
      rw [hs]
      simp only [R.bind_ok]
      rw [ih (k + 1) (pre ++ [v.1]) (post.drop 1) v.2 (by simp; omega) (by simp; omega)]
      cases fillM (fun i => (g i).map Prod.fst) (k + 1) n <;> simp [R.map]
    | err => simp [R.map]
    | panic => simp [R.map]
    | overread => simp [R.map]

theorem bind_fst {α β γ : Type} (x : R (α × β)) (k : α → R γ) : (x >>= fun j => k j.1) = (x.map Prod.fst >>= k) := by
  cases x <;> rfl

theorem loop6_eq (d : GoSlice) (n : Nat) : ∀ k, Prim.loop6 d k n = fillM (Prim.char6 d) k n := by
  induction n with
  | zero => intro k; rfl
  | succ n ih => intro k; simp only [Prim.loop6, fillM, ih]

/-- the 6-bit code extracted by one iteration (before `+ 0x20`) -/
def code6 (b : GoSlice) (i : Nat) : R UInt8 :=
  let o := Prim.off6 i
  if i % 4 = 0 then b.idx o >>= fun x => pure (x &&& 0x3f)
  else if i % 4 = 1 then b.idx o >>= fun x => b.idx (o + 1) >>= fun y => pure ((x >>> 6) ||| ((y &&& 0xf) <<< 2))
  else if i % 4 = 2 then b.idx o >>= fun x => b.idx (o + 1) >>= fun y => pure ((x >>> 4) ||| ((y &&& 0x3) <<< 4))
  else b.idx o >>= fun x => pure (x >>> 2)

theorem char6_code (b : GoSlice) (i : Nat) : Prim.char6 b i = (code6 b i).map (· + 0x20) := by
  unfold Prim.char6 code6
  simp only []
  split
  · cases b.idx (Prim.off6 i) <;> rfl
  · split
    · cases b.idx (Prim.off6 i) <;> try rfl
      cases b.idx (Prim.off6 i + 1) <;> rfl
    · split
      · cases b.idx (Prim.off6 i) <;> try rfl
        cases b.idx (Prim.off6 i + 1) <;> rfl
      · cases b.idx (Prim.off6 i) <;> rfl

theorem off6_nat (i : Nat) :
    GoDec.nat ((((i : Nat) : Int) - ((1 : Nat) : Int)) - (GoDec.floatFloorDiv (((i : Nat) : Int) - ((1 : Nat) : Int)) 4)) = .ok (Prim.off6 i) := by
  unfold GoDec.floatFloorDiv Prim.off6
  rw [GoDec.nat_ok _ (by omega)]
  congr 1
  split <;> omega

theorem off6_nat1 (i : Nat) :
    GoDec.nat ((((i : Nat) : Int) - ((1 : Nat) : Int)) - (GoDec.floatFloorDiv (((i : Nat) : Int) - ((1 : Nat) : Int)) 4) + ((1 : Nat) : Int)) = .ok (Prim.off6 i + 1) := by
  unfold GoDec.floatFloorDiv Prim.off6
  rw [GoDec.nat_ok _ (by omega)]
  congr 1
  split <;> omega

theorem code6_lt (b : GoSlice) (i : Nat) (v : UInt8) (h : code6 b i = .ok v) : v + 0x20 < 0x80 := by
  unfold code6 at h
  simp only [] at h
  split at h
  · cases hx : b.idx (Prim.off6 i) with
    | ok x => rw [hx] at h; simp only [R.bind_ok, R.pure_eq, R.ok.injEq] at h; subst h; exact c6a x
    | _ => rw [hx] at h; simp at h
  · split at h
    · cases hx : b.idx (Prim.off6 i) with
      | ok x =>
        rw [hx] at h; simp only [R.bind_ok] at h
        cases hy : b.idx (Prim.off6 i + 1) with
        | ok y => rw [hy] at h; simp only [R.bind_ok, R.pure_eq, R.ok.injEq] at h; subst h; exact c6b x y
        | _ => rw [hy] at h; simp at h
      | _ => rw [hx] at h; simp at h
    · split at h
      · cases hx : b.idx (Prim.off6 i) with
        | ok x =>
          rw [hx] at h; simp only [R.bind_ok] at h
          cases hy : b.idx (Prim.off6 i + 1) with
          | ok y => rw [hy] at h; simp only [R.bind_ok, R.pure_eq, R.ok.injEq] at h; subst h; exact c6c x y
          | _ => rw [hy] at h; simp at h
        | _ => rw [hx] at h; simp at h
      · cases hx : b.idx (Prim.off6 i) with
        | ok x => rw [hx] at h; simp only [R.bind_ok, R.pure_eq, R.ok.injEq] at h; subst h; exact c6d x
        | _ => rw [hx] at h; simp at h

theorem char6_lt (b : GoSlice) (i : Nat) (v : UInt8) (h : Prim.char6 b i = .ok v) : v < 0x80 := by
  rw [char6_code] at h
  cases hc : code6 b i with
  | ok w => rw [hc] at h; simp only [R.map, R.ok.injEq] at h; subst h; exact code6_lt b i w hc
  | _ => rw [hc] at h; simp [R.map] at h

/-- the switch of one iteration of the packed 6-bit loop, as generated -/
theorem sw6_eq (b : GoSlice) (acc : UInt8) (i : Nat) :
    (let offset : Int := ((((i : Nat) : Int) - ((1 : Nat) : Int)) - (GoDec.floatFloorDiv (((i : Nat) : Int) - ((1 : Nat) : Int)) 4))
     let t3 : Nat := (i % 4)
     (if (t3 == 0) then (do
          let t4 ← GoDec.nat offset
          let t5 ← b.idx t4
          let acc : UInt8 := (t5 &&& (63 : UInt8))
          pure acc) else (if (t3 == 1) then (do
          let t6 ← GoDec.nat offset
          let t7 ← b.idx t6
          let acc : UInt8 := (t7 >>> (6 : UInt8))
          let t8 ← GoDec.nat (offset + ((1 : Nat) : Int))
          let t9 ← b.idx t8
          let acc : UInt8 := (acc ||| ((t9 &&& (15 : UInt8)) <<< (2 : UInt8)))
          pure acc) else (if (t3 == 2) then (do
          let t10 ← GoDec.nat offset
          let t11 ← b.idx t10
          let acc : UInt8 := (t11 >>> (4 : UInt8))
          let t12 ← GoDec.nat (offset + ((1 : Nat) : Int))
          let t13 ← b.idx t12
          let acc : UInt8 := (acc ||| ((t13 &&& (3 : UInt8)) <<< (4 : UInt8)))
          pure acc) else (if (t3 == 3) then (do
          let t14 ← GoDec.nat offset
          let t15 ← b.idx t14
          let acc : UInt8 := (t15 >>> (2 : UInt8))
          pure acc) else (do
          pure acc)))) : R UInt8)) = code6 b i := by
  simp only [off6_nat, off6_nat1, R.bind_ok, code6]
  have h4 : i % 4 = 0 ∨ i % 4 = 1 ∨ i % 4 = 2 ∨ i % 4 = 3 := by omega
  rcases h4 with h | h | h | h <;> simp [h]

theorem packed6_eq (b : GoSlice) (c : Nat) :
    ipmi_decodePacked6BitAscii b ((c : Nat) : Int) = (Prim.decode6Go b c).map natRes := by
  unfold ipmi_decodePacked6BitAscii Prim.decode6Go
  have hb : ((c : Nat) : Int) - Int.tdiv ((c : Nat) : Int) ((4 : Nat) : Int) = ((c - c / 4 : Nat) : Int) := by
    rw [Int.tdiv_eq_ediv_of_nonneg (by omega)]; omega
  simp only [hb]
  by_cases hl : b.len < c - c / 4
  · have : ((b.len : Nat) : Int) < ((c - c / 4 : Nat) : Int) := by omega
    simp only [hl, this, if_true, R.map]
  · have : ¬ ((b.len : Nat) : Int) < ((c - c / 4 : Nat) : Int) := by omega
    simp only [hl, this, if_false, nat_cast', R.bind_ok, Int.toNat_natCast]
    have hstep : ∀ (st : List Int32 × UInt8) (i : Nat), (do
        let runes : List Int32 := st.1
        let acc : UInt8 := st.2
        let offset : Int := ((((i : Nat) : Int) - ((1 : Nat) : Int)) - (GoDec.floatFloorDiv (((i : Nat) : Int) - ((1 : Nat) : Int)) 4))
        let t3 : Nat := (i % 4)
        let j16 ← (if (t3 == 0) then (do
            let t4 ← GoDec.nat offset
            let t5 ← b.idx t4
            let acc : UInt8 := (t5 &&& (63 : UInt8))
            pure acc) else (if (t3 == 1) then (do
            let t6 ← GoDec.nat offset
            let t7 ← b.idx t6
            let acc : UInt8 := (t7 >>> (6 : UInt8))
            let t8 ← GoDec.nat (offset + ((1 : Nat) : Int))
            let t9 ← b.idx t8
            let acc : UInt8 := (acc ||| ((t9 &&& (15 : UInt8)) <<< (2 : UInt8)))
            pure acc) else (if (t3 == 2) then (do
            let t10 ← GoDec.nat offset
            let t11 ← b.idx t10
            let acc : UInt8 := (t11 >>> (4 : UInt8))
            let t12 ← GoDec.nat (offset + ((1 : Nat) : Int))
            let t13 ← b.idx t12
            let acc : UInt8 := (acc ||| ((t13 &&& (3 : UInt8)) <<< (4 : UInt8)))
            pure acc) else (if (t3 == 3) then (do
            let t14 ← GoDec.nat offset
            let t15 ← b.idx t14
            let acc : UInt8 := (t15 >>> (2 : UInt8))
            pure acc) else (do
            pure acc)))))
        let acc : UInt8 := j16
        let runes ← GoDec.setAt runes i (Int32.ofNat ((acc + (32 : UInt8))).toNat)
        pure (runes, acc) : R (List Int32 × UInt8))
        = ((code6 b i).map (fun a => (rune (a + 32), a)) >>= fun v => GoDec.setAt st.1 i v.1 >>= fun rs => R.ok (rs, v.2)) := by
      intro st i
      have := sw6_eq b st.2 i
      simp only [] at this
      simp only [this]
      cases code6 b i <;> simp [R.map, rune]
    simp only [hstep]
    have key := foldlM_setAt2 (fun i => (code6 b i).map (fun a => (rune (a + 32), a))) c 0 [] (List.replicate c (0 : Int32)) (0 : UInt8) rfl (by simp)
    simp only [List.nil_append] at key
    rw [← List.range_eq_range'] at key
    have hg : fillM (fun i => ((code6 b i).map (fun a => (rune (a + 32), a))).map Prod.fst) 0 c
        = (fillM (Prim.char6 b) 0 c).map (List.map rune) := by
      rw [← fillM_map]
      apply fillM_congr
      intro i _ _
      rw [char6_code]
      cases code6 b i <;> simp [R.map]
    rw [hg] at key
    rw [loop6_eq]
    generalize List.foldlM (m := R) _ (List.replicate c (0 : Int32), (0 : UInt8)) (List.range c) = F at key ⊢
    cases hf : fillM (Prim.char6 b) 0 c with
    | ok l =>
      rw [hf] at key
      cases F with
      | ok p =>
        simp only [R.map, R.ok.injEq] at key
        simp only [R.map, R.bind_ok, R.pure_eq, natRes, key]
        rw [stringOfRunes_ascii l (fillM_all _ _ (char6_lt b) c 0 l hf)]
      | _ => simp [R.map] at key
    | err => rw [hf] at key; cases F <;> simp [R.map] at key ⊢
    | panic => rw [hf] at key; cases F <;> simp [R.map] at key ⊢
    | overread => rw [hf] at key; cases F <;> simp [R.map] at key ⊢

/-- `encoding.Decoder()` followed by `decoder.Decode(b, c)` is the model's choice of ID-string decoder -/
theorem idDecoder_eq {γ : Type} (enc : UInt8) (t : GoSlice) (c : Nat) (k : Bytes × Int → R γ) :
    (StringEncoding_Decoder enc >>= fun dec => StringDecoder.Decode dec t ((c : Nat) : Int) >>= k)
      = ((Wire.idDecoder enc t c).map natRes >>= k) := by
  unfold StringEncoding_Decoder ipmi_stringEncodingDecoders Wire.idDecoder
  by_cases h1 : enc = 1
  · subst h1; simp only [StringDecoder.Decode, bcdPlus_eq]; rfl
  · by_cases h2 : enc = 2
    · subst h2; simp only [StringDecoder.Decode, packed6_eq]; rfl
    · by_cases h0 : enc = 0
      · subst h0; simp only [StringDecoder.Decode, latin1_eq]; rfl
      · by_cases h3 : enc = 3
        · subst h3; simp only [StringDecoder.Decode, latin1_eq]; rfl
        · have e0 : (enc == 0) = false := by simp [h0]
          have e1 : (enc == 1) = false := by simp [h1]
          have e2 : (enc == 2) = false := by simp [h2]
          have e3 : (enc == 3) = false := by simp [h3]
          simp [e0, e1, e2, e3, h0, h1, h2, h3, R.map]

end Bmc.Lemmas.GenDec

namespace Bmc.Gen.Dec
open Bmc

def FullSensorRecord.toModel (g : FullSensorRecord) : Wire.FullSensorRecord :=
  { ownerAddress := g.sensorRecordKey.ownerAddress, channel := g.sensorRecordKey.channel
    ownerLUN := g.sensorRecordKey.ownerLUN, number := g.sensorRecordKey.number
    m := g.conversionFactors.m.toInt, b := g.conversionFactors.b.toInt
    bExp := g.conversionFactors.bExp.toInt, rExp := g.conversionFactors.rExp.toInt
    isContainerEntity := g.isContainerEntity, entity := g.entity, inst := g.instance_, ignore := g.ignore
    sensorType := g.sensorType, outputType := g.outputType, analogDataFormat := g.analogDataFormat, rateUnit := g.rateUnit
    isPercentage := g.isPercentage, baseUnit := g.baseUnit, modifierUnit := g.modifierUnit, linearisation := g.linearisation
    tolerance := g.tolerance, accuracy := g.accuracy.toInt, accuracyExp := g.accuracyExp, direction := g.direction
    nominalReadingSpecified := g.nominalReadingSpecified, normalMinSpecified := g.normalMinSpecified
    normalMaxSpecified := g.normalMaxSpecified, nominalReading := g.nominalReading, normalMin := g.normalMin
    normalMax := g.normalMax, sensorMin := g.sensorMin, sensorMax := g.sensorMax
    identity := g.identity, contents := g.contents, payload := g.payload }

end Bmc.Gen.Dec
