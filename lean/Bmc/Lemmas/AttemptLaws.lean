import Bmc.Proto.Session
namespace Bmc.Proto
open Bmc Bmc.Wire Bmc.Crypto

theorem le32_putLE32 (n : Nat) (h : n < 4294967296) (r : Bytes) : le32 (putLE32 n ++ r) = n := by
  simp [le32, putLE32]; omega

/-- the clear-text head of a non-OEM session wrapper: bytes 2…9 are session ID and sequence number -/
theorem V2Session.encode_ids (mac : Bytes → Bytes) (s : V2Session) (inner : Bytes) (h : s.payloadType ≠ 2) :
    ((V2Session.encode mac s inner).2.drop 2).take 8 = putLE32 s.id ++ putLE32 s.sequence := by
  have hne : (s.payloadType == 2) = false := by simpa using h
  unfold V2Session.encode
  simp only [hne, Bool.false_eq_true, if_false, List.append_nil]
  split <;> simp [putLE32]

/-- law used by C09/C03: the datagram an attempt transmits carries the layer's session ID and the bumped
    counter, in clear, at wire offsets 6 and 10 -/
theorem attempt_header (C : Ops) (s : Sess) (c : Cmd) (iv : Bytes) (hpt : s.v2.payloadType ≠ 2) :
    (((attempt C s c iv).2.drop 6).take 8 = putLE32 s.v2.id ++ putLE32 ((s.inbound + 1) % 4294967296)) ∧
    (attempt C s c iv).1.inbound = (s.inbound + 1) % 4294967296 := by
  simp only [attempt]
  generalize AESLayer.encode C s.k2 iv _ = inner
  have := V2Session.encode_ids (integMac C s.integ s.k1) { s.v2 with sequence := (s.inbound + 1) % 4294967296 } inner hpt
  refine ⟨?_, trivial⟩
  simp only [RMCP.encode, List.cons_append, List.nil_append, List.drop_succ_cons]
  simpa using this
#print axioms attempt_header
