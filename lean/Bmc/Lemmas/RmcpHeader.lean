import Bmc.Lemmas.SessionSpec
/-! The four RMCP header bytes of a reply (version, reserved, sequence, class) lie OUTSIDE what the AuthCode covers. What the
    receive path makes of them: only the low four bits of the class byte are looked at (must be 7, IPMI); everything else is
    ignored. -/
namespace Bmc.Proto
open Bmc Bmc.Wire Bmc.Crypto

theorem rmcp_decode_any (prev : RMCP) (b0 b1 b2 b3 : UInt8) (rest : Bytes) :
    RMCP.decodeGo prev (GoSlice.ofBytes (b0 :: b1 :: b2 :: b3 :: rest)) =
      .ok ({ version := b0, sequence := b2, ack := b3 &&& 0x80 != 0, cls := b3 &&& 0xF }, GoSlice.ofBytes rest) := by
  unfold RMCP.decodeGo
  have h4 : ¬ (GoSlice.ofBytes (b0 :: b1 :: b2 :: b3 :: rest)).len < 4 := by simp
  simp only [h4, if_false]
  rw [GoSlice.idx_ok _ 0 (by simp), GoSlice.idx_ok _ 2 (by simp), GoSlice.idx_ok _ 3 (by simp)]
  simp only [R.bind_ok]
  rw [GoSlice.sliceFrom_ok _ 4 (by simp)]
  simp only [R.bind_ok, R.pure_eq, GoSlice.vis_ofBytes]
  simp [GoSlice.sub, GoSlice.ofBytes]

/-- the view the send loop takes of a reply depends on the RMCP header only through `class & 0xF = 7` -/
theorem onReply_header (C : Ops) (s : Sess) (b0 b1 b2 b3 : UInt8) (rest : Bytes) :
    view (onReply C s (GoSlice.ofBytes (b0 :: b1 :: b2 :: b3 :: rest))) =
      if b3 &&& 0xF = 7 then view (onReply C s (GoSlice.ofBytes (6 :: 0 :: 0xFF :: 7 :: rest)))
      else (.notMessage, none) := by
  unfold onReply
  rw [rmcp_decode_any, rmcp_decode_any]
  simp only []
  generalize GoSlice.ofBytes rest = p
  have h7 : ((7 : UInt8) &&& 0xF) = 7 := by decide
  cases hlen : (p.len == 0)
  · by_cases hc : b3 &&& 0xF = 7
    · rw [if_pos hc]
      simp only [hc, h7, bne_self_eq_false, Bool.false_eq_true, if_false]
      cases hsel : (p.vis.getD 0 0 != 6)
      · simp only [Bool.false_eq_true, if_false]
        cases hv : V2Session.decodeGo (integMac C s.integ s.k1) s.v2 p with
        | err => simp [view]
        | panic => simp [view]
        | overread => simp [view]
        | ok v =>
          simp only []
          have key : ∀ r : RMCP, view (onWrapper C { s with rmcp := r } v) = view (onWrapper C s v) :=
            fun r => onWrapper_view C s { s with rmcp := r } rfl v
          rw [key]; exact (key _).symm
      · simp [view]
    · rw [if_neg hc]
      have : ((b3 &&& 0xF) != 7) = true := by simp [hc]
      simp [this, view]
  · by_cases hc : b3 &&& 0xF = 7
    · rw [if_pos hc]; simp [view]
    · rw [if_neg hc]; simp [view]

end Bmc.Proto
