import Bmc.Lemmas.SdrWalkBmc
/-! Helper lemmas for C14, part 2: record selection, the record bytes a Get SDR returns, one Get SDR against the
    conforming BMC, and the two inductions over the walk (completeness with enough fuel; soundness of any walk that
    ends normally while the timestamps stand still). -/
namespace Bmc.Lemmas.SdrWalk
open Bmc Bmc.Wire Bmc.Spec Bmc.Proto.SdrWalk

-- record selection ------------------------------------------------------------------------------------------------------
theorem findRec_append (pre : List SdrRec) (r : SdrRec) (rest : List SdrRec) (id : Nat)
    (h : ∀ p ∈ pre, p.id ≠ id) (hr : r.id = id) : findRec (pre ++ r :: rest) id = some (r, nextID rest) := by
  induction pre with
  | nil => simp [findRec, hr]
  | cons p pre ih =>
    have hp : p.id ≠ id := h p (by simp)
    simp only [List.cons_append, findRec, hp, if_false]
    exact ih (fun q hq => h q (by simp [hq]))

/-- in a well-formed store the ID of a record, and 0000h for the first one, select that record and report the ID of
    the one after it -/
theorem locate_at (pre : List SdrRec) (r : SdrRec) (rest : List SdrRec) (id : Nat)
    (hwf : wfStore (pre ++ r :: rest)) (hid : id = r.id ∨ (id = 0 ∧ pre = [])) :
    locate (pre ++ r :: rest) id = some (r, nextID rest) := by
  obtain ⟨hnd, hlt, hz⟩ := hwf
  have hrlt : r.id < 0xFFFF := (hlt r (by simp)).1
  -- a zero ID can only be requested at the head
  have key : id = 0 → pre = [] := by
    intro h0
    rcases hid with h | ⟨_, h⟩
    · cases pre with
      | nil => rfl
      | cons p pre =>
        exfalso
        exact hz r (by simp) (by omega)
    · exact h
  unfold locate
  by_cases h0 : id = 0
  · have := key h0
    subst this
    simp [h0]
  · have hid' : id = r.id := by
      rcases hid with h | ⟨h, _⟩
      · exact h
      · exact absurd h h0
    rw [if_neg h0, if_neg (by omega)]
    apply findRec_append _ _ _ _ _ hid'.symm
    intro p hp heq
    rw [List.map_append, List.map_cons] at hnd
    have := (List.nodup_append.mp hnd).2.2 p.id (List.mem_map.mpr ⟨p, hp, rfl⟩) r.id (by simp)
    omega

theorem nextID_lt (pre : List SdrRec) (r : SdrRec) (rest : List SdrRec) (hwf : wfStore (pre ++ r :: rest)) :
    nextID rest < 65536 := by
  cases rest with
  | nil => simp [nextID]
  | cons r2 rest => have := (hwf.2.1 r2 (by simp)).1; simp only [nextID]; omega

-- the record bytes ------------------------------------------------------------------------------------------------------
theorem bytes_eq (r : SdrRec) :
    r.bytes = le16 r.id ++ [UInt8.ofNat (16 * 5 + 1), r.typ, UInt8.ofNat r.body.length] ++ r.body := rfl

theorem bytes_length (r : SdrRec) : r.bytes.length = 5 + r.body.length := by
  simp [bytes_eq, Spec.le16]; omega

/-- the five header bytes decode to the record's own ID, its type and the number of bytes that follow -/
theorem header_decode (r : SdrRec) (h1 : r.id < 65536) (h2 : r.body.length < 256) (prev : Wire.SDRHeader) :
    SDRHeader.decodeGo prev (GoSlice.ofBytes ((r.bytes.drop 0).take 5)) =
      .ok { id := r.id, version := 15, typ := r.typ, length := UInt8.ofNat r.body.length
            contents := r.bytes.take 5, payload := [] } := by
  have e1 := Lemmas.Sdr.version 1 (by decide) 5 (by decide)
  unfold SDRHeader.decodeGo
  simp [bytes_eq, Spec.le16, GoSlice.slice, GoSlice.sliceFrom, GoSlice.idx, GoSlice.ofBytes, GoSlice.vis, Wire.le16,
    e1, -UInt8.ofNat_add, -UInt8.ofNat_mul]
  exact ⟨by omega, by decide⟩

theorem body_window (r : SdrRec) (h2 : r.body.length < 256) :
    (r.bytes.drop 5).take (if (UInt8.ofNat r.body.length).toNat = 0xFF then r.bytes.length else (UInt8.ofNat r.body.length).toNat)
      = r.body := by
  have hd : r.bytes.drop 5 = r.body := by simp [bytes_eq, Spec.le16]
  have hn : (UInt8.ofNat r.body.length).toNat = r.body.length := by simp; omega
  rw [hd, hn, bytes_length]
  split <;> exact List.take_of_length_le (by omega)

-- one Get SDR -----------------------------------------------------------------------------------------------------------
theorem call_fst {α : Type} (dec : Bytes → R α) (w : World) (q : Req) :
    (call bmc dec w q).1 = (w.answer (toSpec q)).1 := by
  rw [call_bmc dec w q _ _ rfl]

/-- Get SDR for the record `r` at a known place of the store the request finds: C5h (an error for the caller) when
    the offset is non-zero and the reservation does not stand; otherwise the next record's ID and the window asked for -/
theorem call_getSDR_at (w : World) (resv id off len : Nat) (pre : List SdrRec) (r : SdrRec) (rest : List SdrRec)
    (hwf : wfStore (pre ++ r :: rest))
    (hrecs : (w.answer (.getSDR resv id off len)).1.repo.store.recs = pre ++ r :: rest)
    (hid : id = r.id ∨ (id = 0 ∧ pre = [])) (hoff : off ≤ 5 + r.body.length) :
    call bmc GetSDRRsp.decode w (.getSDR resv id off len) =
      ((w.answer (.getSDR resv id off len)).1,
        if off ≠ 0 ∧ ¬ ((w.answer (.getSDR resv id off len)).1.repo.resvOk = true ∧
                        resv = (w.answer (.getSDR resv id off len)).1.repo.resv)
        then none
        else some { next := nextID rest, contents := le16 (nextID rest)
                    payload := (r.bytes.drop off).take (if len = 0xFF then r.bytes.length else len) }) := by
  have hl := bytes_length r
  have hans := answer_getSDR w resv id off len
  unfold Repo.getSDR at hans
  rw [hrecs, locate_at pre r rest id hwf hid] at hans
  by_cases hc : off ≠ 0 ∧ ¬ ((w.answer (.getSDR resv id off len)).1.repo.resvOk = true ∧
                        resv = (w.answer (.getSDR resv id off len)).1.repo.resv)
  · rw [if_pos hc] at hans
    rw [call_bmc _ w (.getSDR resv id off len) _ _ hans, if_pos hc]
    simp [GetSDRRsp.decode, GetSDRRsp.decodeGo, toSpec]
  · rw [if_neg hc] at hans
    simp only at hans
    rw [if_neg (by omega)] at hans
    rw [call_bmc _ w (.getSDR resv id off len) _ _ hans, if_neg hc]
    have := Proofs.C07.getSDR_decode_spec
      ⟨nextID rest, (r.bytes.drop off).take (if len = 0xFF then r.bytes.length else len)⟩ (nextID_lt pre r rest hwf)
    simp only [GetSDR.encode] at this
    simp only [this]
    simp [toSpec]

-- the expected result --------------------------------------------------------------------------------------------------------
theorem fullView_append (a b : List SdrRec) : fullView (a ++ b) = fullView a ++ fullView b := by
  simp [fullView, List.filterMap_append]

theorem fullView_keys (recs : List SdrRec) : ∀ e ∈ fullView recs, ∃ r ∈ recs, r.id = e.1 := by
  intro e he
  simp only [fullView, List.mem_filterMap] at he
  obtain ⟨r, hr, h⟩ := he
  refine ⟨r, hr, ?_⟩
  split at h
  · split at h
    · simp at h; rw [← h]
    · simp at h
  · simp at h

theorem insert_fresh (m : SDRRepository) (k : Nat) (v : FullSensorRecord) (h : ∀ e ∈ m, e.1 ≠ k) :
    insert m k v = m ++ [(k, v)] := by
  unfold Proto.SdrWalk.insert
  rw [List.filter_eq_self.mpr]
  intro e he
  simpa using h e he

theorem fullView_snoc_full (pre : List SdrRec) (r : SdrRec) (f : FullSensorRecord) (ht : r.typ = 1)
    (hd : FullSensorRecord.decode r.body = .ok f) : fullView (pre ++ [r]) = fullView pre ++ [(r.id, f)] := by
  rw [fullView_append]
  simp [fullView, ht, hd]

theorem fullView_snoc_other (pre : List SdrRec) (r : SdrRec) (ht : ¬ r.typ = 1) : fullView (pre ++ [r]) = fullView pre := by
  rw [fullView_append]
  simp [fullView, ht]

/-- storing a record of a store with distinct IDs under its own ID adds one entry and disturbs no other -/
theorem insert_own (pre : List SdrRec) (r : SdrRec) (rest : List SdrRec) (f : FullSensorRecord)
    (hwf : wfStore (pre ++ r :: rest)) (ht : r.typ = 1) (hd : FullSensorRecord.decode r.body = .ok f) :
    insert (fullView pre) r.id f = fullView (pre ++ [r]) := by
  rw [fullView_snoc_full pre r f ht hd]
  apply insert_fresh
  intro e he heq
  obtain ⟨p, hp, hpe⟩ := fullView_keys pre e he
  have hnd := hwf.1
  rw [List.map_append, List.map_cons] at hnd
  have := (List.nodup_append.mp hnd).2.2 p.id (List.mem_map.mpr ⟨p, hp, rfl⟩) r.id (by simp)
  omega

/-- where the walk stands: the ID it is about to request designates the first of the records not yet visited -/
def PosOK (pre rest : List SdrRec) (id : Nat) : Prop :=
  match rest with
  | [] => id = 0xFFFF
  | r :: _ => id = r.id ∨ (id = 0 ∧ pre = [])

theorem posOK_next (pre : List SdrRec) (r : SdrRec) (rest : List SdrRec) : PosOK (pre ++ [r]) rest (nextID rest) := by
  cases rest with
  | nil => rfl
  | cons r2 rest => left; rfl

/-- every Full Sensor Record fits the library's limit on the bytes after the header and decodes -/
def wfFull (recs : List SdrRec) : Prop :=
  ∀ r ∈ recs, r.typ = 1 → r.body.length ≤ 64 ∧ (FullSensorRecord.decode r.body).isOk = true
instance decWfFull (recs : List SdrRec) : Decidable (wfFull recs) := by unfold wfFull; infer_instance

theorem exists_of_isOk {ε α : Type} (x : Except ε α) (h : x.isOk = true) : ∃ a, x = .ok a := by
  cases x with
  | ok a => exact ⟨a, rfl⟩
  | error e => simp [Except.isOk, Except.toBool] at h

-- completeness: a quiet, well-formed repository ------------------------------------------------------------------------------
theorem answer_quiet_getSDR (w : World) (h : w.sched = []) (a b c d : Nat) : (w.answer (.getSDR a b c d)).1 = w := by
  obtain ⟨repo, sched⟩ := w
  simp only at h
  subst h
  rfl

theorem walkLoop_complete : ∀ (rest pre : List SdrRec) (fuel : Nat) (w : World) (id : Nat),
    w.sched = [] → w.repo.store.recs = pre ++ rest → wfStore (pre ++ rest) → wfFull rest → w.repo.resvOk = true →
    PosOK pre rest id → rest.length < fuel →
    walkLoop true bmc fuel w w.repo.resv id (fullView pre) = (w, .ok (fullView (pre ++ rest))) := by
  intro rest
  induction rest with
  | nil =>
    intro pre fuel w id _ _ _ _ _ hpos hfuel
    obtain ⟨fuel, rfl⟩ : ∃ n, fuel = n + 1 := ⟨fuel - 1, by simp at hfuel; omega⟩
    simp only [PosOK] at hpos
    simp [walkLoop, hpos]
  | cons r rest ih =>
    intro pre fuel w id hq hrecs hwf hfull hres hpos hfuel
    obtain ⟨fuel, rfl⟩ : ∃ n, fuel = n + 1 := ⟨fuel - 1, by simp at hfuel; omega⟩
    simp only [List.length_cons] at hfuel
    have hr := hwf.2.1 r (by simp)
    have hid : id ≠ 0xFFFF := by
      simp only [PosOK] at hpos
      omega
    have hw : ∀ a b c d, (w.answer (.getSDR a b c d)).1 = w := answer_quiet_getSDR w hq
    have hwf' : wfStore ((pre ++ [r]) ++ rest) := by simpa using hwf
    have hrecs' : w.repo.store.recs = (pre ++ [r]) ++ rest := by simpa using hrecs
    have hfull' : wfFull rest := fun x hx => hfull x (by simp [hx])
    rw [walkLoop, if_neg hid]
    rw [call_getSDR_at w w.repo.resv id 0 5 pre r rest hwf (by rw [hw]; exact hrecs) hpos (by omega)]
    simp only [hw, ne_eq, not_true_eq_false, false_and, if_false]
    rw [show (if (5 : Nat) = 0xFF then r.bytes.length else 5) = 5 by simp, header_decode r (by omega) hr.2]
    simp only
    by_cases ht : r.typ = 1
    · obtain ⟨hlen, hok⟩ := hfull r (by simp) ht
      obtain ⟨f, hf⟩ := exists_of_isOk _ hok
      have hn : (UInt8.ofNat r.body.length).toNat = r.body.length := by simp; omega
      rw [if_pos ht, if_neg (by omega)]
      rw [call_getSDR_at w w.repo.resv id 5 _ pre r rest hwf (by rw [hw]; exact hrecs) hpos (by omega)]
      simp only [hw, hres, and_self, not_true_eq_false, and_false, if_false]
      rw [body_window r hr.2, FullSensorRecord.decodeGo_refines]
      simp only [GoSlice.vis_ofBytes, hf, R.ofExcept_ok, if_true]
      rw [insert_own pre r rest f hwf ht hf]
      rw [ih (pre ++ [r]) fuel w (nextID rest) hq hrecs' hwf' hfull' hres (posOK_next pre r rest) (by omega)]
      simp
    · rw [if_neg ht]
      rw [← fullView_snoc_other pre r ht]
      rw [ih (pre ++ [r]) fuel w (nextID rest) hq hrecs' hwf' hfull' hres (posOK_next pre r rest) (by omega)]
      simp

end Bmc.Lemmas.SdrWalk
