import Bmc.Lemmas.GenLoopsSession
import Bmc.Lemmas.MetricsWire
/-! The regenerated `V2Session.buildAndSend` under the scripted surroundings: one run of the closure on a reply in the model's
    terms (`step_reply`, `stepOut`), and the induction over the script that gives what `Proto.sendLoop` returns
    (`retry_sendLoop`) and what `Proto.Metrics.loop` counts (`retry_metrics`). -/
namespace Bmc.Lemmas.GenLoops
open Bmc Bmc.Wire Bmc.Crypto Bmc.Proto Bmc.GoOrch Bmc.GoLoops Bmc.Gen.Loops

/-- the closure's three checks are the model's acceptance test -/
theorem accGen_eq (k : Keys) (c : Cmd) (name : String) (rsp : Opaque) (v2 : V2Session) (msg : Message)
    (hid : v2.id < 4294967296) (hm : msg.enterprise < 4294967296) (hL : k.localID < 4294967296) (hc : c.ent < 4294967296) :
    accGen k c name rsp v2 msg = accept k c v2 msg := by
  unfold accGen accept
  rw [isResponseTo_eq c msg hm hc name rsp]
  have h1 : ((sessConsts k).integrityAlgorithm != 0) = !(k.integ == 0) := by
    unfold sessConsts; cases k.integ == 0 <;> rfl
  have h2 : (UInt32.ofNat v2.id == (sessConsts k).localID) = (v2.id == k.localID) := by
    have := ofNat32_inj v2.id k.localID hid hL
    show (UInt32.ofNat v2.id == UInt32.ofNat k.localID) = _
    by_cases h : v2.id = k.localID
    · rw [h]; simp
    · have h' : ¬ UInt32.ofNat v2.id = UInt32.ofNat k.localID := fun e => h (this.mp e)
      rw [beq_eq_false_iff_ne.mpr h', beq_eq_false_iff_ne.mpr h]
  rw [h1, h2]
  unfold slAcceptable
  cases k.integ == 0 <;> cases v2.authenticated <;> cases (v2.id == k.localID) <;> simp [Bool.and_assoc]

/-- what one run of the closure makes of a reply, in the model's terms: its outcome and the responses it counts -/
def stepOut (C : Ops) (k : Keys) (c : Cmd) (d : Bytes) : RF ((Bool × Option GoErr) × Option GoErr) × List Ev :=
  match view (onReply C k.sess (GoSlice.ofBytes d)) with
  | (.crash, _) => (.panic, [])
  | (.fail, _) => (.ok ((false, none), some .decode), [])
  | (.message, some (v2, msg)) =>
    if accept k c v2 msg then
      (if isTemp msg.completionCode then .ok ((false, none), some .sentinel) else .ok ((false, none), none),
       [Ev.inc "commandResponses" [Label.code msg.completionCode]])
    else (.ok ((false, none), some .errorf), [])
  | _ => (.ok ((false, none), some .innermost), [])

theorem view_fst_message (p : Sess × Decoded) (h : (view p).1 = .message) : view p = (.message, some (p.1.v2, p.1.msg)) := by
  unfold view at *
  simp only at h
  simp [h]

section
variable (C : Ops) (k : Keys) (c : Cmd) (bd : Bytes → Bool) (name : String) (rsp : Opaque)

/-- one run of the closure on a reply -/
theorem step_reply (hf : c.reqFails = false) (hL : k.localID < 4294967296) (hc : c.ent < 4294967296)
    (first : Bool) (ivs : List Bytes) (d : Bytes) (rest : List Outcome) (sent : List Bytes) (i e : Bool) (K : Conn Decoded) :
    obs (V2Session_buildAndSend_func1 (sessWorld C k c bd) (sessConsts k) (cmdOf c name rsp) (first, none)
          (({ ivs := ivs, script := .reply d :: rest, sent := sent, inSend := i, expired := e } : SW), K))
      = ((stepOut C k c d).1,
         { ivs := ivs.tail, script := rest, sent := sent ++ [serBytes C k c (ivs.headD []) (sessLit k c name rsp K.inbound)], inSend := i, expired := e },
         K.inbound + 1, K.events ++ pre first ++ (stepOut C k c d).2) := by
  unfold stepOut
  cases hv : (view (onReply C k.sess (GoSlice.ofBytes d))).1 with
  | crash =>
    rw [step_crash C k c bd name rsp hf first ivs d rest sent i e K hv]
    generalize view (onReply C k.sess (GoSlice.ofBytes d)) = vw at hv
    obtain ⟨how, o⟩ := vw; simp only at hv; subst hv; simp
  | fail =>
    rw [step_fail C k c bd name rsp hf first ivs d rest sent i e K hv]
    generalize view (onReply C k.sess (GoSlice.ofBytes d)) = vw at hv
    obtain ⟨how, o⟩ := vw; simp only at hv; subst hv; simp
  | notMessage =>
    rw [step_notMessage C k c bd name rsp hf first ivs d rest sent i e K hv]
    generalize view (onReply C k.sess (GoSlice.ofBytes d)) = vw at hv
    obtain ⟨how, o⟩ := vw; simp only at hv; subst hv; simp
  | message =>
    have hv' := view_fst_message _ hv
    generalize (onReply C k.sess (GoSlice.ofBytes d)).1.v2 = v2 at hv'
    generalize (onReply C k.sess (GoSlice.ofBytes d)).1.msg = msg at hv'
    obtain ⟨hid, hm⟩ := view_bounds C k.sess _ v2 msg hv'
    have := step_message C k c bd name rsp hf first ivs d rest sent i e K v2 msg hv'
    rw [accGen_eq k c name rsp v2 msg hid hm hL hc, ccIsTemporary_eq] at this
    rw [hv']
    simp only [obsM, obs, Prod.mk.injEq] at this ⊢
    obtain ⟨a1, a2, a3, a4, _⟩ := this
    refine ⟨?_, a2, a3, ?_⟩
    · rw [a1]; split <;> rfl
    · rw [a4]; split <;> rfl
end
/-- the outcome of the translated loop (captured variables and returned error, or a panic) against the model's result -/
def ResOk (r : RF ((Bool × Option GoErr) × Option GoErr) × SW × Conn Decoded) : Res → Prop
  | .ok cc p => r.1 = .ok ((false, none), none) ∧ r.2.2.layers.message.completionCode = cc ∧ r.2.2.layers.message.payload = p
  | .transportErr => r.1 = .ok ((false, some .transport), none)
  | .serializeErr => r.1 = .ok ((false, some .serialize), none)
  | .ctxExpired => r.1 = .ok ((false, none), some .ctx)
  | .crashed => r.1 = .panic

theorem stepOut_classify (C : Ops) (k : Keys) (c : Cmd) (d : Bytes) :
    match classify C k c d with
    | .crash => (stepOut C k c d).1 = .panic
    | .final cc pl => (stepOut C k c d).1 = .ok ((false, none), none) ∧
        ∃ v2 msg, view (onReply C k.sess (GoSlice.ofBytes d)) = (.message, some (v2, msg)) ∧ msg.completionCode = cc ∧ msg.payload = pl
    | .retry => ∃ e, (stepOut C k c d).1 = .ok ((false, none), some e) := by
  unfold classify stepOut
  generalize view (onReply C k.sess (GoSlice.ofBytes d)) = vw
  obtain ⟨how, o⟩ := vw
  cases how <;> cases o <;> simp
  rename_i val
  obtain ⟨v2, msg⟩ := val
  simp only
  cases accept k c v2 msg <;> cases isTemp msg.completionCode <;> simp
  exact ⟨v2, msg, ⟨rfl, rfl⟩, rfl, rfl⟩

/-- the message layer the closure leaves after a reply that reached it -/
theorem step_message_layer (C : Ops) (k : Keys) (c : Cmd) (bd : Bytes → Bool) (name : String) (rsp : Opaque) (hf : c.reqFails = false)
    (first : Bool) (ivs : List Bytes) (d : Bytes) (rest : List Outcome) (sent : List Bytes) (i e : Bool) (K : Conn Decoded)
    (v2 : V2Session) (msg : Message) (hv : view (onReply C k.sess (GoSlice.ofBytes d)) = (.message, some (v2, msg))) :
    (V2Session_buildAndSend_func1 (sessWorld C k c bd) (sessConsts k) (cmdOf c name rsp) (first, none)
          (({ ivs := ivs, script := .reply d :: rest, sent := sent, inSend := i, expired := e } : SW), K)).2.2.layers.message = msgOf msg := by
  have := step_message C k c bd name rsp hf first ivs d rest sent i e K v2 msg hv
  simp only [obsM, Prod.mk.injEq] at this
  exact this.2.2.2.2

theorem sendLoop_serfail (C : Ops) (c : Cmd) (hf : c.reqFails = true) (s : Sess) (iv : Bytes) (ivs : List Bytes) (o : Outcome) (rest : List Outcome) :
    sendLoop C c s (iv :: ivs) (o :: rest) = (initLayers s c, [], .serializeErr) := by
  unfold sendLoop; simp [hf]

theorem sendLoop_lost (C : Ops) (c : Cmd) (hf : c.reqFails = false) (s : Sess) (iv : Bytes) (ivs : List Bytes) (rest : List Outcome) :
    sendLoop C c s (iv :: ivs) (.lost :: rest) = ((attempt C (initLayers s c) c iv).1, [(attempt C (initLayers s c) c iv).2], .transportErr) := by
  unfold sendLoop; simp [hf]

/-- THE LOOP: under the scripted surroundings (context ending in the back-off) the regenerated retry loop transmits the datagrams,
    leaves the counter and ends the way `Proto.sendLoop` says -/
theorem retry_sendLoop (C : Ops) (c : Cmd) (bd : Bytes → Bool) (name : String) (rsp : Opaque) (hc : c.ent < 4294967296) (k : Keys)
    (hL : k.localID < 4294967296) (hr : k.remoteID < 4294967296) :
    ∀ (script : List Outcome), script ≠ [] → ∀ (s : Sess), s.keys = k → s.inbound < 4294967296 →
      ∀ (ivs : List Bytes), script.length ≤ ivs.length → ∀ (fuel : Nat), script.length ≤ fuel →
      ∀ (first : Bool) (sent0 : List Bytes) (e0 : Bool) (K : Conn Decoded), K.inbound = UInt32.ofNat s.inbound →
      let r := backoffRetry SW.wait fuel (V2Session_buildAndSend_func1 (sessWorld C k c bd) (sessConsts k) (cmdOf c name rsp)) (first, none)
                ({ ivs := ivs, script := script, sent := sent0, inSend := false, expired := e0 }, K)
      let m := sendLoop C c s ivs script
      r.2.1.sent = sent0 ++ m.2.1 ∧ r.2.2.inbound = UInt32.ofNat m.1.inbound ∧ ResOk r m.2.2 := by
  intro script
  induction script with
  | nil => intro h; exact absurd rfl h
  | cons o rest ih =>
    intro _ s hk hs ivs hl fuel hfu first sent0 e0 K hK
    cases ivs with
    | nil => simp at hl
    | cons iv ivs =>
    cases fuel with
    | zero => simp at hfu
    | succ n =>
    have hl' : rest.length ≤ ivs.length := by simpa using hl
    have hfu' : rest.length ≤ n := by simpa using hfu
    intro r m
    cases hf : c.reqFails with
    | true =>
      have st := step_serfail C k c bd name rsp hf first { ivs := iv :: ivs, script := o :: rest, sent := sent0, inSend := false, expired := e0 } K
      simp only [obs, Prod.mk.injEq] at st
      obtain ⟨s1, s2, s3, _⟩ := st
      have hr0 : r = _ := retry_of_nil SW.wait _ n _ _ _ s1
      have hm : m = _ := sendLoop_serfail C c hf s iv ivs o rest
      rw [hr0, hm]
      refine ⟨by simp [s2], by simp [s3, hK, initLayers], ?_⟩
      simp [ResOk]
    | false =>
      cases o with
      | lost =>
        have st := step_lost C k c bd name rsp hf first (iv :: ivs) rest sent0 false e0 K
        simp only [obs, Prod.mk.injEq] at st
        obtain ⟨s1, s2, s3, _⟩ := st
        have hr0 : r = _ := retry_of_nil SW.wait _ n _ _ _ s1
        have hm : m = _ := sendLoop_lost C c hf s iv ivs rest
        rw [hr0, hm]
        subst hk
        refine ⟨?_, ?_, ?_⟩
        · simp only [s2, hK, List.headD_cons]; rw [serBytes_attempt C c name rsp s iv hs hr hc]
        · simp only [s3, hK, ofNat32_succ]; rfl
        · simp [ResOk]
      | reply d =>
        subst hk
        have st := step_reply C s.keys c bd name rsp hf hL hc first (iv :: ivs) d rest sent0 false e0 K
        simp only [obs, Prod.mk.injEq, List.headD_cons, List.tail_cons] at st
        obtain ⟨s1, s2, s3, _⟩ := st
        rw [hK, serBytes_attempt C c name rsp s iv hs hr hc] at s2
        have hcl := stepOut_classify C s.keys c d
        have hm : m = _ := sendLoop_reply C c hf s iv ivs d rest
        obtain ⟨hk2, hi2⟩ := after_reply C s c iv (GoSlice.ofBytes d)
        have hinb : (V2Session_buildAndSend_func1 (sessWorld C s.keys c bd) (sessConsts s.keys) (cmdOf c name rsp) (first, none)
            ({ ivs := iv :: ivs, script := Outcome.reply d :: rest, sent := sent0, inSend := false, expired := e0 }, K)).2.2.inbound
              = UInt32.ofNat ((s.inbound + 1) % 4294967296) := by rw [s3, hK, ofNat32_succ]
        cases hc' : classify C s.keys c d with
        | crash =>
          rw [hc'] at hcl hm; simp only at hcl hm
          have hr0 : r = _ := retry_of_panic SW.wait _ n _ _ (s1.trans hcl)
          rw [hr0, hm]
          exact ⟨by simp [s2], by simp only [hinb, hi2], by simp [ResOk]⟩
        | final cc pl =>
          rw [hc'] at hcl hm; simp only at hcl hm
          obtain ⟨hcl1, v2, msg, hv, hcc, hpl⟩ := hcl
          have hr0 : r = _ := retry_of_nil SW.wait _ n _ _ _ (s1.trans hcl1)
          have hml := step_message_layer C s.keys c bd name rsp hf first (iv :: ivs) d rest sent0 false e0 K v2 msg hv
          rw [hr0, hm]
          refine ⟨by simp [s2], by simp only [hinb, hi2], ?_⟩
          simp only [ResOk, hml, msgOf, hcc, hpl, and_self]
        | retry =>
          rw [hc'] at hcl hm; simp only at hcl hm
          obtain ⟨e, he⟩ := hcl
          have hr0 : r = _ := retry_of_err SW.wait _ n _ _ e _ (s1.trans he)
          rw [show (V2Session_buildAndSend_func1 (sessWorld C s.keys c bd) (sessConsts s.keys) (cmdOf c name rsp) (first, none)
            ({ ivs := iv :: ivs, script := Outcome.reply d :: rest, sent := sent0, inSend := false, expired := e0 }, K)).2 = (_, _) from Prod.ext s2 rfl,
            afterErr_script] at hr0
          cases rest with
          | nil =>
            simp only [List.isEmpty_nil, Bool.not_false, Bool.true_or, Bool.and_self, if_true] at hr0
            rw [hr0, hm]
            simp only [sendLoop]
            exact ⟨by simp, by simp only [hinb, hi2], by simp [ResOk]⟩
          | cons o2 rest2 =>
            simp only [List.isEmpty_cons, Bool.false_and, Bool.false_eq_true, if_false] at hr0
            have := ih (by simp) (onReply C (attempt C (initLayers s c) c iv).1 (GoSlice.ofBytes d)).1 hk2
              (by rw [hi2]; exact Nat.mod_lt _ (by decide)) ivs hl' n hfu' false (sent0 ++ [(attempt C (initLayers s c) c iv).2]) e0 _ (by rw [hinb, hi2])
            simp only at this
            rw [← hr0] at this
            obtain ⟨t1, t2, t3⟩ := this
            rw [hm]
            exact ⟨by rw [t1]; simp, t2, t3⟩

/-- what one run of the closure makes of a reply that crashes no decoder, against the instrumentation model's view of the attempt -/
theorem stepOut_att (C : Ops) (k : Keys) (c : Cmd) (d : Bytes) (hn : classify C k c d ≠ .crash) :
    match attOf C k c (.reply d) with
    | .final n => (stepOut C k c d).1 = .ok ((false, none), none) ∧ ∃ cc : UInt8, cc.toNat = n ∧ (stepOut C k c d).2 = [Ev.inc "commandResponses" [Label.code cc]]
    | .temp n => (∃ e, (stepOut C k c d).1 = .ok ((false, none), some e)) ∧ ∃ cc : UInt8, cc.toNat = n ∧ (stepOut C k c d).2 = [Ev.inc "commandResponses" [Label.code cc]]
    | .junk => (∃ e, (stepOut C k c d).1 = .ok ((false, none), some e)) ∧ (stepOut C k c d).2 = []
    | _ => False := by
  simp only [classify] at hn
  simp only [attOf, stepOut]
  generalize view (onReply C k.sess (GoSlice.ofBytes d)) = vw at hn ⊢
  obtain ⟨how, o⟩ := vw
  cases how <;> cases o <;> simp at hn ⊢
  rename_i val
  obtain ⟨v2, msg⟩ := val
  simp only
  cases accept k c v2 msg <;> cases isTemp msg.completionCode <;> simp

/-- the closure ended with nil and no terminal error -/
def okNil : RF ((Bool × Option GoErr) × Option GoErr) → Bool
  | .ok ((_, none), none) => true
  | _ => false

/-- THE LOG: what the Prometheus calls of the regenerated loop add up to is what `Proto.Metrics.loop` computes on `attOf` of the
    same script — for both ways the caller's context can end -/
theorem retry_metrics (C : Ops) (c : Cmd) (bd : Bytes → Bool) (name : String) (rsp : Opaque) (hc : c.ent < 4294967296) (k : Keys)
    (hL : k.localID < 4294967296) (hf : c.reqFails = false) (i : Bool) (m0 : Metrics.M) :
    ∀ (script : List Outcome), (i = false → script ≠ []) → noCrash C k c script →
      ∀ (ivs : List Bytes) (fuel : Nat), script.length + 1 ≤ fuel → ∀ (first : Bool) (sent0 : List Bytes) (K : Conn Decoded),
      let r := backoffRetry SW.wait fuel (V2Session_buildAndSend_func1 (sessWorld C k c bd) (sessConsts k) (cmdOf c name rsp)) (first, none)
                ({ ivs := ivs, script := script, sent := sent0, inSend := i, expired := false }, K)
      let l := Metrics.loop true (evsApply m0 K.events) first (script.map (attOf C k c) ++ ending i)
      evsApply m0 r.2.2.events = l.1 ∧ okNil r.1 = l.2 ∧ ∃ x, r.1 = .ok x := by
  intro script
  induction script with
  | nil =>
    intro hne _ ivs fuel hfu first sent0 K r l
    cases i with
    | false => exact absurd rfl (hne rfl)
    | true =>
    cases fuel with
    | zero => simp at hfu
    | succ n =>
    have st := step_nil C k c bd name rsp hf first ivs sent0 true false K
    simp only [obs, Prod.mk.injEq] at st
    obtain ⟨s1, _, _, s4⟩ := st
    have hr0 : r = _ := retry_of_nil SW.wait _ n _ _ _ s1
    rw [hr0]
    refine ⟨?_, ?_, _, rfl⟩
    · simp only [l, ending, List.map_nil, List.append_nil, if_true, Metrics.loop, s4, evsApply_append, evsApply_pre]
    · simp only [l, ending, List.map_nil, List.append_nil, if_true, Metrics.loop, okNil]
  | cons o rest ih =>
    intro _ hnc ivs fuel hfu first sent0 K r l
    cases fuel with
    | zero => simp at hfu
    | succ n =>
    have hfu' : rest.length + 1 ≤ n := by simpa using hfu
    have hnc' : noCrash C k c rest := fun d hd => hnc d (by simp [hd])
    cases o with
    | lost =>
      have st := step_lost C k c bd name rsp hf first ivs rest sent0 i false K
      simp only [obs, Prod.mk.injEq] at st
      obtain ⟨s1, _, _, s4⟩ := st
      have hr0 : r = _ := retry_of_nil SW.wait _ n _ _ _ s1
      rw [hr0]
      refine ⟨?_, ?_, _, rfl⟩
      · simp only [l, List.map_cons, List.cons_append, attOf, Metrics.loop, s4, evsApply_append, evsApply_pre, if_true]
      · simp only [l, List.map_cons, List.cons_append, attOf, Metrics.loop, okNil, if_true]
    | reply d =>
      have st := step_reply C k c bd name rsp hf hL hc first ivs d rest sent0 i false K
      simp only [obs, Prod.mk.injEq] at st
      obtain ⟨s1, s2, _, s4⟩ := st
      have hat := stepOut_att C k c d (hnc d (by simp))
      have hl : l = Metrics.loop true (evsApply m0 K.events) first (attOf C k c (.reply d) :: (rest.map (attOf C k c) ++ ending i)) := by
        simp only [l, List.map_cons, List.cons_append]
      -- what happens after a retryable error
      have again : ∀ (e : GoErr) (evs : List Ev), (stepOut C k c d).1 = .ok ((false, none), some e) → (stepOut C k c d).2 = evs →
          let l' := Metrics.loop true (evsApply (evsApply m0 (K.events ++ pre first)) evs) false (rest.map (attOf C k c) ++ ending i)
          evsApply m0 r.2.2.events = l'.1 ∧ okNil r.1 = l'.2 ∧ ∃ x, r.1 = .ok x := by
        intro e evs he hevs l'
        have hr0 : r = _ := retry_of_err SW.wait _ n _ _ e _ (s1.trans he)
        rw [show (V2Session_buildAndSend_func1 (sessWorld C k c bd) (sessConsts k) (cmdOf c name rsp) (first, none)
            ({ ivs := ivs, script := Outcome.reply d :: rest, sent := sent0, inSend := i, expired := false }, K)).2 = (_, _) from Prod.ext s2 rfl,
            afterErr_script] at hr0
        by_cases hstop : (rest.isEmpty && !i) = true
        · -- the context ends in the back-off after the last scripted attempt
          simp only [Bool.or_false, hstop, if_true] at hr0
          have hrest : rest = [] := by cases rest <;> simp_all
          have hi : i = false := by cases i <;> simp_all
          rw [hr0]
          subst hrest; subst hi
          refine ⟨?_, ?_, _, rfl⟩
          · simp only [l', ending, List.map_nil, List.nil_append, Metrics.loop, s4, hevs, evsApply_append, Bool.false_eq_true, if_false]
          · simp only [l', ending, List.map_nil, List.nil_append, Metrics.loop, okNil, Bool.false_eq_true, if_false]
        · simp only [Bool.or_false, hstop, if_false, Bool.false_eq_true] at hr0
          have hne' : i = false → rest ≠ [] := by
            intro hi hr; apply hstop; simp [hi, hr]
          have := ih hne' hnc' ivs.tail n hfu' false
            (sent0 ++ [serBytes C k c (ivs.headD []) (sessLit k c name rsp K.inbound)])
            (V2Session_buildAndSend_func1 (sessWorld C k c bd) (sessConsts k) (cmdOf c name rsp) (first, none)
              ({ ivs := ivs, script := Outcome.reply d :: rest, sent := sent0, inSend := i, expired := false }, K)).2.2
          simp only at this
          rw [← hr0, s4, hevs, evsApply_append] at this
          exact this
      cases hatt : attOf C k c (.reply d) with
      | final nn =>
        rw [hatt] at hat hl; simp only at hat
        obtain ⟨h1, cc, hcc, h2⟩ := hat
        have hr0 : r = _ := retry_of_nil SW.wait _ n _ _ _ (s1.trans h1)
        rw [hr0, hl]
        refine ⟨?_, ?_, _, rfl⟩
        · simp only [Metrics.loop, s4, h2, evsApply_append, evsApply_pre]
          simp only [evsApply, List.foldl_cons, List.foldl_nil, evApply_responses, hcc]
        · simp only [Metrics.loop, okNil]
      | temp nn =>
        rw [hatt] at hat hl; simp only at hat
        obtain ⟨⟨e, h1⟩, cc, hcc, h2⟩ := hat
        have := again e _ h1 h2
        rw [hl]
        simp only [Metrics.loop]
        simp only [evsApply_append, evsApply_pre] at this
        simp only [evsApply, List.foldl_cons, List.foldl_nil, evApply_responses, hcc] at this ⊢
        exact this
      | junk =>
        rw [hatt] at hat hl; simp only at hat
        obtain ⟨⟨e, h1⟩, h2⟩ := hat
        have := again e _ h1 h2
        rw [hl]
        simp only [Metrics.loop]
        simp only [evsApply_append, evsApply_pre] at this
        simp only [evsApply, List.foldl_nil] at this ⊢
        exact this
      | lost => rw [hatt] at hat; exact absurd hat (by simp)
      | cancelled => rw [hatt] at hat; exact absurd hat (by simp)

/-- `SendCommand` in terms of what `buildAndSend` does from the state with the timer started and the attempt counted -/
theorem V2Session_SendCommand_apply {σ τ : Type} (W : World σ τ) (fuel : Nat) (s : V2SessionConsts) (c : ipmi_Command) (w : σ) (K : Conn τ) :
    V2Session_SendCommand W fuel s c (w, K) =
      (let b := V2Session_buildAndSend W fuel s c
                  (w, { K with events := K.events ++ [Ev.timerStart "commandDuration"] ++ [Ev.inc "commandAttempts" [Label.str c.name]] })
       match b.1 with
       | .ok none =>
         if c.response != 0 ∧ W.decodeFromBytes c.response b.2.2.layers.message.payload = false then
           (.ok (b.2.2.layers.message.completionCode, some .response),
            (b.2.1, { b.2.2 with events := b.2.2.events ++ [Ev.inc "commandFailures" [Label.str c.name]] ++ [Ev.timerObserve "commandDuration"] }))
         else
           (.ok (b.2.2.layers.message.completionCode, none),
            (b.2.1, { b.2.2 with events := b.2.2.events ++ [Ev.timerObserve "commandDuration"] }))
       | .ok (some e) =>
         (.ok (0, some e),
          (b.2.1, { b.2.2 with events := b.2.2.events ++ [Ev.inc "commandFailures" [Label.str c.name]] ++ [Ev.timerObserve "commandDuration"] }))
       | r => (castBad r, (b.2.1, { b.2.2 with events := b.2.2.events ++ [Ev.timerObserve "commandDuration"] }))) := by
  simp only [V2Session_SendCommand]
  loop_simp [deferred_apply]
  generalize V2Session_buildAndSend W fuel s c
      (w, { K with events := K.events ++ [Ev.timerStart "commandDuration"] ++ [Ev.inc "commandAttempts" [Label.str c.name]] }) = b
  obtain ⟨r, w', K'⟩ := b
  cases r with
  | ok v =>
    cases v with
    | some e => loop_simp
    | none =>
      loop_simp
      by_cases h0 : c.response = 0
      · simp only [h0, not_true_eq_false, if_false, false_and]; loop_simp
      · by_cases hd : W.decodeFromBytes c.response K'.layers.message.payload = true
        · have hdf : decodeFromBytes W c.response K'.layers.message.payload = none := by simp [decodeFromBytes, hd]
          simp only [h0, hd, hdf, not_false_eq_true, if_true, Bool.true_eq_false, and_false, if_false]; loop_simp
        · have hd' : W.decodeFromBytes c.response K'.layers.message.payload = false := by simpa using hd
          have hdf : decodeFromBytes W c.response K'.layers.message.payload = some .response := by simp [decodeFromBytes, hd']
          simp only [h0, hd', hdf, not_false_eq_true, if_true, true_and]; loop_simp
  | _ => rfl

end Bmc.Lemmas.GenLoops
