import Bmc.Lemmas.SessionSpec
import Bmc.Lemmas.AttemptLaws
/-! Consequences of the loop refinement used by the C03/C04/C09/C10/C11 property theorems. -/
namespace Bmc.Proto
open Bmc Bmc.Wire Bmc.Crypto

/-- the session-ID and sequence fields of a datagram, as the BMC reads them (wire offsets 6 and 10) -/
def sessionIDOf (pkt : Bytes) : Nat := le32 (pkt.drop 6)
def seqOf (pkt : Bytes) : Nat := le32 (pkt.drop 10)

theorem le32_take8 (a b rest : Bytes) (ha : a.length = 4) (hb : b.length = 4) (l : Bytes)
    (h : l.take 8 = a ++ b) : le32 l = le32 a ∧ le32 (l.drop 4) = le32 b := by
  have h0 : ∀ i, i < 8 → l.getD i 0 = (a ++ b).getD i 0 := by
    intro i hi
    rw [← h, getD_take _ _ _ hi]
  match a, ha with
  | [a0, a1, a2, a3], _ =>
    match b, hb with
    | [b0, b1, b2, b3], _ =>
      have e0 := h0 0 (by omega); have e1 := h0 1 (by omega); have e2 := h0 2 (by omega); have e3 := h0 3 (by omega)
      have e4 := h0 4 (by omega); have e5 := h0 5 (by omega); have e6 := h0 6 (by omega); have e7 := h0 7 (by omega)
      simp at e0 e1 e2 e3 e4 e5 e6 e7
      simp [le32, getD_drop, e0, e1, e2, e3, e4, e5, e6, e7]

def Keys.sessAt (k : Keys) (inb : Nat) : Sess :=
  { inbound := inb, localID := k.localID, remoteID := k.remoteID, integ := k.integ, k1 := k.k1, k2 := k.k2 }

theorem datagramOf_eq (C : Ops) (k : Keys) (c : Cmd) (inb : Nat) (iv : Bytes) :
    datagramOf C k c inb iv = (attempt C (initLayers (k.sessAt inb) c) c iv).2 := rfl

theorem datagram_fields (C : Ops) (k : Keys) (c : Cmd) (inb : Nat) (iv : Bytes) (hr : k.remoteID < 4294967296) :
    sessionIDOf (datagramOf C k c inb iv) = k.remoteID ∧ seqOf (datagramOf C k c inb iv) = (inb + 1) % 4294967296 := by
  rw [datagramOf_eq]
  unfold sessionIDOf seqOf
  generalize hs0 : k.sessAt inb = s0
  have hin : (initLayers s0 c).inbound = inb := by subst hs0; rfl
  have hid : (initLayers s0 c).v2.id = k.remoteID := by subst hs0; rfl
  have h := (attempt_header C (initLayers s0 c) c iv (by simp [initLayers])).1
  rw [hin, hid] at h
  have := le32_take8 (putLE32 k.remoteID) (putLE32 ((inb + 1) % 4294967296)) [] (by simp [putLE32]) (by simp [putLE32])
    _ h
  rw [List.drop_drop] at this
  constructor
  · rw [this.1]; have := le32_putLE32 k.remoteID hr []; simpa using this
  · rw [show 10 = 4 + 6 from rfl, this.2]
    have := le32_putLE32 ((inb + 1) % 4294967296) (by omega) []; simpa using this

theorem expected_ok_inv (cls : Bytes → Class) (script : List Outcome) (cc : UInt8) (p : Bytes)
    (h : (expected cls script).2 = .ok cc p) : ∃ d, Outcome.reply d ∈ script ∧ cls d = .final cc p := by
  induction script with
  | nil => simp [expected] at h
  | cons o rest ih =>
    cases o with
    | lost => simp [expected] at h
    | reply d =>
      simp only [expected] at h
      cases hc : cls d with
      | final cc' p' =>
        rw [hc] at h; simp at h
        exact ⟨d, by simp, by rw [hc, h.1, h.2]⟩
      | crash => rw [hc] at h; simp at h
      | retry =>
        rw [hc] at h
        obtain ⟨d', hm, hd⟩ := ih h
        exact ⟨d', by simp [hm], hd⟩

theorem classify_final_inv (C : Ops) (k : Keys) (c : Cmd) (d : Bytes) (cc : UInt8) (p : Bytes)
    (h : classify C k c d = .final cc p) :
    ∃ v2 msg, view (onReply C k.sess (GoSlice.ofBytes d)) = (.message, some (v2, msg)) ∧
      accept k c v2 msg = true ∧ isTemp msg.completionCode = false ∧ msg.completionCode = cc ∧ msg.payload = p := by
  unfold classify at h
  generalize view (onReply C k.sess (GoSlice.ofBytes d)) = vw at h
  obtain ⟨how, o⟩ := vw
  cases how <;> cases o <;> simp at h
  rename_i val
  obtain ⟨v2, msg⟩ := val
  simp only at h
  split at h
  · rename_i hacc
    simp at h
    refine ⟨v2, msg, rfl, ?_, ?_, h.1, h.2⟩ <;> simp_all
  · simp at h

end Bmc.Proto
