import Bmc.Lemmas.AesRefine
namespace Bmc.Wire
open Bmc Bmc.Crypto

theorem confPad_len (n : Nat) : (confPad n).length = n + 1 := by simp [confPad]

theorem padLen_spec (m : Nat) : (m + (padLen m + 1)) % 16 = 0 ∧ padLen m ≤ 15 := by
  unfold padLen; omega

theorem padOk_range (n : Nat) : padOk ((List.range n).map (fun i => UInt8.ofNat (i + 1))) = true := by
  simp [padOk]

/-- C08 (AES layer): decoding the serialisation of any message under the same key returns the IV and the message -/
theorem AESLayer.decode_encode (C : Ops) (hC : C.Lawful) (key iv msg : Bytes) (hiv : iv.length = 16) :
    AESLayer.decode C key (AESLayer.encode C key iv msg) = .ok { contents := iv, payload := msg } := by
  obtain ⟨hmod, hp15⟩ := padLen_spec msg.length
  generalize hn : padLen msg.length = n at hmod hp15
  have hptl : (msg ++ confPad n).length = 16 * ((msg ++ confPad n).length / 16) := by
    simp [confPad_len]; omega
  have hct := cbcEnc_len C hC key _ iv (msg ++ confPad n) hiv hptl
  have hrt := cbcDec_cbcEnc C hC key _ iv (msg ++ confPad n) hiv hptl
  unfold AESLayer.decode AESLayer.encode
  simp only [hn]
  generalize hk : (msg ++ confPad n).length / 16 = k at hct hrt hptl
  have hL : (iv ++ cbcEnc C key k iv (msg ++ confPad n)).length = 16 + 16 * k := by simp [hiv, hct]
  have hkpos : 1 ≤ k := by simp [confPad_len] at hptl; omega
  simp only [hL, List.take_left' hiv, List.drop_left' hiv]
  have h1 : (16 + 16 * k - 16) / 16 = k := by omega
  simp only [h1, hrt]
  -- the last byte is the pad length
  have hmsg : msg.length + (n + 1) = 16 * k := by simpa [confPad_len] using hptl
  have hlast : (iv ++ (msg ++ confPad n)).getD (16 + 16 * k - 1) 0 = UInt8.ofNat n := by
    have : 16 + 16 * k - 1 = iv.length + (msg.length + n) := by omega
    rw [this, List.getD_eq_getElem?_getD, List.getElem?_append_right (by omega)]
    simp only [Nat.add_sub_cancel_left]
    rw [List.getElem?_append_right (by omega)]
    simp [confPad, Nat.add_sub_cancel_left]
  have hnn : (UInt8.ofNat n).toNat = n := by simp; omega
  have hgt : ¬ (UInt8.ofNat n > 16) := by
    intro h; have := UInt8.lt_iff_toNat_lt.mp h; simp at this; omega
  simp only [hlast, hnn, hgt, if_false]
  have hdrop : List.drop (16 + 16 * k - n - 1) (iv ++ (msg ++ confPad n)) = confPad n := by
    have e : 16 + 16 * k - n - 1 = (iv ++ msg).length := by simp; omega
    rw [← List.append_assoc, e, List.drop_left]
  have htake : List.take n (confPad n) = (List.range n).map (fun i => UInt8.ofNat (i + 1)) := by
    have : n = ((List.range n).map (fun i => UInt8.ofNat (i + 1))).length := by simp
    conv => lhs; rw [confPad, this]
    simp
  have hstart : ¬ (16 + 16 * k - n - 1 < 16) := by omega
  have hpay : List.take (16 + 16 * k - n - 1 - 16) (msg ++ confPad n) = msg := by
    have e : 16 + 16 * k - n - 1 - 16 = msg.length := by omega
    rw [e, List.take_left]
  simp [hdrop, htake, hstart, hpay]
  have h17 : ¬ (16 + 16 * k < 17) := by omega
  have hp : padOk (List.map (fun i => UInt8.ofNat i + 1) (List.range n)) = true := by simp [padOk]
  simp [h17, hp]
#print axioms AESLayer.decode_encode
