import Bmc.Gen.Keys
import Bmc.Proto.Handshake
/-! Helper definitions and lemmas for `Proofs/GenKeys/*.lean`: the key-derivation code REGENERATED from the Go source
    (`Bmc/Gen/Keys.lean`) against the hand-written handshake model (`Proto/Handshake.lean`, `Proto/Session.lean`).

* `HashVal.mac` — THE TRUSTED CONTRACT of `hash.Hash`, written out: what `Sum(nil)` returns for a hash value the module
  builds, after the message `m` was written into it in the reset state.
* `Rakp1Is` / `Rakp2Is` — the correspondence between the fields of the Go structs the translated functions read and
  the values of the handshake model (`Opts`, the console random, `OpenSessionRsp`, `RAKP2`); `rakp1Of` / `rakp2Of` — the
  Go values for given model values (`rakp1Of` through the REGENERATED literal of `newV2Session`). -/
namespace Bmc.Lemmas.GenKeys
open Bmc Bmc.Wire Bmc.Crypto Bmc.Proto Bmc.Gen.Keys

/-! ## the contract of `hash.Hash`, for the values the module builds -/

/-- `crypto/md5.New`, `crypto/sha1.New`, `crypto/sha256.New` are MD5, SHA-1, SHA-256 -/
def hashAlg : HashFn → HashAlg
  | .md5_New => .md5
  | .sha1_New => .sha1
  | .sha256_New => .sha256

/-- `Sum(nil)` of a hash value after exactly `m` was written into it since it was created or last reset:
    `hmac.New(f, key)` computes HMAC_f(key, m); a `truncatedHash` runs the REGENERATED `truncatedHash.Sum` on `nil`
    over the embedded hash, whose `Sum(b)` is `b` followed by its own MAC. `none` = the slice expression of
    `truncatedHash.Sum` reaches beyond the MAC (a panic, or bytes that are not the MAC's). -/
def mac (C : Ops) : HashVal → Bytes → Option Bytes
  | .hmac f key, m => some (C.hmac (hashAlg f) key m)
  | .truncated inner n, m =>
    match mac C inner m with
    | none => none
    | some full => truncatedHash_Sum (fun b => b ++ full) n []

/-! ## field correspondence -/

/-- the Go `RAKPMessage1` that the key formulas read holds the model's values: as `newV2Session` fills it from the
    options, the random draw and the Open Session Response -/
structure Rakp1Is (g : RAKPMessage1) (o : Opts) (rm : Bytes) (osr : OpenSessionRsp) : Prop where
  managedSystemSessionID : g.managedSystemSessionID.toNat = osr.bmcSessionID
  remoteConsoleRandom : g.remoteConsoleRandom = rm
  privilegeLevelLookup : g.privilegeLevelLookup = o.lookup
  maxPrivilegeLevel : g.maxPrivilegeLevel = o.priv
  username : g.username = o.user

/-- the Go `RAKPMessage2` that the key formulas read holds the model's decoded RAKP 2
    (the same renaming as `Lemmas/GenDec.lean: RAKPMessage2.toModel`) -/
structure Rakp2Is (g : RAKPMessage2) (rk2 : RAKP2) : Prop where
  remoteConsoleSessionID : g.remoteConsoleSessionID.toNat = rk2.consoleSessionID
  managedSystemRandom : g.managedSystemRandom = rk2.bmcRandom
  managedSystemGUID : g.managedSystemGUID = rk2.bmcGUID

/-- the `rakpMessage1` of `newV2Session` for the model's values: the REGENERATED literal applied to
    `openSessionRsp.ManagedSystemSessionID ↦ osr.bmcSessionID`, `remoteConsoleRandom ↦ rm`,
    `opts.PrivilegeLevelLookup ↦ o.lookup`, `opts.MaxPrivilegeLevel ↦ o.priv`, `opts.Username ↦ o.user` -/
def rakp1Of (o : Opts) (rm : Bytes) (osr : OpenSessionRsp) : RAKPMessage1 :=
  newV2Session_rakpMessage1 (UInt32.ofNat osr.bmcSessionID) rm o.lookup o.priv o.user

/-- the decoded `rakpMessage2` for the model's RAKP 2 -/
def rakp2Of (rk2 : RAKP2) : RAKPMessage2 :=
  { remoteConsoleSessionID := UInt32.ofNat rk2.consoleSessionID, managedSystemRandom := rk2.bmcRandom
    managedSystemGUID := rk2.bmcGUID }

theorem rakp1Of_is (o : Opts) (rm : Bytes) (osr : OpenSessionRsp) (h : osr.bmcSessionID < 4294967296) :
    Rakp1Is (rakp1Of o rm osr) o rm osr := by
  refine ⟨?_, rfl, rfl, rfl, rfl⟩
  simp only [rakp1Of, newV2Session_rakpMessage1, UInt32.toNat_ofNat']
  exact Nat.mod_eq_of_lt h

theorem rakp2Of_is (rk2 : RAKP2) (h : rk2.consoleSessionID < 4294967296) : Rakp2Is (rakp2Of rk2) rk2 := by
  refine ⟨?_, rfl, rfl⟩
  simp only [rakp2Of, UInt32.toNat_ofNat']
  exact Nat.mod_eq_of_lt h

/-! ## little-endian session IDs -/

theorem u32_b0 (v : UInt32) : v.toUInt8 = UInt8.ofNat (v.toNat % 256) := by
  apply UInt8.toNat_inj.mp; simp
theorem u32_b1 (v : UInt32) : (v >>> 8).toUInt8 = UInt8.ofNat (v.toNat / 256 % 256) := by
  apply UInt8.toNat_inj.mp; simp [Nat.shiftRight_eq_div_pow]
theorem u32_b2 (v : UInt32) : (v >>> 16).toUInt8 = UInt8.ofNat (v.toNat / 65536 % 256) := by
  apply UInt8.toNat_inj.mp; simp [Nat.shiftRight_eq_div_pow]
theorem u32_b3 (v : UInt32) : (v >>> 24).toUInt8 = UInt8.ofNat (v.toNat / 16777216 % 256) := by
  apply UInt8.toNat_inj.mp; simp [Nat.shiftRight_eq_div_pow]

/-- `binary.LittleEndian.PutUint32` over a whole 4-byte array leaves the model's `putLE32`, whatever it held -/
theorem putUint32LE_eq (a : Bytes) (v : UInt32) (h : a.length = 4) : GoKeys.putUint32LE a v = putLE32 v.toNat := by
  unfold GoKeys.putUint32LE
  rw [List.drop_eq_nil_of_le (by omega), u32_b1, u32_b2, u32_b3, u32_b0]; rfl

theorem putUint32LE_length (a : Bytes) (v : UInt32) (h : a.length = 4) : (GoKeys.putUint32LE a v).length = 4 := by
  rw [putUint32LE_eq a v h]; rfl

theorem putLE32_length (n : Nat) : (putLE32 n).length = 4 := rfl

/-- discharges the side condition `a.length = 4` of `putUint32LE_eq` (a fresh `[4]byte{}`, or the buffer after a previous
    `PutUint32`) -/
macro "len4" : tactic => `(tactic| first | exact List.length_replicate .. | exact putLE32_length _)

/-- `for i := 0; i < n; i++ { l[i] = b }` over a byte string of at least `n` bytes: its first `n` bytes become `b` -/
theorem fill (b : UInt8) : ∀ (n : Nat) (l : Bytes), n ≤ l.length →
    List.foldl (fun (l : Bytes) (i : Nat) => l.set i b) l (List.range n) = List.replicate n b ++ l.drop n := by
  intro n
  induction n with
  | zero => intro l _; simp
  | succ n ih =>
    intro l h
    rw [List.range_succ, List.foldl_append, ih l (by omega)]
    simp only [List.foldl_cons, List.foldl_nil]
    rw [List.set_append_right _ _ (by simp), List.length_replicate, Nat.sub_self, List.replicate_succ']
    have : n < l.length := by omega
    rw [List.drop_eq_getElem_cons this, List.set_cons_zero, List.append_assoc]
    rfl

/-- the REGENERATED `truncatedHash.Sum(nil)` over an embedded hash whose MAC is `full`: its first `n` bytes, when it has them -/
theorem truncatedHash_Sum_nil (full : Bytes) (n : Nat) (h : n ≤ full.length) :
    truncatedHash_Sum (fun b => b ++ full) (n : Int) [] = some (full.take n) := by
  simp [truncatedHash_Sum, GoKeys.sliceTo, h]

/-- `copy(key[:], src)` into a `[n]byte` from at least `n` bytes: the first `n` of them -/
theorem copyArr_full (n : Nat) (dst src : Bytes) (h : n ≤ src.length) : GoKeys.copyArr n dst src = src.take n := by
  simp [GoKeys.copyArr, Nat.min_eq_left h]

/-- the role byte: `role := uint8(MaxPrivilegeLevel); if !PrivilegeLevelLookup { role |= 1 << 4 }` is the model's -/
theorem role_eq (o : Opts) :
    (if (!o.lookup) = true then o.priv ||| 16 else o.priv) = roleByte o := by
  unfold roleByte; cases o.lookup <;> simp

end Bmc.Lemmas.GenKeys
