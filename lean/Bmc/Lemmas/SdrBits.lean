import Bmc.Spec.Sdr
import Bmc.Wire.Sdr
/-! Byte-level facts used by `Proofs/C07/Sdr.lean`: finite checks over whole field ranges, one per byte (or byte pair)
    of the tables. -/
namespace Bmc.Lemmas.Sdr
open Bmc Bmc.Wire

-- two's complement ------------------------------------------------------------------------------------------
/-- `complement.Twos` on a 10-bit value split as (ms 2 bits, ls 8 bits) is the mathematical two's complement -/
theorem twosGo10 : ∀ h : Nat, h < 4 → ∀ l : Nat, l < 256 →
    (twosGo (UInt8.ofNat h) (UInt8.ofNat l) 10).toInt = Spec.twos 10 (256 * h + l) := by decide +kernel
/-- `complement.Twos` on a 4-bit value, then `int8(…)` -/
theorem twosGo4 : ∀ x : Nat, x < 16 → (twosGo 0 (UInt8.ofNat x) 4).toInt8.toInt = Spec.twos 4 x := by decide +kernel

theorem toTwos10 (i : Int) (h : -512 ≤ i ∧ i ≤ 511) : Spec.toTwos 10 i < 1024 ∧ Spec.twos 10 (Spec.toTwos 10 i) = i := by
  have e : Spec.toTwos 10 i = (i % 1024).toNat := rfl
  generalize Spec.toTwos 10 i = n at e
  unfold Spec.twos
  have p1 : 2 ^ (10 - 1) = 512 := by decide
  have p2 : (2 : Int) ^ 10 = 1024 := by decide
  rw [p1, p2]
  constructor
  · omega
  · split <;> omega
theorem toTwos4 (i : Int) (h : -8 ≤ i ∧ i ≤ 7) : Spec.toTwos 4 i < 16 ∧ Spec.twos 4 (Spec.toTwos 4 i) = i := by
  have e : Spec.toTwos 4 i = (i % 16).toNat := rfl
  generalize Spec.toTwos 4 i = n at e
  unfold Spec.twos
  have p1 : 2 ^ (4 - 1) = 8 := by decide
  have p2 : (2 : Int) ^ 4 = 16 := by decide
  rw [p1, p2]
  constructor
  · omega
  · split <;> omega

-- version bytes (Get SDR Repository Info byte 0, SDR header byte 2) --------------------------------------
theorem version : ∀ a : Nat, a < 10 → ∀ b : Nat, b < 10 →
    bcd (UInt8.ofNat (16 * b + a) &&& (0xf : UInt8)) * (10 : UInt8) + bcd (UInt8.ofNat (16 * b + a) >>> (4 : UInt8))
      = UInt8.ofNat (10 * a + b) := by decide +kernel

-- Get SDR Repository Info byte 13 ----------------------------------------------------------------------------
theorem flags13 : ∀ a b c d e f g : Bool,
    (Spec.bit a 7 ||| Spec.bit b 6 ||| Spec.bit c 5 ||| Spec.bit d 3 ||| Spec.bit e 2 ||| Spec.bit f 1 ||| Spec.bit g 0) &&& (0xef : UInt8)
      = Spec.bit a 7 ||| Spec.bit b 6 ||| Spec.bit c 5 ||| Spec.bit d 3 ||| Spec.bit e 2 ||| Spec.bit f 1 ||| Spec.bit g 0 := by
  decide +kernel

-- Get Sensor Reading byte 1 ------------------------------------------------------------------------------------
theorem reading1 : ∀ a b c : Bool,
    ((Spec.bit a 7 ||| Spec.bit b 6 ||| Spec.bit c 5) &&& (0x80 : UInt8) != 0) = a ∧
    ((Spec.bit a 7 ||| Spec.bit b 6 ||| Spec.bit c 5) &&& (0x40 : UInt8) != 0) = b ∧
    ((Spec.bit a 7 ||| Spec.bit b 6 ||| Spec.bit c 5) &&& (0x20 : UInt8) != 0) = c := by decide +kernel

-- Full Sensor Record ---------------------------------------------------------------------------------------------
theorem fsr1 : ∀ c : Nat, c < 16 → ∀ l : Nat, l < 4 →
    ((UInt8.ofNat c <<< 4) ||| UInt8.ofNat l) >>> 4 = UInt8.ofNat c ∧
    ((UInt8.ofNat c <<< 4) ||| UInt8.ofNat l) &&& (0x3 : UInt8) = UInt8.ofNat l := by decide +kernel
theorem fsr4 : ∀ s : Bool, ∀ r : Nat, r < 128 →
    ((Spec.bit s 7 ||| UInt8.ofNat r) &&& (0x80 : UInt8) != 0) = s ∧
    (Spec.bit s 7 ||| UInt8.ofNat r) &&& (0x7f : UInt8) = UInt8.ofNat r := by decide +kernel
theorem fsr15a : ∀ f : Nat, f < 4 → ∀ r : Nat, r < 8 → ∀ u : Nat, u < 4 → ∀ p : Bool,
    ((UInt8.ofNat f <<< 6) ||| (UInt8.ofNat r <<< 3) ||| (UInt8.ofNat u <<< 1) ||| Spec.bit p 0) >>> 6 = UInt8.ofNat f ∧
    (((UInt8.ofNat f <<< 6) ||| (UInt8.ofNat r <<< 3) ||| (UInt8.ofNat u <<< 1) ||| Spec.bit p 0) &&& (0x38 : UInt8)) >>> 3
      = UInt8.ofNat r ∧
    (((UInt8.ofNat f <<< 6) ||| (UInt8.ofNat r <<< 3) ||| (UInt8.ofNat u <<< 1) ||| Spec.bit p 0) &&& (1 : UInt8) != 0) = p := by
  decide +kernel
theorem fsr18 : ∀ l : Nat, l < 128 → UInt8.ofNat l &&& (0x7f : UInt8) = UInt8.ofNat l := by decide +kernel
/-- bytes 20 and 22: two bits above six -/
theorem fsr20 : ∀ h : Nat, h < 4 → ∀ t : Nat, t < 64 →
    ((UInt8.ofNat h <<< 6) ||| UInt8.ofNat t) >>> 6 = UInt8.ofNat h ∧
    ((UInt8.ofNat h <<< 6) ||| UInt8.ofNat t) &&& (0x3f : UInt8) = UInt8.ofNat t := by decide +kernel
/-- byte 23 as the decoder takes it apart -/
theorem fsr23 : ∀ u : Nat, u < 16 → ∀ e : Nat, e < 4 → ∀ d : Nat, d < 4 →
    (((UInt8.ofNat u <<< 4) ||| (UInt8.ofNat e <<< 2) ||| UInt8.ofNat d) &&& (0xf0 : UInt8)) >>> 6 = UInt8.ofNat (u / 4) ∧
    (((UInt8.ofNat u <<< 4) ||| (UInt8.ofNat e <<< 2) ||| UInt8.ofNat d) &&& (0xf0 : UInt8)) <<< (2 : UInt8) = UInt8.ofNat (u % 4 * 64) ∧
    (((UInt8.ofNat u <<< 4) ||| (UInt8.ofNat e <<< 2) ||| UInt8.ofNat d) &&& (0xc : UInt8)) >>> 2 = UInt8.ofNat e ∧
    ((UInt8.ofNat u <<< 4) ||| (UInt8.ofNat e <<< 2) ||| UInt8.ofNat d) &&& (0x3 : UInt8) = UInt8.ofNat d := by decide +kernel
/-- accuracy: ls 6 bits `a`, ms 4 bits `u`, reassembled by the decoder into (ms 2 bits, ls 8 bits) -/
theorem accuracy10 : ∀ a : Nat, a < 64 → ∀ u : Nat, u < 16 →
    (twosGo (UInt8.ofNat (u / 4)) (UInt8.ofNat a ||| UInt8.ofNat (u % 4 * 64)) 10).toInt = Spec.twos 10 (a + 64 * u) := by
  decide +kernel
theorem fsr24 : ∀ r : Nat, r < 16 → ∀ b : Nat, b < 16 →
    ((UInt8.ofNat r <<< 4) ||| UInt8.ofNat b) >>> 4 = UInt8.ofNat r ∧
    ((UInt8.ofNat r <<< 4) ||| UInt8.ofNat b) &&& (0xf : UInt8) = UInt8.ofNat b := by decide +kernel
theorem fsr25 : ∀ a b c : Bool,
    ((Spec.bit a 2 ||| Spec.bit b 1 ||| Spec.bit c 0) &&& (1 : UInt8) != 0) = c ∧
    ((Spec.bit a 2 ||| Spec.bit b 1 ||| Spec.bit c 0) &&& (2 : UInt8) != 0) = b ∧
    ((Spec.bit a 2 ||| Spec.bit b 1 ||| Spec.bit c 0) &&& (4 : UInt8) != 0) = a := by decide +kernel
theorem fsr42 : ∀ e : Nat, e < 4 → ∀ n : Nat, n < 32 →
    ((UInt8.ofNat e <<< 6) ||| UInt8.ofNat n) >>> 6 = UInt8.ofNat e ∧
    (((UInt8.ofNat e <<< 6) ||| UInt8.ofNat n) &&& (0x1f : UInt8)).toNat = n := by decide +kernel

end Bmc.Lemmas.Sdr
