import Bmc.Wire.OpenSessionRsp
/-! Refinement of `OpenSessionRsp.decodeGo` to the pure decoder. -/
namespace Bmc.Wire.Setup
open Bmc Bmc.Wire

theorem algOf_take (typ : UInt8) (b : Bytes) (n : Nat) (h : 5 ≤ n) : algOf typ (b.take n) = algOf typ b := by
  simp [algOf, getD_take, show 0 < n by omega, show 3 < n by omega, show 4 < n by omega]

theorem deserialiseAlg_eq (typ : UInt8) (s : GoSlice) (h : s.len = 8) :
    deserialiseAlg typ s = R.ofExcept (algOf typ s.vis) := by
  unfold deserialiseAlg algOf
  have h8 : ¬ s.len < 8 := by omega
  simp -zeta only [h8, if_false]
  simp -zeta (disch := omega) only [GoSlice.idx_ok, R.bind_ok]
  go_round
  go_round
  go_round

theorem OpenSessionRsp.decodeGo_refines (prev : OpenSessionRsp) (d : GoSlice) :
    OpenSessionRsp.decodeGo prev d = R.ofExcept (OpenSessionRsp.decode d.vis) := by
  unfold OpenSessionRsp.decodeGo OpenSessionRsp.decode OpenSessionRsp.tailGo
  simp -zeta only [GoSlice.vis_length]
  by_cases h1 : d.len = 1
  · simp -zeta only [h1, beq_self_eq_true, if_true]
    simp -zeta (disch := omega) only [GoSlice.idx_ok, GoSlice.slice_ok, R.bind_ok]
    cases hs : (List.getD d.vis 0 0 == 0) <;> simp [hs, h1]
  · have h1' : (d.len == 1) = false := by simp [h1]
    simp -zeta only [h1, h1', if_false, Bool.false_eq_true]
    by_cases h7 : d.len < 7
    · simp [h7]
    · simp -zeta only [h7, if_false]
      simp -zeta (disch := omega) only [GoSlice.idx_ok, GoSlice.slice_ok, R.bind_ok]
      cases hs : (List.getD d.vis 1 0 == 0)
      · simp [hs, le32_take]
      · simp -zeta only [hs, if_true]
        by_cases h36 : d.len = 36
        · have h36' : (d.len != 36) = false := by simp [h36]
          simp -zeta only [h36, h36', if_false, Bool.false_eq_true, ne_eq, not_true_eq_false]
          simp -zeta (disch := omega) only [GoSlice.idx_ok, GoSlice.slice_ok, R.bind_ok]
          rw [deserialiseAlg_eq 0 _ (by simp), deserialiseAlg_eq 1 _ (by simp), deserialiseAlg_eq 2 _ (by simp)]
          simp only [GoSlice.sub_vis, algOf_take, Nat.le_refl, Nat.reduceLeDiff, Nat.reduceSub, le32_take,
            List.drop_zero, bne_self_eq_false, Bool.false_eq_true, if_false]
          cases algOf 0 (List.drop 12 d.vis) <;> cases algOf 1 (List.drop 20 d.vis) <;>
            cases algOf 2 (List.drop 28 d.vis) <;> simp
        · have h36' : (d.len != 36) = true := by simp [h36]
          simp [h36, h36']

end Bmc.Wire.Setup
