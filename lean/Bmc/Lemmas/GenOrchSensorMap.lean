import Bmc.Proofs.GenOrch.GetEntityInstances
/-! Helper lemma for `Proofs/GenOrch/GetSensorMap.lean`: the `range entities` loop, one round written out with the
    regenerated `getEntityInstances` as a black box (its equality theorem), against the hand model's `sensorMapLoop`. -/
namespace Bmc.Lemmas.GenOrchDcmi
open Bmc Bmc.GoOrch Bmc.Gen.Orch Bmc.Proto.Enum Bmc.Lemmas.GenOrch
open Bmc.Proofs.GenOrch

/-- one round of the `range entities` loop, written out -/
def smStep (b : TBmc) (junk : List GetDCMISensorInfoReq → GetDCMISensorInfoReq → GetDCMISensorInfoRsp) (fuel : Nat)
    (m : GMap) (e : UInt8) : M St (Step GMap) := do
  modifyCell (fun c => { c with req := { c.req with entity := e } })
  let recordIDs ← dcmi_getEntityInstances fuel (ansOf b junk)
  pure (Step.next (mapSet m e recordIDs))

theorem forEach_smStep (b : TBmc) (junk) (typ : UInt8) (fuel : Nat) (hf : 256 ≤ fuel) :
    ∀ (es : List UInt8) (m : GMap) (log : List GetDCMISensorInfoReq) (cmd : GetDCMISensorInfoCmd), cmd.req.type_ = typ →
    ((forEach es (smStep b junk fuel) m (log, cmd)).1.map viewMap
        = RF.lift (sensorMapLoop (handOf b typ) (es.map (·.toNat)) (viewMap m)).2) ∧
    (forEach es (smStep b junk fuel) m (log, cmd)).2.1.map viewReq
        = log.map viewReq ++ (sensorMapLoop (handOf b typ) (es.map (·.toNat)) (viewMap m)).1 ∧
    (forEach es (smStep b junk fuel) m (log, cmd)).2.2.req.type_ = typ ∧
    ((m.map (·.1)).Nodup → ∀ g, (forEach es (smStep b junk fuel) m (log, cmd)).1 = .ok g → (g.map (·.1)).Nodup) := by
  intro es
  induction es with
  | nil => intro m log cmd ht; simp [forEach_nil, sensorMapLoop, RF.map, ht]
  | cons e es ih =>
    intro m log cmd ht
    rw [forEach_cons]
    simp only [List.map_cons, sensorMapLoop]
    have key := getEntityInstances_gen_eq b junk typ e fuel hf log { cmd with req := { cmd.req with entity := e } } ht rfl
    have hs : smStep b junk fuel m e (log, cmd) = M.cont (fun recordIDs => pure (Step.next (mapSet m e recordIDs)))
        (dcmi_getEntityInstances fuel (ansOf b junk) (log, { cmd with req := { cmd.req with entity := e } })) := by
      simp only [smStep]; orch_simp
    rw [hs]
    generalize dcmi_getEntityInstances fuel (ansOf b junk) (log, { cmd with req := { cmd.req with entity := e } }) = r at key ⊢
    obtain ⟨r1, log', cmd'⟩ := r
    obtain ⟨k1, k2, k3, _⟩ := key
    simp only at k1 k2 k3
    have hres := Lemmas.Enum.entityInstances_res (handOf b typ) e.toNat
    generalize hh : entityInstances (handOf b typ) e.toNat = h at k1 k2 hres
    obtain ⟨l1, hr⟩ := h
    have hnp : hr ≠ .panic ∧ hr ≠ .overread := by
      rcases hres with h | ⟨_, h⟩ <;> simp only at h <;> subst h <;> simp
    cases r1 with
    | ok a =>
      cases hr <;> simp [RF.map] at k1
      subst k1
      simp only [cont_ok, pure_apply]
      have := ih (mapSet m e a) log' cmd' k3
      rw [viewMap_mapSet] at this
      obtain ⟨i1, i2, i3, i4⟩ := this
      refine ⟨i1, ?_, i3, fun hn => i4 (keys_mapSet m e a hn)⟩
      rw [i2, k2]; simp
    | err => cases hr <;> simp [RF.map] at k1; simp [RF.map, k2, k3]
    | panic => cases hr <;> simp [RF.map] at k1 hnp
    | overread => cases hr <;> simp [RF.map] at k1 hnp
    | outOfFuel => cases hr <;> simp [RF.map] at k1

end Bmc.Lemmas.GenOrchDcmi
