import Bmc.Lemmas.SessionProps
import Bmc.Lemmas.V2Refine
import Bmc.Lemmas.AesRefine
/-! Inversion lemmas: what must have been true of a datagram for the receive chain to reach the message layer. -/
namespace Bmc.Proto
open Bmc Bmc.Wire Bmc.Crypto

/-- a wrapper that decoded with the authenticated flag set carries, as its trailing bytes, exactly the integrity
    function of everything before them -/
theorem V2Session.decode_sig (mac : Bytes → Bytes) (b : Bytes) (v : V2Session) (h : V2Session.decode mac b = .ok v)
    (ha : v.authenticated = true) :
    ∃ off, off ≤ b.length ∧ v.signature = b.drop off ∧ b.drop off = mac (b.take off) := by
  unfold V2Session.decode at h
  simp only [] at h
  repeat' split at h
  all_goals first
    | (cases h; done)
    | (injection h with h; subst h; simp_all; done)
    | (injection h with h; subst h; exact ⟨_, by omega, rfl, by simp_all⟩)

/-- reaching the message layer means: RMCP decoded, the session wrapper decoded under the session's integrity
    function, and — when flagged encrypted — the confidentiality layer decoded under K2 -/
theorem onReply_message_inv (C : Ops) (s : Sess) (d : GoSlice) (v2 : V2Session) (msg : Message)
    (h : view (onReply C s d) = (.message, some (v2, msg))) :
    ∃ r p, RMCP.decodeGo s.rmcp d = .ok (r, p) ∧
      V2Session.decodeGo (integMac C s.integ s.k1) s.v2 p = .ok v2 ∧
      (v2.encrypted = true → ∃ a, AESLayer.decodeGo C s.k2 true {} (GoSlice.ofBytes v2.payload) = .ok a) := by
  unfold onReply at h
  split at h
  · simp [view] at h
  · simp [view] at h
  · simp [view] at h
  · rename_i r p hr
    refine ⟨r, p, hr, ?_⟩
    repeat' split at h
    all_goals (try (simp [view] at h))
    rename_i v hv
    unfold onWrapper at h
    repeat' split at h
    all_goals (try (simp [view] at h))
    · -- encrypted, AES ok
      rename_i henc a ha
      have hm := h
      unfold onMessage at hm
      repeat' split at hm
      all_goals (try (simp [view] at hm))
      obtain ⟨rfl, _⟩ := hm
      exact ⟨hv, fun _ => ⟨a, ha⟩⟩
    · rename_i henc
      have hm := h
      unfold onMessage at hm
      repeat' split at hm
      all_goals (try (simp [view] at hm))
      obtain ⟨rfl, _⟩ := hm
      refine ⟨hv, fun he => ?_⟩
      simp [he] at henc

end Bmc.Proto
