import Bmc.Lemmas.Api
import Bmc.Lemmas.SessionlessSpec
import Bmc.Lemmas.RequestsPacket
/-! COMPLETENESS of the session-less receive path (the counterpart of `Lemmas/ResponseAccepted.lean`): the datagram a
    conforming BMC builds in answer to a command sent outside a session — the response message in plaintext inside the
    null session wrapper (RMCP+ format, payload type IPMI, neither encrypted nor authenticated) — decodes through the
    whole chain and is classified as the command's final response (or, for the two temporary codes, as a retry).
    Then: the session-less API call on such a datagram. -/
namespace Bmc.Proto
open Bmc Bmc.Wire Bmc.Crypto

/-- the wrapper of a session-less response; a conforming BMC uses session ID 0 and sequence number 0, the console
    accepts whatever these two fields hold -/
def slResponseWrapper (sid seq : Nat) : V2Session := { payloadType := 0, id := sid, sequence := seq }

/-- the whole datagram: RMCP header (version 6, no ACK, class IPMI) + plain wrapper + response message -/
def slResponseDatagramWith (sid seq : Nat) (c : Cmd) (cc : UInt8) (data : Bytes) : Bytes :=
  [6, 0, 0xFF, 7] ++ (V2Session.encode (fun _ => []) (slResponseWrapper sid seq) (responseBytes c cc data)).2

/-- … with the null session: what the specification prescribes outside a session -/
def slResponseDatagram (c : Cmd) (cc : UInt8) (data : Bytes) : Bytes := slResponseDatagramWith 0 0 c cc data

/-- the chain on a conforming session-less response: every layer decodes, the message layer holds the response -/
theorem slOnReply_response (l : SlLayers) (sid seq : Nat) (c : Cmd) (cc : UInt8) (data : Bytes)
    (hm : (responseMsg c cc).WF) (hsid : sid < 4294967296) (hseq : seq < 4294967296)
    (hlen : (responseBytes c cc data).length < 65536) :
    ∃ r v2 msg, slOnReply l (GoSlice.ofBytes (slResponseDatagramWith sid seq c cc data)) = ({ rmcp := r, v2 := v2, msg := msg }, .message) ∧
      msg.function = c.fn + 1 ∧ msg.command = c.cmd ∧ msg.body = c.body ∧ msg.enterprise = c.ent ∧
      msg.completionCode = cc ∧ msg.payload = data := by
  have hwf : (slResponseWrapper sid seq).WF (responseBytes c cc data) :=
    ⟨by show (0 : UInt8).toNat < 64; decide, hsid, hseq, hlen, by show (0 : Nat) < 4294967296; omega,
     by show (0 : Nat) < 65536; omega, fun _ => ⟨rfl, rfl⟩, fun _ => ⟨rfl, rfl⟩⟩
  have hv2 := V2Session.decode_encode (fun _ => []) (slResponseWrapper sid seq) (responseBytes c cc data) hwf
  obtain ⟨hhead, hpos⟩ := v2_encode_head (fun _ => []) (slResponseWrapper sid seq) (responseBytes c cc data)
  have hmsg := Message.decode_encode (responseMsg c cc) data hm
  have hmpos := message_encode_pos (responseMsg c cc) data
  unfold slOnReply slResponseDatagramWith
  rw [rmcp_decode]
  simp only []
  generalize hrest : (V2Session.encode (fun _ => []) (slResponseWrapper sid seq) (responseBytes c cc data)).2 = rest at *
  have hvis : ((GoSlice.ofBytes ([6, 0, 0xFF, 7] ++ rest)).sub 4 (rest.length + 4) (by omega) (by simp)).vis = rest := by
    simp
  have hl : ((GoSlice.ofBytes ([6, 0, 0xFF, 7] ++ rest)).sub 4 (rest.length + 4) (by omega) (by simp)).len = rest.length := by
    simp
  rw [V2Session.decodeGo_refines, hvis, hl, hv2]
  have h0 : (rest.length == 0) = false := by simp only [beq_eq_false_iff_ne, ne_eq]; omega
  have h6 : (rest.getD 0 0 != 6) = false := by rw [hhead]; rfl
  have h7 : ((7 : UInt8) != 7) = false := rfl
  have hne : (responseBytes c cc data).isEmpty = false := by
    cases h : responseBytes c cc data with
    | nil => rw [responseBytes] at h; rw [h] at hmpos; simp at hmpos
    | cons _ _ => rfl
  have hpt : ((V2Session.encode (fun _ => []) (slResponseWrapper sid seq) (responseBytes c cc data)).1.payloadType != 0) = false := by
    simp [V2Session.encode, slResponseWrapper]
  have henc : (V2Session.encode (fun _ => []) (slResponseWrapper sid seq) (responseBytes c cc data)).1.encrypted = false := by
    simp [V2Session.encode, slResponseWrapper]
  simp only [h0, h6, h7, Bool.false_eq_true, if_false, R.ofExcept_ok, hne, hpt, henc]
  rw [Message.decodeGo_refines, GoSlice.vis_ofBytes, responseBytes, hmsg]
  simp only [R.ofExcept_ok]
  exact ⟨_, _, _, rfl, rfl, rfl, rfl, rfl, rfl, rfl⟩

/-- classification of a conforming session-less response: final with its completion code and body, unless the code
    is one of the two temporary ones -/
theorem slClassify_response_with (sid seq : Nat) (c : Cmd) (cc : UInt8) (data : Bytes) (hm : (responseMsg c cc).WF)
    (hsid : sid < 4294967296) (hseq : seq < 4294967296) (hlen : (responseBytes c cc data).length < 65536) :
    slClassify c (slResponseDatagramWith sid seq c cc data) = if isTemp cc then .retry else .final cc data := by
  obtain ⟨r, v2, msg, h, hf, hcmd, hb, he, hcc, hp⟩ := slOnReply_response {} sid seq c cc data hm hsid hseq hlen
  unfold slClassify
  rw [h]
  simp only [slView, if_true]
  have hacc : slAcceptable c msg = true := by simp [slAcceptable, hf, hcmd, hb, he]
  rw [hacc, hcc, hp]
  cases isTemp cc <;> simp

theorem slClassify_response (c : Cmd) (cc : UInt8) (data : Bytes) (hm : (responseMsg c cc).WF)
    (hlen : (responseBytes c cc data).length < 65536) :
    slClassify c (slResponseDatagram c cc data) = if isTemp cc then .retry else .final cc data :=
  slClassify_response_with 0 0 c cc data hm (by omega) (by omega) hlen

/-- the one datagram a session-less command transmits is the library's session-less packet around the request
    (`Wire/Requests.lean`: the object of the C06 parsing theorems) -/
theorem slSerialize_packet (c : Cmd) :
    (slSerialize c).2 =
      Req.packetSessionless { function := c.fn, body := c.body, enterprise := c.ent, command := c.cmd } c.lun c.req := by
  unfold slSerialize slInit Req.packetSessionless Req.messageLayer Req.rmcpLayer
  simp only [Req.addresses.1, Req.addresses.2]

/-- a session-less command answered at once by a conforming response: one transmission, that code and body -/
theorem slSend_response (c : Cmd) (hf : c.reqFails = false) (sid seq : Nat) (cc : UInt8) (data : Bytes) (rest : List Outcome)
    (hm : (responseMsg c cc).WF) (hsid : sid < 4294967296) (hseq : seq < 4294967296)
    (hlen : (responseBytes c cc data).length < 65536) (hnt : isTemp cc = false) :
    slSend c (.reply (slResponseDatagramWith sid seq c cc data) :: rest) = ([(slSerialize c).2], .ok cc data) := by
  unfold slSend
  simp only [hf, Bool.false_eq_true, if_false]
  have h := slLoop_spec c (slSerialize c).2 (slSerialize c).1 (.reply (slResponseDatagramWith sid seq c cc data) :: rest)
  simp only [slExpected, slClassify_response_with sid seq c cc data hm hsid hseq hlen, hnt, Bool.false_eq_true, if_false,
    List.replicate_one] at h
  exact Prod.ext h.2 h.1

/-- the session-less API call on a conforming response datagram -/
theorem slCall_response (call : Call) (hreq : call ≠ .setSessionPrivilegeLevel 1) (sid seq : Nat) (cc : UInt8) (body : Bytes)
    (rest : List Outcome) (hsid : sid < 4294967296) (hseq : seq < 4294967296) (hb : body.length ≤ 65000) (hnt : isTemp cc = false) :
    slCall call (.reply (slResponseDatagramWith sid seq call.cmd cc body) :: rest) =
      ([Req.packetSessionless call.wire.operation (call.wire.lun 0) call.cmd.req], call.finish cc body) := by
  have hf : call.cmd.reqFails = false := by
    show (call.cmdFor 0).reqFails = false; rw [cmdFor_reqFails]; simp [hreq]
  have hlen : (responseBytes call.cmd cc body).length < 65536 := by
    have := message_encode_length_le (responseMsg call.cmd cc) body
    unfold responseBytes; omega
  unfold slCall
  rw [slSend_response call.cmd hf sid seq cc body rest (call_responseMsg_wf call 0 cc) hsid hseq hlen hnt, slSerialize_packet]
  rfl

/-- SOUNDNESS for every script: a value is handed to the caller of a session-less call only from a reply of the
    script that decodes to a response to this very command with completion code 00h and a body the call's response
    layer decodes to exactly that value -/
theorem slCall_ok_inv (call : Call) (script : List Outcome) (v : Value) (h : (slCall call script).2 = .ok v) :
    ∃ d msg, Outcome.reply d ∈ script ∧ slView (slOnReply {} (GoSlice.ofBytes d)) = (.message, some msg) ∧
      slAcceptable call.cmd msg = true ∧ msg.completionCode = 0 ∧ call.decodeBody msg.payload = .ok v := by
  unfold slCall at h
  simp only at h
  cases hr : (slSend call.cmd script).2 with
  | ok cc p =>
    rw [hr] at h
    simp only [apiRes] at h
    obtain ⟨hcc, hdec⟩ := finish_ok_inv call cc p v h
    unfold slSend at hr
    by_cases hf : call.cmd.reqFails = true
    · simp [hf] at hr
    · simp only [hf, Bool.false_eq_true, if_false] at hr
      rw [(slLoop_spec call.cmd _ _ script).1] at hr
      obtain ⟨d, hm, hc⟩ := slExpected_ok_inv _ _ _ _ hr
      unfold slClassify at hc
      generalize hvw : slView (slOnReply {} (GoSlice.ofBytes d)) = vw at hc
      obtain ⟨how, o⟩ := vw
      cases how <;> cases o <;> simp at hc
      rename_i msg
      split at hc
      · rename_i hacc
        simp at hc
        exact ⟨d, msg, hm, hvw, hacc.1, by rw [hc.1, hcc], by rw [hc.2]; exact hdec⟩
      · simp at hc
  | transportErr => rw [hr] at h; simp [apiRes] at h
  | serializeErr => rw [hr] at h; simp [apiRes] at h
  | ctxExpired => rw [hr] at h; simp [apiRes] at h
  | crashed => rw [hr] at h; simp [apiRes] at h

end Bmc.Proto
