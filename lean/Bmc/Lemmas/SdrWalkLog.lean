import Bmc.Proto.SdrWalk
/-! Helper lemmas for C14, part 5 (any BMC at all — no assumption on the answer function): a walk that returns a map has
    seen every one of its Get SDR requests complete normally; how one run of the retried closure and the retry loop
    treat a failed walk and a newer timestamp. -/
namespace Bmc.Lemmas.SdrWalk
open Bmc Bmc.Wire Bmc.Proto.SdrWalk

variable {σ : Type}

theorem call_logged {α : Type} (a : Answer σ) (dec : Bytes → R α) (s : σ) (l : List (Req × Option Rsp)) (q : Req) :
    call (logged a) dec (s, l) q = (((a s q).1, l ++ [(q, (a s q).2)]), (call a dec s q).2) := by
  unfold call logged
  simp only
  cases h : (a s q).2 with
  | none =>
    have : a s q = ((a s q).1, none) := by rw [← h]
    rw [this]
  | some r =>
    have : a s q = ((a s q).1, some r) := by rw [← h]
    rw [this]
    simp only
    cases dec r.data <;> simp only
    split <;> rfl

/-- a call that produced a value saw the BMC answer with completion code 00h -/
theorem call_some {α : Type} (a : Answer σ) (dec : Bytes → R α) (s : σ) (q : Req) (v : α)
    (h : (call a dec s q).2 = some v) : ∃ r, (a s q).2 = some r ∧ r.cc = 0 := by
  unfold call at h
  cases h2 : (a s q).2 with
  | none =>
    have : a s q = ((a s q).1, none) := by rw [← h2]
    rw [this] at h
    simp at h
  | some r =>
    have : a s q = ((a s q).1, some r) := by rw [← h2]
    rw [this] at h
    simp only at h
    refine ⟨r, rfl, ?_⟩
    cases hd : dec r.data with
    | ok v' =>
      rw [hd] at h
      simp only at h
      split at h
      · assumption
      · simp at h
    | err => rw [hd] at h; simp at h
    | panic => rw [hd] at h; simp at h
    | overread => rw [hd] at h; simp at h

theorem good_of_some (q : Req) (o : Option Rsp) (r : Rsp) (h : o = some r) (hc : r.cc = 0) : badGetSDR (q, o) = false := by
  subst h
  simp [badGetSDR, hc]

/-- every Get SDR of a walk that ended normally completed normally -/
theorem walkLoop_log (k : Bool) (a : Answer σ) (fuel : Nat) :
    ∀ (s : σ) (l : List (Req × Option Rsp)) (resv id : Nat) (m : SDRRepository) (s' : σ) (l' : List (Req × Option Rsp))
      (m' : SDRRepository),
    walkLoop k (logged a) fuel (s, l) resv id m = ((s', l'), .ok m') →
    ∃ new, l' = l ++ new ∧ ∀ e ∈ new, badGetSDR e = false := by
  induction fuel with
  | zero => intro s l resv id m s' l' m' h; simp [walkLoop] at h
  | succ n ih =>
    intro s l resv id m s' l' m' h
    rw [walkLoop] at h
    split at h
    · simp only [Prod.mk.injEq, Res.ok.injEq] at h
      exact ⟨[], by simp [h.1.2.symm], by simp⟩
    · rw [call_logged] at h
      cases ho : (call a GetSDRRsp.decode s (.getSDR resv id 0 5)).2 with
      | none => rw [ho] at h; simp at h
      | some hdr =>
        obtain ⟨r1, hr1, hc1⟩ := call_some a _ s _ hdr ho
        have g1 := good_of_some (.getSDR resv id 0 5) _ r1 hr1 hc1
        rw [ho] at h
        simp only at h
        cases hh : SDRHeader.decodeGo {} (GoSlice.ofBytes hdr.payload) with
        | ok header =>
          rw [hh] at h
          simp only at h
          split at h
          · split at h
            · simp at h
            · rw [call_logged] at h
              cases ho2 : (call a GetSDRRsp.decode (a s (.getSDR resv id 0 5)).1 (.getSDR resv id 5 header.length.toNat)).2 with
              | none => rw [ho2] at h; simp at h
              | some body =>
                obtain ⟨r2, hr2, hc2⟩ := call_some a _ _ _ body ho2
                have g2 := good_of_some (.getSDR resv id 5 header.length.toNat) _ r2 hr2 hc2
                rw [ho2] at h
                simp only at h
                cases hf : FullSensorRecord.decodeGo {} (GoSlice.ofBytes body.payload) with
                | ok fsr =>
                  rw [hf] at h
                  simp only at h
                  obtain ⟨new, hn, hg⟩ := ih _ _ _ _ _ _ _ _ h
                  refine ⟨[(Req.getSDR resv id 0 5, (a s (.getSDR resv id 0 5)).2),
                    (Req.getSDR resv id 5 header.length.toNat,
                      (a (a s (.getSDR resv id 0 5)).1 (.getSDR resv id 5 header.length.toNat)).2)] ++ new,
                    by rw [hn]; simp, ?_⟩
                  intro e he
                  simp only [List.cons_append, List.nil_append, List.mem_cons] at he
                  rcases he with rfl | rfl | he
                  · exact g1
                  · exact g2
                  · exact hg e he
                | err => rw [hf] at h; simp at h
                | panic => rw [hf] at h; simp at h
                | overread => rw [hf] at h; simp at h
          · obtain ⟨new, hn, hg⟩ := ih _ _ _ _ _ _ _ _ h
            refine ⟨[(Req.getSDR resv id 0 5, (a s (.getSDR resv id 0 5)).2)] ++ new, by rw [hn]; simp, ?_⟩
            intro e he
            simp only [List.cons_append, List.nil_append, List.mem_cons] at he
            rcases he with rfl | he
            · exact g1
            · exact hg e he
        | err => rw [hh] at h; simp at h
        | panic => rw [hh] at h; simp at h
        | overread => rw [hh] at h; simp at h

theorem walk_log (k : Bool) (a : Answer σ) (fuel : Nat) (s s' : σ) (l' : List (Req × Option Rsp)) (m' : SDRRepository)
    (h : walk k (logged a) fuel (s, []) = ((s', l'), .ok m')) : ∀ e ∈ l', badGetSDR e = false := by
  unfold walk at h
  rw [call_logged] at h
  cases ho : (call a ReserveRsp.decode s .reserve).2 with
  | none => rw [ho] at h; simp at h
  | some r =>
    rw [ho] at h
    simp only at h
    obtain ⟨new, hn, hg⟩ := walkLoop_log k a fuel _ _ _ _ _ _ _ _ h
    intro e he
    rw [hn] at he
    simp only [List.nil_append, List.cons_append, List.mem_cons] at he
    rcases he with rfl | he
    · rfl
    · exact hg e he

end Bmc.Lemmas.SdrWalk
