import Bmc.Lemmas.GenLoops
import Bmc.Lemmas.SessionSpec
import Bmc.Lemmas.AcceptInv
import Bmc.Lemmas.GenLoopsBounds
/-! The regenerated `V2Session.buildAndSend` (`Gen/Loops.lean`) instantiated with the pieces of the hand model of the in-session
    send loop (`Proto/Session.lean`): `gopacket.SerializeLayers` := the model's packet builder (`Message.encode`, `AESLayer.encode`,
    `V2Session.encode`, `RMCP.encode` — what `Proto.attempt` composes) on the field values the layer structs hold, one IV of the
    script per call; the connection's decoder := the `view` of the model's `onReply` (verdict, session wrapper, message — a
    function of the keys and the datagram, `onReply_view`); the transport := the outcome script.
    One run of the retry closure is then computed case by case (`step_*`). -/
namespace Bmc.Lemmas.GenLoops
open Bmc Bmc.Wire Bmc.Crypto Bmc.Proto Bmc.GoOrch Bmc.GoLoops Bmc.Gen.Loops

-- what the decoders produce fits the fixed-width fields --------------------------------------------------------------------------
theorem le32_lt (b : Bytes) : Wire.le32 b < 4294967296 := by
  unfold Wire.le32
  have h0 := (b.getD 0 0).toNat_lt
  have h1 := (b.getD 1 0).toNat_lt
  have h2 := (b.getD 2 0).toNat_lt
  have h3 := (b.getD 3 0).toNat_lt
  omega

theorem v2_decode_id_lt (mac : Bytes → Bytes) (b : Bytes) (v : V2Session) (h : V2Session.decode mac b = .ok v) : v.id < 4294967296 := by
  unfold V2Session.decode at h
  simp only [] at h
  repeat' split at h
  all_goals first
    | (cases h; done)
    | (injection h with h; subst h; exact le32_lt _)

theorem onMessage_inv (s : Sess) (mi : GoSlice) (v2 : V2Session) (msg : Message) (h : view (onMessage s mi) = (.message, some (v2, msg))) :
    Message.decodeGo 8 s.msg mi = .ok msg := by
  unfold onMessage at h
  repeat' split at h
  all_goals (try (simp [view] at h))
  rename_i m hm
  rw [hm, h.2]

theorem onReply_message_msg (C : Ops) (s : Sess) (d : GoSlice) (v2 : V2Session) (msg : Message)
    (h : view (onReply C s d) = (.message, some (v2, msg))) : ∃ s' mi, Message.decodeGo 8 s' mi = .ok msg := by
  unfold onReply at h
  repeat' split at h
  all_goals (try (simp [view] at h; done))
  unfold onWrapper at h
  repeat' split at h
  all_goals (try (simp [view] at h; done))
  all_goals exact ⟨_, _, onMessage_inv _ _ _ _ h⟩

/-- a session ID and an enterprise number that were decoded fit 32 bits -/
theorem view_bounds (C : Ops) (s : Sess) (d : GoSlice) (v2 : V2Session) (msg : Message)
    (h : view (onReply C s d) = (.message, some (v2, msg))) : v2.id < 4294967296 ∧ msg.enterprise < 4294967296 := by
  constructor
  · obtain ⟨r, p, _, hv, _⟩ := onReply_message_inv C s d v2 msg h
    rw [V2Session.decodeGo_refines] at hv
    cases hd : V2Session.decode (integMac C s.integ s.k1) p.vis with
    | error e => rw [hd] at hv; simp [R.ofExcept] at hv
    | ok v => rw [hd] at hv; simp [R.ofExcept] at hv; subst hv; exact v2_decode_id_lt _ _ _ hd
  · obtain ⟨prev, mi, hm⟩ := onReply_message_msg C s d v2 msg h
    exact msg_decodeGo_ent_lt _ _ _ hm

-- the instantiation ---------------------------------------------------------------------------------------------------------------
/-- the read-only fields of the session: 1 stands for the keyed integrity algorithm (nil when none was negotiated), 2 for the
    confidentiality layer, 3 for its layer type -/
def sessConsts (k : Keys) : V2SessionConsts :=
  { remoteID := UInt32.ofNat k.remoteID, localID := UInt32.ofNat k.localID
    integrityAlgorithm := if k.integ == 0 then 0 else 1, confidentialityLayer := 2, confidentialityLayer_LayerType := 3 }

/-- the layer structs after a successful serialisation (SerializeTo assigns checksums, length, pad and signature) … -/
def serLayers (C : Ops) (k : Keys) (c : Cmd) (iv : Bytes) (L : Layers) : Layers :=
  let mm := Message.encode (msgTo L.message) c.req
  let ab := AESLayer.encode C k.k2 iv mm.2
  let vv := V2Session.encode (integMac C k.integ k.k1) (v2To L.v2Session) ab
  { L with message := msgOf mm.1, v2Session := v2Of vv.1 L.v2Session.integrityAlgorithm L.v2Session.confidentialityLayerType }
/-- … and the datagram: the model's encoders composed as in `Proto.attempt`, on the values the layer structs hold -/
def serBytes (C : Ops) (k : Keys) (c : Cmd) (iv : Bytes) (L : Layers) : Bytes :=
  let mm := Message.encode (msgTo L.message) c.req
  let ab := AESLayer.encode C k.k2 iv mm.2
  let vv := V2Session.encode (integMac C k.integ k.k1) (v2To L.v2Session) ab
  RMCP.encode (rmcpTo L.rmcp) ++ vv.2

/-- `gopacket.SerializeLayers(buffer, serializeOptions, &rmcp, &v2session, confidentialityLayer, &message, request)`: an error
    unless these are the layers, in this order, with the session's integrity algorithm and confidentiality layer type in the
    wrapper, the library's options, and a request that serialises (`reqFails`); consumes one IV -/
def sessSerialize (C : Ops) (k : Keys) (c : Cmd) (w : SW) (o : SerializeOptions) (L : Layers) (args : List LayerArg) :
    SW × Layers × Bytes × Bool :=
  if o = { fixLengths := true, computeChecksums := true } ∧
     args = [.rmcp, .v2Session, .iface 2, .message, .iface 4] ∧
     L.v2Session.integrityAlgorithm = (sessConsts k).integrityAlgorithm ∧ L.v2Session.confidentialityLayerType = 3 ∧
     c.reqFails = false then
    ({ w with ivs := w.ivs.tail }, serLayers C k c (w.ivs.headD []) L, serBytes C k c (w.ivs.headD []) L, true)
  else (w, L, [], false)

/-- the connection's decoder: the view of the model's `onReply` — a layer panicked / returned an error / the chain ended before
    the message layer / it reached it, leaving this wrapper and this message in the layer structs -/
def sessDecode (C : Ops) (k : Keys) (L : Layers) (_t : Decoded) (d : Bytes) : Layers × Decoded × DecodeOutcome :=
  match view (onReply C k.sess (GoSlice.ofBytes d)) with
  | (.crash, _) => (L, .crash, .panic)
  | (.fail, _) => (L, .fail, .err)
  | (.message, some (v2, msg)) =>
    ({ L with v2Session := v2Of v2 (sessConsts k).integrityAlgorithm 3, message := msgOf msg }, .message, .ok)
  | _ => (L, .notMessage, .ok)

def sessWorld (C : Ops) (k : Keys) (c : Cmd) (bodyDecodes : Bytes → Bool) : World SW Decoded :=
  { serializeLayers := sessSerialize C k c
    transportSend := SW.send
    decode := sessDecode C k
    innermostEquals := fun t ty => t == .message && ty == .ipmi_LayerTypeMessage
    backoffWait := SW.wait
    decodeFromBytes := fun _ p => bodyDecodes p }

theorem sessSerialize_ok (C : Ops) (k : Keys) (c : Cmd) (hf : c.reqFails = false) (w : SW) (L : Layers)
    (hI : L.v2Session.integrityAlgorithm = (sessConsts k).integrityAlgorithm) (hC : L.v2Session.confidentialityLayerType = 3) :
    sessSerialize C k c w { fixLengths := true, computeChecksums := true } L [.rmcp, .v2Session, .iface 2, .message, .iface 4]
      = ({ w with ivs := w.ivs.tail }, serLayers C k c (w.ivs.headD []) L, serBytes C k c (w.ivs.headD []) L, true) := by
  simp [sessSerialize, hf, hI, hC]

theorem sessSerialize_fail (C : Ops) (k : Keys) (c : Cmd) (hf : c.reqFails = true) (w : SW) (o : SerializeOptions) (L : Layers)
    (args : List LayerArg) : sessSerialize C k c w o L args = (w, L, [], false) := by
  simp [sessSerialize, hf]

/-- the layer structs as the closure builds them at the head of every attempt (the three struct literals and the sequence number) -/
def sessLit (k : Keys) (c : Cmd) (name : String) (rsp : Opaque) (inb : UInt32) : Layers :=
  { rmcp := { version := 6, sequence := 255, class_ := 7 },
    v2Session := { payloadDescriptor := ipmi_PayloadDescriptorIPMI, encrypted := true, authenticated := true,
                   id := (sessConsts k).remoteID, sequence := inb + 1,
                   integrityAlgorithm := (sessConsts k).integrityAlgorithm,
                   confidentialityLayerType := (sessConsts k).confidentialityLayer_LayerType },
    message := { operation := (cmdOf c name rsp).operation,
                 remoteAddress := { toBitVec := Gen.slaveAddress (UInt8.toBitVec 16) },
                 remoteLUN := (cmdOf c name rsp).remoteLUN,
                 localAddress := { toBitVec := Gen.swidAddress (UInt8.toBitVec 64) }, sequence := 1 } }

theorem sessDecode_crash (C : Ops) (k : Keys) (L : Layers) (t : Decoded) (d : Bytes)
    (hv : (view (onReply C k.sess (GoSlice.ofBytes d))).1 = .crash) : sessDecode C k L t d = (L, .crash, .panic) := by
  unfold sessDecode
  generalize view (onReply C k.sess (GoSlice.ofBytes d)) = vw at hv
  obtain ⟨how, o⟩ := vw
  simp only at hv; subst hv; rfl

theorem sessDecode_fail (C : Ops) (k : Keys) (L : Layers) (t : Decoded) (d : Bytes)
    (hv : (view (onReply C k.sess (GoSlice.ofBytes d))).1 = .fail) : sessDecode C k L t d = (L, .fail, .err) := by
  unfold sessDecode
  generalize view (onReply C k.sess (GoSlice.ofBytes d)) = vw at hv
  obtain ⟨how, o⟩ := vw
  simp only at hv; subst hv; rfl

theorem sessDecode_notMessage (C : Ops) (k : Keys) (L : Layers) (t : Decoded) (d : Bytes)
    (hv : (view (onReply C k.sess (GoSlice.ofBytes d))).1 = .notMessage) : sessDecode C k L t d = (L, .notMessage, .ok) := by
  unfold sessDecode
  generalize view (onReply C k.sess (GoSlice.ofBytes d)) = vw at hv
  obtain ⟨how, o⟩ := vw
  simp only at hv; subst hv; rfl

theorem sessDecode_message (C : Ops) (k : Keys) (L : Layers) (t : Decoded) (d : Bytes) (v2 : V2Session) (msg : Message)
    (hv : view (onReply C k.sess (GoSlice.ofBytes d)) = (.message, some (v2, msg))) :
    sessDecode C k L t d = ({ L with v2Session := v2Of v2 (sessConsts k).integrityAlgorithm 3, message := msgOf msg }, .message, .ok) := by
  unfold sessDecode
  rw [hv]

theorem innermost_notMessage (C : Ops) (k : Keys) (c : Cmd) (bd : Bytes → Bool) :
    innermostEquals (sessWorld C k c bd) Decoded.notMessage LayerTy.ipmi_LayerTypeMessage = some GoErr.innermost := rfl
theorem innermost_message (C : Ops) (k : Keys) (c : Cmd) (bd : Bytes → Bool) :
    innermostEquals (sessWorld C k c bd) Decoded.message LayerTy.ipmi_LayerTypeMessage = none := rfl

section steps
variable (C : Ops) (k : Keys) (c : Cmd) (bd : Bytes → Bool) (name : String) (rsp : Opaque)

/-- the request does not serialise: terminal, nothing consumed -/
theorem step_serfail (hf : c.reqFails = true) (first : Bool) (w : SW) (K : Conn Decoded) :
    obs (V2Session_buildAndSend_func1 (sessWorld C k c bd) (sessConsts k) (cmdOf c name rsp) (first, none) (w, K))
      = (.ok ((false, some .serialize), none), w, K.inbound, K.events ++ pre first) := by
  simp only [V2Session_buildAndSend_func1]
  cases first
  all_goals
    loop_simp
    rw [serializeLayers_eq (h := sessSerialize_fail C k c hf _ _ _ _)]
    loop_simp
    simp [obs, pre]

/-- the Send fails (a lost reply; with the script exhausted: the expired context): terminal, the number is consumed -/
theorem step_lost (hf : c.reqFails = false) (first : Bool) (ivs : List Bytes) (rest : List Outcome) (sent : List Bytes)
    (i e : Bool) (K : Conn Decoded) :
    obs (V2Session_buildAndSend_func1 (sessWorld C k c bd) (sessConsts k) (cmdOf c name rsp) (first, none)
          (({ ivs := ivs, script := .lost :: rest, sent := sent, inSend := i, expired := e } : SW), K))
      = (.ok ((false, some .transport), none),
         { ivs := ivs.tail, script := rest, sent := sent ++ [serBytes C k c (ivs.headD []) (sessLit k c name rsp K.inbound)], inSend := i, expired := e },
         K.inbound + 1, K.events ++ pre first) := by
  simp only [V2Session_buildAndSend_func1]
  cases first
  all_goals
    loop_simp
    rw [serializeLayers_eq (h := sessSerialize_ok C k c hf _ _ rfl rfl)]
    loop_simp
    rw [transportSend_eq (h := send_lost ..)]
    loop_simp
    simp only [obs, pre, ↓reduceIte, Bool.false_eq_true, List.append_nil]
    try rfl

theorem step_nil (hf : c.reqFails = false) (first : Bool) (ivs : List Bytes) (sent : List Bytes) (i e : Bool) (K : Conn Decoded) :
    obs (V2Session_buildAndSend_func1 (sessWorld C k c bd) (sessConsts k) (cmdOf c name rsp) (first, none)
          (({ ivs := ivs, script := [], sent := sent, inSend := i, expired := e } : SW), K))
      = (.ok ((false, some .transport), none),
         { ivs := ivs.tail, script := [], sent := sent, inSend := i, expired := true }, K.inbound + 1, K.events ++ pre first) := by
  simp only [V2Session_buildAndSend_func1]
  cases first
  all_goals
    loop_simp
    rw [serializeLayers_eq (h := sessSerialize_ok C k c hf _ _ rfl rfl)]
    loop_simp
    rw [transportSend_eq (r := none) (w1 := { ivs := ivs.tail, script := [], sent := sent, inSend := i, expired := true }) (h := rfl)]
    loop_simp
    simp only [obs, pre, ↓reduceIte, Bool.false_eq_true, List.append_nil]
    try rfl


theorem step_crash (hf : c.reqFails = false) (first : Bool) (ivs : List Bytes) (d : Bytes) (rest : List Outcome) (sent : List Bytes)
    (i e : Bool) (K : Conn Decoded) (hv : (view (onReply C k.sess (GoSlice.ofBytes d))).1 = .crash) :
    obs (V2Session_buildAndSend_func1 (sessWorld C k c bd) (sessConsts k) (cmdOf c name rsp) (first, none)
          (({ ivs := ivs, script := .reply d :: rest, sent := sent, inSend := i, expired := e } : SW), K))
      = (.panic,
         { ivs := ivs.tail, script := rest, sent := sent ++ [serBytes C k c (ivs.headD []) (sessLit k c name rsp K.inbound)], inSend := i, expired := e },
         K.inbound + 1, K.events ++ pre first) := by
  simp only [V2Session_buildAndSend_func1]
  cases first
  all_goals
    loop_simp
    rw [serializeLayers_eq (h := sessSerialize_ok C k c hf _ _ rfl rfl)]
    loop_simp
    rw [transportSend_eq (h := send_reply ..)]
    loop_simp
    rw [decodeLayers_eq (h := sessDecode_crash C k _ K.decoded d hv)]
    loop_simp
    simp only [obs, pre, ↓reduceIte, Bool.false_eq_true, List.append_nil]
    try rfl

theorem step_fail (hf : c.reqFails = false) (first : Bool) (ivs : List Bytes) (d : Bytes) (rest : List Outcome) (sent : List Bytes)
    (i e : Bool) (K : Conn Decoded) (hv : (view (onReply C k.sess (GoSlice.ofBytes d))).1 = .fail) :
    obs (V2Session_buildAndSend_func1 (sessWorld C k c bd) (sessConsts k) (cmdOf c name rsp) (first, none)
          (({ ivs := ivs, script := .reply d :: rest, sent := sent, inSend := i, expired := e } : SW), K))
      = (.ok ((false, none), some .decode),
         { ivs := ivs.tail, script := rest, sent := sent ++ [serBytes C k c (ivs.headD []) (sessLit k c name rsp K.inbound)], inSend := i, expired := e },
         K.inbound + 1, K.events ++ pre first) := by
  simp only [V2Session_buildAndSend_func1]
  cases first
  all_goals
    loop_simp
    rw [serializeLayers_eq (h := sessSerialize_ok C k c hf _ _ rfl rfl)]
    loop_simp
    rw [transportSend_eq (h := send_reply ..)]
    loop_simp
    rw [decodeLayers_eq (h := sessDecode_fail C k _ K.decoded d hv)]
    loop_simp
    simp only [obs, pre, ↓reduceIte, Bool.false_eq_true, List.append_nil]
    try rfl

theorem step_notMessage (hf : c.reqFails = false) (first : Bool) (ivs : List Bytes) (d : Bytes) (rest : List Outcome) (sent : List Bytes)
    (i e : Bool) (K : Conn Decoded) (hv : (view (onReply C k.sess (GoSlice.ofBytes d))).1 = .notMessage) :
    obs (V2Session_buildAndSend_func1 (sessWorld C k c bd) (sessConsts k) (cmdOf c name rsp) (first, none)
          (({ ivs := ivs, script := .reply d :: rest, sent := sent, inSend := i, expired := e } : SW), K))
      = (.ok ((false, none), some .innermost),
         { ivs := ivs.tail, script := rest, sent := sent ++ [serBytes C k c (ivs.headD []) (sessLit k c name rsp K.inbound)], inSend := i, expired := e },
         K.inbound + 1, K.events ++ pre first) := by
  simp only [V2Session_buildAndSend_func1]
  cases first
  all_goals
    loop_simp
    rw [serializeLayers_eq (h := sessSerialize_ok C k c hf _ _ rfl rfl)]
    loop_simp
    rw [transportSend_eq (h := send_reply ..)]
    loop_simp
    rw [decodeLayers_eq (h := sessDecode_notMessage C k _ K.decoded d hv)]
    loop_simp [innermost_notMessage]
    simp only [obs, pre, ↓reduceIte, Bool.false_eq_true, List.append_nil]
    try rfl

/-- the three acceptance checks of the closure on the decoded wrapper and message -/
def accGen (v2 : V2Session) (msg : Message) : Bool :=
  !((sessConsts k).integrityAlgorithm != 0 && !v2.authenticated) && (UInt32.ofNat v2.id == (sessConsts k).localID) &&
  Bmc.Gen.isResponseTo (msgOf msg).operation.function.toBitVec (msgOf msg).operation.body.toBitVec
        (msgOf msg).operation.enterprise.toBitVec (msgOf msg).operation.command.toBitVec
        (cmdOf c name rsp).operation.function.toBitVec (cmdOf c name rsp).operation.body.toBitVec
        (cmdOf c name rsp).operation.enterprise.toBitVec (cmdOf c name rsp).operation.command.toBitVec

theorem step_message (hf : c.reqFails = false) (first : Bool) (ivs : List Bytes) (d : Bytes) (rest : List Outcome) (sent : List Bytes)
    (i e : Bool) (K : Conn Decoded) (v2 : V2Session) (msg : Message)
    (hv : view (onReply C k.sess (GoSlice.ofBytes d)) = (.message, some (v2, msg))) :
    obsM (V2Session_buildAndSend_func1 (sessWorld C k c bd) (sessConsts k) (cmdOf c name rsp) (first, none)
          (({ ivs := ivs, script := .reply d :: rest, sent := sent, inSend := i, expired := e } : SW), K))
      = (if accGen k c name rsp v2 msg then
           (if Bmc.Gen.ccIsTemporary msg.completionCode.toBitVec then .ok ((false, none), some .sentinel) else .ok ((false, none), none))
         else .ok ((false, none), some .errorf),
         { ivs := ivs.tail, script := rest, sent := sent ++ [serBytes C k c (ivs.headD []) (sessLit k c name rsp K.inbound)], inSend := i, expired := e },
         K.inbound + 1,
         K.events ++ pre first ++ (if accGen k c name rsp v2 msg then [Ev.inc "commandResponses" [Label.code msg.completionCode]] else []),
         msgOf msg) := by
  simp only [V2Session_buildAndSend_func1]
  cases first
  all_goals
    loop_simp
    rw [serializeLayers_eq (h := sessSerialize_ok C k c hf _ _ rfl rfl)]
    loop_simp
    rw [transportSend_eq (h := send_reply ..)]
    loop_simp
    rw [decodeLayers_eq (h := sessDecode_message C k _ K.decoded d v2 msg hv)]
    loop_simp [innermost_message]
    unfold accGen
    cases h1 : ((sessConsts k).integrityAlgorithm != 0 && !v2.authenticated) <;>
    cases h2 : (UInt32.ofNat v2.id == (sessConsts k).localID) <;>
    cases h3 : Bmc.Gen.isResponseTo (msgOf msg).operation.function.toBitVec (msgOf msg).operation.body.toBitVec
        (msgOf msg).operation.enterprise.toBitVec (msgOf msg).operation.command.toBitVec
        (cmdOf c name rsp).operation.function.toBitVec (cmdOf c name rsp).operation.body.toBitVec
        (cmdOf c name rsp).operation.enterprise.toBitVec (cmdOf c name rsp).operation.command.toBitVec <;>
    cases h4 : Bmc.Gen.ccIsTemporary msg.completionCode.toBitVec <;>
    (first
      | (have h2' : UInt32.ofNat v2.id = (sessConsts k).localID := by simpa using h2
         loop_simp [v2Of_auth, v2Of_id, msgOf_cc, h1, h2', h3, h4, eq_self, Bool.not_true, Bool.not_false, Bool.and_self, Bool.and_false, Bool.and_true, Bool.true_and, Bool.false_and, obsM, pre, ↓reduceIte, List.append_nil]
         try rfl)
      | (have h2' : ¬ UInt32.ofNat v2.id = (sessConsts k).localID := by simpa using h2
         loop_simp [v2Of_auth, v2Of_id, msgOf_cc, h1, h2', h3, h4, eq_self, Bool.not_true, Bool.not_false, Bool.and_self, Bool.and_false, Bool.and_true, Bool.true_and, Bool.false_and, obsM, pre, ↓reduceIte, List.append_nil]
         try rfl))
end steps

theorem sessLit_rmcp (k : Keys) (c : Cmd) (name : String) (rsp : Opaque) (inb : UInt32) (s : Sess) :
    rmcpTo (sessLit k c name rsp inb).rmcp = (initLayers s c).rmcp := rfl

theorem sessLit_msg (k : Keys) (c : Cmd) (name : String) (rsp : Opaque) (inb : UInt32) (s : Sess) (hc : c.ent < 4294967296) :
    msgTo (sessLit k c name rsp inb).message = (initLayers s c).msg := by
  simp only [sessLit, msgTo, cmdOf, initLayers, ofNat32_toNat _ hc]
  have h1 : ({ toBitVec := Gen.slaveAddress (UInt8.toBitVec 16) } : UInt8) = 0x20 := by decide
  have h2 : ({ toBitVec := Gen.swidAddress (UInt8.toBitVec 64) } : UInt8) = 0x81 := by decide
  rw [h1, h2]

theorem sessLit_v2 (c : Cmd) (name : String) (rsp : Opaque) (s : Sess) (hi : s.inbound < 4294967296) (hr : s.remoteID < 4294967296) :
    v2To (sessLit s.keys c name rsp (UInt32.ofNat s.inbound)).v2Session
      = { (initLayers s c).v2 with sequence := (s.inbound + 1) % 4294967296 } := by
  simp only [sessLit, v2To, initLayers, sessConsts, Sess.keys, ofNat32_toNat _ hr, ofNat32_succ, ipmi_PayloadDescriptorIPMI]
  rw [ofNat32_toNat _ (Nat.mod_lt _ (by decide))]
  rfl

/-- the datagram the instantiated serialiser produces from the layer structs the closure built is the model's -/
theorem serBytes_attempt (C : Ops) (c : Cmd) (name : String) (rsp : Opaque) (s : Sess) (iv : Bytes)
    (hi : s.inbound < 4294967296) (hr : s.remoteID < 4294967296) (hc : c.ent < 4294967296) :
    serBytes C s.keys c iv (sessLit s.keys c name rsp (UInt32.ofNat s.inbound)) = (attempt C (initLayers s c) c iv).2 := by
  unfold serBytes
  rw [sessLit_rmcp _ _ _ _ _ s, sessLit_msg _ _ _ _ _ s hc, sessLit_v2 c name rsp s hi hr]
  rfl

end Bmc.Lemmas.GenLoops
