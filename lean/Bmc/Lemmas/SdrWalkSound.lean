import Bmc.Lemmas.SdrWalkSpec
/-! Helper lemmas for C14, part 3: soundness of a walk that ends normally against a BMC whose repository may change
    at any moment, as long as the two timestamps read the same before and after. -/
namespace Bmc.Lemmas.SdrWalk
open Bmc Bmc.Wire Bmc.Spec Bmc.Proto.SdrWalk

theorem call_cases {α : Type} (dec : Bytes → R α) (w : World) (q : Req) :
    ∃ o : Option α, call bmc dec w q = ((w.answer (toSpec q)).1, o) := ⟨_, call_bmc dec w q _ _ rfl⟩

/-- along a walk the timestamps never go back and the BMC stays one whose stores are well formed -/
theorem walkLoop_mono (k : Bool) (fuel : Nat) : ∀ (w : World) (resv id : Nat) (m : SDRRepository),
    tsLe w (walkLoop k bmc fuel w resv id m).1 ∧ (w.Inv → (walkLoop k bmc fuel w resv id m).1.Inv) := by
  induction fuel with
  | zero => intro w resv id m; exact ⟨tsLe_refl w, fun h => h⟩
  | succ n ih =>
    intro w resv id m
    rw [walkLoop]
    split
    · exact ⟨tsLe_refl w, fun h => h⟩
    · obtain ⟨o, ho⟩ := call_cases GetSDRRsp.decode w (.getSDR resv id 0 5)
      rw [ho]
      have m1 := answer_mono w (toSpec (.getSDR resv id 0 5))
      have i1 := answer_inv w (toSpec (.getSDR resv id 0 5))
      cases o with
      | none => exact ⟨m1, i1⟩
      | some hdr =>
        simp only
        cases SDRHeader.decodeGo {} (GoSlice.ofBytes hdr.payload) with
        | ok header =>
          simp only
          split
          · split
            · exact ⟨m1, i1⟩
            · obtain ⟨o2, ho2⟩ := call_cases GetSDRRsp.decode (w.answer (toSpec (.getSDR resv id 0 5))).1
                (.getSDR resv id 5 header.length.toNat)
              rw [ho2]
              have m2 := answer_mono (w.answer (toSpec (.getSDR resv id 0 5))).1 (toSpec (.getSDR resv id 5 header.length.toNat))
              have i2 := answer_inv (w.answer (toSpec (.getSDR resv id 0 5))).1 (toSpec (.getSDR resv id 5 header.length.toNat))
              cases o2 with
              | none => exact ⟨tsLe_trans m1 m2, fun h => i2 (i1 h)⟩
              | some body =>
                simp only
                cases FullSensorRecord.decodeGo {} (GoSlice.ofBytes body.payload) with
                | ok fsr =>
                  simp only
                  have := ih ((w.answer (toSpec (.getSDR resv id 0 5))).1.answer (toSpec (.getSDR resv id 5 header.length.toNat))).1
                    resv body.next (Proto.SdrWalk.insert m (if k = true then header.id else id) fsr)
                  exact ⟨tsLe_trans (tsLe_trans m1 m2) this.1, fun h => this.2 (i2 (i1 h))⟩
                | _ => exact ⟨tsLe_trans m1 m2, fun h => i2 (i1 h)⟩
          · have := ih (w.answer (toSpec (.getSDR resv id 0 5))).1 resv hdr.next m
            exact ⟨tsLe_trans m1 this.1, fun h => this.2 (i1 h)⟩
        | _ => exact ⟨m1, i1⟩

/-- … and from the first answer of an iteration on -/
theorem walkLoop_first_mono (k : Bool) (n : Nat) (w : World) (resv id : Nat) (m : SDRRepository) (hid : id ≠ 0xFFFF) :
    tsLe (w.answer (toSpec (.getSDR resv id 0 5))).1 (walkLoop k bmc (n + 1) w resv id m).1 := by
  rw [walkLoop, if_neg hid]
  obtain ⟨o, ho⟩ := call_cases GetSDRRsp.decode w (.getSDR resv id 0 5)
  rw [ho]
  cases o with
  | none => exact tsLe_refl _
  | some hdr =>
    simp only
    cases SDRHeader.decodeGo {} (GoSlice.ofBytes hdr.payload) with
    | ok header =>
      simp only
      split
      · split
        · exact tsLe_refl _
        · obtain ⟨o2, ho2⟩ := call_cases GetSDRRsp.decode (w.answer (toSpec (.getSDR resv id 0 5))).1
            (.getSDR resv id 5 header.length.toNat)
          rw [ho2]
          have m2 := answer_mono (w.answer (toSpec (.getSDR resv id 0 5))).1 (toSpec (.getSDR resv id 5 header.length.toNat))
          cases o2 with
          | none => exact m2
          | some body =>
            simp only
            cases FullSensorRecord.decodeGo {} (GoSlice.ofBytes body.payload) with
            | ok fsr =>
              simp only
              exact tsLe_trans m2 (walkLoop_mono k n _ resv body.next _).1
            | _ => exact m2
      · exact (walkLoop_mono k n _ resv hdr.next m).1
    | _ => exact tsLe_refl _

theorem locate_nil (id : Nat) : locate [] id = none := by
  unfold locate; split
  · rfl
  · split <;> rfl

/-- nothing can be read from an empty repository -/
theorem call_getSDR_empty (w : World) (resv id off len : Nat)
    (hrecs : (w.answer (.getSDR resv id off len)).1.repo.store.recs = []) :
    call bmc GetSDRRsp.decode w (.getSDR resv id off len) = ((w.answer (.getSDR resv id off len)).1, none) := by
  have hans := answer_getSDR w resv id off len
  unfold Repo.getSDR at hans
  rw [hrecs, locate_nil] at hans
  split at hans
  · rw [call_bmc _ w (.getSDR resv id off len) _ _ hans]
    simp [GetSDRRsp.decode, GetSDRRsp.decodeGo, toSpec]
  · rw [call_bmc _ w (.getSDR resv id off len) _ _ hans]
    simp [GetSDRRsp.decode, GetSDRRsp.decodeGo, toSpec]

/-- a Get SDR that succeeded returned the next record's ID and the window asked for -/
theorem getSDR_determined (w : World) (resv id off len : Nat) (pre : List SdrRec) (r : SdrRec) (rest : List SdrRec)
    (hwf : wfStore (pre ++ r :: rest))
    (hrecs : (w.answer (.getSDR resv id off len)).1.repo.store.recs = pre ++ r :: rest)
    (hid : id = r.id ∨ (id = 0 ∧ pre = [])) (hoff : off ≤ 5 + r.body.length) (w1 : World) (rsp : GetSDRRsp)
    (h : call bmc GetSDRRsp.decode w (.getSDR resv id off len) = (w1, some rsp)) :
    rsp.next = nextID rest ∧ rsp.payload = (r.bytes.drop off).take (if len = 0xFF then r.bytes.length else len) := by
  rw [call_getSDR_at w resv id off len pre r rest hwf hrecs hid hoff] at h
  split at h
  · simp at h
  · simp only [Prod.mk.injEq, Option.some.injEq] at h
    rw [← h.2]
    exact ⟨rfl, rfl⟩

/-- the position of a walk that may also be standing at the start of an EMPTY repository -/
def PosOK' (pre rest : List SdrRec) (id : Nat) : Prop := PosOK pre rest id ∨ (pre = [] ∧ rest = [] ∧ id = 0)

theorem posOK_cons (pre rest : List SdrRec) (id : Nat) (h : PosOK' pre rest id) (hid : id ≠ 0xFFFF) :
    (∃ r rest', rest = r :: rest' ∧ (id = r.id ∨ (id = 0 ∧ pre = []))) ∨ (pre = [] ∧ rest = []) := by
  rcases h with h | ⟨h1, h2, _⟩
  · cases rest with
    | nil => exact absurd h hid
    | cons r rest' => exact Or.inl ⟨r, rest', rfl, h⟩
  · exact Or.inr ⟨h1, h2⟩

/-- SOUNDNESS of the walk (repaired keying): against a BMC whose repository may be modified and whose reservation may
    be cancelled before any request, a walk that ends normally while the timestamps stand still has collected
    exactly the Full Sensor Records of the store, each under its own ID -/
theorem walkLoop_sound (fuel : Nat) : ∀ (w : World) (resv id : Nat) (pre rest : List SdrRec) (w' : World) (m' : SDRRepository),
    w.Inv → w.repo.store.recs = pre ++ rest → PosOK' pre rest id →
    walkLoop true bmc fuel w resv id (fullView pre) = (w', .ok m') → tsEq w w' →
    m' = fullView (pre ++ rest) ∧ w'.repo.store.recs = pre ++ rest := by
  induction fuel with
  | zero => intro w resv id pre rest w' m' _ _ _ h; simp [walkLoop] at h
  | succ n ih =>
    intro w resv id pre rest w' m' hInv hrecs hpos h hts
    have hwf : wfStore (pre ++ rest) := by rw [← hrecs]; exact (inv_store w hInv).1
    rw [walkLoop] at h
    by_cases hid : id = 0xFFFF
    · rw [if_pos hid] at h
      simp only [Prod.mk.injEq, Res.ok.injEq] at h
      obtain ⟨rfl, rfl⟩ := h
      cases rest with
      | nil => simp [hrecs]
      | cons r rest =>
        exfalso
        have := (hwf.2.1 r (by simp)).1
        rcases hpos with hpos | ⟨_, h2, _⟩
        · simp only [PosOK] at hpos
          omega
        · simp at h2
    · rw [if_neg hid] at h
      have hfirst := walkLoop_first_mono true n w resv id (fullView pre) hid
      rcases posOK_cons pre rest id hpos hid with ⟨r, rest, rfl, hid'⟩ | ⟨rfl, rfl⟩
      case inr =>
        -- an empty repository: the very first read fails
        exfalso
        rw [walkLoop, if_neg hid] at hfirst
        rw [h] at hfirst
        obtain ⟨e1, _⟩ := tsEq_squeeze (answer_mono w (toSpec (.getSDR resv id 0 5))) hfirst hts
        have r1 := answer_same w _ e1
        rw [hrecs] at r1
        rw [call_getSDR_empty w resv id 0 5 (by simpa [toSpec] using r1)] at h
        simp at h
      have hr := hwf.2.1 r (by simp)
      have hwf' : wfStore ((pre ++ [r]) ++ rest) := by simpa using hwf
      obtain ⟨o, ho⟩ := call_cases GetSDRRsp.decode w (.getSDR resv id 0 5)
      rw [ho] at h
      have m1 := answer_mono w (toSpec (.getSDR resv id 0 5))
      have i1 := answer_inv w (toSpec (.getSDR resv id 0 5)) hInv
      have s1 := answer_same w (toSpec (.getSDR resv id 0 5))
      obtain ⟨w1, hw1⟩ : ∃ w1, w1 = (w.answer (toSpec (.getSDR resv id 0 5))).1 := ⟨_, rfl⟩
      rw [← hw1] at ho m1 i1 h s1
      cases o with
      | none => simp at h
      | some hdr =>
        simp only at h
        cases hh : SDRHeader.decodeGo {} (GoSlice.ofBytes hdr.payload) with
        | ok header =>
          rw [hh] at h
          simp only at h
          by_cases ht : header.typ = 1
          · rw [if_pos ht] at h
            by_cases hl : header.length.toNat > 64
            · rw [if_pos hl] at h; simp at h
            · rw [if_neg hl] at h
              obtain ⟨o2, ho2⟩ := call_cases GetSDRRsp.decode w1 (.getSDR resv id 5 header.length.toNat)
              rw [ho2] at h
              have m2 := answer_mono w1 (toSpec (.getSDR resv id 5 header.length.toNat))
              have i2 := answer_inv w1 (toSpec (.getSDR resv id 5 header.length.toNat)) i1
              have s2 := answer_same w1 (toSpec (.getSDR resv id 5 header.length.toNat))
              obtain ⟨w2, hw2⟩ : ∃ w2, w2 = (w1.answer (toSpec (.getSDR resv id 5 header.length.toNat))).1 := ⟨_, rfl⟩
              rw [← hw2] at ho2 m2 i2 h s2
              cases o2 with
              | none => simp at h
              | some body =>
                simp only at h
                cases hf : FullSensorRecord.decodeGo {} (GoSlice.ofBytes body.payload) with
                | ok fsr =>
                  rw [hf] at h
                  simp only [if_true] at h
                  -- the timestamps stood still at every step, so the records did
                  have m3 := (walkLoop_mono true n w2 resv body.next (Proto.SdrWalk.insert (fullView pre) header.id fsr)).1
                  rw [h] at m3
                  obtain ⟨e1, e2⟩ := tsEq_squeeze m1 (tsLe_trans m2 m3) hts
                  obtain ⟨e2, e3⟩ := tsEq_squeeze m2 m3 e2
                  have r1 := s1 e1
                  have r2 := s2 e2
                  rw [hrecs] at r1
                  rw [r1] at r2
                  -- so both reads returned this record's bytes
                  rw [hw1] at ho r1
                  obtain ⟨n1, p1⟩ := getSDR_determined w resv id 0 5 pre r rest hwf r1 hid' (by omega) _ hdr ho
                  rw [p1, show (if (5 : Nat) = 0xFF then r.bytes.length else 5) = 5 by simp, header_decode r (by omega) hr.2] at hh
                  simp only [R.ok.injEq] at hh
                  subst hh
                  simp only at ht hl h ho2 hw2
                  rw [hw2] at ho2 r2
                  obtain ⟨n2, p2⟩ := getSDR_determined w1 resv id 5 _ pre r rest hwf r2 hid' (by omega) _ body ho2
                  rw [body_window r hr.2] at p2
                  rw [p2, FullSensorRecord.decodeGo_refines, GoSlice.vis_ofBytes] at hf
                  have hd : FullSensorRecord.decode r.body = .ok fsr := by
                    cases hx : FullSensorRecord.decode r.body with
                    | ok f => rw [hx] at hf; simp only [R.ofExcept_ok, R.ok.injEq] at hf; rw [hf]
                    | error e => rw [hx] at hf; simp at hf
                  rw [insert_own pre r rest fsr hwf ht hd, n2] at h
                  rw [← hw2] at r2
                  have := ih w2 resv (nextID rest) (pre ++ [r]) rest w' m' i2 (by rw [r2]; simp) (Or.inl (posOK_next pre r rest)) h e3
                  simpa using this
                | err => rw [hf] at h; simp at h
                | panic => rw [hf] at h; simp at h
                | overread => rw [hf] at h; simp at h
          · rw [if_neg ht] at h
            have m3 := (walkLoop_mono true n w1 resv hdr.next (fullView pre)).1
            rw [h] at m3
            obtain ⟨e1, e2⟩ := tsEq_squeeze m1 m3 hts
            have r1 := s1 e1
            rw [hrecs] at r1
            rw [hw1] at ho r1
            obtain ⟨n1, p1⟩ := getSDR_determined w resv id 0 5 pre r rest hwf r1 hid' (by omega) _ hdr ho
            rw [p1, show (if (5 : Nat) = 0xFF then r.bytes.length else 5) = 5 by simp, header_decode r (by omega) hr.2] at hh
            simp only [R.ok.injEq] at hh
            subst hh
            simp only at ht
            rw [← fullView_snoc_other pre r ht, n1] at h
            rw [← hw1] at r1
            have := ih w1 resv (nextID rest) (pre ++ [r]) rest w' m' i1 (by rw [r1]; simp) (Or.inl (posOK_next pre r rest)) h e2
            simpa using this
        | err => rw [hh] at h; simp at h
        | panic => rw [hh] at h; simp at h
        | overread => rw [hh] at h; simp at h

end Bmc.Lemmas.SdrWalk
