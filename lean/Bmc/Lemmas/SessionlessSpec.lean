import Bmc.Proto.Sessionless
import Bmc.Lemmas.SessionSpec
/-! The session-less send loop refines the documented contract. -/
namespace Bmc.Proto
open Bmc Bmc.Wire Bmc.Crypto

def slView (p : SlLayers × Decoded) : Decoded × Option Message := (p.2, if p.2 = .message then some p.1.msg else none)

theorem slOnReply_view (l : SlLayers) (d : GoSlice) : slView (slOnReply l d) = slView (slOnReply {} d) := by
  unfold slOnReply
  have h1 : RMCP.decodeGo l.rmcp d = RMCP.decodeGo ({} : SlLayers).rmcp d := rfl
  have h2 : ∀ p, V2Session.decodeGo (fun _ => []) l.v2 p = V2Session.decodeGo (fun _ => []) ({} : SlLayers).v2 p := fun _ => rfl
  have h3 : ∀ p, Message.decodeGo 8 l.msg p = Message.decodeGo 8 ({} : SlLayers).msg p := fun _ => rfl
  rw [h1]; simp only [h2, h3]
  repeat' split
  all_goals rfl

def slClassify (c : Cmd) (d : Bytes) : Class :=
  match slView (slOnReply {} (GoSlice.ofBytes d)) with
  | (.crash, _) => .crash
  | (.message, some msg) =>
    if slAcceptable c msg && !isTemp msg.completionCode then .final msg.completionCode msg.payload else .retry
  | _ => .retry

/-- the documented behaviour outside a session: lost replies and anything that is not a final answer are retried
    until the context expires -/
def slExpected (cls : Bytes → Class) : List Outcome → Nat × Res
  | [] => (0, .ctxExpired)
  | .lost :: rest => ((slExpected cls rest).1 + 1, (slExpected cls rest).2)
  | .reply d :: rest =>
    match cls d with
    | .final cc p => (1, .ok cc p)
    | .crash => (1, .crashed)
    | .retry => ((slExpected cls rest).1 + 1, (slExpected cls rest).2)

theorem slClassify_eq (c : Cmd) (l : SlLayers) (d : Bytes) :
    slClassify c d =
      (match slOnReply l (GoSlice.ofBytes d) with
       | (_, .crash) => Class.crash
       | (l2, .message) =>
         if slAcceptable c l2.msg && !isTemp l2.msg.completionCode
         then Class.final l2.msg.completionCode l2.msg.payload else Class.retry
       | _ => Class.retry) := by
  unfold slClassify
  rw [← slOnReply_view l]
  generalize slOnReply l (GoSlice.ofBytes d) = p
  obtain ⟨l2, how⟩ := p
  cases how <;> simp [slView]

/-- REFINEMENT: result and transmissions of the session-less loop are those of the contract, and every transmission
    is the one serialised request -/
theorem slLoop_spec (c : Cmd) (pkt : Bytes) (l : SlLayers) (script : List Outcome) :
    (slLoop c pkt l script).2 = (slExpected (slClassify c) script).2 ∧
    (slLoop c pkt l script).1 = List.replicate (slExpected (slClassify c) script).1 pkt := by
  induction script generalizing l with
  | nil => simp [slLoop, slExpected]
  | cons o rest ih =>
    cases o with
    | lost =>
      simp only [slLoop, slExpected, List.replicate_succ]
      exact ⟨(ih l).1, by rw [(ih l).2]⟩
    | reply d =>
      simp only [slExpected, slClassify_eq c l d]
      unfold slLoop
      generalize slOnReply l (GoSlice.ofBytes d) = p
      obtain ⟨l2, how⟩ := p
      cases how
      · simp only [List.replicate_succ]; exact ⟨(ih l2).1, by rw [(ih l2).2]⟩
      · simp
      · simp only [List.replicate_succ]; exact ⟨(ih l2).1, by rw [(ih l2).2]⟩
      · simp only []
        split
        · simp
        · simp only [List.replicate_succ]; exact ⟨(ih l2).1, by rw [(ih l2).2]⟩

theorem slExpected_ok_inv (cls : Bytes → Class) (script : List Outcome) (cc : UInt8) (p : Bytes)
    (h : (slExpected cls script).2 = .ok cc p) : ∃ d, Outcome.reply d ∈ script ∧ cls d = .final cc p := by
  induction script with
  | nil => simp [slExpected] at h
  | cons o rest ih =>
    cases o with
    | lost =>
      simp only [slExpected] at h
      obtain ⟨d', hm, hd⟩ := ih h
      exact ⟨d', by simp [hm], hd⟩
    | reply d =>
      simp only [slExpected] at h
      cases hc : cls d with
      | final cc' p' =>
        rw [hc] at h; simp at h
        exact ⟨d, by simp, by rw [hc, h.1, h.2]⟩
      | crash => rw [hc] at h; simp at h
      | retry =>
        rw [hc] at h
        obtain ⟨d', hm, hd⟩ := ih h
        exact ⟨d', by simp [hm], hd⟩

end Bmc.Proto
