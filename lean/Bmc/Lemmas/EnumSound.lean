import Bmc.Lemmas.EnumParse
/-! Helper lemmas for C16, the converse direction of the record parser: whatever it accepts IS the encoding of a list
    of well-formed records, and the entries returned are that list's expansion. -/
namespace Bmc.Lemmas.Enum
open Bmc Bmc.Proto.Enum Bmc.Spec.Enum

-- finite facts: a byte carrying a tag is the specification's tagged byte of its low six bits --------------------------
theorem integ_of_tag : ∀ b : UInt8, (b >>> 6 == 1) = true → (b &&& 0x3f).toNat < 64 ∧ integByte (b &&& 0x3f).toNat = b := by
  apply forall_uint8; decide +kernel
theorem conf_of_tag : ∀ b : UInt8, (b >>> 6 == 2) = true → (b &&& 0x3f).toNat < 64 ∧ confByte (b &&& 0x3f).toNat = b := by
  apply forall_uint8; decide +kernel
theorem auth_of_tag : ∀ b : UInt8, (b >>> 6 != 0) = false → b.toNat < 64 ∧ authByte b.toNat = b := by
  apply forall_uint8; decide +kernel
theorem start_std : ∀ b : UInt8, (b >>> 1 != 0x60) = false → (b &&& 1 == 0) = true → b = 0xC0 := by
  apply forall_uint8; decide +kernel
theorem start_oem : ∀ b : UInt8, (b >>> 1 != 0x60) = false → (b &&& 1 == 0) = false → b = 0xC1 := by
  apply forall_uint8; decide +kernel

theorem iana_bytes (b2 b3 b4 : UInt8) :
    b2.toNat + b3.toNat * 256 + b4.toNat * 65536 < 16777216 ∧
    UInt8.ofNat ((b2.toNat + b3.toNat * 256 + b4.toNat * 65536) % 256) = b2 ∧
    UInt8.ofNat ((b2.toNat + b3.toNat * 256 + b4.toNat * 65536) / 256 % 256) = b3 ∧
    UInt8.ofNat ((b2.toNat + b3.toNat * 256 + b4.toNat * 65536) / 65536 % 256) = b4 := by
  have h2 := b2.toNat_lt; have h3 := b3.toNat_lt; have h4 := b4.toNat_lt
  refine ⟨by omega, ?_, ?_, ?_⟩ <;> (apply UInt8.toNat_inj.mp; simp; omega)

/-- what the scan collected is a run of tagged bytes lying at `off` -/
theorem scan_sound (tag : UInt8) (mk : Nat → UInt8)
    (hmk : ∀ b : UInt8, (b >>> 6 == tag) = true → (b &&& 0x3f).toNat < 64 ∧ mk (b &&& 0x3f).toNat = b) (j : Bytes) :
    ∀ (f off : Nat) (acc : List Nat) (o : Nat) (a : List Nat), scan j tag f off acc = .ok (o, a) →
    ∃ run, (∀ x ∈ run, x < 64) ∧ a = acc ++ run ∧ o = off + run.length ∧ (j.drop off).take run.length = run.map mk := by
  intro f
  induction f with
  | zero =>
    intro off acc o a h
    simp only [scan, R.ok.injEq, Prod.mk.injEq] at h
    exact ⟨[], by simp, by simp [h.2], by simp [h.1], by simp⟩
  | succ n ih =>
    intro off acc o a h
    unfold scan at h
    by_cases hlt : j.length > off
    · simp only [hlt, if_true, bidx_eq, R.bind_ok] at h
      by_cases ht : (j.getD off 0 >>> 6 == tag) = true
      · simp only [ht, if_true] at h
        obtain ⟨run, h1, h2, h3, h4⟩ := ih _ _ _ _ h
        obtain ⟨m1, m2⟩ := hmk _ ht
        refine ⟨(j.getD off 0 &&& 0x3f).toNat :: run, ?_, by simp [h2], by simp [h3]; omega, ?_⟩
        · intro x hx
          simp only [List.mem_cons] at hx
          rcases hx with rfl | hx
          · exact m1
          · exact h1 x hx
        · rw [List.drop_eq_getElem_cons hlt]
          have : j[off] = j.getD off 0 := by simp [List.getD_eq_getElem?_getD, List.getElem?_eq_getElem hlt]
          simp only [List.length_cons, List.take_succ_cons, List.map_cons, this, m2, h4]
      · simp only [ht, if_false, Bool.false_eq_true, R.ok.injEq, Prod.mk.injEq] at h
        exact ⟨[], by simp, by simp [h.2], by simp [h.1], by simp⟩
    · simp only [hlt, if_false, R.ok.injEq, Prod.mk.injEq] at h
      exact ⟨[], by simp, by simp [h.2], by simp [h.1], by simp⟩

/-- the algorithm part of an accepted iteration: the bytes from `off` on are an authentication byte, a run of integrity
    bytes, a run of confidentiality bytes and the new `joined` -/
theorem parseAlgs_sound (j : Bytes) (id iana off : Nat) (hoff : off < j.length) (es : List Entry) (j' : Bytes)
    (h : parseAlgs j id iana off = .ok (es, j')) :
    ∃ a integ conf, a < 64 ∧ (∀ x ∈ integ, x < 64) ∧ (∀ x ∈ conf, x < 64) ∧
      j.drop off = authByte a :: (integ.map integByte ++ conf.map confByte) ++ j' ∧
      es = cross id iana a (Proto.Enum.orNone integ) (Proto.Enum.orNone conf) := by
  unfold parseAlgs at h
  simp only [bidx_eq, hoff, if_true, R.bind_ok] at h
  by_cases ha : (j.getD off 0 >>> 6 != 0) = true
  · simp only [ha, if_true] at h; cases h
  · simp only [ha, if_false, Bool.false_eq_true] at h
    obtain ⟨o1, i1, h1, h1a, h1b⟩ := scan_ok j 1 j.length (off + 1) [] (by omega)
    obtain ⟨o2, i2, h2, h2a, h2b⟩ := scan_ok j 2 j.length o1 [] h1b
    rw [h1] at h; simp only [R.bind_ok] at h
    rw [h2] at h; simp only [R.bind_ok] at h
    have hng : ¬ (o2 > j.length) := by omega
    simp only [hng, if_false, R.pure_eq, R.ok.injEq, Prod.mk.injEq] at h
    obtain ⟨r1, s1, s2, s3, s4⟩ := scan_sound 1 integByte integ_of_tag j _ _ _ _ _ h1
    obtain ⟨r2, t1, t2, t3, t4⟩ := scan_sound 2 confByte conf_of_tag j _ _ _ _ _ h2
    simp only [List.nil_append] at s2 t2
    subst s2 t2
    obtain ⟨a1, a2⟩ := auth_of_tag _ ((Bool.not_eq_true _).mp ha)
    refine ⟨(j.getD off 0).toNat, i1, i2, a1, s1, t1, ?_, h.1.symm⟩
    have hget : j[off] = j.getD off 0 := by simp [List.getD_eq_getElem?_getD, List.getElem?_eq_getElem hoff]
    rw [List.drop_eq_getElem_cons hoff, hget, a2, ← s4, ← t4, ← h.2]
    have e1 : List.drop (off + 1) j = List.take i1.length (List.drop (off + 1) j) ++ List.drop o1 j := by
      have := (List.take_append_drop i1.length (List.drop (off + 1) j)).symm
      rw [List.drop_drop] at this
      rw [s3]; exact this
    have e2 : List.drop o1 j = List.take i2.length (List.drop o1 j) ++ List.drop o2 j := by
      have := (List.take_append_drop i2.length (List.drop o1 j)).symm
      rw [List.drop_drop] at this
      rw [t3]; exact this
    simp only [List.cons_append, List.append_assoc]
    rw [← e2, ← e1]

theorem list_ge3 (j : Bytes) (h : ¬ j.length < 3) : ∃ a b c t, j = a :: b :: c :: t := by
  match j, h with
  | a :: b :: c :: t, _ => exact ⟨a, b, c, t, rfl⟩
  | [], h => simp at h
  | [_], h => simp at h
  | [_, _], h => simp at h

theorem list_ge6 (j : Bytes) (h : ¬ j.length < 6) : ∃ a b c d e g t, j = a :: b :: c :: d :: e :: g :: t := by
  match j, h with
  | a :: b :: c :: d :: e :: g :: t, _ => exact ⟨a, b, c, d, e, g, t, rfl⟩
  | [], h => simp at h
  | [_], h => simp at h
  | [_, _], h => simp at h
  | [_, _, _], h => simp at h
  | [_, _, _, _], h => simp at h
  | [_, _, _, _, _], h => simp at h

/-- an accepted iteration consumed exactly the encoding of a well-formed record -/
theorem parseOne_sound (j : Bytes) (hj : 0 < j.length) (es : List Entry) (j' : Bytes) (h : parseOne j = .ok (es, j')) :
    ∃ r : Record, r.wf ∧ j = r.encode ++ j' ∧ es = (expand r).map view := by
  have h0 := h
  unfold parseOne at h
  simp only [bidx_eq, hj, if_true, R.bind_ok] at h
  by_cases hs : (j.getD 0 0 >>> 1 != 0x60) = true
  · simp only [hs, if_true] at h; cases h
  · have hs' : (j.getD 0 0 >>> 1 != 0x60) = false := by simpa using hs
    simp only [hs, if_false, Bool.false_eq_true] at h
    by_cases hk : (j.getD 0 0 &&& 1 == 0) = true
    · simp only [hk, if_true] at h
      by_cases h3 : j.length < 3
      · simp only [h3, if_true] at h; cases h
      · obtain ⟨a, b, c, t, rfl⟩ := list_ge3 j h3
        have ha : a = 0xC0 := start_std a (by simpa using hs') (by simpa using hk)
        subst ha
        rw [parseOne_std b (c :: t) (by simp)] at h0
        obtain ⟨au, integ, conf, w1, w2, w3, hd, he⟩ := parseAlgs_sound _ _ _ 2 (by simp) es j' h0
        refine ⟨⟨b.toNat, none, au, integ, conf⟩, (by unfold Record.wf; exact ⟨b.toNat_lt, (by intro n hn; cases hn), w1, w2, w3⟩), ?_, ?_⟩
        · simp only [List.drop_succ_cons, List.drop_zero] at hd
          simp [Record.encode, Record.header, hd]
        · rw [← cross_expand]; exact he
    · have hk' : (j.getD 0 0 &&& 1 == 0) = false := by simpa using hk
      simp only [hk, if_false, Bool.false_eq_true] at h
      by_cases h6 : j.length < 6
      · simp only [h6, if_true] at h; cases h
      · obtain ⟨a, b, c, d, e, g, t, rfl⟩ := list_ge6 j h6
        have ha : a = 0xC1 := start_oem a (by simpa using hs') (by simpa using hk')
        subst ha
        rw [parseOne_oem b c d e (g :: t) (by simp)] at h0
        obtain ⟨au, integ, conf, w1, w2, w3, hd, he⟩ := parseAlgs_sound _ _ _ 5 (by simp) es j' h0
        obtain ⟨n1, n2, n3, n4⟩ := iana_bytes c d e
        refine ⟨⟨b.toNat, some (c.toNat + d.toNat * 256 + e.toNat * 65536), au, integ, conf⟩,
          (by unfold Record.wf; exact ⟨b.toNat_lt, (by intro n hn; cases hn; exact n1), w1, w2, w3⟩), ?_, ?_⟩
        · simp only [List.drop_succ_cons, List.drop_zero] at hd
          simp [Record.encode, Record.header, hd, n2, n3, n4]
        · rw [← cross_expand]; exact he

/-- whatever the loop accepts is the encoding of a list of well-formed records, and the result is its expansion -/
theorem parseLoop_sound : ∀ (f : Nat) (j : Bytes) (acc es : List Entry), parseLoop f j acc = .ok es →
    ∃ rs : List Record, (∀ r ∈ rs, r.wf) ∧ j = encodeRecords rs ∧ es = acc ++ (rs.flatMap expand).map view := by
  intro f
  induction f with
  | zero => intro j acc es h; simp [parseLoop] at h
  | succ n ih =>
    intro j acc es h
    unfold parseLoop at h
    by_cases hj : j.length > 0
    · simp only [hj, if_true] at h
      rcases parseOne_total j hj with he | ⟨es1, j1, he, _⟩
      · rw [he] at h; cases h
      · rw [he] at h
        simp only [R.bind_ok] at h
        obtain ⟨r, hw, hje, hes⟩ := parseOne_sound j hj es1 j1 he
        obtain ⟨rs, hws, hj1, hes2⟩ := ih j1 _ es h
        refine ⟨r :: rs, ?_, ?_, ?_⟩
        · intro x hx
          simp only [List.mem_cons] at hx
          rcases hx with rfl | hx
          · exact hw
          · exact hws x hx
        · rw [encodeRecords_cons, ← hj1]; exact hje
        · simp [hes2, hes, List.append_assoc]
    · simp only [hj, if_false, R.ok.injEq] at h
      have : j = [] := by
        cases j with
        | nil => rfl
        | cons a t => simp at hj
      exact ⟨[], by simp, by simp [this, encodeRecords], by simp [h]⟩

end Bmc.Lemmas.Enum
