import Bmc.Proto.Handshake
/-! Inversion of the handshake model: what must have held for each step to succeed. -/
namespace Bmc.Proto
open Bmc Bmc.Wire Bmc.Crypto

theorem stepOpen_ok (o : Opts) (script : List Outcome) (osr : OpenSessionRsp) (h : stepOpen o script = .ok osr) :
    osr.tag = 0 ∧ osr.status = 0 ∧ osr.auth = o.auth ∧ osr.integ = o.integ ∧ osr.conf = o.conf ∧
    ∃ p1, exchangePayload script = .ok p1 ∧ OpenSessionRsp.decodeGo {} p1 = .ok osr := by
  unfold stepOpen at h
  repeat' split at h
  all_goals first
    | (cases h; done)
    | (injection h with h; subst h; simp_all; done)

theorem stepRakp2_ok (C : Ops) (o : Opts) (rm : Bytes) (osr : OpenSessionRsp) (script2 : List Outcome) (rk2 : RAKP2)
    (hh : HashAlg) (h : stepRakp2 C o rm osr script2 = .ok (rk2, hh)) :
    rk2.tag = 0 ∧ rk2.status = 0 ∧ authHash osr.auth = some hh ∧ rk2.authCode = rakp2Code C hh o rm osr rk2 ∧
    ∃ p2, exchangePayload script2 = .ok p2 ∧ RAKP2.decodeGo true {} p2 = .ok rk2 := by
  unfold stepRakp2 at h
  repeat' split at h
  all_goals first
    | (cases h; done)
    | (injection h with h; injection h with h1 h2; subst h1 h2; simp_all; done)

/-- the incorrect-password error arises exactly from a well-formed, status-OK RAKP 2 whose AuthCode differs from the
    keyed hash of the exchanged values under the caller's password -/
theorem stepRakp2_badpw (C : Ops) (o : Opts) (rm : Bytes) (osr : OpenSessionRsp) (script2 : List Outcome)
    (h : stepRakp2 C o rm osr script2 = .error .incorrectPassword) :
    ∃ p2 rk2 hh, exchangePayload script2 = .ok p2 ∧ RAKP2.decodeGo true {} p2 = .ok rk2 ∧ rk2.tag = 0 ∧ rk2.status = 0 ∧
      authHash osr.auth = some hh ∧ rk2.authCode ≠ rakp2Code C hh o rm osr rk2 := by
  unfold stepRakp2 at h
  repeat' split at h
  all_goals first
    | (cases h; done)
    | (rename_i e he; unfold exchangePayload at he; repeat' split at he
       all_goals first | (cases he; done) | (injection he with he; subst he; cases h; done))
    | (refine ⟨_, _, _, ‹exchangePayload script2 = _›, ‹RAKP2.decodeGo true _ _ = _›, ?_, ?_, ‹authHash _ = _›, ?_⟩ <;> simp_all)

theorem stepRakp4_ok (C : Ops) (o : Opts) (rm : Bytes) (osr : OpenSessionRsp) (rk2 : RAKP2) (hh : HashAlg)
    (script3 : List Outcome) (r : HsRes) (h : stepRakp4 C o rm osr rk2 hh script3 = .ok r) :
    (osr.integ = 1 ∨ osr.integ = 2 ∨ osr.integ = 4) ∧ osr.conf = 1 ∧
    r = .ok osr.consoleSessionID osr.bmcSessionID osr.auth osr.integ osr.conf (sikOf C hh o rm rk2)
          (C.hmac hh (sikOf C hh o rm rk2) (List.replicate 20 1)) (C.hmac hh (sikOf C hh o rm rk2) (List.replicate 20 2)) ∧
    ∃ p3 rk4, exchangePayload script3 = .ok p3 ∧ RAKP4.decodeGo {} p3 = .ok rk4 ∧ rk4.tag = 0 ∧ rk4.status = 0 ∧
      rk4.icv = icvOf C hh osr.auth (sikOf C hh o rm rk2) rm osr rk2 := by
  unfold stepRakp4 at h
  simp only [] at h
  repeat' split at h
  all_goals first
    | (cases h; done)
    | (injection h with h; subst h
       refine ⟨?_, by simp_all, rfl, _, _, ‹exchangePayload script3 = _›, ‹RAKP4.decodeGo _ _ = _›, by simp_all, by simp_all,
         by simp_all⟩
       by_cases e1 : osr.integ = 1
       · exact Or.inl e1
       · by_cases e2 : osr.integ = 2
         · exact Or.inr (Or.inl e2)
         · right; right; simp_all)

/-- a session is returned only through the three successful steps -/
theorem newSession_ok (C : Ops) (o : Opts) (rm : Bytes) (script : List Outcome) (l r : Nat) (a i c : UInt8)
    (sik k1 k2 : Bytes) (h : (newSession C o rm script).2 = .ok l r a i c sik k1 k2) :
    ∃ osr rk2 hh script2 script3,
      stepOpen o script = .ok osr ∧ stepRakp2 C o rm osr script2 = .ok (rk2, hh) ∧
      stepRakp4 C o rm osr rk2 hh script3 = .ok (.ok l r a i c sik k1 k2) ∧ o.user.length ≤ 16 := by
  unfold newSession at h
  simp only [] at h
  split at h
  · rename_i e he
    simp only at h
    subst h
    unfold stepOpen at he
    repeat' split at he
    all_goals first | (cases he; done) | (injection he with he; cases he; done) | skip
    all_goals (rename_i e' he'; unfold exchangePayload at he'; repeat' split at he'
               all_goals first | (cases he'; done) | (injection he' with he'; subst he'; injection he with he; cases he))
  · rename_i osr hosr
    split at h
    · simp at h
    · rename_i rk1 hrk1
      have hu : o.user.length ≤ 16 := by
        unfold RAKP1.encode at hrk1
        split at hrk1
        · cases hrk1
        · omega
      split at h
      · rename_i e he
        simp only at h
        subst h
        unfold stepRakp2 at he
        repeat' split at he
        all_goals first | (cases he; done) | (injection he with he; cases he; done) | skip
        all_goals (rename_i e' he'; unfold exchangePayload at he'; repeat' split at he'
                   all_goals first | (cases he'; done) | (injection he' with he'; subst he'; injection he with he; cases he))
      · rename_i rk2 hh h2
        split at h
        · rename_i e he
          simp only at h
          subst h
          unfold stepRakp4 at he
          simp only [] at he
          repeat' split at he
          all_goals first | (cases he; done) | (injection he with he; cases he; done) | skip
          all_goals (rename_i e' he'; unfold exchangePayload at he'; repeat' split at he'
                     all_goals first | (cases he'; done) | (injection he' with he'; subst he'; injection he with he; cases he))
        · rename_i rr h3
          simp only at h
          subst h
          exact ⟨osr, rk2, hh, _, _, hosr, h2, h3, hu⟩

end Bmc.Proto
