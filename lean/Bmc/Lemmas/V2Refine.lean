import Bmc.Wire.V2Session
namespace Bmc.Wire
open Bmc

theorem V2Session.decodeGo_refines (mac : Bytes → Bytes) (prev : V2Session) (d : GoSlice) :
    V2Session.decodeGo mac prev d = R.ofExcept (V2Session.decode mac d.vis) := by
  unfold V2Session.decodeGo V2Session.decode
  simp -zeta only [GoSlice.vis_length]
  by_cases h12 : d.len < 12
  · simp [h12]
  · simp -zeta only [h12, if_false]
    simp -zeta (disch := omega) only [GoSlice.idx_ok, R.bind_ok]
    split
    · rfl
    · cases hoem : (List.getD d.vis 1 0 &&& 0x3f == 2) <;>
      cases hauth : (List.getD d.vis 1 0 &&& 0x40 != 0) <;>
      simp only [hoem, hauth, Bool.false_and, Bool.true_and, Bool.not_true, Bool.not_false, if_true, if_false,
        Bool.false_eq_true, reduceIte, R.bind_ok, R.pure_eq, decide_eq_true_eq]
      all_goals
        iterate 4
          all_goals (try simp (disch := omega) only [GoSlice.slice_ok, GoSlice.sliceFrom_ok, R.bind_ok, R.bind_err,
            GoSlice.sub_vis, GoSlice.sub_len, R.ofExcept_ok, R.ofExcept_error, R.ofExcept_ite, GoSlice.idx_ok,
            if_true, if_false, le32_take, le16_take, Nat.sub_zero, List.drop_zero, Nat.add_sub_cancel_left,
            GoSlice.take_len_drop_vis])
          all_goals (try rfl)
          all_goals (try (repeat' split))
          all_goals (try (exfalso; omega))
#print axioms V2Session.decodeGo_refines
