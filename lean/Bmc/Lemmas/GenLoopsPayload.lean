import Bmc.Lemmas.GenLoops
import Bmc.Proto.Handshake
/-! The regenerated `V2Sessionless.buildAndSendPayload` (`Gen/Loops.lean`) instantiated with the pieces of the hand model of the
    session-setup exchanges (`Proto/Handshake.lean`): `gopacket.SerializeLayers` := the model's encoders (null session wrapper
    around the payload bytes, RMCP — what `setupDatagram` composes) on the field values the layer structs hold; the connection's
    decoder := the model's `payloadReply`; the transport := the outcome script. -/
namespace Bmc.Lemmas.GenLoops
open Bmc Bmc.Wire Bmc.Crypto Bmc.Proto Bmc.GoOrch Bmc.GoLoops Bmc.Gen.Loops

def plSerLayers (payload : Bytes) (L : Layers) : Layers :=
  { L with v2Session := v2Of (V2Session.encode (fun _ => []) (v2To L.v2Session) payload).1
                          L.v2Session.integrityAlgorithm L.v2Session.confidentialityLayerType }
def plSerBytes (payload : Bytes) (L : Layers) : Bytes :=
  RMCP.encode (rmcpTo L.rmcp) ++ (V2Session.encode (fun _ => []) (v2To L.v2Session) payload).2

/-- `gopacket.SerializeLayers(buffer, serializeOptions, &rmcp, &v2session, p.Request())`: `payload` = what the request layer
    of the payload serialises to, `fails` = it returns an error -/
def plSerialize (payload : Bytes) (fails : Bool) (w : SW) (o : SerializeOptions) (L : Layers) (args : List LayerArg) :
    SW × Layers × Bytes × Bool :=
  if o = { fixLengths := true, computeChecksums := true } ∧ args = [.rmcp, .v2Session, .iface 4] ∧
     L.v2Session.integrityAlgorithm = 0 ∧ fails = false then
    (w, plSerLayers payload L, plSerBytes payload L, true)
  else (w, L, [], false)

/-- the connection's decoder as the model's `payloadReply`: a panic; or the innermost layer is not the session wrapper (an error
    or a chain that went further — the model does not tell them apart: both are retried); or the wrapper's payload -/
def plDecode (L : Layers) (_t : Decoded) (d : Bytes) : Layers × Decoded × DecodeOutcome :=
  match payloadReply (GoSlice.ofBytes d) with
  | .crash => (L, .crash, .panic)
  | .retry => (L, .notMessage, .ok)
  | .got p => ({ L with v2Session := { L.v2Session with payload := p.vis } }, .message, .ok)

def plWorld (payload : Bytes) (fails : Bool) (bodyDecodes : Bytes → Bool) : World SW Decoded :=
  { serializeLayers := plSerialize payload fails
    transportSend := SW.send
    decode := plDecode
    innermostEquals := fun t ty => t == .message && ty == .ipmi_LayerTypeV2Session
    backoffWait := SW.wait
    decodeFromBytes := fun _ p => bodyDecodes p }

/-- the payload as the getters of `ipmi.Payload` present it -/
def plOf (ptype : UInt8) (rsp : Opaque) : ipmi_Payload :=
  { descriptor := { payloadType := ptype }, request := 4, response := rsp }

/-- the layer structs as `buildAndSendPayload` builds them (the message layer is not mentioned: it keeps what it held) -/
def plLit (ptype : UInt8) (rsp : Opaque) (L : Layers) : Layers :=
  { L with rmcp := { version := 6, sequence := 255, class_ := 7 }, v2Session := { payloadDescriptor := (plOf ptype rsp).descriptor } }

theorem plLit_bytes (ptype : UInt8) (rsp : Opaque) (payload : Bytes) (L : Layers) :
    plSerBytes payload (plLit ptype rsp L) = setupDatagram ptype payload := rfl

theorem plSerialize_ok (payload : Bytes) (bd : Bytes → Bool) (ptype : UInt8) (rsp : Opaque) (w : SW) (L : Layers)
    (hI : L.v2Session.integrityAlgorithm = 0) :
    (plWorld payload false bd).serializeLayers w bmc_serializeOptions L [.rmcp, .v2Session, .iface (plOf ptype rsp).request]
      = (w, plSerLayers payload L, plSerBytes payload L, true) := by
  simp [plWorld, plSerialize, hI, bmc_serializeOptions, plOf]

theorem plSerialize_fail (payload : Bytes) (bd : Bytes → Bool) (w : SW) (o : SerializeOptions) (L : Layers) (args : List LayerArg) :
    (plWorld payload true bd).serializeLayers w o L args = (w, L, [], false) := by
  simp [plWorld, plSerialize]

theorem plInnermost_notMessage (payload : Bytes) (f : Bool) (bd : Bytes → Bool) :
    innermostEquals (plWorld payload f bd) Decoded.notMessage LayerTy.ipmi_LayerTypeV2Session = some GoErr.innermost := rfl
theorem plInnermost_message (payload : Bytes) (f : Bool) (bd : Bytes → Bool) :
    innermostEquals (plWorld payload f bd) Decoded.message LayerTy.ipmi_LayerTypeV2Session = none := rfl

/-- what is observed of one run of the payload closure: outcome, surroundings, counter, log, buffer, and the wrapper's payload -/
def obsP {α : Type} (r : RF α × SW × Conn Decoded) : RF α × SW × UInt32 × List Ev × Bytes × Bytes :=
  (r.1, r.2.1, r.2.2.inbound, r.2.2.events, r.2.2.buffer, r.2.2.layers.v2Session.payload)

section steps
variable (payload : Bytes) (f : Bool) (bd : Bytes → Bool)

theorem plStep_nil (ivs : List Bytes) (sent : List Bytes) (i e : Bool) (K : Conn Decoded) :
    obsB (V2Sessionless_buildAndSendPayload_func1 (plWorld payload f bd) ()
          (({ ivs := ivs, script := [], sent := sent, inSend := i, expired := e } : SW), K))
      = (.ok ((), some .transport), { ivs := ivs, script := [], sent := sent, inSend := i, expired := true },
         K.inbound, K.events, K.buffer) := by
  simp only [V2Sessionless_buildAndSendPayload_func1]
  loop_simp
  rw [transportSend_eq (r := none) (w1 := { ivs := ivs, script := [], sent := sent, inSend := i, expired := true }) (h := rfl)]
  loop_simp
  simp only [obsB]

theorem plStep_lost (ivs : List Bytes) (rest : List Outcome) (sent : List Bytes) (i e : Bool) (K : Conn Decoded) :
    obsB (V2Sessionless_buildAndSendPayload_func1 (plWorld payload f bd) ()
          (({ ivs := ivs, script := .lost :: rest, sent := sent, inSend := i, expired := e } : SW), K))
      = (.ok ((), some .transport), { ivs := ivs, script := rest, sent := sent ++ [K.buffer], inSend := i, expired := e },
         K.inbound, K.events, K.buffer) := by
  simp only [V2Sessionless_buildAndSendPayload_func1]
  loop_simp
  rw [transportSend_eq (h := send_lost ..)]
  loop_simp
  simp only [obsB]

theorem plStep_reply (ivs : List Bytes) (d : Bytes) (rest : List Outcome) (sent : List Bytes) (i e : Bool) (K : Conn Decoded) :
    obsP (V2Sessionless_buildAndSendPayload_func1 (plWorld payload f bd) ()
          (({ ivs := ivs, script := .reply d :: rest, sent := sent, inSend := i, expired := e } : SW), K))
      = (match payloadReply (GoSlice.ofBytes d) with
         | .crash => .panic
         | .retry => .ok ((), some .innermost)
         | .got _ => .ok ((), none),
         { ivs := ivs, script := rest, sent := sent ++ [K.buffer], inSend := i, expired := e }, K.inbound, K.events, K.buffer,
         match payloadReply (GoSlice.ofBytes d) with
         | .got p => p.vis
         | _ => K.layers.v2Session.payload) := by
  simp only [V2Sessionless_buildAndSendPayload_func1]
  loop_simp
  rw [transportSend_eq (h := send_reply ..)]
  loop_simp
  cases hp : payloadReply (GoSlice.ofBytes d) with
  | crash =>
    rw [decodeLayers_eq (L1 := K.layers) (t1 := .crash) (o := .panic) (h := by show plDecode _ K.decoded d = _; simp [plDecode, hp])]
    loop_simp
    simp only [obsP]
  | retry =>
    rw [decodeLayers_eq (L1 := K.layers) (t1 := .notMessage) (o := .ok) (h := by show plDecode _ K.decoded d = _; simp [plDecode, hp])]
    loop_simp [plInnermost_notMessage]
    simp only [obsP]
    try rfl
  | got p =>
    rw [decodeLayers_eq (L1 := { K.layers with v2Session := { K.layers.v2Session with payload := p.vis } }) (t1 := .message) (o := .ok)
      (h := by show plDecode _ K.decoded d = _; simp [plDecode, hp])]
    loop_simp [plInnermost_message]
    simp only [obsP]
    try rfl

end steps
/-- the outcome of the translated payload loop against the model's -/
def PlOk (r : RF (Unit × Option GoErr) × SW × Conn Decoded) : Option PayloadReply → Prop
  | none => r.1 = .ok ((), some .ctx)
  | some .crash => r.1 = .panic
  | some (.got p) => r.1 = .ok ((), none) ∧ r.2.2.layers.v2Session.payload = p.vis
  | some .retry => False

/-- THE LOOP (session setup): the serialised datagram is handed to the transport once per attempt until a reply decodes down to
    the session wrapper, as `Proto.exchange` says -/
theorem retry_exchange (payload : Bytes) (f : Bool) (bd : Bytes → Bool) :
    ∀ (script : List Outcome), script ≠ [] → ∀ (fuel : Nat), script.length ≤ fuel →
      ∀ (ivs sent0 : List Bytes) (e0 : Bool) (K : Conn Decoded),
      let r := backoffRetry SW.wait fuel (V2Sessionless_buildAndSendPayload_func1 (plWorld payload f bd)) ()
                ({ ivs := ivs, script := script, sent := sent0, inSend := false, expired := e0 }, K)
      let m := exchange script
      r.2.1.sent = sent0 ++ List.replicate m.1 K.buffer ∧ r.2.2.inbound = K.inbound ∧ r.2.2.buffer = K.buffer ∧
      r.2.2.events = K.events ∧ PlOk r m.2 := by
  intro script
  induction script with
  | nil => intro h; exact absurd rfl h
  | cons o rest ih =>
    intro _ fuel hfu ivs sent0 e0 K
    cases fuel with
    | zero => simp at hfu
    | succ n =>
    have hfu' : rest.length ≤ n := by simpa using hfu
    intro r m
    have again : ∀ (e : GoErr),
        (V2Sessionless_buildAndSendPayload_func1 (plWorld payload f bd) ()
          ({ ivs := ivs, script := o :: rest, sent := sent0, inSend := false, expired := e0 }, K)).1 = .ok ((), some e) →
        (V2Sessionless_buildAndSendPayload_func1 (plWorld payload f bd) ()
          ({ ivs := ivs, script := o :: rest, sent := sent0, inSend := false, expired := e0 }, K)).2.1
            = { ivs := ivs, script := rest, sent := sent0 ++ [K.buffer], inSend := false, expired := e0 } →
        (V2Sessionless_buildAndSendPayload_func1 (plWorld payload f bd) ()
          ({ ivs := ivs, script := o :: rest, sent := sent0, inSend := false, expired := e0 }, K)).2.2.inbound = K.inbound →
        (V2Sessionless_buildAndSendPayload_func1 (plWorld payload f bd) ()
          ({ ivs := ivs, script := o :: rest, sent := sent0, inSend := false, expired := e0 }, K)).2.2.events = K.events →
        (V2Sessionless_buildAndSendPayload_func1 (plWorld payload f bd) ()
          ({ ivs := ivs, script := o :: rest, sent := sent0, inSend := false, expired := e0 }, K)).2.2.buffer = K.buffer →
        let m' := exchange rest
        r.2.1.sent = sent0 ++ List.replicate (m'.1 + 1) K.buffer ∧ r.2.2.inbound = K.inbound ∧ r.2.2.buffer = K.buffer ∧
        r.2.2.events = K.events ∧ PlOk r m'.2 := by
      intro e he hw hin hev hbuf m'
      have hr0 : r = _ := retry_of_err SW.wait _ n _ _ e _ he
      rw [show (V2Sessionless_buildAndSendPayload_func1 (plWorld payload f bd) ()
          ({ ivs := ivs, script := o :: rest, sent := sent0, inSend := false, expired := e0 }, K)).2 = (_, _) from Prod.ext hw rfl,
          afterErr_script] at hr0
      cases rest with
      | nil =>
        simp only [List.isEmpty_nil, Bool.not_false, Bool.true_or, Bool.and_self, if_true] at hr0
        rw [hr0]
        simp only [m', exchange]
        exact ⟨by simp, hin, hbuf, hev, by simp [PlOk]⟩
      | cons o2 rest2 =>
        simp only [List.isEmpty_cons, Bool.false_and, Bool.false_eq_true, if_false] at hr0
        have := ih (by simp) n hfu' ivs (sent0 ++ [K.buffer]) e0
          (V2Sessionless_buildAndSendPayload_func1 (plWorld payload f bd) ()
            ({ ivs := ivs, script := o :: o2 :: rest2, sent := sent0, inSend := false, expired := e0 }, K)).2.2
        simp only at this
        rw [← hr0, hbuf, hin, hev] at this
        obtain ⟨t1, t2, t3, t4, t5⟩ := this
        exact ⟨by rw [t1]; simp [List.replicate_succ, m'], t2, t3, t4, t5⟩
    cases o with
    | lost =>
      have st := plStep_lost payload f bd ivs rest sent0 false e0 K
      simp only [obsB, Prod.mk.injEq] at st
      obtain ⟨s1, s2, s3, s4, s5⟩ := st
      have := again _ s1 s2 s3 s4 s5
      simp only [m, exchange]
      exact this
    | reply d =>
      have st := plStep_reply payload f bd ivs d rest sent0 false e0 K
      simp only [obsP, Prod.mk.injEq] at st
      obtain ⟨s1, s2, s3, s4, s5, s6⟩ := st
      simp only [m, exchange]
      cases hp : payloadReply (GoSlice.ofBytes d) with
      | crash =>
        rw [hp] at s1; simp only at s1 ⊢
        have hr0 : r = _ := retry_of_panic SW.wait _ n _ _ s1
        rw [hr0]
        exact ⟨by simp [s2], s3, s5, s4, by simp [PlOk]⟩
      | got p =>
        rw [hp] at s1 s6; simp only at s1 s6 ⊢
        have hr0 : r = _ := retry_of_nil SW.wait _ n _ _ _ s1
        rw [hr0]
        exact ⟨by simp [s2], s3, s5, s4, by simp [PlOk, s6]⟩
      | retry =>
        rw [hp] at s1; simp only at s1 ⊢
        exact again _ s1 s2 s3 s4 s5

/-- the connection once `buildAndSendPayload` has built the layer structs and serialised them -/
def plReady (ptype : UInt8) (rsp : Opaque) (payload : Bytes) (K : Conn Decoded) : Conn Decoded :=
  { K with layers := plSerLayers payload (plLit ptype rsp K.layers), buffer := plSerBytes payload (plLit ptype rsp K.layers) }

theorem plBuild_serfail (ptype : UInt8) (rsp : Opaque) (payload : Bytes) (bd : Bytes → Bool) (fuel : Nat) (w : SW) (K : Conn Decoded) :
    obs (V2Sessionless_buildAndSendPayload (plWorld payload true bd) fuel (plOf ptype rsp) (w, K))
      = (.ok (some .serialize), w, K.inbound, K.events) := by
  simp only [V2Sessionless_buildAndSendPayload]
  loop_simp
  rw [serializeLayers_eq (h := plSerialize_fail payload bd _ _ _ _)]
  loop_simp
  simp only [obs]

theorem plBuild_ok (ptype : UInt8) (rsp : Opaque) (payload : Bytes) (bd : Bytes → Bool) (fuel : Nat) (w : SW) (K : Conn Decoded) :
    V2Sessionless_buildAndSendPayload (plWorld payload false bd) fuel (plOf ptype rsp) (w, K)
      = (match (backoffRetry SW.wait fuel (V2Sessionless_buildAndSendPayload_func1 (plWorld payload false bd)) () (w, plReady ptype rsp payload K)).1 with
         | .ok x => .ok (if x.2 != none then x.2 else
             decodeFromBytes (plWorld payload false bd) rsp
               (backoffRetry SW.wait fuel (V2Sessionless_buildAndSendPayload_func1 (plWorld payload false bd)) () (w, plReady ptype rsp payload K)).2.2.layers.v2Session.payload)
         | r => castBad r,
         (backoffRetry SW.wait fuel (V2Sessionless_buildAndSendPayload_func1 (plWorld payload false bd)) () (w, plReady ptype rsp payload K)).2) := by
  simp only [V2Sessionless_buildAndSendPayload]
  loop_simp
  rw [serializeLayers_eq (h := plSerialize_ok payload bd ptype rsp _ _ rfl)]
  loop_simp
  show M.cont _ (backoffRetry SW.wait fuel _ () (w, plReady ptype rsp payload K)) = _
  generalize backoffRetry SW.wait fuel (V2Sessionless_buildAndSendPayload_func1 (plWorld payload false bd)) () (w, plReady ptype rsp payload K) = x
  obtain ⟨r, w', K'⟩ := x
  cases r with
  | ok v =>
    obtain ⟨u, e⟩ := v
    cases e <;> (loop_simp; try rfl)
  | _ => rfl

end Bmc.Lemmas.GenLoops
