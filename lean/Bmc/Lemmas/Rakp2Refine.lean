import Bmc.Wire.Rakp2
import Bmc.Lemmas.V2Refine
namespace Bmc.Wire
open Bmc

theorem RAKP2.decodeGo_refines (prev : RAKP2) (d : GoSlice) :
    RAKP2.decodeGo true prev d = R.ofExcept (RAKP2.decode d.vis) := by
  unfold RAKP2.decodeGo RAKP2.decode
  simp -zeta only [GoSlice.vis_length]
  by_cases h8 : d.len < 8
  · simp [h8]
  · simp -zeta only [h8, if_false]
    simp -zeta (disch := omega) only [GoSlice.idx_ok, R.bind_ok]
    cases hst : (List.getD d.vis 1 0 == 0) <;>
      simp only [hst, Bool.true_and, if_true, if_false, Bool.false_eq_true, reduceIte, decide_eq_true_eq]
    all_goals
      go_round [le32_take]
      go_round [le32_take]
      go_round [le32_take]
    have : d.vis.drop 40 = [] := List.drop_eq_nil_of_le (by simp; omega)
    simp [this]
#print axioms RAKP2.decodeGo_refines
