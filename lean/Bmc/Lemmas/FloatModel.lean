/-! # The standard model of floating-point arithmetic, over ℚ (core Lean only)

`Rounding`: a unit round-off `u ≥ 0` and a rounding function with relative error at most `u` — what IEEE-754 guarantees for
every correctly rounded operation whose result is in the normal range (binary64, round to nearest: `u = 2⁻⁵³`).
`Approx a' a A c`: the computed `a'` stands for the exact `a`, whose magnitude is at most `A`, with error at most `A·(c − 1)`;
`c` is the accumulated factor `(1 + u)^k`. The three closure lemmas (`rnd`, `mul`, `add`) are the whole error analysis. -/
namespace Bmc.FloatModel

def ab (x : Rat) : Rat := if 0 ≤ x then x else -x

theorem ab_nonneg (x : Rat) : 0 ≤ ab x := by unfold ab; split <;> grind
theorem le_ab (x : Rat) : x ≤ ab x := by unfold ab; split <;> grind
theorem neg_le_ab (x : Rat) : -x ≤ ab x := by unfold ab; split <;> grind
theorem ab_le (x b : Rat) (h1 : x ≤ b) (h2 : -x ≤ b) : ab x ≤ b := by unfold ab; split <;> grind
theorem ab_add (a b : Rat) : ab (a + b) ≤ ab a + ab b := by
  apply ab_le <;> have := le_ab a <;> have := le_ab b <;> have := neg_le_ab a <;> have := neg_le_ab b <;> grind
theorem ab_of_nonneg (x : Rat) (h : 0 ≤ x) : ab x = x := by unfold ab; simp [h]
theorem ab_sub_self (x : Rat) : ab (x - x) = 0 := by
  have e : x - x = 0 := by grind
  rw [e]; rfl
theorem ab_mul (a b : Rat) : ab (a * b) = ab a * ab b := by
  unfold ab
  by_cases ha : 0 ≤ a <;> by_cases hb : 0 ≤ b
  · have := Rat.mul_nonneg ha hb; simp [ha, hb, this]
  · have hb' : 0 ≤ -b := by grind
    have := Rat.mul_nonneg ha hb'
    by_cases h0 : 0 ≤ a * b
    · simp [ha, hb, h0]; grind
    · simp [ha, hb, h0]; grind
  · have ha' : 0 ≤ -a := by grind
    have := Rat.mul_nonneg ha' hb
    by_cases h0 : 0 ≤ a * b
    · simp [ha, hb, h0]; grind
    · simp [ha, hb, h0]; grind
  · have ha' : 0 ≤ -a := by grind
    have hb' : 0 ≤ -b := by grind
    have := Rat.mul_nonneg ha' hb'
    have h0 : 0 ≤ a * b := by grind
    simp [ha, hb, h0]; grind

/-- product of two inequalities between non-negative rationals -/
theorem mul_le_mul' {x X y Y : Rat} (hx : x ≤ X) (hy : y ≤ Y) (h0 : 0 ≤ x) (h1 : 0 ≤ y) : x * y ≤ X * Y := by
  have hX : 0 ≤ X := by grind
  have a := Rat.mul_le_mul_of_nonneg_left hy h0      -- x * y ≤ x * Y
  have b := Rat.mul_le_mul_of_nonneg_left hx (by grind : 0 ≤ Y)   -- Y * x ≤ Y * X
  grind

structure Rounding where
  u : Rat
  u_nonneg : 0 ≤ u
  rnd : Rat → Rat
  rnd_err : ∀ x, ab (rnd x - x) ≤ u * ab x

/-- exact arithmetic is a rounding (so the hypotheses of everything below are satisfiable) -/
def Rounding.exact : Rounding := ⟨0, by decide, id, fun x => by show ab (x - x) ≤ 0 * ab x; rw [ab_sub_self]; grind⟩

structure Approx (a' a A c : Rat) : Prop where
  err : ab (a' - a) ≤ A * (c - 1)
  mag : ab a ≤ A
  c1 : 1 ≤ c

theorem Approx.exact (a : Rat) : Approx a a (ab a) 1 :=
  ⟨by rw [ab_sub_self]; grind, by grind, by decide⟩

theorem Approx.magA {a' a A c : Rat} (h : Approx a' a A c) : 0 ≤ A := by have := ab_nonneg a; have := h.mag; grind

/-- the computed value itself is at most `A·c` in magnitude -/
theorem Approx.computed_mag {a' a A c : Rat} (h : Approx a' a A c) : ab a' ≤ A * c := by
  have t := ab_add (a' - a) a
  have e : a' - a + a = a' := by grind
  rw [e] at t
  have := h.err; have := h.mag
  grind

theorem Approx.mono {a' a A c d : Rat} (h : Approx a' a A c) (hd : c ≤ d) : Approx a' a A d := by
  refine ⟨?_, h.mag, by have := h.c1; grind⟩
  have := Rat.mul_le_mul_of_nonneg_left (by grind : c - 1 ≤ d - 1) h.magA
  have := h.err
  grind

/-- one more rounding multiplies the factor by `1 + u` -/
theorem Approx.rnd (R : Rounding) {a' a A c : Rat} (h : Approx a' a A c) : Approx (R.rnd a') a A (c * (1 + R.u)) := by
  refine ⟨?_, h.mag, ?_⟩
  · have t := ab_add (R.rnd a' - a') (a' - a)
    have e : R.rnd a' - a' + (a' - a) = R.rnd a' - a := by grind
    rw [e] at t
    have r := R.rnd_err a'
    have m := Rat.mul_le_mul_of_nonneg_left h.computed_mag R.u_nonneg    -- u * |a'| ≤ u * (A c)
    have := h.err
    grind
  · have := h.c1; have := R.u_nonneg
    have := Rat.mul_nonneg (by grind : (0 : Rat) ≤ c) R.u_nonneg
    grind

theorem Approx.mul {a' a A c b' b B d : Rat} (ha : Approx a' a A c) (hb : Approx b' b B d) :
    Approx (a' * b') (a * b) (A * B) (c * d) := by
  refine ⟨?_, ?_, ?_⟩
  · have e : a' * b' - a * b = (a' - a) * b' + a * (b' - b) := by grind
    rw [e]
    have t := ab_add ((a' - a) * b') (a * (b' - b))
    rw [ab_mul, ab_mul] at t
    have p1 := mul_le_mul' ha.err hb.computed_mag (ab_nonneg _) (ab_nonneg _)
    have p2 := mul_le_mul' ha.mag hb.err (ab_nonneg _) (ab_nonneg _)
    grind
  · rw [ab_mul]; exact mul_le_mul' ha.mag hb.mag (ab_nonneg _) (ab_nonneg _)
  · have := ha.c1; have := hb.c1
    have := Rat.mul_nonneg (by grind : (0 : Rat) ≤ c - 1) (by grind : (0 : Rat) ≤ d)
    grind

theorem Approx.add {a' a A b' b B c : Rat} (ha : Approx a' a A c) (hb : Approx b' b B c) :
    Approx (a' + b') (a + b) (A + B) c := by
  refine ⟨?_, ?_, ha.c1⟩
  · have e : a' + b' - (a + b) = (a' - a) + (b' - b) := by grind
    rw [e]
    have := ab_add (a' - a) (b' - b)
    have := ha.err; have := hb.err
    grind
  · have := ab_add a b; have := ha.mag; have := hb.mag; grind

/-- `(*ConversionFactors).ConvertReading` with each floating-point operation rounded by `R`:
    `mX := int64(M) * int64(raw)` (exact), `b10k1 := float64(B) * math.Pow10(K1)`, `(float64(mX) + b10k1) * math.Pow10(K2)` -/
def convertFloat (R : Rounding) (M B K1 K2 x : Int) : Rat :=
  R.rnd (R.rnd ((M : Rat) * (x : Rat) + R.rnd ((B : Rat) * R.rnd ((10 : Rat) ^ K1))) * R.rnd ((10 : Rat) ^ K2))

end Bmc.FloatModel
