import Bmc.Proto.Handshake
import Bmc.Spec.Bmc
import Bmc.Lemmas.V2Refine
import Bmc.Lemmas.ResponseAccepted
/-! A TRUNCATED handshake reply is never taken for the reply: whatever proper prefix of a session-less RMCP+ datagram
    arrives, one attempt of `buildAndSendPayload` classifies it as "retry" (the RMCP header is incomplete, or the session
    wrapper is, or its length field exceeds what is left). -/
namespace Bmc.Proto
open Bmc Bmc.Wire Bmc.Crypto

theorem ptype_bits : ∀ n : Nat, n < 64 → ((UInt8.ofNat n &&& 0x40 != 0) = false ∧ UInt8.ofNat n &&& 0x3f = UInt8.ofNat n) := by
  decide +kernel

theorem le16_spec (n : Nat) (h : n < 65536) (rest : Bytes) : Wire.le16 (Spec.le16 n ++ rest) = n := by
  simp only [Wire.le16, Spec.le16, List.cons_append, List.nil_append, List.getD_cons_zero, List.getD_cons_succ]
  rw [UInt8.toNat_ofNat', UInt8.toNat_ofNat']
  omega

/-- the 12-byte null-session wrapper header for a payload of `n` bytes -/
def nullHeader (ptype : UInt8) (n : Nat) : Bytes :=
  [6, ptype, 0, 0, 0, 0, 0, 0, 0, 0, UInt8.ofNat (n % 256), UInt8.ofNat (n / 256 % 256)]

theorem wrapper_eq (ptype : UInt8) (payload : Bytes) :
    [6, ptype] ++ Spec.le32 0 ++ Spec.le32 0 ++ Spec.le16 payload.length ++ payload = nullHeader ptype payload.length ++ payload := by
  simp [Spec.le32, Spec.le16, nullHeader]

/-- the wrapper of a session-less datagram, cut anywhere before its end, does not decode -/
theorem v2_truncated (ptype : UInt8) (hpt : ptype.toNat < 64) (hoem : ptype ≠ 2) (payload : Bytes) (hlen : payload.length < 65536)
    (m : Nat) (hm : m < 12 + payload.length) :
    V2Session.decode (fun _ => []) (([6, ptype] ++ Spec.le32 0 ++ Spec.le32 0 ++ Spec.le16 payload.length ++ payload).take m)
      = .error () := by
  rw [wrapper_eq]
  unfold V2Session.decode
  by_cases h12 : m < 12
  · have : ((nullHeader ptype payload.length ++ payload).take m).length < 12 := by
      simp [nullHeader]; omega
    generalize ((nullHeader ptype payload.length ++ payload).take m) = b at this ⊢
    simp only [this, if_true]
  · have hb := ptype_bits ptype.toNat hpt
    rw [UInt8.ofNat_toNat] at hb
    have hsplit : (nullHeader ptype payload.length ++ payload).take m = nullHeader ptype payload.length ++ payload.take (m - 12) := by
      rw [List.take_append, List.take_of_length_le (by simp [nullHeader]; omega)]
      simp [nullHeader]
    rw [hsplit]
    have hl : (nullHeader ptype payload.length ++ payload.take (m - 12)).length = m := by
      simp [nullHeader]; omega
    have hoem' : (ptype == 2) = false := by simpa using hoem
    have h16 : Wire.le16 (List.drop 10 (nullHeader ptype payload.length ++ payload.take (m - 12))) = payload.length := by
      have := le16_spec payload.length hlen (payload.take (m - 12))
      simpa [nullHeader, Spec.le16] using this
    have hg0 : (nullHeader ptype payload.length ++ payload.take (m - 12)).getD 0 0 = 6 := rfl
    have hg1 : (nullHeader ptype payload.length ++ payload.take (m - 12)).getD 1 0 = ptype := rfl
    simp only [hl, hg0, hg1, hb.1, hb.2, hoem', Bool.false_and, Bool.false_eq_true, if_false, h12, bne_self_eq_false, h16]
    have : m < 2 + 10 + payload.length := by omega
    simp [this]

theorem truncated_setup_reply_is_retry (ptype : UInt8) (hpt : ptype.toNat < 64) (hoem : ptype ≠ 2) (payload : Bytes)
    (hlen : payload.length < 65536) (n : Nat) (hn : n < (Spec.sessionless ptype payload).length) :
    payloadReply (GoSlice.ofBytes ((Spec.sessionless ptype payload).take n)) = .retry := by
  have hL : (Spec.sessionless ptype payload).length = 16 + payload.length := by
    simp [Spec.sessionless, Spec.le32, Spec.le16]; omega
  by_cases h4 : n < 4
  · unfold payloadReply RMCP.decodeGo
    have : (GoSlice.ofBytes ((Spec.sessionless ptype payload).take n)).len < 4 := by simp; omega
    generalize GoSlice.ofBytes ((Spec.sessionless ptype payload).take n) = g at this ⊢
    simp only [this, if_true]
  · have hsplit : (Spec.sessionless ptype payload).take n = [6, 0, 0xFF, 7] ++
        ([6, ptype] ++ Spec.le32 0 ++ Spec.le32 0 ++ Spec.le16 payload.length ++ payload).take (n - 4) := by
      unfold Spec.sessionless
      rw [List.take_append, List.take_of_length_le (by simp; omega)]
      simp
    rw [hsplit]
    generalize hrest : ([6, ptype] ++ Spec.le32 0 ++ Spec.le32 0 ++ Spec.le16 payload.length ++ payload).take (n - 4) = rest
    unfold payloadReply
    rw [rmcp_decode]
    simp only []
    have hvis : ((GoSlice.ofBytes ([6, 0, 0xFF, 7] ++ rest)).sub 4 (rest.length + 4) (by omega) (by simp)).vis = rest := by simp
    have hl : ((GoSlice.ofBytes ([6, 0, 0xFF, 7] ++ rest)).sub 4 (rest.length + 4) (by omega) (by simp)).len = rest.length := by simp
    rw [V2Session.decodeGo_refines, hvis, hl, ← hrest, v2_truncated ptype hpt hoem payload hlen (n - 4) (by omega)]
    simp only [R.ofExcept_error]
    repeat' split
    all_goals first | rfl | simp_all

end Bmc.Proto
