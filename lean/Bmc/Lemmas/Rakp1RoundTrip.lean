import Bmc.Wire.C08Encode
import Bmc.Lemmas.V1RoundTrip
/-! Round trip of RAKP Message 1 (C08). -/
namespace Bmc.Wire
open Bmc

/-- values of the Go struct that the wire format can carry: a 32-bit session ID, the 16-byte random (a `[16]byte` in Go),
    a privilege level that fits its nibble, a user name of at most 16 bytes -/
structure Setup.RAKP1.WF (v : Setup.RAKP1) : Prop where
  sid : v.bmcSID < 4294967296
  rnd : v.consoleRandom.length = 16
  priv : v.maxPriv.toNat < 16
  user : v.username.length ≤ 16

/-- the role byte: privilege nibble, bit 4 set = name-only lookup -/
theorem role_rt : ∀ p : Nat, p < 16 → ∀ l : Bool,
    let b : UInt8 := (UInt8.ofNat p &&& 0xF) ||| (if l then 0 else 0x10)
    ((b &&& 0x10) == 0) = l ∧ b &&& 0xF = UInt8.ofNat p := by decide +kernel

/-- the bytes `RAKPMessage1.SerializeTo` writes -/
def Setup.RAKP1.wire (v : Setup.RAKP1) : Bytes :=
  [v.tag, 0, 0, 0] ++ putLE32 v.bmcSID ++ v.consoleRandom
    ++ [(v.maxPriv &&& 0xF) ||| (if v.lookup then 0 else 0x10), 0, 0, UInt8.ofNat v.username.length] ++ v.username

theorem Setup.RAKP1.serialize_ok (v : Setup.RAKP1) (h : v.username.length ≤ 16) : v.serialize = .ok v.wire := by
  simp [Setup.RAKP1.serialize, RAKP1.encode, Setup.RAKP1.wire, show ¬ (16 < v.username.length) by omega]

theorem Setup.RAKP1.serialize_toolong (v : Setup.RAKP1) (h : 16 < v.username.length) : v.serialize = .error () := by
  simp [Setup.RAKP1.serialize, RAKP1.encode, h]

theorem Setup.RAKP1.decode_wire (v : Setup.RAKP1) (h : v.WF) :
    Setup.RAKP1.decode v.wire = .ok { v with contents := v.wire } := by
  obtain ⟨hsid, hrnd, hpriv, huser⟩ := h
  obtain ⟨tag, sid, rnd, lookup, priv, user, contents⟩ := v
  simp only at hsid hrnd hpriv huser
  have r := role_rt _ hpriv lookup
  simp only [UInt8.ofNat_toNat] at r
  obtain ⟨r1, r2⟩ := r
  have esid : sid % 256 + 256 * (sid / 256 % 256) + 65536 * (sid / 65536 % 256) + 16777216 * (sid / 16777216 % 256) = sid := by
    omega
  have g19 : ∀ (a b c d : UInt8), (rnd ++ a :: b :: c :: d :: user)[19]? = some d := by
    intro a b c d
    rw [List.getElem?_append_right (by omega)]; simp [hrnd]
  have d20 : ∀ (a b c d : UInt8), List.drop 20 (rnd ++ a :: b :: c :: d :: user) = user := by
    intro a b c d
    rw [show 20 = rnd.length + 4 by omega, ← List.drop_drop]; simp
  have eu : List.length user % 256 = List.length user := by omega
  unfold Setup.RAKP1.decode Setup.RAKP1.wire
  simp [putLE32, le32, hrnd, g19, d20, esid, r1, r2, eu]
  rw [if_neg (by omega), if_neg (by omega), if_neg (by omega)]

/-- serialise, then decode: the same value, `Contents` = the whole message -/
theorem Setup.RAKP1.decode_serialize (v : Setup.RAKP1) (h : v.WF) :
    ∃ b, v.serialize = .ok b ∧ b.length = 28 + v.username.length ∧
      Setup.RAKP1.decode b = .ok { v with contents := b } :=
  ⟨v.wire, v.serialize_ok h.user, by simp [Setup.RAKP1.wire, putLE32, h.rnd]; omega, v.decode_wire h⟩

/-- the serialiser does not read `Contents` -/
theorem Setup.RAKP1.reserialize (v : Setup.RAKP1) (c : Bytes) : ({ v with contents := c } : Setup.RAKP1).serialize = v.serialize := rfl

end Bmc.Wire
